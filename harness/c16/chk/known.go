package chk

import (
	"encoding/binary"
	"strings"
)

// Regress is a fixed hostile input kept because it once showed (or was
// suspected to show) a defect. The monitor runs all of them in every run, so
// that every signature of a known defect is observed deterministically; the
// fuzz targets run them first and do not fail on signatures that these
// inputs already produce (the monitor reports those under stable
// signatures; a fuzz failure signature contains the input digest).
type Regress struct {
	Decoder string
	Input   []byte
	Arg     int
	Note    string
}

func hdr(rows, cols int64, nd int) []byte {
	b := matMsg(rows, cols)
	return append(b, make([]byte, 8*nd)...)
}

func be32(words ...uint32) []byte {
	var b []byte
	for _, w := range words {
		b = binary.BigEndian.AppendUint32(b, w)
	}
	return b
}

// Regressions is the fixed list.
var Regressions = func() []Regress {
	l := []Regress{
		{Decoder: "rdf.ParseNQuad", Input: []byte("_:0<A:>_:0_:_."), Note: "DESIGN section 8: label '_' invented"},
		{Decoder: "rdf.ParseNQuad", Input: []byte(`<a:b> <a:c> "\UFFFFFFFF" .`), Note: "UCHAR beyond int32: Parts panics"},
		{Decoder: "rdf.ParseNQuad", Input: []byte(`<a:\UFFFFFFFF> <a:c> <a:d> .`), Note: "UCHAR beyond int32 in an IRI"},
		{Decoder: "dot.Unmarshal", Input: []byte("graph { a -- b -- b }"), Note: "self edge in the tail of an edge chain"},
		{Decoder: "dot.Unmarshal", Input: []byte("digraph { a -> b -> b }")},
		{Decoder: "dot.Unmarshal", Input: []byte("digraph { a; {a b} -> c }"), Note: "known node inside a subgraph vertex"},
		{Decoder: "dot.Unmarshal", Input: []byte("digraph { subgraph s {a b} -> c; subgraph s {a b} -> d }")},
		{Decoder: "dot.Unmarshal", Input: []byte("graph { {f g} -- {f g} }"), Note: "self edges hidden by the known-node defect"},
		{Decoder: "dot.Parse", Input: []byte("digraph { a:n:zz -> b }"), Note: "invalid compass point silently dropped"},
		{Decoder: "dot.Parse", Input: []byte("digraph { \"\\\\\n\" }"), Note: "escaped backslash before a newline taken for a line continuation"},
		{Decoder: "dot.Parse", Input: []byte("digraph { \"\\\\\n\nb\" }"), Note: "the same, leaving a string that parses differently"},
		{Decoder: "digraph6", Input: []byte("&~~C?????"), Note: "order 2^32: n*n wraps to 0"},
		{Decoder: "graph6", Input: []byte("")},
		{Decoder: "graph6", Input: []byte("~")},
		{Decoder: "digraph6", Input: []byte("&")},
	}
	for _, d := range []string{"mat.Dense.UnmarshalBinary", "mat.Dense.UnmarshalBinaryFrom"} {
		l = append(l,
			Regress{Decoder: d, Input: hdr(3, 6148914691236517206, 2), Note: "rows*cols wraps to 2"},
			Regress{Decoder: d, Input: hdr(1<<63-1, 1<<63-1, 1), Note: "rows*cols wraps to 1"},
			Regress{Decoder: d, Input: hdr(1<<61, 1, 0), Note: "8*elements wraps to 0"},
			Regress{Decoder: d, Input: hdr(1<<60, 1, 0)},
			Regress{Decoder: d, Input: hdr(1<<61, 1<<61+1, 0), Note: "rows*cols wraps to 2^61"},
			Regress{Decoder: d, Input: hdr(1<<62, 4, 0)},
			Regress{Decoder: d, Input: hdr(-1, -1, 1)},
			Regress{Decoder: d, Input: hdr(-2, -3, 6)},
			Regress{Decoder: d, Input: hdr(-1, 1, 0)},
			Regress{Decoder: d, Input: hdr(1<<63-1, 1, 0)},
		)
	}
	for _, d := range []string{"mat.VecDense.UnmarshalBinary", "mat.VecDense.UnmarshalBinaryFrom"} {
		l = append(l,
			Regress{Decoder: d, Input: hdr(1<<61, 1, 0)},
			Regress{Decoder: d, Input: hdr(1<<60, 1, 0)},
			Regress{Decoder: d, Input: hdr(-1, 1, 0)},
			Regress{Decoder: d, Input: hdr(-1<<63, 1, 0)},
			Regress{Decoder: d, Input: hdr(1<<63-1, 1, 0)},
			Regress{Decoder: d, Input: hdr(2, -1, 2)},
		)
	}
	for _, k := range HLLKinds {
		name := k.Routine
		sz := uint8(k.Bits)
		l = append(l,
			Regress{Decoder: name, Input: EncodeHLL(HLLMessage{sz, k.Name, 4, make([]uint8, 3)}), Note: "register shorter than 2^p"},
			Regress{Decoder: name, Input: EncodeHLL(HLLMessage{sz, k.Name, 4, make([]uint8, 40)})},
			Regress{Decoder: name, Input: EncodeHLL(HLLMessage{sz, k.Name, 200, make([]uint8, 16)}), Note: "precision 200"},
			Regress{Decoder: name, Input: EncodeHLL(HLLMessage{sz, k.Name, 0, nil})},
			Regress{Decoder: name, Input: EncodeHLL(HLLMessage{sz, k.Name, 3, make([]uint8, 8)})},
			Regress{Decoder: name, Input: EncodeHLL(HLLMessage{sz, k.AltName, 4, make([]uint8, 16)}), Note: "other registered hash"},
			Regress{Decoder: name, Input: EncodeHLL(HLLMessage{sz, "nosuch.hash", 4, make([]uint8, 16)})},
			Regress{Decoder: name, Input: EncodeHLL(HLLMessage{uint8(96 - k.Bits), k.Name, 4, make([]uint8, 16)})},
		)
	}
	// MT19937 index field values
	for _, mti := range []uint32{0, 623, 624, 625, 626, 1 << 31, 1<<32 - 1} {
		b := make([]byte, 2496)
		for i := range b {
			b[i] = byte(i*7 + 1)
		}
		l = append(l, Regress{Decoder: "prng.MT19937", Input: append(b, be32(mti)...)})
	}
	for _, mti := range []uint64{0, 311, 312, 313, 314, 1 << 63, 1<<64 - 1} {
		b := make([]byte, 2496)
		for i := range b {
			b[i] = byte(i*11 + 3)
		}
		l = append(l, Regress{Decoder: "prng.MT19937_64", Input: binary.BigEndian.AppendUint64(b, mti)})
	}
	l = append(l, Regress{Decoder: "cytoscapejs.GraphElem", Input: []byte(`{"elements":[{"group":"edge","data":{"id":"e","source":"a","target":"b"}}]}`), Note: "group edge reported as node"})
	return l
}()

// ActiveKnown runs the regression list and returns the signatures it
// produces on the tree under test.
func ActiveKnown() map[string]bool {
	m := map[string]bool{}
	for _, r := range Regressions {
		for _, f := range RunDecoder(r.Decoder, r.Input, r.Arg).Findings {
			m[f.Sig] = true
		}
	}
	return m
}

var _ = strings.Repeat
