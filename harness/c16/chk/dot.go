package chk

import (
	"fmt"
	"reflect"
	"sort"
	"strconv"
	"strings"

	"gonum.org/v1/gonum/graph/encoding"
	gdot "gonum.org/v1/gonum/graph/encoding/dot"
	"gonum.org/v1/gonum/graph/formats/dot"
	"gonum.org/v1/gonum/graph/formats/dot/ast"
)

// UnquoteDOT is the documented ID normal form ("Attributes and IDs are
// unquoted during unmarshalling if appropriate"): a "<...>" quoted HTML-like
// string is kept, a double-quoted string that is a valid interpreted string
// literal is unquoted, everything else is kept.
func UnquoteDOT(s string) string {
	if len(s) >= 4 && strings.HasPrefix(s, `"<`) && strings.HasSuffix(s, `>"`) {
		return s
	}
	if len(s) >= 2 && s[0] == '"' && s[len(s)-1] == '"' {
		if t, err := strconv.Unquote(s); err == nil {
			return t
		}
	}
	return s
}

// Dot validates the DOT parser on hostile bytes: no panic; when the input is
// accepted the AST must re-print to a text that re-parses to the same AST.
func Dot(b []byte) (res Result) {
	var (
		f   *ast.File
		err error
	)
	res.Calls++
	if p := try(func() { f, err = dot.ParseBytes(b) }); p != "" {
		res.Class = "dot.Parse|panic"
		res.add("dot.Parse|hostile|panic", "ParseBytes(%q) panicked: %s", clip(string(b), 200), p)
		return res
	}
	if err != nil {
		res.Class = "dot.Parse|rejected"
		return res
	}
	res.Accepted = true
	res.Class = "dot.Parse|accepted"
	if f == nil || len(f.Graphs) == 0 {
		res.add("dot.Parse|accepted|empty-file", "ParseBytes(%q) returned no error and no graph", clip(string(b), 200))
		return res
	}
	var printed string
	if p := try(func() { printed = f.String() }); p != "" {
		res.add("dot.ast.String|accepted|panic", "AST of %q panicked in String: %s", clip(string(b), 200), p)
		return res
	}
	var f2 *ast.File
	res.Calls++
	if p := try(func() { f2, err = dot.ParseString(printed) }); p != "" {
		res.add("dot.Parse|reprint|panic", "ParseString of the re-printed AST %q panicked: %s", clip(printed, 200), p)
		return res
	}
	if err != nil {
		res.add("dot.Parse|accepted|reprint-unparsable", "input %q parses; its AST prints as %q which does not parse: %v", clip(string(b), 200), clip(printed, 200), err)
		return res
	}
	if !reflect.DeepEqual(f, f2) {
		if hasBadCompass(f) {
			// "a:n:zz": the parser accepts any identifier where a compass point
			// is expected (grammar note in dot.bnf; gonum's own parser test
			// corpus requires such inputs to parse) and drops what is not a
			// compass point; the port ID "n" then prints as a compass point.
			// Documented leniency, not judged.
			res.Class += "|port-named-like-compass-point"
			return res
		}
		cls := "reprint-differs"
		res.add("dot.Parse|accepted|"+cls, "input %q parses; its AST prints as %q which parses to a different AST (%q)", clip(string(b), 200), clip(printed, 200), clip(f2.String(), 200))
	}
	return res
}

// hasBadCompass reports whether the AST holds a port whose ID is itself a
// compass point and whose compass field is empty: the shape produced by
// "a:n:xx" where xx is not a compass point (silently dropped).
func hasBadCompass(f *ast.File) bool {
	found := false
	var vertex func(v ast.Vertex)
	var stmts func(ss []ast.Stmt)
	node := func(n *ast.Node) {
		if n != nil && n.Port != nil && n.Port.CompassPoint == ast.CompassPointNone {
			switch n.Port.ID {
			case "_", "n", "ne", "e", "se", "s", "sw", "w", "nw", "c":
				found = true
			}
		}
	}
	vertex = func(v ast.Vertex) {
		switch v := v.(type) {
		case *ast.Node:
			node(v)
		case *ast.Subgraph:
			stmts(v.Stmts)
		}
	}
	stmts = func(ss []ast.Stmt) {
		for _, s := range ss {
			switch s := s.(type) {
			case *ast.NodeStmt:
				node(s.Node)
			case *ast.EdgeStmt:
				vertex(s.From)
				for e := s.To; e != nil; e = e.To {
					vertex(e.Vertex)
				}
			case *ast.Subgraph:
				stmts(s.Stmts)
			}
		}
	}
	for _, g := range f.Graphs {
		stmts(g.Stmts)
	}
	return found
}

// ---- AST interpreter: what a DOT text means ---------------------------------

// interp builds the value model of one AST graph following the DOT language
// definition: an edge statement connects every node of the left vertex with
// every node of the right vertex; the nodes of a subgraph vertex are all the
// nodes referenced inside it; statement attributes apply to every edge
// created by the statement; node identity is the ID token text.
type interp struct {
	m      *Model
	multi  bool
	rawIdx map[string]int // raw ID token -> index in order
	raw    []string
	attrs  [][]Attr
	// err is the kind of rejection the decoder must (may) answer with.
	selfEdge     bool
	directedEdge bool
	// per simple-graph edge key -> index in m.Edges
	key map[[2]int]int
	idx [][2]int
}

func (in *interp) node(raw string) int {
	if i, ok := in.rawIdx[raw]; ok {
		return i
	}
	i := len(in.raw)
	in.rawIdx[raw] = i
	in.raw = append(in.raw, raw)
	in.attrs = append(in.attrs, nil)
	return i
}

func convAttrs(as []*ast.Attr) []Attr {
	var out []Attr
	for _, a := range as {
		out = append(out, Attr{Key: UnquoteDOT(a.Key), Value: UnquoteDOT(a.Val)})
	}
	return out
}

func (in *interp) stmts(ss []ast.Stmt, seen *[]int) {
	for _, s := range ss {
		switch s := s.(type) {
		case *ast.NodeStmt:
			i := in.node(s.Node.ID)
			in.attrs[i] = append(in.attrs[i], convAttrs(s.Attrs)...)
			*seen = append(*seen, i)
		case *ast.EdgeStmt:
			in.edgeStmt(s, seen)
		case *ast.AttrStmt:
			switch s.Kind {
			case ast.GraphKind:
				in.m.GraphAttrs = append(in.m.GraphAttrs, convAttrs(s.Attrs)...)
			case ast.NodeKind:
				in.m.NodeAttrs = append(in.m.NodeAttrs, convAttrs(s.Attrs)...)
			case ast.EdgeKind:
				in.m.EdgeAttrs = append(in.m.EdgeAttrs, convAttrs(s.Attrs)...)
			}
		case *ast.Attr:
			// a bare ID=ID statement: ignored by the decoder (documented in
			// the source as such); not part of the value.
		case *ast.Subgraph:
			in.stmts(s.Stmts, seen)
		}
	}
}

func (in *interp) vertex(v ast.Vertex, seen *[]int) (nodes []int, port *ast.Port) {
	switch v := v.(type) {
	case *ast.Node:
		i := in.node(v.ID)
		*seen = append(*seen, i)
		return []int{i}, v.Port
	case *ast.Subgraph:
		var inner []int
		in.stmts(v.Stmts, &inner)
		*seen = append(*seen, inner...)
		// unique, order of first reference
		has := map[int]bool{}
		for _, i := range inner {
			if !has[i] {
				has[i] = true
				nodes = append(nodes, i)
			}
		}
		return nodes, nil
	}
	return nil, nil
}

func portOf(p *ast.Port) (string, string) {
	if p == nil {
		return "", ""
	}
	return UnquoteDOT(p.ID), p.CompassPoint.String()
}

func (in *interp) edgeStmt(s *ast.EdgeStmt, seen *[]int) {
	attrs := convAttrs(s.Attrs)
	type vx struct {
		nodes []int
		port  *ast.Port
	}
	var chain []vx
	ns, p := in.vertex(s.From, seen)
	chain = append(chain, vx{ns, p})
	for e := s.To; e != nil; e = e.To {
		if e.Directed && !in.m.Directed {
			in.directedEdge = true
		}
		ns, p := in.vertex(e.Vertex, seen)
		chain = append(chain, vx{ns, p})
	}
	for k := 0; k+1 < len(chain); k++ {
		l, r := chain[k], chain[k+1]
		for _, f := range l.nodes {
			for _, t := range r.nodes {
				var me MEdge
				me.Attrs = attrs
				me.P.FromPort, me.P.FromCompass = portOf(l.port)
				me.P.ToPort, me.P.ToCompass = portOf(r.port)
				if f == t && !in.multi {
					in.selfEdge = true
				}
				in.addEdge(f, t, me)
			}
		}
	}
}

func (in *interp) addEdge(f, t int, me MEdge) {
	if !in.multi {
		k := [2]int{f, t}
		if !in.m.Directed && t < f {
			k = [2]int{t, f}
		}
		if i, ok := in.key[k]; ok {
			old := in.m.Edges[i]
			oldO := in.idx[i]
			// same orientation and same decoration: identical; otherwise the
			// decoder may keep either.
			same := reflect.DeepEqual(old.Attrs, me.Attrs)
			if oldO == [2]int{f, t} {
				same = same && old.P == me.P
			} else {
				same = same && old.P == (Ports{me.P.ToPort, me.P.ToCompass, me.P.FromPort, me.P.FromCompass})
			}
			if !same {
				in.m.Edges[i].Ambiguous = true
			}
			return
		}
		in.key[k] = len(in.m.Edges)
	}
	in.m.Edges = append(in.m.Edges, me)
	in.idx = append(in.idx, [2]int{f, t})
}

// InterpretAST returns the value model of g, whether it contains a self
// edge (which a simple graph cannot hold) and whether it contains a directed
// edge in an undirected graph.
func InterpretAST(g *ast.Graph, multi bool) (m *Model, selfEdge, directedInUndirected bool) {
	in := &interp{
		m:      &Model{Directed: g.Directed, Multi: multi, Name: UnquoteDOT(g.ID), Nodes: map[string][]Attr{}},
		multi:  multi,
		rawIdx: map[string]int{},
		key:    map[[2]int]int{},
	}
	var seen []int
	in.stmts(g.Stmts, &seen)
	for i, raw := range in.raw {
		id := UnquoteDOT(raw)
		if _, dup := in.m.Nodes[id]; dup {
			in.m.DupIDs = true
		}
		in.m.Nodes[id] = in.attrs[i]
		in.m.NodeOrder = append(in.m.NodeOrder, id)
	}
	for i := range in.m.Edges {
		in.m.Edges[i].From = UnquoteDOT(in.raw[in.idx[i][0]])
		in.m.Edges[i].To = UnquoteDOT(in.raw[in.idx[i][1]])
		in.m.Edges[i] = in.m.Edges[i].orient(g.Directed)
	}
	return in.m, in.selfEdge, in.directedEdge
}

// ---- model comparison -----------------------------------------------------

func attrsEqual(a, b []Attr) bool {
	if len(a) != len(b) {
		return false
	}
	for i := range a {
		if a[i] != b[i] {
			return false
		}
	}
	return true
}

func edgeKey(e MEdge, full bool) string {
	var sb strings.Builder
	fmt.Fprintf(&sb, "%q->%q", e.From, e.To)
	if full {
		fmt.Fprintf(&sb, " ports=%q attrs=%q", e.P, e.Attrs)
	}
	return sb.String()
}

// CompareModels returns "" when got equals want, else a description of the
// first difference and the clause it belongs to.
func CompareModels(want, got *Model) (clause, detail string) {
	if want.Name != got.Name {
		return "graph-id", fmt.Sprintf("graph ID %q, want %q", got.Name, want.Name)
	}
	if len(want.Nodes) != len(got.Nodes) || len(want.NodeOrder) != len(got.NodeOrder) {
		return "node-set", fmt.Sprintf("node IDs %q, want %q", got.NodeOrder, want.NodeOrder)
	}
	for id, wa := range want.Nodes {
		ga, ok := got.Nodes[id]
		if !ok {
			return "node-set", fmt.Sprintf("node %q missing; got IDs %q, want %q", id, got.NodeOrder, want.NodeOrder)
		}
		if !attrsEqual(wa, ga) {
			return "node-attributes", fmt.Sprintf("node %q attributes %q, want %q", id, ga, wa)
		}
	}
	if !attrsEqual(want.GraphAttrs, got.GraphAttrs) {
		return "global-attributes", fmt.Sprintf("graph attributes %q, want %q", got.GraphAttrs, want.GraphAttrs)
	}
	if !attrsEqual(want.NodeAttrs, got.NodeAttrs) {
		return "global-attributes", fmt.Sprintf("node default attributes %q, want %q", got.NodeAttrs, want.NodeAttrs)
	}
	if !attrsEqual(want.EdgeAttrs, got.EdgeAttrs) {
		return "global-attributes", fmt.Sprintf("edge default attributes %q, want %q", got.EdgeAttrs, want.EdgeAttrs)
	}
	// topology
	topo := func(m *Model) []string {
		var l []string
		for _, e := range m.Edges {
			l = append(l, edgeKey(e, false))
		}
		sort.Strings(l)
		return l
	}
	wt, gt := topo(want), topo(got)
	if !reflect.DeepEqual(wt, gt) {
		return "edge-set", fmt.Sprintf("edges %v, want %v", gt, wt)
	}
	// decoration
	if want.Multi {
		full := func(m *Model) []string {
			var l []string
			for _, e := range m.Edges {
				l = append(l, edgeKey(e, true))
			}
			sort.Strings(l)
			return l
		}
		wf, gf := full(want), full(got)
		for i := range wf {
			if wf[i] != gf[i] {
				return "edge-attributes-or-ports", fmt.Sprintf("line %s, want %s", gf[i], wf[i])
			}
		}
		return "", ""
	}
	gm := map[string]MEdge{}
	for _, e := range got.Edges {
		gm[edgeKey(e, false)] = e
	}
	for _, w := range want.Edges {
		if w.Ambiguous {
			continue
		}
		g := gm[edgeKey(w, false)]
		if w.From == w.To {
			continue
		}
		if !attrsEqual(w.Attrs, g.Attrs) {
			return "edge-attributes", fmt.Sprintf("edge %s attributes %q, want %q", edgeKey(w, false), g.Attrs, w.Attrs)
		}
		if w.P != g.P {
			return "edge-ports", fmt.Sprintf("edge %s ports %q, want %q", edgeKey(w, false), g.P, w.P)
		}
	}
	return "", ""
}

// ---- Unmarshal on hostile bytes ----------------------------------------------

// DotUnmarshal validates encoding/dot.Unmarshal and UnmarshalMulti on
// hostile bytes: never a panic; when the text parses, the decoded graph
// must hold the value the text means.
func DotUnmarshal(b []byte) (res Result) {
	var f *ast.File
	var err error
	if p := try(func() { f, err = dot.ParseBytes(b) }); p != "" || err != nil || f == nil || len(f.Graphs) == 0 {
		res.Class = "dot.Unmarshal|unparsable"
		// still must not panic
		for _, multi := range []bool{false, true} {
			res.Calls++
			if p := try(func() { unmarshalInto(b, true, multi) }); p != "" {
				res.add("dot.Unmarshal|unparsable|panic", "Unmarshal(%q) panicked: %s", clip(string(b), 200), p)
			}
		}
		return res
	}
	g0 := f.Graphs[0]
	for _, multi := range []bool{false, true} {
		routine := "dot.Unmarshal"
		if multi {
			routine = "dot.UnmarshalMulti"
		}
		want, selfEdge, dirInUndir := InterpretAST(g0, multi)
		var (
			dst  any
			uerr error
		)
		res.Calls++
		p := try(func() { dst, uerr = unmarshalInto(b, g0.Directed, multi) })
		cls := "plain"
		switch {
		case dirInUndir:
			cls = "directed-edge-in-undirected"
		case selfEdge:
			cls = "self-edge"
		}
		res.Class = fmt.Sprintf("dot.Unmarshal|parsed|%s|graphs=%d", cls, min(len(f.Graphs), 2))
		if p != "" {
			res.add(routine+"|"+cls+"|panic", "%s(%q) panicked: %s", routine, clip(string(b), 200), p)
			continue
		}
		if dirInUndir || selfEdge {
			if uerr == nil {
				res.add(routine+"|"+cls+"|accepted", "%s(%q) = nil error although the text has a %s", routine, clip(string(b), 200), cls)
			}
			continue
		}
		if uerr != nil {
			if len(f.Graphs) != 1 && strings.Contains(uerr.Error(), "invalid number of graphs") {
				// documented: dst holds the first graph
			} else {
				res.add(routine+"|plain|rejected", "%s(%q) = %v for a text that parses and holds no self edge", routine, clip(string(b), 200), uerr)
				continue
			}
		} else if len(f.Graphs) != 1 {
			res.add(routine+"|multiple-graphs|accepted", "%s(%q) = nil error for %d graphs (documented: error)", routine, clip(string(b), 200), len(f.Graphs))
		}
		res.Accepted = true
		got := ExtractModel(dst)
		if want.DupIDs || got.DupIDs {
			// "a" and a are distinct ID tokens with one unquoted ID; the value
			// model cannot name them apart. Not judged.
			res.Class += "|dup-ids"
			continue
		}
		if clause, detail := CompareModels(want, got); clause != "" {
			res.add(routine+"|parsed|"+clause+"-differs-from-text", "%s(%q): %s", routine, clip(string(b), 300), detail)
		}
	}
	return res
}

func unmarshalInto(b []byte, directed, multi bool) (any, error) {
	switch {
	case !multi && directed:
		g := NewDDirected()
		return g, gdot.Unmarshal(b, g)
	case !multi:
		g := NewDUndirected()
		return g, gdot.Unmarshal(b, g)
	case directed:
		g := NewMDirected()
		return g, gdot.UnmarshalMulti(b, g)
	default:
		g := NewMUndirected()
		return g, gdot.UnmarshalMulti(b, g)
	}
}

var _ = encoding.Attribute{}
