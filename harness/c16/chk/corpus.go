package chk

import (
	"bytes"
	"encoding/binary"
	"fmt"
	"math"
	"strings"

	"gonum.org/v1/gonum/verifx/vrt"
)

// Decoder names understood by RunDecoder / Corpus.
var Decoders = []string{
	"graph6", "digraph6",
	"dot.Parse", "dot.Unmarshal",
	"rdf.ParseNQuad", "rdf.Decoder",
	"mat.Dense.UnmarshalBinary", "mat.Dense.UnmarshalBinaryFrom",
	"mat.VecDense.UnmarshalBinary", "mat.VecDense.UnmarshalBinaryFrom",
	"card.HyperLogLog32", "card.HyperLogLog64",
	"prng.MT19937", "prng.MT19937_64", "prng.SplitMix64",
	"prng.Xoshiro256plus", "prng.Xoshiro256plusplus", "prng.Xoshiro256starstar",
	"cytoscapejs.GraphElem", "cytoscapejs.GraphNodeEdge", "sigmajs.Graph", "gexf12.Content",
}

// RunDecoder runs the validator of the named decoder on input. arg selects
// the reader kind of stream decoders (taken modulo the number of kinds).
func RunDecoder(name string, input []byte, arg int) Result {
	if arg < 0 {
		arg = -arg
	}
	rk := arg % NumReaderKinds
	switch name {
	case "graph6":
		return G6(string(input))
	case "digraph6":
		return D6(string(input))
	case "dot.Parse":
		return Dot(input)
	case "dot.Unmarshal":
		return DotUnmarshal(input)
	case "rdf.ParseNQuad":
		return NQuad(string(input))
	case "rdf.Decoder":
		return RDFDecoder(input, rk)
	case "mat.Dense.UnmarshalBinary":
		return Mat(KDense, input, 0)
	case "mat.Dense.UnmarshalBinaryFrom":
		return Mat(KDenseFrom, input, rk)
	case "mat.VecDense.UnmarshalBinary":
		return Mat(KVec, input, 0)
	case "mat.VecDense.UnmarshalBinaryFrom":
		return Mat(KVecFrom, input, rk)
	case "card.HyperLogLog32":
		return HLL(HLL32, input)
	case "card.HyperLogLog64":
		return HLL(HLL64, input)
	}
	if strings.HasPrefix(name, "prng.") {
		for _, k := range PRNGKinds {
			if "prng."+k.Name == name {
				return PRNG(k, input)
			}
		}
	}
	for _, k := range FormatKinds {
		if k.Name == name {
			return Format(k, input)
		}
	}
	panic("chk: unknown decoder " + name)
}

// dotCorpus covers the DOT syntax: attributes, ports, subgraphs, HTML and
// quoted IDs, comments, several graphs, keywords in every case, edge chains.
var dotCorpus = []string{
	"graph { a -- b }",
	"digraph G { a -> b -> c; }",
	"strict digraph \"my graph\" {\n\tnode [shape=box, color=\"red\"];\n\tedge [style=dashed]\n\tgraph [rankdir=LR];\n\ta [label=\"A \\\"quoted\\\" one\"];\n\ta -> b [weight=2];\n}",
	"digraph { a:p1:n -> b:s; c:\"port\" -> d:_ ; e:ne -> f:w }",
	"graph { subgraph cluster0 { a; b } -- c; { d e } -- { f g } }",
	"digraph { a -> { b c } -> d [k=v]; subgraph s1 { x -> y } }",
	"digraph { <html <b>bold</b> label> -> \"q\\nnl\"; -1.5 -> .5 -> 3. }",
	"// comment\ndigraph { /* block */ a -> b # not a comment here\n }\n",
	"graph A { a } graph B { b }",
	"DIGRAPH { NODE [a=b]; EDGE [c=d]; GRAPH [e=f]; Node [g=h]; SUBGRAPH X { x } Strict1 -> Digraphs }",
	"digraph { \"node\" -> \"edge\" -> \"graph\" -> \"digraph\" -> \"subgraph\" -> \"strict\" }",
	"digraph { a [x=1 y=2; z=3, w=4] [v=5]; a -> a2 [] }",
	"graph { rank=same; a -- b -- c -- a }",
	"digraph { \"a\\\nb\" -> c; \"\" -> \"\\\\\"; é -> ü_1 }",
	"digraph { subgraph { subgraph { a } b } -> c }",
	"strict graph { a -- b; b -- a; a -- b [k=v] }",
	"digraph { a:\"n\" -> b:n:se; c:x:y -> d }",
	"digraph { {A; {B C} -> D} -> E }",
	"digraph { P -> {Q -> {R S}} }",
	"graph { {a -- {b {c d}}} -- {e; {f -- {g h}}} -- i }",
	"digraph { x; y; subgraph s1 { x -> { y; subgraph { z -> { u v } } } } -> { w { x } } }",
}

var nquadCorpus = []string{
	`<http://example.org/s> <http://example.org/p> <http://example.org/o> .`,
	`<http://example.org/s> <http://example.org/p> "literal" .`,
	`<http://example.org/s> <http://example.org/p> "chat"@fr-CA <http://example.org/g> .`,
	`_:b0 <http://example.org/p> "1"^^<http://www.w3.org/2001/XMLSchema#integer> _:g1 .`,
	`_:a.b-c <a:p> _:0_:_ .`,
	`<a:s><a:p><a:o>.`,
	`_:s<a:p>_:o.`,
	`<a:s> <a:p> "esc \t\b\n\r\f\"\'\\ \u00e9 \U0001F600" . # comment`,
	"  \t<a:s>\t<a:p>  \"x\"^^<a:t>\t<a:g>  .  ",
	`<a:\u0073> <a:p> "" .`,
	`_:1 <a:p> _:2 <a:g> . #c`,
	`<a:s> <a:p> "é日本" .`,
	`_:b·x <a:p> _:c‿d .`,
}

func matMsg(rows, cols int64, vals ...float64) []byte {
	b := make([]byte, 40)
	binary.LittleEndian.PutUint32(b, 1)
	b[4], b[5], b[6] = 'G', 'F', 'A'
	binary.LittleEndian.PutUint64(b[8:], uint64(rows))
	binary.LittleEndian.PutUint64(b[16:], uint64(cols))
	for _, v := range vals {
		b = binary.LittleEndian.AppendUint64(b, math.Float64bits(v))
	}
	return b
}

var jsonCorpus = map[string][]string{
	"cytoscapejs.GraphElem": {
		`{"elements":[{"group":"nodes","data":{"id":"a"}},{"data":{"id":"b","parent":"a","w":1.5}},{"group":"edges","data":{"id":"ab","source":"a","target":"b"},"selected":true,"classes":"x y"}],"layout":{"name":"grid"},"style":[{"selector":"node"}]}`,
		`{"elements":[{"group":"node","data":{"id":1}},{"group":"edge","data":{"id":"e","source":1,"target":1,"k":[1,"2",null,{"z":true}]},"position":{"x":1,"y":-2.5}}]}`,
		`{"elements":[]}`,
	},
	"cytoscapejs.GraphNodeEdge": {
		`{"elements":{"nodes":[{"data":{"id":"a","parent":"p","label":"A"},"position":{"x":0,"y":0},"locked":true},{"data":{"id":"p"}}],"edges":[{"data":{"id":"e1","source":"a","target":"p","weight":0.25},"scratch":{"_k":1}}]}}`,
		`{"elements":{"nodes":[],"edges":[]},"layout":null}`,
	},
	"sigmajs.Graph": {
		`{"nodes":[{"id":"n0","label":"A node","x":0,"y":0,"size":3},{"id":"n1"}],"edges":[{"id":"e0","source":"n0","target":"n1","type":"curve"},{"id":1,"source":2,"target":3}]}`,
		`{"nodes":[],"edges":[]}`,
	},
	"gexf12.Content": {
		`<?xml version="1.0" encoding="UTF-8"?><gexf xmlns="http://www.gexf.net/1.2draft" version="1.2"><meta lastmodifieddate="2009-03-20"><creator>Gexf.net</creator><description>A hello world! file</description></meta><graph mode="static" defaultedgetype="directed"><nodes><node id="0" label="Hello" /><node id="1" label="Word" /></nodes><edges><edge id="0" source="0" target="1" /></edges></graph></gexf>`,
		`<gexf xmlns="http://www.gexf.net/1.2draft" xmlns:viz="http://www.gexf.net/1.2draft/viz" version="1.2" variant="v"><graph defaultedgetype="undirected" idtype="string" timeformat="date" start="2000-01-01"><attributes class="node" mode="static"><attribute id="0" title="url" type="string"><default>x</default><options>a|b</options></attribute></attributes><nodes count="1"><node id="a" label="l" pid="p" start="1" end="2"><attvalues><attvalue for="0" value="v" start="1"/></attvalues><spells><spell start="1" end="2"/></spells><viz:color r="1" g="2" b="255" a="0.5"/><viz:position x="1.5" y="-2" z="0"/><viz:size value="2.5"/><viz:shape value="disc"/><parents><parent for="p"/></parents><nodes><node id="c"/></nodes><edges><edge id="ce" source="c" target="c"/></edges></node></nodes><edges count="1"><edge id="e" source="a" target="a" weight="2.5" type="directed" label="L"><viz:thickness value="1"/><viz:shape value="solid"/><viz:color r="0" g="0" b="0"/></edge></edges></graph></gexf>`,
	},
}

// Corpus returns well-formed inputs of the named decoder. The result is a
// function of seed only.
func Corpus(name string, seed uint64) [][]byte {
	r := vrt.NewRand(seed ^ 0xc16c16)
	var out [][]byte
	add := func(s string) { out = append(out, []byte(s)) }
	switch name {
	case "graph6", "digraph6":
		directed := name == "digraph6"
		for _, n := range []int{0, 1, 2, 3, 5, 8, 13, 30, 61, 62, 63, 64, 70} {
			dens := r.Float64()
			adj := randAdj(r, n, dens)
			add(EncodeRefG6(n, directed, func(i, j int) bool { return adj[i*n+j] }))
		}
		// non-canonical size headers
		pre := ""
		if directed {
			pre = "&"
		}
		one := strings.Repeat("?", map[bool]int{false: 0, true: 1}[directed])
		add(pre + "~??@" + one)
		add(pre + "~~?????@" + one)
		add(pre + "~~?????C" + strings.Repeat("]", map[bool]int{false: 1, true: 3}[directed]))
	case "dot.Parse", "dot.Unmarshal":
		for _, s := range dotCorpus {
			add(s)
		}
		for i := 0; i < 8; i++ {
			add(GenNestedDot(r, NestedDotOptions{MaxDepth: 1 + i%3, Pool: 4 + 3*(i%4), NoSelf: i%2 == 0}))
		}
	case "rdf.ParseNQuad":
		for _, s := range nquadCorpus {
			add(s)
		}
	case "rdf.Decoder":
		add(strings.Join(nquadCorpus, "\n") + "\n")
		add("# comment\n\n" + nquadCorpus[0] + "\r\n" + nquadCorpus[3] + "\n   \n" + nquadCorpus[2])
		add(nquadCorpus[1] + "\n" + nquadCorpus[1] + "\n" + nquadCorpus[4] + "\n")
	case "mat.Dense.UnmarshalBinary", "mat.Dense.UnmarshalBinaryFrom":
		out = append(out, matMsg(1, 1, 1.5), matMsg(2, 3, 1, 2, 3, 4, 5, 6), matMsg(3, 1, math.NaN(), math.Copysign(0, -1), math.Inf(1)),
			matMsg(1, 4, 1, 2, 3, 4), matMsg(0, 0), matMsg(2, 2, 1, 2, 3, 4))
	case "mat.VecDense.UnmarshalBinary", "mat.VecDense.UnmarshalBinaryFrom":
		out = append(out, matMsg(1, 1, 1.5), matMsg(3, 1, 1, 2, 3), matMsg(5, 1, math.NaN(), math.Copysign(0, -1), math.Inf(1), 5e-324, -1), matMsg(0, 1))
	case "card.HyperLogLog32", "card.HyperLogLog64":
		k := HLL32
		if name == "card.HyperLogLog64" {
			k = HLL64
		}
		for _, p := range []int{4, 5, 7, 10} {
			for _, alt := range []bool{false, true} {
				h := k.New(p, alt)
				for i := 0; i < 3*p*p; i++ {
					h.Write([]byte(fmt.Sprint("item", i, r.Uint64()%97)))
				}
				b, _ := h.MarshalBinary()
				out = append(out, b)
			}
		}
	case "cytoscapejs.GraphElem", "cytoscapejs.GraphNodeEdge", "sigmajs.Graph", "gexf12.Content":
		for _, s := range jsonCorpus[name] {
			add(s)
		}
	default:
		for _, k := range PRNGKinds {
			if "prng."+k.Name != name {
				continue
			}
			for _, steps := range []int{-1, 0, 1, 5, 311, 312, 313, 623, 624, 625, 1000} {
				s := k.New()
				if steps >= 0 {
					s.Seed(r.Uint64())
					Draw(s, steps)
				}
				b, _ := s.MarshalBinary()
				out = append(out, b)
			}
		}
	}
	if len(out) == 0 {
		panic("chk: no corpus for " + name)
	}
	return out
}

func randAdj(r *vrt.Rand, n int, dens float64) []bool {
	adj := make([]bool, n*n)
	for i := 0; i < n; i++ {
		for j := 0; j < n; j++ {
			if i != j && r.Float64() < dens {
				adj[i*n+j] = true
			}
		}
	}
	return adj
}

var _ = bytes.Equal
