package chk

import (
	"bytes"
	"fmt"

	"gonum.org/v1/gonum/mathext/prng"
)

// Source is what the six generators of mathext/prng share.
type Source interface {
	Uint64() uint64
	Seed(uint64)
	MarshalBinary() ([]byte, error)
	UnmarshalBinary([]byte) error
}

// PRNGKind describes one generator type.
type PRNGKind struct {
	Name string
	// New returns the unseeded generator as the package constructs it.
	New func() Source
	// Size is the length of the binary state.
	Size int
	// Has32 reports whether the type also has Uint32.
	Has32 bool
}

var PRNGKinds = []PRNGKind{
	{"MT19937", func() Source { return prng.NewMT19937() }, 2500, true},
	{"MT19937_64", func() Source { return prng.NewMT19937_64() }, 2504, false},
	{"SplitMix64", func() Source { return prng.NewSplitMix64(0) }, 8, false},
	{"Xoshiro256plus", func() Source { return prng.NewXoshiro256plus(0) }, 32, false},
	{"Xoshiro256plusplus", func() Source { return prng.NewXoshiro256plusplus(0) }, 32, false},
	{"Xoshiro256starstar", func() Source { return prng.NewXoshiro256starstar(0) }, 32, false},
}

// PRNGDraws is the number of outputs compared after a state round trip.
const PRNGDraws = 1000

// Draw returns n outputs; for MT19937 every third draw is a Uint32 so that
// both output paths are exercised.
func Draw(s Source, n int) []uint64 {
	out := make([]uint64, n)
	m32, _ := s.(interface{ Uint32() uint32 })
	for i := range out {
		if m32 != nil && i%3 == 2 {
			out[i] = uint64(m32.Uint32())
		} else {
			out[i] = s.Uint64()
		}
	}
	return out
}

// PRNG validates UnmarshalBinary of one generator type on hostile bytes:
// inputs shorter than the state must be rejected, accepted states must be
// usable (2000 draws without a panic), must re-marshal to the bytes that
// were read, and two generators restored from the same bytes must agree.
func PRNG(k PRNGKind, b []byte) (res Result) {
	routine := "prng." + k.Name + ".UnmarshalBinary"
	cls := "full"
	if len(b) < k.Size {
		cls = "truncated"
	} else if len(b) > k.Size {
		cls = "trailing"
	}
	res.Class = routine + "|" + cls
	s1, s2 := k.New(), k.New()
	s2.Seed(12345) // a different prior state must not leak into the restored one
	var err error
	res.Calls++
	if p := try(func() { err = s1.UnmarshalBinary(b) }); p != "" {
		res.add(routine+"|"+cls+"|panic", "%s on %d bytes panicked: %s", routine, len(b), p)
		return res
	}
	if err != nil {
		if len(b) >= k.Size {
			res.add(routine+"|"+cls+"|rejected", "%s rejects %d bytes (state size %d): %v", routine, len(b), k.Size, err)
		}
		// a used generator after a rejected decode: still a generator
		res.Calls += 2
		if p := try(func() {
			e2 := s2.UnmarshalBinary(b)
			if e2 == nil {
				res.add(routine+"|"+cls+"|not-repeatable", "%s rejects and then accepts the same %d bytes", routine, len(b))
			}
			if st, e3 := s2.MarshalBinary(); e3 != nil || len(st) != k.Size {
				res.add(routine+"|rejected-input|receiver-inconsistent", "after a rejected %s MarshalBinary gives %d bytes, err %v", routine, len(st), e3)
			}
			Draw(s2, 700)
		}); p != "" {
			res.add(routine+"|rejected-input|receiver-inconsistent", "after a rejected %s, using the generator panicked: %s", routine, p)
		}
		return res
	}
	res.Accepted = true
	if len(b) < k.Size {
		res.add(routine+"|truncated|accepted", "%s accepts %d bytes, the state has %d", routine, len(b), k.Size)
		return res
	}
	var re []byte
	res.Calls++
	if p := try(func() { re, err = s1.MarshalBinary() }); p != "" || err != nil {
		res.add(routine+"|"+cls+"|remarshal-fails", "MarshalBinary after %s: panic=%q err=%v", routine, p, err)
		return res
	}
	if !bytes.Equal(re, b[:k.Size]) {
		res.add(routine+"|"+cls+"|remarshal-differs", "MarshalBinary after %s differs from the state bytes read (first difference at byte %d)", routine, firstDiff(re, b[:k.Size]))
	}
	res.Calls++
	if p := try(func() { err = s2.UnmarshalBinary(b) }); p != "" || err != nil {
		res.add(routine+"|"+cls+"|not-repeatable", "second %s of the same bytes: panic=%q err=%v", routine, p, err)
		return res
	}
	var d1, d2 []uint64
	res.Calls += 2
	if p := try(func() { d1 = Draw(s1, 2*PRNGDraws); d2 = Draw(s2, 2*PRNGDraws) }); p != "" {
		res.add(routine+"|"+cls+"|restored-state-panics", "%s accepted %d bytes; drawing from the restored generator panicked: %s", routine, len(b), p)
		return res
	}
	for i := range d1 {
		if d1[i] != d2[i] {
			res.add(routine+"|"+cls+"|prior-state-leaks", "two generators restored from the same bytes differ at output %d", i)
			break
		}
	}
	return res
}

func firstDiff(a, b []byte) int {
	for i := range a {
		if i >= len(b) || a[i] != b[i] {
			return i
		}
	}
	return len(a)
}

var _ = fmt.Sprint
