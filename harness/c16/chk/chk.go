// Package chk holds the decoder validators of the C16 monitor. Every
// validator takes hostile bytes, runs one gonum decoder inside recover and,
// when the decoder accepts, validates the decoded value against an
// independent model. The same validators are used by the monitor program
// (seeded structured mutators) and by the go test -fuzz targets in ../fuzz.
//
// A validator never panics; it returns Findings with narrow, run-independent
// signatures (routine|path class|failing clause).
package chk

import (
	"fmt"
	"runtime"
)

// Finding is one observed refutation.
type Finding struct {
	Sig    string
	Detail string
}

// Result is what a validator observed for one input.
type Result struct {
	// Class is the case class used as evaluation key.
	Class string
	// Accepted reports whether the decoder returned err == nil (or, for
	// graph6/digraph6, declared the string valid).
	Accepted bool
	// Calls is the number of calls of gonum code made.
	Calls    int
	Findings []Finding
}

func (r *Result) add(sig, format string, args ...any) {
	r.Findings = append(r.Findings, Finding{Sig: sig, Detail: fmt.Sprintf(format, args...)})
}

// Has reports whether a finding with the signature was recorded.
func (r *Result) Has(sig string) bool {
	for _, f := range r.Findings {
		if f.Sig == sig {
			return true
		}
	}
	return false
}

// try runs f and returns the recovered panic value rendered as a string
// ("" when f returned normally).
func try(f func()) (msg string) {
	defer func() {
		if r := recover(); r != nil {
			switch e := r.(type) {
			case runtime.Error:
				msg = e.Error()
			case error:
				msg = e.Error()
			default:
				msg = fmt.Sprint(r)
			}
			if msg == "" {
				msg = "(empty panic value)"
			}
		}
	}()
	f()
	return ""
}

func clip(s string, n int) string {
	if len(s) > n {
		return s[:n] + "..."
	}
	return s
}
