package chk

import (
	"encoding/json"
	"encoding/xml"
	"reflect"

	"gonum.org/v1/gonum/graph/formats/cytoscapejs"
	"gonum.org/v1/gonum/graph/formats/gexf12"
	"gonum.org/v1/gonum/graph/formats/sigmajs"
)

// FormatKind is one of the struct-based JSON/XML formats.
type FormatKind struct {
	Name string
	New  func() any
	XML  bool
}

var FormatKinds = []FormatKind{
	{"cytoscapejs.GraphElem", func() any { return new(cytoscapejs.GraphElem) }, false},
	{"cytoscapejs.GraphNodeEdge", func() any { return new(cytoscapejs.GraphNodeEdge) }, false},
	{"sigmajs.Graph", func() any { return new(sigmajs.Graph) }, false},
	{"gexf12.Content", func() any { return new(gexf12.Content) }, true},
}

func (k FormatKind) Marshal(v any) ([]byte, error) {
	if k.XML {
		return xml.Marshal(v)
	}
	return json.Marshal(v)
}

func (k FormatKind) Unmarshal(b []byte, v any) error {
	if k.XML {
		return xml.Unmarshal(b, v)
	}
	return json.Unmarshal(b, v)
}

// Format validates one struct decoder on hostile bytes: no panic; when the
// document is accepted, the value must survive its own encoder (decode ->
// encode -> decode -> encode is a fixed point from the first encoding on),
// and cytoscapejs elements must report a type consistent with their data.
func Format(k FormatKind, b []byte) (res Result) {
	routine := k.Name
	v1 := k.New()
	var err error
	res.Calls++
	if p := try(func() { err = k.Unmarshal(b, v1) }); p != "" {
		res.Class = routine + "|panic"
		res.add(routine+".Unmarshal|hostile|panic", "unmarshal of %q into %s panicked: %s", clip(string(b), 200), k.Name, p)
		return res
	}
	if err != nil {
		res.Class = routine + "|rejected"
		return res
	}
	res.Accepted = true
	res.Class = routine + "|accepted"
	var b1, b2 []byte
	v2 := k.New()
	res.Calls += 3
	if p := try(func() {
		b1, err = k.Marshal(v1)
		if err != nil {
			return
		}
		if err = k.Unmarshal(b1, v2); err != nil {
			return
		}
		b2, err = k.Marshal(v2)
	}); p != "" {
		res.add(routine+".Marshal|decoded|panic", "re-encoding the value decoded from %q panicked: %s", clip(string(b), 200), p)
		return res
	}
	if err != nil {
		if k.XML && isXMLUnencodable(err) {
			return res
		}
		res.add(routine+"|decoded|reencode-fails", "value decoded from %q does not survive its encoder: %v", clip(string(b), 200), err)
		return res
	}
	if !reflect.DeepEqual(v1, v2) && string(b1) != string(b2) {
		res.add(routine+"|decoded|reencode-differs", "value decoded from %q: encode/decode changes it (%q then %q)", clip(string(b), 200), clip(string(b1), 200), clip(string(b2), 200))
	}
	if ge, ok := v1.(*cytoscapejs.GraphElem); ok {
		for _, e := range ge.Elements {
			CytoElementType(e, &res)
		}
	}
	return res
}

func isXMLUnencodable(err error) bool {
	// encoding/xml refuses some decoded values (e.g. invalid name spaces);
	// that is the standard library's contract, not gonum's.
	_, ok := err.(*xml.UnsupportedTypeError)
	return ok
}

// CytoElementType checks Element.Type against its definition: an element
// with source and target is an edge, one with neither is a node, anything
// else is invalid; a group, when present, must agree.
func CytoElementType(e cytoscapejs.Element, res *Result) {
	var (
		t   cytoscapejs.ElemType
		err error
	)
	res.Calls++
	if p := try(func() { t, err = e.Type() }); p != "" {
		res.add("cytoscapejs.Element.Type|decoded|panic", "Type() panicked: %s", p)
		return
	}
	hasS, hasT := e.Data.Source != "", e.Data.Target != ""
	want := cytoscapejs.InvalidElement
	switch {
	case !hasS && !hasT && (e.Group == "" || e.Group == "node"):
		want = cytoscapejs.NodeElement
	case hasS && hasT && (e.Group == "" || e.Group == "edge"):
		want = cytoscapejs.EdgeElement
	}
	if (want == cytoscapejs.InvalidElement) != (err != nil) {
		res.add("cytoscapejs.Element.Type|decoded|error-mismatch", "element group=%q source=%q target=%q: Type() = %v, %v", e.Group, e.Data.Source, e.Data.Target, t, err)
		return
	}
	if t != want {
		cls := "group-empty"
		if e.Group != "" {
			cls = "group-" + e.Group
		}
		if want == cytoscapejs.InvalidElement {
			cls = "invalid"
		}
		res.add("cytoscapejs.Element.Type|"+cls+"|wrong-type", "element group=%q source=%q target=%q: Type() = %v, want %v", e.Group, e.Data.Source, e.Data.Target, t, want)
	}
}
