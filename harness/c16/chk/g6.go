package chk

import (
	"fmt"
	"math/big"

	"gonum.org/v1/gonum/graph"
	"gonum.org/v1/gonum/graph/encoding/digraph6"
	"gonum.org/v1/gonum/graph/encoding/graph6"
)

// RefG6 is the independent model of a graph6 / digraph6 string, written from
// the format description (formats.txt): N(n) followed by R(x).
type RefG6 struct {
	// OK: every byte in 63..126, a complete size header and exactly
	// ceil(bits/6) data bytes, with the bit count computed exactly.
	OK bool
	// Canonical: the size header uses the shortest form and the padding
	// bits are zero (what an encoder must produce).
	Canonical bool
	N         int64
	hdr       int // header length in bytes (including '&' for digraph6)
	data      string
	directed  bool
}

// ParseRefG6 parses s as graph6 (directed=false) or digraph6 (directed=true).
func ParseRefG6(s string, directed bool) RefG6 {
	r := RefG6{directed: directed}
	p := s
	if directed {
		if len(p) < 1 || p[0] != '&' {
			return r
		}
		p = p[1:]
		r.hdr = 1
	}
	if len(p) < 1 {
		return r
	}
	for i := 0; i < len(p); i++ {
		if p[i] < 63 || p[i] > 126 {
			return r
		}
	}
	canonical := true
	var n int64
	switch {
	case p[0] != 126:
		n = int64(p[0] - 63)
		r.hdr++
		p = p[1:]
	case len(p) >= 4 && p[1] != 126:
		n = int64(p[1]-63)<<12 | int64(p[2]-63)<<6 | int64(p[3]-63)
		if n < 63 {
			canonical = false
		}
		r.hdr += 4
		p = p[4:]
	case len(p) >= 8 && p[1] == 126:
		for _, b := range []byte(p[2:8]) {
			n = n<<6 | int64(b-63)
		}
		if n < 258048 {
			canonical = false
		}
		r.hdr += 8
		p = p[8:]
	default:
		return r
	}
	r.N = n
	// exact bit count
	bn := big.NewInt(n)
	bitsN := new(big.Int).Mul(bn, bn)
	if !directed {
		bitsN.Sub(bitsN, bn)
		bitsN.Rsh(bitsN, 1)
	}
	want := new(big.Int).Add(bitsN, big.NewInt(5))
	want.Div(want, big.NewInt(6))
	if !want.IsInt64() || want.Int64() != int64(len(p)) {
		return r
	}
	r.OK = true
	r.data = p
	// padding bits
	if nb := bitsN.Int64(); nb%6 != 0 && len(p) > 0 {
		last := p[len(p)-1] - 63
		if last&(1<<uint(6-nb%6)-1) != 0 {
			canonical = false
		}
	}
	r.Canonical = canonical
	return r
}

// Has reports whether the model has the edge i--j (graph6) or i->j
// (digraph6). Diagonal entries are never reported.
func (r RefG6) Has(i, j int64) bool {
	if !r.OK || i == j || i < 0 || j < 0 || i >= r.N || j >= r.N {
		return false
	}
	var bit int64
	if r.directed {
		bit = i*r.N + j
	} else {
		if i < j {
			i, j = j, i
		}
		bit = i*(i-1)/2 + j
	}
	return (r.data[bit/6]-63)&(1<<uint(5-bit%6)) != 0
}

// EncodeRefG6 is the reference encoder: adjacency over indices 0..n-1.
func EncodeRefG6(n int, directed bool, has func(i, j int) bool) string {
	var out []byte
	if directed {
		out = append(out, '&')
	}
	switch {
	case n < 63:
		out = append(out, byte(n)+63)
	case n < 258048:
		out = append(out, 126, byte(n>>12&63)+63, byte(n>>6&63)+63, byte(n&63)+63)
	default:
		out = append(out, 126, 126)
		for s := 30; s >= 0; s -= 6 {
			out = append(out, byte(n>>uint(s)&63)+63)
		}
	}
	var cur byte
	k := 0
	emit := func(b bool) {
		cur <<= 1
		if b {
			cur |= 1
		}
		k++
		if k == 6 {
			out = append(out, cur+63)
			cur, k = 0, 0
		}
	}
	if directed {
		for i := 0; i < n; i++ {
			for j := 0; j < n; j++ {
				emit(i != j && has(i, j))
			}
		}
	} else {
		for j := 1; j < n; j++ {
			for i := 0; i < j; i++ {
				emit(has(i, j) || has(j, i))
			}
		}
	}
	if k != 0 {
		out = append(out, cur<<uint(6-k)+63)
	}
	return string(out)
}

// g6api abstracts graph6.Graph and digraph6.Graph.
type g6api struct {
	name     string
	directed bool
	valid    func() bool
	g        graph.Graph
	to       func(id int64) graph.Nodes
	fromTo   func(u, v int64) bool
	goString func() string
}

// G6 validates s as a graph6 string.
func G6(s string) Result {
	g := graph6.Graph(s)
	return g6check(s, g6api{
		name: "graph6", valid: func() bool { return graph6.IsValid(g) }, g: g,
		goString: g.GoString,
	})
}

// D6 validates s as a digraph6 string.
func D6(s string) Result {
	g := digraph6.Graph(s)
	return g6check(s, g6api{
		name: "digraph6", directed: true, valid: func() bool { return digraph6.IsValid(g) }, g: g,
		to: g.To, fromTo: g.HasEdgeFromTo, goString: g.GoString,
	})
}

// MaxG6Walk is the largest order for which every query is compared with the
// model; above it only O(1) probes are made.
const MaxG6Walk = 90

func g6check(s string, a g6api) (res Result) {
	ref := ParseRefG6(s, a.directed)
	var valid bool
	res.Calls++
	if p := try(func() { valid = a.valid() }); p != "" {
		res.Class = a.name + "|IsValid-panic"
		res.add(a.name+".IsValid|hostile|panic", "IsValid(%q) panicked: %s", clip(s, 80), p)
		return res
	}
	res.Accepted = valid
	switch {
	case valid && !ref.OK:
		res.Class = a.name + "|accepted-malformed"
		res.add(a.name+".IsValid|size-overflow|accepts-malformed",
			"IsValid(%q) = true, but the string is not a %s encoding: header order n=%d needs a different number of data bytes than the %d present (exact arithmetic)",
			clip(s, 80), a.name, ref.N, len(s)-ref.hdr)
		// O(1) probes only: the claimed order is unrelated to the data.
		res.Calls++
		if p := try(func() { a.g.HasEdgeBetween(0, 1) }); p != "" {
			res.add(a.name+".HasEdgeBetween|size-overflow|panic", "%q: IsValid = true and HasEdgeBetween(0, 1) panicked: %s", clip(s, 80), p)
		}
		return res
	case !valid && ref.OK:
		res.Class = a.name + "|rejected-wellformed"
		res.add(a.name+".IsValid|well-formed|rejected", "IsValid(%q) = false for a well-formed string of order %d (canonical=%v)", clip(s, 80), ref.N, ref.Canonical)
		return res
	}
	if !valid {
		res.Class = a.name + "|invalid"
		// "An invalid Graph behaves as the null graph."
		msg := try(func() {
			res.Calls += 6
			if n := a.g.Nodes(); n == nil || n.Len() != 0 || n.Next() {
				res.add(a.name+".Nodes|invalid|not-null-graph", "%q is invalid but Nodes() is not empty", clip(s, 80))
			}
			if a.g.Node(0) != nil {
				res.add(a.name+".Node|invalid|not-null-graph", "%q is invalid but Node(0) != nil", clip(s, 80))
			}
			if a.g.HasEdgeBetween(0, 1) || a.g.Edge(0, 1) != nil {
				res.add(a.name+".HasEdgeBetween|invalid|not-null-graph", "%q is invalid but has an edge 0-1", clip(s, 80))
			}
			if f := a.g.From(0); f != nil && (f.Len() != 0 || f.Next()) {
				res.add(a.name+".From|invalid|not-null-graph", "%q is invalid but From(0) is not empty", clip(s, 80))
			}
			if a.to != nil {
				if f := a.to(0); f != nil && (f.Len() != 0 || f.Next()) {
					res.add(a.name+".To|invalid|not-null-graph", "%q is invalid but To(0) is not empty", clip(s, 80))
				}
			}
		})
		if msg != "" {
			res.add(a.name+".query|invalid|panic", "%q is invalid (null graph) but a query panicked: %s", clip(s, 80), msg)
		}
		res.Calls++
		if msg := try(func() { _ = a.goString() }); msg != "" {
			res.add(a.name+".GoString|invalid|panic", "%q is invalid (null graph) but GoString panicked: %s", clip(s, 80), msg)
		}
		return res
	}
	// valid and well-formed
	n := ref.N
	res.Class = fmt.Sprintf("%s|valid|hdr%d|canon=%v", a.name, ref.hdr, ref.Canonical)
	if n > MaxG6Walk {
		res.Class += "|probe"
		msg := try(func() {
			res.Calls += 4
			if a.g.Nodes().Len() != int(n) {
				res.add(a.name+".Nodes|valid|wrong-order", "%q: Nodes().Len() != %d", clip(s, 80), n)
			}
			for _, pr := range [][2]int64{{0, 1}, {n - 1, 0}, {n - 2, n - 1}} {
				if got, want := a.g.HasEdgeBetween(pr[0], pr[1]), ref.Has(pr[0], pr[1]) || ref.Has(pr[1], pr[0]); got != want {
					res.add(a.name+".HasEdgeBetween|valid|differs-from-bit-vector", "%q: HasEdgeBetween(%d,%d)=%v, bit vector says %v", clip(s, 80), pr[0], pr[1], got, want)
				}
			}
		})
		if msg != "" {
			res.add(a.name+".query|valid|panic", "%q is valid (order %d) but a query panicked: %s", clip(s, 80), n, msg)
		}
		return res
	}
	msg := try(func() { g6walk(s, a, ref, &res) })
	if msg != "" {
		res.add(a.name+".query|valid|panic", "%q is valid (order %d) but a query panicked: %s", clip(s, 80), n, msg)
	}
	res.Calls++
	if msg := try(func() { _ = a.goString() }); msg != "" {
		res.add(a.name+".GoString|valid|panic", "%q is valid but GoString panicked: %s", clip(s, 80), msg)
	}
	return res
}

func g6walk(s string, a g6api, ref RefG6, res *Result) {
	n := ref.N
	name := a.name
	nodes := a.g.Nodes()
	res.Calls++
	if nodes.Len() != int(n) {
		res.add(name+".Nodes|valid|wrong-order", "%q: Nodes().Len()=%d, want %d", clip(s, 80), nodes.Len(), n)
	}
	seen := make(map[int64]bool)
	for nodes.Next() {
		id := nodes.Node().ID()
		if id < 0 || id >= n || seen[id] {
			res.add(name+".Nodes|valid|wrong-ids", "%q: Nodes() yields id %d (order %d, repeated=%v)", clip(s, 80), id, n, seen[id])
		}
		seen[id] = true
	}
	if int64(len(seen)) != n {
		res.add(name+".Nodes|valid|wrong-order", "%q: Nodes() yields %d ids, want %d", clip(s, 80), len(seen), n)
	}
	for _, id := range []int64{-1, n, n + 1} {
		res.Calls += 2
		if a.g.Node(id) != nil {
			res.add(name+".Node|valid|out-of-range-node", "%q: Node(%d) != nil for order %d", clip(s, 80), id, n)
		}
		if a.g.HasEdgeBetween(id, 0) || a.g.HasEdgeBetween(0, id) {
			res.add(name+".HasEdgeBetween|valid|out-of-range-edge", "%q: edge with node %d reported for order %d", clip(s, 80), id, n)
		}
		if f := a.g.From(id); f != nil && f.Len() != 0 {
			res.add(name+".From|valid|out-of-range-edge", "%q: From(%d) non-empty for order %d", clip(s, 80), id, n)
		}
	}
	for i := int64(0); i < n; i++ {
		res.Calls += 2
		if nd := a.g.Node(i); nd == nil || nd.ID() != i {
			res.add(name+".Node|valid|missing-node", "%q: Node(%d) = %v", clip(s, 80), i, nd)
		}
		var wantFrom, wantTo []int64
		for j := int64(0); j < n; j++ {
			var f, b bool
			if a.directed {
				f, b = ref.Has(i, j), ref.Has(j, i)
			} else {
				f = ref.Has(i, j)
				b = f
			}
			if f {
				wantFrom = append(wantFrom, j)
			}
			if b {
				wantTo = append(wantTo, j)
			}
			res.Calls += 2
			if got := a.g.HasEdgeBetween(i, j); got != (f || b) {
				res.add(name+".HasEdgeBetween|valid|differs-from-bit-vector", "%q: HasEdgeBetween(%d,%d)=%v, bit vector says %v", clip(s, 80), i, j, got, f || b)
			}
			e := a.g.Edge(i, j)
			if (e != nil) != f {
				res.add(name+".Edge|valid|differs-from-bit-vector", "%q: Edge(%d,%d) nil=%v, bit vector says edge=%v", clip(s, 80), i, j, e == nil, f)
			} else if e != nil && (e.From().ID() != i || e.To().ID() != j) {
				res.add(name+".Edge|valid|wrong-end-points", "%q: Edge(%d,%d) = %d->%d", clip(s, 80), i, j, e.From().ID(), e.To().ID())
			}
			if a.fromTo != nil {
				res.Calls++
				if got := a.fromTo(i, j); got != f {
					res.add(name+".HasEdgeFromTo|valid|differs-from-bit-vector", "%q: HasEdgeFromTo(%d,%d)=%v, bit vector says %v", clip(s, 80), i, j, got, f)
				}
			}
		}
		checkIter(s, name+".From", a.g.From(i), wantFrom, res)
		if a.to != nil {
			res.Calls++
			checkIter(s, name+".To", a.to(i), wantTo, res)
		}
	}
}

// checkIter checks a graph.Nodes iterator against the expected id set, with
// Len() consistent at every step and Reset restarting it.
func checkIter(s, routine string, it graph.Nodes, want []int64, res *Result) {
	if it == nil {
		if len(want) != 0 {
			res.add(routine+"|valid|differs-from-bit-vector", "%q: nil iterator, want %v", clip(s, 80), want)
		}
		return
	}
	for pass := 0; pass < 2; pass++ {
		remaining := len(want)
		if it.Len() != remaining {
			res.add(routine+"|valid|iterator-len", "%q: Len()=%d before iteration (pass %d), want %d", clip(s, 80), it.Len(), pass, remaining)
		}
		got := make(map[int64]bool)
		for it.Next() {
			remaining--
			id := it.Node().ID()
			if got[id] {
				res.add(routine+"|valid|differs-from-bit-vector", "%q: id %d yielded twice", clip(s, 80), id)
			}
			got[id] = true
			if it.Len() != remaining {
				res.add(routine+"|valid|iterator-len", "%q: Len()=%d after yielding %d of %d", clip(s, 80), it.Len(), len(got), len(want))
				break
			}
			if len(got) > len(want)+2 {
				break
			}
		}
		ok := len(got) == len(want)
		for _, w := range want {
			if !got[w] {
				ok = false
			}
		}
		if !ok {
			res.add(routine+"|valid|differs-from-bit-vector", "%q: iterator yields %v, bit vector says %v", clip(s, 80), keys(got), want)
		}
		it.Reset()
	}
}

func keys(m map[int64]bool) []int64 {
	var k []int64
	for i := int64(0); i < 1<<20 && len(k) < len(m); i++ {
		if m[i] {
			k = append(k, i)
		}
	}
	return k
}
