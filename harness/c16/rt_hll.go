package main

import (
	"bytes"
	"fmt"
	"hash/fnv"

	"gonum.org/v1/gonum/stat/card"
	"gonum.org/v1/gonum/verifx/c16/chk"
	"gonum.org/v1/gonum/verifx/vrt"
)

// sketch adapts HyperLogLog32 and HyperLogLog64 to one interface.
type sketch interface {
	Write([]byte) (int, error)
	Count() float64
	MarshalBinary() ([]byte, error)
	UnmarshalBinary([]byte) error
	union(a, b sketch) error
	setHash(alt bool) error
}

type s32 struct{ *card.HyperLogLog32 }
type s64 struct{ *card.HyperLogLog64 }

func (s s32) union(a, b sketch) error {
	return s.HyperLogLog32.Union(a.(s32).HyperLogLog32, b.(s32).HyperLogLog32)
}
func (s s64) union(a, b sketch) error {
	return s.HyperLogLog64.Union(a.(s64).HyperLogLog64, b.(s64).HyperLogLog64)
}
func (s s32) setHash(alt bool) error {
	if alt {
		return s.SetHash(fnv.New32())
	}
	return s.SetHash(fnv.New32a())
}
func (s s64) setHash(alt bool) error {
	if alt {
		return s.SetHash(fnv.New64())
	}
	return s.SetHash(fnv.New64a())
}

func newSketch(bits, p int, alt bool) sketch {
	if bits == 32 {
		var h *card.HyperLogLog32
		var err error
		if alt {
			h, err = card.NewHyperLogLog32(p, fnv.New32())
		} else {
			h, err = card.NewHyperLogLog32(p, fnv.New32a())
		}
		if err != nil {
			panic(err)
		}
		return s32{h}
	}
	var h *card.HyperLogLog64
	var err error
	if alt {
		h, err = card.NewHyperLogLog64(p, fnv.New64())
	} else {
		h, err = card.NewHyperLogLog64(p, fnv.New64a())
	}
	if err != nil {
		panic(err)
	}
	return s64{h}
}

func zeroSketch(bits int) sketch {
	if bits == 32 {
		return s32{&card.HyperLogLog32{}}
	}
	return s64{&card.HyperLogLog64{}}
}

func items(r *vrt.Rand, n int) [][]byte {
	out := make([][]byte, n)
	for i := range out {
		out[i] = []byte(fmt.Sprintf("%x/%d", r.Uint64(), i))
	}
	return out
}

func feed(s sketch, it [][]byte) {
	for _, b := range it {
		s.Write(b)
	}
}

func registersOf(s sketch) (chk.HLLMessage, bool) {
	b, err := s.MarshalBinary()
	if err != nil {
		return chk.HLLMessage{}, false
	}
	return chk.DecodeHLL(b)
}

func runHLL(c *vrt.Ctx) {
	total := newTally()
	type job struct{ bits, p, rep int }
	var jobs []job
	maxP := pick(c, 14, 18)
	for _, bits := range []int{32, 64} {
		for p := 4; p <= maxP; p++ {
			for rep := 0; rep < pick(c, 3, 12); rep++ {
				jobs = append(jobs, job{bits, p, rep})
			}
		}
	}
	vrt.Parallel(len(jobs), func(ji int) {
		j := jobs[ji]
		t := newTally()
		defer total.merge(t)
		r := c.RNG("hll/rt", ji)
		name := fmt.Sprintf("card.HyperLogLog%d", j.bits)
		c.LastCase(fmt.Sprintf("hll roundtrip bits=%d p=%d rep=%d", j.bits, j.p, j.rep))
		m := 1 << uint(j.p)
		n := []int{0, 1, 37, m / 2, 3 * m}[j.rep%5]
		if j.rep >= 5 {
			n = r.Intn(4 * m)
		}
		if n > 60000 {
			n = 60000
		}
		first, more, other := items(r, n), items(r, 50+r.Intn(200)), items(r, 1+r.Intn(2*m))
		rp := replay{Case: fmt.Sprintf("%s p=%d items=%d", name, j.p, n)}
		key := fmt.Sprintf("%s|roundtrip|p%d", name, j.p)

		orig := newSketch(j.bits, j.p, false)
		feed(orig, first)
		enc, err := orig.MarshalBinary()
		t.add(key+"|marshal", 1, n > 0)
		if err != nil {
			c.Violationf(name+".MarshalBinary|hash-set|error", rp, "MarshalBinary of a sketch with a hash: %v", err)
			return
		}
		// the validator sees the message as well formed
		report(c, t, name, enc, 0, chk.RunDecoder(name, enc, 0))

		// restore into: zero value (hash from the registry), same hash with
		// another precision ("the precision of the receiver will be set")
		otherP := 4 + (j.p-4+3)%9
		for which, dst := range []sketch{zeroSketch(j.bits), newSketch(j.bits, otherP, false)} {
			recv := []string{"zero-value", "other-precision"}[which]
			var uerr error
			t.add(key+"|restore-"+recv, 1, true)
			if p := vrt.Try(func() { uerr = dst.UnmarshalBinary(enc) }); p != nil || uerr != nil {
				c.Violationf(name+".UnmarshalBinary|"+recv+"-receiver|rejects-own-encoding", rp, "UnmarshalBinary(MarshalBinary()) into a %s receiver: panic=%v err=%v", recv, p != nil, uerr)
				continue
			}
			if got, want := dst.Count(), orig.Count(); got != want {
				c.Violationf(name+".UnmarshalBinary|"+recv+"-receiver|count-differs", rp, "restored sketch Count() = %v, original %v", got, want)
			}
			// further writes behave identically
			twin := newSketch(j.bits, j.p, false)
			feed(twin, first)
			feed(twin, more)
			if p := vrt.Try(func() { feed(dst, more) }); p != nil {
				c.Violationf(name+".Write|restored-"+recv+"|panic", rp, "Write on the restored sketch panicked: %s", p.Msg)
				continue
			}
			a, aok := registersOf(dst)
			b, bok := registersOf(twin)
			if !aok || !bok || a.P != b.P || a.Hash != b.Hash || !bytes.Equal(a.Register, b.Register) || dst.Count() != twin.Count() {
				c.Violationf(name+".Write|restored-"+recv+"|differs-from-original", rp, "after %d further writes the restored sketch differs from the original fed the same items (counts %v vs %v)", len(more), dst.Count(), twin.Count())
			}
		}
		// documented rejections: receiver with another hash type; other hash size
		alt := newSketch(j.bits, j.p, true)
		var uerr error
		t.add(key+"|restore-mismatched-hash", 1, true)
		if p := vrt.Try(func() { uerr = alt.UnmarshalBinary(enc) }); p != nil {
			c.Violationf(name+".UnmarshalBinary|mismatched-hash|panic", rp, "panicked: %s", p.Msg)
		} else if uerr == nil {
			c.Violationf(name+".UnmarshalBinary|mismatched-hash|accepted", rp, "UnmarshalBinary into a receiver holding another hash type returned nil (documented: the hash must be the same type)")
		}
		cross := zeroSketch(96 - j.bits)
		t.add(key+"|restore-other-size", 1, true)
		if p := vrt.Try(func() { uerr = cross.UnmarshalBinary(enc) }); p != nil {
			c.Violationf(name+".UnmarshalBinary|other-hash-size|panic", rp, "panicked: %s", p.Msg)
		} else if uerr == nil {
			c.Violationf(fmt.Sprintf("card.HyperLogLog%d.UnmarshalBinary|other-hash-size|accepted", 96-j.bits), rp, "a %d-bit sketch was accepted by the %d-bit type", j.bits, 96-j.bits)
		}

		// Union: compatible sketches merge exactly (register-wise maximum, so
		// the union equals the sketch of the concatenated streams)
		restored := zeroSketch(j.bits)
		restored.UnmarshalBinary(enc)
		b := newSketch(j.bits, j.p, false)
		feed(b, other)
		both := newSketch(j.bits, j.p, false)
		feed(both, first)
		feed(both, other)
		wantReg, _ := registersOf(both)
		for _, mode := range []string{"zero-receiver", "receiver-is-a", "receiver-is-b", "used-receiver"} {
			a := zeroSketch(j.bits)
			a.UnmarshalBinary(enc) // a decoded sketch as operand
			bb := newSketch(j.bits, j.p, false)
			feed(bb, other)
			var dst sketch
			switch mode {
			case "zero-receiver":
				dst = zeroSketch(j.bits)
			case "receiver-is-a":
				dst = a
			case "receiver-is-b":
				dst = bb
			default:
				dst = newSketch(j.bits, otherP, false)
				feed(dst, more)
			}
			var err error
			t.add(key+"|union-"+mode, 1, true)
			if p := vrt.Try(func() { err = dst.union(a, bb) }); p != nil {
				c.Violationf(name+".Union|compatible-"+mode+"|panic", rp, "Union of compatible sketches panicked: %s", p.Msg)
				continue
			}
			if err != nil {
				c.Violationf(name+".Union|compatible-"+mode+"|rejected", rp, "Union of two sketches with equal precision and hash type: %v", err)
				continue
			}
			if got, want := dst.Count(), both.Count(); got != want {
				c.Violationf(name+".Union|compatible-"+mode+"|count-differs", rp, "Union Count() = %v, the sketch of both streams gives %v", got, want)
			}
			if mode == "zero-receiver" {
				// "If the receiver does not have a set hash function, it can be
				// set after a call to Union with the SetHash method."
				t.add(key+"|sethash-after-union", 1, true)
				if err := dst.setHash(false); err != nil {
					c.Violationf(name+".SetHash|nil-hash-after-union|rejected", rp, "SetHash on a receiver without a hash (after Union): %v (documented: sets the hash if it is nil)", err)
				} else if got, ok := registersOf(dst); !ok || !bytes.Equal(got.Register, wantReg.Register) || got.P != wantReg.P {
					c.Violationf(name+".Union|compatible-"+mode+"|registers-differ", rp, "registers after Union differ from the sketch of both streams")
				}
			} else if got, ok := registersOf(dst); !ok || !bytes.Equal(got.Register, wantReg.Register) || got.P != wantReg.P {
				c.Violationf(name+".Union|compatible-"+mode+"|registers-differ", rp, "registers after Union differ from the sketch of both streams")
			}
		}
		// SetHash on a receiver that has a hash: documented error
		t.add(key+"|sethash-set", 1, true)
		if err := newSketch(j.bits, j.p, false).setHash(false); err == nil {
			c.Violationf(name+".SetHash|hash-already-set|accepted", rp, "SetHash on a receiver with a hash returned nil (documented: error)")
		}
		// incompatible precision / hash must be refused
		pOther := newSketch(j.bits, otherP, false)
		feed(pOther, other)
		hOther := newSketch(j.bits, j.p, true)
		feed(hOther, other)
		for _, tc := range []struct {
			mode string
			a, b sketch
			dst  func(a, b sketch) sketch
		}{
			{"precision|zero-receiver", restored, pOther, func(a, b sketch) sketch { return zeroSketch(j.bits) }},
			{"precision|receiver-is-a", restored, pOther, func(a, b sketch) sketch { return a }},
			{"hash|zero-receiver", restored, hOther, func(a, b sketch) sketch { return zeroSketch(j.bits) }},
			{"hash|receiver-is-a", restored, hOther, func(a, b sketch) sketch { return a }},
			{"hash|receiver-is-b", restored, hOther, func(a, b sketch) sketch { return b }},
			{"hash|operands-swapped", hOther, restored, func(a, b sketch) sketch { return zeroSketch(j.bits) }},
		} {
			var err error
			dst := tc.dst(tc.a, tc.b)
			before := tc.a.Count()
			t.add(key+"|union-incompatible-"+tc.mode, 1, true)
			if p := vrt.Try(func() { err = dst.union(tc.a, tc.b) }); p != nil {
				c.Violationf(name+".Union|incompatible-"+tc.mode+"|panic", rp, "Union of incompatible sketches panicked: %s", p.Msg)
				continue
			}
			if err == nil {
				c.Violationf(name+".Union|incompatible-"+tc.mode+"|accepted", rp, "Union of sketches with mismatched %s returned nil (documented: error)", tc.mode)
				// undo for the following cases
				restored = zeroSketch(j.bits)
				restored.UnmarshalBinary(enc)
			} else if tc.a.Count() != before {
				c.Violationf(name+".Union|incompatible-"+tc.mode+"|operand-modified", rp, "Union returned %v but changed its operand", err)
			}
		}
		if c.WantSample() && ji == 3 {
			c.Sample(map[string]any{"codec": name, "precision": j.p, "items": n, "count": orig.Count(), "message_bytes": len(enc)})
		}
	})
	total.flush(c)
}
