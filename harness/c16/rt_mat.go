package main

import (
	"bytes"
	"errors"
	"fmt"
	"math"

	"gonum.org/v1/gonum/mat"
	"gonum.org/v1/gonum/verifx/c16/chk"
	"gonum.org/v1/gonum/verifx/vrt"
)

// hostileFloat returns values whose bits an arithmetic copy would damage:
// NaNs with payloads (quiet and signalling), signed zeros, infinities,
// subnormals, extremes.
func hostileFloat(r *vrt.Rand) float64 {
	switch r.Intn(12) {
	case 0:
		return math.Float64frombits(0x7ff8000000000000 | r.Uint64()&0x7ffffffffffff) // quiet NaN + payload
	case 1:
		return math.Float64frombits(0x7ff0000000000000 | 1 + r.Uint64()&0x7fffffffffffe) // signalling NaN
	case 2:
		return math.Float64frombits(0xfff8000000000000 | r.Uint64()&0x7ffffffffffff) // negative NaN
	case 3:
		return math.Copysign(0, -1)
	case 4:
		return 0
	case 5:
		return math.Inf(1 - 2*r.Intn(2))
	case 6:
		return math.Float64frombits(1 + r.Uint64()&0xfffffffffffff) // subnormal
	case 7:
		return math.MaxFloat64 * float64(1-2*r.Intn(2))
	case 8:
		return math.Float64frombits(r.Uint64()) // any bit pattern
	}
	return r.Norm()
}

type limitedWriter struct {
	buf  bytes.Buffer
	left int
}

var errWriterFull = errors.New("c16: injected write error")

func (w *limitedWriter) Write(p []byte) (int, error) {
	if len(p) > w.left {
		n := w.left
		w.buf.Write(p[:n])
		w.left = 0
		return n, errWriterFull
	}
	w.left -= len(p)
	return w.buf.Write(p)
}

func shapeClass(r, c int) string {
	switch {
	case r == 0 || c == 0:
		return "empty"
	case r == 1 && c == 1:
		return "1x1"
	case r == 1:
		return "1xn"
	case c == 1:
		return "nx1"
	}
	return "rxc"
}

// matCase checks one value: both encoders against the documented layout,
// all four decoders (every reader kind) against the value, bit for bit.
func matCase(c *vrt.Ctx, t *tally, kind, view string, rows, cols int, at func(i, j int) float64,
	marshal func() ([]byte, error), marshalTo func(w *limitedWriter) (int, error)) {
	want := chk.EncodeMatRef(rows, cols, at)
	key := fmt.Sprintf("mat.%s|roundtrip|%s|%s", kind, shapeClass(rows, cols), view)
	rp := replay{Case: fmt.Sprintf("%s %dx%d view=%s", kind, rows, cols, view), Extra: map[string]any{"reference_message": fmt.Sprintf("%x", clipB(want, 200))}}
	routine := "mat." + kind
	var got []byte
	var err error
	t.add(key+"|MarshalBinary", 1, rows*cols > 0)
	if p := vrt.Try(func() { got, err = marshal() }); p != nil {
		c.Violationf(routine+".MarshalBinary|"+view+"|panic", rp, "MarshalBinary of a %dx%d %s (%s) panicked: %s", rows, cols, kind, view, p.Msg)
		return
	}
	if err != nil {
		c.Violationf(routine+".MarshalBinary|"+view+"|error", rp, "MarshalBinary of a %dx%d %s (%s): %v", rows, cols, kind, view, err)
		return
	}
	if !bytes.Equal(got, want) {
		c.Violationf(routine+".MarshalBinary|"+view+"|differs-from-documented-layout", rp, "MarshalBinary of a %dx%d %s (%s) differs from the documented layout at byte %d", rows, cols, kind, view, firstDiffB(got, want))
	}
	// stream encoder, with room and with a writer failing at every boundary class
	w := &limitedWriter{left: 1 << 30}
	var n int
	t.add(key+"|MarshalBinaryTo", 1, rows*cols > 0)
	if p := vrt.Try(func() { n, err = marshalTo(w) }); p != nil {
		c.Violationf(routine+".MarshalBinaryTo|"+view+"|panic", rp, "MarshalBinaryTo panicked: %s", p.Msg)
	} else if err != nil || n != len(want) || !bytes.Equal(w.buf.Bytes(), want) {
		c.Violationf(routine+".MarshalBinaryTo|"+view+"|differs-from-documented-layout", rp, "MarshalBinaryTo of a %dx%d %s (%s): n=%d err=%v, %d bytes written, want %d bytes of the documented layout", rows, cols, kind, view, n, err, w.buf.Len(), len(want))
	}
	for _, limit := range []int{0, 1, 39, 40, 41, 47, 48, len(want) - 1} {
		if limit < 0 || limit >= len(want) {
			continue
		}
		w := &limitedWriter{left: limit}
		t.add(key+"|MarshalBinaryTo-failing-writer", 1, true)
		if p := vrt.Try(func() { n, err = marshalTo(w) }); p != nil {
			c.Violationf(routine+".MarshalBinaryTo|failing-writer|panic", rp, "MarshalBinaryTo with a writer failing after %d bytes panicked: %s", limit, p.Msg)
			continue
		}
		if !errors.Is(err, errWriterFull) {
			c.Violationf(routine+".MarshalBinaryTo|failing-writer|error-lost", rp, "MarshalBinaryTo with a writer failing after %d of %d bytes returned err=%v", limit, len(want), err)
		} else if n != limit || !bytes.Equal(w.buf.Bytes(), want[:limit]) {
			c.Violationf(routine+".MarshalBinaryTo|failing-writer|byte-count", rp, "MarshalBinaryTo with a writer failing after %d bytes reports n=%d (%d bytes arrived)", limit, n, w.buf.Len())
		}
	}
	if rows*cols == 0 {
		// The zero value marshals to a 0x0 header; unmarshalling answers
		// ErrZeroLength and leaves the receiver empty, which is the same value.
		for _, k := range chk.MatKinds {
			res := chk.Mat(k, want, 0)
			t.add(res.Class, res.Calls, true)
			if res.Accepted || len(res.Findings) > 0 {
				report(c, t, k.Routine, want, 0, res)
			}
		}
		return
	}
	// the four decoders; chk.Mat compares the decoded bits with the message
	for _, k := range chk.MatKinds {
		if k.Vec && cols != 1 {
			continue
		}
		kinds := 1
		if k.Stream {
			kinds = chk.NumReaderKinds
		}
		for rk := 0; rk < kinds; rk++ {
			res := chk.Mat(k, want, rk)
			if !res.Accepted && len(res.Findings) == 0 {
				c.Violationf(k.Routine+"|well-formed|rejected", rp, "%s rejects the encoding of a %dx%d %s", k.Routine, rows, cols, kind)
			}
			report(c, t, k.Routine, want, rk, res)
		}
	}
}

func clipB(b []byte, n int) []byte {
	if len(b) > n {
		return b[:n]
	}
	return b
}

func firstDiffB(a, b []byte) int {
	for i := range a {
		if i >= len(b) || a[i] != b[i] {
			return i
		}
	}
	return len(a)
}

func runMat(c *vrt.Ctx) {
	total := newTally()
	n := c.Pick(600, 6000)
	vrt.Parallel(n, func(i int) {
		t := newTally()
		r := c.RNG("mat/rt", i)
		c.LastCase(fmt.Sprintf("mat roundtrip case %d", i))
		// shape: 0-adjacent shapes are over-represented
		rows, cols := 1+r.Intn(12), 1+r.Intn(12)
		switch i % 8 {
		case 0:
			rows, cols = 1, 1
		case 1:
			rows = 1
		case 2:
			cols = 1
		case 3:
			rows, cols = 1+r.Intn(3), 1+r.Intn(3)
		case 4:
			if i%64 == 4 {
				rows, cols = 40+r.Intn(60), 1+r.Intn(7)
			}
		}
		// backing matrix with a margin on every side
		top, left, bottom, right := r.Intn(3), r.Intn(3), r.Intn(3), r.Intn(3)
		view := "view"
		if i%3 == 0 {
			top, left, bottom, right = 0, 0, 0, 0
			view = "whole"
		}
		R, C := rows+top+bottom, cols+left+right
		data := r.Floats(R*C, func() float64 { return hostileFloat(r) })
		big := mat.NewDense(R, C, data)
		m := big.Slice(top, top+rows, left, left+cols).(*mat.Dense)
		if view == "whole" && i%6 == 0 {
			// grown storage: capacity beyond the visible shape
			g := mat.NewDense(rows, cols, append([]float64(nil), data[:rows*cols]...))
			m = g.Grow(1+r.Intn(2), r.Intn(3)).(*mat.Dense).Slice(0, rows, 0, cols).(*mat.Dense)
			view = "grown"
		}
		snapshot := make([]float64, rows*cols)
		for a := 0; a < rows; a++ {
			for b := 0; b < cols; b++ {
				snapshot[a*cols+b] = m.At(a, b)
			}
		}
		at := func(a, b int) float64 { return snapshot[a*cols+b] }
		matCase(c, t, "Dense", view, rows, cols, at,
			func() ([]byte, error) { return m.MarshalBinary() },
			func(w *limitedWriter) (int, error) { return m.MarshalBinaryTo(w) })
		// encoders must not modify their operand
		for a := 0; a < rows; a++ {
			for b := 0; b < cols; b++ {
				if math.Float64bits(m.At(a, b)) != math.Float64bits(snapshot[a*cols+b]) {
					c.Violationf("mat.Dense.MarshalBinary|"+view+"|modifies-operand", replay{Case: fmt.Sprintf("Dense %dx%d", rows, cols)}, "element (%d,%d) changed during marshalling", a, b)
				}
			}
		}
		// vectors: a strided column view, a row view, a slice of a vector
		var v *mat.VecDense
		vview := ""
		switch i % 4 {
		case 0:
			v = mat.NewVecDense(rows, append([]float64(nil), data[:rows]...))
			vview = "whole"
		case 1:
			v = big.ColView(r.Intn(C)).(*mat.VecDense)
			vview = "colview"
		case 2:
			v = big.RowView(r.Intn(R)).(*mat.VecDense)
			vview = "rowview"
		default:
			cv := big.ColView(r.Intn(C)).(*mat.VecDense)
			lo := r.Intn(cv.Len())
			hi := lo + 1 + r.Intn(cv.Len()-lo)
			v = cv.SliceVec(lo, hi).(*mat.VecDense)
			vview = "colview-slice"
		}
		vn := v.Len()
		vs := make([]float64, vn)
		for a := range vs {
			vs[a] = v.AtVec(a)
		}
		matCase(c, t, "VecDense", vview, vn, 1, func(a, _ int) float64 { return vs[a] },
			func() ([]byte, error) { return v.MarshalBinary() },
			func(w *limitedWriter) (int, error) { return v.MarshalBinaryTo(w) })
		if c.WantSample() && i == 5 {
			c.Sample(map[string]any{"codec": "mat.Dense", "rows": rows, "cols": cols, "stride": m.RawMatrix().Stride, "view": view, "first_elements_bits": fmt.Sprintf("%#x %#x", math.Float64bits(at(0, 0)), math.Float64bits(at(rows-1, cols-1)))})
		}
		total.merge(t)
	})
	// the zero values
	t := newTally()
	var zd mat.Dense
	matCase(c, t, "Dense", "zero-value", 0, 0, nil,
		func() ([]byte, error) { return zd.MarshalBinary() },
		func(w *limitedWriter) (int, error) { return zd.MarshalBinaryTo(w) })
	var zv mat.VecDense
	matCase(c, t, "VecDense", "zero-value", 0, 1, nil,
		func() ([]byte, error) { return zv.MarshalBinary() },
		func(w *limitedWriter) (int, error) { return zv.MarshalBinaryTo(w) })
	// several messages in one stream are read one after the other
	r := c.RNG("mat/stream")
	for rep := 0; rep < c.Pick(40, 400); rep++ {
		c.LastCase(fmt.Sprintf("mat stream sequence %d", rep))
		var stream bytes.Buffer
		type msg struct {
			vec        bool
			rows, cols int
			vals       []float64
		}
		var msgs []msg
		for k := 2 + r.Intn(4); k > 0; k-- {
			m := msg{vec: r.Bool(), rows: 1 + r.Intn(5), cols: 1 + r.Intn(5)}
			if m.vec {
				m.cols = 1
			}
			m.vals = r.Floats(m.rows*m.cols, func() float64 { return hostileFloat(r) })
			msgs = append(msgs, m)
			if m.vec {
				mat.NewVecDense(m.rows, m.vals).MarshalBinaryTo(&stream)
			} else {
				mat.NewDense(m.rows, m.cols, m.vals).MarshalBinaryTo(&stream)
			}
		}
		rd := bytes.NewReader(stream.Bytes())
		for mi, m := range msgs {
			var got []float64
			var n int
			var err error
			t.add("mat|stream-sequence", 1, true)
			p := vrt.Try(func() {
				if m.vec {
					var v mat.VecDense
					n, err = v.UnmarshalBinaryFrom(rd)
					got = mat.Col(nil, 0, &v)
				} else {
					var d mat.Dense
					n, err = d.UnmarshalBinaryFrom(rd)
					rr, cc := d.Dims()
					for a := 0; a < rr; a++ {
						for b := 0; b < cc; b++ {
							got = append(got, d.At(a, b))
						}
					}
				}
			})
			ok := p == nil && err == nil && n == 40+8*len(m.vals) && len(got) == len(m.vals)
			for a := 0; ok && a < len(got); a++ {
				ok = math.Float64bits(got[a]) == math.Float64bits(m.vals[a])
			}
			if !ok {
				c.Violationf("mat.UnmarshalBinaryFrom|message-sequence|wrong-message", replay{Case: fmt.Sprintf("stream of %d messages, message %d", len(msgs), mi)},
					"message %d of a stream of %d: panic=%v err=%v n=%d, want n=%d and the %d values written", mi, len(msgs), p != nil, err, n, 40+8*len(m.vals), len(m.vals))
				break
			}
		}
	}
	// documented rejection: unmarshalling into a non-empty receiver panics
	enc, _ := mat.NewDense(1, 1, []float64{1}).MarshalBinary()
	for name, f := range map[string]func(){
		"mat.Dense.UnmarshalBinary":        func() { mat.NewDense(2, 2, nil).UnmarshalBinary(enc) },
		"mat.Dense.UnmarshalBinaryFrom":    func() { mat.NewDense(2, 2, nil).UnmarshalBinaryFrom(bytes.NewReader(enc)) },
		"mat.VecDense.UnmarshalBinary":     func() { mat.NewVecDense(2, nil).UnmarshalBinary(enc) },
		"mat.VecDense.UnmarshalBinaryFrom": func() { mat.NewVecDense(2, nil).UnmarshalBinaryFrom(bytes.NewReader(enc)) },
	} {
		t.add("mat|non-empty-receiver", 1, true)
		if vrt.Try(f) == nil {
			c.Violationf(name+"|non-empty-receiver|no-panic", replay{Case: name}, "%s into a non-empty receiver did not panic (documented: it panics)", name)
		}
	}
	total.merge(t)
	total.flush(c)
}
