package main

import (
	"fmt"
	"sort"
	"strings"

	"gonum.org/v1/gonum/graph/formats/rdf"
	"gonum.org/v1/gonum/verifx/vrt"
)

// quad is one statement as term texts; blank node terms start with "_:".
type quad [4]string

// dataset is a set of quads (no duplicates) with a class used in signatures.
type dataset struct {
	family string
	// labels: "triples", "quads-iri-graph", "quads-blank-graph" (every triple
	// in one graph) or "shared-triple-iri-graph", "shared-triple-blank-graph"
	// (the same triple in more than one graph).
	labels string
	quads  []quad
}

func (d dataset) blanks() []string {
	seen := map[string]bool{}
	var out []string
	for _, q := range d.quads {
		for _, t := range []string{q[0], q[2], q[3]} {
			if strings.HasPrefix(t, "_:") && !seen[t] {
				seen[t] = true
				out = append(out, t)
			}
		}
	}
	sort.Strings(out)
	return out
}

func (d dataset) statements() []*rdf.Statement {
	out := make([]*rdf.Statement, len(d.quads))
	for i, q := range d.quads {
		out[i] = &rdf.Statement{Subject: rdf.Term{Value: q[0]}, Predicate: rdf.Term{Value: q[1]}, Object: rdf.Term{Value: q[2]}, Label: rdf.Term{Value: q[3]}}
	}
	return out
}

func (d dataset) text() string {
	var sb strings.Builder
	for _, s := range d.statements() {
		sb.WriteString(s.String())
		sb.WriteByte('\n')
	}
	return sb.String()
}

func (d *dataset) add(s, p, o, g string) {
	q := quad{s, p, o, g}
	for _, e := range d.quads {
		if e == q {
			return
		}
	}
	d.quads = append(d.quads, q)
}

func bn(i int) string { return fmt.Sprintf("_:n%d", i) }

const (
	pA = "<http://example.org/p>"
	pB = "<http://example.org/q>"
)

// families of blank-node structures. Every generator returns a dataset whose
// blank nodes are _:n0.._:n(k-1).
var families = []struct {
	name string
	// sizes usable in the quick tier / thorough tier
	sizes []int
	gen   func(k int) dataset
}{
	{"cycle", []int{1, 2, 3, 4, 5, 6, 7, 8, 10}, func(k int) dataset {
		d := dataset{}
		for i := 0; i < k; i++ {
			d.add(bn(i), pA, bn((i+1)%k), "")
		}
		return d
	}},
	{"bidirectional-cycle", []int{3, 4, 5, 6, 7, 8}, func(k int) dataset {
		d := dataset{}
		for i := 0; i < k; i++ {
			d.add(bn(i), pA, bn((i+1)%k), "")
			d.add(bn((i+1)%k), pA, bn(i), "")
		}
		return d
	}},
	{"out-star", []int{2, 3, 4, 5, 6, 7}, func(k int) dataset {
		d := dataset{}
		for i := 1; i < k; i++ {
			d.add(bn(0), pA, bn(i), "")
		}
		return d
	}},
	{"in-star", []int{2, 3, 4, 5, 6, 7}, func(k int) dataset {
		d := dataset{}
		for i := 1; i < k; i++ {
			d.add(bn(i), pA, bn(0), "")
		}
		return d
	}},
	{"circulant-1-2", []int{5, 6, 7, 8, 9, 10}, func(k int) dataset {
		d := dataset{}
		for i := 0; i < k; i++ {
			d.add(bn(i), pA, bn((i+1)%k), "")
			d.add(bn(i), pA, bn((i+2)%k), "")
		}
		return d
	}},
	{"circulant-1-3", []int{7, 8, 9, 10}, func(k int) dataset {
		d := dataset{}
		for i := 0; i < k; i++ {
			d.add(bn(i), pA, bn((i+1)%k), "")
			d.add(bn(i), pA, bn((i+3)%k), "")
		}
		return d
	}},
	{"circulant-two-predicates", []int{5, 6, 7, 8}, func(k int) dataset {
		d := dataset{}
		for i := 0; i < k; i++ {
			d.add(bn(i), pA, bn((i+1)%k), "")
			d.add(bn(i), pB, bn((i+2)%k), "")
		}
		return d
	}},
	{"two-equal-cycles", []int{4, 6, 8, 10}, func(k int) dataset {
		d := dataset{}
		h := k / 2
		for i := 0; i < h; i++ {
			d.add(bn(i), pA, bn((i+1)%h), "")
			d.add(bn(h+i), pA, bn(h+(i+1)%h), "")
		}
		return d
	}},
	{"cycle-and-path", []int{5, 6, 7}, func(k int) dataset {
		// two components that first-degree hashes partly confuse
		d := dataset{}
		for i := 0; i < 3; i++ {
			d.add(bn(i), pA, bn((i+1)%3), "")
		}
		for i := 3; i+1 < k; i++ {
			d.add(bn(i), pA, bn(i+1), "")
		}
		return d
	}},
	{"complete-bipartite", []int{4, 5, 6, 7}, func(k int) dataset {
		d := dataset{}
		for i := 0; i < 2; i++ {
			for j := 2; j < k; j++ {
				d.add(bn(i), pA, bn(j), "")
			}
		}
		return d
	}},
	{"prism", []int{6, 8, 10}, func(k int) dataset {
		// two directed cycles joined by rungs: vertex transitive
		d := dataset{}
		h := k / 2
		for i := 0; i < h; i++ {
			d.add(bn(i), pA, bn((i+1)%h), "")
			d.add(bn(h+i), pA, bn(h+(i+1)%h), "")
			d.add(bn(i), pB, bn(h+i), "")
		}
		return d
	}},
	{"binary-tree", []int{3, 7}, func(k int) dataset {
		d := dataset{}
		for i := 1; i < k; i++ {
			d.add(bn((i-1)/2), pA, bn(i), "")
		}
		return d
	}},
	{"path", []int{2, 3, 4, 5, 6, 7, 9}, func(k int) dataset {
		d := dataset{}
		for i := 0; i+1 < k; i++ {
			d.add(bn(i), pA, bn(i+1), "")
		}
		return d
	}},
	{"self-loops", []int{1, 2, 3, 4}, func(k int) dataset {
		d := dataset{}
		for i := 0; i < k; i++ {
			d.add(bn(i), pA, bn(i), "")
		}
		return d
	}},
}

var groundTerms = []string{"<http://example.org/a>", "<http://example.org/b>", `"x"`, `"x"@en`, `"1"^^<http://www.w3.org/2001/XMLSchema#integer>`, `"line\nbreak \"q\" é"`}

// decorate adds ground triples and partially symmetry-breaking attachments,
// and optionally graph labels.
func decorate(r *vrt.Rand, d dataset, k int) dataset {
	d.labels = "triples"
	switch r.Intn(4) {
	case 1: // the same literal on every node: symmetry kept
		for i := 0; i < k; i++ {
			d.add(bn(i), pB, `"v"`, "")
		}
	case 2: // mark some nodes
		for n := 1 + r.Intn(2); n > 0; n-- {
			d.add(bn(r.Intn(k)), "<http://example.org/mark>", groundTerms[r.Intn(len(groundTerms))], "")
		}
	case 3: // ground triples and a hub IRI
		d.add(groundTerms[0], pA, groundTerms[r.Intn(len(groundTerms))], "")
		for i := 0; i < k; i += 1 + r.Intn(2) {
			d.add(groundTerms[1], pB, bn(i), "")
		}
	}
	return d
}

// withLabels puts the triples of d in named graphs.
func withLabels(r *vrt.Rand, d dataset, k int, mode int) dataset {
	out := dataset{family: d.family}
	switch mode {
	case 0: // one IRI graph for all
		out.labels = "quads-iri-graph"
		for _, q := range d.quads {
			out.add(q[0], q[1], q[2], "<http://example.org/g>")
		}
	case 4: // every other triple in an IRI-named graph
		out.labels = "quads-iri-graph"
		for i, q := range d.quads {
			g := ""
			if i%2 == 0 {
				g = "<http://example.org/g>"
			}
			out.add(q[0], q[1], q[2], g)
		}
	case 1: // a blank graph label that is also a node
		out.labels = "quads-blank-graph"
		for i, q := range d.quads {
			g := ""
			if i%2 == 0 {
				g = bn(k)
			}
			out.add(q[0], q[1], q[2], g)
		}
		out.add(bn(k), pB, bn(0), "")
	case 2: // every triple in the default graph and in a named graph
		out.labels = "shared-triple-iri-graph"
		for _, q := range d.quads {
			out.add(q[0], q[1], q[2], "")
			out.add(q[0], q[1], q[2], "<http://example.org/g>")
		}
	case 3: // every triple in two blank-labelled graphs
		out.labels = "shared-triple-blank-graph"
		for _, q := range d.quads {
			out.add(q[0], q[1], q[2], bn(k))
			out.add(q[0], q[1], q[2], bn(k+1))
		}
		out.add(bn(k), pB, `"first"`, "")
	}
	return out
}

// randomSparse is an unstructured dataset on k blank nodes.
func randomSparse(r *vrt.Rand, k int) dataset {
	d := dataset{family: "random-sparse", labels: "triples"}
	preds := []string{pA, pB}
	for n := k + r.Intn(k+1); n > 0; n-- {
		s, o := bn(r.Intn(k)), bn(r.Intn(k))
		if r.Intn(4) == 0 {
			o = groundTerms[r.Intn(len(groundTerms))]
		}
		if r.Intn(6) == 0 {
			s = groundTerms[r.Intn(2)]
		}
		d.add(s, preds[r.Intn(2)], o, "")
	}
	for i := 0; i < k; i++ { // every blank occurs
		d.add(bn(i), "<http://example.org/type>", groundTerms[0], "")
	}
	return d
}

// labelStyles: replacement label sets chosen to collide with the names the
// algorithms use internally (_:c14nN, _:bN, _:a, _:z, _:g) and to sort in
// ways unrelated to the structure.
func newLabels(r *vrt.Rand, k int) []string {
	out := make([]string, k)
	style := r.Intn(7)
	perm := r.Perm(k)
	for i := range out {
		j := perm[i]
		switch style {
		case 0:
			out[i] = fmt.Sprintf("_:c14n%d", j)
		case 1:
			out[i] = fmt.Sprintf("_:b%d", j)
		case 2:
			out[i] = fmt.Sprintf("_:%d", j)
		case 3:
			out[i] = "_:" + []string{"a", "z", "g", "b", "c", "y", "aa", "zz", "az", "za", "g0", "a0"}[j%12] + strings.Repeat("x", j/12)
		case 4:
			out[i] = fmt.Sprintf("_:%x", r.Uint64()|1<<60) + fmt.Sprint(j)
		case 5:
			out[i] = fmt.Sprintf("_:n%d", j) // the original names, permuted
		default:
			out[i] = fmt.Sprintf("_:%s%d", strings.Repeat("_", 1+j%3), j)
		}
	}
	return out
}

// relabel applies a bijective renaming of blank nodes and a permutation of
// the statements.
func relabel(r *vrt.Rand, d dataset) dataset {
	old := d.blanks()
	nl := newLabels(r, len(old))
	m := map[string]string{}
	for i, b := range old {
		m[b] = nl[i]
	}
	out := dataset{family: d.family, labels: d.labels, quads: make([]quad, len(d.quads))}
	for i, q := range d.quads {
		for j, t := range q {
			if n, ok := m[t]; ok && j != 1 {
				q[j] = n
			}
		}
		out.quads[i] = q
	}
	r.Shuffle(len(out.quads), func(i, j int) { out.quads[i], out.quads[j] = out.quads[j], out.quads[i] })
	return out
}

// isomorphic decides dataset isomorphism by exhaustive search over blank
// node bijections (backtracking).
func isomorphic(a, b dataset) bool {
	if len(a.quads) != len(b.quads) {
		return false
	}
	ab, bb := a.blanks(), b.blanks()
	if len(ab) != len(bb) {
		return false
	}
	set := map[quad]bool{}
	for _, q := range b.quads {
		set[q] = true
	}
	m := map[string]string{}
	used := map[string]bool{}
	mapped := func(q quad) (quad, bool) {
		for j, t := range q {
			if j != 1 && strings.HasPrefix(t, "_:") {
				n, ok := m[t]
				if !ok {
					return q, false
				}
				q[j] = n
			}
		}
		return q, true
	}
	var rec func(i int) bool
	rec = func(i int) bool {
		if i == len(ab) {
			for _, q := range a.quads {
				mq, _ := mapped(q)
				if !set[mq] {
					return false
				}
			}
			return true
		}
		for _, cand := range bb {
			if used[cand] {
				continue
			}
			m[ab[i]], used[cand] = cand, true
			ok := true
			for _, q := range a.quads {
				if mq, full := mapped(q); full && !set[mq] {
					ok = false
					break
				}
			}
			if ok && rec(i+1) {
				return true
			}
			delete(m, ab[i])
			used[cand] = false
		}
		return false
	}
	return rec(0)
}

// edit returns a copy of d with one small change: a blank node occurrence
// retargeted, a literal changed or a statement moved.
func edit(r *vrt.Rand, d dataset) (dataset, string) {
	out := dataset{family: d.family, labels: d.labels}
	bl := d.blanks()
	for try := 0; try < 50; try++ {
		qs := append([]quad(nil), d.quads...)
		i := r.Intn(len(qs))
		kind := ""
		switch r.Intn(4) {
		case 0, 1: // retarget a blank occurrence
			pos := []int{0, 2}[r.Intn(2)]
			if !strings.HasPrefix(qs[i][pos], "_:") || len(bl) < 2 {
				continue
			}
			nb := bl[r.Intn(len(bl))]
			if nb == qs[i][pos] {
				continue
			}
			qs[i][pos] = nb
			kind = "retarget-blank"
		case 2: // change or introduce a literal object
			if strings.HasPrefix(qs[i][2], `"`) {
				qs[i][2] = `"changed"`
			} else {
				qs = append(qs, quad{qs[i][0], pB, `"added"`, qs[i][3]})
			}
			kind = "literal"
		default: // swap direction
			if !strings.HasPrefix(qs[i][2], "_:") && !strings.HasPrefix(qs[i][2], "<") {
				continue
			}
			if qs[i][0] == qs[i][2] {
				continue
			}
			qs[i][0], qs[i][2] = qs[i][2], qs[i][0]
			kind = "reverse-edge"
		}
		out.quads = nil
		for _, q := range qs {
			out.add(q[0], q[1], q[2], q[3])
		}
		if len(out.blanks()) != len(bl) {
			continue // keep the blank node count (otherwise trivially different)
		}
		return out, kind
	}
	return d, "none"
}

// components counts the parts of d when statements are connected through
// shared blank nodes in subject or object position (a statement without
// such blank nodes is a part of its own).
func (d dataset) components() int {
	parent := map[string]string{}
	var find func(x string) string
	find = func(x string) string {
		if parent[x] == x {
			return x
		}
		parent[x] = find(parent[x])
		return parent[x]
	}
	n := 0
	for _, q := range d.quads {
		var bs []string
		for _, t := range []string{q[0], q[2]} {
			if strings.HasPrefix(t, "_:") {
				if _, ok := parent[t]; !ok {
					parent[t] = t
				}
				bs = append(bs, t)
			}
		}
		switch len(bs) {
		case 0:
			n++
		case 2:
			parent[find(bs[0])] = find(bs[1])
		}
	}
	for b := range parent {
		if find(b) == b {
			n++
		}
	}
	return n
}

func (d dataset) shared() bool { return strings.HasPrefix(d.labels, "shared-triple") }

// fixedDatasets are the small reproducers of the canonicalization defects
// found so far; they are part of every run.
func fixedDatasets() []dataset {
	var out []dataset
	mk := func(family, labels string, qs ...quad) {
		d := dataset{family: family, labels: labels}
		for _, q := range qs {
			d.add(q[0], q[1], q[2], q[3])
		}
		out = append(out, d)
	}
	g := "<http://example.org/g>"
	// a blank node that names a graph in one statement and is a subject in another
	mk("fixed-blank-graph-name", "quads-blank-graph", quad{"_:a", pA, "_:b", "_:g"}, quad{"_:g", pB, `"first"`, ""})
	// a statement without blank nodes next to one with blank nodes
	mk("fixed-ground-statement", "triples", quad{"_:a", pA, "_:b", ""}, quad{"<http://example.org/a>", pA, "<http://example.org/a>", ""})
	// the same triple in the default graph and in a named graph
	mk("fixed-shared-triple", "shared-triple-iri-graph", quad{"_:a", pA, "_:b", ""}, quad{"_:a", pA, "_:b", g}, quad{"_:b", pA, "_:a", ""}, quad{"_:b", pA, "_:a", g}, quad{"_:b", pB, `"x"`, ""}, quad{"_:b", pB, `"x"`, g})
	mk("fixed-shared-triple-blank-graphs", "shared-triple-blank-graph", quad{"_:a", pA, "_:b", "_:g"}, quad{"_:a", pA, "_:b", "_:h"}, quad{"_:g", pB, `"first"`, ""})
	// two components that share a blank graph name which is also a subject
	mk("fixed-blank-graph-two-components", "quads-blank-graph",
		quad{"_:n0", pA, "_:n1", "_:n6"}, quad{"_:n1", pA, "_:n2", ""}, quad{"_:n2", pA, "_:n0", "_:n6"},
		quad{"_:n3", pA, "_:n4", ""}, quad{"_:n4", pA, "_:n5", "_:n6"}, quad{"_:n6", pB, "_:n0", ""})
	// a bidirectional cycle whose two directions lie in different graphs
	for _, gn := range []string{"_:g", g} {
		labels := "quads-iri-graph"
		if gn == "_:g" {
			labels = "quads-blank-graph"
		}
		d := dataset{family: "fixed-oriented-cycle", labels: labels}
		for i := 0; i < 5; i++ {
			d.add(bn(i), pA, bn((i+1)%5), gn)
			d.add(bn((i+1)%5), pA, bn(i), "")
		}
		d.add(bn(0), pB, `"mark"`, "")
		out = append(out, d)
	}
	return out
}

// groundPart and blankPart split a dataset into the statements without and
// with blank nodes.
func (d dataset) groundPart() map[quad]bool {
	out := map[quad]bool{}
	for _, q := range d.quads {
		if !strings.HasPrefix(q[0], "_:") && !strings.HasPrefix(q[2], "_:") && !strings.HasPrefix(q[3], "_:") {
			out[q] = true
		}
	}
	return out
}

func (d dataset) blankPart() dataset {
	out := dataset{family: d.family, labels: d.labels}
	g := d.groundPart()
	for _, q := range d.quads {
		if !g[q] {
			out.quads = append(out.quads, q)
		}
	}
	return out
}

// onlyGroundDiffers reports whether a and b differ although their
// statements with blank nodes are isomorphic.
func onlyGroundDiffers(a, b dataset) bool {
	ga, gb := a.groundPart(), b.groundPart()
	same := len(ga) == len(gb)
	for q := range ga {
		if !gb[q] {
			same = false
		}
	}
	return !same && isomorphic(a.blankPart(), b.blankPart())
}
