package main

import (
	"fmt"
	"os"
	"time"

	"gonum.org/v1/gonum/verifx/vrt"
)

// runCalibrate is a development aid (-mode calibrate, never run by vctl):
// it prints the single-call cost of every canonicalization routine per
// dataset family, size, decoration and label mode. The table isoBudget /
// urnaBudget in c14n.go was derived from its output.
func runCalibrate(c *vrt.Ctx) {
	for _, f := range families {
		for mode := -1; mode < 4; mode++ {
			for dec := 0; dec < 2; dec++ {
				stop := make([]bool, len(canonForms))
				for _, k := range f.sizes {
					d := f.gen(k)
					d.family = f.name
					d.labels = "triples"
					if dec == 1 {
						for i := 0; i < k; i++ {
							d.add(bn(i), pB, `"v"`, "")
						}
					}
					if mode >= 0 {
						d = withLabels(vrt.NewRand(1), d, k, mode)
					}
					line := fmt.Sprintf("%-26s k=%-2d mode=%-2d dec=%d blanks=%-2d stmts=%-3d", f.name, k, mode, dec, len(d.blanks()), len(d.quads))
					for fi, form := range canonForms {
						if stop[fi] {
							line += "        -"
							continue
						}
						t0 := time.Now()
						form.run(d.statements())
						el := time.Since(t0)
						line += fmt.Sprintf(" %8.2f", el.Seconds()*1000)
						if el > 400*time.Millisecond {
							stop[fi] = true
						}
					}
					fmt.Fprintln(os.Stderr, line)
				}
			}
		}
	}
}
