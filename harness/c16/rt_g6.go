package main

import (
	"fmt"
	"sort"

	"gonum.org/v1/gonum/graph"
	"gonum.org/v1/gonum/graph/encoding/digraph6"
	"gonum.org/v1/gonum/graph/encoding/graph6"
	"gonum.org/v1/gonum/graph/simple"
	"gonum.org/v1/gonum/verifx/c16/chk"
	"gonum.org/v1/gonum/verifx/vrt"
)

func orderBucket(n int) string {
	switch {
	case n <= 1:
		return fmt.Sprint("n", n)
	case n <= 5:
		return "n2-5"
	case n < 62:
		return "n6-61"
	case n <= 64:
		return fmt.Sprint("n", n)
	}
	return "n65+"
}

// g6case is one round trip: the graph with adjacency adj over indices 0..n-1
// whose node IDs are ids (strictly increasing).
func g6case(c *vrt.Ctx, t *tally, directed bool, n int, ids []int64, adj func(i, j int) bool, idKind string) {
	name := "graph6"
	if directed {
		name = "digraph6"
	}
	key := fmt.Sprintf("%s|roundtrip|%s|ids-%s", name, orderBucket(n), idKind)
	var g graph.Graph
	if directed {
		dg := simple.NewDirectedGraph()
		for _, id := range ids {
			dg.AddNode(simple.Node(id))
		}
		for i := 0; i < n; i++ {
			for j := 0; j < n; j++ {
				if i != j && adj(i, j) {
					dg.SetEdge(simple.Edge{F: simple.Node(ids[i]), T: simple.Node(ids[j])})
				}
			}
		}
		g = dg
	} else {
		ug := simple.NewUndirectedGraph()
		for _, id := range ids {
			ug.AddNode(simple.Node(id))
		}
		for i := 0; i < n; i++ {
			for j := i + 1; j < n; j++ {
				if adj(i, j) {
					ug.SetEdge(simple.Edge{F: simple.Node(ids[i]), T: simple.Node(ids[j])})
				}
			}
		}
		g = ug
	}
	want := chk.EncodeRefG6(n, directed, adj)
	var got string
	p := vrt.Try(func() {
		if directed {
			got = string(digraph6.Encode(g))
		} else {
			got = string(graph6.Encode(g))
		}
	})
	t.add(key, 1, n > 1)
	rp := replay{Case: fmt.Sprintf("%s order %d ids %s", name, n, idKind), Extra: map[string]any{"reference_encoding": want, "ids": ids}}
	if p != nil {
		c.Violationf(name+".Encode|"+orderBucket(n)+"|panic", rp, "Encode of a simple graph of order %d panicked: %s\n%s", n, p.Msg, p.Stack)
		return
	}
	if got != want {
		c.Violationf(name+".Encode|"+orderBucket(n)+"|differs-from-format-definition", rp,
			"Encode of a graph of order %d gives %q, the format definition gives %q", n, clipS(got, 120), clipS(want, 120))
		return
	}
	// decode: every query against the bit vector (which is the graph)
	var res chk.Result
	if directed {
		res = chk.D6(got)
	} else {
		res = chk.G6(got)
	}
	if !res.Accepted {
		c.Violationf(name+".IsValid|"+orderBucket(n)+"|own-encoding-invalid", rp, "IsValid(Encode(g)) = false for order %d: %q", n, clipS(got, 120))
	}
	report(c, t, name, []byte(got), 0, res)
	// encode(decode(s)) == s
	var again string
	p = vrt.Try(func() {
		if directed {
			again = string(digraph6.Encode(digraph6.Graph(got)))
		} else {
			again = string(graph6.Encode(graph6.Graph(got)))
		}
	})
	t.add(key+"|reencode", 1, n > 1)
	if p != nil {
		c.Violationf(name+".Encode|decoded-graph|panic", rp, "Encode(Graph(%q)) panicked: %s", clipS(got, 120), p.Msg)
	} else if again != got {
		c.Violationf(name+".Encode|decoded-graph|not-idempotent", rp, "Encode(Graph(s)) = %q for s = %q", clipS(again, 120), clipS(got, 120))
	}
}

func clipS(s string, n int) string {
	if len(s) > n {
		return s[:n] + "..."
	}
	return s
}

func contiguousIDs(n int) []int64 {
	ids := make([]int64, n)
	for i := range ids {
		ids[i] = int64(i)
	}
	return ids
}

func randomIDs(r *vrt.Rand, n int) []int64 {
	seen := map[int64]bool{}
	ids := make([]int64, 0, n)
	for len(ids) < n {
		var id int64
		switch r.Intn(3) {
		case 0:
			id = int64(r.Intn(4*n+4)) - int64(n)
		case 1:
			id = int64(r.Uint64())
		default:
			id = int64(r.Intn(1000)) - 500
		}
		if !seen[id] {
			seen[id] = true
			ids = append(ids, id)
		}
	}
	sort.Slice(ids, func(i, j int) bool { return ids[i] < ids[j] })
	return ids
}

func runG6(c *vrt.Ctx) {
	total := newTally()
	// exhaustive small scopes
	type ex struct {
		directed bool
		n        int
		lo, hi   uint64
	}
	var jobs []ex
	for _, directed := range []bool{false, true} {
		for n := 0; n <= 5; n++ {
			bits := n * (n - 1) / 2
			if directed {
				bits = n * (n - 1)
			}
			count := uint64(1) << uint(bits)
			const chunk = 1 << 13
			for lo := uint64(0); lo < count; lo += chunk {
				jobs = append(jobs, ex{directed, n, lo, min(lo+chunk, count)})
			}
		}
	}
	quickSample := !c.Thorough()
	vrt.Parallel(len(jobs), func(ji int) {
		j := jobs[ji]
		t := newTally()
		c.LastCase(fmt.Sprintf("g6 exhaustive directed=%v n=%d masks %d..%d", j.directed, j.n, j.lo, j.hi))
		r := c.RNG("g6/exh", ji)
		ids := contiguousIDs(j.n)
		for mask := j.lo; mask < j.hi; mask++ {
			if quickSample && j.directed && j.n == 5 && r.Intn(50) != 0 {
				continue // all 2^20 digraphs on 5 nodes in the thorough tier, 2% here
			}
			m := mask
			n := j.n
			var adj func(i, j int) bool
			if j.directed {
				adj = func(a, b int) bool {
					if a == b {
						return false
					}
					k := a*(n-1) + b
					if b > a {
						k--
					}
					return m>>uint(k)&1 == 1
				}
			} else {
				adj = func(a, b int) bool {
					if a == b {
						return false
					}
					if a < b {
						a, b = b, a
					}
					return m>>uint(a*(a-1)/2+b)&1 == 1
				}
			}
			g6case(c, t, j.directed, n, ids, adj, "contiguous")
		}
		total.merge(t)
	})
	// every order 0..70 (62, 63, 64 cross the header change), several
	// densities, contiguous and arbitrary IDs
	type rc struct {
		directed bool
		n, rep   int
	}
	var rjobs []rc
	reps := c.Pick(6, 40)
	for _, directed := range []bool{false, true} {
		for n := 0; n <= 70; n++ {
			k := reps
			if n >= 61 && n <= 65 {
				k *= 3
			}
			for rep := 0; rep < k; rep++ {
				rjobs = append(rjobs, rc{directed, n, rep})
			}
		}
	}
	vrt.Parallel(len(rjobs), func(ji int) {
		j := rjobs[ji]
		t := newTally()
		c.LastCase(fmt.Sprintf("g6 random directed=%v n=%d rep=%d", j.directed, j.n, j.rep))
		r := c.RNG("g6/rand", ji)
		dens := []float64{0, 1, 0.5, 0.1, 0.9}[j.rep%5]
		if j.rep >= 5 {
			dens = r.Float64()
		}
		n := j.n
		a := make([]bool, n*n)
		for i := 0; i < n; i++ {
			for k := 0; k < n; k++ {
				if i != k && r.Float64() < dens {
					a[i*n+k] = true
					if !j.directed {
						a[k*n+i] = true
					}
				}
			}
		}
		ids, kind := contiguousIDs(n), "contiguous"
		if j.rep%2 == 1 {
			ids, kind = randomIDs(r, n), "arbitrary"
		}
		g6case(c, t, j.directed, n, ids, func(i, k int) bool { return a[i*n+k] }, kind)
		if c.WantSample() && n == 63 && j.rep == 2 {
			c.Sample(map[string]any{"codec": map[bool]string{false: "graph6", true: "digraph6"}[j.directed], "order": n, "density": dens, "encoding_prefix": clipS(chk.EncodeRefG6(n, j.directed, func(i, k int) bool { return a[i*n+k] }), 24)})
		}
		total.merge(t)
	})
	total.flush(c)
}
