package main

import (
	"fmt"
	"strconv"
	"strings"
	"unicode/utf8"

	"gonum.org/v1/gonum/graph"
	gdot "gonum.org/v1/gonum/graph/encoding/dot"
	fdot "gonum.org/v1/gonum/graph/formats/dot"
	"gonum.org/v1/gonum/verifx/c16/chk"
	"gonum.org/v1/gonum/verifx/vrt"
)

// idTokens is the quoting-hostile alphabet for DOT identifiers, attribute
// keys and values, port names and graph names.
var idTokens = []string{
	"a", "b", "Z", "_", "x1", "0", "7", "-1", ".5", "1.", "1.2.3", "-", "--", "->", " ", "\t", "\n", "\r\n",
	"\"", "\\", "\\\"", "\\n", "\\\\", "\\\n", "<", ">", "<b>", "</b>", "<br/>", "&amp;",
	"node", "Node", "NODE", "nOdE", "edge", "graph", "Graph", "digraph", "DiGraph", "subgraph", "strict", "STRICT",
	"é", "ü", "ÿ", "日本", "Ω", "😀", "\u00a0", "\u2028", "\ufeff",
	":", ";", ",", "=", "[", "]", "{", "}", "/*", "*/", "//", "#", "+", "@", "%", "'", "`", "$",
	"\x00", "\x01", "\x1f", "\x7f", "\x80", "\xff", "\xc3", "\ufffd", "n", "ne", "_", "c",
}

func rawHostile(r *vrt.Rand) string {
	var sb strings.Builder
	for k := r.Intn(5); k > 0; k-- {
		sb.WriteString(idTokens[r.Intn(len(idTokens))])
	}
	s := sb.String()
	switch r.Intn(12) {
	case 0:
		return "<" + strings.NewReplacer("<", "", ">", "", "\x00", "", "\ufffd", "").Replace(s) + "<b>" + "x" + "</b>>"
	case 1:
		return strconv.Quote(s) // an already quoted string
	case 2:
		return `"<` + strings.NewReplacer("\"", "", "\\", "").Replace(s) + `>"`
	}
	return s
}

// htmlLike reports whether gonum treats s as an HTML string (written raw).
func htmlLike(s string) bool {
	return len(s) >= 2 && s[0] == '<' && s[len(s)-1] == '>'
}

// wellFormedHTML: text and non-nested <...> tags, none of the characters an
// HTML string cannot hold in the DOT grammar (NUL, U+FFFD) and valid UTF-8.
func wellFormedHTML(s string) bool {
	if !utf8.ValidString(s) || strings.ContainsAny(s, "\x00\ufffd") {
		return false
	}
	depth := 0
	for _, ch := range s[1 : len(s)-1] {
		switch ch {
		case '<':
			depth++
			if depth > 1 {
				return false
			}
		case '>':
			depth--
			if depth < 0 {
				return false
			}
		}
	}
	return depth == 0
}

// rawPass reports whether the encoder writes s as it is ("If s is already
// quoted ... the original string is returned"; HTML strings): then s must
// itself be valid DOT.
func rawPass(s string) bool {
	if htmlLike(s) {
		return true
	}
	if len(s) >= 2 && s[0] == '"' && s[len(s)-1] == '"' {
		_, err := strconv.Unquote(s)
		return err == nil
	}
	return false
}

// hostileID returns a string inside the domain of the DOT encoder: any
// string at all, except that a string the encoder passes through unchanged
// (an HTML string or an already quoted string) must be valid DOT text
// (UTF-8 without NUL and U+FFFD, well-formed HTML).
func hostileID(r *vrt.Rand) string {
	for {
		s := rawHostile(r)
		if strings.Contains(s, "\ufffd") && r.Intn(12) != 0 {
			// U+FFFD is kept rare: the encoder's output for it does not parse
			// (reported), which would hide everything else in the case.
			s = strings.ReplaceAll(s, "\ufffd", "?")
		}
		if htmlLike(s) && !wellFormedHTML(s) {
			continue
		}
		if rawPass(s) && (!utf8.ValidString(s) || strings.ContainsAny(s, "\x00\ufffd")) {
			continue
		}
		return s
	}
}

func idClass(s string) string {
	n := chk.UnquoteDOT(s)
	switch {
	case strings.Contains(s, "\ufffd"):
		return "replacement-char"
	case !utf8.ValidString(s):
		return "invalid-utf8"
	case htmlLike(s):
		return "html"
	case n != s:
		return "quoted"
	case len(s) >= 2 && s[0] == '"' && s[len(s)-1] == '"':
		return "quote-delimited"
	case s == "":
		return "empty"
	}
	for _, kw := range []string{"node", "edge", "graph", "digraph", "subgraph", "strict"} {
		if strings.EqualFold(s, kw) {
			return "keyword"
		}
	}
	for _, ch := range s {
		if ch < 0x20 || ch == 0x7f {
			return "control-char"
		}
	}
	if strings.ContainsAny(s, "\"\\") {
		return "quote-or-backslash"
	}
	if strings.ContainsAny(s, "<>") {
		return "angle-bracket"
	}
	return "other"
}

var compassPoints = []string{"", "", "n", "ne", "e", "se", "s", "sw", "w", "nw", "c", "_"}

func isCompass(s string) bool {
	for _, c := range compassPoints[2:] {
		if s == c {
			return true
		}
	}
	return false
}

func genPort(r *vrt.Rand) (port, compass string) {
	if r.Intn(3) != 0 {
		return "", ""
	}
	compass = compassPoints[r.Intn(len(compassPoints))]
	if r.Bool() {
		port = hostileID(r)
		// a port named like a compass point without a compass is read back as
		// a compass point by the DOT grammar itself: outside the domain; the
		// empty port name cannot be written.
		if chk.UnquoteDOT(port) == "" || (compass == "" && isCompass(chk.UnquoteDOT(port))) || isCompass(port) {
			port = "p" + port
			if htmlLike(port) {
				port = "p"
			}
		}
	}
	return port, compass
}

func genAttrs(r *vrt.Rand, max int) chk.AttrList {
	var l chk.AttrList
	for k := r.Intn(max + 1); k > 0; k-- {
		l = append(l, chk.Attr{Key: hostileID(r), Value: hostileID(r)})
	}
	return l
}

// stringsOf lists every string of a decorated element (for attributing an
// unparsable output to one string).
func stringsOf(attrs []chk.Attr, p chk.Ports) []string {
	out := []string{p.FromPort, p.ToPort}
	for _, a := range attrs {
		out = append(out, a.Key, a.Value)
	}
	return out
}

func normAttrs(l []chk.Attr) []chk.Attr {
	var out []chk.Attr
	for _, a := range l {
		out = append(out, chk.Attr{Key: chk.UnquoteDOT(a.Key), Value: chk.UnquoteDOT(a.Value)})
	}
	return out
}

// dotBuilder abstracts the four graph types for the generator.
type dotBuilder struct {
	g        any
	directed bool
	multi    bool
}

func newDotGraph(directed, multi bool) dotBuilder {
	switch {
	case directed && !multi:
		return dotBuilder{chk.NewDDirected(), directed, multi}
	case !multi:
		return dotBuilder{chk.NewDUndirected(), directed, multi}
	case directed:
		return dotBuilder{chk.NewMDirected(), directed, multi}
	}
	return dotBuilder{chk.NewMUndirected(), directed, multi}
}

func (b dotBuilder) setName(s string) {
	b.g.(interface{ SetDOTID(string) }).SetDOTID(s)
}

func (b dotBuilder) setGlobals(ga, na, ea chk.AttrList) {
	switch g := b.g.(type) {
	case *chk.DDirected:
		g.GraphAttrs, g.NodeAttrs, g.EdgeAttrs = ga, na, ea
	case *chk.DUndirected:
		g.GraphAttrs, g.NodeAttrs, g.EdgeAttrs = ga, na, ea
	case *chk.MDirected:
		g.GraphAttrs, g.NodeAttrs, g.EdgeAttrs = ga, na, ea
	case *chk.MUndirected:
		g.GraphAttrs, g.NodeAttrs, g.EdgeAttrs = ga, na, ea
	}
}

func (b dotBuilder) newNodeID() int64 {
	return b.g.(graph.NodeAdder).NewNode().ID()
}

func (b dotBuilder) addNode(n graph.Node) { b.g.(graph.NodeAdder).AddNode(n) }

func (b dotBuilder) addEdge(f, t graph.Node, attrs chk.AttrList, p chk.Ports) {
	if b.multi {
		mb := b.g.(graph.LineAdder)
		l := mb.NewLine(f, t).(*chk.DLine)
		l.Attrs, l.P = attrs, p
		mb.SetLine(l)
		return
	}
	eb := b.g.(graph.EdgeAdder)
	e := eb.NewEdge(f, t).(*chk.DEdge)
	e.Attrs, e.P = attrs, p
	eb.SetEdge(e)
}

func (b dotBuilder) addSub(s dotBuilder) {
	switch g := b.g.(type) {
	case *chk.DDirected:
		g.Subs = append(g.Subs, s.g.(gdot.Graph))
	case *chk.DUndirected:
		g.Subs = append(g.Subs, s.g.(gdot.Graph))
	case *chk.MDirected:
		g.Subs = append(g.Subs, s.g.(gdot.Multigraph))
	case *chk.MUndirected:
		g.Subs = append(g.Subs, s.g.(gdot.Multigraph))
	}
}

func (b dotBuilder) marshal(prefix, indent string) ([]byte, error) {
	if b.multi {
		return gdot.MarshalMulti(b.g.(graph.Multigraph), "", prefix, indent)
	}
	return gdot.Marshal(b.g.(graph.Graph), "", prefix, indent)
}

// idPool hands out IDs whose normal forms are pairwise distinct.
type idPool struct {
	used map[string]bool
	all  []string
}

func (p *idPool) next(r *vrt.Rand) string {
	for {
		s := hostileID(r)
		n := chk.UnquoteDOT(s)
		if p.used[n] {
			continue
		}
		p.used[n] = true
		p.all = append(p.all, s)
		return s
	}
}

// populate fills b with nodes and edges and records them in the model.
func populate(r *vrt.Rand, b dotBuilder, m *chk.Model, pool *idPool, maxNodes int, decorate bool) []*chk.DNode {
	var nodes []*chk.DNode
	for k := r.Intn(maxNodes + 1); k > 0; k-- {
		n := &chk.DNode{NID: b.newNodeID(), Name: pool.next(r)}
		if decorate {
			n.Attrs = genAttrs(r, 3)
		}
		b.addNode(n)
		nodes = append(nodes, n)
		pool.all = append(pool.all, stringsOf(n.Attrs, chk.Ports{})...)
		m.Nodes[chk.UnquoteDOT(n.Name)] = normAttrs(n.Attrs)
		m.NodeOrder = append(m.NodeOrder, chk.UnquoteDOT(n.Name))
	}
	if len(nodes) == 0 {
		return nodes
	}
	seen := map[[2]int]bool{}
	for k := r.Intn(2*len(nodes) + 1); k > 0; k-- {
		i, j := r.Intn(len(nodes)), r.Intn(len(nodes))
		if !b.multi {
			if i == j {
				continue
			}
			key := [2]int{i, j}
			if !b.directed && j < i {
				key = [2]int{j, i}
			}
			if seen[key] {
				continue
			}
			seen[key] = true
		}
		var attrs chk.AttrList
		var p chk.Ports
		if decorate {
			attrs = genAttrs(r, 3)
			p.FromPort, p.FromCompass = genPort(r)
			p.ToPort, p.ToCompass = genPort(r)
		}
		b.addEdge(nodes[i], nodes[j], attrs, p)
		pool.all = append(pool.all, stringsOf(attrs, p)...)
		me := chk.MEdge{From: chk.UnquoteDOT(nodes[i].Name), To: chk.UnquoteDOT(nodes[j].Name), Attrs: normAttrs(attrs),
			P: chk.Ports{FromPort: chk.UnquoteDOT(p.FromPort), FromCompass: p.FromCompass, ToPort: chk.UnquoteDOT(p.ToPort), ToCompass: p.ToCompass}}
		m.Edges = append(m.Edges, orientEdge(me, b.directed))
	}
	return nodes
}

func orientEdge(e chk.MEdge, directed bool) chk.MEdge {
	// same canonical orientation as chk.ExtractModel
	return chk.Orient(e, directed)
}

func runDot(c *vrt.Ctx) {
	total := newTally()
	n := pick(c, 4000, 50000)
	vrt.Parallel(n, func(i int) {
		t := newTally()
		defer total.merge(t)
		r := c.RNG("dot/rt", i)
		c.LastCase(fmt.Sprintf("dot roundtrip case %d", i))
		directed, multi := i&1 == 0, i&2 != 0
		shape := []string{"plain", "plain", "subgrapher-nested", "structure", "structure-same-name", "subgrapher-one-edge", "subgrapher-many-edges", "subgrapher-isolated"}[(i>>2)%8]
		b := newDotGraph(directed, multi)
		m := &chk.Model{Directed: directed, Multi: multi, Nodes: map[string][]chk.Attr{}}
		pool := &idPool{used: map[string]bool{}}
		name := ""
		if r.Bool() {
			name = hostileID(r)
		}
		if shape == "structure-same-name" {
			name = []string{"", "G"}[r.Intn(2)]
		}
		pool.all = append(pool.all, name)
		// sub-graph names differ from the parent's and are not empty (the
		// shape structure-same-name is the exception)
		pool.used[chk.UnquoteDOT(name)], pool.used[""] = true, true
		b.setName(name)
		m.Name = chk.UnquoteDOT(name)
		ga, na, ea := genAttrs(r, 2), genAttrs(r, 2), genAttrs(r, 2)
		b.setGlobals(ga, na, ea)
		m.GraphAttrs, m.NodeAttrs, m.EdgeAttrs = normAttrs(ga), normAttrs(na), normAttrs(ea)
		for _, l := range [][]chk.Attr{ga, na, ea} {
			for _, a := range l {
				pool.all = append(pool.all, a.Key, a.Value)
			}
		}
		switch shape {
		case "structure", "structure-same-name":
			for k := 1 + r.Intn(2); k > 0; k-- {
				sb := newDotGraph(directed, multi)
				sname := pool.next(r)
				if shape == "structure-same-name" {
					sname = name
				}
				sb.setName(sname)
				sga, sna, sea := genAttrs(r, 1), genAttrs(r, 1), genAttrs(r, 1)
				sb.setGlobals(sga, sna, sea)
				for _, l := range [][]chk.Attr{sga, sna, sea} {
					pool.all = append(pool.all, stringsOf(l, chk.Ports{})...)
				}
				m.GraphAttrs = append(m.GraphAttrs, normAttrs(sga)...)
				m.NodeAttrs = append(m.NodeAttrs, normAttrs(sna)...)
				m.EdgeAttrs = append(m.EdgeAttrs, normAttrs(sea)...)
				populate(r, sb, m, pool, 3, true)
				b.addSub(sb)
			}
			populate(r, b, m, pool, 5, true)
		case "subgrapher-one-edge", "subgrapher-many-edges", "subgrapher-isolated":
			nodes := populate(r, b, m, pool, 4, true)
			for len(nodes) < 2 {
				nd := &chk.DNode{NID: b.newNodeID(), Name: pool.next(r)}
				b.addNode(nd)
				nodes = append(nodes, nd)
				m.Nodes[chk.UnquoteDOT(nd.Name)] = nil
				m.NodeOrder = append(m.NodeOrder, chk.UnquoteDOT(nd.Name))
			}
			sb := newDotGraph(directed, multi)
			sb.setName(pool.next(r))
			sm := &chk.Model{Directed: directed, Multi: multi, Nodes: map[string][]chk.Attr{}}
			inner := populate(r, sb, sm, pool, 3, false)
			for id, a := range sm.Nodes {
				m.Nodes[id] = a
			}
			m.NodeOrder = append(m.NodeOrder, sm.NodeOrder...)
			m.Edges = append(m.Edges, sm.Edges...)
			var sn graph.Node
			if multi {
				sn = &chk.MSubNode{NID: b.newNodeID(), G: sb.g.(gdot.Multigraph)}
			} else {
				sn = &chk.SubNode{NID: b.newNodeID(), G: sb.g.(gdot.Graph)}
			}
			b.addNode(sn)
			ne := map[string]int{"subgrapher-one-edge": 1, "subgrapher-many-edges": 2, "subgrapher-isolated": 0}[shape]
			for k := 0; k < ne; k++ {
				other := nodes[k%len(nodes)]
				attrs := genAttrs(r, 2)
				pool.all = append(pool.all, stringsOf(attrs, chk.Ports{})...)
				out := r.Bool()
				if out {
					b.addEdge(sn, other, attrs, chk.Ports{})
				} else {
					b.addEdge(other, sn, attrs, chk.Ports{})
				}
				for _, in := range inner {
					me := chk.MEdge{From: chk.UnquoteDOT(in.Name), To: chk.UnquoteDOT(other.Name), Attrs: normAttrs(attrs)}
					if !out {
						me.From, me.To = me.To, me.From
					}
					m.Edges = append(m.Edges, orientEdge(me, directed))
				}
			}
		case "subgrapher-nested":
			// A Subgrapher node S (sub-graph H) with an edge to a plain node;
			// H holds plain nodes and a Subgrapher node T (sub-graph K) with an
			// edge to one of them; K may hold a third level. The text means:
			// every node of K to that node, and every node of H - those of K
			// and below included - to the end point of S's edge.
			nodes := populate(r, b, m, pool, 3, true)
			for len(nodes) < 1 {
				nd := &chk.DNode{NID: b.newNodeID(), Name: pool.next(r)}
				b.addNode(nd)
				nodes = append(nodes, nd)
				m.Nodes[chk.UnquoteDOT(nd.Name)] = nil
				m.NodeOrder = append(m.NodeOrder, chk.UnquoteDOT(nd.Name))
			}
			addPlain := func(g dotBuilder, n int) []*chk.DNode {
				var out []*chk.DNode
				for k := 0; k < n; k++ {
					nd := &chk.DNode{NID: g.newNodeID(), Name: pool.next(r)}
					g.addNode(nd)
					out = append(out, nd)
					m.Nodes[chk.UnquoteDOT(nd.Name)] = nil
					m.NodeOrder = append(m.NodeOrder, chk.UnquoteDOT(nd.Name))
				}
				return out
			}
			subNode := func(parent, sub dotBuilder) graph.Node {
				var sn graph.Node
				if multi {
					sn = &chk.MSubNode{NID: parent.newNodeID(), G: sub.g.(gdot.Multigraph)}
				} else {
					sn = &chk.SubNode{NID: parent.newNodeID(), G: sub.g.(gdot.Graph)}
				}
				parent.addNode(sn)
				return sn
			}
			expect := func(from, to []*chk.DNode, out bool) {
				for _, f := range from {
					for _, t := range to {
						me := chk.MEdge{From: chk.UnquoteDOT(f.Name), To: chk.UnquoteDOT(t.Name)}
						if !out {
							me.From, me.To = me.To, me.From
						}
						m.Edges = append(m.Edges, orientEdge(me, directed))
					}
				}
			}
			link := func(g dotBuilder, sn graph.Node, other graph.Node, out bool) {
				if out {
					g.addEdge(sn, other, nil, chk.Ports{})
				} else {
					g.addEdge(other, sn, nil, chk.Ports{})
				}
			}
			hb := newDotGraph(directed, multi)
			hb.setName(pool.next(r))
			hPlain := addPlain(hb, 1+r.Intn(2))
			kb := newDotGraph(directed, multi)
			kb.setName(pool.next(r))
			kPlain := addPlain(kb, 1+r.Intn(2))
			all := append(append([]*chk.DNode(nil), hPlain...), kPlain...)
			third := r.Bool()
			if third { // a third level below K
				lb := newDotGraph(directed, multi)
				lb.setName(pool.next(r))
				lPlain := addPlain(lb, 1+r.Intn(2))
				out := r.Bool()
				link(kb, subNode(kb, lb), kPlain[0], out)
				expect(lPlain, kPlain[:1], out)
				kPlain = append(kPlain, lPlain...) // K stands for its own nodes and those below
				all = append(all, lPlain...)
			}
			outK := r.Bool()
			link(hb, subNode(hb, kb), hPlain[0], outK)
			expect(kPlain, hPlain[:1], outK)
			outS := r.Bool()
			link(b, subNode(b, hb), nodes[0], outS)
			expect(all, nodes[:1], outS)
			if directed && (!outS || third && !outK) {
				// A Subgrapher node with incoming edges only is written twice by
				// Marshal (among the nodes and in the edge statement); the second
				// copy omits the edges already written and with them the nested
				// sub-graph that is their end point (reported defect): own class.
				shape = "subgrapher-nested-reprinted"
			}
		default:
			populate(r, b, m, pool, 7, true)
		}
		kind := map[bool]string{false: "simple", true: "multi"}[multi]
		routine := map[bool]string{false: "dot.Marshal", true: "dot.MarshalMulti"}[multi]
		key := fmt.Sprintf("dot|roundtrip|%s|%s|directed=%v", shape, kind, directed)
		prefix, indent := []string{"", "\t", "  "}[r.Intn(3)], []string{"", "\t", " "}[r.Intn(3)]
		var enc []byte
		var err error
		t.add(key+"|marshal", 1, len(m.Nodes) > 0)
		rp := replay{Case: fmt.Sprintf("dot roundtrip case %d (%s, %s, directed=%v)", i, shape, kind, directed)}
		if p := vrt.Try(func() { enc, err = b.marshal(prefix, indent) }); p != nil || err != nil {
			c.Violationf(routine+"|"+shape+"|fails", rp, "%s: panic=%v err=%v", routine, p != nil, err)
			return
		}
		rp.Input = strconv.Quote(clipS(string(enc), 3000))
		rp.Decoder = "dot.Unmarshal"
		// the text must parse
		t.add(key+"|parse", 1, true)
		if _, perr := fdot.ParseBytes(enc); perr != nil {
			// attribute the failure to one string if one alone reproduces it
			culprit := "structure"
			for _, s := range pool.all {
				one := newDotGraph(directed, multi)
				one.addNode(&chk.DNode{NID: one.newNodeID(), Name: s})
				ob, _ := one.marshal("", "")
				if _, e := fdot.ParseBytes(ob); e != nil {
					culprit = "id-" + idClass(s)
					rp.Extra = map[string]any{"identifier": strconv.Quote(s)}
					break
				}
			}
			c.Violationf(routine+"|"+culprit+"|output-does-not-parse", rp, "%s output does not parse: %v\n%s", routine, perr, clipS(string(enc), 800))
			return
		}
		dst, uerr := unmarshalFresh(enc, directed, multi)
		t.add(key+"|unmarshal", 1, true)
		if uerr != nil {
			c.Violationf("dot.Unmarshal|roundtrip-"+shape+"|rejects-marshal-output", rp, "Unmarshal(Marshal(g)): %v\n%s", uerr, clipS(string(enc), 800))
			return
		}
		got := chk.ExtractModel(dst)
		if clause, detail := chk.CompareModels(m, got); clause != "" {
			c.Violationf("dot.Marshal+Unmarshal|"+shape+"|"+clause+"-differs", rp, "decode(encode(g)) != g (%s, %s): %s\n%s", kind, shape, detail, clipS(string(enc), 800))
		}
		// the validators on the generated text (AST re-print, text meaning)
		report(c, t, "dot.Parse", enc, 0, chk.Dot(enc))
		report(c, t, "dot.Unmarshal", enc, 0, chk.DotUnmarshal(enc))
		if c.WantSample() && i == 3 {
			c.Sample(map[string]any{"codec": "dot", "shape": shape, "kind": kind, "text": clipS(string(enc), 400)})
		}
	})
	// DOT texts with subgraphs as edge end points nested to depth 1..3, in
	// chains, over existing and new nodes, mixed with plain nested subgraph
	// statements: the decoded graph against the independent interpretation of
	// the text (every node of the whole left vertex to every node of the
	// right one).
	nt := pick(c, 3000, 40000)
	vrt.Parallel(nt, func(i int) {
		t := newTally()
		defer total.merge(t)
		r := c.RNG("dot/nested", i)
		c.LastCase(fmt.Sprintf("dot nested text %d", i))
		o := chk.NestedDotOptions{MaxDepth: 1 + i%3, Pool: []int{3, 6, 10, 16}[(i/3)%4], NoSelf: i%4 != 3}
		txt := []byte(chk.GenNestedDot(r, o))
		res := chk.DotUnmarshal(txt)
		res.Class += fmt.Sprintf("|nested-depth%d", o.MaxDepth)
		report(c, t, "dot.Unmarshal", txt, 0, res)
		report(c, t, "dot.Parse", txt, 0, chk.Dot(txt))
		if c.WantSample() && i == 8 {
			c.Sample(map[string]any{"codec": "dot", "shape": "nested subgraph end points", "text": clipS(string(txt), 400)})
		}
	})
	total.flush(c)
}

func unmarshalFresh(b []byte, directed, multi bool) (dst any, err error) {
	p := vrt.Try(func() {
		nb := newDotGraph(directed, multi)
		dst = nb.g
		if multi {
			err = gdot.UnmarshalMulti(b, nb.g.(interface {
				graph.Multigraph
				graph.MultigraphBuilder
			}))
		} else {
			err = gdot.Unmarshal(b, nb.g.(interface {
				graph.Graph
				graph.Builder
			}))
		}
	})
	if p != nil {
		return nil, fmt.Errorf("panic: %s", p.Msg)
	}
	return dst, err
}
