package main

import (
	"crypto/sha1"
	"crypto/sha256"
	"flag"
	"fmt"
	"hash"
	"os"
	"runtime/pprof"
	"sort"
	"strings"
	"sync/atomic"
	"syscall"
	"time"

	"gonum.org/v1/gonum/graph/formats/rdf"
	"gonum.org/v1/gonum/verifx/vrt"
)

var c14nJob = flag.Int("c14njob", -1, "run only this dataset of the rdfc14n section (debugging)")

// canonForm is one canonicalization routine under test.
type canonForm struct {
	name string
	// complete: distinct blank nodes always receive distinct labels, so the
	// output is a relabelling of the input (C14n after hashing with
	// decomp=true, dist=false may merge the nodes of identical splits, which
	// its documentation admits).
	complete bool
	// datasets: distinguishes quads (URGNA2012 is a graph algorithm and names
	// every blank graph label "_:g").
	datasets bool
	// iso: built on IsoCanonicalHashes, whose cost grows factorially with
	// the number of interchangeable blank nodes.
	iso bool
	run func(st []*rdf.Statement) ([]*rdf.Statement, error)
}

// budget returns how many relabelled variants a routine gets for a dataset
// of the given family, size and label mode. It is a fixed table derived
// from single-call costs measured once with -mode calibrate (not a time
// measurement at run time): up to about 5 ms per call the full count, up to
// about 50 ms ten variants, up to about 500 ms three variants in the thorough
// tier only, nothing above. The URDNA2015/URGNA2012 implementations are
// exponential when the same triple occurs in several graphs of a symmetric
// dataset; the IsoCanonicalHashes routines are factorial in the number of
// interchangeable blank nodes.
func budget(family string, k int, shared, iso, thorough bool, full int) int {
	tier := func(fullUpTo, some, few int) int {
		switch {
		case k <= fullUpTo:
			return full
		case k <= some:
			return 10
		case k <= few && thorough:
			return 3
		}
		return 0
	}
	if iso {
		switch family {
		case "out-star", "in-star":
			return tier(4, 6, 7)
		case "self-loops":
			return tier(4, 5, 6)
		case "complete-bipartite":
			return tier(5, 6, 7)
		case "two-equal-cycles":
			if shared {
				return tier(6, 10, 10)
			}
		}
		return full
	}
	if !shared {
		if family == "complete-bipartite" {
			return tier(6, 7, 7)
		}
		return full
	}
	switch family {
	case "cycle":
		return tier(5, 7, 8)
	case "bidirectional-cycle":
		return tier(0, 4, 5)
	case "circulant-1-2", "circulant-1-3":
		return tier(0, 0, 5)
	case "circulant-two-predicates":
		return tier(0, 5, 7)
	case "two-equal-cycles":
		return tier(8, 10, 10)
	case "complete-bipartite":
		return tier(4, 4, 5)
	case "prism":
		return tier(4, 8, 10)
	case "random-sparse":
		return 10
	}
	return full
}

func newSHA256() hash.Hash { return sha256.New() }

func isoC14n(decomp, dist bool) func(st []*rdf.Statement) ([]*rdf.Statement, error) {
	return func(st []*rdf.Statement) ([]*rdf.Statement, error) {
		h := sha256.New()
		_, terms := rdf.IsoCanonicalHashes(st, decomp, dist, h, make([]byte, h.Size()))
		return rdf.C14n(nil, st, terms)
	}
}

var canonForms = []canonForm{
	{"rdf.URDNA2015", true, true, false, func(st []*rdf.Statement) ([]*rdf.Statement, error) { return rdf.URDNA2015(nil, st) }},
	{"rdf.URGNA2012", true, false, false, func(st []*rdf.Statement) ([]*rdf.Statement, error) { return rdf.URGNA2012(nil, st) }},
	{"rdf.C14n(decomp=false)", true, true, true, isoC14n(false, false)},
	{"rdf.C14n(decomp=true,dist=true)", true, true, true, isoC14n(true, true)},
	{"rdf.C14n(decomp=true,dist=false)", false, true, true, isoC14n(true, false)},
}

func stText(st []*rdf.Statement) string {
	var sb strings.Builder
	for _, s := range st {
		sb.WriteString(s.String())
		sb.WriteByte('\n')
	}
	return sb.String()
}

func stDataset(st []*rdf.Statement) dataset {
	var d dataset
	for _, s := range st {
		d.add(s.Subject.Value, s.Predicate.Value, s.Object.Value, s.Label.Value)
	}
	return d
}

// canon runs form f on d inside recover; ok is false when it failed (the
// failure has been reported).
func canon(c *vrt.Ctx, t *tally, f canonForm, d dataset, cls string, rp replay) (string, []*rdf.Statement, bool) {
	var out []*rdf.Statement
	var err error
	t.add(f.name+"|"+cls, 1, len(d.blanks()) > 1)
	p := vrt.Try(func() { out, err = f.run(d.statements()) })
	if p != nil {
		c.Violationf(f.name+"|"+d.labels+"|panic", rp, "%s panicked on\n%s%s\n%s", f.name, d.text(), p.Msg, p.Stack)
		return "", nil, false
	}
	if err != nil {
		pc := d.labels
		if d.components() > 1 {
			pc = "several-components"
		}
		c.Violationf(f.name+"|"+pc+"|error", rp, "%s returned %v on\n%s", f.name, err, d.text())
		return "", nil, false
	}
	return stText(out), out, true
}

type c14nJobT struct {
	d   dataset
	idx int
	k   int
}

// c14nJobs builds the dataset list of the run (a function of the seed and
// the tier only).
func c14nJobs(c *vrt.Ctx) []c14nJobT {
	var jobs []c14nJobT
	gen := c.RNG("c14n/gen")
	reps := pick(c, 2, 8)
	for _, f := range families {
		for _, k := range f.sizes {
			if !(c.Thorough() && *mode != "race") && k > 8 {
				continue
			}
			for rep := 0; rep < reps; rep++ {
				d := f.gen(k)
				d.family = f.name
				d = decorate(gen, d, k)
				if rep%2 == 1 {
					d = withLabels(gen, d, k, (rep/2+k)%5)
				}
				jobs = append(jobs, c14nJobT{d: d, k: k})
			}
		}
	}
	for i := 0; i < pick(c, 40, 300); i++ {
		d := randomSparse(gen, 2+gen.Intn(6))
		if i%3 == 2 {
			d = withLabels(gen, d, 8, i%5)
		}
		jobs = append(jobs, c14nJobT{d: d})
	}
	for _, d := range fixedDatasets() {
		jobs = append(jobs, c14nJobT{d: d, k: len(d.blanks())})
	}
	for i := range jobs {
		jobs[i].idx = i
	}
	return jobs
}

var cpuProfile = flag.String("cpuprofile", "", "write a CPU profile of the rdfc14n section (debugging)")

func runC14n(c *vrt.Ctx) {
	if *cpuProfile != "" {
		f, _ := os.Create(*cpuProfile)
		pprof.StartCPUProfile(f)
		defer pprof.StopCPUProfile()
	}
	total := newTally()
	jobs := c14nJobs(c)
	variants := pick(c, 50, 120)
	vrt.Parallel(len(jobs), func(ji int) {
		if *c14nJob >= 0 && ji != *c14nJob {
			return
		}
		t := newTally()
		defer total.merge(t)
		d := jobs[ji].d
		if *c14nJob == -2 { // debugging aid: wall time per dataset on stderr
			t0 := time.Now()
			defer func() {
				fmt.Fprintf(os.Stderr, "c14njob %d %s %s k=%d blanks=%d stmts=%d %.2fs\n", ji, d.family, d.labels, jobs[ji].k, len(d.blanks()), len(d.quads), time.Since(t0).Seconds())
			}()
		}
		if *c14nJob >= 0 {
			fmt.Fprintf(os.Stderr, "%s", d.text())
		}
		r := c.RNG("c14n/case", ji)
		nb := len(d.blanks())
		cls := fmt.Sprintf("%s|%s|blanks=%d", d.family, d.labels, nb)
		c.LastCase(fmt.Sprintf("c14n dataset #%d %s", ji, cls))
		rp := replay{Case: fmt.Sprintf("dataset #%d %s", ji, cls), Input: d.text()}
		base := make([]string, len(canonForms))
		baseOK := make([]bool, len(canonForms))
		shared := d.shared()
		isoVariants := budget(d.family, jobs[ji].k, shared, true, c.Thorough() && *mode != "race", variants)
		urnaVariants := budget(d.family, jobs[ji].k, shared, false, c.Thorough() && *mode != "race", variants)
		nvar := func(f canonForm) int {
			if f.iso {
				return isoVariants
			}
			return urnaVariants
		}
		for fi, f := range canonForms {
			if nvar(f) == 0 {
				continue
			}
			var out []*rdf.Statement
			base[fi], out, baseOK[fi] = canon(c, t, f, d, cls, rp)
			if !baseOK[fi] {
				continue
			}
			// the canonical form is the same dataset (a relabelling of it)
			if f.complete && nb <= 7 {
				cd := stDataset(out)
				if f.name == "rdf.URGNA2012" && d.labels != "triples" {
					continue
				}
				if !isomorphic(d, cd) {
					c.Violationf(f.name+"|"+d.labels+"|output-not-isomorphic-to-input", rp, "%s output is not a relabelling of its input\ninput:\n%soutput:\n%s", f.name, d.text(), base[fi])
				}
			}
		}
		// invariance under relabelling and reordering
		for v := 0; v < variants; v++ {
			vd := relabel(r, d)
			vrp := rp
			vrp.Extra = map[string]any{"variant": vd.text()}
			for fi, f := range canonForms {
				if !baseOK[fi] || v >= nvar(f) {
					continue
				}
				got, _, ok := canon(c, t, f, vd, cls, vrp)
				if ok && got != base[fi] {
					c.Violationf(f.name+"|"+d.labels+"|isomorphic-copies-canonicalize-differently", vrp,
						"%s gives different output for two copies of one dataset that differ in blank node labels and statement order\ncopy 1:\n%scopy 2:\n%soutput 1:\n%soutput 2:\n%s", f.name, d.text(), vd.text(), base[fi], got)
				}
			}
			if v%5 == 0 && v < isoVariants {
				for _, decomp := range []bool{false, true} {
					var iso bool
					name := fmt.Sprintf("rdf.Isomorphic(decomp=%v)", decomp)
					t.add(name+"|"+cls, 1, nb > 1)
					if p := vrt.Try(func() { iso = rdf.Isomorphic(d.statements(), vd.statements(), decomp, sha1.New()) }); p != nil {
						c.Violationf(name+"|"+d.labels+"|panic", vrp, "%s panicked: %s", name, p.Msg)
					} else if !iso {
						c.Violationf(name+"|"+d.labels+"|isomorphic-copies-reported-different", vrp, "%s = false for two copies of one dataset that differ in blank node labels and statement order\ncopy 1:\n%scopy 2:\n%s", name, d.text(), vd.text())
					}
				}
			}
		}
		// single edits, decided by exhaustive search
		if nb <= 7 && nb >= 1 {
			edits := 8
			if m := min(isoVariants, urnaVariants); m < variants {
				edits = min(m, 3)
			}
			for e := 0; e < edits; e++ {
				ed, kind := edit(r, d)
				if kind == "none" {
					continue
				}
				same := isomorphic(d, ed)
				erp := rp
				erp.Extra = map[string]any{"edited": ed.text(), "edit": kind, "isomorphic_by_exhaustive_search": same}
				// present the edited copy under fresh labels and order
				edv := relabel(r, ed)
				for fi, f := range canonForms {
					if !baseOK[fi] || (!f.datasets && d.labels != "triples") {
						continue
					}
					got, _, ok := canon(c, t, f, edv, cls+"|edit", erp)
					if !ok {
						continue
					}
					switch {
					case same && got != base[fi]:
						c.Violationf(f.name+"|"+d.labels+"|isomorphic-copies-canonicalize-differently", erp, "%s differs for isomorphic datasets\nA:\n%sB:\n%s", f.name, d.text(), edv.text())
					case !same && got == base[fi] && f.complete:
						c.Violationf(f.name+"|"+d.labels+"|non-isomorphic-datasets-same-output", erp, "%s gives identical output for non-isomorphic datasets (exhaustive search over blank node bijections)\nA:\n%sB:\n%soutput:\n%s", f.name, d.text(), edv.text(), got)
					}
				}
				for _, decomp := range []bool{false, true} {
					var iso bool
					name := fmt.Sprintf("rdf.Isomorphic(decomp=%v)", decomp)
					t.add(name+"|"+cls+"|edit", 1, true)
					if p := vrt.Try(func() { iso = rdf.Isomorphic(d.statements(), edv.statements(), decomp, sha1.New()) }); p != nil {
						c.Violationf(name+"|"+d.labels+"|panic", erp, "%s panicked: %s", name, p.Msg)
					} else if iso != same {
						clause, pc := "isomorphic-copies-reported-different", d.labels
						if iso {
							// Isomorphic compares the multisets of term hashes only;
							// the defect does not depend on the kind of dataset.
							clause, pc = "non-isomorphic-reported-isomorphic", "any-dataset"
						}
						c.Violationf(name+"|"+pc+"|"+clause, erp, "%s = %v, exhaustive search over blank node bijections says %v (edit: %s)\nA:\n%sB:\n%s", name, iso, same, kind, d.text(), edv.text())
					}
				}
			}
		}
		deduplicateCase(c, t, r, d, cls, rp)
		if c.WantSample() && ji == 5 {
			c.Sample(map[string]any{"check": "rdf canonicalization", "family": d.family, "labels": d.labels, "blank_nodes": nb, "statements": len(d.quads), "variants": variants, "urdna2015": clipS(base[0], 300)})
		}
	})
	// fixed pairs of non-isomorphic datasets with equal multisets of
	// first-round term hashes: a path against a loop plus an edge; equal blank
	// structure with different ground statements
	ga := dataset{labels: "triples"}
	ga.add("_:a", pA, "_:b", "")
	ga.add("_:b", pA, "_:c", "")
	gb := dataset{labels: "triples"}
	gb.add("_:a", pA, "_:a", "")
	gb.add("_:b", pA, "_:c", "")
	fixedPair(c, total, ga, gb)
	ga = dataset{labels: "triples"}
	ga.add("_:a", pA, "_:b", "")
	ga.add("<http://example.org/a>", pA, "<http://example.org/b>", "")
	gb = dataset{labels: "triples"}
	gb.add("_:a", pA, "_:b", "")
	gb.add("<http://example.org/b>", pA, "<http://example.org/a>", "")
	fixedPair(c, total, ga, gb)
	total.flush(c)
}

func fixedPair(c *vrt.Ctx, total *tally, ga, gb dataset) {
	for _, decomp := range []bool{false, true} {
		name := fmt.Sprintf("rdf.Isomorphic(decomp=%v)", decomp)
		total.add(name+"|fixed-ground-pair", 1, true)
		var iso bool
		if p := vrt.Try(func() { iso = rdf.Isomorphic(ga.statements(), gb.statements(), decomp, sha1.New()) }); p != nil {
			c.Violationf(name+"|triples|panic", replay{Case: "fixed ground pair"}, "%s panicked: %s", name, p.Msg)
		} else if iso {
			c.Violationf(name+"|any-dataset|non-isomorphic-reported-isomorphic", replay{Case: "fixed pair", Input: ga.text(), Extra: map[string]any{"other": gb.text()}},
				"%s = true for non-isomorphic datasets\nA:\n%sB:\n%s", name, ga.text(), gb.text())
		}
	}
}

// deduplicateCase: Deduplicate removes exactly the duplicates, is
// idempotent and insensitive to the input order (its result is documented
// as sorted).
func deduplicateCase(c *vrt.Ctx, t *tally, r *vrt.Rand, d dataset, cls string, rp replay) {
	want := map[quad]bool{}
	for _, q := range d.quads {
		want[q] = true
	}
	var first string
	for v := 0; v < 8; v++ {
		// input: the set with random repetitions, shuffled
		in := append([]quad(nil), d.quads...)
		for k := r.Intn(len(d.quads) + 1); k > 0; k-- {
			in = append(in, d.quads[r.Intn(len(d.quads))])
		}
		r.Shuffle(len(in), func(i, j int) { in[i], in[j] = in[j], in[i] })
		switch v {
		case 1: // the set, graph names descending within equal triples
			in = append([]quad(nil), d.quads...)
			sort.Slice(in, func(i, j int) bool {
				a, b := in[i], in[j]
				if a[0] != b[0] || a[1] != b[1] || a[2] != b[2] {
					return fmt.Sprint(a[:3]) < fmt.Sprint(b[:3])
				}
				return a[3] > b[3]
			})
		case 0: // the set, graph names ascending within equal triples
			in = append([]quad(nil), d.quads...)
			sort.Slice(in, func(i, j int) bool { return fmt.Sprint(in[i]) < fmt.Sprint(in[j]) })
		case 2: // each statement, its twin in the other graph, the statement again
			in = append([]quad(nil), d.quads...)
			sort.Slice(in, func(i, j int) bool {
				a, b := in[i], in[j]
				if a[0] != b[0] || a[1] != b[1] || a[2] != b[2] {
					return fmt.Sprint(a[:3]) < fmt.Sprint(b[:3])
				}
				return a[3] > b[3]
			})
			var tw []quad
			for i := 0; i < len(in); i++ {
				tw = append(tw, in[i])
				if i+1 < len(in) && in[i+1][0] == in[i][0] && in[i+1][1] == in[i][1] && in[i+1][2] == in[i][2] {
					tw = append(tw, in[i+1], in[i])
					i++
				}
			}
			in = tw
		}
		id := dataset{quads: in}
		var out []*rdf.Statement
		t.add("rdf.Deduplicate|"+cls, 1, len(in) > 1)
		if p := vrt.Try(func() { out = rdf.Deduplicate(id.statements()) }); p != nil {
			c.Violationf("rdf.Deduplicate|"+d.labels+"|panic", rp, "Deduplicate panicked: %s", p.Msg)
			return
		}
		got := map[quad]int{}
		for _, s := range out {
			if s == nil {
				c.Violationf("rdf.Deduplicate|"+d.labels+"|nil-statement", rp, "Deduplicate returned a nil statement")
				return
			}
			got[quad{s.Subject.Value, s.Predicate.Value, s.Object.Value, s.Label.Value}]++
		}
		ok := len(got) == len(want) && len(out) == len(want)
		for q := range want {
			if got[q] != 1 {
				ok = false
			}
		}
		if !ok {
			c.Violationf("rdf.Deduplicate|"+d.labels+"|not-the-set-of-statements", replay{Case: rp.Case, Input: stText(id.statements())},
				"Deduplicate of %d statements (%d distinct) returned %d statements (%d distinct)\ninput:\n%soutput:\n%s", len(in), len(want), len(out), len(got), stText(id.statements()), stText(out))
			continue
		}
		txt := stText(out)
		if v == 0 {
			first = txt
		} else if txt != first {
			c.Violationf("rdf.Deduplicate|"+d.labels+"|order-dependent", replay{Case: rp.Case, Input: stText(id.statements())},
				"Deduplicate (documented: sorted in lexical order) returns the statements in different orders for two orderings of the same input\nfirst:\n%ssecond:\n%s", first, txt)
			continue
		}
		var again []*rdf.Statement
		vrt.Try(func() { again = rdf.Deduplicate(out) })
		if stText(again) != txt {
			c.Violationf("rdf.Deduplicate|"+d.labels+"|not-idempotent", rp, "Deduplicate(Deduplicate(s)) differs from Deduplicate(s)")
			return
		}
	}
}

// homomorphism reports whether some map of the blank nodes of a to terms of
// b sends every statement of a to a statement of b; with proper set, the
// image must additionally avoid at least one term of b's blank nodes... (the
// caller chooses the predicate on complete maps).
func homomorphism(a, b dataset, accept func(m map[string]string) bool) bool {
	ab := a.blanks()
	terms := map[string]bool{}
	set := map[quad]bool{}
	for _, q := range b.quads {
		set[q] = true
		terms[q[0]], terms[q[2]] = true, true
	}
	var tl []string
	for t := range terms {
		tl = append(tl, t)
	}
	sort.Strings(tl)
	m := map[string]string{}
	mapped := func(q quad) (quad, bool) {
		for _, j := range []int{0, 2} {
			if strings.HasPrefix(q[j], "_:") {
				n, ok := m[q[j]]
				if !ok {
					return q, false
				}
				q[j] = n
			}
		}
		return q, true
	}
	var rec func(i int) bool
	rec = func(i int) bool {
		if i == len(ab) {
			return accept(m)
		}
		for _, cand := range tl {
			m[ab[i]] = cand
			ok := true
			for _, q := range a.quads {
				if mq, full := mapped(q); full && !set[mq] {
					ok = false
					break
				}
			}
			if ok && rec(i+1) {
				return true
			}
		}
		delete(m, ab[i])
		return false
	}
	return rec(0)
}

// leanGuard runs rdf.Lean in its own goroutine. rdf.Lean does not terminate
// on some small inputs (reported); a goroutine cannot be killed, so a call
// that has consumed leanCPU of processor time without returning is abandoned
// (it keeps spinning until the process exits, which is why this section runs
// last) and at most maxLeanLeaks calls are abandoned per run; afterwards Lean
// is not called any more.
//
// The verdict is taken on the CPU clock of the process, not on wall time:
// the section is serial, so while a call is outstanding the only busy
// goroutines are that call and the k calls abandoned before it, which share
// the processor time of the process evenly; the call is abandoned when the
// process has consumed (k+1)*leanCPU since the call started. On a loaded
// machine the process clock advances slowly and the guard waits longer, so
// a slow but terminating call (they take < 10 ms of CPU) is not misreported.
const (
	leanCPU      = 8 * time.Second
	maxLeanLeaks = 3
)

var leanLeaks atomic.Int32

// processCPU returns the user+system processor time consumed by the process.
func processCPU() time.Duration {
	var ru syscall.Rusage
	if err := syscall.Getrusage(syscall.RUSAGE_SELF, &ru); err != nil {
		return 0
	}
	return time.Duration(ru.Utime.Nano() + ru.Stime.Nano())
}

type leanResult struct {
	out []*rdf.Statement
	err error
	p   *vrt.PanicInfo
}

// guardedLean returns ok=false when the call was skipped or abandoned.
func guardedLean(c *vrt.Ctx, st []*rdf.Statement, rp replay) (res leanResult, ok bool) {
	if leanLeaks.Load() >= maxLeanLeaks {
		c.Count("lean.calls_skipped_after_non_termination", 1)
		return res, false
	}
	ch := make(chan leanResult, 1)
	start := processCPU()
	go func() {
		var r leanResult
		r.p = vrt.Try(func() { r.out, r.err = rdf.Lean(st) })
		ch <- r
	}()
	tick := time.NewTicker(100 * time.Millisecond)
	defer tick.Stop()
	for {
		select {
		case res = <-ch:
			return res, true
		case <-tick.C:
			budget := leanCPU * time.Duration(leanLeaks.Load()+1)
			if used := processCPU() - start; used >= budget {
				leanLeaks.Add(1)
				c.Violationf("rdf.Lean|triples|does-not-terminate", rp, "Lean has not returned after the process consumed %v of CPU with %d busy goroutines (calls that return take milliseconds) on %d statements\n%s", used.Round(time.Second), leanLeaks.Load(), len(st), rp.Input)
				return res, false
			}
		}
	}
}

// runLean is the last section (see leanGuard).
func runLean(c *vrt.Ctx) {
	total := newTally()
	jobs := c14nJobs(c)
	// the 3-statement reproducer of the non-termination, every run
	fixed := dataset{family: "path", labels: "triples"}
	fixed.add("_:n2", pA, "_:n1", "")
	fixed.add("_:n3", pA, "_:n0", "")
	fixed.add("_:n1", pA, "_:n3", "")
	guardedLean(c, fixed.statements(), replay{Case: "directed path of four blank nodes", Input: fixed.text()})
	total.add("rdf.Lean|fixed-reproducer", 1, true)
	// a directed 4-cycle (its own core) and a pair that folds onto a ground loop
	cyc := dataset{family: "fixed-cycle", labels: "triples"}
	for i := 0; i < 4; i++ {
		cyc.add(bn(i), pA, bn((i+1)%4), "")
	}
	fold := dataset{family: "fixed-fold", labels: "triples"}
	fold.add("_:a", pA, "_:b", "")
	fold.add("<http://example.org/a>", pA, "<http://example.org/a>", "")
	for _, d := range []dataset{cyc, fold} {
		t := newTally()
		leanCase(c, t, c.RNG("c14n/lean-fixed"), d, d.family, replay{Case: d.family, Input: d.text()}, 1)
		total.merge(t)
	}
	// serial on purpose: see leanGuard
	for ji := range jobs {
		d := jobs[ji].d
		if d.labels != "triples" {
			continue
		}
		t := newTally()
		r := c.RNG("c14n/lean", ji)
		cls := fmt.Sprintf("%s|%s|blanks=%d", d.family, d.labels, len(d.blanks()))
		c.LastCase(fmt.Sprintf("lean dataset #%d %s", ji, cls))
		leanCase(c, t, r, d, cls, replay{Case: fmt.Sprintf("dataset #%d %s", ji, cls), Input: d.text()}, 4)
		total.merge(t)
	}
	c.Note("lean.calls_abandoned", leanLeaks.Load())
	total.flush(c)
}

// leanCase: Lean returns a sub-graph of g that g maps into (so both entail
// each other), that admits no map into a proper sub-graph of itself (it is
// a core), whose size does not depend on labels or order, and Lean is
// idempotent.
func leanCase(c *vrt.Ctx, t *tally, r *vrt.Rand, d dataset, cls string, rp replay, variants int) {
	if len(d.blanks()) > 7 {
		return
	}
	size := -1
	for v := 0; v < variants; v++ {
		vd := d
		if v > 0 {
			vd = relabel(r, d)
		}
		var out []*rdf.Statement
		var err error
		t.add("rdf.Lean|"+cls, 1, len(vd.blanks()) > 1)
		vrp := replay{Case: rp.Case, Input: vd.text()}
		lr, ok := guardedLean(c, vd.statements(), vrp)
		if !ok {
			return
		}
		out, err = lr.out, lr.err
		if p := lr.p; p != nil {
			c.Violationf("rdf.Lean|triples|panic", vrp, "Lean panicked on\n%s%s\n%s", vd.text(), p.Msg, p.Stack)
			return
		}
		if err != nil {
			c.Violationf("rdf.Lean|triples|error", vrp, "Lean returned %v for a dataset without graph names", err)
			return
		}
		ld := stDataset(out)
		in := map[quad]bool{}
		for _, q := range vd.quads {
			in[q] = true
		}
		for _, q := range ld.quads {
			if !in[q] {
				c.Violationf("rdf.Lean|triples|wrong-core", vrp, "[not-a-subgraph] Lean returned the statement %v which is not in its input\n%s", q, vd.text())
				return
			}
		}
		if len(ld.quads) != len(out) {
			c.Violationf("rdf.Lean|triples|wrong-core", vrp, "[duplicates] Lean returned %d statements, %d distinct", len(out), len(ld.quads))
			return
		}
		if !homomorphism(vd, ld, func(map[string]string) bool { return true }) {
			c.Violationf("rdf.Lean|triples|wrong-core", vrp, "[does-not-entail-input] no map of blank nodes sends the input into Lean's output\ninput:\n%soutput:\n%s", vd.text(), ld.text())
			return
		}
		// core: no endomorphism into a proper subset of its statements
		proper := homomorphism(ld, ld, func(m map[string]string) bool {
			img := map[quad]bool{}
			for _, q := range ld.quads {
				for _, j := range []int{0, 2} {
					if n, ok := m[q[j]]; ok {
						q[j] = n
					}
				}
				img[q] = true
			}
			return len(img) < len(ld.quads)
		})
		if proper {
			c.Violationf("rdf.Lean|triples|wrong-core", vrp, "[result-not-lean] Lean's output maps into a proper sub-graph of itself (it is not a core)\ninput:\n%soutput:\n%s", vd.text(), ld.text())
			return
		}
		if size < 0 {
			size = len(ld.quads)
		} else if size != len(ld.quads) {
			c.Violationf("rdf.Lean|triples|wrong-core", vrp, "[size-depends-on-labels-or-order] Lean returns %d statements for one copy of a dataset and %d for a relabelled, reordered copy", size, len(ld.quads))
			return
		}
		t.add("rdf.Lean|"+cls+"|idempotence", 1, true)
		lr2, ok := guardedLean(c, ld.statements(), replay{Case: rp.Case + " (second application)", Input: ld.text()})
		if !ok {
			return
		}
		if lr2.p != nil || lr2.err != nil || len(lr2.out) != len(ld.quads) {
			c.Violationf("rdf.Lean|triples|wrong-core", vrp, "[not-idempotent] Lean(Lean(g)): panic=%v err=%v, %d statements, Lean(g) has %d", lr2.p != nil, lr2.err, len(lr2.out), len(ld.quads))
			return
		}
	}
}
