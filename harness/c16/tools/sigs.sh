#!/bin/bash
# usage: sigs.sh <tier> <seed>...   (prints the signatures each run produces; development aid)
# VERIF_REPO is passed through.
tier=$1; shift
export GOFLAGS=-mod=mod GOPROXY=off GOSUMDB=off GOTOOLCHAIN=local
out=${SIGS_OUT:-/tmp/c16-sigs}
mkdir -p $out
for seed in "$@"; do
  if [ "$tier" = thorough ]; then
    VERIF_SEED=$seed /verif/bin/vctl run C16 --tier thorough > $out/run-$tier-$seed.txt 2>&1
  else
    VERIF_SEED=$seed /verif/bin/vctl run C16 > $out/run-$tier-$seed.txt 2>&1
  fi
  grep -E '^  witness \[' $out/run-$tier-$seed.txt | sed -E 's/^  witness \[[^]]*\] //; s/: .*$//' | sort -u > $out/sigs-$tier-$seed.txt
  grep -E '^KNOWN-FINDING' $out/run-$tier-$seed.txt | sed -E 's/^KNOWN-FINDING: property=C16 //; s/ -- .*$//' | sort -u >> $out/sigs-$tier-$seed.txt
  sort -u -o $out/sigs-$tier-$seed.txt $out/sigs-$tier-$seed.txt
  echo "seed $seed: $(wc -l < $out/sigs-$tier-$seed.txt) signatures; $(grep SUMMARY $out/run-$tier-$seed.txt)"
done
