// Command repro prints the minimal reproducers of the gonum defects found by
// the C16 monitor (run from /verif/harness: go run ./c16/tools/repro; with
// VERIF_REPO-style scratch copies use go run -modfile as vctl does).
package main

import (
	"bytes"
	"crypto/sha1"
	"crypto/sha256"
	"encoding/binary"
	"fmt"
	"hash/fnv"
	"time"

	"gonum.org/v1/gonum/graph/encoding/digraph6"
	gdot "gonum.org/v1/gonum/graph/encoding/dot"
	"gonum.org/v1/gonum/graph/encoding/graph6"
	"gonum.org/v1/gonum/graph/formats/cytoscapejs"
	"gonum.org/v1/gonum/graph/formats/rdf"
	"gonum.org/v1/gonum/graph/multi"
	"gonum.org/v1/gonum/graph/simple"
	"gonum.org/v1/gonum/mat"
	"gonum.org/v1/gonum/stat/card"
	"gonum.org/v1/gonum/verifx/c16/chk"
)

func try(name string, f func()) {
	defer func() {
		if r := recover(); r != nil {
			fmt.Printf("%-34s PANIC: %v\n", name, r)
		}
	}()
	f()
}

func hdr(rows, cols int64, nd int) []byte {
	b := make([]byte, 40+8*nd)
	binary.LittleEndian.PutUint32(b, 1)
	b[4], b[5], b[6] = 'G', 'F', 'A'
	binary.LittleEndian.PutUint64(b[8:], uint64(rows))
	binary.LittleEndian.PutUint64(b[16:], uint64(cols))
	return b
}

func parse(lines ...string) []*rdf.Statement {
	var st []*rdf.Statement
	for _, l := range lines {
		s, err := rdf.ParseNQuad(l)
		if err != nil {
			panic(err)
		}
		st = append(st, s)
	}
	return st
}

func text(st []*rdf.Statement) string {
	s := ""
	for _, x := range st {
		s += x.String() + " | "
	}
	return s
}

func main() {
	try("R1 rdf.ParseNQuad label", func() {
		s, err := rdf.ParseNQuad("_:a <a:p> _:b_:c .")
		fmt.Printf("%-34s ParseNQuad(\"_:a <a:p> _:b_:c .\") = object %q label %q err %v (one blank node object, no label)\n", "R1 rdf.ParseNQuad label", s.Object.Value, s.Label.Value, err)
	})
	try("R2 rdf.Term.Parts \\U", func() {
		s, _ := rdf.ParseNQuad(`<a:b> <a:c> "\UFFFFFFFF" .`)
		s.Object.Parts()
	})
	try("R3 dot.Unmarshal chain self edge", func() {
		err := gdot.Unmarshal([]byte("graph { a -- b -- b }"), simple.NewUndirectedGraph())
		fmt.Println("R3 err =", err)
	})
	try("R4 dot.Unmarshal subgraph vertex", func() {
		g := multi.NewDirectedGraph()
		err := gdot.UnmarshalMulti([]byte("digraph { a; {a b} -> c }"), g)
		fmt.Printf("%-34s err=%v edges=%d (DOT: a->c and b->c)\n", "R4 dot.Unmarshal subgraph vertex", err, g.Edges().Len())
	})
	try("R6 digraph6 order 2^32", func() {
		g := digraph6.Graph("&~~C?????")
		fmt.Printf("%-34s IsValid=%v ", "R6 digraph6 order 2^32", digraph6.IsValid(g))
		g.HasEdgeFromTo(0, 1)
	})
	try("R7 graph6.GoString invalid", func() { _ = graph6.Graph("").GoString() })
	try("R8 mat.Dense dims overflow", func() {
		var m mat.Dense
		err := m.UnmarshalBinary(hdr(3, 6148914691236517206, 2))
		r, c := m.Dims()
		fmt.Printf("%-34s err=%v dims=%dx%d len(data)=%d\n", "R8 mat.Dense dims overflow", err, r, c, len(m.RawMatrix().Data))
	})
	try("R9 mat.VecDense 2^61 elements", func() {
		var v mat.VecDense
		fmt.Println(v.UnmarshalBinary(hdr(1<<61, 1, 0)))
	})
	try("R9 mat.Dense stream 2^60", func() {
		var m mat.Dense
		fmt.Println(m.UnmarshalBinaryFrom(bytes.NewReader(hdr(1<<60, 1, 0))))
	})
	try("R10 HLL64 register length", func() {
		var h card.HyperLogLog64
		err := h.UnmarshalBinary(chk.EncodeHLL(chk.HLLMessage{Size: 64, Hash: chk.NameFNV64a, P: 4, Register: make([]uint8, 3)}))
		fmt.Printf("%-34s err=%v; then Write: ", "R10 HLL64 register length", err)
		for i := 0; i < 64; i++ {
			h.Write([]byte{byte(i)})
		}
	})
	try("R11 HLL Union hash mismatch", func() {
		a, _ := card.NewHyperLogLog64(4, fnv.New64a())
		b, _ := card.NewHyperLogLog64(4, fnv.New64())
		var z card.HyperLogLog64
		fmt.Printf("%-34s Union(a fnv64a, b fnv64) err=%v (documented: error)\n", "R11 HLL Union hash mismatch", z.Union(a, b))
	})
	try("R12 HLL SetHash", func() {
		var z card.HyperLogLog64
		h, _ := card.NewHyperLogLog64(4, fnv.New64a())
		fmt.Printf("%-34s nil-hash receiver: %v; receiver with hash: %v (documented: the opposite)\n", "R12 HLL SetHash", z.SetHash(fnv.New64a()), h.SetHash(fnv.New64a()))
	})
	try("R13 cytoscapejs Type", func() {
		t, err := cytoscapejs.Element{Group: "edge", Data: cytoscapejs.ElemData{ID: "e", Source: "a", Target: "b"}}.Type()
		fmt.Printf("%-34s Type()=%v err=%v (want EdgeElement=%v)\n", "R13 cytoscapejs Type", t, err, cytoscapejs.EdgeElement)
	})
	try("R14 dot.Marshal U+FFFD", func() {
		g := chk.NewDDirected()
		g.AddNode(&chk.DNode{NID: 0, Name: "a�b"})
		b, _ := gdot.Marshal(g, "", "", "")
		fmt.Printf("%-34s Unmarshal(Marshal(node %q)) err=%v\n", "R14 dot.Marshal U+FFFD", "a�b", gdot.Unmarshal(b, chk.NewDDirected()))
	})
	try("R15 dot.Marshal same-name subgraph", func() {
		g, s := chk.NewDDirected(), chk.NewDDirected()
		for _, x := range []*chk.DDirected{g, s} {
			a, b := &chk.DNode{NID: 0, Name: "a"}, &chk.DNode{NID: 1, Name: "b"}
			if x == s {
				a.Name, b.Name = "c", "d"
			}
			x.AddNode(a)
			x.AddNode(b)
			x.SetEdge(x.NewEdge(a, b))
		}
		g.Subs = append(g.Subs, s)
		b, _ := gdot.Marshal(g, "", "", "")
		fmt.Printf("%-34s edge a->b printed: %v\n", "R15 dot.Marshal same-name subgraph", bytes.Contains(b, []byte("a -> b")))
	})
	try("R23 dot.Marshal nested Subgrapher", func() {
		// x -> S, S = {h; T -> h}, T = {k}: S has incoming edges only
		k := chk.NewDDirected()
		k.SetDOTID("T")
		k.AddNode(&chk.DNode{NID: 0, Name: "k"})
		s := chk.NewDDirected()
		s.SetDOTID("S")
		h := &chk.DNode{NID: 0, Name: "h"}
		tn := &chk.SubNode{NID: 1, G: k}
		s.AddNode(h)
		s.AddNode(tn)
		s.SetEdge(s.NewEdge(tn, h))
		g := chk.NewDDirected()
		x := &chk.DNode{NID: 0, Name: "x"}
		sn := &chk.SubNode{NID: 1, G: s}
		g.AddNode(x)
		g.AddNode(sn)
		g.SetEdge(g.NewEdge(x, sn))
		b, _ := gdot.Marshal(g, "", "", "")
		back := chk.NewDDirected()
		err := gdot.Unmarshal(b, back)
		fmt.Printf("%-34s err=%v edges after round trip=%d (x->h, x->k, k->h expected)\n", "R23 dot.Marshal nested Subgrapher", err, back.Edges().Len())
	})
	try("R16 rdf.Deduplicate", func() {
		out := rdf.Deduplicate(parse("_:a <a:p> _:b <a:g> .", "_:a <a:p> _:b .", "_:a <a:p> _:b <a:g> ."))
		fmt.Printf("%-34s %d statements (2 distinct)\n", "R16 rdf.Deduplicate", len(out))
	})
	try("R17 rdf.C14n decomp ground stmt", func() {
		st := parse("_:a <a:p> _:b .", "<a:x> <a:p> <a:y> .")
		h := sha256.New()
		_, terms := rdf.IsoCanonicalHashes(st, true, true, h, make([]byte, h.Size()))
		_, err := rdf.C14n(nil, st, terms)
		fmt.Printf("%-34s terms=%d err=%v\n", "R17 rdf.C14n decomp ground stmt", len(terms), err)
	})
	try("R18 URDNA2015 graph membership", func() {
		mk := func(names [5]string, rev bool) []*rdf.Statement {
			var l []string
			for i := 0; i < 5; i++ {
				a, b := names[i], names[(i+1)%5]
				l = append(l, fmt.Sprintf("_:%s <a:p> _:%s <a:g> .", a, b), fmt.Sprintf("_:%s <a:p> _:%s .", b, a))
			}
			l = append(l, fmt.Sprintf("_:%s <a:q> \"mark\" .", names[0]))
			if rev {
				for i, j := 0, len(l)-1; i < j; i, j = i+1, j-1 {
					l[i], l[j] = l[j], l[i]
				}
			}
			return parse(l...)
		}
		diff := 0
		o1, _ := rdf.URDNA2015(nil, mk([5]string{"n0", "n1", "n2", "n3", "n4"}, false))
		for _, names := range [][5]string{{"e", "d", "c", "b", "a"}, {"b0", "b4", "b3", "b2", "b1"}, {"z", "a", "y", "b", "x"}, {"4", "0", "3", "1", "2"}} {
			for _, rev := range []bool{false, true} {
				o2, _ := rdf.URDNA2015(nil, mk(names, rev))
				if text(o1) != text(o2) {
					diff++
				}
			}
		}
		fmt.Printf("%-34s %d of 8 relabelled copies canonicalize differently\n", "R18 URDNA2015 graph membership", diff)
	})
	try("R19 Isomorphic(decomp) order", func() {
		a := parse("_:a <a:p> _:b _:g .", `_:g <a:q> "first" .`)
		b := parse(`_:g <a:q> "first" .`, "_:a <a:p> _:b _:g .")
		fmt.Printf("%-34s same two statements in the other order: Isomorphic(decomp=true)=%v\n", "R19 Isomorphic(decomp) order", rdf.Isomorphic(a, b, true, sha1.New()))
	})
	try("R20 Isomorphic false positive", func() {
		a := parse("_:a <a:p> _:b .", "_:b <a:p> _:c .")
		b := parse("_:a <a:p> _:a .", "_:b <a:p> _:c .")
		fmt.Printf("%-34s path of three vs loop plus edge: Isomorphic=%v\n", "R20 Isomorphic false positive", rdf.Isomorphic(a, b, false, sha1.New()))
	})
	try("R21 Lean wrong core", func() {
		out, err := rdf.Lean(parse("_:n0 <a:p> _:n1 .", "_:n1 <a:p> _:n2 .", "_:n2 <a:p> _:n3 .", "_:n3 <a:p> _:n0 ."))
		fmt.Printf("%-34s Lean(4-cycle) = %s err=%v\n", "R21 Lean wrong core", text(out), err)
	})
	try("R21 Lean panic", func() { rdf.Lean(parse("_:a <a:p> _:b .", "<a:x> <a:p> <a:x> .")) })
	done := make(chan bool)
	go func() {
		rdf.Lean(parse("_:n2 <a:p> _:n1 .", "_:n3 <a:p> _:n0 .", "_:n1 <a:p> _:n3 ."))
		done <- true
	}()
	select {
	case <-done:
		fmt.Printf("%-34s returned\n", "R21 Lean non-termination")
	case <-time.After(5 * time.Second):
		fmt.Printf("%-34s Lean(path of four blank nodes, 3 statements) still running after 5s\n", "R21 Lean non-termination")
	}
}
