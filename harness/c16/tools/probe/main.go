package main

import (
	"fmt"
	"sort"

	"gonum.org/v1/gonum/verifx/c16/chk"
)

func main() {
	sigs := map[string]string{}
	for _, r := range chk.Regressions {
		res := chk.RunDecoder(r.Decoder, r.Input, r.Arg)
		for _, f := range res.Findings {
			if _, ok := sigs[f.Sig]; !ok {
				sigs[f.Sig] = f.Detail
			}
		}
	}
	fmt.Println("== regressions")
	var k []string
	for s := range sigs {
		k = append(k, s)
	}
	sort.Strings(k)
	for _, s := range k {
		fmt.Printf("%s\n     %.300s\n", s, sigs[s])
	}
	fmt.Println("== corpus")
	for _, d := range chk.Decoders {
		for i, b := range chk.Corpus(d, 1) {
			for arg := 0; arg < 4; arg++ {
				res := chk.RunDecoder(d, b, arg)
				if !res.Accepted {
					fmt.Printf("corpus %s #%d arg %d not accepted: class %s\n", d, i, arg, res.Class)
				}
				for _, f := range res.Findings {
					if _, ok := sigs[f.Sig]; !ok {
						sigs[f.Sig] = f.Detail
						fmt.Printf("NEW %s #%d: %s\n     %.400s\n", d, i, f.Sig, f.Detail)
					}
				}
			}
		}
	}
}
