package main

import (
	"crypto/sha1"
	"fmt"
	"os"
	"strings"

	"gonum.org/v1/gonum/graph/formats/rdf"
)

func parse(txt string) []*rdf.Statement {
	var st []*rdf.Statement
	for _, l := range strings.Split(txt, "\n") {
		if strings.TrimSpace(l) == "" {
			continue
		}
		s, err := rdf.ParseNQuad(l)
		if err != nil {
			panic(err)
		}
		st = append(st, s)
	}
	return st
}

func main() {
	b, _ := os.ReadFile(os.Args[1])
	blks := strings.Split(string(b), "\n---\n")
	for i := 0; i+1 < len(blks); i += 2 {
		a, c := parse(blks[i]), parse(blks[i+1])
		fmt.Printf("pair %d: Isomorphic decomp=false %v, decomp=true %v\n", i/2, rdf.Isomorphic(a, c, false, sha1.New()), rdf.Isomorphic(a, c, true, sha1.New()))
	}
}
