package main

import (
	"fmt"
	"io"
	"strings"

	"gonum.org/v1/gonum/graph"
	gdot "gonum.org/v1/gonum/graph/encoding/dot"
	"gonum.org/v1/gonum/graph/formats/rdf"
	"gonum.org/v1/gonum/verifx/c16/chk"
	"gonum.org/v1/gonum/verifx/vrt"
)

// dstForm is a canonicalization routine that takes a destination slice.
type dstForm struct {
	name string
	run  func(dst, src []*rdf.Statement) ([]*rdf.Statement, error)
}

var dstForms = []dstForm{
	{"rdf.URDNA2015", rdf.URDNA2015},
	{"rdf.URGNA2012", rdf.URGNA2012},
	{"rdf.C14n(decomp=false)", func(dst, src []*rdf.Statement) ([]*rdf.Statement, error) {
		h := newSHA256()
		_, terms := rdf.IsoCanonicalHashes(src, false, false, h, make([]byte, h.Size()))
		return rdf.C14n(dst, src, terms)
	}},
}

func sameStatements(a, b []*rdf.Statement) (int, bool) {
	if len(a) != len(b) {
		return -1, false
	}
	for i := range a {
		if (a[i] == nil) != (b[i] == nil) {
			return i, false
		}
		if a[i] == nil {
			continue
		}
		// Term UIDs are copied from the source terms; which of several
		// interchangeable blank nodes receives a canonical label is not
		// determined, so UIDs are compared only against the stale markers.
		x, y := a[i], b[i]
		if x.Subject.Value != y.Subject.Value || x.Predicate.Value != y.Predicate.Value || x.Object.Value != y.Object.Value || x.Label.Value != y.Label.Value {
			return i, false
		}
		for _, u := range []int64{x.Subject.UID, x.Predicate.UID, x.Object.UID, x.Label.UID} {
			if u >= 77 {
				return i, false
			}
		}
	}
	return 0, true
}

// withUIDs gives the statements of d term UIDs, as a Decoder would.
func withUIDs(d dataset) []*rdf.Statement {
	ids := map[string]int64{}
	id := func(s string) int64 {
		if s == "" {
			return 0
		}
		if _, ok := ids[s]; !ok {
			ids[s] = int64(len(ids)) + 1
		}
		return ids[s]
	}
	st := d.statements()
	for _, s := range st {
		s.Subject.UID, s.Predicate.UID, s.Object.UID, s.Label.UID = id(s.Subject.Value), id(s.Predicate.Value), id(s.Object.Value), id(s.Label.Value)
	}
	return st
}

// runReuse: destinations and receivers that carry the remains of an earlier,
// different use must give the same result as fresh ones.
func runReuse(c *vrt.Ctx) {
	total := newTally()
	jobs := c14nJobs(c)
	// (1) dst of URDNA2015 / URGNA2012 / C14n: nil vs a slice of the right
	// length holding the output of a previous, different dataset (graph
	// labels, UIDs), fully or partly nil; wrong lengths must be refused.
	vrt.Parallel(len(jobs), func(ji int) {
		d := jobs[ji].d
		// Triples datasets, as they are and with every statement in one IRI
		// graph: for these the routines are deterministic (for datasets whose
		// symmetry is broken by graph membership their output varies from call
		// to call, a reported defect, which would be mistaken for an effect of
		// the destination).
		if d.labels != "triples" || len(d.quads) > 14 || budget(d.family, jobs[ji].k, false, false, false, 50) < 50 {
			return
		}
		if ji%2 == 1 {
			g := dataset{family: d.family, labels: "quads-one-iri-graph"}
			for _, q := range d.quads {
				g.add(q[0], q[1], q[2], "<http://example.org/g>")
			}
			d = g
		}
		t := newTally()
		defer total.merge(t)
		r := c.RNG("reuse/dst", ji)
		c.LastCase(fmt.Sprintf("reuse dst dataset #%d", ji))
		cls := d.labels
		for _, f := range dstForms {
			var want []*rdf.Statement
			var err error
			rp := replay{Case: fmt.Sprintf("%s dst reuse, dataset #%d", f.name, ji), Input: d.text()}
			t.add(f.name+"|dst-nil|"+cls, 1, true)
			if p := vrt.Try(func() { want, err = f.run(nil, withUIDs(d)) }); p != nil || err != nil {
				continue // reported by the rdfc14n section
			}
			for _, mode := range []string{"dirty", "dirty-partly-nil", "previous-output"} {
				dst := make([]*rdf.Statement, len(d.quads))
				for i := range dst {
					if mode == "dirty-partly-nil" && i%2 == 0 {
						continue
					}
					dst[i] = &rdf.Statement{
						Subject:   rdf.Term{Value: fmt.Sprintf("_:stale%d", i), UID: 900 + int64(i)},
						Predicate: rdf.Term{Value: "<http://stale.example/p>", UID: 77},
						Object:    rdf.Term{Value: `"stale"`, UID: 78},
						Label:     rdf.Term{Value: "<http://stale.example/graph>", UID: 79},
					}
				}
				if mode == "previous-output" {
					// the output of the same routine for a different dataset of
					// the same size: every statement in a named graph
					prev := dataset{}
					for i := range d.quads {
						prev.add(fmt.Sprintf("_:p%d", r.Intn(3)), pB, fmt.Sprintf(`"%d"`, i), "_:pg")
					}
					for len(prev.quads) < len(d.quads) {
						prev.add("_:p0", pA, fmt.Sprintf(`"x%d"`, len(prev.quads)), "<http://prev.example/g>")
					}
					vrt.Try(func() { dst, _ = f.run(nil, withUIDs(prev)) })
					if len(dst) != len(d.quads) {
						continue
					}
				}
				var got []*rdf.Statement
				t.add(f.name+"|dst-"+mode+"|"+cls, 1, true)
				if p := vrt.Try(func() { got, err = f.run(dst, withUIDs(d)) }); p != nil {
					c.Violationf(f.name+"|dst-reuse|panic", rp, "%s with a %s dst panicked: %s", f.name, mode, p.Msg)
					continue
				}
				if err != nil {
					c.Violationf(f.name+"|dst-reuse|error", rp, "%s with a %s dst of the right length: %v", f.name, mode, err)
					continue
				}
				if i, ok := sameStatements(got, want); !ok {
					detail := fmt.Sprintf("lengths %d and %d", len(got), len(want))
					if i >= 0 {
						detail = fmt.Sprintf("statement %d is %+v, with a nil dst %+v", i, *got[i], *want[i])
					}
					c.Violationf(f.name+"|dst-reuse|differs-from-nil-dst", rp, "%s into a %s dst differs from the result with a nil dst: %s\ndataset:\n%s", f.name, mode, detail, d.text())
				}
			}
			for _, n := range []int{len(d.quads) - 1, len(d.quads) + 1} {
				if n <= 0 {
					continue
				}
				t.add(f.name+"|dst-wrong-length|"+cls, 1, true)
				if p := vrt.Try(func() { _, err = f.run(make([]*rdf.Statement, n), withUIDs(d)) }); p != nil {
					c.Violationf(f.name+"|dst-wrong-length|panic", rp, "%s with a dst of length %d for %d statements panicked: %s", f.name, n, len(d.quads), p.Msg)
				} else if err == nil {
					c.Violationf(f.name+"|dst-wrong-length|accepted", rp, "%s with a dst of length %d for %d statements returned nil (documented: error)", f.name, n, len(d.quads))
				}
			}
		}
	})
	// (2) rdf.Decoder.Reset: a decoder that has read another document reads
	// the next one like a fresh decoder and keeps its term IDs.
	t := newTally()
	r := c.RNG("reuse/decoder")
	for rep := 0; rep < pick(c, 60, 600); rep++ {
		c.LastCase(fmt.Sprintf("reuse rdf.Decoder %d", rep))
		docA := jobs[r.Intn(len(jobs))].d.text()
		docB := jobs[r.Intn(len(jobs))].d.text()
		t.add("rdf.Decoder|reset-reuse", 2, true)
		p := vrt.Try(func() {
			dec := rdf.NewDecoder(strings.NewReader(docA))
			if r.Bool() { // stop in the middle of the first document half of the time
				dec.Unmarshal()
			} else {
				for {
					if _, err := dec.Unmarshal(); err != nil {
						break
					}
				}
			}
			seen := map[string]int64{}
			for k, v := range dec.Terms() {
				seen[k] = v
			}
			dec.Reset(strings.NewReader(docB))
			fresh := rdf.NewDecoder(strings.NewReader(docB))
			for {
				a, ea := dec.Unmarshal()
				b, eb := fresh.Unmarshal()
				if (ea == nil) != (eb == nil) || ea == io.EOF != (eb == io.EOF) {
					c.Violationf("rdf.Decoder|reset-reuse|differs-from-fresh-decoder", replay{Case: "Decoder.Reset", Input: docB}, "after Reset the decoder returns err=%v where a fresh one returns %v", ea, eb)
					return
				}
				if ea != nil {
					return
				}
				if a.Subject.Value != b.Subject.Value || a.Predicate.Value != b.Predicate.Value || a.Object.Value != b.Object.Value || a.Label.Value != b.Label.Value {
					c.Violationf("rdf.Decoder|reset-reuse|differs-from-fresh-decoder", replay{Case: "Decoder.Reset", Input: docB}, "after Reset the decoder returns %q where a fresh one returns %q", a.String(), b.String())
					return
				}
				for _, tm := range []rdf.Term{a.Subject, a.Predicate, a.Object, a.Label} {
					if id, ok := seen[tm.Value]; ok && id != tm.UID {
						c.Violationf("rdf.Decoder|reset-reuse|term-id-not-retained", replay{Case: "Decoder.Reset", Input: docB}, "term %q had UID %d before Reset and %d after (documented: the ID mapping is retained)", tm.Value, id, tm.UID)
						return
					}
					if tm.Value != "" {
						seen[tm.Value] = tm.UID
					}
				}
			}
		})
		if p != nil {
			c.Violationf("rdf.Decoder|reset-reuse|panic", replay{Case: "Decoder.Reset", Input: docB}, "panic: %s", p.Msg)
		}
	}
	total.merge(t)
	// (3) dot.Unmarshal / UnmarshalMulti into a graph that already holds
	// nodes and an edge: what was there stays, what is added equals the
	// decoding into an empty graph.
	texts := chk.Corpus("dot.Unmarshal", c.Seed)
	nt := pick(c, 300, 3000)
	vrt.Parallel(nt+len(texts), func(i int) {
		t := newTally()
		defer total.merge(t)
		var txt []byte
		if i < len(texts) {
			txt = texts[i]
		} else {
			txt = []byte(chk.GenNestedDot(c.RNG("reuse/dot", i), chk.NestedDotOptions{MaxDepth: 1 + i%3, Pool: 6, NoSelf: true}))
		}
		c.LastCase(fmt.Sprintf("reuse dot dst %d", i))
		for _, multi := range []bool{false, true} {
			for _, directed := range []bool{false, true} {
				fresh, ferr := unmarshalFresh(txt, directed, multi)
				if ferr != nil || fresh == nil {
					continue
				}
				routine := map[bool]string{false: "dot.Unmarshal", true: "dot.UnmarshalMulti"}[multi]
				rp := replay{Decoder: routine, Input: fmt.Sprintf("%q", clipS(string(txt), 2000))}
				nb := newDotGraph(directed, multi)
				o1 := &chk.DNode{NID: nb.newNodeID(), Name: "zz_old_1", Attrs: chk.AttrList{{Key: "old", Value: "1"}}}
				nb.addNode(o1)
				o2 := &chk.DNode{NID: nb.newNodeID(), Name: "zz_old_2"}
				nb.addNode(o2)
				nb.addEdge(o1, o2, chk.AttrList{{Key: "old", Value: "e"}}, chk.Ports{FromPort: "op"})
				var err error
				t.add(routine+"|non-empty-dst", 1, true)
				p := vrt.Try(func() {
					if multi {
						err = gdot.UnmarshalMulti(txt, nb.g.(interface {
							graph.Multigraph
							graph.MultigraphBuilder
						}))
					} else {
						err = gdot.Unmarshal(txt, nb.g.(interface {
							graph.Graph
							graph.Builder
						}))
					}
				})
				if p != nil {
					c.Violationf(routine+"|non-empty-dst|panic", rp, "%s into a graph that holds two nodes and an edge panicked: %s", routine, p.Msg)
					continue
				}
				if err != nil {
					c.Violationf(routine+"|non-empty-dst|error", rp, "%s into a graph that holds two nodes and an edge: %v (an empty graph accepts the text)", routine, err)
					continue
				}
				want, got := chk.ExtractModel(fresh), chk.ExtractModel(nb.g)
				if want.DupIDs || got.DupIDs {
					continue
				}
				// add the old content to the expectation
				want.Nodes["zz_old_1"] = []chk.Attr{{Key: "old", Value: "1"}}
				want.Nodes["zz_old_2"] = nil
				want.NodeOrder = append(want.NodeOrder, "zz_old_1", "zz_old_2")
				want.Edges = append(want.Edges, chk.Orient(chk.MEdge{From: "zz_old_1", To: "zz_old_2", Attrs: []chk.Attr{{Key: "old", Value: "e"}}, P: chk.Ports{FromPort: "op"}}, directed))
				// the graph ID and the global attribute lists are those of the text
				if clause, detail := chk.CompareModels(want, got); clause != "" {
					c.Violationf(routine+"|non-empty-dst|"+clause+"-differs-from-empty-dst", rp, "%s into a graph that holds two nodes and an edge: %s", routine, detail)
				}
			}
		}
	})
	total.flush(c)
}
