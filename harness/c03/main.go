// Command c03 is the monitor for property C03: LAPACK eigenvalue, Schur and
// singular value routines satisfy their identities.
//
// It calls the methods of lapack/gonum.Implementation on matrices of many
// classes, for every job option, several leading dimensions and workspace
// lengths, and judges the results with identities evaluated by package ref
// and plain loops (no gonum call inside an oracle).
package main

import (
	"flag"
	"sort"
	"strings"

	"gonum.org/v1/gonum/lapack/gonum"
	"gonum.org/v1/gonum/verifx/vrt"
)

var onlyFamily = flag.String("family", "", "run only the families whose name contains this string (debugging)")

func main() { vrt.Main("C03", run) }

// job is one logical input pushed through a family of routines.
type job struct {
	family string
	cost   int // rough size, for scheduling big ones first
	run    func()
}

type addFn = func(family string, cost int, f func())

func run(c *vrt.Ctx) {
	h := &H{c: c, ratios: map[string]float64{}, counts: map[string]int64{}}
	h.impl = gonum.Implementation{}
	var jobs []job
	add := func(family string, cost int, f func()) {
		if *onlyFamily != "" && !strings.Contains(family, *onlyFamily) {
			return
		}
		jobs = append(jobs, job{family, cost, f})
	}
	h.planSym(add)
	h.planSVD(add)
	h.planNonsym(add)
	h.planSchur(add)
	h.planGen(add)
	h.planHelpers(add)
	h.planAED(add)

	sort.SliceStable(jobs, func(i, j int) bool { return jobs[i].cost > jobs[j].cost })
	vrt.Parallel(len(jobs), func(i int) { jobs[i].run() })

	fam := map[string]any{}
	for _, j := range jobs {
		if v, ok := fam[j.family]; ok {
			fam[j.family] = v.(int) + 1
		} else {
			fam[j.family] = 1
		}
	}
	c.Note("logical_inputs_per_family", fam)
	h.finish()
}
