// Command repro holds minimal reproducers of the gonum defects found by the
// C03 monitor (see ../proposed_known_findings.json and ../candidate-fixes.diff).
// Run from /verif/harness:  go run ./c03/repro
package main

import (
	"fmt"
	"math"

	"gonum.org/v1/gonum/blas"
	"gonum.org/v1/gonum/lapack"
	"gonum.org/v1/gonum/lapack/gonum"
)

func try(name string, f func()) {
	defer func() {
		if r := recover(); r != nil {
			fmt.Printf("%s: PANIC %v\n", name, r)
		}
	}()
	f()
}

func main() {
	impl := gonum.Implementation{}

	// 1. Dsteqr: tiny block (scaled up internally) followed by an ordinary block.
	try("Dsteqr", func() {
		t := math.Ldexp(1, -450)
		d := []float64{1 * t, 2 * t, 3, 5}
		e := []float64{1 * t, 0, 1}
		ok := impl.Dsteqr(lapack.EVCompNone, 4, d, e, nil, 1, nil)
		fmt.Println("1. Dsteqr eigenvalues of diag blocks [[t,t],[t,2t]] and [[3,1],[1,5]]:", ok, d, " (want ..., 2.5857864376269, 5.4142135623731)")
	})
	// 2. Dsterf / Dsyev(jobz=None) on a tiny matrix.
	try("2. Dsterf", func() {
		t := math.Ldexp(1, -450)
		d := []float64{1 * t, 2 * t, 3 * t}
		e := []float64{1 * t, 1 * t}
		fmt.Println("2. Dsterf:", impl.Dsterf(3, d, e), d)
	})
	try("2. Dsyev jobz=None", func() {
		t := math.Ldexp(1, -500)
		a := []float64{2 * t, 1 * t, 0, 0, 2 * t, 1 * t, 0, 0, 2 * t}
		w := make([]float64, 3)
		work := make([]float64, 8)
		fmt.Println("2. Dsyev:", impl.Dsyev(lapack.EVNone, blas.Upper, 3, a, 3, w, work, 8), w)
	})
	// 3. Dggsvp3 n-l > k.
	try("3. Dggsvp3", func() {
		// A 3x4, B 2x4, rank([A;B]) = 3 < n = 4: fourth column = sum of the others.
		a := []float64{1, 2, 3, 6, 4, 5, 7, 16, 2, 0, 1, 3}
		b := []float64{1, 1, 0, 2, 0, 0, 0, 0}
		a0 := append([]float64(nil), a...)
		m, p, n := 3, 2, 4
		u, v, q := make([]float64, m*m), make([]float64, p*p), make([]float64, n*n)
		iwork := make([]int, n)
		tau := make([]float64, n)
		work := make([]float64, 100)
		k, l := impl.Dggsvp3(lapack.GSVDU, lapack.GSVDV, lapack.GSVDQ, m, p, n, a, n, b, n, 1e-13, 1e-13, u, m, v, p, q, n, iwork, tau, work, 100)
		// Q must be orthogonal.
		var worst float64
		for i := 0; i < n; i++ {
			for j := 0; j < n; j++ {
				var s float64
				for t := 0; t < n; t++ {
					s += q[t*n+i] * q[t*n+j]
				}
				if i == j {
					s--
				}
				worst = math.Max(worst, math.Abs(s))
			}
		}
		_ = a0
		fmt.Printf("3. Dggsvp3 k=%d l=%d max|QᵀQ-I| = %.3g, A on return = %.3g\n", k, l, worst, a)
	})
	// 3b. no column pivoting: B with a zero first column.
	try("3b. Dggsvp3", func() {
		a := []float64{1, 2, 3, 4, 5, 6, 7, 8, 10}
		b := []float64{0, 1, 0, 0, 0, 1}
		m, p, n := 3, 2, 3
		u, v, q := make([]float64, m*m), make([]float64, p*p), make([]float64, n*n)
		k, l := impl.Dggsvp3(lapack.GSVDU, lapack.GSVDV, lapack.GSVDQ, m, p, n, a, n, b, n, 1e-13, 1e-13, u, m, v, p, q, n, make([]int, n), make([]float64, n), make([]float64, 100), 100)
		fmt.Printf("3b. Dggsvp3: B = [0 1 0; 0 0 1] has rank 2, reported l = %d (k = %d)\n", l, k)
	})
	// 4. Dlasr Left/Top/Backward.
	try("4. Dlasr", func() {
		a := []float64{1, 2, 3, 4} // 2x2
		c, s := []float64{0.6}, []float64{0.8}
		impl.Dlasr(blas.Left, lapack.Top, lapack.Backward, 2, 2, c, s, a, 2)
		fmt.Println("4. Dlasr(Left,Top,Backward) on [1 2;3 4], c=0.6 s=0.8:", a, " (want [3 4.4 1 0.8]: one rotation of rows 0,1)")
	})
	// 5. Dgesvd 1x1 with lda = 2.
	try("5. Dgesvd 1x1 lda=2", func() {
		a := []float64{3}
		s := make([]float64, 1)
		work := make([]float64, 5)
		ok := impl.Dgesvd(lapack.SVDNone, lapack.SVDNone, 1, 1, a, 2, s, nil, 1, nil, 1, work, 5)
		fmt.Println("5. Dgesvd:", ok, s)
	})
	try("5. Dgesvd 2x1 jobU=S jobVT=S ldvt=2 lwork=5", func() {
		a := []float64{3, 4}
		s := make([]float64, 1)
		u := make([]float64, 2)
		vt := make([]float64, 1)
		work := make([]float64, 5)
		ok := impl.Dgesvd(lapack.SVDStore, lapack.SVDStore, 2, 1, a, 1, s, u, 1, vt, 2, work, 5)
		fmt.Println("5. Dgesvd:", ok, s)
	})
	// 6. Dsyev query n = 0.
	try("6. Dsyev query", func() {
		work := []float64{-7}
		impl.Dsyev(lapack.EVNone, blas.Upper, 0, nil, 1, nil, work, -1)
		fmt.Println("6. Dsyev n=0 lwork=-1: work[0] =", work[0], "(not written)")
	})
	// 7. Dbdsqr without vectors and work of the documented length 4*(n-1).
	try("7. Dbdsqr", func() {
		d := []float64{1, 2, 3}
		e := []float64{1, 1}
		fmt.Println("7. Dbdsqr:", impl.Dbdsqr(blas.Upper, 3, 0, 0, 0, d, e, nil, 1, nil, 1, nil, 1, make([]float64, 8)))
	})
	// 8. Dgesvd overwrite.
	try("8. Dgesvd jobU=Overwrite", func() {
		a := []float64{1, 2, 3, 4}
		impl.Dgesvd(lapack.SVDOverwrite, lapack.SVDNone, 2, 2, a, 2, make([]float64, 2), nil, 1, nil, 1, make([]float64, 100), 100)
	})
	// 9. Dggsvd3 with lwork = n+1.
	try("9. Dggsvd3 lwork=n+1", func() {
		a := []float64{1, 2, 3, 4}
		b := []float64{1, 0, 0, 1}
		n := 2
		impl.Dggsvd3(lapack.GSVDNone, lapack.GSVDNone, lapack.GSVDNone, 2, n, 2, a, 2, b, 2, make([]float64, n), make([]float64, n), nil, 1, nil, 1, nil, 1, make([]float64, n+1), n+1, make([]int, n))
	})
}
