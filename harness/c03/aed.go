package main

import (
	"fmt"
	"math"

	"gonum.org/v1/gonum/verifx/ref"
)

// ---- direct calls of the multishift QR building blocks and of Dlahr2 ---------------------

// similarityCheck judges H_out = Uᵀ H_in U with U = Z_inᵀ Z_out for an
// orthogonal Z_in: U orthogonal, H_out upper Hessenberg, residual small.
func (cs *Case) similarityCheck(routine, tag string, hin, hout, z0, z1 *ref.M) bool {
	n := hin.R
	fn := float64(max(n, 1))
	s := pow2Scale(hin.MaxAbs())
	hs := scaled(hin, s)
	scale := hs.NormFro()
	u := ref.Mul(z0.T(), z1)
	ok := cs.band(routine, tag, "schur-vectors-orthogonality", ref.OrthoResid(u), fn*eps, nil)
	if b := belowSubdiagMax(hout); b != 0 {
		cs.fail(routine, tag, "result-not-upper-hessenberg", "largest entry below the first subdiagonal %v", b)
		ok = false
	}
	r := ref.Sub(ref.Mul(u.T(), ref.Mul(hs, u)), scaled(hout, s))
	return cs.band(routine, tag, "sweep-similarity-residual", r.MaxAbs(), fn*eps*scale, nil) && ok
}

// noZSweepCheck judges H_out = Uᵀ H_in U (wantt = true) when U is not
// accumulated: Hessenberg structure and the similarity invariants.
func (cs *Case) noZSweepCheck(routine, tag string, hin, hout *ref.M) bool {
	ok := true
	if b := belowSubdiagMax(hout); b != 0 {
		cs.fail(routine, tag, "result-not-upper-hessenberg", "largest entry below the first subdiagonal %v", b)
		ok = false
	}
	s := pow2Scale(hin.MaxAbs())
	scale := scaled(hin, s).NormFro()
	ok = cs.band(routine, tag, "schur-norm-preserved", math.Abs(scaled(hout, s).NormFro()-scale), float64(hin.R)*eps*scale, nil) && ok
	return cs.similarityInvariants(routine, tag, hin, hout) && ok
}

func (h *H) checkLaqr5(id string, idx, n int, cls string) {
	rng := h.c.RNG("laqr5", idx)
	cs := h.newCase(id, rng)
	hm0 := hessGen(rng, cls, n)
	ws := windows(n)
	cfg := 0
	for _, kacc22 := range []int{0, 1, 2} {
		for _, nshfts := range []int{2, 4, 6, 10, 16} {
			cfg++
			if !h.thorough() && (cfg+idx)%3 != 0 {
				continue
			}
			win := ws[(cfg+idx)%len(ws)]
			ktop, kbot := win[0], win[1]
			if kbot-ktop+1 < 2 { // a sweep needs a block of order >= 2 to do anything
				ktop, kbot = 0, n-1
			}
			hm := blockStructured(hm0, ktop, kbot)
			wantt, wantz := true, (cfg+idx)%4 != 1 // one configuration in four: full H wanted, Z not
			pad := (cfg + idx) % 2 * 3
			tag := fmt.Sprintf("kacc22=%d wantz=%v", kacc22, wantz)
			hb := cs.matFrom("h", hm, pad)
			z0 := randOrtho(rng, n)
			zb := cs.mat("z", 1, 1, 0)
			if wantz {
				zb = cs.matFrom("z", z0, pad)
			}
			sr, si := make([]float64, nshfts), make([]float64, nshfts)
			for i := 0; i < nshfts; i += 2 {
				if rng.Bool() {
					re, im := rng.Sym(), rng.Uniform(0.1, 1)
					sr[i], sr[i+1], si[i], si[i+1] = re, re, im, -im
				} else {
					sr[i], sr[i+1] = rng.Sym(), rng.Sym()
				}
			}
			sc := hm.MaxAbs()
			if sc == 0 {
				sc = 1
			}
			for i := range sr {
				sr[i] *= sc
				si[i] *= sc
			}
			vb := cs.mat("v", nshfts/2, 3, 0)
			ub := cs.mat("u", 2*nshfts, 2*nshfts, pad)
			nv, nh := max(n, 1), max(n, 1)
			wvb := cs.mat("wv", nv, 2*nshfts, 0)
			whb := cs.mat("wh", 2*nshfts, nh, 0)
			if !cs.try("Dlaqr5", tag, key("n:"+bucket(n), "nshfts", nshfts, "block:"+bucket(kbot-ktop+1), "pad", pad, cls), true, func() {
				h.impl.Dlaqr5(wantt, wantz, kacc22, n, ktop, kbot, nshfts, sr, si, hb.s, hb.ld, 0, n-1, zb.s, zb.ld, vb.s, vb.ld, ub.s, ub.ld, nv, wvb.s, wvb.ld, nh, whb.s, whb.ld)
			}) {
				continue
			}
			cs.checkPads("Dlaqr5", tag, hb, zb)
			if !wantz {
				if !zb.untouched() {
					cs.fail("Dlaqr5", tag, "trespass:z:not-referenced", "wantz=false but z was modified")
				}
				cs.noZSweepCheck("Dlaqr5", tag, hm, hb.get())
				continue
			}
			cs.similarityCheck("Dlaqr5", tag, hm, hb.get(), z0, zb.get())
		}
	}
}

func (h *H) checkLaqr23(id string, idx, n int, cls string) {
	rng := h.c.RNG("laqr23", idx)
	cs := h.newCase(id, rng)
	hm0 := hessGen(rng, cls, n)
	ws := windows(n)
	cfg := 0
	for _, recur := range []int{0, 1} {
		for _, nwf := range []int{2, 3, 5, 9, 1000} { // window sizes (1000: the whole block)
			cfg++
			if !h.thorough() && (cfg+idx)%2 != 0 {
				continue
			}
			win := ws[(cfg+idx)%len(ws)]
			ktop, kbot := win[0], win[1]
			nw := min(nwf, kbot-ktop+1)
			if n > 40 && nwf == 1000 {
				nw = min(kbot-ktop+1, 80) // above NMIN = 75: the recursive Dlaqr04 branch for recur > 0
			}
			if nw < 1 {
				continue
			}
			hm := blockStructured(hm0, ktop, kbot)
			pad := (cfg + idx) % 2 * 3
			wantz := (cfg+idx)%4 >= 2 // half of the configurations: full H wanted, Z not
			tag := fmt.Sprintf("recur=%d wantz=%v", recur, wantz)
			hb := cs.matFrom("h", hm, pad)
			z0 := randOrtho(rng, n)
			zb := cs.mat("z", 1, 1, 0)
			if wantz {
				zb = cs.matFrom("z", z0, pad)
			}
			sr, si := cs.vec(kbot+1), cs.vec(kbot+1)
			vb := cs.mat("v", nw, nw, pad)
			nh := nw + (cfg % 3)
			tb := cs.mat("t", nw, nh, 0)
			nv := max(n, 1)
			wvb := cs.mat("wv", nv, nw, 0)
			lwork := max(1, 2*nw)
			lwc := lw((cfg/2 + idx) % 2)
			if lwc == lwQuery {
				var ok bool
				lwork, ok = cs.query("Dlaqr23", max(1, 2*nw), false, func(w []float64) {
					h.impl.Dlaqr23(true, wantz, n, ktop, kbot, nw, hb.s, hb.ld, 0, n-1, zb.s, zb.ld, sr, si, vb.s, vb.ld, nh, tb.s, tb.ld, nv, wvb.s, wvb.ld, w, -1, recur)
				}, hb.s, zb.s)
				if !ok {
					continue
				}
			}
			work := cs.work(lwork)
			var ns, nd int
			if !cs.try("Dlaqr23", tag, key("n:"+bucket(n), "nw:"+bucket(nw), "block:"+bucket(kbot-ktop+1), "pad", pad, "lwork", lwc, cls), true, func() {
				ns, nd = h.impl.Dlaqr23(true, wantz, n, ktop, kbot, nw, hb.s, hb.ld, 0, n-1, zb.s, zb.ld, sr, si, vb.s, vb.ld, nh, tb.s, tb.ld, nv, wvb.s, wvb.ld, work, lwork, recur)
			}) {
				continue
			}
			cs.checkPads("Dlaqr23", tag, hb, zb)
			if ns < 0 || nd < 0 || ns+nd > nw {
				cs.fail("Dlaqr23", tag, "ns-nd-inconsistent-with-window", "ns=%d nd=%d nw=%d", ns, nd, nw)
				continue
			}
			hout := hb.get()
			if !wantz {
				if !zb.untouched() {
					cs.fail("Dlaqr23", tag, "trespass:z:not-referenced", "wantz=false but z was modified")
				}
				if !cs.noZSweepCheck("Dlaqr23", tag, hm, hout) {
					continue
				}
			} else if !cs.similarityCheck("Dlaqr23", tag, hm, hout, z0, zb.get()) {
				continue
			}
			// Converged eigenvalues sr/si[kbot-nd+1 : kbot+1] are eigenvalues of the
			// deflated trailing block of H_out, hence (backward error) of H_in.
			if nd > 0 {
				blk := subMat(hm, ktop, kbot+1, ktop, kbot+1)
				s := pow2Scale(blk.MaxAbs())
				bs := scaled(blk, s)
				scale := bs.NormFro()
				fn := float64(blk.R)
				accept := limits["eig-backward-error"] * fn * eps * scale * 0.5
				var worst float64
				for i := kbot - nd + 1; i <= kbot; i++ {
					if si[i] < 0 {
						continue
					}
					be := eigBackwardError(bs, sr[i]*s, si[i]*s, accept)
					if math.IsNaN(be) {
						be = math.Inf(1)
					}
					worst = math.Max(worst, be)
				}
				cs.band("Dlaqr23", tag, "eig-backward-error", worst, fn*eps*scale, nil)
			}
		}
	}
}

// checkLahr2 calls Dlahr2 directly: n rows, offset k, nb columns; A is
// n x (n-k+1).
func (h *H) checkLahr2(id string, idx, n, k, nb int) {
	rng := h.c.RNG("lahr2", idx)
	cs := h.newCase(id, rng)
	nc := n - k + 1
	a := general(rng, clRand, n, nc)
	pad := idx % 2 * 3
	ab := cs.matFrom("a", a, pad)
	tau := cs.vec(nb)
	tb := cs.mat("t", nb, nb, pad)
	yb := cs.mat("y", n, nb, pad)
	if !cs.try("Dlahr2", "", key("n:"+bucket(n), "k:"+bucket(k), "nb:"+bucket(nb), "pad", pad), true, func() {
		h.impl.Dlahr2(n, k, nb, ab.s, ab.ld, tau, tb.s, tb.ld, yb.s, yb.ld)
	}) {
		return
	}
	cs.checkPads("Dlahr2", "", ab, tb, yb)
	f := ab.get()
	fn := float64(n)
	scale := a.NormFro()
	// Columns nb.. are unchanged.
	for i := 0; i < n; i++ {
		for j := nb; j < nc; j++ {
			if f.D[i*nc+j] != a.D[i*nc+j] {
				cs.fail("Dlahr2", "", "columns-beyond-nb-modified", "a[%d,%d]", i, j)
				return
			}
		}
		// Rows 0..k-1 of the first nb columns are unchanged as well (figure in the doc comment).
		for j := 0; j < nb && i < k; j++ {
			if f.D[i*nc+j] != a.D[i*nc+j] {
				cs.fail("Dlahr2", "", "rows-above-k-modified", "a[%d,%d]", i, j)
				return
			}
		}
	}
	// Reflector i: rows 0..k+i-1 zero, row k+i one, rows k+i+1.. from A[k+i+1:n, i].
	// V in the local column indexing of A (local column j <-> row k-1+j).
	qrow := ref.Eye(n)
	v := ref.New(nc, nb)
	vrow := ref.New(n, nb)
	for i := 0; i < nb; i++ {
		x := make([]float64, n)
		if k+i < n {
			x[k+i] = 1
		}
		for r := k + i + 1; r < n; r++ {
			x[r] = f.D[r*nc+i]
		}
		rightMulReflector(qrow, x, tau[i])
		for r := 0; r < n; r++ {
			vrow.D[r*nb+i] = x[r]
			if j := r - (k - 1); j >= 0 && j < nc {
				v.D[j*nb+i] = x[r]
			}
		}
	}
	cs.band("Dlahr2", "", "gehrd-reflector-orthogonality", ref.OrthoResid(qrow), fn*eps, nil)
	// T: I - V T Vᵀ equals the reflector product; T upper triangular.
	t := tb.get()
	if !ref.IsUpperTri(t) {
		// Entries below the diagonal of T are not referenced by the callers;
		// judge the upper triangle only.
		t = ref.Triu(t)
	}
	blockQ := ref.Sub(ref.Eye(n), ref.Mul(vrow, ref.Mul(t, vrow.T())))
	cs.band("Dlahr2", "", "lahr2-t-matches-reflector-product", ref.MaxDiff(blockQ, qrow), fn*eps, nil)
	// Y = A V T.
	y := yb.get()
	cs.band("Dlahr2", "", "lahr2-y-equals-a-v-t", ref.MaxDiff(y, ref.Mul(a, ref.Mul(v, t))), fn*eps*scale*math.Max(1, t.MaxAbs()), nil)
	// Reduced columns: rows k.. of column j < nb of Qᵀ A Q_loc, zero below row k+j.
	qloc := ref.Eye(nc)
	for i := 0; i < nb; i++ {
		x := make([]float64, nc)
		for j := 0; j < nc; j++ {
			x[j] = v.D[j*nb+i]
		}
		rightMulReflector(qloc, x, tau[i])
	}
	full := ref.Mul(qrow.T(), ref.Mul(a, qloc))
	var worst float64
	for j := 0; j < nb; j++ {
		for r := k; r < n; r++ {
			want := full.D[r*nc+j]
			got := f.D[r*nc+j]
			if r > k+j {
				got = 0 // reflector storage
				if math.Abs(want) > worst {
					worst = math.Abs(want)
				}
				continue
			}
			d := math.Abs(want - got)
			if math.IsNaN(d) {
				d = math.Inf(1)
			}
			worst = math.Max(worst, d)
		}
	}
	cs.band("Dlahr2", "", "lahr2-reduced-columns", worst, fn*eps*scale, nil)
}

func (h *H) planAED(add addFn) {
	idx := 0
	sizes := []int{4, 6, 12, 20, 33, 50, 90}
	reps := 1
	if h.thorough() {
		sizes = []int{2, 3, 4, 6, 12, 16, 20, 33, 50, 76, 90, 120, 150}
		reps = 2
	}
	for rep := 0; rep < reps; rep++ {
		for si, n := range sizes {
			for ci, cls := range hessClasses {
				if !h.thorough() && (si+ci)%2 != 0 {
					continue
				}
				idx++
				i, n, cls := idx, n, cls
				add("laqr5", 20*n*n*n, func() { h.checkLaqr5(fmt.Sprintf("laqr5 n=%d class=%s #%d", n, cls, i), i, n, cls) })
				add("laqr23", 20*n*n*n, func() { h.checkLaqr23(fmt.Sprintf("laqr23 n=%d class=%s #%d", n, cls, i), i, n, cls) })
			}
			for _, kn := range [][2]int{{1, 1}, {1, 2}, {2, 3}, {1, 32}, {3, 8}} {
				k, nb := kn[0], kn[1]
				if k+nb >= n {
					continue
				}
				idx++
				i, n := idx, n
				add("lahr2", n*n*n, func() { h.checkLahr2(fmt.Sprintf("lahr2 n=%d k=%d nb=%d #%d", n, k, nb, i), i, n, k, nb) })
			}
		}
	}
}
