package main

import "testing"

func TestDocLworkMin(t *testing.T) {
	dims := map[string]int{"m": 5, "n": 7, "p": 30}
	for _, c := range []struct {
		doc  string
		want int
	}{
		{"iwork must have length n, and lwork must be -1 or greater than n, otherwise Dggsvd3 will panic.", 8},
		{"lwork must be -1 or greater than zero, otherwise Dggsvp3 will panic.", 1},
		{"lwork must be -1 or at least n+max(3*n+1, m, p), otherwise Dggsvd3 will panic. If", 37},
		{"lwork must be -1 or at least max(3*n+1, m, p). Foo", 30},
	} {
		docMu.Lock()
		docCache["x.go:F"] = c.doc
		docMu.Unlock()
		got, ok := docLworkMin("x.go", "F", dims)
		if !ok || got != c.want {
			t.Errorf("%q: got %d %v want %d", c.doc, got, ok, c.want)
		}
	}
}
