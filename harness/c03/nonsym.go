package main

import (
	"encoding/binary"
	"fmt"
	"hash/fnv"
	"math"

	"gonum.org/v1/gonum/blas"
	"gonum.org/v1/gonum/lapack"
	"gonum.org/v1/gonum/verifx/ref"
	"gonum.org/v1/gonum/verifx/vrt"
)

// ---- nonsymmetric eigenvalue family ------------------------------------------------
//
// Dgehrd / Dgehd2 + Dorghr / Dormhr: Qᵀ A Q = H; Dhseqr / Dlahqr / Dlaqr04 /
// Dlaqr23 / Dlaqr5 on Hessenberg input; Dgeev on general input.

// blockStructured zeroes the entries of a below the diagonal in columns
// 0..ilo-1 and rows ihi+1..n-1 (the form produced by balancing).
func blockStructured(a *ref.M, ilo, ihi int) *ref.M {
	n := a.R
	b := a.Clone()
	for i := 0; i < n; i++ {
		for j := 0; j < i; j++ {
			if j < ilo || i > ihi {
				b.D[i*n+j] = 0
			}
		}
	}
	return b
}

func windows(n int) [][2]int {
	if n == 0 {
		return [][2]int{{0, -1}}
	}
	w := [][2]int{{0, n - 1}}
	if n >= 4 {
		w = append(w, [2]int{1, n - 2}, [2]int{n / 3, n / 3}, [2]int{0, n / 2}, [2]int{n / 2, n - 1})
	}
	return w
}

func (h *H) checkGehrd(id string, idx, n int, cls string) {
	rng := h.c.RNG("gehrd", idx)
	cs := h.newCase(id, rng)
	a0 := square(rng, cls, n)
	fn := float64(max(n, 1))
	type variant struct {
		routine string
		lwc     lw
	}
	ws := windows(n)
	for vi, v := range []variant{{"Dgehrd", lwMin}, {"Dgehrd", lwQuery}, {"Dgehd2", lwMin}} {
		win := ws[(vi+idx)%len(ws)]
		if vi == 0 {
			win = ws[0]
		} else if n > 128 {
			win = ws[(vi+idx)%2] // keep the window above the blocking crossover nx = 128
		}
		ilo, ihi := win[0], win[1]
		a := blockStructured(a0, ilo, ihi)
		s := pow2Scale(a.MaxAbs())
		as := scaled(a, s)
		scale := as.NormFro()
		pad := (vi + idx) % 2 * 3
		tag := "window=full"
		if !(ilo == 0 && ihi == n-1) {
			tag = "window=partial"
		}
		ab := cs.matFrom("a", a, pad)
		tau := cs.vec(max(0, n-1))
		kk := key("n:"+bucket(n), "nh:"+bucket(ihi-ilo+1), "pad", pad, "lwork", v.lwc)
		var okc bool
		if v.routine == "Dgehd2" {
			work := cs.work(n)
			if n == 0 {
				work = work[:0]
			}
			okc = cs.try(v.routine, tag, kk, n > 1, func() { h.impl.Dgehd2(n, ilo, ihi, ab.s, ab.ld, tau, work) })
		} else {
			lwork := max(1, n)
			if v.lwc == lwQuery {
				var ok bool
				lwork, ok = cs.query("Dgehrd", max(1, n), n == 0, func(w []float64) { h.impl.Dgehrd(n, ilo, ihi, ab.s, ab.ld, tau, w, -1) }, ab.s, tau)
				if !ok {
					continue
				}
			}
			work := cs.work(lwork)
			okc = cs.try(v.routine, tag, kk, n > 1, func() { h.impl.Dgehrd(n, ilo, ihi, ab.s, ab.ld, tau, work, lwork) })
		}
		if !okc {
			continue
		}
		cs.checkPads(v.routine, tag, ab)
		if n == 0 {
			continue
		}
		f := ab.get()
		if v.routine == "Dgehrd" {
			// tau[:ilo] and tau[ihi:] are set to zero (Dgehrd doc).
			for i := 0; i < n-1; i++ {
				if (i < ilo || i >= ihi) && tau[i] != 0 {
					cs.fail(v.routine, tag, "tau-outside-window-not-zero", "tau[%d]=%v ilo=%d ihi=%d", i, tau[i], ilo, ihi)
					break
				}
			}
		}
		q := qFromGehrd(f, tau, ilo, ihi)
		cs.band(v.routine, tag, "gehrd-reflector-orthogonality", ref.OrthoResid(q), fn*eps, nil)
		// H: upper Hessenberg part within the window, untouched triangle outside.
		hm := f.Clone()
		for i := 0; i < n; i++ {
			for j := 0; j < i-1; j++ {
				if j >= ilo && i <= ihi {
					hm.D[i*n+j] = 0 // reflector storage
				}
			}
		}
		if belowSubdiagMax(hm) != 0 {
			cs.fail(v.routine, tag, "outside-window-not-preserved", "entries below the subdiagonal outside the window are nonzero")
		}
		r := ref.Sub(ref.Mul(q.T(), ref.Mul(as, q)), scaled(hm, s))
		cs.band(v.routine, tag, "gehrd-reduction-residual", r.MaxAbs(), fn*eps*scale, nil)

		// Dorghr.
		for _, olw := range []lw{lwMin, lwQuery} {
			if !h.thorough() && (vi+int(olw)+idx)%2 == 0 {
				continue
			}
			ob := cs.mat("a", n, n, pad)
			copy(ob.s, ab.s)
			lwork := max(1, ihi-ilo)
			if olw == lwQuery {
				var ok bool
				lwork, ok = cs.query("Dorghr", max(1, ihi-ilo), false, func(w []float64) { h.impl.Dorghr(n, ilo, ihi, ob.s, ob.ld, tau, w, -1) }, ob.s, tau)
				if !ok {
					continue
				}
			}
			work := cs.work(lwork)
			if !cs.try("Dorghr", tag, key("n:"+bucket(n), "nh:"+bucket(ihi-ilo+1), "pad", pad, "lwork", olw), n > 1, func() {
				h.impl.Dorghr(n, ilo, ihi, ob.s, ob.ld, tau, work, lwork)
			}) {
				continue
			}
			cs.checkPads("Dorghr", tag, ob)
			cs.band("Dorghr", tag, "orghr-matches-reflector-product", ref.MaxDiff(ob.get(), q), fn*eps, nil)
		}
		// Dormhr.
		cfgi := 0
		for _, side := range []blas.Side{blas.Left, blas.Right} {
			for _, trans := range []blas.Transpose{blas.NoTrans, blas.Trans} {
				cfgi++
				if !h.thorough() && (cfgi+vi+idx)%2 == 0 {
					continue
				}
				lwc := lw((cfgi + idx) % 2)
				other := 1 + (idx+cfgi)%5
				mc, nc := n, other
				if side == blas.Right {
					mc, nc = other, n
				}
				c := general(rng, clRand, mc, nc)
				cb := cs.matFrom("c", c, (cfgi+idx)%2*2)
				mtag := fmt.Sprintf("side=%c trans=%c %s", sideCh(side), transCh(trans), tag)
				minlw := max(1, nc)
				if side == blas.Right {
					minlw = max(1, mc)
				}
				lwork := minlw
				if lwc == lwQuery {
					var ok bool
					lwork, ok = cs.query("Dormhr", minlw, false, func(w []float64) {
						h.impl.Dormhr(side, trans, mc, nc, ilo, ihi, ab.s, ab.ld, tau, cb.s, cb.ld, w, -1)
					}, ab.s, tau, cb.s)
					if !ok {
						continue
					}
				}
				work := cs.work(lwork)
				if !cs.try("Dormhr", mtag, key("n:"+bucket(n), "nh:"+bucket(ihi-ilo+1), "lwork", lwc), n > 1, func() {
					h.impl.Dormhr(side, trans, mc, nc, ilo, ihi, ab.s, ab.ld, tau, cb.s, cb.ld, work, lwork)
				}) {
					continue
				}
				cs.checkPads("Dormhr", mtag, cb)
				oo := q
				if trans == blas.Trans {
					oo = q.T()
				}
				var want *ref.M
				if side == blas.Left {
					want = ref.Mul(oo, c)
				} else {
					want = ref.Mul(c, oo)
				}
				cs.band("Dormhr", mtag, "ormhr-matches-reflector-product", ref.MaxDiff(cb.get(), want), fn*eps*math.Max(c.MaxAbs(), 1), nil)
			}
		}
	}
}

// ---- Hessenberg inputs ------------------------------------------------------------------

const (
	hsRand    = "rand"
	hsGraded  = "graded"
	hsCompan  = "companion"
	hsJordan  = "jordan"
	hsSplit   = "split"
	hsSymTri  = "symtridiag"
	hsRot     = "rotations"
	hsCyclic  = "cyclic-shift"
	hsZero    = "zero"
	hsIdent   = "identity"
	hsDiagMix = "diagmixed"
	hsHuge    = "huge"
	hsTiny    = "tiny"
	hsTriang  = "triangular"
)

var hessClasses = []string{hsRand, hsGraded, hsCompan, hsJordan, hsSplit, hsSymTri, hsRot, hsCyclic, hsTriang, hsDiagMix, hsZero, hsIdent, hsHuge, hsTiny}

func hessGen(r *vrt.Rand, cls string, n int) *ref.M {
	switch cls {
	case hsRand:
		return hessPart(general(r, clRand, n, n))
	case hsHuge:
		return hessPart(general(r, clHuge, n, n))
	case hsTiny:
		return hessPart(general(r, clTiny, n, n))
	case hsGraded:
		return hessPart(general(r, clGraded, n, n))
	case hsCompan:
		return square(r, clCompan, n)
	case hsZero, hsIdent, hsDiagMix:
		return general(r, cls, n, n)
	case hsTriang:
		a := general(r, clRand, n, n)
		for i := 0; i < n; i++ {
			for j := 0; j < i; j++ {
				a.D[i*n+j] = 0
			}
		}
		return a
	case hsJordan:
		a := ref.New(n, n)
		i := 0
		ev := []float64{1, -0.5, 2}
		for b := 0; i < n; b++ {
			sz := 1 + (b+2)%4
			for t := 0; t < sz && i < n; t++ {
				a.D[i*n+i] = ev[b%3]
				if t > 0 {
					a.D[(i-1)*n+i] = 1
				}
				i++
			}
		}
		for i := 0; i < n; i++ {
			for j := max(0, i-1); j < n; j++ {
				a.D[i*n+j] += 1e-10 * r.Sym()
			}
		}
		return a
	case hsSplit:
		a := hessPart(general(r, clRand, n, n))
		for i := 1; i < n; i++ {
			if r.Intn(4) == 0 {
				a.D[i*n+i-1] = 0
			}
		}
		return a
	case hsSymTri:
		a := ref.New(n, n)
		for i := 0; i < n; i++ {
			a.D[i*n+i] = r.Sym()
			if i+1 < n {
				x := r.Sym()
				a.D[i*n+i+1], a.D[(i+1)*n+i] = x, x
			}
		}
		return a
	case hsRot:
		a := ref.New(n, n)
		for i := 0; i < n; i++ {
			for j := i; j < n; j++ {
				a.D[i*n+j] = 0.2 * r.Sym()
			}
		}
		for i := 0; i+1 < n; i += 2 {
			th := r.Uniform(0.2, 2.9)
			rad := r.Uniform(0.5, 2)
			a.D[i*n+i], a.D[i*n+i+1], a.D[(i+1)*n+i], a.D[(i+1)*n+i+1] = rad*math.Cos(th), rad*math.Sin(th), -rad*math.Sin(th), rad*math.Cos(th)
		}
		return a
	case hsCyclic:
		a := ref.New(n, n)
		for i := 1; i < n; i++ {
			a.D[i*n+i-1] = 1
		}
		if n > 0 {
			a.D[n-1] = 1
		}
		return a
	}
	panic("c03: Hessenberg class " + cls)
}

// eigSample returns the indices of the eigenvalues whose backward error is
// evaluated: all for small n, a seeded sample otherwise (conjugates of a pair
// have the same backward error: only the first of a pair is taken).
func (h *H) eigSample(rng *vrt.Rand, wi []float64) []int {
	n := len(wi)
	all := h.pick(20, 40)
	cnt := h.pick(6, 14)
	var idx []int
	if n <= all {
		for i := 0; i < n; i++ {
			if wi[i] < 0 {
				continue
			}
			idx = append(idx, i)
		}
		return idx
	}
	for t := 0; t < cnt; t++ {
		i := rng.Intn(n)
		if wi[i] < 0 && i > 0 {
			i--
		}
		idx = append(idx, i)
	}
	return idx
}

// eigValuesCheck judges a computed spectrum (wr, wi) of the matrix a by order,
// trace identities and backward error. It returns whether all passed.
func (cs *Case) eigValuesCheck(routine, tag string, a *ref.M, wr, wi []float64) bool {
	n := a.R
	if n == 0 {
		return true
	}
	if d := pairOrder(wr, wi); d != "" {
		cs.fail(routine, tag, "eigenvalue-order:"+d, "wr=%v wi=%v", clip(wr), clip(wi))
		return false
	}
	s := pow2Scale(a.MaxAbs())
	as := scaled(a, s)
	scale := as.NormFro()
	wrs, wis := scaledVec(wr, s), scaledVec(wi, s)
	fn := float64(n)
	ok := true
	t1, t2 := traces(as)
	s1, s2 := eigSums(wrs, wis)
	ok = cs.band(routine, tag, "eig-trace", math.Abs(s1-t1), fn*math.Sqrt(fn)*eps*scale, nil) && ok
	ok = cs.band(routine, tag, "eig-trace-of-square", math.Abs(s2-t2), fn*eps*scale*scale, nil) && ok
	accept := limits["eig-backward-error"] * fn * eps * scale * 0.5
	var worst float64
	var wl int
	// The option combinations of one case mostly return bit-identical
	// spectra for the same matrix: the backward errors of a (matrix,
	// spectrum) pair are evaluated once per case.
	hk := fnv.New64a()
	var b8 [8]byte
	for _, arr := range [][]float64{a.D, wr, wi} {
		for _, v := range arr {
			binary.LittleEndian.PutUint64(b8[:], math.Float64bits(v))
			hk.Write(b8[:])
		}
	}
	if cs.beSeen == nil {
		cs.beSeen = map[uint64]bool{}
	}
	sample := cs.h.eigSample(cs.rng, wi)
	if cs.beSeen[hk.Sum64()] {
		sample = nil
		cs.h.c.Count("eig_backward_error_reused_for_identical_spectrum", 1)
	}
	cs.beSeen[hk.Sum64()] = true
	for _, i := range sample {
		be := eigBackwardError(as, wrs[i], wis[i], accept)
		if math.IsNaN(be) {
			be = math.Inf(1)
		}
		if be > worst {
			worst, wl = be, i
		}
	}
	ok = cs.band(routine, tag, "eig-backward-error", worst, fn*eps*scale, func() string {
		return fmt.Sprintf("lambda[%d]=(%v,%v)", wl, wr[wl], wi[wl])
	}) && ok
	return ok
}

// schurCheck judges a computed Schur form t (with eigenvalues wr, wi read by
// the routine) of the matrix a; z may be nil (then only structure, norm and
// eigenvalues are judged).
func (cs *Case) schurCheck(routine, tag string, a, t, z *ref.M, wr, wi []float64) bool {
	n := a.R
	if n == 0 {
		return true
	}
	twr, twi, defect := schurForm(t)
	if defect != "" {
		cs.fail(routine, tag, "schur-form:"+defect, "T is not in Schur canonical form")
		return false
	}
	for i := 0; i < n; i++ {
		if wr[i] != twr[i] || math.Abs(wi[i]-twi[i]) > 16*eps*math.Abs(twi[i]) {
			cs.fail(routine, tag, "eigenvalues-differ-from-diagonal-blocks-of-T", "i=%d: wr=%v wi=%v, from T: %v %v", i, wr[i], wi[i], twr[i], twi[i])
			return false
		}
	}
	s := pow2Scale(a.MaxAbs())
	as, ts := scaled(a, s), scaled(t, s)
	scale := as.NormFro()
	fn := float64(n)
	ok := true
	if z != nil {
		ok = cs.band(routine, tag, "schur-vectors-orthogonality", ref.OrthoResid(z), fn*eps, nil) && ok
		r := ref.Sub(as, ref.Mul(z, ref.Mul(ts, z.T())))
		ok = cs.band(routine, tag, "schur-residual", r.MaxAbs(), fn*eps*scale, nil) && ok
	} else {
		// An orthogonal similarity preserves the Frobenius norm.
		ok = cs.band(routine, tag, "schur-norm-preserved", math.Abs(ts.NormFro()-scale), fn*eps*scale, nil) && ok
		ok = cs.similarityInvariants(routine, tag, a, t) && ok
	}
	return ok
}

// similarityInvariants judges a matrix t that must be an orthogonal
// similarity transform Zᵀ (A + E) Z of a, ||E|| = O(n u ||A||), when Z is not
// available, by invariants that depend on the whole of t (not only on its
// diagonal blocks, as the traces of powers of a quasi-triangular matrix do):
// the Frobenius norm of the square, the departure from normality
// ||TᵀT - TTᵀ||_F, and the singular values (reference Jacobi SVD, n <= 110, once per logical input).
// A row or column block left untransformed keeps ||T||_F but not these.
func (cs *Case) similarityInvariants(routine, tag string, a, t *ref.M) bool {
	n := a.R
	if n == 0 {
		return true
	}
	s := pow2Scale(a.MaxAbs())
	as, ts := scaled(a, s), scaled(t, s)
	scale := as.NormFro()
	fn := float64(n)
	// Identical (a, t) pairs of one case are judged once.
	hk := fnv.New64a()
	var b8 [8]byte
	for _, arr := range [][]float64{a.D, t.D} {
		for _, v := range arr {
			binary.LittleEndian.PutUint64(b8[:], math.Float64bits(v))
			hk.Write(b8[:])
		}
	}
	if cs.beSeen == nil {
		cs.beSeen = map[uint64]bool{}
	}
	key := hk.Sum64() ^ 0x5bd1e995
	if cs.beSeen[key] {
		return true
	}
	cs.beSeen[key] = true
	sq := func(m *ref.M) float64 { return ref.Mul(m, m).NormFro() }
	comm := func(m *ref.M) float64 { return ref.Sub(ref.Mul(m.T(), m), ref.Mul(m, m.T())).NormFro() }
	ok := cs.band(routine, tag, "similarity-norm-of-square", math.Abs(sq(ts)-sq(as)), fn*eps*scale*scale, nil)
	ok = cs.band(routine, tag, "similarity-departure-from-normality", math.Abs(comm(ts)-comm(as)), fn*eps*scale*scale, nil) && ok
	// The reference SVD is the expensive invariant: at most one evaluation
	// per logical input (the first result judged, n <= 110), with the singular
	// values of the input cached.
	if n <= 110 && cs.svChecks < 1 {
		cs.svChecks++
		ha := fnv.New64a()
		for _, v := range a.D {
			binary.LittleEndian.PutUint64(b8[:], math.Float64bits(v))
			ha.Write(b8[:])
		}
		if cs.svCache == nil {
			cs.svCache = map[uint64][]float64{}
		}
		sa, have := cs.svCache[ha.Sum64()]
		if !have {
			sa = ref.SingularValues(as)
			cs.svCache[ha.Sum64()] = sa
		}
		ok = cs.band(routine, tag, "similarity-singular-values", maxDiffVec(ref.SingularValues(ts), sa), fn*eps*scale, nil) && ok
	}
	return ok
}

var schurJobs = []lapack.SchurJob{lapack.EigenvaluesAndSchur, lapack.EigenvaluesOnly}
var schurComps = []lapack.SchurComp{lapack.SchurHess, lapack.SchurOrig, lapack.SchurNone}

func (h *H) checkHseqr(id string, idx, n int, cls string) {
	rng := h.c.RNG("hseqr", idx)
	cs := h.newCase(id, rng)
	hm0 := hessGen(rng, cls, n)
	ws := windows(n)
	cfg := 0
	for wi_, win := range ws {
		if wi_ > 0 && (wi_+idx)%len(ws) != 1 && !(h.thorough() && (wi_+idx)%2 == 0) {
			continue // the full window always, one partial window per matrix
		}
		ilo, ihi := win[0], win[1]
		hm := blockStructured(hm0, ilo, ihi)
		wtag := "window=full"
		if !(ilo == 0 && ihi == n-1) {
			wtag = "window=partial"
		}
		var tZ *ref.M // Schur form computed with vectors (certified)
		for _, job := range schurJobs {
			for _, compz := range schurComps {
				for _, lwc := range []lw{lwMin, lwQuery} {
					cfg++
					if !h.thorough() && (cfg+idx)%2 == 0 && !(job == lapack.EigenvaluesAndSchur && compz == lapack.SchurHess && lwc == lwMin) {
						continue
					}
					pad := (cfg + idx) % 3 * 2
					tag := fmt.Sprintf("job=%c compz=%c %s", rune(job), rune(compz), wtag)
					hb := cs.matFrom("h", hm, pad)
					wr, wi := cs.vec(n), cs.vec(n)
					var zb *buf
					var q0 *ref.M
					switch compz {
					case lapack.SchurHess:
						zb = cs.mat("z", n, n, pad)
					case lapack.SchurOrig:
						// Q: identity except in Q[ilo:ihi+1, ilo:ihi+1].
						q0 = ref.Eye(n)
						if ihi >= ilo && n > 0 {
							qq := randOrtho(rng, ihi-ilo+1)
							for i := ilo; i <= ihi; i++ {
								for j := ilo; j <= ihi; j++ {
									q0.D[i*n+j] = qq.D[(i-ilo)*qq.C+j-ilo]
								}
							}
						}
						zb = cs.matFrom("z", q0, pad)
					default:
						zb = cs.mat("z", 1, 1, 0)
					}
					lwork := max(1, n)
					if lwc == lwQuery {
						var ok bool
						lwork, ok = cs.query("Dhseqr", max(1, n), n == 0, func(w []float64) {
							h.impl.Dhseqr(job, compz, n, ilo, ihi, hb.s, hb.ld, wr, wi, zb.s, zb.ld, w, -1)
						}, hb.s, zb.s, wr, wi)
						if !ok {
							continue
						}
					}
					work := cs.work(lwork)
					var unconv int
					if !cs.try("Dhseqr", tag, key("n:"+bucket(n), "nh:"+bucket(ihi-ilo+1), "pad", pad, "lwork", lwc, cls), n > 1, func() {
						unconv = h.impl.Dhseqr(job, compz, n, ilo, ihi, hb.s, hb.ld, wr, wi, zb.s, zb.ld, work, lwork)
					}) {
						continue
					}
					cs.checkPads("Dhseqr", tag, hb)
					if compz == lapack.SchurNone {
						cs.checkUnref("Dhseqr", tag, zb)
					} else {
						cs.checkPads("Dhseqr", tag, zb)
					}
					if unconv != 0 {
						cs.fail("Dhseqr", tag, "no-convergence", "unconverged=%d on Hessenberg class %s n=%d", unconv, cls, n)
						continue
					}
					if n == 0 {
						continue
					}
					good := cs.eigValuesCheck("Dhseqr", tag, hm, wr, wi)
					var z *ref.M
					if compz != lapack.SchurNone {
						z = zb.get()
					}
					if job == lapack.EigenvaluesAndSchur {
						a := hm
						if compz == lapack.SchurOrig {
							a = ref.Mul(q0, ref.Mul(hm, q0.T()))
						}
						t := hb.get()
						good = cs.schurCheck("Dhseqr", tag, a, t, z, wr, wi) && good
						if good && z != nil && tZ == nil {
							tZ = t
						}
						if good && z == nil && tZ != nil {
							// T with and without Z: the same similarity is applied to H.
							if ref.MaxDiff(t, tZ) == 0 {
								h.c.Count("hseqr_T_without_Z_bitwise_equal_to_T_with_Z", 1)
							} else {
								h.c.Count("hseqr_T_without_Z_differs_from_T_with_Z", 1)
							}
						}
					} else if z != nil {
						cs.band("Dhseqr", tag, "schur-vectors-orthogonality", ref.OrthoResid(z), float64(n)*eps, nil)
					}
				}
			}
		}
	}
}

// checkLahqrLaqr04 calls Dlahqr and Dlaqr04 directly (Dlaqr04 runs the
// multishift algorithm with aggressive early deflation for every n > 11).
func (h *H) checkLahqrLaqr04(id string, idx, n int, cls string) {
	rng := h.c.RNG("laqr", idx)
	cs := h.newCase(id, rng)
	hm0 := hessGen(rng, cls, n)
	ws := windows(n)
	cfg := 0
	for _, routine := range []string{"Dlahqr", "Dlaqr04-recur0", "Dlaqr04-recur1"} {
		for _, wantt := range []bool{true, false} {
			for _, wantz := range []bool{true, false} {
				cfg++
				if !h.thorough() && (cfg+idx)%2 == 0 && !(wantt && wantz) {
					continue
				}
				win := ws[(cfg+idx)%len(ws)]
				if wantt && wantz && cfg%2 == 0 {
					win = ws[0]
				}
				ilo, ihi := win[0], win[1]
				if n == 0 && routine == "Dlahqr" {
					continue // Dlahqr has no n == 0 window
				}
				hm := blockStructured(hm0, ilo, ihi)
				// Dlahqr / Dlaqr04 assume H[ihi+1:, ihi+1:] quasi-triangular; the
				// generator leaves it triangular.
				pad := (cfg + idx) % 2 * 3
				wtag := "window=full"
				if !(ilo == 0 && ihi == n-1) {
					wtag = "window=partial"
				}
				tag := fmt.Sprintf("wantt=%v wantz=%v %s", wantt, wantz, wtag)
				hb := cs.matFrom("h", hm, pad)
				wr, wi := cs.vec(ihi+1), cs.vec(ihi+1)
				iloz, ihiz := 0, n-1
				if cfg%3 == 0 {
					iloz, ihiz = ilo, ihi
				}
				var zb *buf
				var z0 *ref.M
				if wantz {
					z0 = randOrtho(rng, n)
					zb = cs.matFrom("z", z0, pad)
				} else {
					zb = cs.mat("z", 1, 1, 0)
				}
				var unconv int
				rname := routine
				kk := key("n:"+bucket(n), "nh:"+bucket(ihi-ilo+1), "pad", pad, cls)
				var okc bool
				if routine == "Dlahqr" {
					okc = cs.try("Dlahqr", tag, kk, n > 1, func() {
						unconv = h.impl.Dlahqr(wantt, wantz, n, ilo, ihi, hb.s, hb.ld, wr, wi, iloz, ihiz, zb.s, zb.ld)
					})
				} else {
					rname = "Dlaqr04"
					recur := 0
					if routine == "Dlaqr04-recur1" {
						recur = 1
					}
					tag += fmt.Sprintf(" recur=%d", recur)
					minlw := 1
					if n > 11 {
						minlw = n
					}
					lwork := minlw
					lwc := lw((cfg/2 + idx) % 2)
					if lwc == lwQuery {
						var ok bool
						// The argument check of Dlaqr04 enforces lwork >= 1 only
						// (source comment: the documented minimum n clashes with
						// Dlaqr23's optimum for small windows), so a query result
						// below n is admissible and is used verbatim.
						cs.rotMin = minlw // lengths other than the reported optimum stay in the documented domain
						lwork, ok = cs.query("Dlaqr04", 1, n == 0, func(w []float64) {
							h.impl.Dlaqr04(wantt, wantz, n, ilo, ihi, hb.s, hb.ld, wr, wi, iloz, ihiz, zb.s, zb.ld, w, -1, recur)
						}, hb.s, zb.s, wr, wi)
						cs.rotMin = 0
						if !ok {
							continue
						}
					}
					work := cs.work(lwork)
					okc = cs.try("Dlaqr04", tag, kk+"|lwork|"+lwc.String(), n > 1, func() {
						unconv = h.impl.Dlaqr04(wantt, wantz, n, ilo, ihi, hb.s, hb.ld, wr, wi, iloz, ihiz, zb.s, zb.ld, work, lwork, recur)
					})
				}
				if !okc {
					continue
				}
				cs.checkPads(rname, tag, hb)
				if wantz {
					cs.checkPads(rname, tag, zb)
				} else {
					cs.checkUnref(rname, tag, zb)
				}
				if unconv != 0 {
					cs.fail(rname, tag, "no-convergence", "unconverged=%d on Hessenberg class %s n=%d", unconv, cls, n)
					continue
				}
				if n == 0 || ihi < ilo {
					continue
				}
				// Eigenvalues of the active block.
				nh := ihi - ilo + 1
				blk := subMat(hm, ilo, ihi+1, ilo, ihi+1)
				good := cs.eigValuesCheck(rname, tag, blk, wr[ilo:ihi+1], wi[ilo:ihi+1])
				if wantt {
					// The whole of H is transformed: H_in U = U H_out with U acting
					// on rows / columns ilo..ihi. With Z = Z_in U: H_in = Z_inᵀ Z H_out Zᵀ Z_in.
					t := hb.get()
					if rname == "Dlaqr04" {
						// Oracle exclusion: Dlaqr04 (like the reference DLAQR0)
						// uses the entries below the first subdiagonal as
						// scratch space; its caller Dhseqr clears them ("Zero
						// out under the first subdiagonal, if necessary"). The
						// Schur form is the Hessenberg part of the result.
						t = hessPart(t)
					}
					// wr/wi are only set in the window: complete them from the diagonal.
					fwr, fwi := make([]float64, n), make([]float64, n)
					for i := 0; i < n; i++ {
						fwr[i] = t.D[i*n+i]
					}
					copy(fwr[ilo:], wr[ilo:ihi+1])
					copy(fwi[ilo:], wi[ilo:ihi+1])
					var u *ref.M
					if wantz && iloz == 0 && ihiz == n-1 {
						u = ref.Mul(z0.T(), zb.get())
					}
					if u != nil || nh == n {
						good = cs.schurCheck(rname, tag, hm, t, u, fwr, fwi) && good
					} else {
						tb := subMat(t, ilo, ihi+1, ilo, ihi+1)
						good = cs.schurCheck(rname, tag, blk, tb, nil, wr[ilo:ihi+1], wi[ilo:ihi+1]) && good
						// wantt: the rows and columns outside the window are
						// transformed as well.
						good = cs.similarityInvariants(rname, tag, hm, t) && good
					}
				}
				if wantz && !(iloz == 0 && ihiz == n-1) {
					// Only rows iloz..ihiz of Z are updated: those rows of Z_in times an
					// orthogonal U stay orthonormal, the other rows are unchanged.
					z := zb.get()
					rows := subRows(z, iloz, ihiz+1)
					cs.band(rname, tag, "schur-vectors-orthogonality", rowOrthoResid(rows), float64(n)*eps, nil)
					for i := 0; i < n; i++ {
						if i >= iloz && i <= ihiz {
							continue
						}
						for j := 0; j < n; j++ {
							if z.D[i*n+j] != z0.D[i*n+j] {
								cs.fail(rname, tag, "z-rows-outside-iloz-ihiz-modified", "row %d", i)
								i, j = n, n
							}
						}
					}
				}
				_ = good
			}
		}
	}
}

// ---- Dgeev ---------------------------------------------------------------------------

// eigVecCheck judges eigenvectors stored LAPACK-style in the columns of v:
// right (A v = lambda v) or left (uᴴ A = lambda uᴴ); unit 2-norm; largest
// component real.
func (cs *Case) eigVecCheck(routine, tag string, a, v *ref.M, wr, wi []float64, left bool) bool {
	n := a.R
	s := pow2Scale(a.MaxAbs())
	as := scaled(a, s)
	if left {
		as = as.T()
	}
	scale := as.NormFro()
	fn := float64(n)
	var worstRes, worstNorm float64
	for j := 0; j < n; {
		lr, li := wr[j]*s, wi[j]*s
		if wi[j] == 0 {
			x := make([]float64, n)
			var nrm float64
			for i := 0; i < n; i++ {
				x[i] = v.D[i*n+j]
				nrm = math.Hypot(nrm, x[i])
			}
			var res float64
			for i := 0; i < n; i++ {
				var sum float64
				for k := 0; k < n; k++ {
					sum += as.D[i*n+k] * x[k]
				}
				res = math.Hypot(res, sum-lr*x[i])
			}
			if math.IsNaN(res) || math.IsNaN(nrm) {
				res, nrm = math.Inf(1), math.Inf(1)
			}
			worstRes = math.Max(worstRes, res)
			worstNorm = math.Max(worstNorm, math.Abs(nrm-1))
			j++
			continue
		}
		if j+1 >= n {
			cs.fail(routine, tag, "eigenvalue-order:pair-not-adjacent-conjugate", "last eigenvalue complex without a partner")
			return false
		}
		// Columns j, j+1 hold the real and imaginary parts. For left vectors
		// Aᵀ(ur + i ui) = conj(lambda)(ur + i ui).
		if left {
			li = -li
		}
		xr, xi := make([]float64, n), make([]float64, n)
		var nrm float64
		var big float64
		for i := 0; i < n; i++ {
			xr[i], xi[i] = v.D[i*n+j], v.D[i*n+j+1]
			nrm = math.Hypot(nrm, math.Hypot(xr[i], xi[i]))
			big = math.Max(big, math.Hypot(xr[i], xi[i]))
		}
		var res float64
		for i := 0; i < n; i++ {
			var sr, si float64
			for k := 0; k < n; k++ {
				sr += as.D[i*n+k] * xr[k]
				si += as.D[i*n+k] * xi[k]
			}
			// (lr + i li)(xr + i xi) = lr xr - li xi + i (lr xi + li xr)
			res = math.Hypot(res, math.Hypot(sr-(lr*xr[i]-li*xi[i]), si-(lr*xi[i]+li*xr[i])))
		}
		if math.IsNaN(res) || math.IsNaN(nrm) {
			res, nrm = math.Inf(1), math.Inf(1)
		}
		worstRes = math.Max(worstRes, res)
		worstNorm = math.Max(worstNorm, math.Abs(nrm-1))
		// Largest component real: some component of (nearly) maximal modulus
		// has a zero imaginary part.
		realOK := false
		for i := 0; i < n; i++ {
			if math.Hypot(xr[i], xi[i]) >= big*(1-1e-10) && math.Abs(xi[i]) <= 8*eps*big {
				realOK = true
			}
		}
		if !realOK {
			cs.fail(routine, tag, "largest-component-of-complex-eigenvector-not-real", "eigenvector %d", j)
			return false
		}
		j += 2
	}
	ok := cs.band(routine, tag, "eigvec-unit-norm", worstNorm, fn*eps, nil)
	name := "eigvec-right-residual"
	if left {
		name = "eigvec-left-residual"
	}
	return cs.band(routine, tag, name, worstRes, fn*eps*scale, nil) && ok
}

func (h *H) checkGeev(id string, idx, n int, cls string) {
	rng := h.c.RNG("geev", idx)
	cs := h.newCase(id, rng)
	a := square(rng, cls, n)
	cfg := 0
	var wrV, wiV []float64
	var vlV, vrV *ref.M
	for _, jobvl := range []lapack.LeftEVJob{lapack.LeftEVCompute, lapack.LeftEVNone} {
		for _, jobvr := range []lapack.RightEVJob{lapack.RightEVCompute, lapack.RightEVNone} {
			for _, lwc := range []lw{lwMin, lwQuery} {
				cfg++
				if !h.thorough() && (cfg+idx)%2 == 0 && n > 5 && !(cfg == 1) {
					continue
				}
				pad := (cfg + idx) % 3 * 2
				tag := fmt.Sprintf("jobvl=%c jobvr=%c", rune(jobvl), rune(jobvr))
				ab := cs.matFrom("a", a, pad)
				wr, wi := cs.vec(n), cs.vec(n)
				var vlb, vrb *buf
				if jobvl == lapack.LeftEVCompute {
					vlb = cs.mat("vl", n, n, pad)
				} else {
					vlb = cs.mat("vl", 1, 1, 0)
				}
				if jobvr == lapack.RightEVCompute {
					vrb = cs.mat("vr", n, n, pad)
				} else {
					vrb = cs.mat("vr", 1, 1, 0)
				}
				minlw := max(1, 3*n)
				if jobvl == lapack.LeftEVCompute || jobvr == lapack.RightEVCompute {
					minlw = max(1, 4*n)
				}
				lwork := minlw
				if lwc == lwQuery {
					var ok bool
					lwork, ok = cs.query("Dgeev", minlw, n == 0, func(w []float64) {
						h.impl.Dgeev(jobvl, jobvr, n, ab.s, ab.ld, wr, wi, vlb.s, vlb.ld, vrb.s, vrb.ld, w, -1)
					}, ab.s, wr, wi, vlb.s, vrb.s)
					if !ok {
						continue
					}
				}
				work := cs.work(lwork)
				var first int
				if !cs.try("Dgeev", tag, key("n:"+bucket(n), "pad", pad, "lwork", lwc, cls), n > 1, func() {
					first = h.impl.Dgeev(jobvl, jobvr, n, ab.s, ab.ld, wr, wi, vlb.s, vlb.ld, vrb.s, vrb.ld, work, lwork)
				}) {
					continue
				}
				cs.checkPads("Dgeev", tag, ab)
				if jobvl == lapack.LeftEVCompute {
					cs.checkPads("Dgeev", tag, vlb)
				} else {
					cs.checkUnref("Dgeev", tag, vlb)
				}
				if jobvr == lapack.RightEVCompute {
					cs.checkPads("Dgeev", tag, vrb)
				} else {
					cs.checkUnref("Dgeev", tag, vrb)
				}
				if first != 0 {
					cs.fail("Dgeev", tag, "no-convergence", "first=%d on class %s n=%d", first, cls, n)
					continue
				}
				if n == 0 {
					continue
				}
				if n == 3 && cls == clRand && jobvl == lapack.LeftEVNone {
					out := map[string]any{"first": first, "wr": cloneF(wr), "wi": cloneF(wi)}
					if jobvr == lapack.RightEVCompute {
						out["vr"] = vrb.get().D
					}
					cs.sample("Dgeev", tag, map[string]any{"n": n, "lda": ab.ld, "a": a.D, "lwork": lwork}, out)
				}
				good := cs.eigValuesCheck("Dgeev", tag, a, wr, wi)
				if jobvr == lapack.RightEVCompute {
					good = cs.eigVecCheck("Dgeev", tag, a, vrb.get(), wr, wi, false) && good
				}
				if jobvl == lapack.LeftEVCompute {
					good = cs.eigVecCheck("Dgeev", tag, a, vlb.get(), wr, wi, true) && good
				}
				if good && jobvl == lapack.LeftEVCompute && jobvr == lapack.RightEVCompute && wrV == nil {
					wrV, wiV, vlV, vrV = wr, wi, vlb.get(), vrb.get()
				}
				if good && wrV != nil && !(jobvl == lapack.LeftEVCompute && jobvr == lapack.RightEVCompute) {
					// Direct pairing against the run with both vector sets when every
					// eigenvalue is well conditioned (1/|yᴴx| < 1e3).
					if c := maxEigCond(vlV, vrV, wiV); c < 1e3 {
						s := pow2Scale(a.MaxAbs())
						scale := scaled(a, s).NormFro()
						d := matchEigs(scaledVec(wr, s), scaledVec(wi, s), scaledVec(wrV, s), scaledVec(wiV, s))
						cs.band("Dgeev", tag, "eig-values-with-vs-without-vectors", d, float64(n)*eps*scale*c, nil)
						cs.h.c.Count("geev_direct_pairings_of_well_conditioned_spectra", 1)
					}
				}
			}
		}
	}
}

// maxEigCond returns the largest eigenvalue condition number 1/|yᴴx| for
// unit left and right eigenvectors stored LAPACK-style.
func maxEigCond(vl, vr *ref.M, wi []float64) float64 {
	n := vl.R
	var worst float64
	for j := 0; j < n; {
		if wi[j] == 0 {
			var d float64
			for i := 0; i < n; i++ {
				d += vl.D[i*n+j] * vr.D[i*n+j]
			}
			if d == 0 || math.IsNaN(d) {
				return math.Inf(1)
			}
			worst = math.Max(worst, 1/math.Abs(d))
			j++
			continue
		}
		if j+1 >= n {
			return math.Inf(1)
		}
		// yᴴx = (yr - i yi)ᵀ(xr + i xi)
		var re, im float64
		for i := 0; i < n; i++ {
			yr, yi, xr, xi := vl.D[i*n+j], vl.D[i*n+j+1], vr.D[i*n+j], vr.D[i*n+j+1]
			re += yr*xr + yi*xi
			im += yr*xi - yi*xr
		}
		d := math.Hypot(re, im)
		if d == 0 || math.IsNaN(d) {
			return math.Inf(1)
		}
		worst = math.Max(worst, 1/d)
		j += 2
	}
	return worst
}

func (h *H) planNonsym(add addFn) {
	idx := 0
	sizes := []int{0, 1, 2, 3, 4, 5, 10, 12, 16, 31, 33, 50, 74, 75, 76, 97}
	reps := 2
	if h.thorough() {
		sizes = []int{0, 1, 2, 3, 4, 5, 10, 11, 12, 14, 15, 16, 31, 32, 33, 49, 50, 74, 75, 76, 100, 149, 150}
		reps = 2
	}
	for rep := 0; rep < reps; rep++ {
		for si, n := range sizes {
			for ci, cls := range squareClasses {
				if !h.thorough() && (si+ci)%3 != 0 && n > 34 {
					continue
				}
				idx++
				i, n, cls := idx, n, cls
				add("gehrd", n*n*n, func() { h.checkGehrd(fmt.Sprintf("gehrd n=%d class=%s #%d", n, cls, i), i, n, cls) })
				add("geev", 30*n*n*n, func() { h.checkGeev(fmt.Sprintf("geev n=%d class=%s #%d", n, cls, i), i, n, cls) })
			}
			for ci, cls := range hessClasses {
				if !h.thorough() && (si+ci)%3 != 0 && n > 34 {
					continue
				}
				idx++
				i, n, cls := idx, n, cls
				add("hseqr", 60*n*n*n, func() { h.checkHseqr(fmt.Sprintf("hseqr n=%d class=%s #%d", n, cls, i), i, n, cls) })
				add("laqr", 60*n*n*n, func() { h.checkLahqrLaqr04(fmt.Sprintf("laqr n=%d class=%s #%d", n, cls, i), i, n, cls) })
			}
		}
		// Blocked Dgehrd (nx = 128).
		for bi, n := range []int{129, 140, 161} {
			for ci, cls := range []string{clRand, clGraded, clHuge} {
				if !h.thorough() && (bi+ci)%3 != 0 {
					continue
				}
				idx++
				i, n, cls := idx, n, cls
				add("gehrd", n*n*n, func() { h.checkGehrd(fmt.Sprintf("gehrd n=%d class=%s #%d", n, cls, i), i, n, cls) })
			}
		}
	}
}
