package main

import (
	"fmt"
	"math"
	"regexp"
	"sort"
	"strings"
	"sync"

	"gonum.org/v1/gonum/lapack/gonum"
	"gonum.org/v1/gonum/verifx/ref"
	"gonum.org/v1/gonum/verifx/vrt"
)

const eps = vrt.Eps64 // unit roundoff u = 2^-53

// H is the monitor state shared by all cases.
type H struct {
	c    *vrt.Ctx
	impl gonum.Implementation

	mu      sync.Mutex
	ratios  map[string]float64 // band name -> largest passing ratio
	counts  map[string]int64   // routine -> calls
	samples map[string]int     // routine -> literal samples offered
}

func (h *H) thorough() bool    { return h.c.Thorough() }
func (h *H) pick(q, t int) int { return h.c.Pick(q, t) }

// Case is one logical input pushed through several routines / configurations.
type Case struct {
	h   *H
	id  string
	rng *vrt.Rand
	// canary: payload NaN (false) or finite (true) filling of storage the
	// routines must not touch (a NaN canary is blind to += writes).
	finite bool
	// sigClause, when set, replaces the clause of band violations
	// (sub-checks that report one root cause under one signature whatever
	// identity exposes it).
	sigClause string
	// beSeen: (matrix, spectrum) pairs whose backward errors were evaluated.
	beSeen map[uint64]bool
	// svChecks / svCache: reference SVDs spent on similarity invariants.
	// lwRot: per routine, how many workspace queries this case has made
	// (selects the workspace class); exactQuery disables the rotation.
	lwRot      map[string]int
	exactQuery bool
	rotMin     int
	svChecks   int
	svCache    map[uint64][]float64
}

func (h *H) newCase(id string, rng *vrt.Rand) *Case {
	return &Case{h: h, id: id, rng: rng, finite: rng.Bool()}
}

var digits = regexp.MustCompile(`[0-9]+`)

// normMsg strips run-dependent numbers from a panic message.
func normMsg(m string) string {
	m = digits.ReplaceAllString(m, "N")
	if i := strings.IndexByte(m, '\n'); i >= 0 {
		m = m[:i]
	}
	if len(m) > 80 {
		m = m[:80]
	}
	return m
}

func sig(routine, tag, clause string) string {
	if tag == "" {
		tag = "-"
	}
	return routine + "|" + tag + "|" + clause
}

func (h *H) count(routine string) {
	h.mu.Lock()
	h.counts[routine]++
	h.mu.Unlock()
}

// ---- operand storage ---------------------------------------------------------

const finiteCanary = 7.25e3 // value of finite canaries (plus the word index)

// buf is a row-major operand of r x c logical entries with leading dimension
// ld >= max(1,c) in a slice of exactly the minimal length (r-1)*ld+c, so that
// an access behind the operand is an index-out-of-range panic. Row padding
// holds canaries that are bit-compared after the call.
type buf struct {
	name   string
	r, c   int
	ld     int
	s      []float64
	canary []uint64 // bit patterns of the padding words at creation
}

func canaryWord(finite bool, i int) float64 {
	if finite {
		return finiteCanary + float64(i)
	}
	return vrt.Taint(i)
}

// mat allocates an operand whose entries are all canaries (the caller fills
// the logical part).
func (cs *Case) mat(name string, r, c, pad int) *buf {
	ld := max(1, c) + pad
	n := 0
	if r > 0 {
		n = (r-1)*ld + c
	}
	b := &buf{name: name, r: r, c: c, ld: ld, s: make([]float64, n)}
	for i := range b.s {
		b.s[i] = canaryWord(cs.finite, i)
	}
	b.canary = vrt.Bits(b.s)
	return b
}

// matFrom allocates an operand holding m.
func (cs *Case) matFrom(name string, m *ref.M, pad int) *buf {
	b := cs.mat(name, m.R, m.C, pad)
	b.set(m)
	return b
}

func (b *buf) set(m *ref.M) {
	for i := 0; i < b.r; i++ {
		copy(b.s[i*b.ld:i*b.ld+b.c], m.D[i*m.C:i*m.C+m.C])
	}
}

// get copies the logical r x c entries.
func (b *buf) get() *ref.M {
	m := ref.New(b.r, b.c)
	for i := 0; i < b.r; i++ {
		copy(m.D[i*b.c:(i+1)*b.c], b.s[i*b.ld:i*b.ld+b.c])
	}
	return m
}

// sub copies the leading r x c entries.
func (b *buf) sub(r, c int) *ref.M {
	m := ref.New(r, c)
	for i := 0; i < r; i++ {
		copy(m.D[i*c:(i+1)*c], b.s[i*b.ld:i*b.ld+c])
	}
	return m
}

// padOK reports whether every padding word still holds its canary.
func (b *buf) padOK() bool {
	for i := 0; i < b.r-1; i++ {
		for j := i*b.ld + b.c; j < (i+1)*b.ld; j++ {
			if math.Float64bits(b.s[j]) != b.canary[j] {
				return false
			}
		}
	}
	return true
}

// untouched reports whether no word of the operand changed (operands that
// must not be referenced).
func (b *buf) untouched() bool {
	for j := range b.s {
		if math.Float64bits(b.s[j]) != b.canary[j] {
			return false
		}
	}
	return true
}

// vec returns a canary-filled slice of exactly n words.
func (cs *Case) vec(n int) []float64 {
	s := make([]float64, n)
	for i := range s {
		s[i] = canaryWord(cs.finite, i+1000)
	}
	return s
}

// work returns a NaN-tainted workspace of exactly max(1,n) words (reads of
// uninitialised workspace surface as NaN in the results).
func (cs *Case) work(n int) []float64 {
	s := make([]float64, max(1, n))
	vrt.FillTaint(s)
	return s
}

// checkPads reports a trespass violation for the first operand whose row
// padding changed.
func (cs *Case) checkPads(routine, tag string, bufs ...*buf) {
	for _, b := range bufs {
		if b == nil {
			continue
		}
		if !b.padOK() {
			cs.fail(routine, tag, "trespass:"+b.name+":padding", "row padding of %s (ld=%d, cols=%d) was modified", b.name, b.ld, b.c)
			return
		}
	}
}

// checkUnref reports a violation if an operand documented as not referenced
// was modified.
func (cs *Case) checkUnref(routine, tag string, bufs ...*buf) {
	for _, b := range bufs {
		if b == nil {
			continue
		}
		if !b.untouched() {
			cs.fail(routine, tag, "trespass:"+b.name+":not-referenced", "operand %s is documented as not referenced for these options but was modified", b.name)
			return
		}
	}
}

// ---- calls ---------------------------------------------------------------------

// lw is the workspace class of a call with an lwork parameter.
type lw int

const (
	lwMin   lw = iota // documented minimum
	lwQuery           // value reported by the lwork=-1 query, used verbatim
)

func (l lw) String() string { return [...]string{"min", "query"}[l] }

// try runs f (one call of gonum code), counts it, and reports a panic as a
// violation. key is the evaluation class. It returns false if f panicked.
func (cs *Case) try(routine, tag, key string, nontrivial bool, f func()) bool {
	h := cs.h
	h.c.LastCase(cs.id + " " + routine + " " + tag + " " + key)
	pn := vrt.Try(f)
	h.count(routine)
	h.c.Eval(routine+"|"+tag+"|"+key, nontrivial)
	if pn != nil {
		clause := "panic:" + normMsg(pn.Msg)
		if cs.sigClause != "" {
			clause = cs.sigClause
		}
		h.c.Violation(sig(routine, tag, clause), fmt.Sprintf("%s: valid arguments rejected or faulted in %s %s [%s]: %s\n%s", cs.id, routine, tag, key, pn.Msg, pn.Stack),
			cs.replay())
		return false
	}
	return true
}

// query runs a workspace query and validates the reported length: a finite
// integer not below the documented minimum min. f receives a work slice of
// length 1 and must perform the lwork=-1 call.
//
// guarded lists the operand slices handed to the query: a workspace query
// may write nothing but work[0].
//
// Oracle exclusion (as in C02): on an empty problem (empty == true, some
// dimension is zero) the routines report work[0] = 1 like the reference
// implementation even where the argument check demands more; the monitor
// then supplies the documented minimum and counts the event.
func (cs *Case) query(routine string, min int, empty bool, f func(work []float64), guarded ...[]float64) (int, bool) {
	h := cs.h
	w := cs.work(1)
	snaps := make([][]uint64, len(guarded))
	for i, g := range guarded {
		snaps[i] = vrt.Bits(g)
	}
	h.c.LastCase(cs.id + " " + routine + " workspace query")
	pn := vrt.Try(func() { f(w) })
	h.count(routine)
	h.c.Eval(routine+"|query", true)
	for i, g := range guarded {
		if vrt.FirstBitDiff(g, snaps[i], nil) >= 0 {
			cs.fail(routine, "", "query-writes-operand", "the lwork=-1 call modified operand #%d", i)
			break
		}
	}
	if pn != nil {
		h.c.Violation(sig(routine, "", "query-panic:"+normMsg(pn.Msg)), fmt.Sprintf("%s: workspace query of %s with valid arguments panicked: %s\n%s", cs.id, routine, pn.Msg, pn.Stack), cs.replay())
		return 0, false
	}
	w0 := w[0]
	if vrt.IsTaint(w0) {
		cs.fail(routine, "", "query-leaves-work0-unset", "work[0] was not written by the lwork=-1 call")
		return 0, false
	}
	if math.IsNaN(w0) || math.IsInf(w0, 0) || w0 != math.Trunc(w0) || w0 > 1e9 || w0 < 0 {
		cs.fail(routine, "", "query-result-not-a-length", "work[0]=%v after the workspace query", w0)
		return 0, false
	}
	if int(w0) < min && w0 == 1 && empty {
		h.c.Count("query_reports_1_below_minimum_on_empty_problem", 1)
		return min, true
	}
	if int(w0) < min {
		cs.fail(routine, "", "query-result-below-minimum", "work[0]=%v < documented minimum %d: using it verbatim is rejected", w0, min)
		return 0, false
	}
	return cs.rotateLwork(routine, min, int(w0)), true
}

// rotateLwork turns "the value reported by the query" into a family of
// admissible workspace lengths: the first request of a routine within a
// logical input uses the reported optimum verbatim, the following ones walk
// through lengths on both sides of the points where the routines change their
// blocking or workspace layout (optimum +-1, twice the minimum +-1 - the
// smallest block size of two -, half way, a generous length well above the
// optimum, four times the optimum). Every length >= the documented minimum
// must give a correct result. Dgesvd enumerates its own thresholds
// (exactQuery).
func (cs *Case) rotateLwork(routine string, min, q int) int {
	if cs.exactQuery {
		return q
	}
	if cs.rotMin > min {
		min = cs.rotMin // documented minimum where the enforced one is lower
	}
	if cs.lwRot == nil {
		cs.lwRot = map[string]int{}
	}
	i := cs.lwRot[routine]
	cs.lwRot[routine]++
	cands := []struct {
		name string
		v    int
	}{
		{"query", q}, {"generous", 3*q + 64*min + 1000}, {"query-1", q - 1}, {"2min", 2 * min}, {"query+1", q + 1},
		{"4xquery", 4 * q}, {"2min-1", 2*min - 1}, {"halfway", (min + q) / 2}, {"2min+1", 2*min + 1}, {"min+1", min + 1},
	}
	c := cands[i%len(cands)]
	v := c.v
	if v < min {
		v = min
	}
	if v < 1 {
		v = 1
	}
	cs.h.c.Count("lwork_class|"+c.name, 1)
	return v
}

func (cs *Case) replay() any {
	return map[string]any{"case": cs.id, "seed": cs.h.c.Seed, "note": "inputs are regenerated from (VERIF_SEED, case id)"}
}

// ---- bands ----------------------------------------------------------------------

// band records value/denom under name and reports a violation if the ratio
// exceeds the calibrated limit (or is NaN). It returns whether the check
// passed.
func (cs *Case) band(routine, tag, name string, value, denom float64, detail func() string) bool {
	h := cs.h
	lim, ok := limits[name]
	if !ok {
		panic("c03: no limit for band " + name)
	}
	var ratio float64
	switch {
	case math.IsNaN(value) || math.IsInf(value, 0) || math.IsNaN(denom):
		ratio = math.Inf(1)
	case value == 0:
		ratio = 0
	case denom == 0:
		ratio = math.Inf(1)
	default:
		ratio = value / denom
	}
	h.mu.Lock()
	if old, seen := h.ratios[name]; ratio <= lim && (!seen || ratio > old) {
		h.ratios[name] = ratio // headroom statistic: passing checks only
	}
	h.mu.Unlock()
	if ratio <= lim {
		return true
	}
	d := ""
	if detail != nil {
		d = detail()
	}
	clause := name
	if cs.sigClause != "" {
		clause = cs.sigClause
	}
	h.c.Violation(sig(routine, tag, clause), fmt.Sprintf("%s: %s %s: %s: value %.3g exceeds %.3g x %.3g (ratio %.3g) %s", cs.id, routine, tag, name, value, lim, denom, ratio, d), cs.replay())
	return false
}

// fail reports a non-numeric clause violation.
func (cs *Case) fail(routine, tag, clause, format string, args ...any) {
	if cs.sigClause != "" {
		clause = cs.sigClause
	}
	cs.h.c.Violation(sig(routine, tag, clause), cs.id+": "+routine+" "+tag+": "+fmt.Sprintf(format, args...), cs.replay())
}

func (h *H) finish() {
	h.mu.Lock()
	defer h.mu.Unlock()
	names := make([]string, 0, len(h.ratios))
	for k := range h.ratios {
		names = append(names, k)
	}
	sort.Strings(names)
	obs := map[string]any{}
	for _, k := range names {
		obs[k] = fmt.Sprintf("%.3g (limit %.3g)", h.ratios[k], limits[k])
	}
	h.c.Note("band_max_ratio", obs)
	calls := map[string]any{}
	for k, v := range h.counts {
		calls[k] = v
	}
	h.c.Note("calls_per_routine", calls)
	h.c.Note("routines_exercised", len(h.counts))
}

// bucket maps a dimension to its size class relative to the thresholds of the
// eigenvalue routines (nb = 32 reductions, NMIN = 75, nx = 128).
func bucket(v int) string {
	switch {
	case v <= 3:
		return fmt.Sprint(v)
	case v < 12:
		return "s"
	case v < 31:
		return "m"
	case v <= 33:
		return "b32"
	case v < 74:
		return "l"
	case v <= 76:
		return "nmin"
	case v < 128:
		return "xl"
	}
	return "xxl"
}

func key(parts ...any) string {
	s := make([]string, len(parts))
	for i, p := range parts {
		s[i] = fmt.Sprint(p)
	}
	return strings.Join(s, "|")
}

func cloneF(x []float64) []float64 { return append([]float64(nil), x...) }

func hasNaN(x []float64) bool {
	for _, v := range x {
		if math.IsNaN(v) {
			return true
		}
	}
	return false
}

func maxAbs(x []float64) float64 {
	var m float64
	for _, v := range x {
		if math.IsNaN(v) {
			return v
		}
		m = math.Max(m, math.Abs(v))
	}
	return m
}

// sample offers a literal sample (small inputs only) for the evidence.
func (cs *Case) sample(routine, opts string, in map[string]any, out map[string]any) {
	if !cs.h.c.WantSample() {
		return
	}
	// At most three samples per routine, so that the eight kept samples show
	// several routines.
	cs.h.mu.Lock()
	if cs.h.samples == nil {
		cs.h.samples = map[string]int{}
	}
	cs.h.samples[routine]++
	over := cs.h.samples[routine] > 3
	cs.h.mu.Unlock()
	if over {
		return
	}
	cs.h.c.Sample(map[string]any{"routine": routine, "options": opts, "case": cs.id, "input": in, "output": out})
}
