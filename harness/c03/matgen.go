package main

import (
	"math"

	"gonum.org/v1/gonum/verifx/ref"
	"gonum.org/v1/gonum/verifx/vrt"
)

// Matrix classes of the workload. huge / tiny are scaled by 2^±500 (about
// 1e±150), an exact scaling that drives the anrm / Dlascl blocks of the
// drivers.
const (
	clRand     = "rand"     // uniform [-1,1)
	clGraded   = "graded"   // entries scaled by 2^(-(i+j)*g): strongly graded
	clRepeated = "repeated" // few distinct eigenvalues / singular values, high multiplicity
	clNearDef  = "neardef"  // Jordan-like: orthogonal similarity of bidiagonal Jordan blocks plus a tiny perturbation
	clCompan   = "companion"
	clZero     = "zero"
	clIdent    = "identity"
	clDiagMix  = "diagmixed" // diagonal with entries of both signs (and a zero)
	clRankDef  = "rankdef"   // exact low rank product
	clHuge     = "huge"      // rand * 2^500
	clTiny     = "tiny"      // rand * 2^-500
	clBlockTri = "blocktri"  // symmetric permutation of a block upper triangular matrix (balancing isolates eigenvalues)
	clOrtho    = "ortho"     // random orthogonal matrix: eigenvalues on the unit circle
	clBidiag   = "bidiag"    // already bidiagonal with zero off-diagonal entries and negative diagonal entries
	clSymInt   = "clustered" // symmetric with tight clusters
)

var (
	generalClasses = []string{clRand, clGraded, clRepeated, clRankDef, clDiagMix, clBidiag, clZero, clIdent, clHuge, clTiny}
	squareClasses  = []string{clRand, clGraded, clNearDef, clCompan, clBlockTri, clOrtho, clRepeated, clRankDef, clDiagMix, clZero, clIdent, clHuge, clTiny}
	symClasses     = []string{clRand, clRepeated, clGraded, clSymInt, clRankDef, clDiagMix, clZero, clIdent, clHuge, clTiny}
)

func randVec(r *vrt.Rand, n int) []float64 {
	v := make([]float64, n)
	for i := range v {
		v[i] = r.Sym()
	}
	return v
}

// reflectLeft applies H = I - 2 v vᵀ/(vᵀv) to a from the left.
func reflectLeft(a *ref.M, v []float64) {
	var vv float64
	for _, x := range v {
		vv += x * x
	}
	if vv == 0 {
		return
	}
	for j := 0; j < a.C; j++ {
		var s float64
		for i := 0; i < a.R; i++ {
			s += v[i] * a.D[i*a.C+j]
		}
		s *= 2 / vv
		for i := 0; i < a.R; i++ {
			a.D[i*a.C+j] -= s * v[i]
		}
	}
}

// reflectRight applies H = I - 2 v vᵀ/(vᵀv) to a from the right.
func reflectRight(a *ref.M, v []float64) {
	var vv float64
	for _, x := range v {
		vv += x * x
	}
	if vv == 0 {
		return
	}
	for i := 0; i < a.R; i++ {
		var s float64
		for j := 0; j < a.C; j++ {
			s += a.D[i*a.C+j] * v[j]
		}
		s *= 2 / vv
		for j := 0; j < a.C; j++ {
			a.D[i*a.C+j] -= s * v[j]
		}
	}
}

// randOrtho returns a random n x n orthogonal matrix (product of n-1..3
// random reflectors; orthogonal to a few ulps).
func randOrtho(r *vrt.Rand, n int) *ref.M {
	q := ref.Eye(n)
	k := min(n, 4)
	for t := 0; t < k; t++ {
		reflectLeft(q, randVec(r, n))
	}
	return q
}

// similar returns Q a Qᵀ for a product Q of three random reflectors.
func similar(r *vrt.Rand, a *ref.M) *ref.M {
	b := a.Clone()
	for t := 0; t < 3; t++ {
		v := randVec(r, a.R)
		reflectLeft(b, v)
		reflectRight(b, v)
	}
	return b
}

func symmetrize(a *ref.M) {
	n := a.R
	for i := 0; i < n; i++ {
		for j := i + 1; j < n; j++ {
			x := a.D[i*n+j]
			a.D[j*n+i] = x
		}
	}
}

func scaleBy(a *ref.M, s float64) *ref.M {
	for i := range a.D {
		a.D[i] *= s
	}
	return a
}

// general returns an m x n matrix of the class.
func general(r *vrt.Rand, cls string, m, n int) *ref.M {
	k := min(m, n)
	switch cls {
	case clRand:
		return ref.FromFunc(m, n, func(i, j int) float64 { return r.Sym() })
	case clHuge:
		return scaleBy(general(r, clRand, m, n), math.Ldexp(1, 500))
	case clTiny:
		return scaleBy(general(r, clRand, m, n), math.Ldexp(1, -500))
	case clGraded:
		g := 40.0 / float64(max(1, m+n)) // total grading 2^-40
		return ref.FromFunc(m, n, func(i, j int) float64 { return r.Sym() * math.Exp2(-g*float64(i+j)) })
	case clRepeated:
		a := ref.New(m, n)
		vals := []float64{2, 2, 2, 0.5, 0.5, 1}
		for i := 0; i < k; i++ {
			a.D[i*n+i] = vals[i%len(vals)]
		}
		for t := 0; t < 3; t++ {
			reflectLeft(a, randVec(r, m))
			reflectRight(a, randVec(r, n))
		}
		return a
	case clRankDef:
		rk := max(1, k/2)
		if k == 0 {
			return ref.New(m, n)
		}
		x := ref.FromFunc(m, rk, func(i, j int) float64 { return r.Sym() })
		y := ref.FromFunc(rk, n, func(i, j int) float64 { return r.Sym() })
		return ref.Mul(x, y)
	case clDiagMix:
		a := ref.New(m, n)
		for i := 0; i < k; i++ {
			v := r.Uniform(0.1, 3)
			if i%2 == 0 {
				v = -v
			}
			if i == k/2 && k > 2 {
				v = 0
			}
			a.D[i*n+i] = v
		}
		return a
	case clBidiag:
		// Upper bidiagonal (m >= n) / lower bidiagonal (m < n) with some zero
		// off-diagonal entries and negative diagonal entries.
		a := ref.New(m, n)
		for i := 0; i < k; i++ {
			a.D[i*n+i] = -r.Uniform(0.1, 2)
			if i%3 == 1 {
				a.D[i*n+i] = r.Uniform(0.1, 2)
			}
			if i+1 < k && i%2 == 0 && r.Bool() {
				if m >= n {
					a.D[i*n+i+1] = r.Sym()
				} else {
					a.D[(i+1)*n+i] = r.Sym()
				}
			}
		}
		return a
	case clZero:
		return ref.New(m, n)
	case clIdent:
		a := ref.New(m, n)
		for i := 0; i < k; i++ {
			a.D[i*n+i] = 1
		}
		return a
	}
	panic("c03: unknown general class " + cls)
}

// square returns an n x n nonsymmetric matrix of the class.
func square(r *vrt.Rand, cls string, n int) *ref.M {
	switch cls {
	case clRand, clGraded, clRankDef, clDiagMix, clZero, clIdent, clHuge, clTiny:
		return general(r, cls, n, n)
	case clRepeated:
		// Diagonalisable with repeated real eigenvalues and a repeated complex pair.
		a := ref.New(n, n)
		for i := 0; i < n; i++ {
			a.D[i*n+i] = []float64{1, 1, -2, 1}[i%4]
		}
		for i := 0; i+1 < n; i += 6 { // 2x2 rotation blocks: eigenvalues 0.5 ± 0.5i repeated
			a.D[i*n+i], a.D[i*n+i+1], a.D[(i+1)*n+i], a.D[(i+1)*n+i+1] = 0.5, 0.5, -0.5, 0.5
		}
		return similar(r, a)
	case clNearDef:
		// Jordan blocks of sizes up to 4 (eigenvalues 1, -0.5, 2), similarity
		// transformed, plus a perturbation of size 1e-10.
		a := ref.New(n, n)
		i := 0
		ev := []float64{1, -0.5, 2}
		for b := 0; i < n; b++ {
			sz := 1 + (b+2)%4
			for t := 0; t < sz && i < n; t++ {
				a.D[i*n+i] = ev[b%3]
				if t > 0 {
					a.D[(i-1)*n+i] = 1
				}
				i++
			}
		}
		a = similar(r, a)
		for i := range a.D {
			a.D[i] += 1e-10 * r.Sym()
		}
		return a
	case clCompan:
		// Companion matrix of a polynomial with random roots in the unit
		// disc region: coefficients uniform.
		a := ref.New(n, n)
		for j := 0; j < n; j++ {
			a.D[j] = r.Sym()
		}
		for i := 1; i < n; i++ {
			a.D[i*n+i-1] = 1
		}
		return a
	case clBlockTri:
		// Block upper triangular (1x1 blocks at both ends, a full block in the
		// middle), symmetrically permuted, with badly scaled middle block.
		a := ref.New(n, n)
		lo, hi := n/4, n-n/4
		for i := 0; i < n; i++ {
			for j := i; j < n; j++ {
				a.D[i*n+j] = r.Sym()
			}
		}
		for i := lo; i < hi; i++ {
			for j := lo; j < i; j++ {
				a.D[i*n+j] = r.Sym()
			}
		}
		for i := lo; i < hi; i++ { // D^-1 B D scaling
			for j := lo; j < hi; j++ {
				a.D[i*n+j] *= math.Exp2(float64((j-i)%7) * 3)
			}
		}
		p := r.Perm(n)
		return ref.FromFunc(n, n, func(i, j int) float64 { return a.D[p[i]*n+p[j]] })
	case clOrtho:
		return randOrtho(r, n)
	}
	panic("c03: unknown square class " + cls)
}

// symmetric returns an n x n symmetric matrix of the class (both triangles
// filled consistently).
func symmetric(r *vrt.Rand, cls string, n int) *ref.M {
	var a *ref.M
	switch cls {
	case clRand:
		a = general(r, clRand, n, n)
	case clHuge:
		a = general(r, clHuge, n, n)
	case clTiny:
		a = general(r, clTiny, n, n)
	case clGraded:
		a = general(r, clGraded, n, n)
	case clZero, clIdent, clDiagMix:
		return general(r, cls, n, n)
	case clRepeated:
		a = ref.New(n, n)
		vals := []float64{2, 2, 2, -1, -1, 0.5}
		for i := 0; i < n; i++ {
			a.D[i*n+i] = vals[i%len(vals)]
		}
		a = similar(r, a)
	case clSymInt:
		a = ref.New(n, n)
		for i := 0; i < n; i++ {
			a.D[i*n+i] = float64(i%3) + 1e-9*float64(i)
		}
		a = similar(r, a)
	case clRankDef:
		rk := max(1, n/3)
		if n == 0 {
			return ref.New(0, 0)
		}
		x := ref.FromFunc(n, rk, func(i, j int) float64 { return r.Sym() })
		a = ref.Mul(x, x.T())
	default:
		panic("c03: unknown symmetric class " + cls)
	}
	symmetrize(a)
	return a
}

// pow2Scale returns a power of two s such that s*x is in [0.5,1) (1 for
// x == 0 or non-finite x): oracles evaluate identities on exactly rescaled
// data so that huge / tiny inputs neither overflow nor underflow in them.
func pow2Scale(x float64) float64 {
	if x == 0 || math.IsNaN(x) || math.IsInf(x, 0) {
		return 1
	}
	_, e := math.Frexp(x)
	e = -e
	// Ldexp(1, e) must itself be finite and normal.
	if e > 1000 {
		e = 1000
	}
	if e < -1000 {
		e = -1000
	}
	return math.Ldexp(1, e)
}

func scaled(a *ref.M, s float64) *ref.M {
	if s == 1 {
		return a
	}
	return ref.Scale(s, a)
}

func scaledVec(x []float64, s float64) []float64 {
	y := make([]float64, len(x))
	for i, v := range x {
		y[i] = v * s
	}
	return y
}
