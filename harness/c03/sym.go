package main

import (
	"fmt"
	"math"

	"gonum.org/v1/gonum/blas"
	"gonum.org/v1/gonum/lapack"
	"gonum.org/v1/gonum/verifx/ref"
	"gonum.org/v1/gonum/verifx/vrt"
)

// ---- symmetric eigenvalue family ----------------------------------------------
//
// Dsytrd / Dsytd2 / Dlatrd + Dorgtr:  Qᵀ A Q = T with Q the product of the
// documented reflectors; Dsteqr / Dsterf on T; Dsyev on A.

func uploName(u blas.Uplo) string {
	if u == blas.Upper {
		return "U"
	}
	return "L"
}

// symBuf stores the uplo triangle of a in an operand whose other triangle
// keeps its canaries (it must be neither read nor written).
func (cs *Case) symBuf(name string, a *ref.M, upper bool, pad int) *buf {
	n := a.R
	b := cs.mat(name, n, n, pad)
	for i := 0; i < n; i++ {
		for j := 0; j < n; j++ {
			if (upper && j >= i) || (!upper && j <= i) {
				b.s[i*b.ld+j] = a.D[i*n+j]
			}
		}
	}
	return b
}

// otherTriangleIntact reports whether the strictly other triangle still
// holds its canaries.
func otherTriangleIntact(b *buf, upper bool) bool {
	for i := 0; i < b.r; i++ {
		for j := 0; j < b.c; j++ {
			if (upper && j < i) || (!upper && j > i) {
				if math.Float64bits(b.s[i*b.ld+j]) != b.canary[i*b.ld+j] {
					return false
				}
			}
		}
	}
	return true
}

// symEigCheck judges an eigen-decomposition (w, z) of the symmetric matrix a
// (z may be nil). refW, if not nil, is a trusted spectrum (ascending).
func (cs *Case) symEigCheck(routine, tag string, a *ref.M, w []float64, z *ref.M, refW []float64) bool {
	n := a.R
	if n == 0 {
		return true
	}
	s := pow2Scale(a.MaxAbs())
	as := scaled(a, s)
	ws := scaledVec(w, s)
	scale := as.NormFro()
	okAll := true
	if !ascending(w) {
		cs.fail(routine, tag, "eigenvalues-not-ascending", "w=%v", clip(w))
		okAll = false
	}
	fn := float64(n)
	if z != nil {
		okAll = cs.band(routine, tag, "sym-orthogonality", ref.OrthoResid(z), fn*eps, nil) && okAll
		r := ref.Sub(ref.Mul(as, z), scaleCols(z, ws))
		okAll = cs.band(routine, tag, "sym-residual", r.MaxAbs(), fn*eps*scale, nil) && okAll
	}
	if refW != nil {
		okAll = cs.band(routine, tag, "sym-values-vs-reference", maxDiffVec(sortedCopy(ws, false), scaledVec(refW, s)), fn*eps*scale,
			func() string { return fmt.Sprintf("w=%v ref=%v", clip(w), clip(refW)) }) && okAll
	}
	return okAll
}

func clip(x []float64) []float64 {
	if len(x) > 12 {
		return x[:12]
	}
	return x
}

// refSymEig returns the Jacobi spectrum of a (evaluated on exactly rescaled
// data), or nil if n exceeds the reference size limit of the tier.
func (h *H) refSymEig(a *ref.M) []float64 {
	if a.R > h.pick(50, 110) {
		return nil
	}
	s := pow2Scale(a.MaxAbs())
	w, _ := ref.SymEig(scaled(a, s))
	return scaledVec(w, 1/s)
}

// checkSytrd pushes one symmetric matrix through the reduction family.
func (h *H) checkSytrd(id string, idx, n int, cls string) {
	rng := h.c.RNG("sytrd", idx)
	cs := h.newCase(id, rng)
	a := symmetric(rng, cls, n)
	s := pow2Scale(a.MaxAbs())
	as := scaled(a, s)
	scale := as.NormFro()
	fn := float64(max(n, 1))
	refW := h.refSymEig(a)

	type variant struct {
		routine string
		lwc     lw
	}
	vars := []variant{{"Dsytrd", lwMin}, {"Dsytrd", lwQuery}, {"Dsytd2", lwMin}}
	for vi, v := range vars {
		for _, upper := range []bool{true, false} {
			uplo := blas.Lower
			if upper {
				uplo = blas.Upper
			}
			pad := []int{0, 3}[(vi+idx+b2i(upper))%2]
			tag := "uplo=" + uploName(uplo)
			ab := cs.symBuf("a", a, upper, pad)
			d, e, tau := cs.vec(n), cs.vec(max(0, n-1)), cs.vec(max(0, n-1))
			k := key("n:"+bucket(n), "pad", pad, "lwork", v.lwc)
			var okc bool
			if v.routine == "Dsytd2" {
				okc = cs.try(v.routine, tag, k, n > 1, func() { h.impl.Dsytd2(uplo, n, ab.s, ab.ld, d, e, tau) })
			} else {
				lwork := 1
				if v.lwc == lwQuery {
					var ok bool
					lwork, ok = cs.query("Dsytrd", 1, n == 0, func(w []float64) { h.impl.Dsytrd(uplo, n, ab.s, ab.ld, d, e, tau, w, -1) }, ab.s, d, e, tau)
					if !ok {
						continue
					}
				}
				work := cs.work(lwork)
				okc = cs.try(v.routine, tag, k, n > 1, func() { h.impl.Dsytrd(uplo, n, ab.s, ab.ld, d, e, tau, work, lwork) })
			}
			if !okc {
				continue
			}
			cs.checkPads(v.routine, tag, ab)
			if !otherTriangleIntact(ab, upper) {
				cs.fail(v.routine, tag, "trespass:a:other-triangle", "the triangle not selected by uplo was modified")
			}
			if n == 0 {
				continue
			}
			// Fill the unreferenced triangle with zeros for the oracle.
			f := ab.get()
			for i := 0; i < n; i++ {
				for j := 0; j < n; j++ {
					if (upper && j < i) || (!upper && j > i) {
						f.D[i*n+j] = 0
					}
				}
			}
			// d and e are also stored on the diagonals of a.
			for i := 0; i < n; i++ {
				if f.D[i*n+i] != d[i] {
					cs.fail(v.routine, tag, "d-differs-from-diagonal-of-a", "d[%d]=%v a[%d,%d]=%v", i, d[i], i, i, f.D[i*n+i])
					break
				}
				if i+1 < n {
					x := f.D[i*n+i+1]
					if !upper {
						x = f.D[(i+1)*n+i]
					}
					if x != e[i] {
						cs.fail(v.routine, tag, "e-differs-from-offdiagonal-of-a", "e[%d]=%v stored %v", i, e[i], x)
						break
					}
				}
			}
			q := qFromSytrd(upper, f, tau)
			t := tridiag(scaledVec(d, s), scaledVec(e, s))
			cs.band(v.routine, tag, "sytrd-reflector-orthogonality", ref.OrthoResid(q), fn*eps, nil)
			r := ref.Sub(ref.Mul(q.T(), ref.Mul(as, q)), t)
			cs.band(v.routine, tag, "sytrd-reduction-residual", r.MaxAbs(), fn*eps*scale, nil)

			// Dorgtr on the reflectors.
			for _, olw := range []lw{lwMin, lwQuery} {
				if (vi+b2i(upper)+int(olw)+idx)%2 == 0 && !h.thorough() {
					continue
				}
				ob := cs.mat("a", n, n, pad)
				copy(ob.s, ab.s)
				lwork := max(1, n-1)
				if olw == lwQuery {
					var ok bool
					lwork, ok = cs.query("Dorgtr", max(1, n-1), n == 0, func(w []float64) { h.impl.Dorgtr(uplo, n, ob.s, ob.ld, tau, w, -1) }, ob.s, tau)
					if !ok {
						continue
					}
				}
				work := cs.work(lwork)
				if !cs.try("Dorgtr", tag, key("n:"+bucket(n), "pad", pad, "lwork", olw), n > 1, func() {
					h.impl.Dorgtr(uplo, n, ob.s, ob.ld, tau, work, lwork)
				}) {
					continue
				}
				cs.checkPads("Dorgtr", tag, ob)
				qg := ob.get()
				cs.band("Dorgtr", tag, "orgtr-matches-reflector-product", ref.MaxDiff(qg, q), fn*eps, nil)

				// Dsteqr with the accumulated Q gives the eigenvectors of A.
				if olw == lwMin || h.thorough() {
					dd, ee := cloneF(d), cloneF(e)
					zb := cs.matFrom("z", qg, pad)
					wk := cs.work(max(1, 2*n-2))
					var ok bool
					if cs.try("Dsteqr", "compz=V", key("n:"+bucket(n), "pad", pad, "from-sytrd"), n > 1, func() {
						ok = h.impl.Dsteqr(lapack.EVOrig, n, dd, ee, zb.s, zb.ld, wk)
					}) {
						cs.checkPads("Dsteqr", "compz=V", zb)
						if !ok {
							cs.fail("Dsteqr", "compz=V", "no-convergence", "ok=false on class %s n=%d", cls, n)
						} else {
							cs.symEigCheck("Dsteqr", "compz=V", a, dd, zb.get(), refW)
						}
					}
				}
			}
		}
	}
}

func b2i(b bool) int {
	if b {
		return 1
	}
	return 0
}

// checkLatrd calls Dlatrd directly: the nb reduced columns and the rank-2k
// update of the unreduced block must reproduce Qᵀ A Q.
func (h *H) checkLatrd(id string, idx, n, nb int, cls string) {
	rng := h.c.RNG("latrd", idx)
	cs := h.newCase(id, rng)
	a := symmetric(rng, cls, n)
	s := pow2Scale(a.MaxAbs())
	as := scaled(a, s)
	scale := as.NormFro()
	fn := float64(n)
	for _, upper := range []bool{true, false} {
		uplo := blas.Lower
		if upper {
			uplo = blas.Upper
		}
		pad := (idx + b2i(upper)) % 2 * 2
		tag := "uplo=" + uploName(uplo)
		ab := cs.symBuf("a", a, upper, pad)
		e, tau := cs.vec(n-1), cs.vec(n-1)
		e0, tau0 := cloneF(e), cloneF(tau)
		wb := cs.mat("w", n, nb, pad)
		if !cs.try("Dlatrd", tag, key("n:"+bucket(n), "nb:"+bucket(nb), "pad", pad), true, func() {
			h.impl.Dlatrd(uplo, n, nb, ab.s, ab.ld, e, tau, wb.s, wb.ld)
		}) {
			continue
		}
		cs.checkPads("Dlatrd", tag, ab, wb)
		if !otherTriangleIntact(ab, upper) {
			cs.fail("Dlatrd", tag, "trespass:a:other-triangle", "the triangle not selected by uplo was modified")
		}
		f := ab.get()
		w := wb.get()
		// Reflectors (doc comment of Dlatrd).
		q := ref.Eye(n)
		v := ref.New(n, nb)
		if upper {
			// Q = H_{n-1} ... H_{n-nb}; column i: v[i-1] = 1, v[0:i-1] = A[0:i-1, i], tau[i-1].
			for i := n - 1; i >= n-nb; i-- {
				if i-1 < 0 {
					break
				}
				x := make([]float64, n)
				x[i-1] = 1
				for r := 0; r < i-1; r++ {
					x[r] = f.D[r*n+i]
				}
				rightMulReflector(q, x, tau[i-1])
				for r := 0; r < n; r++ {
					v.D[r*nb+i-(n-nb)] = x[r]
				}
			}
		} else {
			for i := 0; i < nb; i++ {
				if i+1 >= n {
					break
				}
				x := make([]float64, n)
				x[i+1] = 1
				for r := i + 2; r < n; r++ {
					x[r] = f.D[r*n+i]
				}
				rightMulReflector(q, x, tau[i])
				for r := 0; r < n; r++ {
					v.D[r*nb+i] = x[r]
				}
			}
		}
		cs.band("Dlatrd", tag, "sytrd-reflector-orthogonality", ref.OrthoResid(q), fn*eps, nil)
		ap := ref.Mul(q.T(), ref.Mul(as, q)) // Qᵀ A Q
		// Reduced columns: diagonal in a, off-diagonal in e, zeros beyond.
		var worst float64
		chk := func(i, j int, got float64) {
			worst = math.Max(worst, math.Abs(ap.D[i*n+j]-got*s))
			if math.IsNaN(got) {
				worst = math.Inf(1)
			}
		}
		var untouched bool = true
		if upper {
			for j := n - nb; j < n; j++ {
				chk(j, j, f.D[j*n+j])
				if j >= 1 {
					chk(j-1, j, e[j-1])
					if f.D[(j-1)*n+j] != 1 {
						cs.fail("Dlatrd", tag, "offdiagonal-not-set-to-one", "a[%d,%d]=%v", j-1, j, f.D[(j-1)*n+j])
					}
				}
				for i := 0; i < j-1; i++ {
					chk(i, j, 0)
				}
			}
			for i := 0; i < n-nb-1; i++ {
				untouched = untouched && vrt.SameBits(e[i], e0[i]) && vrt.SameBits(tau[i], tau0[i])
			}
		} else {
			for j := 0; j < nb; j++ {
				chk(j, j, f.D[j*n+j])
				if j+1 < n {
					chk(j+1, j, e[j])
					if f.D[(j+1)*n+j] != 1 {
						cs.fail("Dlatrd", tag, "offdiagonal-not-set-to-one", "a[%d,%d]=%v", j+1, j, f.D[(j+1)*n+j])
					}
				}
				for i := j + 2; i < n; i++ {
					chk(i, j, 0)
				}
			}
			for i := nb; i < n-1; i++ {
				untouched = untouched && vrt.SameBits(e[i], e0[i]) && vrt.SameBits(tau[i], tau0[i])
			}
		}
		if !untouched {
			cs.fail("Dlatrd", tag, "trespass:e-tau:outside-documented-range", "entries of e / tau outside the nb documented ones were modified")
		}
		cs.band("Dlatrd", tag, "latrd-reduced-columns", worst, fn*eps*scale, nil)
		// Unreduced block: A - V Wᵀ - W Vᵀ.
		lo, hi := 0, n-nb
		if !upper {
			lo, hi = nb, n
		}
		// Only rows lo:hi of V and W take part in the update of the
		// unreduced block (the other rows of W are not specified).
		for i := 0; i < n; i++ {
			if i >= lo && i < hi {
				continue
			}
			for j := 0; j < nb; j++ {
				v.D[i*nb+j], w.D[i*nb+j] = 0, 0
			}
		}
		upd := ref.Sub(as, ref.Add(ref.Mul(v, scaled(w, s).T()), ref.Mul(scaled(w, s), v.T())))
		worst = 0
		for i := lo; i < hi; i++ {
			for j := lo; j < hi; j++ {
				if (upper && j < i) || (!upper && j > i) {
					continue
				}
				dv := math.Abs(upd.D[i*n+j] - ap.D[i*n+j])
				if math.IsNaN(dv) {
					dv = math.Inf(1)
				}
				worst = math.Max(worst, dv)
				// The unreduced part of a itself is unchanged.
				if f.D[i*n+j] != a.D[i*n+j] {
					cs.fail("Dlatrd", tag, "unreduced-block-of-a-modified", "a[%d,%d]", i, j)
					i, j = n, n
				}
			}
		}
		cs.band("Dlatrd", tag, "latrd-update-matches-similarity", worst, fn*eps*scale*(1+w.MaxAbs()*s/math.Max(scale, 1e-300)), nil)
	}
}

// ---- tridiagonal inputs for Dsteqr / Dsterf ----------------------------------

const (
	tdRand      = "rand"
	tdGraded    = "graded"
	tdWilk      = "wilkinson"
	tdToeplitz  = "toeplitz121"
	tdZero      = "zero"
	tdIdent     = "identity"
	tdSplit     = "split"     // exact zeros in e: several blocks
	tdHuge      = "huge"      // norm 2^515 > ssfmax: scaled down inside
	tdTiny      = "tiny"      // norm 2^-450 < ssfmin: scaled up inside
	tdNegDiag   = "negdiag"   // QR instead of QL chosen on size of end diagonal entries
	tdClustered = "clustered" // glued Wilkinson blocks: clusters of close eigenvalues
	// tdTinyThenNormal is a tiny block (scaled up internally) followed,
	// after an exact zero in e, by a block of ordinary size.
	tdTinyThenNormal = "tiny-block-then-normal-block"
)

var tridiagClasses = []string{tdRand, tdGraded, tdWilk, tdToeplitz, tdSplit, tdHuge, tdTiny, tdNegDiag, tdClustered, tdZero, tdIdent}

func tridiagGen(r *vrt.Rand, cls string, n int) (d, e []float64) {
	d, e = make([]float64, n), make([]float64, max(0, n-1))
	switch cls {
	case tdRand:
		for i := range d {
			d[i] = r.Sym()
		}
		for i := range e {
			e[i] = r.Sym()
		}
	case tdHuge, tdTiny:
		d, e = tridiagGen(r, tdRand, n)
		sc := math.Ldexp(1, 515)
		if cls == tdTiny {
			sc = math.Ldexp(1, -450)
		}
		for i := range d {
			d[i] *= sc
		}
		for i := range e {
			e[i] *= sc
		}
	case tdGraded:
		g := 60.0 / float64(max(1, n))
		up := r.Bool()
		for i := range d {
			k := i
			if up {
				k = n - 1 - i
			}
			d[i] = math.Exp2(-g*float64(k)) * (1 + 0.5*r.Sym())
		}
		for i := range e {
			k := i
			if up {
				k = n - 1 - i
			}
			e[i] = math.Exp2(-g*(float64(k)+0.5)) * r.Sym()
		}
	case tdWilk:
		for i := range d {
			d[i] = math.Abs(float64(n-1)/2 - float64(i))
		}
		for i := range e {
			e[i] = 1
		}
	case tdToeplitz:
		for i := range d {
			d[i] = 2
		}
		for i := range e {
			e[i] = -1
		}
	case tdZero:
	case tdIdent:
		for i := range d {
			d[i] = 1
		}
	case tdSplit:
		d, e = tridiagGen(r, tdRand, n)
		for i := range e {
			if r.Intn(4) == 0 {
				e[i] = 0
			}
		}
	case tdNegDiag:
		for i := range d {
			d[i] = -float64(i+1) + 0.3*r.Sym()
		}
		for i := range e {
			e[i] = r.Sym()
		}
	case tdClustered:
		for i := range d {
			d[i] = math.Abs(float64(i%7) - 3)
		}
		for i := range e {
			e[i] = 1
			if i%7 == 6 {
				e[i] = 1e-7
			}
		}
	case tdTinyThenNormal:
		d, e = tridiagGen(r, tdRand, n)
		k := max(2, n/2) // first block: rows 0..k-1
		sc := math.Ldexp(1, -450)
		for i := 0; i < k && i < n; i++ {
			d[i] *= sc
			if i < k-1 && i < len(e) {
				e[i] *= sc
				if e[i] == 0 {
					e[i] = sc
				}
			}
		}
		if k-1 < len(e) {
			e[k-1] = 0
		}
		for i := k; i < n; i++ {
			d[i] += 2 // keep the second block of ordinary size
		}
	default:
		panic("c03: tridiagonal class " + cls)
	}
	return d, e
}

// checkSteqr runs Dsteqr (three compz values) and Dsterf on one tridiagonal
// matrix. special != "" puts the class into the signature tag.
func (h *H) checkSteqr(id string, idx, n int, cls string, special bool) {
	rng := h.c.RNG("steqr", idx)
	cs := h.newCase(id, rng)
	d, e := tridiagGen(rng, cls, n)
	t := tridiag(d, e)
	refW := h.refSymEig(t)
	sfx := ""
	if special {
		// One root cause, one clause per compz whatever identity exposes it.
		sfx = " input=" + cls
		cs.sigClause = "eigen-decomposition-wrong"
	}
	pad := idx % 2 * 3
	fn := float64(max(n, 1))
	s := pow2Scale(t.MaxAbs())
	scale := scaled(t, s).NormFro()

	var wT []float64 // eigenvalues of the compz=T run (certified by its residual)
	// compz = T: eigenvectors of T.
	{
		tag := "compz=T" + sfx
		dd, ee := cloneF(d), cloneF(e)
		zb := cs.mat("z", n, n, pad)
		wk := cs.work(max(1, 2*n-2))
		var ok bool
		if cs.try("Dsteqr", tag, key("n:"+bucket(n), "pad", pad, cls), n > 1, func() {
			ok = h.impl.Dsteqr(lapack.EVTridiag, n, dd, ee, zb.s, zb.ld, wk)
		}) {
			cs.checkPads("Dsteqr", tag, zb)
			if !ok {
				cs.fail("Dsteqr", tag, "no-convergence", "ok=false on tridiagonal class %s n=%d", cls, n)
			} else if cs.symEigCheck("Dsteqr", tag, t, dd, zb.get(), refW) {
				wT = dd
			}
		}
	}
	// compz = V with a random orthogonal Z on entry: Z_out = Z_in * (eigenvectors of T).
	if n > 0 {
		tag := "compz=V" + sfx
		dd, ee := cloneF(d), cloneF(e)
		q := randOrtho(rng, n)
		zb := cs.matFrom("z", q, pad)
		wk := cs.work(max(1, 2*n-2))
		var ok bool
		if cs.try("Dsteqr", tag, key("n:"+bucket(n), "pad", pad, cls), n > 1, func() {
			ok = h.impl.Dsteqr(lapack.EVOrig, n, dd, ee, zb.s, zb.ld, wk)
		}) {
			cs.checkPads("Dsteqr", tag, zb)
			if !ok {
				cs.fail("Dsteqr", tag, "no-convergence", "ok=false on tridiagonal class %s n=%d", cls, n)
			} else {
				// Z_out are eigenvectors of Q T Qᵀ.
				a := ref.Mul(q, ref.Mul(t, q.T()))
				symmetrize(a)
				cs.symEigCheck("Dsteqr", tag, a, dd, zb.get(), refW)
			}
		}
	}
	// compz = N: z and work are not referenced.
	var wN []float64
	{
		tag := "compz=N" + sfx
		dd, ee := cloneF(d), cloneF(e)
		zb := cs.mat("z", n, n, 0)
		var ok bool
		if cs.try("Dsteqr", tag, key("n:"+bucket(n), cls), n > 1, func() {
			ok = h.impl.Dsteqr(lapack.EVCompNone, n, dd, ee, zb.s, zb.ld, nil)
		}) {
			cs.checkUnref("Dsteqr", tag, zb)
			if !ok {
				cs.fail("Dsteqr", tag, "no-convergence", "ok=false on tridiagonal class %s n=%d", cls, n)
			} else {
				cs.symEigCheck("Dsteqr", tag, t, dd, nil, refW)
				wN = dd
			}
		}
	}
	var wF []float64
	{
		cs.sigClause = ""
		tag := "-"
		dd, ee := cloneF(d), cloneF(e)
		var ok bool
		if cs.try("Dsterf", tag, key("n:"+bucket(n), cls), n > 1, func() { ok = h.impl.Dsterf(n, dd, ee) }) {
			if !ok {
				cs.fail("Dsterf", tag, "no-convergence", "ok=false on tridiagonal class %s n=%d", cls, n)
			} else {
				cs.symEigCheck("Dsterf", tag, t, dd, nil, refW)
				wF = dd
			}
		}
	}
	// Values without vectors agree with the certified values with vectors
	// (Weyl: both are exact spectra of matrices within c n u ||T|| of T).
	if wT != nil {
		if wN != nil {
			cs.band("Dsteqr", "compz=N"+sfx, "sym-values-with-vs-without-vectors", maxDiffVec(wN, wT)*s, fn*eps*scale, nil)
		}
		if wF != nil {
			cs.band("Dsterf", "-", "sym-values-with-vs-without-vectors", maxDiffVec(wF, wT)*s, fn*eps*scale, nil)
		}
	}
}

// checkSyev runs Dsyev for all jobz x uplo on one symmetric matrix.
func (h *H) checkSyev(id string, idx, n int, cls string) {
	rng := h.c.RNG("syev", idx)
	cs := h.newCase(id, rng)
	a := symmetric(rng, cls, n)
	refW := h.refSymEig(a)
	s := pow2Scale(a.MaxAbs())
	scale := scaled(a, s).NormFro()
	fn := float64(max(n, 1))
	var wV []float64
	cfg := 0
	for _, jobz := range []lapack.EVJob{lapack.EVCompute, lapack.EVNone} {
		for _, upper := range []bool{true, false} {
			for _, lwc := range []lw{lwMin, lwQuery} {
				cfg++
				if !h.thorough() && (cfg+idx)%2 == 0 && n > 3 {
					continue // quick: half of the configurations per matrix, all of them over the matrices
				}
				uplo := blas.Lower
				if upper {
					uplo = blas.Upper
				}
				pad := (cfg + idx) % 3 * 2
				tag := "jobz=" + string(rune(jobz)) + " uplo=" + uploName(uplo)
				ab := cs.symBuf("a", a, upper, pad)
				w := cs.vec(n)
				lwork := max(1, 3*n-1)
				if lwc == lwQuery {
					var ok bool
					lwork, ok = cs.query("Dsyev", max(1, 3*n-1), n == 0, func(wk []float64) { h.impl.Dsyev(jobz, uplo, n, ab.s, ab.ld, w, wk, -1) }, ab.s, w)
					if !ok {
						continue
					}
				}
				work := cs.work(lwork)
				var ok bool
				if !cs.try("Dsyev", tag, key("n:"+bucket(n), "pad", pad, "lwork", lwc, cls), n > 1, func() {
					ok = h.impl.Dsyev(jobz, uplo, n, ab.s, ab.ld, w, work, lwork)
				}) {
					continue
				}
				cs.checkPads("Dsyev", tag, ab)
				if !ok {
					cs.fail("Dsyev", tag, "no-convergence", "ok=false on class %s n=%d", cls, n)
					continue
				}
				if n == 3 && cls == clRand {
					cs.sample("Dsyev", tag, map[string]any{"n": n, "lda": ab.ld, "a (uplo triangle referenced)": a.D, "lwork": lwork}, map[string]any{"ok": ok, "w": cloneF(w), "a": ab.get().D})
				}
				if jobz == lapack.EVCompute {
					if cs.symEigCheck("Dsyev", tag, a, w, ab.get(), refW) && wV == nil {
						wV = w
					}
				} else {
					if !otherTriangleIntact(ab, upper) {
						cs.fail("Dsyev", tag, "trespass:a:other-triangle", "jobz=N: the triangle not selected by uplo was modified")
					}
					cs.symEigCheck("Dsyev", tag, a, w, nil, refW)
					if wV != nil {
						cs.band("Dsyev", tag, "sym-values-with-vs-without-vectors", maxDiffVec(w, wV)*s, fn*eps*scale, nil)
					}
				}
			}
		}
	}
}

func (h *H) planSym(add addFn) {
	idx := 0
	sizes := []int{0, 1, 2, 3, 4, 5, 10, 16, 31, 32, 33, 34, 50, 65, 75, 97}
	reps := 2
	if h.thorough() {
		sizes = []int{0, 1, 2, 3, 4, 5, 10, 11, 12, 14, 15, 16, 31, 32, 33, 34, 49, 50, 64, 65, 66, 74, 75, 76, 97, 100, 129, 149, 150}
		reps = 2
	}
	for rep := 0; rep < reps; rep++ {
		for si, n := range sizes {
			for ci, cls := range symClasses {
				if !h.thorough() && (si+ci)%3 != 0 && n > 34 {
					continue
				}
				idx++
				i, n, cls := idx, n, cls
				add("sytrd", n*n*n, func() { h.checkSytrd(fmt.Sprintf("sytrd n=%d class=%s #%d", n, cls, i), i, n, cls) })
				add("syev", n*n*n, func() { h.checkSyev(fmt.Sprintf("syev n=%d class=%s #%d", n, cls, i), i, n, cls) })
			}
			for ci, cls := range tridiagClasses {
				if !h.thorough() && (si+ci)%2 != 0 && n > 34 {
					continue
				}
				idx++
				i, n, cls := idx, n, cls
				add("steqr", n*n*n, func() { h.checkSteqr(fmt.Sprintf("steqr n=%d class=%s #%d", n, cls, i), i, n, cls, false) })
			}
			if n >= 4 {
				idx++
				i, n := idx, n
				add("steqr", n*n*n, func() {
					h.checkSteqr(fmt.Sprintf("steqr n=%d class=%s #%d", n, tdTinyThenNormal, i), i, n, tdTinyThenNormal, true)
				})
			}
			if n >= 3 {
				for _, nb := range []int{1, 2, min(n-1, 5), min(n-1, 32)} {
					if nb >= n || nb < 1 {
						continue
					}
					idx++
					i, n, nb := idx, n, nb
					cls := symClasses[(si+nb)%3]
					add("latrd", n*n*n, func() { h.checkLatrd(fmt.Sprintf("latrd n=%d nb=%d class=%s #%d", n, nb, cls, i), i, n, nb, cls) })
				}
			}
		}
	}
}
