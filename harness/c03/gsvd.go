package main

import (
	"fmt"
	"math"

	"gonum.org/v1/gonum/lapack"
	"gonum.org/v1/gonum/verifx/ref"
	"gonum.org/v1/gonum/verifx/vrt"
)

// ---- generalized singular value family: Dggsvp3, Dtgsja, Dggsvd3; Dgghrd ---------------

// gsvdPair returns A (m x n) and B (p x n) with designed ranks rank(B) = rb
// and rank([A; B]) = r, rb <= min(p, n), rb <= r <= min(n, m+rb):
//
//	[A]   [X1 X2] [Yb]
//	[B] = [Xb  0] [Yc]
//
// dense: uniform random factors (the ranks hold up to the rounding of the
// products). structured: the factors have small integer entries and contain
// identity blocks, Xb = [I; *], X2 = [I; *], [Yb; Yc] = [I *], so that the
// products are exact, the ranks certain and the nonzero singular values not
// small; rows of A and B and the common columns are then permuted, which
// makes leading columns linearly dependent (only a column-pivoted
// factorization reveals the ranks).
func gsvdPair(rng *vrt.Rand, structured bool, m, p, n, rb, r int) (a, b *ref.M) {
	fac := func(x, y, eye int) *ref.M {
		return ref.FromFunc(x, y, func(i, j int) float64 {
			if !structured {
				return rng.Sym()
			}
			if i < eye && j < eye {
				if i == j {
					return 1
				}
				return 0
			}
			return float64(rng.Range(-3, 3))
		})
	}
	y := fac(r, n, r)
	yb, yc := subRows(y, 0, rb), subRows(y, rb, r)
	b = ref.Mul(fac(p, rb, rb), yb)
	a = ref.Mul(fac(m, rb, 0), yb)
	if r > rb {
		a = ref.Add(a, ref.Mul(fac(m, r-rb, r-rb), yc))
	}
	if structured {
		pa, pb, pc := rng.Perm(m), rng.Perm(p), rng.Perm(n)
		a = ref.FromFunc(m, n, func(i, j int) float64 { return a.D[pa[i]*n+pc[j]] })
		b = ref.FromFunc(p, n, func(i, j int) float64 { return b.D[pb[i]*n+pc[j]] })
	}
	return a, b
}

// ranksTooLow decides whether the numerical ranks reported for the
// thresholds tola, tolb (l for B, k+l for [A; B]) miss a singular value that
// is clearly above the threshold (reference singular values; factor 100).
// Over-estimates are not judged: the routines count the diagonal entries of a
// QR factor that exceed the threshold, and rounding noise of order
// max(p,n) u ||B|| in the trailing block may legitimately be counted; the
// factorization identities are checked for the reported k and l in any case.
func ranksTooLow(a, b *ref.M, k, l, rb, r int, tola, tolb float64) bool {
	const f = 100
	if l < rb {
		if sv := ref.SingularValues(b); rb <= len(sv) && sv[rb-1] > f*tolb {
			return true
		}
	}
	if k+l < r {
		st := ref.New(a.R+b.R, a.C)
		copy(st.D, a.D)
		copy(st.D[len(a.D):], b.D)
		if sv := ref.SingularValues(st); r <= len(sv) && sv[r-1] > f*(tola+tolb) {
			return true
		}
	}
	return false
}

func gsvdJobName(u, v, q lapack.GSVDJob) string {
	return fmt.Sprintf("jobU=%c jobV=%c jobQ=%c", rune(u), rune(v), rune(q))
}

// gsvpForm checks the block structure documented for the output of Dggsvp3
// (and the input of Dtgsja). It returns a description of the first defect.
func gsvpForm(a, b *ref.M, k, l int, tola, tolb float64) string {
	m, n, p := a.R, a.C, b.R
	if k < 0 || l < 0 || k+l > n || l > p || k > m {
		return "k-l-out-of-range"
	}
	for i := 0; i < m; i++ {
		for j := 0; j < n; j++ {
			v := a.D[i*n+j]
			switch {
			case j < n-k-l:
				if v != 0 {
					return "a-leading-columns-not-zero"
				}
			case i >= k+l:
				if v != 0 {
					return "a-rows-below-k+l-not-zero"
				}
			case j < n-l: // columns of A12
				if i < k {
					if j-(n-k-l) < i && v != 0 {
						return "a12-not-upper-triangular"
					}
					if j-(n-k-l) == i && !(math.Abs(v) > tola) {
						return "a12-diagonal-not-above-tola"
					}
				} else if v != 0 {
					return "a-below-a12-not-zero"
				}
			default: // columns of A13 / A23
				if i >= k && j-(n-l) < i-k && v != 0 {
					return "a23-not-upper-triangular"
				}
			}
		}
	}
	for i := 0; i < p; i++ {
		for j := 0; j < n; j++ {
			v := b.D[i*n+j]
			switch {
			case j < n-l:
				if v != 0 {
					return "b-leading-columns-not-zero"
				}
			case i >= l:
				if v != 0 {
					return "b-rows-below-l-not-zero"
				}
			default:
				if j-(n-l) < i && v != 0 {
					return "b13-not-upper-triangular"
				}
				if j-(n-l) == i && !(math.Abs(v) > tolb) {
					return "b13-diagonal-not-above-tolb"
				}
			}
		}
	}
	return ""
}

type gsvdShape struct{ m, p, n, rb, r int }

// gsvdCase is a shape plus the input class.
type gsvdCase struct {
	gsvdShape
	structured bool
}

func (h *H) checkGgsvp3(id string, idx int, sh gsvdCase) {
	rng := h.c.RNG("ggsvp3", idx)
	cs := h.newCase(id, rng)
	m, p, n := sh.m, sh.p, sh.n
	a, b := gsvdPair(rng, sh.structured, m, p, n, sh.rb, sh.r)
	anorm, bnorm := a.NormFro(), b.NormFro()
	tola := float64(max(m, n)) * math.Max(anorm, 1e-300) * 2 * eps
	tolb := float64(max(p, n)) * math.Max(bnorm, 1e-300) * 2 * eps
	fd := float64(max(m, p, n, 1))
	cfg := 0
	for _, jobU := range []lapack.GSVDJob{lapack.GSVDU, lapack.GSVDNone} {
		for _, jobV := range []lapack.GSVDJob{lapack.GSVDV, lapack.GSVDNone} {
			for _, jobQ := range []lapack.GSVDJob{lapack.GSVDQ, lapack.GSVDNone} {
				cfg++
				if !h.thorough() && (cfg+idx)%2 == 0 && cfg != 1 {
					continue
				}
				pad := (cfg + idx) % 2 * 3
				ab, bb := cs.matFrom("a", a, pad), cs.matFrom("b", b, pad)
				mk := func(name string, want bool, k int) *buf {
					if want {
						return cs.mat(name, k, k, pad)
					}
					return cs.mat(name, 1, 1, 0)
				}
				ub, vb, qb := mk("u", jobU == lapack.GSVDU, m), mk("v", jobV == lapack.GSVDV, p), mk("q", jobQ == lapack.GSVDQ, n)
				iwork := make([]int, n)
				tau := cs.vec(n)
				if cfg == 1 {
					// One run with the documented minimum workspace ("lwork
					// must be -1 or greater than zero", read from the tree
					// under test).
					dmin, okd := docLworkMin("dggsvp3.go", "Dggsvp3", map[string]int{"m": m, "n": n, "p": p})
					if !okd {
						dmin = 1
					}
					a2, b2 := cs.matFrom("a", a, pad), cs.matFrom("b", b, pad)
					wk := cs.work(dmin)
					iw := make([]int, n)
					save := cs.sigClause
					cs.sigClause = ""
					cs.try("Dggsvp3", "lwork=documented-minimum", key("m:"+bucket(m), "p:"+bucket(p), "n:"+bucket(n)), true, func() {
						h.impl.Dggsvp3(jobU, jobV, jobQ, m, p, n, a2.s, a2.ld, b2.s, b2.ld, tola, tolb, ub.s, ub.ld, vb.s, vb.ld, qb.s, qb.ld, iw, cs.vec(n), wk, dmin)
					})
					cs.sigClause = save
					ub, vb, qb = mk("u", jobU == lapack.GSVDU, m), mk("v", jobV == lapack.GSVDV, p), mk("q", jobQ == lapack.GSVDQ, n)
				}
				if dmin, okd := docLworkMin("dggsvp3.go", "Dggsvp3", map[string]int{"m": m, "n": n, "p": p}); okd {
					cs.rotMin = dmin
				} else {
					cs.rotMin = max(3*n+1, m, p)
				}
				lwork, ok := cs.query("Dggsvp3", 1, m == 0 || p == 0 || n == 0, func(w []float64) {
					h.impl.Dggsvp3(jobU, jobV, jobQ, m, p, n, ab.s, ab.ld, bb.s, bb.ld, tola, tolb, ub.s, ub.ld, vb.s, vb.ld, qb.s, qb.ld, iwork, tau, w, -1)
				}, ab.s, bb.s, ub.s, vb.s, qb.s)
				cs.rotMin = 0
				if !ok {
					continue
				}
				work := cs.work(lwork)
				var k, l int
				jn := gsvdJobName(jobU, jobV, jobQ)
				if sh.r < n {
					// Designed rank([A; B]) < n: the n-l > k post-processing of
					// A11. One path class per jobQ, one clause.
					jn = fmt.Sprintf("rank([A;B])<n jobQ=%c", rune(jobQ))
					cs.sigClause = "rank-deficient-pair-mishandled"
				}
				if sh.structured {
					// Exact-rank inputs whose leading columns are dependent:
					// one path class, one clause.
					jn = "input=exact-rank-with-dependent-leading-columns"
					cs.sigClause = "rank-revealing-preprocessing-wrong"
				}
				if !cs.try("Dggsvp3", jn, key("m:"+bucket(m), "p:"+bucket(p), "n:"+bucket(n), "rb", sh.rb < min(p, n), "r", sh.r < n, "pad", pad), true, func() {
					k, l = h.impl.Dggsvp3(jobU, jobV, jobQ, m, p, n, ab.s, ab.ld, bb.s, bb.ld, tola, tolb, ub.s, ub.ld, vb.s, vb.ld, qb.s, qb.ld, iwork, tau, work, lwork)
				}) {
					continue
				}
				tag := jn
				cs.checkPads("Dggsvp3", tag, ab, bb)
				for _, x := range []struct {
					b    *buf
					want bool
				}{{ub, jobU == lapack.GSVDU}, {vb, jobV == lapack.GSVDV}, {qb, jobQ == lapack.GSVDQ}} {
					if x.want {
						cs.checkPads("Dggsvp3", tag, x.b)
					} else {
						cs.checkUnref("Dggsvp3", tag, x.b)
					}
				}
				if (l < sh.rb || k+l < sh.r) && ranksTooLow(a, b, k, l, sh.rb, sh.r, tola, tolb) {
					cs.fail("Dggsvp3", tag, "numerical-ranks-below-designed-ranks", "k=%d l=%d, designed rank(B)=%d rank([A;B])=%d (%dx%d, %dx%d) A=%v B=%v", k, l, sh.rb, sh.r, m, n, p, n, clipN(a.D, 60), clipN(b.D, 60))
					continue
				}
				ao, bo := ab.get(), bb.get()
				if d := gsvpForm(ao, bo, k, l, tola, tolb); d != "" {
					cs.fail("Dggsvp3", tag, "gsvp-form:"+d, "k=%d l=%d (%dx%d, %dx%d)", k, l, m, n, p, n)
				}
				var u, v, q *ref.M
				if jobU == lapack.GSVDU {
					u = ub.get()
					cs.band("Dggsvp3", tag, "gsvd-orthogonality", ref.OrthoResid(u), fd*eps, nil)
				}
				if jobV == lapack.GSVDV {
					v = vb.get()
					cs.band("Dggsvp3", tag, "gsvd-orthogonality", ref.OrthoResid(v), fd*eps, nil)
				}
				if jobQ == lapack.GSVDQ {
					q = qb.get()
					cs.band("Dggsvp3", tag, "gsvd-orthogonality", ref.OrthoResid(q), fd*eps, nil)
				}
				if q != nil {
					if u != nil {
						cs.band("Dggsvp3", tag, "gsvp-a-residual", ref.MaxDiff(ref.Mul(u.T(), ref.Mul(a, q)), ao), fd*eps*anorm, nil)
					} else {
						aq := ref.Mul(a, q)
						cs.band("Dggsvp3", tag, "gsvp-a-gram-residual", ref.MaxDiff(ref.Mul(aq.T(), aq), ref.Mul(ao.T(), ao)), fd*eps*anorm*anorm, nil)
					}
					if v != nil {
						cs.band("Dggsvp3", tag, "gsvp-b-residual", ref.MaxDiff(ref.Mul(v.T(), ref.Mul(b, q)), bo), fd*eps*bnorm, nil)
					} else {
						bq := ref.Mul(b, q)
						cs.band("Dggsvp3", tag, "gsvp-b-gram-residual", ref.MaxDiff(ref.Mul(bq.T(), bq), ref.Mul(bo.T(), bo)), fd*eps*bnorm*bnorm, nil)
					}
				} else {
					// Without Q: orthogonal equivalences preserve the Frobenius norm.
					cs.band("Dggsvp3", tag, "gsvp-norm-preserved", math.Max(math.Abs(ao.NormFro()-anorm)/math.Max(anorm, 1e-300), math.Abs(bo.NormFro()-bnorm)/math.Max(bnorm, 1e-300)), fd*eps, nil)
				}
			}
		}
	}
}

// gsvdIdentity checks Uᵀ A Q = D1 [0 R], Vᵀ B Q = D2 [0 R] with R read from
// the returned arrays as documented for Dtgsja / Dggsvd3, and the
// documented values of alpha and beta. u, v, q may be nil.
func (cs *Case) gsvdIdentity(routine, tag string, a, b, ao, bo, u, v, q *ref.M, k, l int, alpha, beta []float64) {
	m, n, p := a.R, a.C, b.R
	fd := float64(max(m, p, n, 1))
	anorm, bnorm := a.NormFro(), b.NormFro()
	// alpha, beta.
	bad := ""
	for i := 0; i < n && bad == ""; i++ {
		switch {
		case i < k:
			if alpha[i] != 1 || beta[i] != 0 {
				bad = "alpha-beta-leading-k"
			}
		case i < min(k+l, m):
			if !(alpha[i] >= 0 && beta[i] >= 0) || math.Abs(alpha[i]*alpha[i]+beta[i]*beta[i]-1) > 16*eps {
				bad = "alpha2+beta2-not-one"
			}
		case i < k+l:
			if alpha[i] != 0 || beta[i] != 1 {
				bad = "alpha-beta-rows-beyond-m"
			}
		default:
			if alpha[i] != 0 || beta[i] != 0 {
				bad = "alpha-beta-trailing"
			}
		}
	}
	if bad != "" {
		cs.fail(routine, tag, "gsvd-values:"+bad, "k=%d l=%d m=%d alpha=%v beta=%v", k, l, m, clip(alpha), clip(beta))
		return
	}
	// R: (k+l) x (k+l) upper triangular.
	kl := k + l
	r := ref.New(kl, kl)
	for i := 0; i < min(kl, m); i++ {
		for j := i; j < kl; j++ {
			r.D[i*kl+j] = ao.D[i*n+n-kl+j]
		}
	}
	if m-k-l < 0 {
		// R33 is stored in B[m-k:l, n+m-k-l:n].
		for i := m; i < kl; i++ {
			for j := i; j < kl; j++ {
				r.D[i*kl+j] = bo.D[(i-k)*n+n-kl+j]
			}
		}
	}
	// D1 (m x kl), D2 (p x kl).
	d1, d2 := ref.New(m, kl), ref.New(p, kl)
	for i := 0; i < k; i++ {
		d1.D[i*kl+i] = 1
	}
	for i := k; i < min(kl, m); i++ {
		d1.D[i*kl+i] = alpha[i]
	}
	for i := 0; i < l; i++ {
		d2.D[i*kl+k+i] = beta[k+i]
	}
	zr := ref.New(kl, n) // [0 R]
	for i := 0; i < kl; i++ {
		for j := 0; j < kl; j++ {
			zr.D[i*n+n-kl+j] = r.D[i*kl+j]
		}
	}
	wantA, wantB := ref.Mul(d1, zr), ref.Mul(d2, zr)
	if u != nil {
		cs.band(routine, tag, "gsvd-orthogonality", ref.OrthoResid(u), fd*eps, nil)
	}
	if v != nil {
		cs.band(routine, tag, "gsvd-orthogonality", ref.OrthoResid(v), fd*eps, nil)
	}
	if q != nil {
		cs.band(routine, tag, "gsvd-orthogonality", ref.OrthoResid(q), fd*eps, nil)
	}
	if q == nil {
		// Without Q: Uᵀ A Aᵀ U = D1 R Rᵀ D1ᵀ and Vᵀ B Bᵀ V = D2 R Rᵀ D2ᵀ.
		if u != nil {
			ua := ref.Mul(u.T(), a)
			cs.band(routine, tag, "gsvd-a-gram-residual", ref.MaxDiff(ref.Mul(ua, ua.T()), ref.Mul(wantA, wantA.T())), fd*eps*anorm*anorm, nil)
		}
		if v != nil {
			vb := ref.Mul(v.T(), b)
			cs.band(routine, tag, "gsvd-b-gram-residual", ref.MaxDiff(ref.Mul(vb, vb.T()), ref.Mul(wantB, wantB.T())), fd*eps*bnorm*bnorm, nil)
		}
		return
	}
	if u != nil {
		cs.band(routine, tag, "gsvd-a-residual", ref.MaxDiff(ref.Mul(u.T(), ref.Mul(a, q)), wantA), fd*eps*anorm, nil)
	} else {
		aq := ref.Mul(a, q)
		cs.band(routine, tag, "gsvd-a-gram-residual", ref.MaxDiff(ref.Mul(aq.T(), aq), ref.Mul(wantA.T(), wantA)), fd*eps*anorm*anorm, nil)
	}
	if v != nil {
		cs.band(routine, tag, "gsvd-b-residual", ref.MaxDiff(ref.Mul(v.T(), ref.Mul(b, q)), wantB), fd*eps*bnorm, nil)
	} else {
		bq := ref.Mul(b, q)
		cs.band(routine, tag, "gsvd-b-gram-residual", ref.MaxDiff(ref.Mul(bq.T(), bq), ref.Mul(wantB.T(), wantB)), fd*eps*bnorm*bnorm, nil)
	}
}

func (h *H) checkGgsvd3(id string, idx int, sh gsvdCase) {
	rng := h.c.RNG("ggsvd3", idx)
	cs := h.newCase(id, rng)
	m, p, n := sh.m, sh.p, sh.n
	a, b := gsvdPair(rng, sh.structured, m, p, n, sh.rb, sh.r)
	cfg := 0
	var alphaC, betaC []float64 // values of the run with U, V and Q (certified by its identities)
	kC, lC := -1, -1
	for _, jobU := range []lapack.GSVDJob{lapack.GSVDU, lapack.GSVDNone} {
		for _, jobV := range []lapack.GSVDJob{lapack.GSVDV, lapack.GSVDNone} {
			for _, jobQ := range []lapack.GSVDJob{lapack.GSVDQ, lapack.GSVDNone} {
				for lwi := 0; lwi < 2; lwi++ {
					cfg++
					if lwi == 0 && cfg > 2 && !h.thorough() {
						continue
					}
					if !h.thorough() && (cfg+idx)%2 == 0 && cfg > 2 {
						continue
					}
					pad := (cfg + idx) % 2 * 3
					ab, bb := cs.matFrom("a", a, pad), cs.matFrom("b", b, pad)
					mk := func(name string, want bool, k int) *buf {
						if want {
							return cs.mat(name, k, k, pad)
						}
						return cs.mat(name, 1, 1, 0)
					}
					ub, vb, qb := mk("u", jobU == lapack.GSVDU, m), mk("v", jobV == lapack.GSVDV, p), mk("q", jobQ == lapack.GSVDQ, n)
					iwork := make([]int, n)
					alpha, beta := cs.vec(n), cs.vec(n)
					jn := gsvdJobName(jobU, jobV, jobQ)
					// Documented minimum, read from the doc comment of the tree
					// under test ("lwork must be -1 or greater than n").
					lwork, okd := docLworkMin("dggsvd3.go", "Dggsvd3", map[string]int{"m": m, "n": n, "p": p})
					if !okd {
						lwork = n + 1
					}
					lwn := "documented-minimum"
					if lwi == 1 {
						var ok bool
						lwork, ok = cs.query("Dggsvd3", lwork, false, func(w []float64) {
							h.impl.Dggsvd3(jobU, jobV, jobQ, m, n, p, ab.s, ab.ld, bb.s, bb.ld, alpha, beta, ub.s, ub.ld, vb.s, vb.ld, qb.s, qb.ld, w, -1, iwork)
						}, ab.s, bb.s, ub.s, vb.s, qb.s, alpha, beta)
						if !ok {
							continue
						}
						lwn = "query"
					}
					work := cs.work(lwork)
					var k, l int
					var ok bool
					cs.sigClause = ""
					if sh.r < n {
						jn = fmt.Sprintf("rank([A;B])<n jobQ=%c", rune(jobQ))
						cs.sigClause = "rank-deficient-pair-mishandled"
					}
					if sh.structured {
						jn = "input=exact-rank-with-dependent-leading-columns"
						cs.sigClause = "rank-revealing-preprocessing-wrong"
					}
					ltag := jn
					collapse := cs.sigClause
					if lwi == 0 {
						ltag = "lwork=documented-minimum"
						cs.sigClause = ""
					}
					okc := cs.try("Dggsvd3", ltag, key("m:"+bucket(m), "p:"+bucket(p), "n:"+bucket(n), "rb", sh.rb < min(p, n), "r", sh.r < n, "pad", pad, "lwork", lwn), true, func() {
						k, l, ok = h.impl.Dggsvd3(jobU, jobV, jobQ, m, n, p, ab.s, ab.ld, bb.s, bb.ld, alpha, beta, ub.s, ub.ld, vb.s, vb.ld, qb.s, qb.ld, work, lwork, iwork)
					})
					cs.sigClause = collapse
					if !okc {
						continue
					}
					tag := jn
					cs.checkPads("Dggsvd3", tag, ab, bb)
					if !ok {
						cs.fail("Dggsvd3", tag, "no-convergence", "ok=false (%dx%d, %dx%d)", m, n, p, n)
						continue
					}
					if l < sh.rb || k+l < sh.r {
						anorm, bnorm := a.NormFro(), b.NormFro()
						tola := float64(max(m, n)) * math.Max(anorm, 1e-300) * 2 * eps
						tolb := float64(max(p, n)) * math.Max(bnorm, 1e-300) * 2 * eps
						if ranksTooLow(a, b, k, l, sh.rb, sh.r, tola, tolb) {
							cs.fail("Dggsvd3", tag, "numerical-ranks-below-designed-ranks", "k=%d l=%d, designed rank(B)=%d rank([A;B])=%d (%dx%d, %dx%d)", k, l, sh.rb, sh.r, m, n, p, n)
							continue
						}
					}
					var u, v, q *ref.M
					if jobU == lapack.GSVDU {
						u = ub.get()
						cs.checkPads("Dggsvd3", tag, ub)
					} else {
						cs.checkUnref("Dggsvd3", tag, ub)
					}
					if jobV == lapack.GSVDV {
						v = vb.get()
						cs.checkPads("Dggsvd3", tag, vb)
					} else {
						cs.checkUnref("Dggsvd3", tag, vb)
					}
					if jobQ == lapack.GSVDQ {
						q = qb.get()
						cs.checkPads("Dggsvd3", tag, qb)
					} else {
						cs.checkUnref("Dggsvd3", tag, qb)
					}
					nv := cs.h.c.NumViolations()
					cs.gsvdIdentity("Dggsvd3", tag, a, b, ab.get(), bb.get(), u, v, q, k, l, alpha, beta)
					if u != nil && v != nil && q != nil && alphaC == nil && cs.h.c.NumViolations() == nv {
						alphaC, betaC, kC, lC = alpha, beta, k, l
					} else if alphaC != nil && (k != kC || l != lC) {
						// The runs differ in lwork and lda, hence in the blocking
						// and rounding of the rank-revealing QR steps: on a pair
						// whose rank deficiency is only numerical (floating point
						// products) a diagonal entry of rounding size may fall on
						// either side of tola / tolb, so k and l may legitimately
						// differ between two calls; alpha and beta are then not
						// comparable entry by entry. Each run is still judged by
						// its own identities.
						cs.h.c.Count("ggsvd3_cross_option_comparison_skipped_k_l_differ", 1)
					} else if alphaC != nil {
						// The generalized singular values do not depend on which
						// factors are accumulated.
						cs.band("Dggsvd3", tag, "gsvd-values-across-options", math.Max(maxDiffVec(alpha, alphaC), maxDiffVec(beta, betaC)), float64(max(m, p, n))*eps*1e3, nil)
					}
					// iwork: applying the recorded swaps sorts alpha[k:min(m,k+l)] descending.
					al := cloneF(alpha)
					okp := true
					for i := k; i < min(m, k+l); i++ {
						j := iwork[i]
						if j < i || j >= min(m, k+l) {
							okp = false
							break
						}
						al[i], al[j] = al[j], al[i]
					}
					for i := k + 1; okp && i < min(m, k+l); i++ {
						if al[i] > al[i-1] {
							okp = false
						}
					}
					if !okp {
						cs.fail("Dggsvd3", tag, "iwork-does-not-sort-alpha-descending", "alpha=%v iwork=%v k=%d l=%d", clip(alpha), iwork, k, l)
					}
				}
			}
		}
	}
}

// checkTgsja builds the input form directly.
func (h *H) checkTgsja(id string, idx, m, p, n, k, l int) {
	rng := h.c.RNG("tgsja", idx)
	cs := h.newCase(id, rng)
	a, b := ref.New(m, n), ref.New(p, n)
	diag := func() float64 { return rng.Uniform(0.5, 2) * []float64{1, -1}[rng.Intn(2)] }
	for i := 0; i < k; i++ { // A12, A13
		for j := n - k - l + i; j < n; j++ {
			a.D[i*n+j] = rng.Sym()
		}
		a.D[i*n+n-k-l+i] = diag()
	}
	for i := k; i < min(k+l, m); i++ { // A23
		for j := n - l + (i - k); j < n; j++ {
			a.D[i*n+j] = rng.Sym()
		}
	}
	for i := 0; i < l; i++ { // B13
		for j := n - l + i; j < n; j++ {
			b.D[i*n+j] = rng.Sym()
		}
		b.D[i*n+n-l+i] = diag()
	}
	tola := float64(max(m, n)) * math.Max(a.NormFro(), 1e-300) * 2 * eps
	tolb := float64(max(p, n)) * math.Max(b.NormFro(), 1e-300) * 2 * eps
	jobs := [][3]lapack.GSVDJob{
		{lapack.GSVDUnit, lapack.GSVDUnit, lapack.GSVDUnit},
		{lapack.GSVDU, lapack.GSVDV, lapack.GSVDQ},
		{lapack.GSVDNone, lapack.GSVDNone, lapack.GSVDNone},
		{lapack.GSVDNone, lapack.GSVDUnit, lapack.GSVDUnit},
		{lapack.GSVDUnit, lapack.GSVDNone, lapack.GSVDQ},
	}
	for ji, jb := range jobs {
		if !h.thorough() && ji >= 2 && (ji+idx)%2 == 0 {
			continue
		}
		pad := (ji + idx) % 2 * 3
		ab, bb := cs.matFrom("a", a, pad), cs.matFrom("b", b, pad)
		var u1, v1, q1 *ref.M
		mk := func(name string, job lapack.GSVDJob, order int, in **ref.M) *buf {
			switch job {
			case lapack.GSVDNone:
				return cs.mat(name, 1, 1, 0)
			case lapack.GSVDUnit:
				return cs.mat(name, order, order, pad)
			}
			*in = randOrtho(rng, order)
			return cs.matFrom(name, *in, pad)
		}
		ub, vb, qb := mk("u", jb[0], m, &u1), mk("v", jb[1], p, &v1), mk("q", jb[2], n, &q1)
		alpha, beta := cs.vec(n), cs.vec(n)
		work := cs.work(2 * n)
		if n == 0 {
			work = work[:0]
		}
		tag := gsvdJobName(jb[0], jb[1], jb[2])
		var ok bool
		if !cs.try("Dtgsja", tag, key("m:"+bucket(m), "p:"+bucket(p), "n:"+bucket(n), "k", k, "l", l, "pad", pad), l > 0, func() {
			_, ok = h.impl.Dtgsja(jb[0], jb[1], jb[2], m, p, n, k, l, ab.s, ab.ld, bb.s, bb.ld, tola, tolb, alpha, beta, ub.s, ub.ld, vb.s, vb.ld, qb.s, qb.ld, work)
		}) {
			continue
		}
		cs.checkPads("Dtgsja", tag, ab, bb)
		if !ok {
			cs.fail("Dtgsja", tag, "no-convergence", "ok=false m=%d p=%d n=%d k=%d l=%d", m, p, n, k, l)
			continue
		}
		get := func(bf *buf, job lapack.GSVDJob, in *ref.M) *ref.M {
			if job == lapack.GSVDNone {
				cs.checkUnref("Dtgsja", tag, bf)
				return nil
			}
			cs.checkPads("Dtgsja", tag, bf)
			x := bf.get()
			if in != nil {
				x = ref.Mul(in.T(), x) // U_out = U1 U
			}
			return x
		}
		u, v, q := get(ub, jb[0], u1), get(vb, jb[1], v1), get(qb, jb[2], q1)
		cs.gsvdIdentity("Dtgsja", tag, a, b, ab.get(), bb.get(), u, v, q, k, l, alpha, beta)
	}
}

// ---- Dgghrd ----------------------------------------------------------------------------------

func (h *H) checkGghrd(id string, idx, n int, cls string) {
	rng := h.c.RNG("gghrd", idx)
	cs := h.newCase(id, rng)
	a0 := square(rng, cls, n)
	b := general(rng, clRand, n, n)
	for i := 0; i < n; i++ { // upper triangular B
		for j := 0; j < i; j++ {
			b.D[i*n+j] = 0
		}
	}
	fn := float64(max(n, 1))
	ws := windows(n)
	comps := []lapack.OrthoComp{lapack.OrthoExplicit, lapack.OrthoPostmul, lapack.OrthoNone}
	cfg := 0
	for _, compq := range comps {
		for _, compz := range comps {
			cfg++
			if !h.thorough() && (cfg+idx)%2 == 0 && cfg != 1 {
				continue
			}
			win := ws[(cfg+idx)%len(ws)]
			if cfg == 1 {
				win = ws[0]
			}
			ilo, ihi := win[0], win[1]
			a := blockStructured(a0, ilo, ihi)
			s := pow2Scale(a.MaxAbs())
			as := scaled(a, s)
			anorm, bnorm := as.NormFro(), b.NormFro()
			pad := (cfg + idx) % 2 * 3
			wtag := "window=full"
			if !(ilo == 0 && ihi == n-1) {
				wtag = "window=partial"
			}
			tag := fmt.Sprintf("compq=%c compz=%c %s", rune(compq), rune(compz), wtag)
			ab, bb := cs.matFrom("a", a, pad), cs.matFrom("b", b, pad)
			var q1, z1 *ref.M
			mk := func(name string, c lapack.OrthoComp, in **ref.M) *buf {
				switch c {
				case lapack.OrthoNone:
					return cs.mat(name, 1, 1, 0)
				case lapack.OrthoExplicit:
					return cs.mat(name, n, n, pad)
				}
				*in = randOrtho(rng, n)
				return cs.matFrom(name, *in, pad)
			}
			qb, zb := mk("q", compq, &q1), mk("z", compz, &z1)
			if !cs.try("Dgghrd", tag, key("n:"+bucket(n), "nh:"+bucket(ihi-ilo+1), "pad", pad, cls), n > 2, func() {
				h.impl.Dgghrd(compq, compz, n, ilo, ihi, ab.s, ab.ld, bb.s, bb.ld, qb.s, qb.ld, zb.s, zb.ld)
			}) {
				continue
			}
			cs.checkPads("Dgghrd", tag, ab, bb)
			if n == 0 {
				continue
			}
			hm, tm := ab.get(), bb.get()
			if belowSubdiagMax(hm) != 0 {
				cs.fail("Dgghrd", tag, "h-not-upper-hessenberg", "nonzero below the first subdiagonal")
			}
			if !ref.IsUpperTri(tm) {
				cs.fail("Dgghrd", tag, "t-not-upper-triangular", "nonzero below the diagonal")
			}
			get := func(bf *buf, c lapack.OrthoComp, in *ref.M) *ref.M {
				if c == lapack.OrthoNone {
					cs.checkUnref("Dgghrd", tag, bf)
					return nil
				}
				cs.checkPads("Dgghrd", tag, bf)
				x := bf.get()
				cs.band("Dgghrd", tag, "gghrd-orthogonality", ref.OrthoResid(x), fn*eps, nil)
				if in != nil {
					x = ref.Mul(in.T(), x)
				}
				return x
			}
			q, z := get(qb, compq, q1), get(zb, compz, z1)
			hs := scaled(hm, s)
			if q != nil && z != nil {
				cs.band("Dgghrd", tag, "gghrd-a-residual", ref.MaxDiff(ref.Mul(q.T(), ref.Mul(as, z)), hs), fn*eps*anorm, nil)
				cs.band("Dgghrd", tag, "gghrd-b-residual", ref.MaxDiff(ref.Mul(q.T(), ref.Mul(b, z)), tm), fn*eps*bnorm, nil)
			} else {
				cs.band("Dgghrd", tag, "gghrd-norm-preserved", math.Max(math.Abs(hs.NormFro()-anorm)/math.Max(anorm, 1e-300), math.Abs(tm.NormFro()-bnorm)/math.Max(bnorm, 1e-300)), fn*eps, nil)
			}
		}
	}
}

func (h *H) planGen(add addFn) {
	idx := 0
	// m, p, n, rank(B), rank([A;B])
	shapes := []gsvdShape{
		{5, 4, 6, 4, 6}, {6, 6, 4, 4, 4}, {3, 3, 8, 3, 6}, {2, 5, 6, 5, 6}, {6, 5, 7, 3, 5}, {4, 4, 4, 2, 3}, {8, 3, 5, 1, 4}, {3, 6, 6, 4, 6},
		{1, 1, 1, 1, 1}, {2, 2, 3, 1, 2}, {10, 10, 10, 10, 10}, {12, 9, 14, 5, 11}, {20, 17, 25, 9, 19}, {40, 30, 35, 30, 35}, {33, 34, 70, 20, 50},
	}
	reps := 1
	if h.thorough() {
		shapes = append(shapes, []gsvdShape{{50, 60, 40, 33, 40}, {75, 40, 100, 30, 90}, {100, 100, 100, 60, 100}, {140, 20, 135, 10, 130}, {7, 9, 9, 9, 9}, {9, 7, 9, 2, 9}, {5, 5, 12, 5, 10}}...)
		reps = 3
	}
	for rep := 0; rep < reps; rep++ {
		for si := 0; si < 2*len(shapes); si++ {
			sh := gsvdCase{shapes[si/2], si%2 == 1}
			idx++
			i, sh := idx, sh
			cost := (sh.m + sh.p) * sh.n * sh.n * 10
			add("ggsvp3", cost, func() {
				h.checkGgsvp3(fmt.Sprintf("ggsvp3 m=%d p=%d n=%d rankB=%d rank=%d structured=%v #%d", sh.m, sh.p, sh.n, sh.rb, sh.r, sh.structured, i), i, sh)
			})
			add("ggsvd3", cost, func() {
				h.checkGgsvd3(fmt.Sprintf("ggsvd3 m=%d p=%d n=%d rankB=%d rank=%d structured=%v #%d", sh.m, sh.p, sh.n, sh.rb, sh.r, sh.structured, i), i, sh)
			})
			// Dtgsja on a directly constructed pair with the same (k, l).
			k, l := sh.r-sh.rb, sh.rb
			if k <= sh.m && l <= sh.p && !sh.structured {
				add("tgsja", cost, func() {
					h.checkTgsja(fmt.Sprintf("tgsja m=%d p=%d n=%d k=%d l=%d #%d", sh.m, sh.p, sh.n, k, l, i), i, sh.m, sh.p, sh.n, k, l)
				})
			}
		}
		sizes := []int{0, 1, 2, 3, 4, 5, 10, 16, 33, 50}
		if h.thorough() {
			sizes = []int{0, 1, 2, 3, 4, 5, 10, 14, 16, 31, 33, 50, 75, 100, 150}
		}
		for si, n := range sizes {
			for ci, cls := range squareClasses {
				if !h.thorough() && (si+ci)%3 != 0 && n > 34 {
					continue
				}
				idx++
				i, n, cls := idx, n, cls
				add("gghrd", 10*n*n*n, func() { h.checkGghrd(fmt.Sprintf("gghrd n=%d class=%s #%d", n, cls, i), i, n, cls) })
			}
		}
	}
}

func clipN(x []float64, n int) []float64 {
	if len(x) > n {
		return x[:n]
	}
	return x
}
