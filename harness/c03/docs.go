package main

import (
	"os"
	"path/filepath"
	"regexp"
	"strings"
	"sync"
)

// Checks that compare behaviour against a doc comment read the comment from
// the tree under test ($VERIF_REPO, default /repo) at run time, so that a
// documentation repair silences them.

func repoRoot() string {
	if r := os.Getenv("VERIF_REPO"); r != "" {
		return r
	}
	return "/repo"
}

var (
	docMu    sync.Mutex
	docCache = map[string]string{}
)

// docComment returns the doc comment of method fn in lapack/gonum/<file>
// (lines joined, comment markers stripped), or "" if it cannot be read.
func docComment(file, fn string) string {
	docMu.Lock()
	defer docMu.Unlock()
	k := file + ":" + fn
	if d, ok := docCache[k]; ok {
		return d
	}
	b, err := os.ReadFile(filepath.Join(repoRoot(), "lapack", "gonum", file))
	d := ""
	if err == nil {
		lines := strings.Split(string(b), "\n")
		re := regexp.MustCompile(`^func \([^)]*\) ` + regexp.QuoteMeta(fn) + `\(`)
		for i, l := range lines {
			if !re.MatchString(l) {
				continue
			}
			j := i - 1
			var parts []string
			for j >= 0 && strings.HasPrefix(lines[j], "//") {
				parts = append([]string{strings.TrimSpace(strings.TrimPrefix(lines[j], "//"))}, parts...)
				j--
			}
			d = strings.Join(parts, " ")
			break
		}
	}
	docCache[k] = d
	return d
}

// docBdsqrSays4n reports whether the doc comment of Dbdsqr mentions a
// workspace of 4*n (the need of the no-vector dqds path) in addition to
// 4*(n-1).
func docBdsqrSays4n() bool {
	d := strings.ReplaceAll(docComment("dbdsqr.go", "Dbdsqr"), " ", "")
	return strings.Contains(d, "4*n")
}

// docLworkMin extracts the documented minimum lwork of a routine from a
// sentence of the form "lwork must be -1 or greater than X" / "lwork must be
// -1 or at least X" in its doc comment and evaluates X for the given
// dimensions (identifiers m, n, p; integers; + - *; max(...), min(...);
// the word "zero"). ok is false if no such sentence can be evaluated.
func docLworkMin(file, fn string, dims map[string]int) (min int, ok bool) {
	d := docComment(file, fn)
	re := regexp.MustCompile(`lwork must be -1 or (greater than|at least) ([^,.]+(?:\.[0-9][^,.]*)?)`)
	mt := re.FindStringSubmatch(d)
	if mt == nil {
		return 0, false
	}
	expr := strings.TrimSpace(mt[2])
	// The argument list of max/min contains commas: re-read up to the
	// matching parenthesis.
	if i := strings.Index(d, mt[0]); i >= 0 {
		rest := d[i+len(mt[0])-len(mt[2]):]
		depth, end := 0, len(rest)
		for k, c := range rest {
			if c == '(' {
				depth++
			}
			if c == ')' {
				depth--
			}
			if depth == 0 && (c == ',' || c == '.' && (k+1 >= len(rest) || rest[k+1] == ' ')) {
				end = k
				break
			}
		}
		expr = strings.TrimSpace(rest[:end])
	}
	for _, stop := range []string{" otherwise", " or ", " and "} {
		if i := strings.Index(expr, stop); i >= 0 {
			expr = expr[:i]
		}
	}
	p := &exprParser{s: strings.ReplaceAll(expr, " ", ""), dims: dims}
	v, err := p.sum()
	if err || p.pos != len(p.s) {
		return 0, false
	}
	if mt[1] == "greater than" {
		v++
	}
	return v, true
}

type exprParser struct {
	s    string
	pos  int
	dims map[string]int
}

func (p *exprParser) sum() (int, bool) {
	v, err := p.prod()
	for !err && p.pos < len(p.s) && (p.s[p.pos] == '+' || p.s[p.pos] == '-') {
		op := p.s[p.pos]
		p.pos++
		var w int
		w, err = p.prod()
		if op == '+' {
			v += w
		} else {
			v -= w
		}
	}
	return v, err
}

func (p *exprParser) prod() (int, bool) {
	v, err := p.atom()
	for !err && p.pos < len(p.s) && p.s[p.pos] == '*' {
		p.pos++
		var w int
		w, err = p.atom()
		v *= w
	}
	return v, err
}

func (p *exprParser) atom() (int, bool) {
	if p.pos >= len(p.s) {
		return 0, true
	}
	c := p.s[p.pos]
	switch {
	case c >= '0' && c <= '9':
		v := 0
		for p.pos < len(p.s) && p.s[p.pos] >= '0' && p.s[p.pos] <= '9' {
			v = v*10 + int(p.s[p.pos]-'0')
			p.pos++
		}
		return v, false
	case c == '(':
		p.pos++
		v, err := p.sum()
		if err || p.pos >= len(p.s) || p.s[p.pos] != ')' {
			return 0, true
		}
		p.pos++
		return v, false
	}
	start := p.pos
	for p.pos < len(p.s) && (p.s[p.pos] >= 'a' && p.s[p.pos] <= 'z') {
		p.pos++
	}
	id := p.s[start:p.pos]
	switch id {
	case "zero":
		return 0, false
	case "max", "min":
		if p.pos >= len(p.s) || p.s[p.pos] != '(' {
			return 0, true
		}
		p.pos++
		v, err := p.sum()
		for !err && p.pos < len(p.s) && p.s[p.pos] == ',' {
			p.pos++
			var w int
			w, err = p.sum()
			if id == "max" && w > v || id == "min" && w < v {
				v = w
			}
		}
		if err || p.pos >= len(p.s) || p.s[p.pos] != ')' {
			return 0, true
		}
		p.pos++
		return v, false
	}
	if v, ok := p.dims[id]; ok {
		return v, false
	}
	return 0, true
}
