package main

import (
	"fmt"
	"math"
	"regexp"
	"strings"

	"gonum.org/v1/gonum/blas"
	"gonum.org/v1/gonum/lapack"
	"gonum.org/v1/gonum/verifx/ref"
	"gonum.org/v1/gonum/verifx/vrt"
)

// ---- singular value family -------------------------------------------------------
//
// Dgebrd / Dgebd2 / Dlabrd + Dorgbr / Dormbr:  Qᵀ A P = B;  Dbdsqr, Dlasq1/2 on
// bidiagonal input;  Dgesvd on general input.

// refSigma returns the one-sided Jacobi singular values of a (on exactly
// rescaled data), or nil above the reference size limit of the tier.
func (h *H) refSigma(a *ref.M) []float64 {
	k := min(a.R, a.C)
	lim := h.pick(40, 100)
	if k > lim || a.R*a.C > lim*lim*4 {
		return nil
	}
	if k == 0 {
		return []float64{}
	}
	s := pow2Scale(a.MaxAbs())
	sv := ref.SingularValues(scaled(a, s))
	return scaledVec(sv, 1/s)
}

// bidiagFull builds the m x n matrix with diagonal d and off-diagonal e
// (upper bidiagonal if m >= n, lower otherwise).
func bidiagFull(m, n int, d, e []float64) *ref.M {
	b := ref.New(m, n)
	for i := range d {
		b.D[i*n+i] = d[i]
	}
	for i := range e {
		if m >= n {
			b.D[i*n+i+1] = e[i]
		} else {
			b.D[(i+1)*n+i] = e[i]
		}
	}
	return b
}

func (h *H) checkGebrd(id string, idx, m, n int, cls string) {
	rng := h.c.RNG("gebrd", idx)
	cs := h.newCase(id, rng)
	a := general(rng, cls, m, n)
	s := pow2Scale(a.MaxAbs())
	as := scaled(a, s)
	scale := as.NormFro()
	k := min(m, n)
	fmn := float64(max(m, n, 1))
	refS := h.refSigma(a)

	type variant struct {
		routine string
		lwc     lw
	}
	for vi, v := range []variant{{"Dgebrd", lwMin}, {"Dgebrd", lwQuery}, {"Dgebd2", lwMin}} {
		pad := (vi + idx) % 2 * 3
		ab := cs.matFrom("a", a, pad)
		d, e, tauQ, tauP := cs.vec(k), cs.vec(max(0, k-1)), cs.vec(k), cs.vec(k)
		kk := key("m:"+bucket(m), "n:"+bucket(n), "pad", pad, "lwork", v.lwc)
		var okc bool
		if v.routine == "Dgebd2" {
			work := cs.work(max(m, n))
			okc = cs.try(v.routine, "", kk, k > 0, func() { h.impl.Dgebd2(m, n, ab.s, ab.ld, d, e, tauQ, tauP, work) })
		} else {
			lwork := max(1, m, n)
			if v.lwc == lwQuery {
				var ok bool
				lwork, ok = cs.query("Dgebrd", max(1, m, n), k == 0, func(w []float64) { h.impl.Dgebrd(m, n, ab.s, ab.ld, d, e, tauQ, tauP, w, -1) }, ab.s, d, e, tauQ, tauP)
				if !ok {
					continue
				}
			}
			work := cs.work(lwork)
			okc = cs.try(v.routine, "", kk, k > 0, func() { h.impl.Dgebrd(m, n, ab.s, ab.ld, d, e, tauQ, tauP, work, lwork) })
		}
		if !okc {
			continue
		}
		cs.checkPads(v.routine, "", ab)
		if k == 0 {
			continue
		}
		f := ab.get()
		for i := 0; i < k; i++ {
			if f.D[i*n+i] != d[i] {
				cs.fail(v.routine, "", "d-differs-from-diagonal-of-a", "d[%d]=%v a=%v", i, d[i], f.D[i*n+i])
				break
			}
			if i+1 < k {
				x := f.D[i*n+i+1]
				if m < n {
					x = f.D[(i+1)*n+i]
				}
				if x != e[i] {
					cs.fail(v.routine, "", "e-differs-from-offdiagonal-of-a", "e[%d]=%v a=%v", i, e[i], x)
					break
				}
			}
		}
		nq, np := n, n-1
		if m < n {
			nq, np = m-1, m
		}
		q, p := qpFromGebrd(f, tauQ, tauP, nq, np)
		cs.band(v.routine, "", "gebrd-reflector-orthogonality", math.Max(ref.OrthoResid(q), ref.OrthoResid(p)), fmn*eps, nil)
		b := bidiagFull(m, n, scaledVec(d, s), scaledVec(e, s))
		r := ref.Sub(ref.Mul(q.T(), ref.Mul(as, p)), b)
		cs.band(v.routine, "", "gebrd-reduction-residual", r.MaxAbs(), fmn*eps*scale, nil)
		if refS != nil && vi == 0 {
			// The bidiagonal matrix has the singular values of A.
			if sb := h.refSigma(bidiagFull(k, k, d, e)); sb != nil {
				cs.band(v.routine, "", "gebrd-singular-values-preserved", maxDiffVec(scaledVec(sb, s), scaledVec(refS, s)), fmn*eps*scale, nil)
			}
		}
		if vi == 2 && !h.thorough() && idx%2 == 0 {
			continue
		}
		h.orgbrOrmbr(cs, idx+vi, m, n, ab, f, tauQ, tauP, q, p)
	}
}

// orgbrOrmbr checks Dorgbr and Dormbr against the reflector products q, p of
// a reduced m x n matrix held in ab (f is its logical content).
func (h *H) orgbrOrmbr(cs *Case, idx, m, n int, ab *buf, f *ref.M, tauQ, tauP []float64, q, p *ref.M) {
	k := min(m, n)
	fmn := float64(max(m, n, 1))
	// Dorgbr GenerateQ: original matrix m x kq with kq = n.
	type og struct {
		vect       lapack.GenOrtho
		rows, cols int // shape of the result
		kk         int
	}
	var ogs []og
	if m >= n {
		ogs = append(ogs, og{lapack.GenerateQ, m, n, n}, og{lapack.GenerateQ, m, m, n}) // first n columns, all of Q
		if m > n+1 {
			ogs = append(ogs, og{lapack.GenerateQ, m, n + 1, n})
		}
		ogs = append(ogs, og{lapack.GeneratePT, n, n, m}) // k >= n: all of Pᵀ
	} else {
		ogs = append(ogs, og{lapack.GenerateQ, m, m, n})                                  // m < k: Q is m x m
		ogs = append(ogs, og{lapack.GeneratePT, m, n, m}, og{lapack.GeneratePT, n, n, m}) // first m rows, all of Pᵀ
	}
	for oi, o := range ogs {
		for _, lwc := range []lw{lwMin, lwQuery} {
			if !h.thorough() && (oi+int(lwc)+idx)%2 == 0 {
				continue
			}
			pad := (oi + idx) % 2 * 2
			ob := cs.mat("a", o.rows, o.cols, pad)
			// The reflectors live in the leading part shared with the result shape.
			for i := 0; i < min(o.rows, m); i++ {
				for j := 0; j < min(o.cols, n); j++ {
					ob.s[i*ob.ld+j] = f.D[i*n+j]
				}
			}
			tau := tauQ
			tag := "vect=Q"
			if o.vect == lapack.GeneratePT {
				tau = tauP
				tag = "vect=P"
			}
			mn := min(o.rows, o.cols)
			lwork := max(1, mn)
			if lwc == lwQuery {
				var ok bool
				lwork, ok = cs.query("Dorgbr", max(1, mn), mn == 0, func(w []float64) {
					h.impl.Dorgbr(o.vect, o.rows, o.cols, o.kk, ob.s, ob.ld, tau[:min(k, len(tau))], w, -1)
				}, ob.s)
				if !ok {
					continue
				}
			}
			work := cs.work(lwork)
			if !cs.try("Dorgbr", tag, key("m:"+bucket(o.rows), "n:"+bucket(o.cols), "k:"+bucket(o.kk), "pad", pad, "lwork", lwc), mn > 0, func() {
				h.impl.Dorgbr(o.vect, o.rows, o.cols, o.kk, ob.s, ob.ld, tau[:min(k, len(tau))], work, lwork)
			}) {
				continue
			}
			cs.checkPads("Dorgbr", tag, ob)
			var want *ref.M
			if o.vect == lapack.GenerateQ {
				want = subCols(q, 0, o.cols)
			} else {
				want = subRows(p.T(), 0, o.rows)
			}
			cs.band("Dorgbr", tag, "orgbr-matches-reflector-product", ref.MaxDiff(ob.get(), want), fmn*eps, nil)
		}
	}
	// Dormbr: all vect x side x trans on a random C.
	cfgi := 0
	for _, vect := range []lapack.ApplyOrtho{lapack.ApplyQ, lapack.ApplyP} {
		for _, side := range []blas.Side{blas.Left, blas.Right} {
			for _, trans := range []blas.Transpose{blas.NoTrans, blas.Trans} {
				cfgi++
				if !h.thorough() && (cfgi+idx)%2 == 0 {
					continue
				}
				lwc := lw((cfgi/2 + idx) % 2)
				// Order of the orthogonal matrix and the k argument.
				nq, kk := m, n
				o := q
				tau := tauQ
				if vect == lapack.ApplyP {
					nq, kk = n, m
					o = p
					tau = tauP
				}
				other := 1 + (idx+cfgi)%4
				mc, nc := nq, other
				if side == blas.Right {
					mc, nc = other, nq
				}
				c := general(cs.rng, clRand, mc, nc)
				pad := cfgi % 2 * 3
				cb := cs.matFrom("c", c, pad)
				tag := fmt.Sprintf("vect=%c side=%c trans=%c", rune(vect), sideCh(side), transCh(trans))
				minlw := max(1, nc)
				if side == blas.Right {
					minlw = max(1, mc)
				}
				lwork := minlw
				tt := tau[:min(nq, kk, len(tau))]
				if lwc == lwQuery {
					var ok bool
					lwork, ok = cs.query("Dormbr", minlw, mc == 0 || nc == 0, func(w []float64) {
						h.impl.Dormbr(vect, side, trans, mc, nc, kk, ab.s, ab.ld, tt, cb.s, cb.ld, w, -1)
					}, ab.s, cb.s)
					if !ok {
						continue
					}
				}
				work := cs.work(lwork)
				a0 := cloneF(ab.s)
				if !cs.try("Dormbr", tag, key("nq:"+bucket(nq), "k:"+bucket(kk), "pad", pad, "lwork", lwc), nq > 0, func() {
					h.impl.Dormbr(vect, side, trans, mc, nc, kk, ab.s, ab.ld, tt, cb.s, cb.ld, work, lwork)
				}) {
					continue
				}
				cs.checkPads("Dormbr", tag, cb)
				for i := range a0 {
					if !vrt.SameBits(a0[i], ab.s[i]) {
						cs.fail("Dormbr", tag, "input-a-modified", "a changed at word %d", i)
						break
					}
				}
				oo := o
				if trans == blas.Trans {
					oo = o.T()
				}
				var want *ref.M
				if side == blas.Left {
					want = ref.Mul(oo, c)
				} else {
					want = ref.Mul(c, oo)
				}
				cs.band("Dormbr", tag, "ormbr-matches-reflector-product", ref.MaxDiff(cb.get(), want), fmn*eps*math.Max(c.MaxAbs(), 1), nil)
			}
		}
	}
}

func sideCh(s blas.Side) rune {
	if s == blas.Left {
		return 'L'
	}
	return 'R'
}

func transCh(t blas.Transpose) rune {
	if t == blas.NoTrans {
		return 'N'
	}
	return 'T'
}

// checkLabrd calls Dlabrd directly.
func (h *H) checkLabrd(id string, idx, m, n, nb int, cls string) {
	rng := h.c.RNG("labrd", idx)
	cs := h.newCase(id, rng)
	a := general(rng, cls, m, n)
	s := pow2Scale(a.MaxAbs())
	as := scaled(a, s)
	scale := as.NormFro()
	fmn := float64(max(m, n))
	pad := idx % 2 * 3
	ab := cs.matFrom("a", a, pad)
	xb, yb := cs.mat("x", m, nb, pad), cs.mat("y", n, nb, pad)
	d, e, tauQ, tauP := cs.vec(nb), cs.vec(nb), cs.vec(nb), cs.vec(nb)
	if !cs.try("Dlabrd", "", key("m:"+bucket(m), "n:"+bucket(n), "nb:"+bucket(nb), "pad", pad), true, func() {
		h.impl.Dlabrd(m, n, nb, ab.s, ab.ld, d, e, tauQ, tauP, xb.s, xb.ld, yb.s, yb.ld)
	}) {
		return
	}
	cs.checkPads("Dlabrd", "", ab, xb, yb)
	f := ab.get()
	q, p := qpFromGebrd(f, tauQ, tauP, nb, nb)
	cs.band("Dlabrd", "", "gebrd-reflector-orthogonality", math.Max(ref.OrthoResid(q), ref.OrthoResid(p)), fmn*eps, nil)
	ap := ref.Mul(q.T(), ref.Mul(as, p))
	// First nb rows and columns of Qᵀ A P are bidiagonal with d, e.
	var worst float64
	upd := func(v float64) {
		if math.IsNaN(v) {
			v = math.Inf(1)
		}
		worst = math.Max(worst, v)
	}
	for i := 0; i < m; i++ {
		for j := 0; j < n; j++ {
			if i >= nb && j >= nb {
				continue
			}
			want := 0.0
			switch {
			case i == j:
				want = d[i] * s
			case m >= n && j == i+1 && i < nb:
				want = e[i] * s
			case m < n && i == j+1 && j < nb:
				want = e[j] * s
			}
			upd(math.Abs(ap.D[i*n+j] - want))
		}
	}
	cs.band("Dlabrd", "", "labrd-reduced-rows-and-columns", worst, fmn*eps*scale, nil)
	// Unreduced block: A - V Yᵀ - X Uᵀ on rows / columns nb: .
	v, u := ref.New(m, nb), ref.New(n, nb)
	x, y := xb.get(), yb.get()
	for t := 0; t < nb; t++ {
		if m >= n {
			v.D[t*nb+t] = 1
			for r := t + 1; r < m; r++ {
				v.D[r*nb+t] = f.D[r*n+t]
			}
			if t+1 < n {
				u.D[(t+1)*nb+t] = 1
				for c := t + 2; c < n; c++ {
					u.D[c*nb+t] = f.D[t*n+c]
				}
			}
		} else {
			if t+1 < m {
				v.D[(t+1)*nb+t] = 1
				for r := t + 2; r < m; r++ {
					v.D[r*nb+t] = f.D[r*n+t]
				}
			}
			u.D[t*nb+t] = 1
			for c := t + 1; c < n; c++ {
				u.D[c*nb+t] = f.D[t*n+c]
			}
		}
	}
	// Only rows nb: of V, X and of U, Y take part.
	zeroRows := func(z *ref.M) {
		for i := 0; i < nb && i < z.R; i++ {
			for j := 0; j < z.C; j++ {
				z.D[i*z.C+j] = 0
			}
		}
	}
	zeroRows(v)
	zeroRows(u)
	zeroRows(x)
	zeroRows(y)
	t := ref.Sub(as, ref.Add(ref.Mul(v, scaled(y, s).T()), ref.Mul(scaled(x, s), u.T())))
	worst = 0
	for i := nb; i < m; i++ {
		for j := nb; j < n; j++ {
			upd(math.Abs(t.D[i*n+j] - ap.D[i*n+j]))
			if f.D[i*n+j] != a.D[i*n+j] {
				cs.fail("Dlabrd", "", "unreduced-block-of-a-modified", "a[%d,%d]", i, j)
				i, j = m, n
			}
		}
	}
	amp := 1 + (x.MaxAbs()+y.MaxAbs())*s/math.Max(scale, 1e-300)
	cs.band("Dlabrd", "", "labrd-update-matches-transformation", worst, fmn*eps*scale*amp, nil)
}

// ---- bidiagonal SVD -----------------------------------------------------------------

const (
	bdRand     = "rand"
	bdGraded   = "graded"
	bdGradedUp = "graded-up"
	bdDiagNeg  = "diagonal-negative" // e == 0, d of both signs and a zero
	bdSplit    = "split"             // some e == 0, negative d
	bdZeroD    = "zero-diagonal-entry"
	bdZero     = "zero"
	bdIdent    = "identity"
	bdHuge     = "huge"
	bdTiny     = "tiny"
	bdRepeated = "repeated"
	bdExtreme  = "extreme-range" // entries between 2^-480 and 2^480 in one matrix, with exact zeros
)

var bidiagClasses = []string{bdRand, bdGraded, bdGradedUp, bdDiagNeg, bdSplit, bdZeroD, bdRepeated, bdExtreme, bdHuge, bdTiny, bdZero, bdIdent}

func bidiagGen(r *vrt.Rand, cls string, n int) (d, e []float64) {
	d, e = make([]float64, n), make([]float64, max(0, n-1))
	switch cls {
	case bdRand:
		for i := range d {
			d[i] = r.Sym()
		}
		for i := range e {
			e[i] = r.Sym()
		}
	case bdGraded, bdGradedUp:
		g := 50.0 / float64(max(1, n))
		for i := range d {
			k := i
			if cls == bdGradedUp {
				k = n - 1 - i
			}
			d[i] = math.Exp2(-g*float64(k)) * (0.5 + r.Float64()) * []float64{1, -1}[i%2]
		}
		for i := range e {
			k := i
			if cls == bdGradedUp {
				k = n - 1 - i
			}
			e[i] = math.Exp2(-g*(float64(k)+0.5)) * r.Sym()
		}
	case bdDiagNeg:
		for i := range d {
			d[i] = r.Uniform(0.1, 2) * []float64{-1, 1, -1}[i%3]
		}
		if n > 2 {
			d[n/2] = 0
		}
	case bdSplit:
		d, e = bidiagGen(r, bdRand, n)
		for i := range d {
			d[i] = -math.Abs(d[i]) - 0.01
		}
		for i := range e {
			if r.Intn(3) == 0 {
				e[i] = 0
			}
		}
	case bdZeroD:
		d, e = bidiagGen(r, bdRand, n)
		if n > 0 {
			d[r.Intn(n)] = 0
		}
		if n > 1 {
			d[n-1] = 0
		}
	case bdZero:
	case bdIdent:
		for i := range d {
			d[i] = 1
		}
	case bdHuge, bdTiny:
		d, e = bidiagGen(r, bdRand, n)
		sc := math.Ldexp(1, 500)
		if cls == bdTiny {
			sc = math.Ldexp(1, -500)
		}
		for i := range d {
			d[i] *= sc
		}
		for i := range e {
			e[i] *= sc
		}
	case bdExtreme:
		for i := range d {
			d[i] = r.Sym() * math.Ldexp(1, r.Range(-4, 4)*120)
		}
		for i := range e {
			e[i] = r.Sym() * math.Ldexp(1, r.Range(-4, 4)*120)
			if r.Intn(6) == 0 {
				e[i] = 0
			}
		}
	case bdRepeated:
		for i := range d {
			d[i] = []float64{1, 1, -2, 1}[i%4]
		}
		for i := range e {
			if i%5 == 4 {
				e[i] = 1e-9
			}
		}
	default:
		panic("c03: bidiagonal class " + cls)
	}
	return d, e
}

// orthoCols returns an r x c matrix with orthonormal columns (r >= c).
func orthoCols(rng *vrt.Rand, r, c int) *ref.M { return subCols(randOrtho(rng, r), 0, c) }

func (h *H) checkBdsqr(id string, idx, n int, cls string) {
	rng := h.c.RNG("bdsqr", idx)
	cs := h.newCase(id, rng)
	d, e := bidiagGen(rng, cls, n)
	fn := float64(max(n, 1))
	var certified []float64 // singular values of the run with both vector sets
	for _, upper := range []bool{true, false} {
		uplo := blas.Lower
		if upper {
			uplo = blas.Upper
		}
		b := bidiag(upper, d, e)
		s := pow2Scale(b.MaxAbs())
		bs := scaled(b, s)
		scale := bs.NormFro()
		refS := h.refSigma(b)
		combos := [][3]int{{n, n, 0}, {n + 2, n + 3, 3}, {0, 0, 0}, {0, 0, 0}, {n, 0, 0}, {0, n, 0}, {0, 0, 2}, {1, 0, 0}, {0, 1, 1}}
		for ci, cb := range combos {
			ncvt, nru, ncc := cb[0], cb[1], cb[2]
			if n == 0 && ci > 3 {
				continue
			}
			if !h.thorough() && ci >= 4 && (ci+idx+b2i(upper))%2 == 0 {
				continue
			}
			tag := fmt.Sprintf("uplo=%s vt=%s u=%s c=%s", uploName(uplo), yn(ncvt), yn(nru), yn(ncc))
			pad := (ci + idx) % 2 * 2
			dd, ee := cloneF(d), cloneF(e)
			// Inputs: VT_in n x ncvt with orthonormal rows when ncvt >= n, U_in
			// nru x n with orthonormal columns when nru >= n, C_in random.
			var vt0, u0, c0 *ref.M
			var vtb, ub, ccb *buf
			if ncvt > 0 {
				if ncvt >= n {
					vt0 = orthoCols(rng, ncvt, n).T()
				} else {
					vt0 = general(rng, clRand, n, ncvt)
				}
				vtb = cs.matFrom("vt", vt0, pad)
			} else {
				vtb = cs.mat("vt", 1, 1, 0)
			}
			if nru > 0 {
				if nru >= n {
					u0 = orthoCols(rng, nru, n)
				} else {
					u0 = general(rng, clRand, nru, n)
				}
				ub = cs.matFrom("u", u0, pad)
			} else {
				ub = cs.mat("u", 1, 1, 0)
			}
			if ncc > 0 {
				c0 = general(rng, clRand, n, ncc)
				ccb = cs.matFrom("c", c0, pad)
			} else {
				ccb = cs.mat("c", 1, 1, 0)
			}
			work := cs.work(4 * max(n-1, 0))
			if n <= 1 {
				work = work[:0]
			}
			if ncvt+nru+ncc == 0 {
				// No vectors: the dqds path. Its workspace need is read from
				// the doc comment of Dbdsqr (4*(n-1) unless the comment
				// states 4*n for this case); a second run with 4*n words
				// keeps the path observed.
				if ci == 2 && !docBdsqrSays4n() {
					tag += " work=4(n-1)"
				} else {
					work = cs.work(4 * n)[:4*n]
					tag += " work=4n"
				}
			}
			var ok bool
			if !cs.try("Dbdsqr", tag, key("n:"+bucket(n), "pad", pad, cls), n > 1, func() {
				ok = h.impl.Dbdsqr(uplo, n, ncvt, nru, ncc, dd, ee, vtb.s, vtb.ld, ub.s, ub.ld, ccb.s, ccb.ld, work)
			}) {
				continue
			}
			if ncvt > 0 {
				cs.checkPads("Dbdsqr", tag, vtb)
			} else {
				cs.checkUnref("Dbdsqr", tag, vtb)
			}
			if nru > 0 {
				cs.checkPads("Dbdsqr", tag, ub)
			} else {
				cs.checkUnref("Dbdsqr", tag, ub)
			}
			if ncc > 0 {
				cs.checkPads("Dbdsqr", tag, ccb)
			} else {
				cs.checkUnref("Dbdsqr", tag, ccb)
			}
			if !ok {
				cs.fail("Dbdsqr", tag, "no-convergence", "ok=false on bidiagonal class %s n=%d", cls, n)
				continue
			}
			if !descendingNonNeg(dd) {
				cs.fail("Dbdsqr", tag, "singular-values-not-nonnegative-descending", "d=%v", clip(dd))
			}
			if n == 0 {
				continue
			}
			ds := scaledVec(dd, s)
			if refS != nil {
				cs.band("Dbdsqr", tag, "svd-values-vs-reference", maxDiffVec(ds, scaledVec(refS, s)), fn*eps*scale, func() string { return fmt.Sprintf("d=%v ref=%v", clip(dd), clip(refS)) })
			}
			var vt1, u1, c1 *ref.M
			if ncvt > 0 {
				vt1 = vtb.get()
			}
			if nru > 0 {
				u1 = ub.get()
			}
			if ncc > 0 {
				c1 = ccb.get()
			}
			good := true
			if ncvt >= n {
				good = cs.band("Dbdsqr", tag, "svd-orthogonality", rowOrthoResid(vt1), fn*eps, nil) && good
			}
			if nru >= n {
				good = cs.band("Dbdsqr", tag, "svd-orthogonality", ref.OrthoResid(u1), fn*eps, nil) && good
			}
			switch {
			case ncvt > 0 && nru > 0:
				// U_out S VT_out = U_in B VT_in.
				lhs := ref.Mul(scaleCols(u1, ds), vt1)
				rhs := ref.Mul(u0, ref.Mul(bs, vt0))
				good = cs.band("Dbdsqr", tag, "svd-residual", ref.MaxDiff(lhs, rhs), fn*eps*scale*math.Max(1, u0.MaxAbs()*vt0.MaxAbs()*fn), nil) && good
				if good && ncvt >= n && nru >= n && upper && certified == nil {
					certified = dd
				}
			case ncvt >= n:
				// VT_out = Pᵀ VT_in with orthonormal VT_in: (VT_in BᵀB VT_inᵀ)... use
				// G = VT_inᵀ(BᵀB)VT_in restricted: VT_out G' = S² VT_out where
				// G' = VT_inᵀ BᵀB VT_in (ncvt x ncvt).
				g := ref.Mul(vt0.T(), ref.Mul(ref.Mul(bs.T(), bs), vt0))
				r := ref.Sub(ref.Mul(vt1, g), scaleRows(vt1, sq(ds)))
				cs.band("Dbdsqr", tag, "svd-one-sided-residual", r.MaxAbs(), fn*eps*scale*scale, nil)
			case nru >= n:
				g := ref.Mul(u0, ref.Mul(ref.Mul(bs, bs.T()), u0.T()))
				r := ref.Sub(ref.Mul(g, u1), scaleCols(u1, sq(ds)))
				cs.band("Dbdsqr", tag, "svd-one-sided-residual", r.MaxAbs(), fn*eps*scale*scale, nil)
			}
			if ncc > 0 {
				// C_out = Qᵀ C_in: Gram matrix preserved; with U: U_out C_out = U_in C_in.
				g0, g1 := ref.Mul(c0.T(), c0), ref.Mul(c1.T(), c1)
				cs.band("Dbdsqr", tag, "bdsqr-c-gram-preserved", ref.MaxDiff(g0, g1), fn*eps*math.Max(g0.MaxAbs(), 1), nil)
				if nru > 0 {
					cs.band("Dbdsqr", tag, "bdsqr-c-consistent-with-u", ref.MaxDiff(ref.Mul(u1, c1), ref.Mul(u0, c0)), fn*fn*eps*math.Max(u0.MaxAbs()*c0.MaxAbs(), 1), nil)
				}
			}
			if certified != nil && !(ncvt >= n && nru >= n && upper) {
				// Weyl: values of every option combination agree (the lower
				// matrix is the transpose of the upper one).
				cs.band("Dbdsqr", tag, "svd-values-across-options", maxDiffVec(dd, certified)*s, fn*eps*scale, nil)
			}
		}
		if !upper {
			continue
		}
		// Dlasq1 on the same data (dqds: no vectors).
		{
			dd, ee := cloneF(d), cloneF(e)
			work := cs.work(4 * n)
			if n == 0 {
				work = work[:0]
			}
			var info int
			if cs.try("Dlasq1", "", key("n:"+bucket(n), cls), n > 1, func() { info = h.impl.Dlasq1(n, dd, ee, work) }) {
				switch {
				case info != 0:
					cs.fail("Dlasq1", "", "no-convergence", "info=%d on bidiagonal class %s n=%d", info, cls, n)
				case !descendingNonNeg(dd):
					cs.fail("Dlasq1", "", "singular-values-not-nonnegative-descending", "d=%v", clip(dd))
				default:
					if refS != nil {
						cs.band("Dlasq1", "", "svd-values-vs-reference", maxDiffVec(scaledVec(dd, s), scaledVec(refS, s)), fn*eps*scale, nil)
					}
					if certified != nil {
						cs.band("Dlasq1", "", "svd-values-across-options", maxDiffVec(dd, certified)*s, fn*eps*scale, nil)
					}
				}
			}
		}
		// Dlasq2 on the qd array of a matrix scaled into the safe range.
		if n > 0 && cls != bdHuge && cls != bdTiny && cls != bdExtreme {
			z := cs.work(4 * n)
			for i := range z {
				z[i] = 0
			}
			for i := 0; i < n; i++ {
				z[2*i] = d[i] * d[i]
				if i < n-1 {
					z[2*i+1] = e[i] * e[i]
				}
			}
			var info int
			if cs.try("Dlasq2", "", key("n:"+bucket(n), cls), n > 1, func() { info = h.impl.Dlasq2(n, z) }) {
				if info != 0 {
					cs.fail("Dlasq2", "", "no-convergence", "info=%d on bidiagonal class %s n=%d", info, cls, n)
				} else if certified != nil {
					got := make([]float64, n)
					neg := false
					for i := range got {
						if z[i] < 0 || math.IsNaN(z[i]) {
							neg = true
						}
						got[i] = math.Sqrt(math.Abs(z[i]))
					}
					if neg {
						cs.fail("Dlasq2", "", "negative-eigenvalue-of-positive-definite-matrix", "z[:n]=%v", clip(z[:n]))
					} else {
						cs.band("Dlasq2", "", "svd-values-across-options", maxDiffVec(sortedCopy(got, true), certified)*s, fn*eps*scale, nil)
					}
				}
			}
		}
	}
}

func yn(n int) string {
	if n > 0 {
		return "y"
	}
	return "n"
}

func sq(x []float64) []float64 {
	y := make([]float64, len(x))
	for i, v := range x {
		y[i] = v * v
	}
	return y
}

// scaleRows returns a with row i multiplied by s[i].
func scaleRows(a *ref.M, s []float64) *ref.M {
	b := a.Clone()
	for i := 0; i < a.R && i < len(s); i++ {
		for j := 0; j < a.C; j++ {
			b.D[i*a.C+j] *= s[i]
		}
	}
	return b
}

// ---- Dgesvd -----------------------------------------------------------------------------

var svdJobs = []lapack.SVDJob{lapack.SVDAll, lapack.SVDStore, lapack.SVDNone}

func (h *H) checkGesvd(id string, idx, m, n int, cls string) {
	rng := h.c.RNG("gesvd", idx)
	cs := h.newCase(id, rng)
	a := general(rng, cls, m, n)
	k := min(m, n)
	s := pow2Scale(a.MaxAbs())
	as := scaled(a, s)
	scale := as.NormFro()
	fmn := float64(max(m, n, 1))
	refS := h.refSigma(a)
	minwork := 1
	if k > 0 {
		minwork = max(3*k+max(m, n), 5*k)
	}
	var certified []float64
	cfg := 0
	for _, jobU := range svdJobs {
		for _, jobVT := range svdJobs {
			for lwi := 0; lwi < len(gesvdLwClasses); lwi++ {
				cfg++
				lwn := gesvdLwClasses[lwi]
				if !gesvdClassWanted(h.thorough(), lwn, m, n) {
					continue
				}
				if !h.thorough() && (cfg+idx)%3 == 0 && !(jobU == lapack.SVDAll && jobVT == lapack.SVDAll && lwn == "fast-large") {
					continue // quick: two thirds of the configurations per matrix
				}
				pad := (cfg + idx) % 3 * 2
				if lwn == "query" && cfg%2 == 0 {
					pad = 0 // query with lda == n takes the ldwork = lda branches
				}
				if (lwn == "generous" || strings.HasPrefix(lwn, "lda")) && (cfg+idx)%2 == 0 {
					pad = 7 // the layout threshold involves lda
				}
				tag := fmt.Sprintf("jobU=%c jobVT=%c", rune(jobU), rune(jobVT))
				if k == 1 && pad > 0 {
					// Vector-shaped input with padded leading dimensions:
					// its own path class (operands of minimal length are
					// shorter than one padded row).
					tag += " shape=vector ld>min"
				}
				ab := cs.matFrom("a", a, pad)
				sv := cs.vec(k)
				var ub, vtb *buf
				switch jobU {
				case lapack.SVDAll:
					ub = cs.mat("u", m, m, pad)
				case lapack.SVDStore:
					ub = cs.mat("u", m, k, pad)
				default:
					ub = cs.mat("u", 1, 1, 0)
				}
				switch jobVT {
				case lapack.SVDAll:
					vtb = cs.mat("vt", n, n, pad)
				case lapack.SVDStore:
					vtb = cs.mat("vt", k, n, pad)
				default:
					vtb = cs.mat("vt", 1, 1, 0)
				}
				// Thresholds of dgesvd.go: the fast algorithm needs
				// k*k+max(4k, 5k) (paths 4, 6) or k*k+max(m+n, 4k, 5k) (paths 7,
				// 9) words; the k x k work matrices get leading dimension lda
				// instead of k when lwork >= wrkbl+lda*k, wrkbl = optimum - k*k.
				query := minwork
				if lwn != "min" && !strings.HasPrefix(lwn, "fast") {
					var ok bool
					cs.exactQuery = true
					query, ok = cs.query("Dgesvd", minwork, k == 0, func(w []float64) {
						h.impl.Dgesvd(jobU, jobVT, m, n, ab.s, ab.ld, sv, ub.s, ub.ld, vtb.s, vtb.ld, w, -1)
					}, ab.s, sv, ub.s, vtb.s)
					cs.exactQuery = false
					if !ok {
						continue
					}
				}
				fastS, fastL := k*k+5*k, k*k+max(m+n, 5*k)
				ldThr := query - k*k + ab.ld*k
				lwork := minwork
				switch lwn {
				case "fast-small-1":
					lwork = fastS - 1
				case "fast-small":
					lwork = fastS
				case "fast-large-1":
					lwork = fastL - 1
				case "fast-large":
					lwork = fastL
				case "fast-large+1":
					lwork = fastL + 1
				case "query":
					lwork = query
				case "lda-1":
					lwork = ldThr - 1
				case "lda":
					lwork = ldThr
				case "lda+1":
					lwork = ldThr + 1
				case "generous":
					lwork = query + ab.ld*max(m, n) + k*k
				case "4xquery":
					lwork = 4 * query
				}
				lwork = max(lwork, minwork)
				if k > 0 {
					h.c.Count("gesvd_reach|"+gesvdPathLayout(m, n, jobU, jobVT, lwork, query, ab.ld), 1)
				}
				work := cs.work(lwork)
				var ok bool
				if !cs.try("Dgesvd", tag, key(svdShape(m, n), "m:"+bucket(m), "n:"+bucket(n), "pad", pad, "lwork", lwn), k > 0, func() {
					ok = h.impl.Dgesvd(jobU, jobVT, m, n, ab.s, ab.ld, sv, ub.s, ub.ld, vtb.s, vtb.ld, work, lwork)
				}) {
					continue
				}
				cs.checkPads("Dgesvd", tag, ab)
				if jobU == lapack.SVDNone {
					cs.checkUnref("Dgesvd", tag, ub)
				} else {
					cs.checkPads("Dgesvd", tag, ub)
				}
				if jobVT == lapack.SVDNone {
					cs.checkUnref("Dgesvd", tag, vtb)
				} else {
					cs.checkPads("Dgesvd", tag, vtb)
				}
				if !ok {
					cs.fail("Dgesvd", tag, "no-convergence", "ok=false on class %s %dx%d", cls, m, n)
					continue
				}
				if !descendingNonNeg(sv) {
					cs.fail("Dgesvd", tag, "singular-values-not-nonnegative-descending", "s=%v", clip(sv))
				}
				if k == 0 {
					continue
				}
				if m == 3 && n == 2 && cls == clRand && jobU == lapack.SVDStore && jobVT == lapack.SVDStore {
					cs.sample("Dgesvd", tag, map[string]any{"m": m, "n": n, "lda": ab.ld, "a": a.D, "lwork": lwork}, map[string]any{"ok": ok, "s": cloneF(sv), "u": ub.get().D, "vt": vtb.get().D})
				}
				ss := scaledVec(sv, s)
				if refS != nil {
					cs.band("Dgesvd", tag, "svd-values-vs-reference", maxDiffVec(ss, scaledVec(refS, s)), fmn*eps*scale, func() string { return fmt.Sprintf("s=%v ref=%v", clip(sv), clip(refS)) })
				}
				good := true
				var u, vt *ref.M
				if jobU != lapack.SVDNone {
					u = ub.get()
					good = cs.band("Dgesvd", tag, "svd-orthogonality", ref.OrthoResid(u), fmn*eps, nil) && good
				}
				if jobVT != lapack.SVDNone {
					vt = vtb.get()
					good = cs.band("Dgesvd", tag, "svd-orthogonality", rowOrthoResid(vt), fmn*eps, nil) && good
				}
				switch {
				case u != nil && vt != nil:
					r := ref.Sub(as, ref.Mul(scaleCols(subCols(u, 0, k), ss), subRows(vt, 0, k)))
					good = cs.band("Dgesvd", tag, "svd-residual", r.MaxAbs(), fmn*eps*scale, nil) && good
					if good && certified == nil {
						certified = sv
					}
				case u != nil:
					uk := subCols(u, 0, k)
					w := ref.Mul(as.T(), uk) // = V S
					r := ref.Mul(w.T(), w)
					for i := 0; i < k; i++ {
						r.D[i*k+i] -= ss[i] * ss[i]
					}
					cs.band("Dgesvd", tag, "svd-one-sided-residual", r.MaxAbs(), fmn*eps*scale*scale, nil)
				case vt != nil:
					vk := subRows(vt, 0, k)
					w := ref.Mul(as, vk.T()) // = U S
					r := ref.Mul(w.T(), w)
					for i := 0; i < k; i++ {
						r.D[i*k+i] -= ss[i] * ss[i]
					}
					cs.band("Dgesvd", tag, "svd-one-sided-residual", r.MaxAbs(), fmn*eps*scale*scale, nil)
				}
				if certified != nil {
					cs.band("Dgesvd", tag, "svd-values-across-options", maxDiffVec(sv, certified)*s, fmn*eps*scale, nil)
				}
			}
		}
	}
}

// checkGesvdOverwrite: the doc comment of Dgesvd (read from the tree under
// test) describes jobU / jobVT == lapack.SVDOverwrite as a working option.
func (h *H) checkGesvdOverwrite(id string, idx int) {
	rng := h.c.RNG("gesvd-overwrite", idx)
	cs := h.newCase(id, rng)
	doc := docComment("dgesvd.go", "Dgesvd")
	claims := strings.Contains(doc, "SVDOverwrite") && strings.Contains(doc, "written into a")
	disclaims := regexp.MustCompile(`(?i)not (yet )?(implemented|coded|supported)`).MatchString(doc)
	for _, sh := range [][2]int{{5, 3}, {3, 5}, {4, 4}, {9, 2}} {
		m, n := sh[0], sh[1]
		k := min(m, n)
		a := general(rng, clRand, m, n)
		refS := h.refSigma(a)
		for _, jobs := range [][2]lapack.SVDJob{{lapack.SVDOverwrite, lapack.SVDNone}, {lapack.SVDNone, lapack.SVDOverwrite}, {lapack.SVDOverwrite, lapack.SVDStore}, {lapack.SVDAll, lapack.SVDOverwrite}} {
			ab := cs.matFrom("a", a, 0)
			sv := cs.vec(k)
			ub, vtb := cs.mat("u", m, m, 0), cs.mat("vt", n, n, 0)
			lwork := 20 * (m + n) * (m + n)
			work := cs.work(lwork)
			var ok bool
			h.c.LastCase(id)
			pn := vrt.Try(func() {
				ok = h.impl.Dgesvd(jobs[0], jobs[1], m, n, ab.s, ab.ld, sv, ub.s, ub.ld, vtb.s, vtb.ld, work, lwork)
			})
			h.count("Dgesvd")
			h.c.Eval("Dgesvd|overwrite|"+svdShape(m, n), true)
			if pn != nil {
				if claims && !disclaims {
					h.c.Violation(sig("Dgesvd", "job=Overwrite", "documented-option-panics"),
						fmt.Sprintf("%s: the doc comment of Dgesvd describes lapack.SVDOverwrite (\"... are written into a\"; \"At most one of jobU and jobVT can equal lapack.SVDOverwrite\") but Dgesvd(%c, %c, %d, %d, ...) panics: %s", id, rune(jobs[0]), rune(jobs[1]), m, n, pn.Msg), cs.replay())
				} else {
					h.c.Count("gesvd_overwrite_documented_as_unsupported", 1)
				}
				continue
			}
			// Implemented: singular values and the factor written into a.
			if !ok || !descendingNonNeg(sv) {
				cs.fail("Dgesvd", "job=Overwrite", "singular-values-not-nonnegative-descending", "ok=%v s=%v", ok, sv)
				continue
			}
			if refS != nil {
				cs.band("Dgesvd", "job=Overwrite", "svd-values-vs-reference", maxDiffVec(sv, refS), float64(max(m, n))*eps*a.NormFro(), nil)
			}
			if jobs[0] == lapack.SVDOverwrite {
				cs.band("Dgesvd", "job=Overwrite", "svd-orthogonality", ref.OrthoResid(ab.sub(m, k)), float64(max(m, n))*eps, nil)
			} else {
				cs.band("Dgesvd", "job=Overwrite", "svd-orthogonality", rowOrthoResid(ab.sub(k, n)), float64(max(m, n))*eps, nil)
			}
		}
	}
}

// gesvdLwClasses are the workspace lengths of a Dgesvd case: on both sides of
// every threshold at which dgesvd.go changes algorithm or workspace layout.
var gesvdLwClasses = []string{"min", "fast-small-1", "fast-small", "fast-large-1", "fast-large", "fast-large+1", "query", "lda-1", "lda", "lda+1", "generous", "4xquery"}

// gesvdClassWanted thins the classes: quick keeps one length per layout
// (slow, fast with ld = k, ld = lda exactly at its threshold, generous);
// thorough runs all of them for shapes beyond mnthr and the thresholds-free
// subset for the others.
func gesvdClassWanted(thorough bool, lwn string, m, n int) bool {
	basic := lwn == "min" || lwn == "fast-large" || lwn == "query" || lwn == "generous"
	if !thorough {
		return basic || lwn == "lda"
	}
	sh := svdShape(m, n)
	if sh == "tall<mnthr" || sh == "wide<mnthr" {
		return basic || lwn == "4xquery"
	}
	return true
}

// gesvdPathLayout names the path of dgesvd.go (by its source comments) and the
// workspace layout selected by lwork, for the reach counters in the evidence.
func gesvdPathLayout(m, n int, jobU, jobVT lapack.SVDJob, lwork, query, lda int) string {
	k := min(m, n)
	sh := svdShape(m, n)
	t := ""
	mine, other := jobU, jobVT
	if m < n {
		t = "t"
		mine, other = jobVT, jobU
	}
	if sh == "tall<mnthr" || sh == "wide<mnthr" {
		return "path=10" + t + "|layout=n/a"
	}
	var path string
	thr := k*k + 5*k
	switch {
	case mine == lapack.SVDNone:
		return "path=1" + t + "|layout=n/a"
	case mine == lapack.SVDStore && other == lapack.SVDNone:
		path = "4"
	case mine == lapack.SVDStore:
		path = "6"
	case other == lapack.SVDNone:
		path, thr = "7", k*k+max(m+n, 5*k)
	default:
		path, thr = "9", k*k+max(m+n, 5*k)
	}
	layout := "slow-algorithm"
	if lwork >= thr {
		layout = "fast-ldwork=k"
		if lwork >= query-k*k+lda*k {
			layout = "fast-ldwork=lda"
		}
	}
	return "path=" + path + t + "|layout=" + layout
}

// svdShape names the shape class that selects the Dgesvd path family.
func svdShape(m, n int) string {
	k := min(m, n)
	mnthr := int(float64(k) * 1.6)
	switch {
	case m >= n && m >= mnthr:
		return "tall>=mnthr"
	case m >= n:
		return "tall<mnthr"
	case n >= mnthr:
		return "wide>=mnthr"
	}
	return "wide<mnthr"
}

func (h *H) planSVD(add addFn) {
	idx := 0
	add("gesvd", 1000, func() { h.checkGesvdOverwrite("gesvd overwrite doc #0", 0) })
	shapes := [][2]int{{0, 0}, {0, 3}, {3, 0}, {1, 1}, {1, 4}, {4, 1}, {2, 2}, {3, 3}, {3, 2}, {2, 3}, {5, 5}, {7, 5}, {5, 7}, {8, 5}, {5, 8}, {12, 4}, {4, 12},
		{16, 16}, {17, 11}, {11, 17}, {40, 8}, {8, 40}, {33, 32}, {32, 33}, {50, 31}, {31, 50}, {60, 20}, {20, 60}, {75, 75}}
	big := [][2]int{{140, 131}, {131, 140}, {215, 132}, {132, 215}}
	reps := 2
	if h.thorough() {
		shapes = append(shapes, [][2]int{{4, 4}, {10, 10}, {11, 11}, {12, 12}, {14, 15}, {15, 14}, {31, 31}, {32, 32}, {33, 33}, {49, 50}, {50, 49}, {74, 76}, {76, 74}, {100, 100}, {170, 100}, {100, 170}, {150, 149}, {149, 150}}...)
		big = append(big, [][2]int{{150, 150}, {130, 129}, {129, 130}, {260, 130}}...)
		reps = 2
	}
	for rep := 0; rep < reps; rep++ {
		for si, sh := range shapes {
			m, n := sh[0], sh[1]
			for ci, cls := range generalClasses {
				if !h.thorough() && (si+ci)%2 != 0 && max(m, n) > 34 {
					continue
				}
				idx++
				i, cls := idx, cls
				add("gebrd", m*n*max(m, n), func() { h.checkGebrd(fmt.Sprintf("gebrd %dx%d class=%s #%d", m, n, cls, i), i, m, n, cls) })
				add("gesvd", 20*m*n*max(m, n), func() { h.checkGesvd(fmt.Sprintf("gesvd %dx%d class=%s #%d", m, n, cls, i), i, m, n, cls) })
			}
			if k := min(m, n); k >= 2 {
				for _, nb := range []int{1, 2, min(k-1, 6), min(k-1, 32)} {
					if nb < 1 || nb >= k {
						continue
					}
					idx++
					i, nb := idx, nb
					cls := generalClasses[(si+nb)%3]
					add("labrd", m*n*max(m, n), func() {
						h.checkLabrd(fmt.Sprintf("labrd %dx%d nb=%d class=%s #%d", m, n, nb, cls, i), i, m, n, nb, cls)
					})
				}
			}
		}
		// Blocked reductions (nx = 128): a few large shapes.
		for si, sh := range big {
			m, n := sh[0], sh[1]
			for ci, cls := range []string{clRand, clGraded, clRankDef, clHuge} {
				if !h.thorough() && (si+ci)%4 != 0 {
					continue
				}
				idx++
				i, cls := idx, cls
				add("gebrd", m*n*max(m, n), func() { h.checkGebrd(fmt.Sprintf("gebrd %dx%d class=%s #%d", m, n, cls, i), i, m, n, cls) })
				add("gesvd", 20*m*n*max(m, n), func() { h.checkGesvd(fmt.Sprintf("gesvd %dx%d class=%s #%d", m, n, cls, i), i, m, n, cls) })
			}
		}
		sizes := []int{0, 1, 2, 3, 4, 5, 10, 16, 31, 32, 33, 50, 75}
		if h.thorough() {
			sizes = []int{0, 1, 2, 3, 4, 5, 10, 11, 12, 14, 15, 16, 31, 32, 33, 49, 50, 74, 75, 76, 100, 150}
		}
		for si, n := range sizes {
			for ci, cls := range bidiagClasses {
				if !h.thorough() && (si+ci)%2 != 0 && n > 34 {
					continue
				}
				idx++
				i, n, cls := idx, n, cls
				add("bdsqr", 10*n*n*n, func() { h.checkBdsqr(fmt.Sprintf("bdsqr n=%d class=%s #%d", n, cls, i), i, n, cls) })
			}
		}
	}
}
