package main

// limits holds the calibrated tolerance constants: a check named X passes
// while value <= limits[X] * denominator, the denominator being the
// (dimension * u * scale) expression stated at the call site (u = 2^-53).
//
// Calibration: largest ratio observed on the current tree over VERIF_SEED in
// {1,2,3,7,42}, both tiers; each limit is >= 100 x that maximum (comment:
// observed maximum). The maxima of every run are written to the evidence
// (notes.band_max_ratio). Realistic breaks give ratios of 1e10 and more.
var limits = map[string]float64{
	"sym-orthogonality":                   1000,  // 9
	"sym-residual":                        1000,  // 8.93
	"sym-values-vs-reference":             1000,  // 5.67
	"sym-values-with-vs-without-vectors":  500,   // 3.36
	"sytrd-reflector-orthogonality":       500,   // 3
	"sytrd-reduction-residual":            500,   // 1.51
	"orgtr-matches-reflector-product":     500,   // 1
	"latrd-reduced-columns":               500,   // 1.23
	"latrd-update-matches-similarity":     500,   // 0.837
	"gebrd-reflector-orthogonality":       500,   // 3
	"gebrd-reduction-residual":            500,   // 1.97
	"gebrd-singular-values-preserved":     1000,  // 8.62
	"orgbr-matches-reflector-product":     500,   // 1
	"ormbr-matches-reflector-product":     500,   // 2
	"labrd-reduced-rows-and-columns":      500,   // 2.16
	"labrd-update-matches-transformation": 500,   // 0.574
	"svd-values-vs-reference":             1000,  // 6.29
	"svd-orthogonality":                   2000,  // 16
	"svd-residual":                        2000,  // 15.1
	"svd-one-sided-residual":              5000,  // 33.3
	"svd-values-across-options":           500,   // 2.33
	"bdsqr-c-gram-preserved":              1000,  // 5.91
	"bdsqr-c-consistent-with-u":           500,   // 2
	"gehrd-reflector-orthogonality":       500,   // 2.67
	"gehrd-reduction-residual":            500,   // 1.06
	"orghr-matches-reflector-product":     500,   // 0.6
	"ormhr-matches-reflector-product":     500,   // 1.6
	"eig-trace":                           500,   // 2.88
	"eig-trace-of-square":                 1000,  // 7.47
	"eig-backward-error":                  20000, // 189
	"schur-vectors-orthogonality":         2000,  // 16.5
	"schur-residual":                      2000,  // 17.6
	"similarity-norm-of-square":           2000,  // 19.6
	"similarity-departure-from-normality": 2000,  // 14.2
	"similarity-singular-values":          2000,  // 10.6
	"schur-norm-preserved":                1000,  // 9.97
	"eigvec-unit-norm":                    500,   // 1.5
	"eigvec-right-residual":               500,   // 3.7
	"eigvec-left-residual":                500,   // 3.8
	"eig-values-with-vs-without-vectors":  500,   // 0.00922
	"trevc-right-residual":                1000,  // 8.57
	"trevc-left-residual":                 1000,  // 8.57
	"trevc-normalisation":                 500,   // 1
	"trexc-similarity-residual":           500,   // 2.18
	"gebal-similarity-residual":           500,   // 0
	"lanv2-rotation-orthogonal":           1000,  // 8
	"lanv2-factorisation-residual":        2000,  // 12
	"gsvd-orthogonality":                  2000,  // 16
	"gsvp-a-residual":                     1000,  // 5.58
	"gsvp-b-residual":                     500,   // 3.93
	"gsvp-a-gram-residual":                500,   // 2.21
	"gsvp-b-gram-residual":                500,   // 2.5
	"gsvp-norm-preserved":                 500,   // 2.75
	"gsvd-a-residual":                     2000,  // 16.2
	"gsvd-b-residual":                     5000,  // 20.1
	"gsvd-a-gram-residual":                500,   // 3.95
	"gsvd-b-gram-residual":                2000,  // 15.8
	"gsvd-values-across-options":          500,   // 0
	"gghrd-orthogonality":                 1000,  // 8.5
	"gghrd-a-residual":                    2000,  // 16
	"gghrd-b-residual":                    2000,  // 16.6
	"gghrd-norm-preserved":                500,   // 1.37
	"lartg-rotation-orthogonal":           500,   // 5
	"lartg-annihilates":                   500,   // 4.24
	"las2-determinant":                    500,   // 3.96 (cases whose smaller singular value is in the underflow range are excluded)
	"las2-frobenius":                      1000,  // 8.31
	"lasv2-rotations-orthogonal":          2000,  // 12
	"lasv2-diagonalises":                  2000,  // 12
	"lasv2-agrees-with-las2":              1000,  // 5.97
	"laev2-trace":                         1000,  // 7.37
	"laev2-eigenvector-unit":              500,   // 4
	"laev2-eigenvector-residual":          1000,  // 5.95
	"lae2-agrees-with-laev2":              500,   // 0
	"lasr-matches-plane-rotations":        500,   // 0
	"lasy2-residual":                      500,   // 2.21
	"lasy2-xnorm":                         500,   // 0
	"laln2-residual":                      500,   // 2.97
	"laln2-perturbed-solution":            500,   // 2
	"laln2-xnorm":                         500,   // 3.89
	"lag2-determinant-vanishes":           500,   // 2.19
	"sweep-similarity-residual":           2000,  // 14.2
	"lahr2-t-matches-reflector-product":   500,   // 0.5
	"lahr2-y-equals-a-v-t":                500,   // 0.253
	"lahr2-reduced-columns":               500,   // 0.728
}
