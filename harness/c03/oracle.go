package main

import (
	"math"
	"math/cmplx"
	"sort"

	"gonum.org/v1/gonum/verifx/ref"
)

// All arithmetic in this file is done by package ref or by plain loops; no
// gonum routine is called from an oracle.

// rightMulReflector computes q := q * (I - tau v vᵀ).
func rightMulReflector(q *ref.M, v []float64, tau float64) {
	if tau == 0 {
		return
	}
	n := q.C
	for i := 0; i < q.R; i++ {
		var s float64
		row := q.D[i*n : i*n+n]
		for j, vj := range v {
			if vj != 0 {
				s += row[j] * vj
			}
		}
		s *= tau
		if s == 0 {
			continue
		}
		for j, vj := range v {
			if vj != 0 {
				row[j] -= s * vj
			}
		}
	}
}

// qFromSytrd forms the orthogonal Q of Dsytrd / Dsytd2 from the reflectors
// stored in f (n x n, as returned) and tau, following the doc comment of
// Dsytrd:
//
//	Upper: Q = H_{n-2} ... H_1 H_0, v[i+1:n] = 0, v[i] = 1, v[0:i] stored in A[0:i, i+1]
//	Lower: Q = H_0 H_1 ... H_{n-2}, v[0:i+1] = 0, v[i+1] = 1, v[i+2:n] stored in A[i+2:n, i]
func qFromSytrd(upper bool, f *ref.M, tau []float64) *ref.M {
	n := f.R
	q := ref.Eye(n)
	if upper {
		for i := n - 2; i >= 0; i-- {
			v := make([]float64, n)
			v[i] = 1
			for r := 0; r < i; r++ {
				v[r] = f.D[r*n+i+1]
			}
			rightMulReflector(q, v, tau[i])
		}
		return q
	}
	for i := 0; i < n-1; i++ {
		v := make([]float64, n)
		v[i+1] = 1
		for r := i + 2; r < n; r++ {
			v[r] = f.D[r*n+i]
		}
		rightMulReflector(q, v, tau[i])
	}
	return q
}

// tridiag builds the symmetric tridiagonal matrix with diagonal d and
// off-diagonal e.
func tridiag(d, e []float64) *ref.M {
	n := len(d)
	t := ref.New(n, n)
	for i := 0; i < n; i++ {
		t.D[i*n+i] = d[i]
		if i+1 < n {
			t.D[i*n+i+1] = e[i]
			t.D[(i+1)*n+i] = e[i]
		}
	}
	return t
}

// bidiag builds the k x k bidiagonal matrix (upper: e on the superdiagonal).
func bidiag(upper bool, d, e []float64) *ref.M {
	n := len(d)
	b := ref.New(n, n)
	for i := 0; i < n; i++ {
		b.D[i*n+i] = d[i]
		if i+1 < n {
			if upper {
				b.D[i*n+i+1] = e[i]
			} else {
				b.D[(i+1)*n+i] = e[i]
			}
		}
	}
	return b
}

// qpFromGebrd forms the full orthogonal Q (m x m) and P (n x n) of Dgebrd /
// Dgebd2 from the m x n array f as returned, following the doc comment and
// storage figures of Dgebrd:
//
//	m >= n: Q = H_0 ... H_{n-1}, v[0:i] = 0, v[i] = 1, v[i+1:m] = A[i+1:m, i]
//	        P = G_0 ... G_{n-2}, u[0:i+1] = 0, u[i+1] = 1, u[i+2:n] = A[i, i+2:n]
//	m <  n: Q = H_0 ... H_{m-2}, v[0:i+1] = 0, v[i+1] = 1, v[i+2:m] = A[i+2:m, i]
//	        P = G_0 ... G_{m-1}, u[0:i] = 0, u[i] = 1, u[i+1:n] = A[i, i+1:n]
//
// nq and np limit the number of reflectors used (Dlabrd: nb).
func qpFromGebrd(f *ref.M, tauQ, tauP []float64, nq, np int) (q, p *ref.M) {
	m, n := f.R, f.C
	q, p = ref.Eye(m), ref.Eye(n)
	if m >= n {
		for i := 0; i < nq; i++ {
			v := make([]float64, m)
			v[i] = 1
			for r := i + 1; r < m; r++ {
				v[r] = f.D[r*n+i]
			}
			rightMulReflector(q, v, tauQ[i])
		}
		for i := 0; i < np; i++ {
			if i+1 >= n {
				break
			}
			u := make([]float64, n)
			u[i+1] = 1
			for c := i + 2; c < n; c++ {
				u[c] = f.D[i*n+c]
			}
			rightMulReflector(p, u, tauP[i])
		}
		return q, p
	}
	for i := 0; i < nq; i++ {
		if i+1 >= m {
			break
		}
		v := make([]float64, m)
		v[i+1] = 1
		for r := i + 2; r < m; r++ {
			v[r] = f.D[r*n+i]
		}
		rightMulReflector(q, v, tauQ[i])
	}
	for i := 0; i < np; i++ {
		u := make([]float64, n)
		u[i] = 1
		for c := i + 1; c < n; c++ {
			u[c] = f.D[i*n+c]
		}
		rightMulReflector(p, u, tauP[i])
	}
	return q, p
}

// qFromGehrd forms Q = H_ilo ... H_{ihi-1} following the doc comment of
// Dgehrd: v[0:i+1] = 0, v[i+1] = 1, v[i+2:ihi+1] = A[i+2:ihi+1, i], v[ihi+1:n] = 0.
func qFromGehrd(f *ref.M, tau []float64, ilo, ihi int) *ref.M {
	n := f.R
	q := ref.Eye(n)
	for i := ilo; i < ihi; i++ {
		v := make([]float64, n)
		v[i+1] = 1
		for r := i + 2; r <= ihi; r++ {
			v[r] = f.D[r*n+i]
		}
		rightMulReflector(q, v, tau[i])
	}
	return q
}

// hessPart returns the upper Hessenberg part of f (entries below the first
// subdiagonal zeroed).
func hessPart(f *ref.M) *ref.M {
	n := f.R
	h := ref.New(n, n)
	for i := 0; i < n; i++ {
		for j := max(0, i-1); j < n; j++ {
			h.D[i*n+j] = f.D[i*n+j]
		}
	}
	return h
}

// belowSubdiagMax returns the largest |a_ij| with i > j+1 (NaN counts as Inf).
func belowSubdiagMax(a *ref.M) float64 {
	var mx float64
	for i := 2; i < a.R; i++ {
		for j := 0; j < i-1 && j < a.C; j++ {
			v := math.Abs(a.D[i*a.C+j])
			if math.IsNaN(v) {
				return math.Inf(1)
			}
			mx = math.Max(mx, v)
		}
	}
	return mx
}

// rowOrthoResid returns max |(Q Qᵀ - I)_ij| for the rows of q.
func rowOrthoResid(q *ref.M) float64 { return ref.OrthoResid(q.T()) }

// diagMat returns the r x c matrix with s on its diagonal.
func diagMat(r, c int, s []float64) *ref.M {
	d := ref.New(r, c)
	for i := 0; i < len(s) && i < r && i < c; i++ {
		d.D[i*c+i] = s[i]
	}
	return d
}

// scaleCols returns a with column j multiplied by s[j] (j < len(s)).
func scaleCols(a *ref.M, s []float64) *ref.M {
	b := a.Clone()
	for i := 0; i < a.R; i++ {
		for j := 0; j < a.C && j < len(s); j++ {
			b.D[i*a.C+j] *= s[j]
		}
	}
	return b
}

func subCols(a *ref.M, c0, c1 int) *ref.M {
	return ref.FromFunc(a.R, c1-c0, func(i, j int) float64 { return a.D[i*a.C+c0+j] })
}

func subRows(a *ref.M, r0, r1 int) *ref.M {
	return ref.FromFunc(r1-r0, a.C, func(i, j int) float64 { return a.D[(r0+i)*a.C+j] })
}

func subMat(a *ref.M, r0, r1, c0, c1 int) *ref.M {
	return ref.FromFunc(r1-r0, c1-c0, func(i, j int) float64 { return a.D[(r0+i)*a.C+c0+j] })
}

// ascending / descending report order violations (NaN is a violation).
func ascending(x []float64) bool {
	for i := range x {
		if math.IsNaN(x[i]) || (i > 0 && x[i] < x[i-1]) {
			return false
		}
	}
	return true
}

func descendingNonNeg(x []float64) bool {
	for i := range x {
		if math.IsNaN(x[i]) || x[i] < 0 || math.Signbit(x[i]) && x[i] != 0 || (i > 0 && x[i] > x[i-1]) {
			return false
		}
	}
	return true
}

// maxDiffVec returns max |x_i - y_i| (Inf on NaN or length mismatch).
func maxDiffVec(x, y []float64) float64 {
	if len(x) != len(y) {
		return math.Inf(1)
	}
	var mx float64
	for i := range x {
		d := math.Abs(x[i] - y[i])
		if math.IsNaN(d) {
			return math.Inf(1)
		}
		mx = math.Max(mx, d)
	}
	return mx
}

func sortedCopy(x []float64, desc bool) []float64 {
	y := append([]float64(nil), x...)
	sort.Float64s(y)
	if desc {
		for i, j := 0, len(y)-1; i < j; i, j = i+1, j-1 {
			y[i], y[j] = y[j], y[i]
		}
	}
	return y
}

// ---- nonsymmetric eigenvalue oracles ------------------------------------------

// cLU factors the complex matrix m (n x n, row major) in place with partial
// pivoting; exactly zero pivots are replaced by tiny.
func cLU(m []complex128, n int, tiny float64) []int {
	piv := make([]int, n)
	for k := 0; k < n; k++ {
		p, mx := k, cmplx.Abs(m[k*n+k])
		for i := k + 1; i < n; i++ {
			if v := cmplx.Abs(m[i*n+k]); v > mx {
				p, mx = i, v
			}
		}
		piv[k] = p
		if p != k {
			for j := 0; j < n; j++ {
				m[k*n+j], m[p*n+j] = m[p*n+j], m[k*n+j]
			}
		}
		if mx == 0 {
			m[k*n+k] = complex(tiny, 0)
		}
		d := m[k*n+k]
		for i := k + 1; i < n; i++ {
			l := m[i*n+k] / d
			m[i*n+k] = l
			if l == 0 {
				continue
			}
			for j := k + 1; j < n; j++ {
				m[i*n+j] -= l * m[k*n+j]
			}
		}
	}
	return piv
}

// cSolve solves M x = b given the LU factors (conjTrans: Mᴴ x = b) up to a
// positive scalar factor: whenever an entry exceeds 1e150 in magnitude the
// whole vector (computed part and remaining right-hand side) is scaled down,
// so nearly singular systems do not overflow. Only the direction of x is used
// by the caller.
func cSolve(lu []complex128, piv []int, n int, b []complex128, conjTrans bool) []complex128 {
	x := append([]complex128(nil), b...)
	tame := func(i int) {
		if a := cmplx.Abs(x[i]); a > 1e150 || math.IsInf(a, 0) {
			for k := range x {
				x[k] *= 1e-150
			}
		}
	}
	if !conjTrans {
		for k := 0; k < n; k++ {
			if p := piv[k]; p != k {
				x[k], x[p] = x[p], x[k]
			}
		}
		for i := 0; i < n; i++ {
			s := x[i]
			for k := 0; k < i; k++ {
				s -= lu[i*n+k] * x[k]
			}
			x[i] = s
			tame(i)
		}
		for i := n - 1; i >= 0; i-- {
			s := x[i]
			for k := i + 1; k < n; k++ {
				s -= lu[i*n+k] * x[k]
			}
			x[i] = s / lu[i*n+i]
			tame(i)
		}
		return x
	}
	// P M = L U, hence Mᴴ = Uᴴ Lᴴ P: solve Uᴴ y = b, Lᴴ z = y, x = Pᵀ z.
	for i := 0; i < n; i++ {
		s := x[i]
		for k := 0; k < i; k++ {
			s -= cmplx.Conj(lu[k*n+i]) * x[k]
		}
		x[i] = s / cmplx.Conj(lu[i*n+i])
		tame(i)
	}
	for i := n - 1; i >= 0; i-- {
		s := x[i]
		for k := i + 1; k < n; k++ {
			s -= cmplx.Conj(lu[k*n+i]) * x[k]
		}
		x[i] = s
		tame(i)
	}
	for k := n - 1; k >= 0; k-- {
		if p := piv[k]; p != k {
			x[k], x[p] = x[p], x[k]
		}
	}
	return x
}

func cNorm(x []complex128) float64 {
	var mx float64
	for _, v := range x {
		mx = math.Max(mx, cmplx.Abs(v))
	}
	if mx == 0 || math.IsInf(mx, 0) || math.IsNaN(mx) {
		return mx
	}
	var s float64
	for _, v := range x {
		t := cmplx.Abs(v) / mx
		s += t * t
	}
	return mx * math.Sqrt(s)
}

// eigBackwardError returns an upper bound for sigma_min(A - lambda I): the
// residual ||(A - lambda I) x|| / ||x|| of a vector x obtained by inverse
// iteration (any x gives a rigorous upper bound up to the rounding of the
// residual evaluation). If that bound exceeds accept, the exact value is
// computed by the reference Jacobi SVD of the real 2n x 2n embedding
// [[A-aI, bI], [-bI, A-aI]], whose singular values are those of A - lambda I,
// each twice.
func eigBackwardError(a *ref.M, wr, wi, accept float64) float64 {
	n := a.R
	if n == 0 {
		return 0
	}
	lam := complex(wr, wi)
	build := func() []complex128 {
		m := make([]complex128, n*n)
		for i := 0; i < n; i++ {
			for j := 0; j < n; j++ {
				m[i*n+j] = complex(a.D[i*n+j], 0)
			}
			m[i*n+i] -= lam
		}
		return m
	}
	m0 := build()
	resid := func(x []complex128) float64 {
		nx := cNorm(x)
		if nx == 0 || math.IsNaN(nx) || math.IsInf(nx, 0) {
			return math.Inf(1)
		}
		r := make([]complex128, n)
		for i := 0; i < n; i++ {
			var s complex128
			for j := 0; j < n; j++ {
				s += m0[i*n+j] * (x[j] / complex(nx, 0))
			}
			r[i] = s
		}
		return cNorm(r)
	}
	anorm := a.NormFro() + math.Hypot(wr, wi)
	lu := build()
	piv := cLU(lu, n, math.Max(anorm*eps*0.01, 1e-200))
	b := make([]complex128, n)
	for i := range b {
		// Fixed pseudo-random start vector.
		b[i] = complex(math.Sin(float64(3*i+1)), math.Cos(float64(7*i+2)))
	}
	normalize := func(x []complex128) {
		nx := cNorm(x)
		if nx > 0 && !math.IsInf(nx, 0) {
			for i := range x {
				x[i] /= complex(nx, 0)
			}
		}
	}
	x := cSolve(lu, piv, n, b, false)
	best := resid(x)
	for it := 0; it < 2 && !(best <= accept); it++ {
		normalize(x)
		y := cSolve(lu, piv, n, x, true)
		normalize(y)
		x = cSolve(lu, piv, n, y, false)
		if r := resid(x); r < best || math.IsNaN(best) {
			best = r
		}
	}
	if best <= accept {
		return best
	}
	// Rigorous value.
	if wi == 0 {
		e := a.Clone()
		for i := 0; i < n; i++ {
			e.D[i*n+i] -= wr
		}
		sv := ref.SingularValues(e)
		return math.Min(best, sv[len(sv)-1])
	}
	e := ref.New(2*n, 2*n)
	for i := 0; i < n; i++ {
		for j := 0; j < n; j++ {
			v := a.D[i*n+j]
			if i == j {
				v -= wr
			}
			e.D[i*2*n+j] = v
			e.D[(n+i)*2*n+n+j] = v
		}
		e.D[i*2*n+n+i] = wi
		e.D[(n+i)*2*n+i] = -wi
	}
	s := ref.SingularValues(e)
	return math.Min(best, s[len(s)-1])
}

// schurForm checks that t is upper quasi-triangular in Schur canonical form
// (Dhseqr / Dtrexc docs): zero below the first subdiagonal, no two consecutive
// nonzero subdiagonal entries, each 2x2 block with equal diagonal entries and
// off-diagonal entries of opposite sign. It returns the eigenvalues read off
// the blocks and a description of the first defect ("" if none).
func schurForm(t *ref.M) (wr, wi []float64, defect string) {
	n := t.R
	wr, wi = make([]float64, n), make([]float64, n)
	for i := 0; i < n; i++ {
		for j := 0; j < i-1; j++ {
			if t.D[i*n+j] != 0 {
				return wr, wi, "nonzero-below-subdiagonal"
			}
		}
	}
	for i := 0; i < n; {
		if i+1 < n && t.D[(i+1)*n+i] != 0 {
			if i+2 < n && t.D[(i+2)*n+i+1] != 0 {
				return wr, wi, "consecutive-subdiagonal-entries"
			}
			a, b, c, d := t.D[i*n+i], t.D[i*n+i+1], t.D[(i+1)*n+i], t.D[(i+1)*n+i+1]
			if a != d {
				return wr, wi, "2x2-block-diagonal-not-equal"
			}
			if !(b*c < 0) {
				// b*c may underflow to -0/0 for tiny entries: judge the signs.
				if !(b != 0 && c != 0 && math.Signbit(b) != math.Signbit(c)) {
					return wr, wi, "2x2-block-offdiagonal-same-sign"
				}
			}
			wr[i], wr[i+1] = a, a
			im := math.Sqrt(math.Abs(b)) * math.Sqrt(math.Abs(c))
			wi[i], wi[i+1] = im, -im
			i += 2
			continue
		}
		wr[i] = t.D[i*n+i]
		i++
	}
	return wr, wi, ""
}

// pairOrder checks the documented order of complex eigenvalues: conjugate
// pairs adjacent, positive imaginary part first, equal real parts.
func pairOrder(wr, wi []float64) string {
	n := len(wr)
	for i := 0; i < n; {
		if math.IsNaN(wr[i]) || math.IsNaN(wi[i]) {
			return "nan-eigenvalue"
		}
		if wi[i] == 0 {
			i++
			continue
		}
		if wi[i] < 0 {
			return "negative-imaginary-part-first"
		}
		if i+1 >= n || wi[i+1] != -wi[i] || wr[i+1] != wr[i] {
			return "pair-not-adjacent-conjugate"
		}
		i += 2
	}
	return ""
}

// matchEigs returns the largest distance in a greedy nearest-neighbour
// matching of two eigenvalue multisets.
func matchEigs(wr1, wi1, wr2, wi2 []float64) float64 {
	n := len(wr1)
	if len(wr2) != n {
		return math.Inf(1)
	}
	used := make([]bool, n)
	var worst float64
	for i := 0; i < n; i++ {
		best, bj := math.Inf(1), -1
		for j := 0; j < n; j++ {
			if used[j] {
				continue
			}
			d := math.Hypot(wr1[i]-wr2[j], wi1[i]-wi2[j])
			if d < best || bj < 0 {
				best, bj = d, j
			}
		}
		if bj < 0 || math.IsNaN(best) {
			return math.Inf(1)
		}
		used[bj] = true
		worst = math.Max(worst, best)
	}
	return worst
}

// traces returns tr(A) and tr(A²).
func traces(a *ref.M) (t1, t2 float64) {
	n := a.R
	for i := 0; i < n; i++ {
		t1 += a.D[i*n+i]
		for j := 0; j < n; j++ {
			t2 += a.D[i*n+j] * a.D[j*n+i]
		}
	}
	return
}

// eigSums returns Σλ and Σλ² (real parts; the imaginary parts cancel for
// conjugate pairs).
func eigSums(wr, wi []float64) (s1, s2 float64) {
	for i := range wr {
		s1 += wr[i]
		s2 += wr[i]*wr[i] - wi[i]*wi[i]
	}
	return
}

func frob(x ...float64) float64 {
	var s float64
	for _, v := range x {
		s = math.Hypot(s, v)
	}
	return s
}

// applyRot computes the product of a Dlasr rotation sequence with a, from its
// doc comment, by explicit plane rotations. side: 'L' (A = P A) or 'R' (A = A Pᵀ);
// pivot: 'V', 'T', 'B'; forward: P = P(z-1) ... P(1) P(0), backward: P = P(0) P(1) ... P(z-1).
func applyRot(side, pivot byte, forward bool, a *ref.M, c, s []float64) *ref.M {
	b := a.Clone()
	m, n := a.R, a.C
	z := m
	if side == 'R' {
		z = n
	}
	plane := func(k int) (int, int) {
		switch pivot {
		case 'V':
			return k, k + 1
		case 'T':
			return 0, k + 1
		}
		return k, z - 1
	}
	// rotate applies P(k) from the left or P(k)ᵀ from the right.
	rotate := func(k int) {
		p, q := plane(k)
		ck, sk := c[k], s[k]
		if side == 'L' {
			for j := 0; j < n; j++ {
				x, y := b.D[p*n+j], b.D[q*n+j]
				b.D[p*n+j] = ck*x + sk*y
				b.D[q*n+j] = -sk*x + ck*y
			}
			return
		}
		for i := 0; i < m; i++ {
			x, y := b.D[i*n+p], b.D[i*n+q]
			b.D[i*n+p] = ck*x + sk*y
			b.D[i*n+q] = -sk*x + ck*y
		}
	}
	// Left: A = P A. forward P = P(z-2)...P(0): apply P(0) first.
	// Right: A = A Pᵀ. forward Pᵀ = P(0)ᵀ ... P(z-2)ᵀ: apply P(0)ᵀ first as well.
	if forward {
		for k := 0; k < z-1; k++ {
			rotate(k)
		}
	} else {
		for k := z - 2; k >= 0; k-- {
			rotate(k)
		}
	}
	return b
}
