package main

import (
	"fmt"
	"math"

	"gonum.org/v1/gonum/lapack"
	"gonum.org/v1/gonum/verifx/ref"
	"gonum.org/v1/gonum/verifx/vrt"
)

// ---- routines on Schur forms: Dtrevc3, Dtrexc, Dlaexc; balancing; Dlanv2 ----------------

const (
	scMixed     = "mixed"      // 1x1 and 2x2 blocks at random positions
	scReal      = "allreal"    // upper triangular
	scComplex   = "allcomplex" // 2x2 blocks only (plus one 1x1 for odd n)
	scRepeated  = "repeated"   // repeated diagonal entries (nearly singular triangular solves)
	scGraded    = "graded"
	scHuge      = "huge"
	scTiny      = "tiny"
	scSeparated = "separated" // well separated eigenvalues, small off-diagonal part (near normal)
	// scNegligible: every diagonal block is [1 e; -e 1] with e = 2^-70: equal
	// complex pairs with negligible imaginary part (as the QR algorithm leaves
	// them for a multiple real eigenvalue); the 2x2 complex systems solved by
	// Dtrevc3 are then below its singularity threshold smin.
	scNegligible = "repeated-2x2-blocks-with-negligible-offdiagonals"
)

var schurClasses = []string{scMixed, scReal, scComplex, scRepeated, scGraded, scSeparated, scHuge, scTiny}

// schurGen builds an upper quasi-triangular matrix in Schur canonical form:
// 2x2 blocks [a b; c a] with b*c < 0.
func schurGen(r *vrt.Rand, cls string, n int) *ref.M {
	t := ref.New(n, n)
	off := 0.5
	if cls == scSeparated {
		off = 0.05
	}
	for i := 0; i < n; i++ {
		for j := i + 1; j < n; j++ {
			t.D[i*n+j] = off * r.Sym()
		}
	}
	perm := r.Perm(n)
	for i := 0; i < n; {
		two := false
		switch cls {
		case scReal, scRepeated:
		case scComplex, scNegligible:
			two = i+1 < n
		default:
			two = i+1 < n && r.Intn(3) == 0
		}
		var d float64
		switch cls {
		case scRepeated:
			d = float64(i % 2)
		case scNegligible:
			d = 1
		case scSeparated:
			d = 0.5 * float64(perm[i]-n/2)
		default:
			d = 2 * r.Sym()
		}
		if two {
			b := r.Uniform(0.2, 1.5)
			c := -r.Uniform(0.2, 1.5)
			if cls == scSeparated {
				b, c = 0.2, -0.2*(1+0.1*float64(perm[i]))
			}
			if cls == scNegligible {
				b, c = math.Ldexp(1, -70), -math.Ldexp(1, -70)
			}
			if r.Bool() {
				b, c = -b, -c
			}
			t.D[i*n+i], t.D[i*n+i+1], t.D[(i+1)*n+i], t.D[(i+1)*n+i+1] = d, b, c, d
			i += 2
			continue
		}
		t.D[i*n+i] = d
		i++
	}
	switch cls {
	case scGraded:
		// D T D⁻¹ with D = diag(2^(g i)) keeps the canonical form.
		g := 30.0 / float64(max(1, n))
		for i := 0; i < n; i++ {
			for j := 0; j < n; j++ {
				t.D[i*n+j] = math.Ldexp(t.D[i*n+j], int(g*float64(j-i)))
			}
		}
	case scHuge:
		scaleBy(t, math.Ldexp(1, 500))
	case scTiny:
		scaleBy(t, math.Ldexp(1, -500))
	}
	return t
}

// blockStarts returns, for every row, the first row of its diagonal block.
func blockStarts(t *ref.M) []int {
	n := t.R
	st := make([]int, n)
	for i := 0; i < n; {
		if i+1 < n && t.D[(i+1)*n+i] != 0 {
			st[i], st[i+1] = i, i
			i += 2
			continue
		}
		st[i] = i
		i++
	}
	return st
}

// trevcVecCheck judges m eigenvectors in the columns of v (n x m, LAPACK
// storage) of the matrix a for the eigenvalues (wr, wi) listed per stored
// column. normOne: the element of largest magnitude |x|+|y| must be 1.
func (cs *Case) trevcVecCheck(routine, tag string, a, v *ref.M, wr, wi []float64, m int, left, normOne bool) {
	n := a.R
	s := pow2Scale(a.MaxAbs())
	as := scaled(a, s)
	if left {
		as = as.T()
	}
	scale := as.NormFro()
	fn := float64(n)
	var worstRes, worstNorm float64
	vc := v.C
	for j := 0; j < m; {
		lr, li := wr[j]*s, wi[j]*s
		cplx := wi[j] != 0
		if cplx && j+1 >= m {
			cs.fail(routine, tag, "complex-eigenvector-truncated", "column %d", j)
			return
		}
		if left {
			li = -li
		}
		xr, xi := make([]float64, n), make([]float64, n)
		var big float64
		for i := 0; i < n; i++ {
			xr[i] = v.D[i*vc+j]
			if cplx {
				xi[i] = v.D[i*vc+j+1]
			}
			big = math.Max(big, math.Abs(xr[i])+math.Abs(xi[i]))
			if math.IsNaN(xr[i]) || math.IsNaN(xi[i]) {
				big = math.Inf(1)
			}
		}
		var res float64
		for i := 0; i < n; i++ {
			var sr, si float64
			for k := 0; k < n; k++ {
				sr += as.D[i*n+k] * xr[k]
				si += as.D[i*n+k] * xi[k]
			}
			res = math.Max(res, math.Abs(sr-(lr*xr[i]-li*xi[i]))+math.Abs(si-(lr*xi[i]+li*xr[i])))
		}
		if math.IsNaN(res) || math.IsInf(big, 0) {
			res = math.Inf(1)
		}
		if big > 0 {
			worstRes = math.Max(worstRes, res/big)
		} else {
			worstRes = math.Inf(1) // a zero vector is not an eigenvector
		}
		worstNorm = math.Max(worstNorm, math.Abs(big-1))
		if cplx {
			j += 2
		} else {
			j++
		}
	}
	name := "trevc-right-residual"
	if left {
		name = "trevc-left-residual"
	}
	cs.band(routine, tag, name, worstRes, fn*eps*scale, nil)
	if normOne {
		cs.band(routine, tag, "trevc-normalisation", worstNorm, fn*eps, nil)
	}
}

func (h *H) checkTrevc3(id string, idx, n int, cls string) {
	rng := h.c.RNG("trevc", idx)
	cs := h.newCase(id, rng)
	t := schurGen(rng, cls, n)
	twr, twi, _ := schurForm(t)
	st := blockStarts(t)
	q := randOrtho(rng, n)
	aq := ref.Mul(q, ref.Mul(t, q.T()))
	cfg := 0
	special := ""
	if cls == scNegligible {
		// One path class, one clause whatever the options.
		special = "input=" + cls
		cs.sigClause = "eigenvector-computation-fails"
	}
	sides := []lapack.EVSide{lapack.EVBoth, lapack.EVRight, lapack.EVLeft}
	hows := []lapack.EVHowMany{lapack.EVAll, lapack.EVAllMulQ, lapack.EVSelected}
	for _, side := range sides {
		for _, how := range hows {
			for lwi := 0; lwi < 3; lwi++ {
				cfg++
				if lwi == 2 && how != lapack.EVAllMulQ {
					continue
				}
				if !h.thorough() && (cfg+idx)%2 == 0 && n > 4 {
					continue
				}
				pad := (cfg + idx) % 3 * 2
				tag := fmt.Sprintf("side=%c howmny=%c", rune(side), rune(how))
				if special != "" {
					tag = special
				}
				wantl := side != lapack.EVRight
				wantr := side != lapack.EVLeft
				// Selection: pairs marked on the first, second or both positions.
				var selected []bool
				var swr, swi []float64 // eigenvalue per stored column
				mm := n
				if how == lapack.EVSelected {
					selected = make([]bool, n)
					mm = 0
					for i := 0; i < n; {
						pick := rng.Intn(3) != 0
						if twi[i] != 0 {
							if pick {
								switch rng.Intn(3) {
								case 0:
									selected[i] = true
								case 1:
									selected[i+1] = true
								default:
									selected[i], selected[i+1] = true, true
								}
								swr = append(swr, twr[i], twr[i+1])
								swi = append(swi, twi[i], twi[i+1])
								mm += 2
							}
							i += 2
							continue
						}
						if pick {
							selected[i] = true
							swr = append(swr, twr[i])
							swi = append(swi, twi[i])
							mm++
						}
						i++
					}
				} else {
					swr, swi = twr, twi
				}
				sel0 := append([]bool(nil), selected...)
				tb := cs.matFrom("t", t, pad)
				var vlb, vrb *buf
				mk := func(name string, want bool) *buf {
					if !want {
						return cs.mat(name, 1, 1, 0)
					}
					if how == lapack.EVAllMulQ {
						return cs.matFrom(name, q, pad)
					}
					return cs.mat(name, n, mm, pad)
				}
				vlb, vrb = mk("vl", wantl), mk("vr", wantr)
				minlw := max(1, 3*n)
				lwork := minlw
				lwn := "min"
				switch lwi {
				case 1:
					var ok bool
					lwork, ok = cs.query("Dtrevc3", minlw, n == 0, func(w []float64) {
						h.impl.Dtrevc3(side, how, selected, n, tb.s, tb.ld, vlb.s, vlb.ld, vrb.s, vrb.ld, mm, w, -1)
					}, tb.s, vlb.s, vrb.s)
					if !ok {
						continue
					}
					lwn = "query"
				case 2:
					lwork = max(minlw, n+2*n*8) // smallest length for the blocked back-transformation
					lwn = "blocked-threshold"
				}
				work := cs.work(lwork)
				t0 := cloneF(tb.s)
				var m int
				if !cs.try("Dtrevc3", tag, key("n:"+bucket(n), "pad", pad, "lwork", lwn, cls), n > 1, func() {
					m = h.impl.Dtrevc3(side, how, selected, n, tb.s, tb.ld, vlb.s, vlb.ld, vrb.s, vrb.ld, mm, work, lwork)
				}) {
					continue
				}
				for i := range t0 {
					if !vrt.SameBits(t0[i], tb.s[i]) {
						cs.fail("Dtrevc3", tag, "input-t-modified", "t changed at word %d", i)
						break
					}
				}
				if wantl {
					cs.checkPads("Dtrevc3", tag, vlb)
				} else {
					cs.checkUnref("Dtrevc3", tag, vlb)
				}
				if wantr {
					cs.checkPads("Dtrevc3", tag, vrb)
				} else {
					cs.checkUnref("Dtrevc3", tag, vrb)
				}
				if m != mm {
					cs.fail("Dtrevc3", tag, "wrong-number-of-columns-used", "m=%d, eigenvectors requested occupy %d columns", m, mm)
					continue
				}
				if how == lapack.EVSelected {
					// On return selected[j] = true, selected[j+1] = false for a selected pair.
					for i := 0; i < n; i++ {
						want := sel0[i]
						if twi[i] != 0 {
							f := st[i]
							picked := sel0[f] || sel0[f+1]
							want = picked && i == f
						}
						if selected[i] != want {
							cs.fail("Dtrevc3", tag, "selected-not-normalised-on-return", "selected[%d]=%v", i, selected[i])
							break
						}
					}
				}
				if n == 0 {
					continue
				}
				mat := t
				if how == lapack.EVAllMulQ {
					mat = aq
				}
				if wantr {
					cs.trevcVecCheck("Dtrevc3", tag, mat, vrb.get(), swr, swi, m, false, true)
				}
				if wantl {
					cs.trevcVecCheck("Dtrevc3", tag, mat, vlb.get(), swr, swi, m, true, true)
				}
			}
		}
	}
}

// blockEigs lists the diagonal blocks of a canonical t: first row, size,
// eigenvalue (imaginary part >= 0).
type blk struct {
	row, size int
	re, im    float64
}

func blocksOf(t *ref.M) []blk {
	n := t.R
	var bs []blk
	for i := 0; i < n; {
		if i+1 < n && t.D[(i+1)*n+i] != 0 {
			im := math.Sqrt(math.Abs(t.D[i*n+i+1])) * math.Sqrt(math.Abs(t.D[(i+1)*n+i]))
			bs = append(bs, blk{i, 2, t.D[i*n+i], im})
			i += 2
			continue
		}
		bs = append(bs, blk{i, 1, t.D[i*n+i], 0})
		i++
	}
	return bs
}

func (h *H) checkTrexc(id string, idx, n int, cls string) {
	rng := h.c.RNG("trexc", idx)
	cs := h.newCase(id, rng)
	t := schurGen(rng, cls, n)
	s := pow2Scale(t.MaxAbs())
	ts := scaled(t, s)
	scale := ts.NormFro()
	fn := float64(n)
	st := blockStarts(t)
	b0 := blocksOf(t)
	moves := h.pick(4, 10)
	for mv := 0; mv < moves; mv++ {
		ifst, ilst := rng.Intn(n), rng.Intn(n)
		if mv == 0 {
			ifst, ilst = 0, n-1
		}
		if mv == 1 {
			ifst, ilst = n-1, 0
		}
		wantq := mv%2 == 0
		compq := lapack.UpdateSchurNone
		if wantq {
			compq = lapack.UpdateSchur
		}
		pad := (mv + idx) % 2 * 3
		tag := fmt.Sprintf("compq=%c", rune(compq))
		tb := cs.matFrom("t", t, pad)
		q0 := randOrtho(rng, n)
		var qb *buf
		if wantq {
			qb = cs.matFrom("q", q0, pad)
		} else {
			qb = cs.mat("q", 1, 1, 0)
		}
		work := cs.work(n)
		var ifo, ilo_ int
		var ok bool
		dir := "down"
		if ilst < ifst {
			dir = "up"
		}
		if !cs.try("Dtrexc", tag, key("n:"+bucket(n), "pad", pad, dir, cls), n > 1, func() {
			ifo, ilo_, ok = h.impl.Dtrexc(compq, n, tb.s, tb.ld, qb.s, qb.ld, ifst, ilst, work)
		}) {
			continue
		}
		cs.checkPads("Dtrexc", tag, tb)
		if wantq {
			cs.checkPads("Dtrexc", tag, qb)
		} else {
			cs.checkUnref("Dtrexc", tag, qb)
		}
		if ifo != st[ifst] {
			cs.fail("Dtrexc", tag, "ifstOut-not-first-row-of-block", "ifst=%d ifstOut=%d block starts at %d", ifst, ifo, st[ifst])
		}
		t1 := tb.get()
		_, _, defect := schurForm(t1)
		if defect != "" {
			cs.fail("Dtrexc", tag, "schur-form:"+defect, "result is not in Schur canonical form")
			continue
		}
		if wantq {
			q1 := qb.get()
			cs.band("Dtrexc", tag, "schur-vectors-orthogonality", ref.OrthoResid(q1), fn*eps, nil)
			// Q0 T Q0ᵀ = Q1 T1 Q1ᵀ
			l := ref.Mul(q0, ref.Mul(ts, q0.T()))
			r := ref.Mul(q1, ref.Mul(scaled(t1, s), q1.T()))
			cs.band("Dtrexc", tag, "trexc-similarity-residual", ref.MaxDiff(l, r), fn*eps*scale, nil)
		} else {
			cs.band("Dtrexc", tag, "schur-norm-preserved", math.Abs(scaled(t1, s).NormFro()-scale), fn*eps*scale, nil)
			cs.similarityInvariants("Dtrexc", tag, t, t1)
		}
		if cls != scSeparated {
			continue
		}
		// Well separated, nearly normal T: the swap must succeed, the moved
		// block must sit at ilstOut and the other blocks keep their order.
		if !ok {
			cs.fail("Dtrexc", tag, "swap-refused-on-well-separated-blocks", "ok=false ifst=%d ilst=%d", ifst, ilst)
			continue
		}
		b1 := blocksOf(t1)
		var moved blk
		var rest0 []blk
		for _, b := range b0 {
			if b.row == st[ifst] {
				moved = b
			} else {
				rest0 = append(rest0, b)
			}
		}
		var at *blk
		var rest1 []blk
		for i := range b1 {
			if b1[i].row == ilo_ {
				at = &b1[i]
			} else {
				rest1 = append(rest1, b1[i])
			}
		}
		const tol = 1e-6 // eigenvalues differ by >= 0.2 by construction
		if at == nil || at.size != moved.size || math.Hypot(at.re-moved.re, at.im-moved.im) > tol*(1+math.Abs(moved.re)) {
			cs.fail("Dtrexc", tag, "moved-block-not-at-ilstOut", "ifst=%d ilst=%d ilstOut=%d", ifst, ilst, ilo_)
			continue
		}
		if d := ilo_ - ilst; d < -1 || d > 1 {
			cs.fail("Dtrexc", tag, "ilstOut-differs-from-ilst-by-more-than-one", "ilst=%d ilstOut=%d", ilst, ilo_)
		}
		bad := len(rest0) != len(rest1)
		for i := 0; !bad && i < len(rest0); i++ {
			if rest0[i].size != rest1[i].size || math.Hypot(rest0[i].re-rest1[i].re, rest0[i].im-rest1[i].im) > tol*(1+math.Abs(rest0[i].re)) {
				bad = true
			}
		}
		if bad {
			cs.fail("Dtrexc", tag, "order-of-other-blocks-not-preserved", "ifst=%d ilst=%d", ifst, ilst)
		}
	}
	// Dlaexc: swap adjacent blocks.
	for bi := 0; bi+1 < len(b0); bi++ {
		if !h.thorough() && (bi+idx)%2 == 0 && len(b0) > 4 {
			continue
		}
		j1, n1, n2 := b0[bi].row, b0[bi].size, b0[bi+1].size
		wantq := bi%2 == 0
		pad := (bi + idx) % 2 * 2
		tag := fmt.Sprintf("wantq=%v n1=%d n2=%d", wantq, n1, n2)
		tb := cs.matFrom("t", t, pad)
		q0 := randOrtho(rng, n)
		var qb *buf
		if wantq {
			qb = cs.matFrom("q", q0, pad)
		} else {
			qb = cs.mat("q", 1, 1, 0)
		}
		work := cs.work(n)
		var ok bool
		if !cs.try("Dlaexc", tag, key("n:"+bucket(n), "pad", pad, cls), true, func() {
			ok = h.impl.Dlaexc(wantq, n, tb.s, tb.ld, qb.s, qb.ld, j1, n1, n2, work)
		}) {
			continue
		}
		cs.checkPads("Dlaexc", tag, tb)
		if wantq {
			cs.checkPads("Dlaexc", tag, qb)
		} else {
			cs.checkUnref("Dlaexc", tag, qb)
		}
		t1 := tb.get()
		if !ok {
			if n1 == 1 && n2 == 1 {
				cs.fail("Dlaexc", tag, "refused-1x1-swap", "ok=false although documented to always succeed")
			}
			if cls == scSeparated {
				cs.fail("Dlaexc", tag, "swap-refused-on-well-separated-blocks", "ok=false j1=%d", j1)
			}
			// T and Q are not modified.
			if ref.MaxDiff(t1, t) != 0 || (wantq && ref.MaxDiff(qb.get(), q0) != 0) {
				cs.fail("Dlaexc", tag, "modified-although-refused", "ok=false but T or Q changed")
			}
			continue
		}
		_, _, defect := schurForm(t1)
		if defect != "" {
			cs.fail("Dlaexc", tag, "schur-form:"+defect, "result is not in Schur canonical form")
			continue
		}
		if wantq {
			q1 := qb.get()
			cs.band("Dlaexc", tag, "schur-vectors-orthogonality", ref.OrthoResid(q1), fn*eps, nil)
			l := ref.Mul(q0, ref.Mul(ts, q0.T()))
			r := ref.Mul(q1, ref.Mul(scaled(t1, s), q1.T()))
			cs.band("Dlaexc", tag, "trexc-similarity-residual", ref.MaxDiff(l, r), fn*eps*scale, nil)
		} else {
			cs.band("Dlaexc", tag, "schur-norm-preserved", math.Abs(scaled(t1, s).NormFro()-scale), fn*eps*scale, nil)
			cs.similarityInvariants("Dlaexc", tag, t, t1)
		}
		if cls == scSeparated {
			b1 := blocksOf(t1)
			const tol = 1e-6
			good := len(b1) == len(b0)
			if good {
				x, y := b1[bi], b1[bi+1]
				good = x.size == n2 && y.size == n1 &&
					math.Hypot(x.re-b0[bi+1].re, x.im-b0[bi+1].im) <= tol*(1+math.Abs(x.re)) &&
					math.Hypot(y.re-b0[bi].re, y.im-b0[bi].im) <= tol*(1+math.Abs(y.re))
			}
			if !good {
				cs.fail("Dlaexc", tag, "blocks-not-swapped", "j1=%d", j1)
			}
		}
	}
}

// ---- Dgebal / Dgebak -------------------------------------------------------------------

var balanceJobs = []lapack.BalanceJob{lapack.PermuteScale, lapack.Permute, lapack.Scale, lapack.BalanceNone}

func (h *H) checkGebal(id string, idx, n int, cls string) {
	rng := h.c.RNG("gebal", idx)
	cs := h.newCase(id, rng)
	a := square(rng, cls, n)
	for ji, job := range balanceJobs {
		pad := (ji + idx) % 2 * 3
		tag := fmt.Sprintf("job=%c", rune(job))
		ab := cs.matFrom("a", a, pad)
		scale := cs.vec(n)
		var ilo, ihi int
		if !cs.try("Dgebal", tag, key("n:"+bucket(n), "pad", pad, cls), n > 1, func() {
			ilo, ihi = h.impl.Dgebal(job, n, ab.s, ab.ld, scale)
		}) {
			continue
		}
		cs.checkPads("Dgebal", tag, ab)
		if n == 0 {
			if ilo != 0 || ihi != -1 {
				cs.fail("Dgebal", tag, "ilo-ihi-not-as-documented", "n=0: ilo=%d ihi=%d", ilo, ihi)
			}
			continue
		}
		if !(0 <= ilo && ilo <= ihi && ihi < n) {
			cs.fail("Dgebal", tag, "ilo-ihi-out-of-range", "ilo=%d ihi=%d n=%d", ilo, ihi, n)
			continue
		}
		if (job == lapack.BalanceNone || job == lapack.Scale) && (ilo != 0 || ihi != n-1) {
			cs.fail("Dgebal", tag, "ilo-ihi-not-as-documented", "ilo=%d ihi=%d", ilo, ihi)
		}
		b := ab.get()
		if job == lapack.BalanceNone {
			if ref.MaxDiff(b, a) != 0 {
				cs.fail("Dgebal", tag, "matrix-modified-for-job-none", "a changed")
			}
			for i := range scale {
				if scale[i] != 1 {
					cs.fail("Dgebal", tag, "scale-not-one-for-job-none", "scale[%d]=%v", i, scale[i])
					break
				}
			}
		}
		// Documented zero structure.
		if job == lapack.Permute || job == lapack.PermuteScale {
			bad := false
			for i := 0; i < n && !bad; i++ {
				for j := 0; j < i; j++ {
					if (j < ilo || j > ihi) && b.D[i*n+j] != 0 {
						bad = true
					}
				}
			}
			if bad {
				cs.fail("Dgebal", tag, "isolated-columns-not-upper-triangular", "ilo=%d ihi=%d", ilo, ihi)
			}
		}
		// W = Dgebak(right, I) = P D and W_L = Dgebak(left, I) = P D⁻¹.
		eye := ref.Eye(n)
		wb := cs.matFrom("v", eye, pad)
		wlb := cs.matFrom("v", eye, pad)
		if !cs.try("Dgebak", tag+" side=R", key("n:"+bucket(n), "pad", pad), n > 1, func() {
			h.impl.Dgebak(job, lapack.EVRight, n, ilo, ihi, scale, n, wb.s, wb.ld)
		}) {
			continue
		}
		if !cs.try("Dgebak", tag+" side=L", key("n:"+bucket(n), "pad", pad), n > 1, func() {
			h.impl.Dgebak(job, lapack.EVLeft, n, ilo, ihi, scale, n, wlb.s, wlb.ld)
		}) {
			continue
		}
		cs.checkPads("Dgebak", tag, wb, wlb)
		w, wl := wb.get(), wlb.get()
		// P D: exactly one nonzero per row and column.
		good := true
		for i := 0; i < n && good; i++ {
			var cr, cc int
			for j := 0; j < n; j++ {
				if w.D[i*n+j] != 0 {
					cr++
				}
				if w.D[j*n+i] != 0 {
					cc++
				}
			}
			good = cr == 1 && cc == 1
		}
		if !good {
			cs.fail("Dgebak", tag+" side=R", "back-transformation-not-a-scaled-permutation", "Dgebak applied to the identity is not P*D")
			continue
		}
		if ref.MaxDiff(ref.Mul(wl.T(), w), eye) != 0 {
			cs.fail("Dgebak", tag+" side=L", "left-back-transformation-not-inverse-transpose-of-right", "(P D⁻¹)ᵀ (P D) != I")
		}
		// Similarity A (P D) = (P D) B, exactly: the scaling factors are powers
		// of two and every product has a single nonzero term.
		if cls != clHuge && cls != clTiny {
			if ref.MaxDiff(ref.Mul(a, w), ref.Mul(w, b)) != 0 {
				cs.fail("Dgebal", tag, "balanced-matrix-not-exactly-similar", "A (P D) != (P D) B with P, D from Dgebak")
			}
		} else {
			s := pow2Scale(a.MaxAbs())
			cs.band("Dgebal", tag, "gebal-similarity-residual", ref.MaxDiff(ref.Mul(scaled(a, s), w), ref.Mul(w, scaled(b, s))), eps, nil)
		}
		if job == lapack.Permute || job == lapack.BalanceNone {
			for i := range w.D {
				if w.D[i] != 0 && w.D[i] != 1 {
					cs.fail("Dgebak", tag+" side=R", "scaling-applied-although-not-requested", "entry %v", w.D[i])
					break
				}
			}
		}
		// Dgebak on random vectors: V_out = W V (single products, exact).
		m := 1 + (idx+ji)%4
		v := general(rng, clRand, n, m)
		vb := cs.matFrom("v", v, pad)
		side := lapack.EVRight
		ww := w
		stag := tag + " side=R"
		if (ji+idx)%2 == 0 {
			side, ww, stag = lapack.EVLeft, wl, tag+" side=L"
		}
		if cs.try("Dgebak", stag, key("n:"+bucket(n), "m", m, "pad", pad), n > 1, func() {
			h.impl.Dgebak(job, side, n, ilo, ihi, scale, m, vb.s, vb.ld)
		}) {
			cs.checkPads("Dgebak", stag, vb)
			if ref.MaxDiff(vb.get(), ref.Mul(ww, v)) != 0 {
				cs.fail("Dgebak", stag, "not-linear-in-v", "Dgebak(V) != Dgebak(I) V")
			}
		}
	}
}

// ---- Dlanv2 ----------------------------------------------------------------------------

func (h *H) checkLanv2(id string, idx int) {
	rng := h.c.RNG("lanv2", idx)
	cs := h.newCase(id, rng)
	vals := []float64{0, 1, -1, 0.5, -2, 3, 1e-8, -1e-8, 1e8, 1 + 1e-15, math.Ldexp(1, 400), -math.Ldexp(1, 400), math.Ldexp(1, -400), -math.Ldexp(1, -300)}
	count := h.pick(4000, 40000)
	var worst [3]float64
	for it := 0; it < count; it++ {
		var a, b, c, d float64
		if it < len(vals)*len(vals)*4 && it%2 == 0 {
			k := it / 2
			a, b, c, d = vals[k%len(vals)], vals[(k/len(vals))%len(vals)], vals[(k/3)%len(vals)], vals[(k/7)%len(vals)]
		} else {
			sc := math.Ldexp(1, rng.Range(-3, 3)*rng.Range(0, 1)*100)
			a, b, c, d = rng.Sym()*sc, rng.Sym()*sc, rng.Sym()*sc, rng.Sym()*sc
			switch rng.Intn(6) {
			case 0:
				d = a
			case 1:
				c = 0
			case 2:
				b = 0
			case 3:
				c = -b
				d = a
			case 4:
				c *= 1e-12
			}
		}
		var aa, bb, cc, dd, rt1r, rt1i, rt2r, rt2i, csn, sn float64
		if !cs.try("Dlanv2", "", "grid", true, func() {
			aa, bb, cc, dd, rt1r, rt1i, rt2r, rt2i, csn, sn = h.impl.Dlanv2(a, b, c, d)
		}) {
			return
		}
		in := fmt.Sprintf("a=%v b=%v c=%v d=%v", a, b, c, d)
		mx := math.Max(math.Max(math.Abs(a), math.Abs(b)), math.Max(math.Abs(c), math.Abs(d)))
		s := pow2Scale(mx)
		// Rotation.
		worst[0] = math.Max(worst[0], math.Abs(csn*csn+sn*sn-1))
		if !cs.band("Dlanv2", "", "lanv2-rotation-orthogonal", math.Abs(csn*csn+sn*sn-1), eps, func() string { return in }) {
			return
		}
		// [a b; c d] = R [aa bb; cc dd] Rᵀ, R = [cs -sn; sn cs].
		as, bs, cs_, ds := aa*s, bb*s, cc*s, dd*s
		// M = R * S
		m00, m01 := csn*as-sn*cs_, csn*bs-sn*ds
		m10, m11 := sn*as+csn*cs_, sn*bs+csn*ds
		// M * Rᵀ, Rᵀ = [cs sn; -sn cs]
		r00, r01 := m00*csn-m01*sn, m00*sn+m01*csn
		r10, r11 := m10*csn-m11*sn, m10*sn+m11*csn
		res := math.Max(math.Max(math.Abs(r00-a*s), math.Abs(r01-b*s)), math.Max(math.Abs(r10-c*s), math.Abs(r11-d*s)))
		if math.IsNaN(res) {
			res = math.Inf(1)
		}
		worst[1] = math.Max(worst[1], res)
		if !cs.band("Dlanv2", "", "lanv2-factorisation-residual", res, eps, func() string { return in }) {
			return
		}
		// Standard form and eigenvalues.
		if cc != 0 {
			if aa != dd || !(bb != 0 && math.Signbit(bb) != math.Signbit(cc)) {
				cs.fail("Dlanv2", "", "block-not-in-standard-form", "%s -> aa=%v bb=%v cc=%v dd=%v", in, aa, bb, cc, dd)
				return
			}
			im := math.Sqrt(math.Abs(bb)) * math.Sqrt(math.Abs(cc))
			if rt1r != aa || rt2r != aa || !(rt1i > 0) || rt2i != -rt1i || math.Abs(rt1i-im) > 8*eps*im {
				cs.fail("Dlanv2", "", "eigenvalues-inconsistent-with-block", "%s -> rt1=(%v,%v) rt2=(%v,%v) aa=%v bb=%v cc=%v", in, rt1r, rt1i, rt2r, rt2i, aa, bb, cc)
				return
			}
		} else if rt1r != aa || rt2r != dd || rt1i != 0 || rt2i != 0 {
			cs.fail("Dlanv2", "", "eigenvalues-inconsistent-with-block", "%s -> rt1=(%v,%v) rt2=(%v,%v) aa=%v dd=%v", in, rt1r, rt1i, rt2r, rt2i, aa, dd)
			return
		}
	}
}

func (h *H) planSchur(add addFn) {
	idx := 0
	sizes := []int{0, 1, 2, 3, 4, 5, 8, 16, 31, 40}
	reps := 1
	if h.thorough() {
		sizes = []int{0, 1, 2, 3, 4, 5, 8, 10, 16, 31, 32, 33, 50, 75, 100, 130, 150}
		reps = 2
	}
	for rep := 0; rep < reps; rep++ {
		for si, n := range sizes {
			for ci, cls := range schurClasses {
				if !h.thorough() && (si+ci)%2 != 0 && n > 34 {
					continue
				}
				idx++
				i, n, cls := idx, n, cls
				add("trevc", 30*n*n*n, func() { h.checkTrevc3(fmt.Sprintf("trevc n=%d class=%s #%d", n, cls, i), i, n, cls) })
				if n >= 2 && n <= 60 {
					add("trexc", 30*n*n*n, func() { h.checkTrexc(fmt.Sprintf("trexc n=%d class=%s #%d", n, cls, i), i, n, cls) })
				}
			}
			if n >= 4 {
				idx++
				i, n := idx, n
				add("trevc", 30*n*n*n, func() { h.checkTrevc3(fmt.Sprintf("trevc n=%d class=%s #%d", n, scNegligible, i), i, n, scNegligible) })
			}
			for ci, cls := range squareClasses {
				if !h.thorough() && (si+ci)%2 != 0 && n > 34 {
					continue
				}
				idx++
				i, n, cls := idx, n, cls
				add("gebal", n*n*n, func() { h.checkGebal(fmt.Sprintf("gebal n=%d class=%s #%d", n, cls, i), i, n, cls) })
			}
		}
		idx++
		{
			i := idx
			add("trexc", 3000000, func() { h.checkTrexcRejected(fmt.Sprintf("trexc rejected swaps #%d", i), i) })
		}
		for k := 0; k < 4; k++ {
			idx++
			i := idx
			add("lanv2", 1000000, func() { h.checkLanv2(fmt.Sprintf("lanv2 #%d", i), i) })
		}
	}
}

// ---- Dtrexc when a swap is rejected ------------------------------------------------------
//
// Doc comment of Dtrexc: "If ok is false, two adjacent blocks were too close to
// swap because the problem is very ill-conditioned. T may have been partially
// reordered, and ilstOut will point to the first row of the block at the
// position to which it has been moved."

// pair22 is a pair of 2x2 standardised blocks with their coupling block.
type pair22 struct{ m, n, cpl [4]float64 }

// rejectingPairs searches, deterministically from the seed, for pairs of
// adjacent 2x2 blocks whose swap Dlaexc rejects (ill-scaled blocks with nearly
// equal real parts and a large coupling), and returns up to max of them. The
// first candidate is a fixed pair known to be rejected by the reference
// algorithm.
func (h *H) rejectingPairs(cs *Case, rng *vrt.Rand, tries, max int) []pair22 {
	var out []pair22
	cand := func(i int) pair22 {
		if i == 0 {
			return pair22{
				m:   [4]float64{1, -0.00018676383159230495, 112.94052647907522, 1},
				n:   [4]float64{1.0268021209021085, 0.00033498106730668245, -6.838002048291588e-05, 1.0268021209021085},
				cpl: [4]float64{-32.738857391354905, 21.590515162709245, 1.8461124356210894e-05, 98.83600239286795},
			}
		}
		a := rng.Uniform(-2, 2)
		sg := []float64{1, -1}[rng.Intn(2)]
		b, c := -sg*math.Pow(10, -rng.Uniform(2, 5)), sg*math.Pow(10, rng.Uniform(0, 2.5))
		d := a + rng.Uniform(0.005, 0.06)*[]float64{1, -1}[rng.Intn(2)]
		b2, c2 := sg*math.Pow(10, -rng.Uniform(3, 5)), -sg*math.Pow(10, -rng.Uniform(3, 5))
		var cpl [4]float64
		for k := range cpl {
			cpl[k] = rng.Sym() * math.Pow(10, rng.Uniform(-5, 2))
		}
		p := pair22{m: [4]float64{a, b, c, a}, n: [4]float64{d, b2, c2, d}, cpl: cpl}
		if rng.Bool() {
			p.m, p.n = p.n, p.m
		}
		return p
	}
	n := 0
	for i := 0; i < tries && len(out) < max; i++ {
		p := cand(i)
		t := []float64{
			p.m[0], p.m[1], p.cpl[0], p.cpl[1],
			p.m[2], p.m[3], p.cpl[2], p.cpl[3],
			0, 0, p.n[0], p.n[1],
			0, 0, p.n[2], p.n[3],
		}
		t0 := cloneF(t)
		work := make([]float64, 4)
		ok := true
		pn := vrt.TryFast(func() { ok = h.impl.Dlaexc(false, 4, t, 4, nil, 1, 0, 2, 2, work) })
		n++
		if pn != nil {
			cs.fail("Dlaexc", "wantq=false n1=2 n2=2", "panic:"+normMsg(pn.Msg), "candidate %v", p)
			continue
		}
		if ok {
			continue
		}
		for k := range t {
			if !vrt.SameBits(t[k], t0[k]) {
				cs.fail("Dlaexc", "wantq=false n1=2 n2=2", "modified-although-refused", "ok=false but T changed (candidate %v)", p)
				break
			}
		}
		out = append(out, p)
	}
	h.c.EvalN("Dlaexc|screen-for-rejected-swaps", n, true)
	h.mu.Lock()
	h.counts["Dlaexc"] += int64(n)
	h.mu.Unlock()
	h.c.Count("trexc_rejecting_2x2_pairs_found", int64(len(out)))
	return out
}

func eig22(b [4]float64) (re, im float64) {
	return b[0], math.Sqrt(math.Abs(b[1])) * math.Sqrt(math.Abs(b[2]))
}

// checkTrexcRejected moves a block past a block it cannot be swapped with,
// downwards and upwards, with and without Q, and judges what the doc comment
// still promises when ok == false.
func (h *H) checkTrexcRejected(id string, idx int) {
	rng := h.c.RNG("trexc-rejected", idx)
	cs := h.newCase(id, rng)
	pairs := h.rejectingPairs(cs, rng, h.pick(1500, 6000), h.pick(5, 12))
	for pi, p := range pairs {
		for layout := 0; layout < 4; layout++ {
			// Blocks on the diagonal: filler blocks with well separated
			// eigenvalues around the pair (M above N).
			// layout 0: [M N]; 1: [M f N]?? no - the pair stays adjacent:
			// 0: M N | 1: M N f | 2: f M N | 3: f M N g (f 1x1, g 2x2)
			var blocks [][4]float64 // size-1 blocks use entry 0 only
			var sizes []int
			add := func(b [4]float64, sz int) { blocks = append(blocks, b); sizes = append(sizes, sz) }
			f1 := [4]float64{7, 0, 0, 0}
			g2 := [4]float64{-5, 2, -3, -5}
			if layout >= 2 {
				add(f1, 1)
			}
			mi := len(blocks)
			add(p.m, 2)
			add(p.n, 2)
			if layout == 1 {
				add(f1, 1)
			}
			if layout == 3 {
				add(g2, 2)
			}
			n := 0
			starts := make([]int, len(blocks))
			for i, sz := range sizes {
				starts[i] = n
				n += sz
			}
			t := ref.New(n, n)
			for i := 0; i < n; i++ {
				for j := i + 1; j < n; j++ {
					t.D[i*n+j] = rng.Sym()
				}
			}
			for i, b := range blocks {
				s0 := starts[i]
				t.D[s0*n+s0] = b[0]
				if sizes[i] == 2 {
					t.D[s0*n+s0+1], t.D[(s0+1)*n+s0], t.D[(s0+1)*n+s0+1] = b[1], b[2], b[3]
				}
			}
			ms, ns := starts[mi], starts[mi+1]
			t.D[ms*n+ns], t.D[ms*n+ns+1], t.D[(ms+1)*n+ns], t.D[(ms+1)*n+ns+1] = p.cpl[0], p.cpl[1], p.cpl[2], p.cpl[3]
			if _, _, d := schurForm(t); d != "" {
				continue
			}
			st := blockStarts(t)
			type move struct {
				ifst, ilst int
				moved      [4]float64
			}
			moves := []move{
				{ms + (pi+layout)%2, n - 1, p.m}, // M downwards past N (ifst on either row of M)
				{ns + (pi+layout+1)%2, 0, p.n},   // N upwards past M
				{ms, ns, p.m}, {ns, ms, p.n},     // exactly one swap requested
			}
			if layout >= 2 {
				moves = append(moves, move{0, n - 1, f1}) // the 1x1 block passes both (swaps with a 1x1 block are not refused)
			}
			s := pow2Scale(t.MaxAbs())
			ts := scaled(t, s)
			scale := ts.NormFro()
			fn := float64(n)
			for mvi, mv := range moves {
				for _, wantq := range []bool{true, false} {
					compq := lapack.UpdateSchurNone
					if wantq {
						compq = lapack.UpdateSchur
					}
					pad := (mvi + layout + pi) % 2 * 3
					dir := "down"
					if mv.ilst < mv.ifst {
						dir = "up"
					}
					tag := fmt.Sprintf("compq=%c ill-conditioned-pair direction=%s", rune(compq), dir)
					tb := cs.matFrom("t", t, pad)
					q0 := randOrtho(rng, n)
					qb := cs.mat("q", 1, 1, 0)
					if wantq {
						qb = cs.matFrom("q", q0, pad)
					}
					work := cs.work(n)
					var ifo, ilo int
					var ok bool
					if !cs.try("Dtrexc", tag, key("n", n, "layout", layout, "pad", pad), true, func() {
						ifo, ilo, ok = h.impl.Dtrexc(compq, n, tb.s, tb.ld, qb.s, qb.ld, mv.ifst, mv.ilst, work)
					}) {
						continue
					}
					cs.checkPads("Dtrexc", tag, tb)
					if wantq {
						cs.checkPads("Dtrexc", tag, qb)
					} else {
						cs.checkUnref("Dtrexc", tag, qb)
					}
					if ok {
						h.c.Count("trexc_moves_past_ill_conditioned_pair_accepted", 1)
					} else {
						h.c.Count("trexc_moves_with_rejected_swap", 1)
					}
					if ifo != st[mv.ifst] {
						cs.fail("Dtrexc", tag, "ifstOut-not-first-row-of-block", "ifst=%d ifstOut=%d block starts at %d (ok=%v)", mv.ifst, ifo, st[mv.ifst], ok)
					}
					t1 := tb.get()
					if _, _, d := schurForm(t1); d != "" {
						cs.fail("Dtrexc", tag, "schur-form:"+d, "result is not in Schur canonical form (ok=%v)", ok)
						continue
					}
					if wantq {
						q1 := qb.get()
						cs.band("Dtrexc", tag, "schur-vectors-orthogonality", ref.OrthoResid(q1), fn*eps, nil)
						l := ref.Mul(q0, ref.Mul(ts, q0.T()))
						r := ref.Mul(q1, ref.Mul(scaled(t1, s), q1.T()))
						cs.band("Dtrexc", tag, "trexc-similarity-residual", ref.MaxDiff(l, r), fn*eps*scale, nil)
					} else {
						cs.band("Dtrexc", tag, "schur-norm-preserved", math.Abs(scaled(t1, s).NormFro()-scale), fn*eps*scale, nil)
						cs.similarityInvariants("Dtrexc", tag, t, t1)
					}
					// ilstOut: first row of a block of the result that carries the
					// eigenvalues of the block that was at ifst. The moved block's
					// eigenvalue pair differs from every other block's by more
					// than 1e-3 in these matrices, otherwise the identity of the
					// block is not judged.
					st1 := blockStarts(t1)
					if ilo < 0 || ilo >= n || st1[ilo] != ilo {
						cs.fail("Dtrexc", tag, "ilstOut-not-first-row-of-a-block", "ilstOut=%d (ok=%v)", ilo, ok)
						continue
					}
					wre, wim := mv.moved[0], 0.0
					if mv.moved[2] != 0 {
						wre, wim = eig22(mv.moved)
					}
					distinct := true
					for i, b := range blocks {
						if starts[i] == st[mv.ifst] {
							continue
						}
						bre, bim := b[0], 0.0
						if sizes[i] == 2 {
							bre, bim = eig22(b)
						}
						if math.Hypot(bre-wre, bim-wim) < 1e-3*(1+math.Abs(wre)) {
							distinct = false
						}
					}
					if !distinct {
						h.c.Count("trexc_moved_block_not_identifiable", 1)
						continue
					}
					gre, gim := t1.D[ilo*n+ilo], 0.0
					if ilo+1 < n && t1.D[(ilo+1)*n+ilo] != 0 {
						gim = math.Sqrt(math.Abs(t1.D[ilo*n+ilo+1])) * math.Sqrt(math.Abs(t1.D[(ilo+1)*n+ilo]))
					}
					if math.Hypot(gre-wre, gim-wim) > 1e-5*(1+math.Abs(wre)) {
						clause := "block-at-ilstOut-is-not-the-moved-block"
						if !ok {
							clause += "-after-rejected-swap"
						}
						cs.fail("Dtrexc", tag, clause, "ok=%v ifst=%d ilst=%d ilstOut=%d: block there has eigenvalue %v±%vi, the moved block %v±%vi", ok, mv.ifst, mv.ilst, ilo, gre, gim, wre, wim)
					}
					if ok {
						if d := ilo - mv.ilst; d < -1 || d > 1 {
							cs.fail("Dtrexc", tag, "ilstOut-differs-from-ilst-by-more-than-one", "ilst=%d ilstOut=%d", mv.ilst, ilo)
						}
					}
				}
			}
		}
	}
}
