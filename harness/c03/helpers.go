package main

import (
	"fmt"
	"math"
	"math/cmplx"
	"sort"

	"gonum.org/v1/gonum/blas"
	"gonum.org/v1/gonum/lapack"
	"gonum.org/v1/gonum/verifx/ref"
	"gonum.org/v1/gonum/verifx/vrt"
)

// ---- scalar / 2x2 helpers against closed forms ------------------------------------------
//
// Dlartg, Dlasr, Dlasrt, Dlas2, Dlasv2, Dlaev2, Dlae2, Dlag2, Dlasy2, Dlaln2.

// gridVals are the magnitudes of the fixed grid; the seeded part adds random
// values with exponents in +-300.
var gridVals = []float64{0, 1, -1, 0.5, 3, -7, 1e-8, 1e8, -1e-160, 1e160, math.Ldexp(1, 500), -math.Ldexp(1, 500), math.Ldexp(1, -500), math.Ldexp(1, -1000), 1 + 1e-15}

func randScaled(rng *vrt.Rand) float64 {
	switch rng.Intn(10) {
	case 0:
		return 0
	case 1:
		return gridVals[rng.Intn(len(gridVals))]
	case 2:
		return rng.Sym() * math.Ldexp(1, rng.Range(-300, 300))
	}
	return rng.Sym() * math.Ldexp(1, rng.Range(-3, 3))
}

func (h *H) checkScalarHelpers(id string, idx int) {
	rng := h.c.RNG("helpers", idx)
	cs := h.newCase(id, rng)
	count := h.pick(3000, 30000)

	// Dlartg.
	for it := 0; it < count; it++ {
		var f, g float64
		if it < len(gridVals)*len(gridVals) {
			f, g = gridVals[it%len(gridVals)], gridVals[it/len(gridVals)]
		} else {
			f, g = randScaled(rng), randScaled(rng)
		}
		var c, s, r float64
		if !cs.try("Dlartg", "", "grid", true, func() { c, s, r = h.impl.Dlartg(f, g) }) {
			break
		}
		in := fmt.Sprintf("f=%v g=%v -> cs=%v sn=%v r=%v", f, g, c, s, r)
		sc := pow2Scale(math.Max(math.Abs(f), math.Abs(g)))
		fs, gs, rs := f*sc, g*sc, r*sc
		if !cs.band("Dlartg", "", "lartg-rotation-orthogonal", math.Abs(c*c+s*s-1), eps, func() string { return in }) {
			break
		}
		hyp := math.Hypot(fs, gs)
		if !cs.band("Dlartg", "", "lartg-annihilates", math.Max(math.Abs(c*fs+s*gs-rs), math.Abs(-s*fs+c*gs)), eps*math.Max(hyp, math.SmallestNonzeroFloat64), func() string { return in }) {
			break
		}
		switch {
		case g == 0 && (c != 1 || s != 0):
			cs.fail("Dlartg", "", "convention:g-zero", "%s", in)
		case f == 0 && g != 0 && (c != 0 || s != math.Copysign(1, g)):
			cs.fail("Dlartg", "", "convention:f-zero", "%s", in)
		case c < 0:
			cs.fail("Dlartg", "", "convention:cs-negative", "%s", in)
		}
	}

	// Dlas2 / Dlasv2: [f g; 0 h].
	for it := 0; it < count; it++ {
		var f, g, hh float64
		if it < 400 {
			v := []float64{0, 1, -1, 2, 1e-9, 1e9, -3, math.Ldexp(1, 400), math.Ldexp(1, -400)}
			f, g, hh = v[it%9], v[(it/9)%9], v[(it/81+it)%9]
		} else {
			f, g, hh = randScaled(rng), randScaled(rng), randScaled(rng)
		}
		mx := math.Max(math.Abs(f), math.Max(math.Abs(g), math.Abs(hh)))
		if mx > math.Ldexp(1, 900) || (mx != 0 && mx < math.Ldexp(1, -900)) {
			continue // "barring over/underflow"
		}
		sc := pow2Scale(mx)
		fs, gs, hs := f*sc, g*sc, hh*sc
		var smin, smax float64
		if !cs.try("Dlas2", "", "grid", true, func() { smin, smax = h.impl.Dlas2(f, g, hh) }) {
			break
		}
		in := fmt.Sprintf("f=%v g=%v h=%v -> ssmin=%v ssmax=%v", f, g, hh, smin, smax)
		if !(smin >= 0 && smax >= smin) {
			cs.fail("Dlas2", "", "values-not-ordered-nonnegative", "%s", in)
			break
		}
		a, b := smin*sc, smax*sc
		fro2 := fs*fs + gs*gs + hs*hs
		// Invariants: product = |det|, sum of squares = squared Frobenius norm.
		// A product that underflows in the scaled data is not judged.
		// (nor one whose smaller singular value itself is in the underflow range:
		// the accuracy statement of Dlas2 holds "barring over/underflow").
		if p := math.Abs(fs * hs); (p > 1e-290 || p == 0) && (p == 0 || (smax > 0 && math.Abs(f)/smax*math.Abs(hh) > 1e-290)) {
			if !cs.band("Dlas2", "", "las2-determinant", math.Abs(a*b-p), eps*math.Max(p, 1e-300), func() string { return in }) {
				break
			}
		}
		if !cs.band("Dlas2", "", "las2-frobenius", math.Abs(a*a+b*b-fro2), eps*math.Max(fro2, 1e-300), func() string { return in }) {
			break
		}
		var snr, csr, snl, csl, vmin, vmax float64
		if !cs.try("Dlasv2", "", "grid", true, func() { vmin, vmax, snr, csr, snl, csl = h.impl.Dlasv2(f, g, hh) }) {
			break
		}
		in = fmt.Sprintf("f=%v g=%v h=%v -> ssmin=%v ssmax=%v snr=%v csr=%v snl=%v csl=%v", f, g, hh, vmin, vmax, snr, csr, snl, csl)
		if !(math.Abs(vmax) >= math.Abs(vmin)) {
			cs.fail("Dlasv2", "", "values-not-ordered-by-magnitude", "%s", in)
			break
		}
		if !cs.band("Dlasv2", "", "lasv2-rotations-orthogonal", math.Max(math.Abs(csl*csl+snl*snl-1), math.Abs(csr*csr+snr*snr-1)), eps, func() string { return in }) {
			break
		}
		// [csl snl; -snl csl] [f g; 0 h] [csr -snr; snr csr] = diag(ssmax, ssmin)
		m00, m01 := csl*fs, csl*gs+snl*hs
		m10, m11 := -snl*fs, -snl*gs+csl*hs
		r00, r01 := m00*csr+m01*snr, -m00*snr+m01*csr
		r10, r11 := m10*csr+m11*snr, -m10*snr+m11*csr
		res := math.Max(math.Max(math.Abs(r00-vmax*sc), math.Abs(r11-vmin*sc)), math.Max(math.Abs(r01), math.Abs(r10)))
		if math.IsNaN(res) {
			res = math.Inf(1)
		}
		if !cs.band("Dlasv2", "", "lasv2-diagonalises", res, eps*math.Max(math.Sqrt(fro2), 1e-300), func() string { return in }) {
			break
		}
		if !cs.band("Dlasv2", "", "lasv2-agrees-with-las2", math.Max(math.Abs(math.Abs(vmin)-smin), math.Abs(math.Abs(vmax)-smax))*sc, eps*math.Max(math.Sqrt(fro2), 1e-300), func() string { return in }) {
			break
		}
	}

	// Dlaev2 / Dlae2: [a b; b c].
	for it := 0; it < count; it++ {
		var a, b, c float64
		if it < 400 {
			v := []float64{0, 1, -1, 2, 1e-9, 1e9, -3, math.Ldexp(1, 400), math.Ldexp(1, -400)}
			a, b, c = v[it%9], v[(it/9)%9], v[(it/81+it)%9]
		} else {
			a, b, c = randScaled(rng), randScaled(rng), randScaled(rng)
		}
		mx := math.Max(math.Abs(a), math.Max(math.Abs(b), math.Abs(c)))
		if mx > math.Ldexp(1, 900) || (mx != 0 && mx < math.Ldexp(1, -900)) {
			continue
		}
		sc := pow2Scale(mx)
		as, bs, cc := a*sc, b*sc, c*sc
		var rt1, rt2, cs1, sn1 float64
		if !cs.try("Dlaev2", "", "grid", true, func() { rt1, rt2, cs1, sn1 = h.impl.Dlaev2(a, b, c) }) {
			break
		}
		in := fmt.Sprintf("a=%v b=%v c=%v -> rt1=%v rt2=%v cs1=%v sn1=%v", a, b, c, rt1, rt2, cs1, sn1)
		if !(math.Abs(rt1) >= math.Abs(rt2)) {
			cs.fail("Dlaev2", "", "values-not-ordered-by-magnitude", "%s", in)
			break
		}
		nrm := math.Max(math.Abs(as)+math.Abs(bs), math.Abs(bs)+math.Abs(cc))
		if !cs.band("Dlaev2", "", "laev2-trace", math.Abs(rt1*sc+rt2*sc-(as+cc)), eps*math.Max(nrm, 1e-300), func() string { return in }) {
			break
		}
		if !cs.band("Dlaev2", "", "laev2-eigenvector-unit", math.Abs(cs1*cs1+sn1*sn1-1), eps, func() string { return in }) {
			break
		}
		res := math.Max(math.Abs(as*cs1+bs*sn1-rt1*sc*cs1), math.Abs(bs*cs1+cc*sn1-rt1*sc*sn1))
		if !cs.band("Dlaev2", "", "laev2-eigenvector-residual", res, eps*math.Max(nrm, 1e-300), func() string { return in }) {
			break
		}
		// Second eigenvalue: (-sn1, cs1) is its eigenvector.
		res2 := math.Max(math.Abs(-as*sn1+bs*cs1+rt2*sc*sn1), math.Abs(-bs*sn1+cc*cs1-rt2*sc*cs1))
		if !cs.band("Dlaev2", "", "laev2-eigenvector-residual", res2, eps*math.Max(nrm, 1e-300), func() string { return in }) {
			break
		}
		var e1, e2 float64
		if !cs.try("Dlae2", "", "grid", true, func() { e1, e2 = h.impl.Dlae2(a, b, c) }) {
			break
		}
		if !cs.band("Dlae2", "", "lae2-agrees-with-laev2", math.Max(math.Abs(e1-rt1), math.Abs(e2-rt2))*sc, eps*math.Max(nrm, 1e-300), func() string {
			return fmt.Sprintf("%s; Dlae2: %v %v", in, e1, e2)
		}) {
			break
		}
	}

	// Dlasrt.
	for it := 0; it < count/10; it++ {
		n := rng.Intn(70)
		if it < 4 {
			n = it
		}
		d := make([]float64, n)
		for i := range d {
			d[i] = randScaled(rng)
			if rng.Intn(5) == 0 && i > 0 {
				d[i] = d[rng.Intn(i)] // duplicates
			}
		}
		if it%7 == 0 {
			sort.Float64s(d)
		}
		for _, srt := range []lapack.Sort{lapack.SortIncreasing, lapack.SortDecreasing} {
			x := cloneF(d)
			tag := fmt.Sprintf("sort=%c", rune(srt))
			if !cs.try("Dlasrt", tag, "n:"+bucket(n), n > 1, func() { h.impl.Dlasrt(srt, n, x) }) {
				continue
			}
			want := sortedCopy(d, srt == lapack.SortDecreasing)
			for i := range x {
				if x[i] != want[i] {
					cs.fail("Dlasrt", tag, "not-the-sorted-permutation-of-the-input", "n=%d position %d: got %v want %v", n, i, x[i], want[i])
					break
				}
			}
		}
	}
}

// checkLasr applies Dlasr for every side x pivot x direct and compares with
// explicit plane rotations.
func (h *H) checkLasr(id string, idx, m, n int) {
	rng := h.c.RNG("lasr", idx)
	cs := h.newCase(id, rng)
	a := general(rng, clRand, m, n)
	for _, side := range []blas.Side{blas.Left, blas.Right} {
		z := m
		if side == blas.Right {
			z = n
		}
		c, s := make([]float64, max(0, z-1)), make([]float64, max(0, z-1))
		for i := range c {
			th := rng.Uniform(0, 2*math.Pi)
			c[i], s[i] = math.Cos(th), math.Sin(th)
			if i%5 == 4 {
				c[i], s[i] = 1, 0 // identity rotations are skipped by Dlasr
			}
		}
		for _, pivot := range []lapack.Pivot{lapack.Variable, lapack.Top, lapack.Bottom} {
			for _, direct := range []lapack.Direct{lapack.Forward, lapack.Backward} {
				pad := (idx + int(pivot) + int(direct)) % 2 * 3
				ab := cs.matFrom("a", a, pad)
				tag := fmt.Sprintf("side=%c pivot=%c direct=%c", sideCh(side), rune(pivot), rune(direct))
				if !cs.try("Dlasr", tag, key("m:"+bucket(m), "n:"+bucket(n), "pad", pad), z > 1, func() {
					h.impl.Dlasr(side, pivot, direct, m, n, c, s, ab.s, ab.ld)
				}) {
					continue
				}
				cs.checkPads("Dlasr", tag, ab)
				sd := byte('L')
				if side == blas.Right {
					sd = 'R'
				}
				want := applyRot(sd, byte(pivot), direct == lapack.Forward, a, c, s)
				cs.band("Dlasr", tag, "lasr-matches-plane-rotations", ref.MaxDiff(ab.get(), want), float64(max(z, 1))*eps, nil)
			}
		}
	}
}

// check2x2Solvers: Dlasy2, Dlaln2, Dlag2.
func (h *H) check2x2Solvers(id string, idx int) {
	rng := h.c.RNG("solvers", idx)
	cs := h.newCase(id, rng)
	count := h.pick(1500, 15000)
	r22 := func(sc float64) *ref.M { return ref.FromFunc(2, 2, func(i, j int) float64 { return sc * rng.Sym() }) }

	// Dlasy2: op(TL) X + isgn X op(TR) = scale B.
	for it := 0; it < count; it++ {
		n1, n2 := 1+rng.Intn(2), 1+rng.Intn(2)
		tranl, tranr := rng.Bool(), rng.Bool()
		isgn := []int{1, -1}[rng.Intn(2)]
		sc := math.Ldexp(1, rng.Range(-2, 2)*rng.Intn(2)*40)
		tl, tr, b := r22(sc), r22(sc), r22(sc*math.Ldexp(1, rng.Range(-1, 1)*20))
		// Keep the spectra of TL and -isgn*TR apart.
		sh := 3 * sc
		for i := 0; i < 2; i++ {
			tl.D[i*2+i] += sh
			tr.D[i*2+i] += float64(isgn) * sh
		}
		pad := it % 2
		tlb, trb, bb := cs.matFrom("tl", subMat(tl, 0, n1, 0, n1), pad), cs.matFrom("tr", subMat(tr, 0, n2, 0, n2), pad), cs.matFrom("b", subMat(b, 0, n1, 0, n2), pad)
		xb := cs.mat("x", n1, n2, pad)
		tag := fmt.Sprintf("tranl=%v tranr=%v isgn=%d n1=%d n2=%d", tranl, tranr, isgn, n1, n2)
		var scale, xnorm float64
		var ok bool
		if !cs.try("Dlasy2", tag, "grid", true, func() {
			scale, xnorm, ok = h.impl.Dlasy2(tranl, tranr, isgn, n1, n2, tlb.s, tlb.ld, trb.s, trb.ld, bb.s, bb.ld, xb.s, xb.ld)
		}) {
			continue
		}
		cs.checkPads("Dlasy2", tag, xb)
		if !ok {
			cs.fail("Dlasy2", tag, "perturbed-although-well-separated", "ok=false for separated spectra")
			continue
		}
		if !(scale > 0 && scale <= 1) {
			cs.fail("Dlasy2", tag, "scale-out-of-range", "scale=%v", scale)
			continue
		}
		x := xb.get()
		l, r := subMat(tl, 0, n1, 0, n1), subMat(tr, 0, n2, 0, n2)
		if tranl {
			l = l.T()
		}
		if tranr {
			r = r.T()
		}
		res := ref.Sub(ref.Add(ref.Mul(l, x), ref.Scale(float64(isgn), ref.Mul(x, r))), ref.Scale(scale, subMat(b, 0, n1, 0, n2)))
		den := (l.NormInf()+r.NormInf())*x.MaxAbs() + scale*b.MaxAbs()
		cs.band("Dlasy2", tag, "lasy2-residual", res.MaxAbs(), eps*math.Max(den, 1e-300), nil)
		cs.band("Dlasy2", tag, "lasy2-xnorm", math.Abs(xnorm-x.NormInf()), eps*math.Max(x.NormInf(), 1e-300), nil)
	}

	// Dlaln2: (ca A - w D) X = scale B.
	for it := 0; it < count; it++ {
		na, nw := 1+rng.Intn(2), 1+rng.Intn(2)
		trans := rng.Bool()
		sc := math.Ldexp(1, rng.Range(-2, 2)*rng.Intn(2)*40)
		a := r22(sc)
		b := r22(sc * math.Ldexp(1, rng.Range(-1, 1)*20))
		ca := rng.Uniform(0.5, 2)
		d1, d2 := rng.Uniform(0.5, 2), rng.Uniform(0.5, 2)
		wr, wi := sc*rng.Sym(), 0.0
		if nw == 2 {
			wi = sc * rng.Uniform(0.2, 1)
		}
		// Keep ca A - w D well conditioned: make A diagonally dominant.
		for i := 0; i < 2; i++ {
			a.D[i*2+i] += 4 * sc * []float64{1, -1}[i]
		}
		smin := sc * 1e-10
		pad := it % 2
		ab, bb := cs.matFrom("a", subMat(a, 0, na, 0, na), pad), cs.matFrom("b", subMat(b, 0, na, 0, nw), 1-pad)
		xb := cs.mat("x", na, nw, 2*pad)
		tag := fmt.Sprintf("trans=%v na=%d nw=%d", trans, na, nw)
		var scale, xnorm float64
		var ok bool
		if !cs.try("Dlaln2", tag, "grid", true, func() {
			scale, xnorm, ok = h.impl.Dlaln2(trans, na, nw, smin, ca, ab.s, ab.ld, d1, d2, bb.s, bb.ld, wr, wi, xb.s, xb.ld)
		}) {
			continue
		}
		cs.checkPads("Dlaln2", tag, xb)
		if !(scale > 0 && scale <= 1) {
			cs.fail("Dlaln2", tag, "scale-out-of-range", "scale=%v", scale)
			continue
		}
		if !ok {
			// The system was perturbed: singular values below smin. Verify that
			// claim in the 1x1 case, otherwise skip.
			if na == 1 && cmplx.Abs(complex(ca*a.D[0]-wr*d1, -wi*d1)) >= 2*smin {
				cs.fail("Dlaln2", tag, "perturbed-although-above-smin", "ok=false")
			}
			continue
		}
		// Complex residual.
		dd := []float64{d1, d2}
		w := complex(wr, wi)
		var worst, xmax float64
		x := xb.get()
		for i := 0; i < na; i++ {
			var sum complex128
			for j := 0; j < na; j++ {
				aij := a.D[i*2+j]
				if trans {
					aij = a.D[j*2+i]
				}
				mij := complex(ca*aij, 0)
				if i == j {
					mij -= w * complex(dd[i], 0)
				}
				xj := complex(x.D[j*nw], 0)
				if nw == 2 {
					xj = complex(x.D[j*nw], x.D[j*nw+1])
				}
				sum += mij * xj
			}
			bi := complex(b.D[i*2], 0)
			if nw == 2 {
				bi = complex(b.D[i*2], b.D[i*2+1])
			}
			worst = math.Max(worst, cmplx.Abs(sum-complex(scale, 0)*bi))
		}
		for _, v := range x.D {
			xmax = math.Max(xmax, math.Abs(v))
		}
		den := (ca*a.NormInf()+cmplx.Abs(w)*2)*xmax + scale*b.MaxAbs()
		cs.band("Dlaln2", tag, "laln2-residual", worst, eps*math.Max(den, 1e-300), nil)
		cs.band("Dlaln2", tag, "laln2-xnorm", math.Abs(xnorm-x.NormInf()), eps*math.Max(x.NormInf(), 1e-300), nil)
	}

	// Dlaln2 with smin above every entry of ca A - w D: documented to solve with
	// smin*identity instead and to report ok = false. b and x have different
	// leading dimensions.
	for it := 0; it < count/5; it++ {
		na, nw := 1+it%2, 1+(it/2)%2
		trans := it%8 >= 4
		a := r22(1)
		b := r22(1)
		ca, d1, d2 := rng.Uniform(0.5, 2), rng.Uniform(0.5, 2), rng.Uniform(0.5, 2)
		wr, wi := rng.Sym(), 0.0
		if nw == 2 {
			wi = rng.Uniform(0.2, 1)
		}
		smin := 8 * (ca*a.MaxAbs() + 2*math.Hypot(wr, wi))
		ab := cs.matFrom("a", subMat(a, 0, na, 0, na), it%3)
		bb := cs.matFrom("b", subMat(b, 0, na, 0, nw), 1+it%2)
		xb := cs.mat("x", na, nw, 0)
		tag := fmt.Sprintf("na=%d nw=%d below-smin", na, nw)
		var scale, xnorm float64
		var ok bool
		if !cs.try("Dlaln2", tag, "grid", true, func() {
			scale, xnorm, ok = h.impl.Dlaln2(trans, na, nw, smin, ca, ab.s, ab.ld, d1, d2, bb.s, bb.ld, wr, wi, xb.s, xb.ld)
		}) {
			continue
		}
		if ok {
			cs.fail("Dlaln2", tag, "ok-true-although-below-smin", "all entries of ca A - w D are below smin=%v", smin)
			continue
		}
		// X = (scale / smin) B.
		want := ref.Scale(scale/smin, subMat(b, 0, na, 0, nw))
		cs.band("Dlaln2", tag, "laln2-perturbed-solution", ref.MaxDiff(xb.get(), want), eps*math.Max(want.MaxAbs(), 1e-300), nil)
		cs.band("Dlaln2", tag, "laln2-xnorm", math.Abs(xnorm-want.NormInf()), eps*math.Max(want.NormInf(), 1e-300), nil)
	}

	// Dlag2: eigenvalues of A - w B, B upper triangular.
	for it := 0; it < count; it++ {
		sa := math.Ldexp(1, rng.Range(-2, 2)*rng.Intn(2)*30)
		sb := math.Ldexp(1, rng.Range(-2, 2)*rng.Intn(2)*30)
		a, b := r22(sa), r22(sb)
		b.D[2] = 0
		for i := 0; i < 2; i++ { // diagonal of B not small relative to B
			b.D[i*2+i] = sb * rng.Uniform(0.5, 2) * []float64{1, -1}[rng.Intn(2)]
		}
		if it%5 == 0 {
			a.D[2] = -a.D[1] // likely complex pair
			a.D[3] = a.D[0]
		}
		pad := it % 2
		ab, bb := cs.matFrom("a", a, pad), cs.matFrom("b", b, pad)
		var s1, s2, wr1, wr2, wi float64
		if !cs.try("Dlag2", "", "grid", true, func() { s1, s2, wr1, wr2, wi = h.impl.Dlag2(ab.s, ab.ld, bb.s, bb.ld) }) {
			continue
		}
		in := fmt.Sprintf("A=%v B=%v -> scale1=%v scale2=%v wr1=%v wr2=%v wi=%v", a.D, b.D, s1, s2, wr1, wr2, wi)
		if wi < 0 || (wi != 0 && (wr1 != wr2 || s1 != s2)) {
			cs.fail("Dlag2", "", "complex-pair-conventions", "%s", in)
			continue
		}
		// det(s A - w B) must vanish relative to (|s| |A| + |w| |B|)².
		detRel := func(s float64, w complex128) float64 {
			var m [4]complex128
			var nrm float64
			for i := 0; i < 4; i++ {
				m[i] = complex(s*a.D[i], 0) - w*complex(b.D[i], 0)
			}
			nrm = math.Abs(s)*a.NormFro() + cmplx.Abs(w)*b.NormFro()
			if nrm == 0 {
				return math.Inf(1)
			}
			// Scale before forming the determinant.
			for i := range m {
				m[i] /= complex(nrm, 0)
			}
			return cmplx.Abs(m[0]*m[3] - m[1]*m[2])
		}
		v := detRel(s1, complex(wr1, wi))
		if wi == 0 {
			v = math.Max(v, detRel(s2, complex(wr2, 0)))
		}
		cs.band("Dlag2", "", "lag2-determinant-vanishes", v, eps, func() string { return in })
	}
}

func (h *H) planHelpers(add addFn) {
	idx := 0
	reps := h.pick(2, 6)
	for rep := 0; rep < reps; rep++ {
		idx++
		i := idx
		add("helpers", 2000000, func() { h.checkScalarHelpers(fmt.Sprintf("scalar helpers #%d", i), i) })
		add("solvers", 2000000, func() { h.check2x2Solvers(fmt.Sprintf("2x2 solvers #%d", i), i) })
	}
	shapes := [][2]int{{0, 0}, {1, 1}, {1, 5}, {5, 1}, {2, 2}, {3, 7}, {7, 3}, {16, 16}, {33, 20}, {20, 33}}
	if h.thorough() {
		shapes = append(shapes, [][2]int{{2, 9}, {9, 2}, {50, 50}, {75, 31}, {31, 75}, {100, 100}}...)
	}
	for _, sh := range shapes {
		for rep := 0; rep < reps; rep++ {
			idx++
			i, m, n := idx, sh[0], sh[1]
			add("lasr", m*n*max(m, n), func() { h.checkLasr(fmt.Sprintf("lasr %dx%d #%d", m, n, i), i, m, n) })
		}
	}
}
