// Package ref holds deliberately naive reference models used by the
// monitors as oracles. Nothing here calls gonum.
package ref

import (
	"math"
	"sort"
)

// M is a compact row-major dense matrix.
type M struct {
	R, C int
	D    []float64
}

// New returns a zero r x c matrix.
func New(r, c int) *M { return &M{R: r, C: c, D: make([]float64, r*c)} }

// FromFunc builds an r x c matrix from f(i,j).
func FromFunc(r, c int, f func(i, j int) float64) *M {
	m := New(r, c)
	for i := 0; i < r; i++ {
		for j := 0; j < c; j++ {
			m.D[i*c+j] = f(i, j)
		}
	}
	return m
}

// Ater is anything with Dims and At (mat.Matrix satisfies it).
type Ater interface {
	Dims() (int, int)
	At(i, j int) float64
}

// FromAt copies the values of a through Dims/At.
func FromAt(a Ater) *M {
	r, c := a.Dims()
	return FromFunc(r, c, a.At)
}

// Eye returns the n x n identity.
func Eye(n int) *M {
	m := New(n, n)
	for i := 0; i < n; i++ {
		m.D[i*n+i] = 1
	}
	return m
}

func (m *M) Dims() (int, int)       { return m.R, m.C }
func (m *M) At(i, j int) float64    { return m.D[i*m.C+j] }
func (m *M) Set(i, j int, v float64) { m.D[i*m.C+j] = v }

// Clone returns a deep copy.
func (m *M) Clone() *M {
	c := New(m.R, m.C)
	copy(c.D, m.D)
	return c
}

// T returns the transpose as a new matrix.
func (m *M) T() *M {
	t := New(m.C, m.R)
	for i := 0; i < m.R; i++ {
		for j := 0; j < m.C; j++ {
			t.D[j*m.R+i] = m.D[i*m.C+j]
		}
	}
	return t
}

// Mul returns a*b.
func Mul(a, b *M) *M {
	if a.C != b.R {
		panic("ref: Mul shape")
	}
	c := New(a.R, b.C)
	for i := 0; i < a.R; i++ {
		for k := 0; k < a.C; k++ {
			aik := a.D[i*a.C+k]
			if aik == 0 {
				continue
			}
			for j := 0; j < b.C; j++ {
				c.D[i*c.C+j] += aik * b.D[k*b.C+j]
			}
		}
	}
	return c
}

// MulAbs returns |a|*|b| (the companion matrix for rounding bands).
func MulAbs(a, b *M) *M {
	c := New(a.R, b.C)
	for i := 0; i < a.R; i++ {
		for k := 0; k < a.C; k++ {
			aik := math.Abs(a.D[i*a.C+k])
			for j := 0; j < b.C; j++ {
				c.D[i*c.C+j] += aik * math.Abs(b.D[k*b.C+j])
			}
		}
	}
	return c
}

// Add returns a+b.
func Add(a, b *M) *M {
	c := New(a.R, a.C)
	for i := range c.D {
		c.D[i] = a.D[i] + b.D[i]
	}
	return c
}

// Sub returns a-b.
func Sub(a, b *M) *M {
	c := New(a.R, a.C)
	for i := range c.D {
		c.D[i] = a.D[i] - b.D[i]
	}
	return c
}

// Scale returns s*a.
func Scale(s float64, a *M) *M {
	c := New(a.R, a.C)
	for i := range c.D {
		c.D[i] = s * a.D[i]
	}
	return c
}

// MaxAbs returns max |a_ij| (NaN if any entry is NaN).
func (m *M) MaxAbs() float64 {
	var mx float64
	for _, v := range m.D {
		if math.IsNaN(v) {
			return math.NaN()
		}
		if a := math.Abs(v); a > mx {
			mx = a
		}
	}
	return mx
}

// Norm1 returns the maximum absolute column sum.
func (m *M) Norm1() float64 {
	var mx float64
	for j := 0; j < m.C; j++ {
		var s float64
		for i := 0; i < m.R; i++ {
			s += math.Abs(m.D[i*m.C+j])
		}
		if s > mx || math.IsNaN(s) {
			mx = s
		}
	}
	return mx
}

// NormInf returns the maximum absolute row sum.
func (m *M) NormInf() float64 {
	var mx float64
	for i := 0; i < m.R; i++ {
		var s float64
		for j := 0; j < m.C; j++ {
			s += math.Abs(m.D[i*m.C+j])
		}
		if s > mx || math.IsNaN(s) {
			mx = s
		}
	}
	return mx
}

// NormFro returns the Frobenius norm (scaled to avoid overflow).
func (m *M) NormFro() float64 {
	mx := m.MaxAbs()
	if mx == 0 || math.IsNaN(mx) || math.IsInf(mx, 0) {
		return mx
	}
	var s float64
	for _, v := range m.D {
		t := v / mx
		s += t * t
	}
	return mx * math.Sqrt(s)
}

// HasNaN reports whether any entry is NaN.
func (m *M) HasNaN() bool {
	for _, v := range m.D {
		if math.IsNaN(v) {
			return true
		}
	}
	return false
}

// MaxDiff returns max |a_ij - b_ij|; +Inf if shapes differ or either has a
// NaN where the other does not.
func MaxDiff(a, b *M) float64 {
	if a.R != b.R || a.C != b.C {
		return math.Inf(1)
	}
	var mx float64
	for i := range a.D {
		x, y := a.D[i], b.D[i]
		if math.IsNaN(x) || math.IsNaN(y) {
			if math.IsNaN(x) && math.IsNaN(y) {
				continue
			}
			return math.Inf(1)
		}
		if x == y {
			continue
		}
		if d := math.Abs(x - y); d > mx || math.IsNaN(d) {
			mx = d
			if math.IsNaN(d) {
				return math.Inf(1)
			}
		}
	}
	return mx
}

// OrthoResid returns max |(QᵀQ - I)_ij| for the columns of q.
func OrthoResid(q *M) float64 {
	g := Mul(q.T(), q)
	for i := 0; i < g.R; i++ {
		g.D[i*g.C+i] -= 1
	}
	return g.MaxAbs()
}

// Triu returns the upper triangle (including the diagonal) of a as a new
// matrix of the same shape.
func Triu(a *M) *M {
	c := New(a.R, a.C)
	for i := 0; i < a.R; i++ {
		for j := i; j < a.C; j++ {
			c.D[i*a.C+j] = a.D[i*a.C+j]
		}
	}
	return c
}

// Tril returns the lower triangle (including the diagonal).
func Tril(a *M) *M {
	c := New(a.R, a.C)
	for i := 0; i < a.R; i++ {
		for j := 0; j <= i && j < a.C; j++ {
			c.D[i*a.C+j] = a.D[i*a.C+j]
		}
	}
	return c
}

// SymEig computes the eigen-decomposition of the symmetric matrix a by the
// cyclic Jacobi method: a = V diag(w) Vᵀ with w ascending.
func SymEig(a *M) (w []float64, v *M) {
	n := a.R
	s := a.Clone()
	// symmetrise defensively
	for i := 0; i < n; i++ {
		for j := i + 1; j < n; j++ {
			x := 0.5 * (s.D[i*n+j] + s.D[j*n+i])
			s.D[i*n+j], s.D[j*n+i] = x, x
		}
	}
	v = Eye(n)
	for sweep := 0; sweep < 100; sweep++ {
		var off, diag float64
		for i := 0; i < n; i++ {
			diag += s.D[i*n+i] * s.D[i*n+i]
			for j := i + 1; j < n; j++ {
				off += s.D[i*n+j] * s.D[i*n+j]
			}
		}
		if off == 0 || off <= 1e-34*(diag+off) {
			break
		}
		for p := 0; p < n-1; p++ {
			for q := p + 1; q < n; q++ {
				apq := s.D[p*n+q]
				if apq == 0 {
					continue
				}
				app, aqq := s.D[p*n+p], s.D[q*n+q]
				theta := (aqq - app) / (2 * apq)
				var t float64
				if math.IsInf(theta, 0) {
					t = 0
				} else if theta >= 0 {
					t = 1 / (theta + math.Sqrt(1+theta*theta))
				} else {
					t = -1 / (-theta + math.Sqrt(1+theta*theta))
				}
				c := 1 / math.Sqrt(1+t*t)
				sn := t * c
				for k := 0; k < n; k++ {
					akp, akq := s.D[k*n+p], s.D[k*n+q]
					s.D[k*n+p] = c*akp - sn*akq
					s.D[k*n+q] = sn*akp + c*akq
				}
				for k := 0; k < n; k++ {
					apk, aqk := s.D[p*n+k], s.D[q*n+k]
					s.D[p*n+k] = c*apk - sn*aqk
					s.D[q*n+k] = sn*apk + c*aqk
				}
				for k := 0; k < n; k++ {
					vkp, vkq := v.D[k*n+p], v.D[k*n+q]
					v.D[k*n+p] = c*vkp - sn*vkq
					v.D[k*n+q] = sn*vkp + c*vkq
				}
			}
		}
	}
	w = make([]float64, n)
	idx := make([]int, n)
	for i := range w {
		w[i] = s.D[i*n+i]
		idx[i] = i
	}
	sort.Slice(idx, func(x, y int) bool { return w[idx[x]] < w[idx[y]] })
	ws := make([]float64, n)
	vs := New(n, n)
	for k, i := range idx {
		ws[k] = w[i]
		for r := 0; r < n; r++ {
			vs.D[r*n+k] = v.D[r*n+i]
		}
	}
	return ws, vs
}

// SVD computes the thin singular value decomposition a = U diag(s) Vᵀ by
// one-sided Jacobi (Hestenes): U is m x k, V is n x k, k = min(m,n),
// s non-negative descending. Columns of U belonging to zero singular values
// are zero (not orthonormalised).
func SVD(a *M) (u *M, s []float64, v *M) {
	if a.R < a.C {
		v2, s2, u2 := SVD(a.T())
		return u2, s2, v2
	}
	m, n := a.R, a.C
	w := a.Clone()
	vv := Eye(n)
	for sweep := 0; sweep < 120; sweep++ {
		rotated := false
		for p := 0; p < n-1; p++ {
			for q := p + 1; q < n; q++ {
				var alpha, beta, gamma float64
				for i := 0; i < m; i++ {
					x, y := w.D[i*n+p], w.D[i*n+q]
					alpha += x * x
					beta += y * y
					gamma += x * y
				}
				if gamma == 0 || math.Abs(gamma) <= 1e-17*math.Sqrt(alpha*beta) {
					continue
				}
				rotated = true
				zeta := (beta - alpha) / (2 * gamma)
				var t float64
				if zeta >= 0 {
					t = 1 / (zeta + math.Sqrt(1+zeta*zeta))
				} else {
					t = -1 / (-zeta + math.Sqrt(1+zeta*zeta))
				}
				c := 1 / math.Sqrt(1+t*t)
				sn := c * t
				for i := 0; i < m; i++ {
					x, y := w.D[i*n+p], w.D[i*n+q]
					w.D[i*n+p] = c*x - sn*y
					w.D[i*n+q] = sn*x + c*y
				}
				for i := 0; i < n; i++ {
					x, y := vv.D[i*n+p], vv.D[i*n+q]
					vv.D[i*n+p] = c*x - sn*y
					vv.D[i*n+q] = sn*x + c*y
				}
			}
		}
		if !rotated {
			break
		}
	}
	sv := make([]float64, n)
	idx := make([]int, n)
	for j := 0; j < n; j++ {
		var ss float64
		for i := 0; i < m; i++ {
			ss += w.D[i*n+j] * w.D[i*n+j]
		}
		sv[j] = math.Sqrt(ss)
		idx[j] = j
	}
	sort.Slice(idx, func(x, y int) bool { return sv[idx[x]] > sv[idx[y]] })
	u = New(m, n)
	v = New(n, n)
	s = make([]float64, n)
	for k, j := range idx {
		s[k] = sv[j]
		for i := 0; i < m; i++ {
			if sv[j] > 0 {
				u.D[i*n+k] = w.D[i*n+j] / sv[j]
			}
		}
		for i := 0; i < n; i++ {
			v.D[i*n+k] = vv.D[i*n+j]
		}
	}
	return u, s, v
}

// SingularValues returns the singular values of a, descending.
func SingularValues(a *M) []float64 {
	_, s, _ := SVD(a)
	return s
}

// Cond2 returns the 2-norm condition number of a (Inf if singular).
func Cond2(a *M) float64 {
	s := SingularValues(a)
	if len(s) == 0 {
		return 1
	}
	if s[len(s)-1] == 0 {
		return math.Inf(1)
	}
	return s[0] / s[len(s)-1]
}

// LU computes PA = LU with partial pivoting in place on a copy; returns the
// combined factors, the pivot rows (piv[i] = row swapped with i), the sign
// of the permutation and whether an exactly zero pivot was met.
func LU(a *M) (lu *M, piv []int, sign float64, singular bool) {
	n := a.R
	lu = a.Clone()
	piv = make([]int, n)
	sign = 1
	for k := 0; k < n; k++ {
		p := k
		mx := math.Abs(lu.D[k*n+k])
		for i := k + 1; i < n; i++ {
			if v := math.Abs(lu.D[i*n+k]); v > mx {
				mx, p = v, i
			}
		}
		piv[k] = p
		if mx == 0 {
			singular = true
			continue
		}
		if p != k {
			for j := 0; j < n; j++ {
				lu.D[k*n+j], lu.D[p*n+j] = lu.D[p*n+j], lu.D[k*n+j]
			}
			sign = -sign
		}
		for i := k + 1; i < n; i++ {
			lu.D[i*n+k] /= lu.D[k*n+k]
			l := lu.D[i*n+k]
			if l == 0 {
				continue
			}
			for j := k + 1; j < n; j++ {
				lu.D[i*n+j] -= l * lu.D[k*n+j]
			}
		}
	}
	return lu, piv, sign, singular
}

// Solve solves a x = b for square a by LU with partial pivoting and two
// steps of iterative refinement; ok is false if a zero pivot was met.
func Solve(a, b *M) (x *M, ok bool) {
	n := a.R
	lu, piv, _, sing := LU(a)
	if sing {
		return nil, false
	}
	solve := func(rhs *M) *M {
		y := rhs.Clone()
		for k := 0; k < n; k++ {
			if p := piv[k]; p != k {
				for j := 0; j < y.C; j++ {
					y.D[k*y.C+j], y.D[p*y.C+j] = y.D[p*y.C+j], y.D[k*y.C+j]
				}
			}
		}
		for j := 0; j < y.C; j++ {
			for i := 0; i < n; i++ {
				s := y.D[i*y.C+j]
				for k := 0; k < i; k++ {
					s -= lu.D[i*n+k] * y.D[k*y.C+j]
				}
				y.D[i*y.C+j] = s
			}
			for i := n - 1; i >= 0; i-- {
				s := y.D[i*y.C+j]
				for k := i + 1; k < n; k++ {
					s -= lu.D[i*n+k] * y.D[k*y.C+j]
				}
				y.D[i*y.C+j] = s / lu.D[i*n+i]
			}
		}
		return y
	}
	x = solve(b)
	for it := 0; it < 2; it++ {
		r := Sub(b, Mul(a, x))
		d := solve(r)
		x = Add(x, d)
	}
	return x, true
}

// Det returns the determinant of square a via LU.
func Det(a *M) float64 {
	lu, _, sign, sing := LU(a)
	if sing {
		return 0
	}
	d := sign
	for i := 0; i < a.R; i++ {
		d *= lu.D[i*a.C+i]
	}
	return d
}

// Inverse returns a⁻¹ (ok=false if exactly singular).
func Inverse(a *M) (*M, bool) { return Solve(a, Eye(a.R)) }

// PseudoInverse returns the Moore-Penrose pseudo-inverse with singular
// values <= rcond*s_max treated as zero.
func PseudoInverse(a *M, rcond float64) *M {
	u, s, v := SVD(a)
	k := len(s)
	p := New(a.C, a.R)
	if k == 0 || s[0] == 0 {
		return p
	}
	for t := 0; t < k; t++ {
		if s[t] <= rcond*s[0] {
			break
		}
		for i := 0; i < a.C; i++ {
			vi := v.D[i*v.C+t] / s[t]
			if vi == 0 {
				continue
			}
			for j := 0; j < a.R; j++ {
				p.D[i*p.C+j] += vi * u.D[j*u.C+t]
			}
		}
	}
	return p
}

// IsUpperTri reports whether all entries strictly below the diagonal are
// exactly zero.
func IsUpperTri(a *M) bool {
	for i := 0; i < a.R; i++ {
		for j := 0; j < i && j < a.C; j++ {
			if a.D[i*a.C+j] != 0 {
				return false
			}
		}
	}
	return true
}

// IsLowerTri reports whether all entries strictly above the diagonal are
// exactly zero.
func IsLowerTri(a *M) bool {
	for i := 0; i < a.R; i++ {
		for j := i + 1; j < a.C; j++ {
			if a.D[i*a.C+j] != 0 {
				return false
			}
		}
	}
	return true
}
