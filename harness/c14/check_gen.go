package main

import (
	"fmt"
	"math"
	"math/bits"

	"gonum.org/v1/gonum/graph"
	"gonum.org/v1/gonum/graph/graphs/gen"
	"gonum.org/v1/gonum/graph/multi"
	"gonum.org/v1/gonum/graph/simple"
	"gonum.org/v1/gonum/verifx/vrt"
)

// readBack converts a gonum simple graph into the model.
func readBack(g graph.Graph, dir bool) *G {
	nodes := graph.NodesOf(g.Nodes())
	m := newG(len(nodes), dir)
	for i, n := range nodes {
		m.IDs[i] = n.ID()
	}
	idx := m.Index()
	for i, n := range nodes {
		for _, v := range graph.NodesOf(g.From(n.ID())) {
			j := idx[v.ID()]
			if i == j {
				m.IDs = nil // self loop marker
				return m
			}
			m.Adj[i] |= 1 << uint(j)
		}
	}
	return m
}

func edgeSetKey(g *G) []string {
	var out []string
	for _, e := range g.Edges() {
		a, b := g.IDs[e[0]], g.IDs[e[1]]
		if !g.Dir && a > b {
			a, b = b, a
		}
		out = append(out, fmt.Sprintf("%d>%d", a, b))
	}
	sortStrings(out)
	return out
}

type genCtx struct {
	c  *vrt.Ctx
	wl string
}

func (gc genCtx) fail(sig string, args map[string]any, format string, a ...any) {
	args["workload"] = gc.wl
	args["seed"] = gc.c.Seed
	gc.c.Violation(sig, fmt.Sprintf(format, a...), args)
}

func randomIDs(r *vrt.Rand, n int) []int64 {
	seen := map[int64]bool{}
	out := make([]int64, 0, n)
	for len(out) < n {
		id := int64(r.Range(-40, 40))
		if !seen[id] {
			seen[id] = true
			out = append(out, id)
		}
	}
	return out
}

// checkDeterministicGen: Complete/Cycle/Path/Star/Wheel/Tree produce exactly
// the documented edge set, for directed and undirected destinations.
func checkDeterministicGen(c *vrt.Ctx, r *vrt.Rand, n int, useRange bool) {
	gc := genCtx{c, "gen-deterministic"}
	for _, dir := range []bool{false, true} {
		kind := "undirected"
		if dir {
			kind = "directed"
		}
		mk := func() gen.NodeIDGraphBuilder {
			if dir {
				return simple.NewDirectedGraph()
			}
			return simple.NewUndirectedGraph()
		}
		var ids []int64
		var ider gen.IDer
		if useRange {
			first := int64(r.Range(-20, 20))
			ider = gen.IDRange{First: first, Last: first + int64(n) - 1}
			for i := 0; i < n; i++ {
				ids = append(ids, first+int64(i))
			}
		} else {
			ids = randomIDs(r, n)
			ider = gen.IDSet(ids)
		}
		center := int64(1000)
		type spec struct {
			name  string
			run   func(dst gen.NodeIDGraphBuilder)
			nodes []int64
			edges [][2]int64
		}
		var specs []spec
		// Complete: all pairs, earlier -> later
		{
			var es [][2]int64
			for i := 0; i < n; i++ {
				for j := i + 1; j < n; j++ {
					es = append(es, [2]int64{ids[i], ids[j]})
				}
			}
			specs = append(specs, spec{"Complete", func(d gen.NodeIDGraphBuilder) { gen.Complete(d, ider) }, ids, es})
		}
		{
			var es [][2]int64
			if n >= 2 {
				for i := 0; i < n; i++ {
					es = append(es, [2]int64{ids[i], ids[(i+1)%n]})
				}
			}
			specs = append(specs, spec{"Cycle", func(d gen.NodeIDGraphBuilder) { gen.Cycle(d, ider) }, ids, es})
		}
		{
			var es [][2]int64
			for i := 0; i+1 < n; i++ {
				es = append(es, [2]int64{ids[i], ids[i+1]})
			}
			specs = append(specs, spec{"Path", func(d gen.NodeIDGraphBuilder) { gen.Path(d, ider) }, ids, es})
		}
		{
			var es [][2]int64
			for i := 0; i < n; i++ {
				es = append(es, [2]int64{center, ids[i]})
			}
			specs = append(specs, spec{"Star", func(d gen.NodeIDGraphBuilder) { gen.Star(d, center, ider) }, append([]int64{center}, ids...), es})
		}
		{
			var es [][2]int64
			for i := 0; i < n; i++ {
				es = append(es, [2]int64{center, ids[i]})
			}
			if n >= 2 {
				for i := 0; i < n; i++ {
					es = append(es, [2]int64{ids[i], ids[(i+1)%n]})
				}
			}
			specs = append(specs, spec{"Wheel", func(d gen.NodeIDGraphBuilder) { gen.Wheel(d, center, ider) }, append([]int64{center}, ids...), es})
		}
		for _, fan := range []int{1, 2, 3} {
			if n >= 2 && fan >= n {
				continue // documented panic: fan-out must be less than the number of nodes
			}
			fan := fan
			var es [][2]int64
			for j := 1; j < n; j++ {
				es = append(es, [2]int64{ids[(j-1)/fan], ids[j]})
			}
			specs = append(specs, spec{fmt.Sprintf("Tree-%d", fan), func(d gen.NodeIDGraphBuilder) { gen.Tree(d, fan, ider) }, ids, es})
		}
		for _, s := range specs {
			dst := mk()
			c.LastCase(fmt.Sprintf("gen.%s %s ids=%v", s.name, kind, ids))
			args := map[string]any{"routine": s.name, "ids": ids, "center": center, "kind": kind}
			if p := vrt.Try(func() { s.run(dst) }); p != nil {
				gc.fail("gen."+s.name+"|"+kind+"|panic", args, "gen.%s panicked on distinct ids %v: %s", s.name, ids, p.Msg)
				continue
			}
			rname := s.name
			if len(rname) > 4 && rname[:4] == "Tree" {
				rname = "Tree"
			}
			c.Eval(fmt.Sprintf("gen.%s|%s|%s|range=%v", s.name, kind, sizeClass(n), useRange), n >= 2)
			c.Count("calls.gen."+rname, 1)
			got := readBack(dst.(graph.Graph), dir)
			if got.IDs == nil {
				gc.fail("gen."+rname+"|"+kind+"|self-loop", args, "gen.%s produced a self loop", s.name)
				continue
			}
			want := newG(len(s.nodes), dir)
			copy(want.IDs, s.nodes)
			if n == 0 && (rname == "Star" || rname == "Wheel") {
				want = newG(1, dir)
				want.IDs[0] = center
			}
			wi := want.Index()
			for _, e := range s.edges {
				if e[0] != e[1] {
					want.Set(wi[e[0]], wi[e[1]])
				}
			}
			args["edges"] = edgeSetKey(got)
			if keyOf(sortedCopy(got.IDs)) != keyOf(sortedCopy(want.IDs)) {
				gc.fail("gen."+rname+"|"+kind+"|node-set-differs", args, "gen.%s nodes %v want %v", s.name, sortedCopy(got.IDs), sortedCopy(want.IDs))
				continue
			}
			if a, b := edgeSetKey(got), edgeSetKey(want); !equalStrings(a, b) {
				gc.fail("gen."+rname+"|"+kind+"|edge-set-differs", args, "gen.%s(%v) edges %v want %v", s.name, ids, a, b)
			}
		}
		// documented panic on a repeated ID
		if n >= 3 {
			dup := append([]int64(nil), ids...)
			dup[n-1] = dup[0]
			for _, s := range []struct {
				name string
				run  func(d gen.NodeIDGraphBuilder)
			}{
				{"Complete", func(d gen.NodeIDGraphBuilder) { gen.Complete(d, gen.IDSet(dup)) }},
				{"Cycle", func(d gen.NodeIDGraphBuilder) { gen.Cycle(d, gen.IDSet(dup)) }},
				{"Path", func(d gen.NodeIDGraphBuilder) { gen.Path(d, gen.IDSet(dup)) }},
				{"Star", func(d gen.NodeIDGraphBuilder) { gen.Star(d, center, gen.IDSet(dup)) }},
				{"Star", func(d gen.NodeIDGraphBuilder) { gen.Star(d, ids[1], gen.IDSet(ids)) }},
				{"Wheel", func(d gen.NodeIDGraphBuilder) { gen.Wheel(d, center, gen.IDSet(dup)) }},
				{"Tree", func(d gen.NodeIDGraphBuilder) { gen.Tree(d, 2, gen.IDSet(dup)) }},
			} {
				p := vrt.Try(func() { s.run(mk()) })
				c.Eval("gen."+s.name+"|duplicate-id|"+kind, true)
				if p == nil {
					gc.fail("gen."+s.name+"|duplicate-id|no-panic", map[string]any{"ids": dup, "kind": kind}, "gen.%s accepted the repeated ID in %v", s.name, dup)
				}
			}
		}
	}
}

// checkGnm: exactly m edges on n nodes, simple.
func checkGnm(c *vrt.Ctx, r *vrt.Rand, n, m int, dir bool) {
	gc := genCtx{c, "gen-gnm"}
	kind := "undirected"
	var dst gen.GraphBuilder = simple.NewUndirectedGraph()
	if dir {
		kind = "directed"
		dst = simple.NewDirectedGraph()
	}
	args := map[string]any{"n": n, "m": m, "kind": kind}
	var err error
	c.LastCase(fmt.Sprintf("gen.Gnm n=%d m=%d %s", n, m, kind))
	if p := vrt.Try(func() { err = gen.Gnm(dst, n, m, vrt.NewRand(r.Uint64())) }); p != nil {
		gc.fail("gen.Gnm|"+kind+"|panic", args, "Gnm(n=%d,m=%d) panicked: %s", n, m, p.Msg)
		return
	}
	max := n * (n - 1) / 2
	if dir {
		max *= 2
	}
	c.Eval(fmt.Sprintf("gen.Gnm|%s|%s|fill=%d", kind, sizeClass(n), fillClass(m, max)), m > 0)
	c.Count("calls.gen.Gnm", 1)
	if m < 0 || m > max {
		if err == nil {
			cls := "impossible-size-accepted"
			if dir && m == max+1 {
				cls = "odd-size-short-by-one" // m is halved with truncation before the range check
			}
			gc.fail("gen.Gnm|"+kind+"|"+cls, args, "Gnm(n=%d,m=%d) returned no error although at most %d edges fit", n, m, max)
		}
		return
	}
	if err != nil {
		gc.fail("gen.Gnm|"+kind+"|unexpected-error", args, "Gnm(n=%d,m=%d): %v", n, m, err)
		return
	}
	got := readBack(dst.(graph.Graph), dir)
	if got.IDs == nil {
		gc.fail("gen.Gnm|"+kind+"|self-loop", args, "Gnm produced a self loop")
		return
	}
	args["edges"] = edgeSetKey(got)
	if got.N != n {
		gc.fail("gen.Gnm|"+kind+"|order-differs", args, "Gnm(n=%d,m=%d) has %d nodes", n, m, got.N)
		return
	}
	if got.M() != m {
		cls := "size-differs"
		if dir && m%2 == 1 && got.M() == m-1 {
			cls = "odd-size-short-by-one"
		}
		gc.fail("gen.Gnm|"+kind+"|"+cls, args, "Gnm(n=%d,m=%d) has %d edges", n, m, got.M())
	}
}

func fillClass(m, max int) int {
	if max <= 0 {
		return 0
	}
	return 4 * m / (max + 1)
}

// checkGnpExact: p=0 gives no edge, p=1 gives the complete graph.
func checkGnpExact(c *vrt.Ctx, r *vrt.Rand, n int, p float64, dir bool) {
	gc := genCtx{c, "gen-gnp"}
	kind := "undirected"
	var dst graph.Builder = simple.NewUndirectedGraph()
	if dir {
		kind = "directed"
		dst = simple.NewDirectedGraph()
	}
	args := map[string]any{"n": n, "p": p, "kind": kind}
	var err error
	if pi := vrt.Try(func() { err = gen.Gnp(dst, n, p, vrt.NewRand(r.Uint64())) }); pi != nil {
		gc.fail("gen.Gnp|"+kind+"|panic", args, "Gnp(n=%d,p=%v) panicked: %s", n, p, pi.Msg)
		return
	}
	c.Eval(fmt.Sprintf("gen.Gnp|%s|%s|p=%v", kind, sizeClass(n), p), n > 1)
	c.Count("calls.gen.Gnp", 1)
	if err != nil {
		gc.fail("gen.Gnp|"+kind+"|unexpected-error", args, "Gnp(n=%d,p=%v): %v", n, p, err)
		return
	}
	got := readBack(dst.(graph.Graph), dir)
	want := 0
	if p == 1 {
		want = n * (n - 1) / 2
		if dir {
			want *= 2
		}
	}
	if got.IDs == nil || got.N != n || got.M() != want {
		gc.fail(fmt.Sprintf("gen.Gnp|%s|p=%v-not-exact", kind, p), args, "Gnp(n=%d,p=%v) has %d nodes and %d edges, want %d and %d", n, p, got.N, got.M(), n, want)
	}
}

// gnpZ is the half-width, in standard deviations, of the acceptance band for
// Gnp pair frequencies. With T trials per configuration each pair frequency
// is Binomial(T,p); 7 sigma (plus one count of slack) over the few thousand
// pair statistics evaluated per run gives a false-alarm probability below
// 1e-8 per run, while the breaks aimed at (skip length off by one, wrong
// triangular index, missing backward pass) shift frequencies by O(T*p).
const gnpZ = 7.0

// checkGnpBand: per-pair edge frequency over T seeded runs stays in a
// binomial band around p, for every pair (so position-dependent errors in
// the skip arithmetic are visible, not only the total).
func checkGnpBand(c *vrt.Ctx, r *vrt.Rand, n int, p float64, dir bool, trials int) {
	gc := genCtx{c, "gen-gnp"}
	kind := "undirected"
	if dir {
		kind = "directed"
	}
	args := map[string]any{"n": n, "p": p, "kind": kind, "trials": trials}
	freq := make([][]int, n)
	for i := range freq {
		freq[i] = make([]int, n)
	}
	total := 0
	for t := 0; t < trials; t++ {
		var dst graph.Builder = simple.NewUndirectedGraph()
		if dir {
			dst = simple.NewDirectedGraph()
		}
		var err error
		if pi := vrt.Try(func() { err = gen.Gnp(dst, n, p, vrt.NewRand(r.Uint64())) }); pi != nil || err != nil {
			gc.fail("gen.Gnp|"+kind+"|panic-or-error", args, "Gnp(n=%d,p=%v) failed: %v %v", n, p, pi, err)
			return
		}
		got := readBack(dst.(graph.Graph), dir)
		if got.IDs == nil || got.N != n {
			gc.fail("gen.Gnp|"+kind+"|order-differs-or-self-loop", args, "Gnp(n=%d,p=%v) malformed", n, p)
			return
		}
		// node IDs of a fresh simple graph are 0..n-1 in creation order
		for _, e := range got.Edges() {
			a, b := got.IDs[e[0]], got.IDs[e[1]]
			if a < 0 || b < 0 || a >= int64(n) || b >= int64(n) {
				gc.fail("gen.Gnp|"+kind+"|unexpected-node-id", args, "node IDs %d,%d outside 0..n-1", a, b)
				return
			}
			freq[a][b]++
			total++
		}
	}
	c.EvalN(fmt.Sprintf("gen.Gnp|%s|%s|p=%.2f|band", kind, sizeClass(n), p), trials, true)
	c.Count("calls.gen.Gnp", int64(trials))
	sd := math.Sqrt(float64(trials) * p * (1 - p))
	lo, hi := float64(trials)*p-gnpZ*sd-1, float64(trials)*p+gnpZ*sd+1
	for i := 0; i < n; i++ {
		for j := 0; j < n; j++ {
			if i == j || (!dir && i > j) {
				continue
			}
			f := freq[i][j]
			if !dir {
				f += freq[j][i]
			}
			if float64(f) < lo || float64(f) > hi {
				args["pair"] = [2]int{i, j}
				args["frequency"] = f
				gc.fail("gen.Gnp|"+kind+"|pair-frequency-outside-binomial-band", args,
					"Gnp(n=%d,p=%v): pair (%d,%d) present in %d of %d runs, band [%.1f,%.1f]", n, p, i, j, f, trials, lo, hi)
				return
			}
		}
	}
	pairs := n * (n - 1) / 2
	if dir {
		pairs *= 2
	}
	N := float64(pairs * trials)
	tsd := math.Sqrt(N * p * (1 - p))
	if d := math.Abs(float64(total) - N*p); d > gnpZ*tsd+1 {
		args["total"] = total
		gc.fail("gen.Gnp|"+kind+"|edge-count-outside-binomial-band", args, "Gnp(n=%d,p=%v): %d edges over %d runs, expected %.1f +- %.1f", n, p, total, trials, N*p, gnpZ*tsd)
	}
}

// checkAttachmentFamilies: order/size/degree invariants that the documented
// constructions fix exactly.
func checkAttachmentFamilies(c *vrt.Ctx, r *vrt.Rand, n, m int) {
	gc := genCtx{c, "gen-families"}
	// PreferentialAttachment: n nodes; every node v>=m attaches to m distinct
	// earlier nodes; size (n-m)*m.
	{
		dst := simple.NewUndirectedGraph()
		args := map[string]any{"n": n, "m": m}
		var err error
		if p := vrt.Try(func() { err = gen.PreferentialAttachment(dst, n, m, vrt.NewRand(r.Uint64())) }); p != nil {
			gc.fail("gen.PreferentialAttachment|panic", args, "PreferentialAttachment(n=%d,m=%d) panicked: %s", n, m, p.Msg)
		} else {
			c.Eval(fmt.Sprintf("gen.PreferentialAttachment|%s|m=%d", sizeClass(n), m), true)
			c.Count("calls.gen.PreferentialAttachment", 1)
			got := readBack(dst, false)
			switch {
			case err != nil:
				gc.fail("gen.PreferentialAttachment|unexpected-error", args, "PreferentialAttachment(n=%d,m=%d): %v", n, m, err)
			case got.IDs == nil || got.N != n:
				gc.fail("gen.PreferentialAttachment|order-differs", args, "PreferentialAttachment(n=%d,m=%d) has %d nodes", n, m, got.N)
			case got.M() != (n-m)*m:
				gc.fail("gen.PreferentialAttachment|size-differs", args, "PreferentialAttachment(n=%d,m=%d) has %d edges, want %d", n, m, got.M(), (n-m)*m)
			default:
				for i, id := range got.IDs {
					if id < int64(m) {
						continue
					}
					earlier := 0
					for a := got.Adj[i]; a != 0; a &= a - 1 {
						if got.IDs[bits.TrailingZeros64(a)] < id {
							earlier++
						}
					}
					if earlier != m {
						gc.fail("gen.PreferentialAttachment|new-node-not-attached-to-m-earlier-nodes", args, "node %d has %d earlier neighbours, want %d", id, earlier, m)
						break
					}
				}
			}
		}
	}
	// TunableClusteringScaleFree: n nodes, (n-m)*m edges when it succeeds.
	for _, p := range []float64{0, 0.5, 1} {
		dst := simple.NewUndirectedGraph()
		args := map[string]any{"n": n, "m": m, "p": p}
		var err error
		if pi := vrt.Try(func() { err = gen.TunableClusteringScaleFree(dst, n, m, p, vrt.NewRand(r.Uint64())) }); pi != nil {
			gc.fail("gen.TunableClusteringScaleFree|panic", args, "TunableClusteringScaleFree(n=%d,m=%d,p=%v) panicked: %s", n, m, p, pi.Msg)
			continue
		}
		c.Eval(fmt.Sprintf("gen.TunableClusteringScaleFree|%s|m=%d|p=%v|err=%v", sizeClass(n), m, p, err != nil), true)
		c.Count("calls.gen.TunableClusteringScaleFree", 1)
		if err != nil {
			continue // "depleted distribution" is a documented way out
		}
		got := readBack(dst, false)
		if got.IDs == nil || got.N != n {
			gc.fail("gen.TunableClusteringScaleFree|order-differs", args, "TunableClusteringScaleFree(n=%d,m=%d,p=%v) has %d nodes", n, m, p, got.N)
		} else if got.M() != (n-m)*m {
			gc.fail("gen.TunableClusteringScaleFree|size-differs", args, "TunableClusteringScaleFree(n=%d,m=%d,p=%v) has %d edges, want %d", n, m, p, got.M(), (n-m)*m)
		}
	}
	// PowerLaw: n nodes, n*d lines, every node has degree >= d.
	{
		d := m
		dst := multi.NewUndirectedGraph()
		args := map[string]any{"n": n, "d": d}
		var err error
		if pi := vrt.Try(func() { err = gen.PowerLaw(dst, n, d, vrt.NewRand(r.Uint64())) }); pi != nil {
			gc.fail("gen.PowerLaw|panic", args, "PowerLaw(n=%d,d=%d) panicked: %s", n, d, pi.Msg)
		} else {
			c.Eval(fmt.Sprintf("gen.PowerLaw|%s|d=%d", sizeClass(n), d), true)
			c.Count("calls.gen.PowerLaw", 1)
			nodes := graph.NodesOf(dst.Nodes())
			lines := 0
			deg := map[int64]int{}
			es := dst.Edges()
			for es.Next() {
				ls := graph.LinesOf(es.Edge().(multi.Edge))
				for _, l := range ls {
					lines++
					deg[l.From().ID()]++
					deg[l.To().ID()]++
				}
			}
			switch {
			case err != nil:
				gc.fail("gen.PowerLaw|unexpected-error", args, "PowerLaw(n=%d,d=%d): %v", n, d, err)
			case len(nodes) != n:
				gc.fail("gen.PowerLaw|order-differs", args, "PowerLaw(n=%d,d=%d) has %d nodes", n, d, len(nodes))
			case lines != n*d:
				gc.fail("gen.PowerLaw|size-differs", args, "PowerLaw(n=%d,d=%d) has %d lines, want %d", n, d, lines, n*d)
			default:
				for _, u := range nodes {
					if deg[u.ID()] < d {
						gc.fail("gen.PowerLaw|node-below-minimum-degree", args, "PowerLaw(n=%d,d=%d): node %d has degree %d", n, d, u.ID(), deg[u.ID()])
						break
					}
				}
			}
		}
	}
	// BipartitePowerLaw: 2n nodes, 2nd lines, every line joins p1 and p2.
	{
		d := m
		dst := multi.NewUndirectedGraph()
		args := map[string]any{"n": n, "d": d}
		var p1, p2 []graph.Node
		var err error
		if pi := vrt.Try(func() { p1, p2, err = gen.BipartitePowerLaw(dst, n, d, vrt.NewRand(r.Uint64())) }); pi != nil {
			gc.fail("gen.BipartitePowerLaw|panic", args, "BipartitePowerLaw(n=%d,d=%d) panicked: %s", n, d, pi.Msg)
		} else {
			c.Eval(fmt.Sprintf("gen.BipartitePowerLaw|%s|d=%d", sizeClass(n), d), true)
			c.Count("calls.gen.BipartitePowerLaw", 1)
			side := map[int64]int{}
			for _, u := range p1 {
				side[u.ID()] = 1
			}
			for _, u := range p2 {
				side[u.ID()] |= 2
			}
			lines := 0
			ok := true
			es := dst.Edges()
			for es.Next() && ok {
				for _, l := range graph.LinesOf(es.Edge().(multi.Edge)) {
					lines++
					if side[l.From().ID()]|side[l.To().ID()] != 3 || side[l.From().ID()] == 3 || side[l.To().ID()] == 3 {
						gc.fail("gen.BipartitePowerLaw|line-inside-one-part", args, "line %d-%d does not join the two parts", l.From().ID(), l.To().ID())
						ok = false
						break
					}
				}
			}
			switch {
			case !ok:
			case err != nil:
				gc.fail("gen.BipartitePowerLaw|unexpected-error", args, "BipartitePowerLaw(n=%d,d=%d): %v", n, d, err)
			case len(p1) != n || len(p2) != n || dst.Nodes().Len() != 2*n:
				gc.fail("gen.BipartitePowerLaw|order-differs", args, "BipartitePowerLaw(n=%d,d=%d): parts %d,%d nodes %d", n, d, len(p1), len(p2), dst.Nodes().Len())
			case lines != 2*n*d:
				gc.fail("gen.BipartitePowerLaw|size-differs", args, "BipartitePowerLaw(n=%d,d=%d) has %d lines, want %d", n, d, lines, 2*n*d)
			}
		}
	}
	// Duplication: order n, simple, every node attached (connected).
	{
		dst := simple.NewUndirectedGraph()
		delta, alpha, sigma := r.Float64(), 0.05+0.95*r.Float64(), r.Float64()
		args := map[string]any{"n": n, "delta": delta, "alpha": alpha, "sigma": sigma}
		var err error
		if pi := vrt.Try(func() { err = gen.Duplication(dst, n, delta, alpha, sigma, vrt.NewRand(r.Uint64())) }); pi != nil {
			gc.fail("gen.Duplication|panic", args, "Duplication panicked: %s", pi.Msg)
		} else {
			c.Eval(fmt.Sprintf("gen.Duplication|%s", sizeClass(n)), true)
			c.Count("calls.gen.Duplication", 1)
			got := readBack(dst, false)
			switch {
			case err != nil:
				gc.fail("gen.Duplication|unexpected-error", args, "Duplication: %v", err)
			case got.IDs == nil || got.N != n:
				gc.fail("gen.Duplication|order-differs", args, "Duplication(n=%d) has %d nodes", n, got.N)
			case len(mutualPartition(got)) != 1:
				gc.fail("gen.Duplication|node-without-connectivity", args, "Duplication(n=%d) is not connected: %v", n, edgeSetKey(got))
			}
		}
	}
}

// checkNavigable: NavigableSmallWorld. With q=0 the result is exactly the
// lattice joining every pair of grid points within Manhattan distance p
// (both arcs in a directed destination). With q>0 every node additionally
// gets q links to distinct non-local nodes. The long-range clause is judged
// only when the lattice clause holds for the same (dims, p), because the two
// kinds of edge cannot be told apart otherwise.
func checkNavigable(c *vrt.Ctx, r *vrt.Rand, dims []int, p, q int, dir bool) {
	gc := genCtx{c, "gen-navigable"}
	kind := "undirected"
	if dir {
		kind = "directed"
	}
	n := 1
	for _, d := range dims {
		n *= d
	}
	// gonum numbers grid points with the first dimension varying fastest
	// (idxFrom); a fresh simple graph hands out IDs 0..n-1 in that order.
	coord := func(id int) []int {
		cs := make([]int, len(dims))
		for k := 0; k < len(dims); k++ {
			cs[k] = id % dims[k]
			id /= dims[k]
		}
		return cs
	}
	manh := func(a, b []int) int {
		d := 0
		for i := range a {
			if a[i] > b[i] {
				d += a[i] - b[i]
			} else {
				d += b[i] - a[i]
			}
		}
		return d
	}
	lattice := newG(n, dir)
	nonLocalNodes := make([]int, n)
	for u := 0; u < n; u++ {
		for v := 0; v < n; v++ {
			if u == v {
				continue
			}
			if manh(coord(u), coord(v)) <= p {
				lattice.Adj[u] |= 1 << uint(v)
			} else {
				nonLocalNodes[u]++
			}
		}
	}
	build := func(q int, rr float64) (*G, error, bool) {
		var dst gen.GraphBuilder = simple.NewUndirectedGraph()
		if dir {
			dst = simple.NewDirectedGraph()
		}
		args := map[string]any{"dims": dims, "p": p, "q": q, "r": rr, "kind": kind}
		var err error
		c.LastCase(fmt.Sprintf("gen.NavigableSmallWorld dims=%v p=%d q=%d r=%v %s", dims, p, q, rr, kind))
		if pi := vrt.Try(func() { err = gen.NavigableSmallWorld(dst, dims, p, q, rr, vrt.NewRand(r.Uint64())) }); pi != nil {
			gc.fail("gen.NavigableSmallWorld|"+kind+"|panic", args, "NavigableSmallWorld(%v,p=%d,q=%d) panicked: %s", dims, p, q, pi.Msg)
			return nil, nil, false
		}
		c.Eval(fmt.Sprintf("gen.NavigableSmallWorld|%s|dims=%d|p=%d|q=%s|err=%v", kind, len(dims), p, countClass(q), err != nil), n > 1)
		c.Count("calls.gen.NavigableSmallWorld", 1)
		got := readBack(dst.(graph.Graph), dir)
		if got.IDs == nil || got.N != n {
			gc.fail("gen.NavigableSmallWorld|"+kind+"|order-differs-or-self-loop", args, "NavigableSmallWorld(%v) has %d nodes want %d", dims, got.N, n)
			return nil, nil, false
		}
		// re-index by ID so that index == grid position
		h := newG(n, dir)
		for i := 0; i < n; i++ {
			id := got.IDs[i]
			if id < 0 || id >= int64(n) {
				gc.fail("gen.NavigableSmallWorld|"+kind+"|unexpected-node-id", args, "node ID %d outside 0..n-1", id)
				return nil, nil, false
			}
			for a := got.Adj[i]; a != 0; a &= a - 1 {
				h.Adj[id] |= 1 << uint(got.IDs[bits.TrailingZeros64(a)])
			}
		}
		return h, err, true
	}
	base, err, ok := build(0, 1)
	if !ok {
		return
	}
	args := map[string]any{"dims": dims, "p": p, "q": 0, "kind": kind, "edges": edgeSetKey(base)}
	if err != nil {
		gc.fail("gen.NavigableSmallWorld|"+kind+"|unexpected-error", args, "NavigableSmallWorld(dims=%v,p=%d,q=0): %v", dims, p, err)
		return
	}
	for u := 0; u < n; u++ {
		if base.Adj[u] != lattice.Adj[u] {
			miss, extra := lattice.Adj[u]&^base.Adj[u], base.Adj[u]&^lattice.Adj[u]
			gc.fail("gen.NavigableSmallWorld|"+kind+"|local-lattice-differs-from-definition", args,
				"NavigableSmallWorld(dims=%v,p=%d,q=0,%s): node %d lacks local neighbours %v and has non-local neighbours %v; edges %v",
				dims, p, kind, u, base.maskToIDs(miss), base.maskToIDs(extra), edgeSetKey(base))
			return
		}
	}
	if q == 0 {
		return
	}
	rr := float64(r.Range(0, 3))
	got, err, ok := build(q, rr)
	if !ok {
		return
	}
	args = map[string]any{"dims": dims, "p": p, "q": q, "r": rr, "kind": kind, "edges": edgeSetKey(got)}
	depleted := false
	for u := 0; u < n; u++ {
		if nonLocalNodes[u] < q {
			depleted = true
		}
	}
	if depleted {
		// documented way out: "depleted distribution" when a node has fewer
		// than q non-local candidates; nothing more is promised
		return
	}
	if err != nil {
		gc.fail("gen.NavigableSmallWorld|"+kind+"|unexpected-error", args, "NavigableSmallWorld(dims=%v,p=%d,q=%d): %v", dims, p, q, err)
		return
	}
	nonlocal := 0
	for u := 0; u < n; u++ {
		if lattice.Adj[u]&^got.Adj[u] != 0 {
			gc.fail("gen.NavigableSmallWorld|"+kind+"|long-range-links-differ-from-definition", args,
				"NavigableSmallWorld(dims=%v,p=%d,q=%d): node %d lost local neighbours %v", dims, p, q, u, got.maskToIDs(lattice.Adj[u]&^got.Adj[u]))
			return
		}
		far := bits.OnesCount64(got.Adj[u] &^ lattice.Adj[u])
		nonlocal += far
		if (dir && far != q) || (!dir && far < q) {
			gc.fail("gen.NavigableSmallWorld|"+kind+"|long-range-links-differ-from-definition", args,
				"NavigableSmallWorld(dims=%v,p=%d,q=%d,%s): node %d has %d long-range neighbours", dims, p, q, kind, u, far)
			return
		}
	}
	if !dir && nonlocal/2 > n*q {
		gc.fail("gen.NavigableSmallWorld|"+kind+"|long-range-links-differ-from-definition", args,
			"NavigableSmallWorld(dims=%v,p=%d,q=%d): %d long-range edges for %d nodes", dims, p, q, nonlocal/2, n)
	}
}

// checkSmallWorldsBB: order n, simple, at most n*d edges per pass.
func checkSmallWorldsBB(c *vrt.Ctx, r *vrt.Rand, n, d int, p float64, dir bool) {
	gc := genCtx{c, "gen-swbb"}
	kind := "undirected"
	var dst gen.GraphBuilder = simple.NewUndirectedGraph()
	if dir {
		kind = "directed"
		dst = simple.NewDirectedGraph()
	}
	args := map[string]any{"n": n, "d": d, "p": p, "kind": kind}
	var err error
	if pi := vrt.Try(func() { err = gen.SmallWorldsBB(dst, n, d, p, vrt.NewRand(r.Uint64())) }); pi != nil {
		gc.fail("gen.SmallWorldsBB|"+kind+"|panic", args, "SmallWorldsBB(n=%d,d=%d,p=%v) panicked: %s", n, d, p, pi.Msg)
		return
	}
	valid := d >= 1 && d <= (n-1)/2 && p >= 0 && p < 1
	c.Eval(fmt.Sprintf("gen.SmallWorldsBB|%s|%s|valid=%v", kind, sizeClass(n), valid), valid && p > 0)
	c.Count("calls.gen.SmallWorldsBB", 1)
	if !valid {
		if err == nil {
			gc.fail("gen.SmallWorldsBB|"+kind+"|bad-parameters-accepted", args, "SmallWorldsBB(n=%d,d=%d,p=%v) returned no error", n, d, p)
		}
		return
	}
	if err != nil {
		gc.fail("gen.SmallWorldsBB|"+kind+"|unexpected-error", args, "SmallWorldsBB(n=%d,d=%d,p=%v): %v", n, d, p, err)
		return
	}
	got := readBack(dst.(graph.Graph), dir)
	max := n * d
	if dir {
		max *= 2
	}
	if got.IDs == nil || got.N != n {
		gc.fail("gen.SmallWorldsBB|"+kind+"|order-differs-or-self-loop", args, "SmallWorldsBB(n=%d) has %d nodes", n, got.N)
	} else if got.M() > max {
		gc.fail("gen.SmallWorldsBB|"+kind+"|more-than-nd-edges", args, "SmallWorldsBB(n=%d,d=%d) has %d edges", n, d, got.M())
	}
}
