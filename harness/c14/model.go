package main

import (
	"fmt"
	"math"
	"math/bits"
	"sort"
	"strings"

	"gonum.org/v1/gonum/graph"
	"gonum.org/v1/gonum/graph/iterator"
	"gonum.org/v1/gonum/graph/multi"
	"gonum.org/v1/gonum/graph/simple"
	"gonum.org/v1/gonum/verifx/vrt"
)

// G is the monitor's own model of a graph on at most 64 nodes. Node i has
// ID IDs[i]; Adj[i] bit j is the arc i->j (kept symmetric when !Dir).
// It is the ground truth every oracle works on; the gonum graph values
// handed to the code under test are built from it.
type G struct {
	N   int
	IDs []int64
	Adj []uint64
	Dir bool
	W   [][]float64 // optional symmetric edge weights (undirected only)
}

func newG(n int, dir bool) *G {
	g := &G{N: n, IDs: make([]int64, n), Adj: make([]uint64, n), Dir: dir}
	for i := range g.IDs {
		g.IDs[i] = int64(i)
	}
	return g
}

func (g *G) Has(i, j int) bool { return g.Adj[i]>>uint(j)&1 == 1 }

func (g *G) Set(i, j int) {
	if i == j {
		panic("c14: self loop in model")
	}
	g.Adj[i] |= 1 << uint(j)
	if !g.Dir {
		g.Adj[j] |= 1 << uint(i)
	}
}

// M is the number of arcs (directed) or edges (undirected).
func (g *G) M() int {
	m := 0
	for _, a := range g.Adj {
		m += bits.OnesCount64(a)
	}
	if !g.Dir {
		m /= 2
	}
	return m
}

// Edges lists arcs (i,j), or edges with i<j for an undirected graph.
func (g *G) Edges() [][2]int {
	var e [][2]int
	for i := 0; i < g.N; i++ {
		for a := g.Adj[i]; a != 0; a &= a - 1 {
			j := bits.TrailingZeros64(a)
			if g.Dir || i < j {
				e = append(e, [2]int{i, j})
			}
		}
	}
	return e
}

// Pred returns the predecessor masks.
func (g *G) Pred() []uint64 {
	p := make([]uint64, g.N)
	for i := 0; i < g.N; i++ {
		for a := g.Adj[i]; a != 0; a &= a - 1 {
			p[bits.TrailingZeros64(a)] |= 1 << uint(i)
		}
	}
	return p
}

func (g *G) Index() map[int64]int {
	m := make(map[int64]int, g.N)
	for i, id := range g.IDs {
		m[id] = i
	}
	return m
}

// Induced returns the subgraph induced on mask together with the map from
// new to old indices.
func (g *G) Induced(mask uint64) (*G, []int) {
	var old []int
	for a := mask; a != 0; a &= a - 1 {
		old = append(old, bits.TrailingZeros64(a))
	}
	h := newG(len(old), g.Dir)
	for ni, oi := range old {
		h.IDs[ni] = g.IDs[oi]
	}
	for ni, oi := range old {
		for nj, oj := range old {
			if g.Has(oi, oj) {
				h.Adj[ni] |= 1 << uint(nj)
			}
		}
	}
	return h, old
}

// Desc is the literal description stored in samples and replay objects.
func (g *G) Desc() map[string]any {
	var es [][2]int64
	for _, e := range g.Edges() {
		es = append(es, [2]int64{g.IDs[e[0]], g.IDs[e[1]]})
	}
	d := map[string]any{"directed": g.Dir, "ids": append([]int64(nil), g.IDs...), "edges": es}
	if g.W != nil {
		var ws []float64
		for _, e := range g.Edges() {
			ws = append(ws, g.W[e[0]][e[1]])
		}
		d["weights"] = ws
	}
	return d
}

func (g *G) String() string {
	var b strings.Builder
	if g.Dir {
		b.WriteString("digraph ")
	} else {
		b.WriteString("graph ")
	}
	fmt.Fprintf(&b, "ids=%v edges=", g.IDs)
	for _, e := range g.Edges() {
		if g.W != nil {
			fmt.Fprintf(&b, "(%d,%d:%g)", g.IDs[e[0]], g.IDs[e[1]], g.W[e[0]][e[1]])
		} else {
			fmt.Fprintf(&b, "(%d,%d)", g.IDs[e[0]], g.IDs[e[1]])
		}
	}
	return b.String()
}

// ---------------------------------------------------------------------------
// ID schemes

// assignIDs relabels g with one of several ID schemes. scheme 0 keeps 0..n-1.
func assignIDs(g *G, r *vrt.Rand, scheme int) string {
	n := g.N
	switch scheme {
	case 0:
		return "contig"
	case 1: // shifted contiguous block, negative start
		base := int64(-r.Range(1, 2*n+3))
		for i := range g.IDs {
			g.IDs[i] = base + int64(i)
		}
		return "shifted-neg"
	case 2: // sparse random in [-1000,1000], random order w.r.t. index
		seen := map[int64]bool{}
		for i := range g.IDs {
			for {
				id := int64(r.Range(-1000, 1000))
				if !seen[id] {
					seen[id] = true
					g.IDs[i] = id
					break
				}
			}
		}
		return "sparse"
	case 3: // permuted 0..n-1 (index order != ID order)
		p := r.Perm(n)
		for i := range g.IDs {
			g.IDs[i] = int64(p[i])
		}
		return "permuted"
	default: // extremes of the int64 range mixed with small values
		pool := []int64{math.MinInt64, math.MinInt64 + 1, math.MaxInt64, math.MaxInt64 - 1, -1, 0, 1}
		seen := map[int64]bool{}
		for i := range g.IDs {
			for {
				var id int64
				if r.Chance(0.35) {
					id = pool[r.Intn(len(pool))]
				} else {
					id = int64(r.Range(-50, 50))
				}
				if !seen[id] {
					seen[id] = true
					g.IDs[i] = id
					break
				}
			}
		}
		return "extreme"
	}
}

// ---------------------------------------------------------------------------
// gonum representations of a model graph

// ordGraph is a read-only graph with a fully determined iteration order for
// Nodes, From and To, so that a case is replayable (gonum's own simple/multi
// graphs iterate in Go map order). It is embedded in ordDirected and
// ordUndirected, which add the methods that make gonum see the graph as
// graph.Directed or graph.Undirected respectively.
type ordGraph struct {
	m     *G
	idx   map[int64]int
	nodes []graph.Node   // in iteration order
	from  [][]graph.Node // per index, in iteration order
	to    [][]graph.Node
}

func newOrd(m *G, r *vrt.Rand) *ordGraph {
	o := &ordGraph{m: m, idx: m.Index()}
	n := m.N
	var perm []int
	mode := 0
	if r != nil {
		mode = r.Intn(4)
	}
	switch mode {
	case 0: // index order
		perm = make([]int, n)
		for i := range perm {
			perm[i] = i
		}
	case 1: // reverse index order
		perm = make([]int, n)
		for i := range perm {
			perm[i] = n - 1 - i
		}
	default:
		perm = r.Perm(n)
	}
	o.nodes = make([]graph.Node, n)
	for k, i := range perm {
		o.nodes[k] = simple.Node(m.IDs[i])
	}
	pred := m.Pred()
	o.from = make([][]graph.Node, n)
	o.to = make([][]graph.Node, n)
	list := func(mask uint64) []graph.Node {
		var l []graph.Node
		for _, i := range perm {
			if mask>>uint(i)&1 == 1 {
				l = append(l, simple.Node(m.IDs[i]))
			}
		}
		if r != nil && mode == 3 {
			r.Shuffle(len(l), func(a, b int) { l[a], l[b] = l[b], l[a] })
		}
		return l
	}
	for i := 0; i < n; i++ {
		o.from[i] = list(m.Adj[i])
		o.to[i] = list(pred[i])
	}
	return o
}

func nodesIter(l []graph.Node) graph.Nodes {
	if len(l) == 0 {
		return graph.Empty
	}
	return iterator.NewOrderedNodes(append([]graph.Node(nil), l...))
}

func (o *ordGraph) Node(id int64) graph.Node {
	if _, ok := o.idx[id]; !ok {
		return nil
	}
	return simple.Node(id)
}
func (o *ordGraph) Nodes() graph.Nodes { return nodesIter(o.nodes) }
func (o *ordGraph) From(id int64) graph.Nodes {
	i, ok := o.idx[id]
	if !ok {
		return graph.Empty
	}
	return nodesIter(o.from[i])
}
func (o *ordGraph) has(u, v int64) bool {
	i, ok := o.idx[u]
	if !ok {
		return false
	}
	j, ok := o.idx[v]
	if !ok {
		return false
	}
	return o.m.Has(i, j)
}
func (o *ordGraph) HasEdgeBetween(x, y int64) bool { return o.has(x, y) || o.has(y, x) }
func (o *ordGraph) Edge(u, v int64) graph.Edge {
	if !o.has(u, v) {
		return nil
	}
	if o.m.W != nil {
		return simple.WeightedEdge{F: simple.Node(u), T: simple.Node(v), W: o.m.W[o.idx[u]][o.idx[v]]}
	}
	return simple.Edge{F: simple.Node(u), T: simple.Node(v)}
}

type ordDirected struct{ *ordGraph }

func (o ordDirected) HasEdgeFromTo(u, v int64) bool { return o.has(u, v) }
func (o ordDirected) To(id int64) graph.Nodes {
	i, ok := o.idx[id]
	if !ok {
		return graph.Empty
	}
	return nodesIter(o.to[i])
}

type ordUndirected struct{ *ordGraph }

func (o ordUndirected) EdgeBetween(x, y int64) graph.Edge { return o.Edge(x, y) }
func (o ordUndirected) WeightedEdge(u, v int64) graph.WeightedEdge {
	if !o.has(u, v) || o.m.W == nil {
		return nil
	}
	return simple.WeightedEdge{F: simple.Node(u), T: simple.Node(v), W: o.m.W[o.idx[u]][o.idx[v]]}
}
func (o ordUndirected) WeightedEdgeBetween(x, y int64) graph.WeightedEdge {
	return o.WeightedEdge(x, y)
}
func (o ordUndirected) Weight(x, y int64) (float64, bool) {
	if x == y {
		if _, ok := o.idx[x]; ok {
			return 0, true
		}
		return math.Inf(1), false
	}
	if !o.has(x, y) || o.m.W == nil {
		return math.Inf(1), false
	}
	return o.m.W[o.idx[x]][o.idx[y]], true
}
func (o ordUndirected) WeightedEdges() graph.WeightedEdges {
	var es []graph.WeightedEdge
	// Edge list order follows the node iteration order.
	rank := make(map[int64]int, len(o.nodes))
	for k, n := range o.nodes {
		rank[n.ID()] = k
	}
	for _, u := range o.nodes {
		for _, v := range o.from[o.idx[u.ID()]] {
			if rank[u.ID()] < rank[v.ID()] {
				es = append(es, o.WeightedEdge(u.ID(), v.ID()))
			}
		}
	}
	if len(es) == 0 {
		return graph.Empty
	}
	return iterator.NewOrderedWeightedEdges(es)
}

var (
	_ graph.Directed           = ordDirected{}
	_ graph.Undirected         = ordUndirected{}
	_ graph.WeightedUndirected = ordUndirected{}
)

// Rep names one gonum representation of a model graph.
type Rep int

const (
	RepSimple Rep = iota
	RepOrd
	RepMulti
	numReps
)

func (r Rep) String() string { return [...]string{"simple", "ord", "multi"}[r] }

// buildDirected returns a graph.Directed for m.
func buildDirected(m *G, rep Rep, r *vrt.Rand) graph.Directed {
	switch rep {
	case RepOrd:
		return ordDirected{newOrd(m, r)}
	case RepMulti:
		g := multi.NewDirectedGraph()
		for _, i := range r.Perm(m.N) {
			g.AddNode(multi.Node(m.IDs[i]))
		}
		uid := int64(0)
		for _, e := range m.Edges() {
			k := 1
			if r.Chance(0.3) {
				k = r.Range(2, 3)
			}
			for ; k > 0; k-- {
				g.SetLine(multi.Line{F: multi.Node(m.IDs[e[0]]), T: multi.Node(m.IDs[e[1]]), UID: uid})
				uid++
			}
		}
		return g
	default:
		g := simple.NewDirectedGraph()
		perm := make([]int, m.N)
		for i := range perm {
			perm[i] = i
		}
		if r != nil {
			perm = r.Perm(m.N)
		}
		for _, i := range perm {
			g.AddNode(simple.Node(m.IDs[i]))
		}
		for _, e := range m.Edges() {
			g.SetEdge(simple.Edge{F: simple.Node(m.IDs[e[0]]), T: simple.Node(m.IDs[e[1]])})
		}
		return g
	}
}

// buildUndirected returns a graph.Undirected for m.
func buildUndirected(m *G, rep Rep, r *vrt.Rand) graph.Undirected {
	switch rep {
	case RepOrd:
		return ordUndirected{newOrd(m, r)}
	case RepMulti:
		g := multi.NewUndirectedGraph()
		for _, i := range r.Perm(m.N) {
			g.AddNode(multi.Node(m.IDs[i]))
		}
		uid := int64(0)
		for _, e := range m.Edges() {
			k := 1
			if r.Chance(0.3) {
				k = r.Range(2, 3)
			}
			for ; k > 0; k-- {
				a, b := e[0], e[1]
				if r.Bool() {
					a, b = b, a
				}
				g.SetLine(multi.Line{F: multi.Node(m.IDs[a]), T: multi.Node(m.IDs[b]), UID: uid})
				uid++
			}
		}
		return g
	default:
		g := simple.NewUndirectedGraph()
		perm := make([]int, m.N)
		for i := range perm {
			perm[i] = i
		}
		if r != nil {
			perm = r.Perm(m.N)
		}
		for _, i := range perm {
			g.AddNode(simple.Node(m.IDs[i]))
		}
		for _, e := range m.Edges() {
			a, b := e[0], e[1]
			if r != nil && r.Bool() {
				a, b = b, a
			}
			g.SetEdge(simple.Edge{F: simple.Node(m.IDs[a]), T: simple.Node(m.IDs[b])})
		}
		return g
	}
}

// buildWeightedUndirected returns gonum's own weighted graph for m (m.W set).
func buildWeightedUndirected(m *G, r *vrt.Rand) *simple.WeightedUndirectedGraph {
	g := simple.NewWeightedUndirectedGraph(0, math.Inf(1))
	for _, i := range r.Perm(m.N) {
		g.AddNode(simple.Node(m.IDs[i]))
	}
	for _, e := range m.Edges() {
		a, b := e[0], e[1]
		if r.Bool() {
			a, b = b, a
		}
		g.SetWeightedEdge(simple.WeightedEdge{F: simple.Node(m.IDs[a]), T: simple.Node(m.IDs[b]), W: m.W[a][b]})
	}
	return g
}

// ---------------------------------------------------------------------------
// small helpers for comparing outputs

func idsOf(nodes []graph.Node) []int64 {
	out := make([]int64, len(nodes))
	for i, n := range nodes {
		if n == nil {
			out[i] = math.MinInt64 + 7 // never a real ID in a checked position
			continue
		}
		out[i] = n.ID()
	}
	return out
}

func idsOfAll(sets [][]graph.Node) [][]int64 {
	out := make([][]int64, len(sets))
	for i, s := range sets {
		out[i] = idsOf(s)
	}
	return out
}

func sortedCopy(s []int64) []int64 {
	c := append([]int64(nil), s...)
	sort.Slice(c, func(i, j int) bool { return c[i] < c[j] })
	return c
}

func keyOf(s []int64) string {
	var b strings.Builder
	for i, x := range s {
		if i > 0 {
			b.WriteByte(',')
		}
		fmt.Fprintf(&b, "%d", x)
	}
	return b.String()
}

// setOfSetsKeys turns a family of ID sets into a sorted list of canonical
// keys (each member sorted); the family is compared as a multiset of sets.
func setOfSetsKeys(sets [][]int64) []string {
	keys := make([]string, len(sets))
	for i, s := range sets {
		keys[i] = keyOf(sortedCopy(s))
	}
	sort.Strings(keys)
	return keys
}

func equalStrings(a, b []string) bool {
	if len(a) != len(b) {
		return false
	}
	for i := range a {
		if a[i] != b[i] {
			return false
		}
	}
	return true
}

// maskToIDs lists the IDs of the nodes in mask.
func (g *G) maskToIDs(mask uint64) []int64 {
	var out []int64
	for a := mask; a != 0; a &= a - 1 {
		out = append(out, g.IDs[bits.TrailingZeros64(a)])
	}
	return out
}

func (g *G) masksToIDSets(masks []uint64) [][]int64 {
	out := make([][]int64, len(masks))
	for i, m := range masks {
		out[i] = g.maskToIDs(m)
	}
	return out
}

// idsToMask converts IDs to a mask; ok is false if an ID is unknown or
// repeated.
func idsToMask(idx map[int64]int, ids []int64) (mask uint64, ok bool) {
	for _, id := range ids {
		i, found := idx[id]
		if !found || mask>>uint(i)&1 == 1 {
			return mask, false
		}
		mask |= 1 << uint(i)
	}
	return mask, true
}

func sizeClass(n int) string {
	switch {
	case n <= 1:
		return "n<=1"
	case n <= 4:
		return "n<=4"
	case n <= 8:
		return "n<=8"
	case n <= 16:
		return "n<=16"
	default:
		return "n>16"
	}
}

func countClass(k int) string {
	switch {
	case k == 0:
		return "0"
	case k == 1:
		return "1"
	case k <= 3:
		return "2-3"
	case k <= 10:
		return "4-10"
	default:
		return ">10"
	}
}
