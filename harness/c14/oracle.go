package main

import (
	"math"
	"math/bits"
	"sort"
)

// Brute-force definitions. Everything here works on the model G only and is
// deliberately the textbook definition, not an efficient algorithm.

// closure returns the reflexive-transitive closure (Warshall).
func closure(g *G) []uint64 {
	r := make([]uint64, g.N)
	for i := range r {
		r[i] = g.Adj[i] | 1<<uint(i)
	}
	for k := 0; k < g.N; k++ {
		for i := 0; i < g.N; i++ {
			if r[i]>>uint(k)&1 == 1 {
				r[i] |= r[k]
			}
		}
	}
	return r
}

// mutualPartition returns the classes of the mutual-reachability relation
// (SCCs for a digraph, connected components for an undirected graph).
func mutualPartition(g *G) []uint64 {
	r := closure(g)
	var out []uint64
	var done uint64
	for i := 0; i < g.N; i++ {
		if done>>uint(i)&1 == 1 {
			continue
		}
		var c uint64
		for j := 0; j < g.N; j++ {
			if r[i]>>uint(j)&1 == 1 && r[j]>>uint(i)&1 == 1 {
				c |= 1 << uint(j)
			}
		}
		done |= c
		out = append(out, c)
	}
	return out
}

// reachFrom returns the set reachable from s using only nodes in allowed
// (s itself is included if allowed). adj may be a filtered adjacency.
func reachFrom(adj []uint64, s int, allowed uint64) uint64 {
	if allowed>>uint(s)&1 == 0 {
		return 0
	}
	seen := uint64(1) << uint(s)
	front := seen
	for front != 0 {
		var next uint64
		for a := front; a != 0; a &= a - 1 {
			next |= adj[bits.TrailingZeros64(a)]
		}
		next &= allowed &^ seen
		seen |= next
		front = next
	}
	return seen
}

// bfsDist returns hop distances from s (-1 unreachable) over adj restricted
// to allowed nodes.
func bfsDist(adj []uint64, n, s int, allowed uint64) []int {
	d := make([]int, n)
	for i := range d {
		d[i] = -1
	}
	if allowed>>uint(s)&1 == 0 {
		return d
	}
	d[s] = 0
	seen := uint64(1) << uint(s)
	front := seen
	for depth := 1; front != 0; depth++ {
		var next uint64
		for a := front; a != 0; a &= a - 1 {
			next |= adj[bits.TrailingZeros64(a)]
		}
		next &= allowed &^ seen
		for a := next; a != 0; a &= a - 1 {
			d[bits.TrailingZeros64(a)] = depth
		}
		seen |= next
		front = next
	}
	return d
}

// elementaryCycles enumerates the elementary cycles of a digraph, each given
// once as the ID sequence starting at its least ID. It stops and reports
// overflow when more than limit cycles exist.
func elementaryCycles(g *G, limit int) (keys []string, overflow bool) {
	// rank nodes by ID
	order := make([]int, g.N)
	for i := range order {
		order[i] = i
	}
	sort.Slice(order, func(a, b int) bool { return g.IDs[order[a]] < g.IDs[order[b]] })
	rank := make([]int, g.N)
	for k, i := range order {
		rank[i] = k
	}
	var path []int64
	pred := g.Pred()
	// useful: nodes (of rank >= rank(s)) from which s can be reached through
	// such nodes; a path leaving this set can never close a cycle through s,
	// so it is not extended (keeps the enumeration output-sensitive on DAGs).
	var useful uint64
	var rec func(s, v int, onPath uint64) bool
	rec = func(s, v int, onPath uint64) bool {
		for a := g.Adj[v]; a != 0; a &= a - 1 {
			w := bits.TrailingZeros64(a)
			if w == s {
				keys = append(keys, keyOf(path))
				if len(keys) > limit {
					return false
				}
				continue
			}
			if useful>>uint(w)&1 == 0 || onPath>>uint(w)&1 == 1 {
				continue
			}
			path = append(path, g.IDs[w])
			ok := rec(s, w, onPath|1<<uint(w))
			path = path[:len(path)-1]
			if !ok {
				return false
			}
		}
		return true
	}
	for _, s := range order {
		var allowed uint64
		for i := 0; i < g.N; i++ {
			if rank[i] >= rank[s] {
				allowed |= 1 << uint(i)
			}
		}
		useful = reachFrom(pred, s, allowed)
		path = append(path[:0], g.IDs[s])
		if !rec(s, s, 1<<uint(s)) {
			return nil, true
		}
	}
	sort.Strings(keys)
	return keys, false
}

// maximalCliquesSubsets enumerates maximal cliques by testing every subset
// (n <= ~14).
func maximalCliquesSubsets(g *G) []uint64 {
	var out []uint64
	full := uint64(1)<<uint(g.N) - 1
	for mask := uint64(1); mask <= full && g.N > 0; mask++ {
		ok := true
		for a := mask; a != 0; a &= a - 1 {
			i := bits.TrailingZeros64(a)
			if (g.Adj[i]|1<<uint(i))&mask != mask {
				ok = false
				break
			}
		}
		if !ok {
			continue
		}
		for a := full &^ mask; a != 0; a &= a - 1 {
			v := bits.TrailingZeros64(a)
			if g.Adj[v]&mask == mask {
				ok = false
				break
			}
		}
		if ok {
			out = append(out, mask)
		}
	}
	return out
}

// maximalCliquesRef is an independent plain recursive enumeration (used
// above the subset bound). It stops at limit cliques.
func maximalCliquesRef(g *G, limit int) (out []uint64, overflow bool) {
	var rec func(r, p, x uint64) bool
	rec = func(r, p, x uint64) bool {
		if p == 0 && x == 0 {
			out = append(out, r)
			return len(out) <= limit
		}
		if p == 0 {
			return true
		}
		// pivot: the vertex of p|x with most neighbours in p
		best, bestc := -1, -1
		for a := p | x; a != 0; a &= a - 1 {
			u := bits.TrailingZeros64(a)
			if c := bits.OnesCount64(p & g.Adj[u]); c > bestc {
				best, bestc = u, c
			}
		}
		for a := p &^ g.Adj[best]; a != 0; a &= a - 1 {
			v := bits.TrailingZeros64(a)
			if !rec(r|1<<uint(v), p&g.Adj[v], x&g.Adj[v]) {
				return false
			}
			p &^= 1 << uint(v)
			x |= 1 << uint(v)
		}
		return true
	}
	if g.N == 0 {
		return nil, false
	}
	full := uint64(1)<<uint(g.N) - 1
	if g.N == 64 {
		full = ^uint64(0)
	}
	if !rec(0, full, 0) {
		return nil, true
	}
	return out, false
}

// coreNumbers returns the core number of every node by the peeling
// definition: the k-core is what remains after repeatedly deleting nodes of
// degree < k; core(v) is the largest k whose k-core contains v.
func coreNumbers(g *G) (core []int, kcore func(k int) uint64) {
	kcore = func(k int) uint64 {
		var alive uint64
		if g.N > 0 {
			alive = uint64(1)<<uint(g.N) - 1
		}
		for changed := true; changed; {
			changed = false
			for a := alive; a != 0; a &= a - 1 {
				v := bits.TrailingZeros64(a)
				if bits.OnesCount64(g.Adj[v]&alive) < k {
					alive &^= 1 << uint(v)
					changed = true
				}
			}
		}
		return alive
	}
	core = make([]int, g.N)
	for k := 1; ; k++ {
		c := kcore(k)
		if c == 0 {
			break
		}
		for a := c; a != 0; a &= a - 1 {
			core[bits.TrailingZeros64(a)] = k
		}
	}
	return core, kcore
}

// dominatorSets returns, for root r, reach (the nodes reachable from r) and
// sdom[v] = the set of strict dominators of v (d != v such that every path
// from r to v contains d), by the removal definition.
func dominatorSets(g *G, r int) (reach uint64, sdom []uint64) {
	var all uint64
	if g.N > 0 {
		all = uint64(1)<<uint(g.N) - 1
	}
	reach = reachFrom(g.Adj, r, all)
	sdom = make([]uint64, g.N)
	for a := reach; a != 0; a &= a - 1 {
		d := bits.TrailingZeros64(a)
		var without uint64
		if d != r {
			without = reachFrom(g.Adj, r, all&^(1<<uint(d)))
		}
		for b := reach &^ without &^ (1 << uint(d)); b != 0; b &= b - 1 {
			sdom[bits.TrailingZeros64(b)] |= 1 << uint(d)
		}
	}
	return reach, sdom
}

// idomFromSets returns the immediate dominator index of each node (-1 for
// the root and for unreachable nodes): the strict dominator that is itself
// dominated by every other strict dominator.
func idomFromSets(g *G, r int, reach uint64, sdom []uint64) []int {
	idom := make([]int, g.N)
	for v := range idom {
		idom[v] = -1
		if reach>>uint(v)&1 == 0 || v == r {
			continue
		}
		for a := sdom[v]; a != 0; a &= a - 1 {
			d := bits.TrailingZeros64(a)
			// d is the immediate dominator iff all other strict
			// dominators of v are strict dominators of d.
			if sdom[v]&^(1<<uint(d)) == sdom[d] {
				idom[v] = d
				break
			}
		}
	}
	return idom
}

// refIntervals computes the Allen-Cocke interval partition of the flow graph
// g (every node reachable from entry is considered; predecessors are all
// predecessors in g). lifo selects the order in which pending headers are
// processed; the partition does not depend on it.
func refIntervals(g *G, entry int, lifo bool) (heads []int, sets []uint64) {
	var all uint64
	if g.N > 0 {
		all = uint64(1)<<uint(g.N) - 1
	}
	reach := reachFrom(g.Adj, entry, all)
	pred := g.Pred()
	pending := []int{entry}
	inH := uint64(1) << uint(entry)
	var assigned uint64
	for len(pending) > 0 {
		var h int
		if lifo {
			h, pending = pending[len(pending)-1], pending[:len(pending)-1]
		} else {
			h, pending = pending[0], pending[1:]
		}
		iv := uint64(1) << uint(h)
		for changed := true; changed; {
			changed = false
			for a := reach &^ iv &^ assigned; a != 0; a &= a - 1 {
				m := bits.TrailingZeros64(a)
				if m == entry || inH>>uint(m)&1 == 1 {
					continue
				}
				if pred[m] != 0 && pred[m]&^iv == 0 {
					iv |= 1 << uint(m)
					changed = true
				}
			}
		}
		assigned |= iv
		heads = append(heads, h)
		sets = append(sets, iv)
		for a := reach &^ assigned &^ inH; a != 0; a &= a - 1 {
			m := bits.TrailingZeros64(a)
			if pred[m]&iv != 0 {
				inH |= 1 << uint(m)
				pending = append(pending, m)
			}
		}
	}
	return heads, sets
}

// ---------------------------------------------------------------------------
// spanning forests

type uf []int

func newUF(n int) uf {
	u := make(uf, n)
	for i := range u {
		u[i] = i
	}
	return u
}
func (u uf) find(x int) int {
	for u[x] != x {
		u[x] = u[u[x]]
		x = u[x]
	}
	return x
}
func (u uf) union(a, b int) bool {
	ra, rb := u.find(a), u.find(b)
	if ra == rb {
		return false
	}
	u[ra] = rb
	return true
}

// refKruskal returns the weight of a minimum spanning forest.
func refKruskal(g *G) float64 {
	es := g.Edges()
	sort.SliceStable(es, func(a, b int) bool { return g.W[es[a][0]][es[a][1]] < g.W[es[b][0]][es[b][1]] })
	u := newUF(g.N)
	var w float64
	for _, e := range es {
		if u.union(e[0], e[1]) {
			w += g.W[e[0]][e[1]]
		}
	}
	return w
}

// minForestByEnumeration enumerates every spanning forest (edge subsets of
// size n-c without a cycle) and returns the least total weight.
func minForestByEnumeration(g *G) float64 {
	es := g.Edges()
	c := len(mutualPartition(g))
	k := g.N - c
	if k == 0 {
		return 0
	}
	m := len(es)
	best := math.Inf(1)
	// Gosper's hack over k-subsets of m edges.
	for s := uint64(1)<<uint(k) - 1; s < 1<<uint(m); {
		u := newUF(g.N)
		ok := true
		var w float64
		for a := s; a != 0; a &= a - 1 {
			e := es[bits.TrailingZeros64(a)]
			if !u.union(e[0], e[1]) {
				ok = false
				break
			}
			w += g.W[e[0]][e[1]]
		}
		if ok && w < best {
			best = w
		}
		lo := s & -s
		r := s + lo
		s = (((r ^ s) >> 2) / lo) | r
	}
	return best
}

// ---------------------------------------------------------------------------
// colouring

// chromaticNumber by exhaustive search: the least k admitting a proper
// k-colouring (0 for the empty graph).
func chromaticNumber(g *G) int {
	if g.N == 0 {
		return 0
	}
	col := make([]int, g.N)
	var try func(v, k int) bool
	try = func(v, k int) bool {
		if v == g.N {
			return true
		}
		// symmetry breaking: colour c may be used only if c-1 is already used
		maxUsed := -1
		for i := 0; i < v; i++ {
			if col[i] > maxUsed {
				maxUsed = col[i]
			}
		}
		for c := 0; c < k && c <= maxUsed+1; c++ {
			ok := true
			for a := g.Adj[v] & (uint64(1)<<uint(v) - 1); a != 0; a &= a - 1 {
				if col[bits.TrailingZeros64(a)] == c {
					ok = false
					break
				}
			}
			if ok {
				col[v] = c
				if try(v+1, k) {
					return true
				}
			}
		}
		return false
	}
	for k := 1; ; k++ {
		if try(0, k) {
			return k
		}
	}
}

// ---------------------------------------------------------------------------
// GF(2) rank

func gf2Rank(rows [][]uint64) int {
	rank := 0
	if len(rows) == 0 {
		return 0
	}
	words := len(rows[0])
	rows = append([][]uint64(nil), rows...)
	for w := 0; w < words; w++ {
		for b := uint(0); b < 64; b++ {
			piv := -1
			for i := rank; i < len(rows); i++ {
				if rows[i][w]>>b&1 == 1 {
					piv = i
					break
				}
			}
			if piv < 0 {
				continue
			}
			rows[rank], rows[piv] = rows[piv], rows[rank]
			for i := 0; i < len(rows); i++ {
				if i != rank && rows[i][w]>>b&1 == 1 {
					for k := range rows[i] {
						rows[i][k] ^= rows[rank][k]
					}
				}
			}
			rank++
			if rank == len(rows) {
				return rank
			}
		}
	}
	return rank
}
