package main

import (
	"fmt"
	"math/bits"
	"sort"

	"gonum.org/v1/gonum/graph"
	"gonum.org/v1/gonum/graph/flow"
	"gonum.org/v1/gonum/graph/topo"
	"gonum.org/v1/gonum/verifx/vrt"
)

// ---------------------------------------------------------------------------
// TarjanSCC

func checkSCC(k *K, dg graph.Directed) {
	g := k.g
	var out [][]graph.Node
	if !k.try("TarjanSCC", func() { out = topo.TarjanSCC(dg) }) {
		return
	}
	want := mutualPartition(g)
	k.eval("TarjanSCC", "scc="+countClass(len(want)), g.N > 0)
	got := setOfSetsKeys(idsOfAll(out))
	exp := setOfSetsKeys(g.masksToIDSets(want))
	if !equalStrings(got, exp) {
		k.viol("TarjanSCC|partition|not-mutual-reachability-classes", idsOfAll(out),
			"TarjanSCC returned %v, mutual-reachability classes are %v", got, exp)
	}
}

// ---------------------------------------------------------------------------
// Sort / SortStabilized

func descByID(nodes []graph.Node) {
	sort.Slice(nodes, func(i, j int) bool { return nodes[i].ID() > nodes[j].ID() })
}

// judgeSort checks one (sorted, err) result. less reports the order the
// members of a cyclic component must be listed in.
func judgeSort(k *K, routine string, sorted []graph.Node, err error, less func(a, b int64) bool) {
	g := k.g
	idx := g.Index()
	parts := mutualPartition(g)
	var cyclic []uint64
	var cyclicMask uint64
	for _, p := range parts {
		if bits.OnesCount64(p) >= 2 {
			cyclic = append(cyclic, p)
			cyclicMask |= p
		}
	}
	obs := map[string]any{"sorted": idsOf(sorted), "err": fmt.Sprint(err)}
	k.eval(routine, "cyclic="+countClass(len(cyclic)), g.N > 0)

	var comps [][]graph.Node
	if err != nil {
		u, ok := err.(topo.Unorderable)
		if !ok {
			k.viol(routine+"|error|not-Unorderable", obs, "%s returned error of type %T", routine, err)
			return
		}
		comps = u
	}
	if len(cyclic) == 0 && err != nil {
		k.viol(routine+"|acyclic|spurious-error", obs, "%s reports %v on an acyclic graph", routine, err)
		return
	}
	if len(cyclic) > 0 && err == nil {
		k.viol(routine+"|cyclic|no-error", obs, "%s returned no error on a graph with %d cyclic components", routine, len(cyclic))
		return
	}
	// Unorderable lists exactly the cyclic components.
	if len(cyclic) > 0 {
		got := setOfSetsKeys(idsOfAll(comps))
		exp := setOfSetsKeys(g.masksToIDSets(cyclic))
		if !equalStrings(got, exp) {
			k.viol(routine+"|cyclic|Unorderable-not-the-cyclic-components", obs,
				"%s Unorderable lists %v, the cyclic components are %v", routine, got, exp)
			return
		}
		for _, comp := range comps {
			ids := idsOf(comp)
			for i := 1; i < len(ids); i++ {
				if !less(ids[i-1], ids[i]) {
					k.viol(routine+"|cyclic|component-members-not-ordered", obs,
						"%s component %v is not in the documented member order", routine, ids)
					return
				}
			}
		}
	}
	// sorted: every acyclic node exactly once, one nil per cyclic component.
	pos := make([]int, g.N)
	for i := range pos {
		pos[i] = -1
	}
	nils := 0
	for p, n := range sorted {
		if n == nil {
			if nils < len(comps) {
				for _, m := range comps[nils] {
					if i, ok := idx[m.ID()]; ok {
						pos[i] = p
					}
				}
			}
			nils++
			continue
		}
		i, ok := idx[n.ID()]
		if !ok || pos[i] >= 0 || cyclicMask>>uint(i)&1 == 1 {
			k.viol(routine+"|order|not-a-permutation-of-the-acyclic-nodes", obs,
				"%s sorted=%v lists node %d wrongly (unknown, repeated or member of a cycle)", routine, idsOf(sorted), n.ID())
			return
		}
		pos[i] = p
	}
	if nils != len(cyclic) {
		k.viol(routine+"|order|nil-markers-differ-from-cyclic-components", obs,
			"%s sorted has %d nil markers for %d cyclic components", routine, nils, len(cyclic))
		return
	}
	for i := range pos {
		if pos[i] < 0 {
			k.viol(routine+"|order|node-missing", obs, "%s sorted=%v misses node %d", routine, idsOf(sorted), g.IDs[i])
			return
		}
	}
	for _, e := range g.Edges() {
		if pos[e[0]] == pos[e[1]] {
			continue // inside one cyclic component
		}
		if pos[e[0]] > pos[e[1]] {
			cls := "edge-backwards"
			if cyclicMask>>uint(e[0])&1 == 1 || cyclicMask>>uint(e[1])&1 == 1 {
				// uses the correspondence i-th nil <-> i-th listed component
				cls = "cyclic-component-position-backwards"
			}
			k.viol(routine+"|order|"+cls, obs, "%s orders edge %d->%d backwards: sorted=%v err=%v",
				routine, g.IDs[e[0]], g.IDs[e[1]], idsOf(sorted), err)
			return
		}
	}
}

func sortKey(sorted []graph.Node, err error) string {
	s := ""
	for _, n := range sorted {
		if n == nil {
			s += "nil,"
		} else {
			s += fmt.Sprintf("%d,", n.ID())
		}
	}
	if u, ok := err.(topo.Unorderable); ok {
		s += fmt.Sprint(idsOfAll(u))
	}
	return s
}

func checkSort(k *K, dg graph.Directed) {
	var sorted []graph.Node
	var err error
	asc := func(a, b int64) bool { return a < b }
	desc := func(a, b int64) bool { return a > b }
	if k.try("Sort", func() { sorted, err = topo.Sort(dg) }) {
		judgeSort(k, "Sort", sorted, err, asc)
	}
	if k.try("SortStabilized", func() { sorted, err = topo.SortStabilized(dg, nil) }) {
		judgeSort(k, "SortStabilized", sorted, err, asc)
	}
	if k.try("SortStabilized", func() { sorted, err = topo.SortStabilized(dg, descByID) }) {
		judgeSort(k, "SortStabilized", sorted, err, desc)
	}
}

// checkSortStable: the stabilized sort is a function of the graph and the
// order function only, not of the iteration order of the representation.
func checkSortStable(k *K, reps []graph.Directed, names []string) {
	for _, ord := range []struct {
		name string
		f    func([]graph.Node)
	}{{"lexical", nil}, {"desc", descByID}} {
		var first string
		for i, dg := range reps {
			var sorted []graph.Node
			var err error
			kk := k.with(k.g, names[i])
			if !kk.try("SortStabilized", func() { sorted, err = topo.SortStabilized(dg, ord.f) }) {
				return
			}
			kk.eval("SortStabilized", "stability-"+ord.name, k.g.N > 1)
			key := sortKey(sorted, err)
			if i == 0 {
				first = key
			} else if key != first {
				kk.viol("SortStabilized|stability|depends-on-iteration-order", map[string]any{names[0]: first, names[i]: key},
					"SortStabilized(%s) gives %s on %s but %s on %s for the same graph", ord.name, first, names[0], key, names[i])
				return
			}
		}
	}
}

// checkSortAmbiguous: where the topological order is ambiguous the
// stabilized sort falls back to the order function. Judged only on families
// where the documented rule leaves exactly one answer: no edges at all, one
// source with arcs to every other node, every node with an arc to one sink.
func checkSortAmbiguous(c *vrt.Ctx, r *vrt.Rand, n int) {
	for fam, name := range []string{"edgeless", "out-star", "in-star"} {
		g := newG(n, true)
		hub := r.Intn(n)
		for v := 0; v < n; v++ {
			if v == hub {
				continue
			}
			switch fam {
			case 1:
				g.Set(hub, v)
			case 2:
				g.Set(v, hub)
			}
		}
		k := newK(c, "sort-ambiguous-"+name, fmt.Sprintf("sort-ambiguous/%s/n=%d", name, n))
		k.ids = assignIDs(g, r, r.Intn(5))
		for _, rep := range []Rep{RepSimple, RepOrd, RepMulti} {
			kk := k.with(g, rep.String())
			dg := buildDirected(g, rep, r)
			for oi, ord := range []func([]graph.Node){nil, descByID} {
				var sorted []graph.Node
				var err error
				if !kk.try("SortStabilized", func() { sorted, err = topo.SortStabilized(dg, ord) }) {
					continue
				}
				kk.eval("SortStabilized", fmt.Sprintf("ambiguous|order=%d", oi), n > 1)
				rest := make([]int64, 0, n)
				for v := 0; v < n; v++ {
					if fam == 0 || v != hub {
						rest = append(rest, g.IDs[v])
					}
				}
				rest = sortedCopy(rest)
				if oi == 1 {
					for a, b := 0, len(rest)-1; a < b; a, b = a+1, b-1 {
						rest[a], rest[b] = rest[b], rest[a]
					}
				}
				want := rest
				switch fam {
				case 1:
					want = append([]int64{g.IDs[hub]}, rest...)
				case 2:
					want = append(rest, g.IDs[hub])
				}
				if err != nil || keyOf(idsOf(sorted)) != keyOf(want) {
					kk.viol("SortStabilized|ambiguous|not-in-order-function-order", map[string]any{"sorted": idsOf(sorted), "err": fmt.Sprint(err), "order": []string{"ascending ID", "descending ID"}[oi]},
						"SortStabilized on an %s graph returned %v (err=%v), the only order consistent with the edges and the order function is %v", name, idsOf(sorted), err, want)
				}
			}
		}
		k.done()
	}
}

// ---------------------------------------------------------------------------
// DirectedCyclesIn

const cycleLimit = 20000

func checkDirectedCycles(k *K, dg graph.Directed, want []string) {
	g := k.g
	idx := g.Index()
	var out [][]graph.Node
	if !k.try("DirectedCyclesIn", func() { out = topo.DirectedCyclesIn(dg) }) {
		return
	}
	k.eval("DirectedCyclesIn", "cycles="+countClass(len(want)), len(want) > 0)
	obs := idsOfAll(out)
	var got []string
	for _, cyc := range out {
		ids := idsOf(cyc)
		if len(ids) < 3 || ids[0] != ids[len(ids)-1] {
			k.viol("DirectedCyclesIn|format|not-closed", obs, "cycle %v is not closed (first != last) or too short", ids)
			return
		}
		ids = ids[:len(ids)-1]
		if _, ok := idsToMask(idx, ids); !ok {
			k.viol("DirectedCyclesIn|cycle|not-elementary", obs, "cycle %v repeats a node or uses an unknown node", ids)
			return
		}
		least := 0
		for i, id := range ids {
			if id < ids[least] {
				least = i
			}
			if !g.Has(idx[id], idx[ids[(i+1)%len(ids)]]) {
				k.viol("DirectedCyclesIn|cycle|uses-a-non-edge", obs, "cycle %v uses %d->%d which is not an edge", ids, id, ids[(i+1)%len(ids)])
				return
			}
		}
		rot := append(append([]int64(nil), ids[least:]...), ids[:least]...)
		got = append(got, keyOf(rot))
	}
	sort.Strings(got)
	if !equalStrings(got, want) {
		cls := "wrong-set"
		switch {
		case len(got) < len(want):
			cls = "cycle-missing"
		case len(got) > len(want):
			cls = "cycle-duplicated-or-extra"
		}
		k.viol("DirectedCyclesIn|set|"+cls, obs, "DirectedCyclesIn returned %d cycles %v, the elementary cycles are %d: %v",
			len(got), got, len(want), want)
	}
}

// ---------------------------------------------------------------------------
// Dominators / DominatorsSLT

func checkDominators(k *K, dg graph.Directed, root int) {
	g := k.g
	reach, sdom := dominatorSets(g, root)
	idom := idomFromSets(g, root, reach, sdom)
	rootNode := dg.Node(g.IDs[root])
	type res struct {
		name string
		tree flow.DominatorTree
		ok   bool
	}
	rs := []res{{name: "Dominators"}, {name: "DominatorsSLT"}}
	rs[0].ok = k.try("Dominators", func() { rs[0].tree = flow.Dominators(rootNode, dg) })
	rs[1].ok = k.try("DominatorsSLT", func() { rs[1].tree = flow.DominatorsSLT(rootNode, dg) })
	depth := 0
	for v := range idom {
		if d := bits.OnesCount64(sdom[v]); d > depth {
			depth = d
		}
	}
	for _, r := range rs {
		if !r.ok {
			continue
		}
		k.eval(r.name, fmt.Sprintf("reach=%s|depth=%s", countClass(bits.OnesCount64(reach)), countClass(depth)), bits.OnesCount64(reach) > 1)
		obs := map[string]any{"root": g.IDs[root]}
		domOf := map[string]any{}
		bad := false
		if r.tree.Root() == nil || r.tree.Root().ID() != g.IDs[root] {
			k.viol(r.name+"|root|wrong-root", obs, "%s Root() is not the given root %d", r.name, g.IDs[root])
			continue
		}
		for v := 0; v < g.N; v++ {
			d := r.tree.DominatorOf(g.IDs[v])
			if d != nil {
				domOf[fmt.Sprint(g.IDs[v])] = d.ID()
			}
			switch {
			case idom[v] < 0 && d != nil:
				cls := "root-has-dominator"
				if v != root {
					cls = "unreachable-node-has-dominator"
				}
				obs["dominatorOf"] = domOf
				k.viol(r.name+"|idom|"+cls, obs, "%s(root=%d): DominatorOf(%d)=%d, want none", r.name, g.IDs[root], g.IDs[v], d.ID())
				bad = true
			case idom[v] >= 0 && (d == nil || d.ID() != g.IDs[idom[v]]):
				obs["dominatorOf"] = domOf
				k.viol(r.name+"|idom|not-the-immediate-dominator", obs, "%s(root=%d): DominatorOf(%d)=%v, the immediate dominator by definition is %d",
					r.name, g.IDs[root], g.IDs[v], d, g.IDs[idom[v]])
				bad = true
			}
			if bad {
				break
			}
		}
		if bad {
			continue
		}
		// DominatedBy is the inverse relation.
		for d := 0; d < g.N; d++ {
			var want []int64
			for v := range idom {
				if idom[v] == d {
					want = append(want, g.IDs[v])
				}
			}
			got := idsOf(r.tree.DominatedBy(g.IDs[d]))
			if keyOf(sortedCopy(got)) != keyOf(sortedCopy(want)) {
				k.viol(r.name+"|DominatedBy|not-the-inverse-of-DominatorOf", obs, "%s(root=%d): DominatedBy(%d)=%v want %v",
					r.name, g.IDs[root], g.IDs[d], got, want)
				break
			}
		}
	}
	if rs[0].ok && rs[1].ok {
		for v := 0; v < g.N; v++ {
			a, b := rs[0].tree.DominatorOf(g.IDs[v]), rs[1].tree.DominatorOf(g.IDs[v])
			if (a == nil) != (b == nil) || (a != nil && a.ID() != b.ID()) {
				k.viol("Dominators|cross|LT-and-SLT-disagree", map[string]any{"root": g.IDs[root]},
					"root=%d node=%d: Dominators says %v, DominatorsSLT says %v", g.IDs[root], g.IDs[v], a, b)
				break
			}
		}
	}
}

// ---------------------------------------------------------------------------
// Intervals

// checkIntervals judges flow.Intervals on the flow graph induced on the
// nodes reachable from entry (so that every node of the graph handed to
// gonum is reachable from the entry node, the documented setting).
func checkIntervals(k *K, full *G, entry int, rep Rep, r *vrt.Rand) {
	var all uint64
	if full.N > 0 {
		all = uint64(1)<<uint(full.N) - 1
	}
	reach := reachFrom(full.Adj, entry, all)
	g, old := full.Induced(reach)
	e := -1
	for ni, oi := range old {
		if oi == entry {
			e = ni
		}
	}
	kk := k.with(g, rep.String())
	dg := buildDirected(g, rep, r)
	idx := g.Index()
	heads, sets := refIntervals(g, e, false)
	heads2, sets2 := refIntervals(g, e, true)
	if !equalStrings(setOfSetsKeys(g.masksToIDSets(sets)), setOfSetsKeys(g.masksToIDSets(sets2))) || len(heads) != len(heads2) {
		k.c.Inconclusive("Intervals", "reference partition depends on header order; oracle not applicable")
		return
	}
	var ig flow.IntervalGraph
	if !kk.try("Intervals", func() { ig = flow.Intervals(dg, g.IDs[e]) }) {
		return
	}
	kk.eval("Intervals", "intervals="+countClass(len(sets)), g.N > 1)

	type iv struct {
		id   int64
		head int64
		set  uint64
	}
	var got []iv
	obsSets := map[string]any{}
	for id, in := range ig.Intervals {
		var ids []int64
		if in != nil {
			ids = idsOf(graph.NodesOf(in.Nodes()))
		}
		mask, ok := idsToMask(idx, ids)
		if in == nil || in.Head() == nil || !ok {
			kk.viol("Intervals|structure|malformed-interval", ids, "interval %d is nil, has no head, or lists unknown/repeated nodes %v", id, ids)
			return
		}
		obsSets[fmt.Sprintf("I(%d)", in.Head().ID())] = ids
		got = append(got, iv{id: id, head: in.Head().ID(), set: mask})
	}
	obs := map[string]any{"entry": g.IDs[e], "intervals": obsSets}
	sort.Slice(got, func(a, b int) bool { return got[a].id < got[b].id })

	if ig.Head() == nil || ig.Head().ID() != g.IDs[e] {
		kk.viol("Intervals|head|graph-head-not-entry", obs, "IntervalGraph.Head() is not the entry node %d", g.IDs[e])
	}
	// partition
	var union uint64
	for _, a := range got {
		if union&a.set != 0 {
			kk.viol("Intervals|partition|node-in-two-intervals", obs, "nodes %v are in more than one interval: %v",
				g.maskToIDs(union&a.set), obsSets)
			return
		}
		union |= a.set
	}
	var gall uint64
	if g.N > 0 {
		gall = uint64(1)<<uint(g.N) - 1
	}
	if union != gall {
		kk.viol("Intervals|partition|node-in-no-interval", obs, "nodes %v reachable from the entry are in no interval: %v",
			g.maskToIDs(gall&^union), obsSets)
		return
	}
	pred := g.Pred()
	for _, a := range got {
		h, ok := idx[a.head]
		if !ok || a.set>>uint(h)&1 == 0 {
			kk.viol("Intervals|structure|head-not-in-interval", obs, "head %d is not a member of its interval", a.head)
			return
		}
		// single entry
		for b := a.set &^ (1 << uint(h)); b != 0; b &= b - 1 {
			v := bits.TrailingZeros64(b)
			if pred[v]&^a.set != 0 {
				kk.viol("Intervals|single-entry|entered-at-a-non-head-node", obs, "interval I(%d)=%v is entered at %d from %v",
					a.head, g.maskToIDs(a.set), g.IDs[v], g.maskToIDs(pred[v]&^a.set))
				return
			}
		}
		// all closed paths contain the head
		sub, _ := g.Induced(a.set &^ (1 << uint(h)))
		for _, p := range mutualPartition(sub) {
			if bits.OnesCount64(p) > 1 {
				kk.viol("Intervals|closed-paths|cycle-avoiding-the-head", obs, "interval I(%d)=%v contains a cycle that avoids its head",
					a.head, g.maskToIDs(a.set))
				return
			}
		}
	}
	// maximality: equals the (unique) Allen-Cocke partition
	gotKeys := setOfSetsKeys(func() [][]int64 {
		var s [][]int64
		for _, a := range got {
			s = append(s, g.maskToIDs(a.set))
		}
		return s
	}())
	if want := setOfSetsKeys(g.masksToIDSets(sets)); !equalStrings(gotKeys, want) {
		kk.viol("Intervals|maximality|not-the-interval-partition", obs, "intervals %v, the interval partition is %v", gotKeys, want)
		return
	}
	// derived graph: I -> J iff some edge leaves I into J.
	of := make([]int, g.N)
	for ai, a := range got {
		for b := a.set; b != 0; b &= b - 1 {
			of[bits.TrailingZeros64(b)] = ai
		}
	}
	want := map[[2]int64]bool{}
	for _, ed := range g.Edges() {
		if of[ed[0]] != of[ed[1]] {
			want[[2]int64{got[of[ed[0]]].id, got[of[ed[1]]].id}] = true
		}
	}
	// The three views of the derived graph (HasEdgeFromTo, From, To) are
	// judged together: an expected edge absent from any view is "missing",
	// an unexpected edge present in any view is "spurious".
	for _, a := range got {
		fromSet, toSet := map[int64]bool{}, map[int64]bool{}
		for _, id := range idsOf(graph.NodesOf(ig.From(a.id))) {
			fromSet[id] = true
		}
		for _, id := range idsOf(graph.NodesOf(ig.To(a.id))) {
			toSet[id] = true
		}
		for _, b := range got {
			if a.id == b.id {
				continue
			}
			wantAB, wantBA := want[[2]int64{a.id, b.id}], want[[2]int64{b.id, a.id}]
			has := ig.HasEdgeFromTo(a.id, b.id)
			switch {
			case has && !wantAB, fromSet[b.id] && !wantAB, toSet[b.id] && !wantBA:
				kk.viol("Intervals|derived-graph|edge-spurious", obs, "IntervalGraph has an edge between I(%d) and I(%d) (HasEdgeFromTo=%v From=%v To=%v) but no edge of g joins them in that direction",
					a.head, b.head, has, fromSet[b.id], toSet[b.id])
				return
			case wantAB && (!has || !fromSet[b.id]), wantBA && !toSet[b.id]:
				kk.viol("Intervals|derived-graph|edge-missing", obs, "g has an edge from I(%d) to I(%d): %v / back: %v, but IntervalGraph HasEdgeFromTo=%v From lists it=%v To lists it=%v",
					a.head, b.head, wantAB, wantBA, has, fromSet[b.id], toSet[b.id])
				return
			}
		}
	}
	// internal edges of each interval
	for _, a := range got {
		in := ig.Intervals[a.id]
		for b := a.set; b != 0; b &= b - 1 {
			u := bits.TrailingZeros64(b)
			wantFrom := g.maskToIDs(g.Adj[u] & a.set)
			gotFrom := idsOf(graph.NodesOf(in.From(g.IDs[u])))
			if keyOf(sortedCopy(gotFrom)) != keyOf(sortedCopy(wantFrom)) {
				kk.viol("Intervals|interval-subgraph|From-not-the-induced-edges", obs, "interval I(%d).From(%d)=%v, induced successors are %v",
					a.head, g.IDs[u], gotFrom, wantFrom)
				return
			}
		}
	}
}

// ---------------------------------------------------------------------------
// IsPathIn / PathExistsIn

func checkPaths(k *K, gg graph.Graph, r *vrt.Rand, allPairs bool) {
	g := k.g
	if g.N == 0 {
		return
	}
	cl := closure(g)
	pairs := g.N * g.N
	if !allPairs && pairs > 60 {
		pairs = 60
	}
	for t := 0; t < pairs; t++ {
		u, v := t/g.N, t%g.N
		if !allPairs {
			u, v = r.Intn(g.N), r.Intn(g.N)
		}
		var got bool
		if !k.try("PathExistsIn", func() { got = topo.PathExistsIn(gg, gg.Node(g.IDs[u]), gg.Node(g.IDs[v])) }) {
			return
		}
		want := cl[u]>>uint(v)&1 == 1
		k.eval("PathExistsIn", fmt.Sprintf("want=%v", want), u != v)
		if got != want {
			k.viol("PathExistsIn|reachability|wrong-answer", got, "PathExistsIn(%d,%d)=%v, closure says %v", g.IDs[u], g.IDs[v], got, want)
			return
		}
	}
	// IsPathIn: real walks, walks with one broken link, random sequences.
	for t := 0; t < 12; t++ {
		l := r.Range(0, 6)
		var walk []int
		if l > 0 {
			walk = append(walk, r.Intn(g.N))
		}
		mode := r.Intn(3)
		for len(walk) < l {
			cur := walk[len(walk)-1]
			if mode != 2 && g.Adj[cur] != 0 {
				nb := g.maskToIdx(g.Adj[cur])
				walk = append(walk, nb[r.Intn(len(nb))])
			} else {
				walk = append(walk, r.Intn(g.N))
			}
		}
		if mode == 1 && len(walk) > 1 {
			walk[r.Intn(len(walk))] = r.Intn(g.N)
		}
		want := true
		for i := 0; i+1 < len(walk); i++ {
			if !g.Has(walk[i], walk[i+1]) {
				want = false
			}
		}
		path := make([]graph.Node, len(walk))
		for i, w := range walk {
			path[i] = gg.Node(g.IDs[w])
		}
		var got bool
		if !k.try("IsPathIn", func() { got = topo.IsPathIn(gg, path) }) {
			return
		}
		k.eval("IsPathIn", fmt.Sprintf("len=%d|want=%v", len(walk), want), len(walk) > 1)
		if got != want {
			k.viol("IsPathIn|walk|wrong-answer", idsOf(path), "IsPathIn(%v)=%v, want %v", idsOf(path), got, want)
			return
		}
	}
}

func (g *G) maskToIdx(mask uint64) []int {
	var out []int
	for a := mask; a != 0; a &= a - 1 {
		out = append(out, bits.TrailingZeros64(a))
	}
	return out
}
