package main

import (
	"fmt"

	"gonum.org/v1/gonum/graph"
	"gonum.org/v1/gonum/graph/product"
	"gonum.org/v1/gonum/graph/simple"
	"gonum.org/v1/gonum/verifx/vrt"
)

// adj reports u~v in g (directed: the arc u->v).
type prodPred func(a, b *G, u1, u2, v1, v2 int) bool

var products = []struct {
	name string
	run  func(dst graph.Builder, a, b graph.Graph)
	pred prodPred
}{
	{"Cartesian", product.Cartesian, func(a, b *G, u1, u2, v1, v2 int) bool {
		return (u1 == v1 && b.Has(u2, v2)) || (a.Has(u1, v1) && u2 == v2)
	}},
	{"Tensor", product.Tensor, func(a, b *G, u1, u2, v1, v2 int) bool {
		return a.Has(u1, v1) && b.Has(u2, v2)
	}},
	{"Lexicographical", product.Lexicographical, func(a, b *G, u1, u2, v1, v2 int) bool {
		return a.Has(u1, v1) || (u1 == v1 && b.Has(u2, v2))
	}},
	{"Strong", product.Strong, func(a, b *G, u1, u2, v1, v2 int) bool {
		return (u1 == v1 && b.Has(u2, v2)) || (a.Has(u1, v1) && u2 == v2) || (a.Has(u1, v1) && b.Has(u2, v2))
	}},
	{"CoNormal", product.CoNormal, func(a, b *G, u1, u2, v1, v2 int) bool {
		return a.Has(u1, v1) || b.Has(u2, v2)
	}},
	{"Modular", product.Modular, func(a, b *G, u1, u2, v1, v2 int) bool {
		return u1 != v1 && u2 != v2 && (a.Has(u1, v1) == b.Has(u2, v2))
	}},
	{"ModularExt-nil", func(dst graph.Builder, a, b graph.Graph) { product.ModularExt(dst, a, b, nil) },
		func(a, b *G, u1, u2, v1, v2 int) bool {
			return u1 != v1 && u2 != v2 && (a.Has(u1, v1) == b.Has(u2, v2))
		}},
	{"ModularExt-true", func(dst graph.Builder, a, b graph.Graph) {
		product.ModularExt(dst, a, b, func(eA, eB graph.Edge) bool { return true })
	}, func(a, b *G, u1, u2, v1, v2 int) bool {
		return u1 != v1 && u2 != v2 && (a.Has(u1, v1) == b.Has(u2, v2))
	}},
	{"ModularExt-false", func(dst graph.Builder, a, b graph.Graph) {
		product.ModularExt(dst, a, b, func(eA, eB graph.Edge) bool { return false })
	}, func(a, b *G, u1, u2, v1, v2 int) bool {
		return u1 != v1 && u2 != v2 && !a.Has(u1, v1) && !b.Has(u2, v2)
	}},
}

// checkProducts builds every product of a and b (both directed or both
// undirected, destination of the same kind) and compares the edge set with
// the textbook predicate over all pairs of product nodes.
func checkProducts(k *K, a, b *G, repA, repB Rep, r *vrt.Rand) {
	var ga, gb graph.Graph
	if a.Dir {
		ga, gb = buildDirected(a, repA, r), buildDirected(b, repB, r)
	} else {
		ga, gb = buildUndirected(a, repA, r), buildUndirected(b, repB, r)
	}
	kind := "undirected"
	if a.Dir {
		kind = "directed"
	}
	ia, ib := a.Index(), b.Index()
	for _, p := range products {
		var dst interface {
			graph.Graph
			graph.Builder
		}
		if a.Dir {
			dst = simple.NewDirectedGraph()
		} else {
			dst = simple.NewUndirectedGraph()
		}
		kk := k.with(nil, repA.String()+"x"+repB.String())
		desc := map[string]any{"a": a.Desc(), "b": b.Desc()}
		fail := func(sig string, format string, args ...any) {
			rp := map[string]any{"workload": k.wl, "case": k.caseID, "seed": k.c.Seed, "a": a.Desc(), "b": b.Desc(), "rep": kk.rep}
			k.c.Violation(sig, fmt.Sprintf(format, args...)+fmt.Sprintf(" :: a=%v b=%v", a, b), rp)
		}
		_ = desc
		kk.c.LastCase(fmt.Sprintf("product.%s a=%v b=%v", p.name, a, b))
		if pi := vrt.Try(func() { p.run(dst, ga, gb) }); pi != nil {
			fail(p.name+"|"+kind+"|panic", "%s panicked: %s", p.name, pi.Msg)
			continue
		}
		k.c.Eval(fmt.Sprintf("%s|%s|%s|%s|na=%s|nb=%s|ma=%s|mb=%s", p.name, k.wl, kk.rep, kind, sizeClass(a.N), sizeClass(b.N), countClass(a.M()), countClass(b.M())), a.M()+b.M() > 0)
		k.c.Count("calls.product."+p.name, 1)
		// nodes: one per pair
		nodes := graph.NodesOf(dst.Nodes())
		at := map[[2]int]int64{}
		bad := false
		for _, n := range nodes {
			pn, ok := n.(product.Node)
			if !ok || pn.A == nil || pn.B == nil {
				fail(p.name+"|"+kind+"|node-not-a-product-node", "%s node %d is a %T", p.name, n.ID(), n)
				bad = true
				break
			}
			i, ok1 := ia[pn.A.ID()]
			j, ok2 := ib[pn.B.ID()]
			if _, dup := at[[2]int{i, j}]; !ok1 || !ok2 || dup {
				fail(p.name+"|"+kind+"|node-set-not-the-cartesian-product", "%s node (%d,%d) unknown or duplicated", p.name, pn.A.ID(), pn.B.ID())
				bad = true
				break
			}
			at[[2]int{i, j}] = n.ID()
		}
		if bad {
			continue
		}
		if len(at) != a.N*b.N {
			fail(p.name+"|"+kind+"|node-set-not-the-cartesian-product", "%s has %d nodes, want %d", p.name, len(at), a.N*b.N)
			continue
		}
		hasEdge := func(x, y int64) bool {
			if a.Dir {
				return dst.(graph.Directed).HasEdgeFromTo(x, y)
			}
			return dst.HasEdgeBetween(x, y)
		}
	pairs:
		for u1 := 0; u1 < a.N; u1++ {
			for u2 := 0; u2 < b.N; u2++ {
				for v1 := 0; v1 < a.N; v1++ {
					for v2 := 0; v2 < b.N; v2++ {
						if u1 == v1 && u2 == v2 {
							continue
						}
						want := p.pred(a, b, u1, u2, v1, v2)
						got := hasEdge(at[[2]int{u1, u2}], at[[2]int{v1, v2}])
						if got != want {
							cls := "edge-missing"
							if got {
								cls = "edge-spurious"
							}
							fail(p.name+"|"+kind+"|"+cls, "%s: (%d,%d)~(%d,%d) present=%v, definition says %v",
								p.name, a.IDs[u1], b.IDs[u2], a.IDs[v1], b.IDs[v2], got, want)
							break pairs
						}
					}
				}
			}
		}
	}
}
