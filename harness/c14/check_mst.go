package main

import (
	"fmt"
	"math"

	"gonum.org/v1/gonum/graph"
	"gonum.org/v1/gonum/graph/path"
	"gonum.org/v1/gonum/graph/simple"
	"gonum.org/v1/gonum/verifx/vrt"
)

// weight schemes. All weights are small integers or dyadic rationals so that
// every sum is exact in float64 and the minimum weight is compared with ==.
func assignWeights(g *G, r *vrt.Rand, scheme int) string {
	g.W = make([][]float64, g.N)
	for i := range g.W {
		g.W[i] = make([]float64, g.N)
	}
	name := ""
	es := g.Edges()
	perm := r.Perm(len(es))
	for k, e := range es {
		var w float64
		switch scheme {
		case 0: // many ties
			w = float64(r.Range(1, 3))
			name = "ties"
		case 1: // distinct
			w = float64(perm[k] + 1)
			name = "distinct"
		case 2: // negative and zero weights, ties
			w = float64(r.Range(-4, 4))
			name = "signed"
		case 3: // all equal
			w = 1
			name = "equal"
		default: // dyadic fractions, distinct-ish
			w = float64(r.Range(-64, 64)) / 8
			name = "dyadic"
		}
		g.W[e[0]][e[1]] = w
		g.W[e[1]][e[0]] = w
	}
	return name
}

// checkMST runs Prim and Kruskal on g (g.W set) and judges the result.
// enumerate selects the all-spanning-forests oracle in addition to the
// reference Kruskal.
func checkMST(k *K, r *vrt.Rand, wname string, enumerate bool) {
	g := k.g
	want := refKruskal(g)
	if enumerate {
		if e := minForestByEnumeration(g); e != want {
			k.c.Inconclusive("MST", fmt.Sprintf("oracles disagree: kruskal %v enumeration %v on %v", want, e, g))
			return
		}
	}
	comps := mutualPartition(g)
	type impl struct {
		name string
		run  func(dst path.WeightedBuilder) float64
		rep  string
	}
	sg := buildWeightedUndirected(g, r)
	og := ordUndirected{newOrd(g, r)}
	impls := []impl{
		{"Prim", func(d path.WeightedBuilder) float64 { return path.Prim(d, sg) }, "simple"},
		{"Prim", func(d path.WeightedBuilder) float64 { return path.Prim(d, og) }, "ord"},
		{"Kruskal", func(d path.WeightedBuilder) float64 { return path.Kruskal(d, sg) }, "simple"},
		{"Kruskal", func(d path.WeightedBuilder) float64 { return path.Kruskal(d, og) }, "ord"},
	}
	for _, im := range impls {
		kk := k.with(g, im.rep)
		dst := simple.NewWeightedUndirectedGraph(math.NaN(), math.NaN())
		var got float64
		if !kk.try(im.name, func() { got = im.run(dst) }) {
			continue
		}
		kk.eval(im.name, fmt.Sprintf("w=%s|comps=%s|enum=%v", wname, countClass(len(comps)), enumerate), g.M() > 0)
		judgeForest(kk, im.name, dst, got, want, len(comps))
	}
}

func judgeForest(k *K, name string, dst *simple.WeightedUndirectedGraph, got, want float64, ncomp int) {
	g := k.g
	idx := g.Index()
	type we struct {
		U, V int64
		W    float64
	}
	var tree []we
	for _, e := range graph.WeightedEdgesOf(dst.WeightedEdges()) {
		tree = append(tree, we{e.From().ID(), e.To().ID(), e.Weight()})
	}
	obs := map[string]any{"returned_weight": got, "tree": tree}
	// same node set
	dn := idsOf(graph.NodesOf(dst.Nodes()))
	if keyOf(sortedCopy(dn)) != keyOf(sortedCopy(g.IDs)) {
		k.viol(name+"|forest|node-set-differs", obs, "%s dst nodes %v, graph nodes %v", name, dn, g.IDs)
		return
	}
	u := newUF(g.N)
	var sum float64
	for _, e := range tree {
		a, ok1 := idx[e.U]
		b, ok2 := idx[e.V]
		if !ok1 || !ok2 || !g.Has(a, b) {
			k.viol(name+"|forest|edge-not-in-graph", obs, "%s put %d-%d into dst which is not an edge of g", name, e.U, e.V)
			return
		}
		if e.W != g.W[a][b] {
			k.viol(name+"|forest|edge-weight-changed", obs, "%s edge %d-%d has weight %v in dst, %v in g", name, e.U, e.V, e.W, g.W[a][b])
			return
		}
		if !u.union(a, b) {
			k.viol(name+"|forest|contains-a-cycle", obs, "%s result contains a cycle through %d-%d", name, e.U, e.V)
			return
		}
		sum += e.W
	}
	if len(tree) != g.N-ncomp {
		k.viol(name+"|forest|not-spanning", obs, "%s result has %d edges, a spanning forest of %d nodes in %d components has %d",
			name, len(tree), g.N, ncomp, g.N-ncomp)
		return
	}
	if sum != want {
		k.viol(name+"|weight|forest-not-minimum", obs, "%s forest weighs %v, the minimum is %v", name, sum, want)
		return
	}
	if got != sum {
		k.viol(name+"|weight|returned-weight-differs-from-forest", obs, "%s returned %v but its forest weighs %v", name, got, sum)
	}
}
