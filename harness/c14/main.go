// Command c14 is the monitor for property C14: structural graph algorithms
// agree with their definitions on every graph. See variants.json for the
// case-generation rule and the oracle assumptions.
package main

import (
	"flag"
	"fmt"
	"sort"
	"time"

	"gonum.org/v1/gonum/graph"
	"gonum.org/v1/gonum/verifx/vrt"
)

var mode = flag.String("mode", "all", "all | cliques (only the workloads that reach Bron-Kerbosch; used by the tomita build)")

func sortStrings(s []string) { sort.Strings(s) }

func main() { vrt.Main("C14", run) }

func run(c *vrt.Ctx) {
	c.Note("mode", *mode)
	all := *mode == "all"
	// wall time per workload is recorded as a note only (never used by an oracle)
	timed := func(name string, f func()) {
		t0 := time.Now()
		f()
		c.Note("wall_s."+name, time.Since(t0).Seconds())
	}
	if all {
		timed("exh-directed", func() { exhDirected(c) })
	}
	timed("exh-undirected", func() { exhUndirected(c, all) })
	if all {
		timed("rnd-directed", func() { rndDirected(c) })
	}
	timed("rnd-undirected", func() { rndUndirected(c, all) })
	timed("rnd-color", func() { rndColor(c, all) })
	if all {
		timed("products", func() { productWorkload(c) })
		timed("generators", func() { genWorkload(c) })
	}
}

// ---------------------------------------------------------------------------
// exhaustive directed: every digraph on n labelled nodes

func digraphFromCode(n int, code uint64) *G {
	g := newG(n, true)
	bit := uint(0)
	for i := 0; i < n; i++ {
		for j := 0; j < n; j++ {
			if i == j {
				continue
			}
			if code>>bit&1 == 1 {
				g.Set(i, j)
			}
			bit++
		}
	}
	return g
}

func graphFromCode(n int, code uint64) *G {
	g := newG(n, false)
	bit := uint(0)
	for i := 0; i < n; i++ {
		for j := i + 1; j < n; j++ {
			if code>>bit&1 == 1 {
				g.Set(i, j)
			}
			bit++
		}
	}
	return g
}

func directedSuite(k *K, g *G, r *vrt.Rand, exhaustiveRoots bool, withCycles bool) {
	c := k.c
	// three representations of the same graph
	names := []string{"simple", "ord", "multi"}
	reps := []graph.Directed{buildDirected(g, RepSimple, r), buildDirected(g, RepOrd, r), buildDirected(g, RepMulti, r)}
	if c.WantSample() && g.M() > 2 {
		c.Sample(map[string]any{"workload": k.wl, "case": k.caseID, "graph": g.Desc()})
	}
	var cycles []string
	cyclesKnown := false
	if withCycles {
		var over bool
		cycles, over = elementaryCycles(g, cycleLimit)
		cyclesKnown = !over
		if over {
			k.count("skipped.DirectedCyclesIn.too-many-cycles", 1)
		}
	}
	for i, dg := range reps {
		kk := k.with(g, names[i])
		checkSCC(kk, dg)
		checkSort(kk, dg)
		if cyclesKnown {
			checkDirectedCycles(kk, dg, cycles)
		}
	}
	checkSortStable(k.with(g, "all"), reps, names)
	if g.N == 0 {
		return
	}
	// roots
	var roots []int
	if exhaustiveRoots || g.N <= 5 {
		for i := 0; i < g.N; i++ {
			roots = append(roots, i)
		}
	} else {
		roots = r.Perm(g.N)[:5]
	}
	for t, root := range roots {
		rep := Rep(t % int(numReps))
		kk := k.with(g, rep.String())
		checkDominators(kk, reps[rep], root)
		checkIntervals(k, g, root, Rep((t+1)%int(numReps)), r)
		salt := uint64(0)
		if t%2 == 1 {
			salt = r.Uint64() | 1
		}
		checkWalk(k.with(g, names[(t+2)%3]), reps[(t+2)%3], root, salt, r)
	}
	checkPaths(k.with(g, names[r.Intn(3)]), reps[r.Intn(3)], r, g.N <= 5)
}

func exhDirected(c *vrt.Ctx) {
	maxN := 4 // the full bound is affordable in both tiers
	for n := 0; n <= maxN; n++ {
		n := n
		total := 1 << uint(n*(n-1))
		if n == 0 {
			total = 1
		}
		wl := fmt.Sprintf("exh-d%d", n)
		vrt.Parallel(total, func(i int) {
			r := c.RNG(wl, i)
			g := digraphFromCode(n, uint64(i))
			k := newK(c, wl, fmt.Sprintf("%s/%d", wl, i))
			k.ids = "contig"
			directedSuite(k, g, r, true, true)
			k.done()
			// the same graph under another labelling (ID order != index order)
			g2 := digraphFromCode(n, uint64(i))
			k2 := newK(c, wl, fmt.Sprintf("%s/%d/relabel", wl, i))
			k2.ids = assignIDs(g2, r, 2+r.Intn(3))
			directedSuite(k2, g2, r, true, true)
			k2.done()
		})
		c.Count("graphs."+wl, int64(total))
	}
	vrt.Parallel(c.Pick(40, 400), func(i int) {
		checkSortAmbiguous(c, c.RNG("sort-ambiguous", i), 1+i%12)
	})
}

// ---------------------------------------------------------------------------
// exhaustive undirected

func undirectedSuite(k *K, g *G, r *vrt.Rand, full bool, o undirOpts) {
	c := k.c
	names := []string{"simple", "ord", "multi"}
	reps := []graph.Undirected{buildUndirected(g, RepSimple, r), buildUndirected(g, RepOrd, r), buildUndirected(g, RepMulti, r)}
	if c.WantSample() && g.M() > 3 {
		c.Sample(map[string]any{"workload": k.wl, "case": k.caseID, "graph": g.Desc()})
	}
	var cliques []uint64
	cliquesKnown := false
	if o.cliques {
		cliques, cliquesKnown = refCliques(g)
		if !cliquesKnown {
			k.count("skipped.BronKerbosch.too-many-cliques", 1)
		}
	}
	if cliquesKnown {
		// the default pivot choice follows Go map iteration order, which the
		// harness cannot seed: sample it by repetition
		for t := c.Pick(1, 4); t > 0; t-- {
			checkBronKerbosch(k.with(g, "simple"), reps[0], cliques)
		}
	}
	for i, ug := range reps {
		kk := k.with(g, names[i])
		if !full && i != o.rep%3 && !(i == 1 && o.alsoOrd) {
			continue
		}
		if cliquesKnown {
			checkBronKerbosch(kk, ug, cliques)
			if o.cliqueGraph {
				checkCliqueGraph(kk, ug, cliques)
			}
		}
		if o.kcomm > 0 {
			checkKCommunities(kk, ug, o.kcomm)
		}
		if o.exact || o.heur {
			chi := -1
			if o.chi {
				chi = chromaticNumber(g)
			}
			checkColoringsOpt(kk, ug, chi, r, o)
		}
		if !o.structural {
			continue
		}
		checkCC(kk, ug)
		checkCycleBasis(kk, ug)
		checkCores(kk, ug)
		if g.N > 0 {
			salt := uint64(0)
			if i == 1 {
				salt = r.Uint64() | 1
			}
			checkWalkAll(kk, ug, salt)
			checkWalk(kk, ug, r.Intn(g.N), salt, r)
			checkPaths(kk, ug, r, g.N <= 4)
		}
	}
	if o.mst && g.N > 0 {
		for _, ws := range o.weightSchemes {
			gw := *g
			wname := assignWeights(&gw, r, ws)
			checkMST(k.with(&gw, "weighted"), r, wname, o.enumerate && gw.M() <= 12)
		}
	}
}

type undirOpts struct {
	structural    bool // CC, cycle basis, cores, traversals, paths
	cliques       bool
	cliqueGraph   bool
	kcomm         int // max k for KCliqueCommunities (0 = skip)
	heur, exact   bool
	chi           bool // chromatic number by exhaustive search
	partials      bool
	mst           bool
	weightSchemes []int
	enumerate     bool
	rep           int
	alsoOrd       bool
}

func checkColoringsOpt(k *K, ug graph.Undirected, chi int, r *vrt.Rand, o undirOpts) {
	checkColorings(k, ug, chi, r, o.heur, o.exact, o.partials)
}

func exhUndirected(c *vrt.Ctx, all bool) {
	maxN := c.Pick(5, 6)
	for n := 0; n <= maxN; n++ {
		n := n
		total := 1 << uint(n*(n-1)/2)
		wl := fmt.Sprintf("exh-u%d", n)
		vrt.Parallel(total, func(i int) {
			r := c.RNG(wl, i)
			g := graphFromCode(n, uint64(i))
			o := undirOpts{
				structural: all, cliques: true, cliqueGraph: true, kcomm: n + 1,
				heur: all, exact: true, chi: true, partials: all,
				mst: all, weightSchemes: []int{i % 5, (i + 2) % 5}, enumerate: true,
				rep: i, alsoOrd: true,
			}
			k := newK(c, wl, fmt.Sprintf("%s/%d", wl, i))
			k.ids = "contig"
			undirectedSuite(k, g, r, n <= 4, o)
			k.done()
			g2 := graphFromCode(n, uint64(i))
			k2 := newK(c, wl, fmt.Sprintf("%s/%d/relabel", wl, i))
			k2.ids = assignIDs(g2, r, 2+r.Intn(3))
			o.weightSchemes = []int{(i + 1) % 5}
			o.rep = i + 1
			o.alsoOrd = false
			undirectedSuite(k2, g2, r, false, o)
			k2.done()
		})
		c.Count("graphs."+wl, int64(total))
	}
}

// ---------------------------------------------------------------------------
// random graphs

var densities = []float64{0.05, 0.1, 0.2, 0.35, 0.5, 0.7, 0.9}

// randomDigraph draws one of several shapes.
func randomDigraph(r *vrt.Rand, n int, shape int, p float64) (*G, string) {
	g := newG(n, true)
	switch shape {
	case 0: // G(n,p)
		for i := 0; i < n; i++ {
			for j := 0; j < n; j++ {
				if i != j && r.Chance(p) {
					g.Set(i, j)
				}
			}
		}
		return g, "gnp"
	case 1: // DAG along a random order
		ord := r.Perm(n)
		for a := 0; a < n; a++ {
			for b := a + 1; b < n; b++ {
				if r.Chance(p) {
					g.Set(ord[a], ord[b])
				}
			}
		}
		return g, "dag"
	case 2: // out-forest plus a few back edges (reducible-looking flow graphs)
		ord := r.Perm(n)
		for b := 1; b < n; b++ {
			if r.Chance(0.9) {
				g.Set(ord[r.Intn(b)], ord[b])
			}
		}
		for t := r.Intn(n/3 + 1); t > 0; t-- {
			a, b := r.Intn(n), r.Intn(n)
			if a != b {
				g.Set(a, b)
			}
		}
		return g, "tree+back"
	case 3: // several dense blocks joined sparsely (many SCCs of size >1)
		blocks := r.Range(2, 4)
		of := make([]int, n)
		for i := range of {
			of[i] = r.Intn(blocks)
		}
		for i := 0; i < n; i++ {
			for j := 0; j < n; j++ {
				if i == j {
					continue
				}
				q := 0.03
				if of[i] == of[j] {
					q = p
				} else if of[i] > of[j] {
					q = 0
				}
				if r.Chance(q) {
					g.Set(i, j)
				}
			}
		}
		return g, "blocks"
	default: // control-flow-like: chain with forward jumps and loops
		for i := 0; i+1 < n; i++ {
			g.Set(i, i+1)
		}
		for t := r.Range(1, n/2+1); t > 0; t-- {
			a, b := r.Intn(n), r.Intn(n)
			if a != b {
				g.Set(a, b)
			}
		}
		return g, "cfg"
	}
}

func rndDirected(c *vrt.Ctx) {
	total := c.Pick(800, 12000)
	wl := "rnd-d"
	vrt.Parallel(total, func(i int) {
		r := c.RNG(wl, i)
		shape := i % 5
		p := densities[(i/5)%len(densities)]
		n := r.Range(2, 40)
		if i%3 == 0 {
			n = r.Range(2, 12)
		}
		g, sname := randomDigraph(r, n, shape, p)
		k := newK(c, wl+"-"+sname, fmt.Sprintf("%s/%d", wl, i))
		k.ids = assignIDs(g, r, r.Intn(5))
		defer k.done()
		// elementary-cycle ground truth is only affordable when there are few
		// cycles; the enumeration gives up above cycleLimit.
		withCycles := n <= 9 || sname == "dag" || sname == "tree+back" || (sname == "gnp" && p*float64(n) <= 1.6) || (sname == "cfg" && n <= 18)
		directedSuite(k, g, r, false, withCycles)
	})
	c.Count("graphs."+wl, int64(total))
}

func randomGraph(r *vrt.Rand, n int, shape int, p float64) (*G, string) {
	g := newG(n, false)
	switch shape {
	case 0:
		for i := 0; i < n; i++ {
			for j := i + 1; j < n; j++ {
				if r.Chance(p) {
					g.Set(i, j)
				}
			}
		}
		return g, "gnp"
	case 1: // forest
		ord := r.Perm(n)
		for b := 1; b < n; b++ {
			if r.Chance(0.85) {
				g.Set(ord[r.Intn(b)], ord[b])
			}
		}
		return g, "forest"
	case 2: // disconnected union of blocks
		blocks := r.Range(2, 5)
		of := make([]int, n)
		for i := range of {
			of[i] = r.Intn(blocks)
		}
		for i := 0; i < n; i++ {
			for j := i + 1; j < n; j++ {
				if of[i] == of[j] && r.Chance(p+0.2) {
					g.Set(i, j)
				}
			}
		}
		return g, "disconnected"
	case 3: // overlapping cliques (clique percolation, many maximal cliques)
		for t := r.Range(2, n/2+2); t > 0; t-- {
			sz := r.Range(2, 5)
			if sz > n {
				sz = n
			}
			mem := r.Perm(n)[:sz]
			for a := 0; a < sz; a++ {
				for b := a + 1; b < sz; b++ {
					g.Set(mem[a], mem[b])
				}
			}
		}
		return g, "cliques"
	default: // cycle with chords (cycle space of moderate dimension)
		for i := 0; i < n; i++ {
			if n > 2 || i == 0 && n == 2 {
				if i != (i+1)%n {
					g.Set(i, (i+1)%n)
				}
			}
		}
		for t := r.Intn(n); t > 0; t-- {
			a, b := r.Intn(n), r.Intn(n)
			if a != b {
				g.Set(a, b)
			}
		}
		return g, "chords"
	}
}

func rndUndirected(c *vrt.Ctx, all bool) {
	total := c.Pick(800, 12000)
	wl := "rnd-u"
	vrt.Parallel(total, func(i int) {
		r := c.RNG(wl, i)
		shape := i % 5
		p := densities[(i/5)%len(densities)]
		n := r.Range(2, 40)
		switch i % 4 {
		case 0:
			n = r.Range(2, 9) // exact chromatic number known
		case 1:
			n = r.Range(6, 14)
		}
		if p >= 0.7 && n > 26 {
			n = 26 // keeps the number of maximal cliques enumerable
		}
		g, sname := randomGraph(r, n, shape, p)
		k := newK(c, wl+"-"+sname, fmt.Sprintf("%s/%d", wl, i))
		k.ids = assignIDs(g, r, r.Intn(5))
		defer k.done()
		o := undirOpts{
			structural: all, cliques: true, cliqueGraph: n <= 20, heur: all, partials: all,
			exact: n <= 12, chi: n <= 9,
			mst: all, weightSchemes: []int{i % 5}, enumerate: n <= 6,
			rep: i, alsoOrd: i%2 == 0,
		}
		if n <= 12 {
			o.kcomm = 5
		}
		undirectedSuite(k, g, r, false, o)
	})
	c.Count("graphs."+wl, int64(total))
}

// ---------------------------------------------------------------------------
// products

func productWorkload(c *vrt.Ctx) {
	// exhaustive: every pair of (di)graphs on <= 2 (quick) / <= 3 nodes
	maxN := c.Pick(2, 3)
	for _, dir := range []bool{false, true} {
		type small struct {
			n    int
			code uint64
		}
		var pool []small
		for n := 0; n <= maxN; n++ {
			bitsN := n * (n - 1) / 2
			if dir {
				bitsN = n * (n - 1)
			}
			if dir && n == 3 {
				// 64 digraphs on 3 nodes: sample a fixed quarter for pairs
				for code := uint64(0); code < 64; code += 3 {
					pool = append(pool, small{n, code})
				}
				continue
			}
			for code := uint64(0); code < 1<<uint(bitsN); code++ {
				pool = append(pool, small{n, code})
			}
		}
		wl := "prod-exh-u"
		if dir {
			wl = "prod-exh-d"
		}
		vrt.Parallel(len(pool)*len(pool), func(i int) {
			r := c.RNG(wl, i)
			sa, sb := pool[i/len(pool)], pool[i%len(pool)]
			var a, b *G
			if dir {
				a, b = digraphFromCode(sa.n, sa.code), digraphFromCode(sb.n, sb.code)
			} else {
				a, b = graphFromCode(sa.n, sa.code), graphFromCode(sb.n, sb.code)
			}
			k := newK(c, wl, fmt.Sprintf("%s/%d", wl, i))
			checkProducts(k, a, b, Rep(i%2), Rep((i/2)%2), r)
		})
		c.Count("pairs."+wl, int64(len(pool)*len(pool)))
	}
	total := c.Pick(60, 1500)
	vrt.Parallel(total, func(i int) {
		r := c.RNG("prod-rnd", i)
		dir := i%2 == 1
		na, nb := r.Range(1, 7), r.Range(1, 7)
		for na*nb > 36 {
			nb--
		}
		var a, b *G
		pa, pb := densities[r.Intn(len(densities))], densities[r.Intn(len(densities))]
		if dir {
			a, _ = randomDigraph(r, na, 0, pa)
			b, _ = randomDigraph(r, nb, 0, pb)
		} else {
			a, _ = randomGraph(r, na, 0, pa)
			b, _ = randomGraph(r, nb, 0, pb)
		}
		assignIDs(a, r, r.Intn(5))
		assignIDs(b, r, r.Intn(5))
		k := newK(c, "prod-rnd", fmt.Sprintf("prod-rnd/%d", i))
		checkProducts(k, a, b, Rep(r.Intn(3)), Rep(r.Intn(3)), r)
	})
	c.Count("pairs.prod-rnd", int64(total))
}

// ---------------------------------------------------------------------------
// generators

func genWorkload(c *vrt.Ctx) {
	// deterministic families: every n up to 12 with explicit and range IDs
	vrt.Parallel(13*2*c.Pick(2, 10), func(i int) {
		r := c.RNG("gen-det", i)
		n := i % 13
		checkDeterministicGen(c, r, n, (i/13)%2 == 1)
	})
	// Gnm: every (n, m) for n <= 6 (quick) / 8 incl. impossible sizes; random larger
	maxN := c.Pick(6, 8)
	type nm struct {
		n, m int
		dir  bool
	}
	var cases []nm
	for n := 0; n <= maxN; n++ {
		for m := 0; m <= n*(n-1)/2+1; m++ {
			cases = append(cases, nm{n, m, false})
		}
		for m := 0; m <= n*(n-1)+2; m++ {
			cases = append(cases, nm{n, m, true})
		}
	}
	vrt.Parallel(len(cases), func(i int) {
		checkGnm(c, c.RNG("gnm-exh", i), cases[i].n, cases[i].m, cases[i].dir)
	})
	vrt.Parallel(c.Pick(40, 600), func(i int) {
		r := c.RNG("gnm-rnd", i)
		n := r.Range(9, 40)
		dir := i%2 == 1
		max := n * (n - 1) / 2
		m := r.Intn(max + 1)
		if i%7 == 0 {
			m = max - r.Intn(3)
		}
		if dir {
			m *= 2
		}
		checkGnm(c, r, n, m, dir)
	})
	// Gnp
	vrt.Parallel(c.Pick(40, 200), func(i int) {
		r := c.RNG("gnp-exact", i)
		checkGnpExact(c, r, i%20, float64(i/20%2), i%3 == 0)
	})
	ps := []float64{0.05, 0.3, 0.5, 0.8, 0.97}
	ns := []int{2, 3, 5, 9, 16}
	vrt.Parallel(len(ps)*len(ns)*2, func(i int) {
		r := c.RNG("gnp-band", i)
		checkGnpBand(c, r, ns[i%len(ns)], ps[(i/len(ns))%len(ps)], i >= len(ps)*len(ns), c.Pick(400, 4000))
	})
	// attachment families
	vrt.Parallel(c.Pick(40, 600), func(i int) {
		r := c.RNG("gen-fam", i)
		m := r.Range(1, 4)
		n := r.Range(m+1, 50)
		checkAttachmentFamilies(c, r, n, m)
	})
	// navigable small world: all small 1-D and 2-D grids
	type nav struct {
		dims []int
		p, q int
		dir  bool
	}
	var navs []nav
	for _, dir := range []bool{false, true} {
		for p := 1; p <= 3; p++ {
			for q := 0; q <= 2; q++ {
				for a := 1; a <= c.Pick(7, 12); a++ {
					navs = append(navs, nav{[]int{a}, p, q, dir})
				}
				for a := 1; a <= c.Pick(3, 5); a++ {
					for b := 1; b <= c.Pick(4, 6); b++ {
						navs = append(navs, nav{[]int{a, b}, p, q, dir})
					}
				}
				navs = append(navs, nav{[]int{2, 3, 2}, p, q, dir})
			}
		}
	}
	vrt.Parallel(len(navs), func(i int) {
		checkNavigable(c, c.RNG("gen-nav", i), navs[i].dims, navs[i].p, navs[i].q, navs[i].dir)
	})
	vrt.Parallel(c.Pick(60, 600), func(i int) {
		r := c.RNG("gen-swbb", i)
		n := r.Range(1, 40)
		d := r.Range(0, n/2+1)
		p := []float64{0, 0.1, 0.5, 0.9, 1, -0.1}[r.Intn(6)]
		checkSmallWorldsBB(c, r, n, d, p, i%2 == 1)
	})
}

// rndColor aims at the exact colouring solver: graphs of 7..12 nodes at
// medium density, where the clique bound, the Dsatur heuristic and the
// chromatic number (known here by exhaustive search) regularly differ, so
// that the branch-and-bound search itself decides the answer.
func rndColor(c *vrt.Ctx, all bool) {
	total := c.Pick(500, 12000)
	wl := "rnd-color"
	ps := []float64{0.25, 0.35, 0.45, 0.55, 0.65}
	vrt.Parallel(total, func(i int) {
		r := c.RNG(wl, i)
		n := r.Range(7, 12)
		var g *G
		if i%4 == 3 {
			// odd cycle / wheel-like cores with random chords: clique number
			// below chromatic number
			g = newG(n, false)
			k := n - r.Intn(3)
			if k%2 == 0 {
				k--
			}
			for a := 0; a < k; a++ {
				g.Set(a, (a+1)%k)
			}
			for v := k; v < n; v++ {
				for a := 0; a < v; a++ {
					if r.Chance(0.45) {
						g.Set(a, v)
					}
				}
			}
			for t := r.Intn(4); t > 0; t-- {
				a, b := r.Intn(n), r.Intn(n)
				if a != b {
					g.Set(a, b)
				}
			}
		} else {
			g, _ = randomGraph(r, n, 0, ps[i%len(ps)])
		}
		k := newK(c, wl, fmt.Sprintf("%s/%d", wl, i))
		k.ids = assignIDs(g, r, r.Intn(5))
		defer k.done()
		chi := chromaticNumber(g)
		rep := Rep(i % int(numReps))
		ug := buildUndirected(g, rep, r)
		checkColorings(k.with(g, rep.String()), ug, chi, r, all, true, false)
	})
	c.Count("graphs."+wl, int64(total))
}
