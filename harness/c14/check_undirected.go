package main

import (
	"fmt"
	"math/bits"
	"sort"

	"gonum.org/v1/gonum/graph"
	"gonum.org/v1/gonum/graph/community"
	"gonum.org/v1/gonum/graph/simple"
	"gonum.org/v1/gonum/graph/topo"
	"gonum.org/v1/gonum/verifx/vrt"
)

func simpleNode(id int64) graph.Node { return simple.Node(id) }

// ---------------------------------------------------------------------------
// ConnectedComponents

func checkCC(k *K, ug graph.Undirected) {
	g := k.g
	var out [][]graph.Node
	if !k.try("ConnectedComponents", func() { out = topo.ConnectedComponents(ug) }) {
		return
	}
	want := mutualPartition(g)
	k.eval("ConnectedComponents", "cc="+countClass(len(want)), g.N > 1)
	got := setOfSetsKeys(idsOfAll(out))
	exp := setOfSetsKeys(g.masksToIDSets(want))
	if !equalStrings(got, exp) {
		k.viol("ConnectedComponents|partition|not-the-reachability-classes", idsOfAll(out),
			"ConnectedComponents returned %v, the components are %v", got, exp)
	}
}

// ---------------------------------------------------------------------------
// UndirectedCyclesIn: a cycle basis

func checkCycleBasis(k *K, ug graph.Undirected) {
	g := k.g
	idx := g.Index()
	var out [][]graph.Node
	if !k.try("UndirectedCyclesIn", func() { out = topo.UndirectedCyclesIn(ug) }) {
		return
	}
	edges := g.Edges()
	eidx := map[[2]int]int{}
	for i, e := range edges {
		eidx[e] = i
	}
	dim := len(edges) - g.N + len(mutualPartition(g))
	k.eval("UndirectedCyclesIn", "dim="+countClass(dim), dim > 0)
	obs := idsOfAll(out)
	words := (len(edges) + 63) / 64
	var rows [][]uint64
	for _, cyc := range out {
		ids := idsOf(cyc)
		if len(ids) < 4 || ids[0] != ids[len(ids)-1] {
			k.viol("UndirectedCyclesIn|format|not-a-closed-cycle", obs, "%v is not a closed cycle on at least 3 nodes", ids)
			return
		}
		ids = ids[:len(ids)-1]
		if _, ok := idsToMask(idx, ids); !ok {
			k.viol("UndirectedCyclesIn|cycle|repeats-a-node", obs, "cycle %v repeats a node or uses an unknown node", ids)
			return
		}
		row := make([]uint64, words)
		for i, id := range ids {
			a, b := idx[id], idx[ids[(i+1)%len(ids)]]
			if !g.Has(a, b) {
				k.viol("UndirectedCyclesIn|cycle|uses-a-non-edge", obs, "cycle %v uses %d-%d which is not an edge", ids, id, ids[(i+1)%len(ids)])
				return
			}
			if a > b {
				a, b = b, a
			}
			e := eidx[[2]int{a, b}]
			row[e/64] ^= 1 << uint(e%64)
		}
		rows = append(rows, row)
	}
	if len(out) != dim {
		k.viol("UndirectedCyclesIn|basis|wrong-number-of-cycles", obs, "%d cycles returned, the cycle space has dimension m-n+c=%d", len(out), dim)
		return
	}
	if r := gf2Rank(rows); r != dim {
		k.viol("UndirectedCyclesIn|basis|linearly-dependent", obs, "returned cycles have GF(2) rank %d < %d", r, dim)
	}
}

// ---------------------------------------------------------------------------
// BronKerbosch

const cliqueLimit = 200000

// refCliques returns the maximal cliques of g by definition (subset
// enumeration up to 12 nodes, otherwise an independent plain enumeration).
func refCliques(g *G) (masks []uint64, ok bool) {
	if g.N <= 12 {
		return maximalCliquesSubsets(g), true
	}
	m, over := maximalCliquesRef(g, cliqueLimit)
	return m, !over
}

func checkBronKerbosch(k *K, ug graph.Undirected, want []uint64) {
	g := k.g
	idx := g.Index()
	var out [][]graph.Node
	if !k.try("BronKerbosch", func() { out = topo.BronKerbosch(ug) }) {
		return
	}
	k.eval("BronKerbosch", "cliques="+countClass(len(want)), g.M() > 0)
	obs := idsOfAll(out)
	if len(obs) > 50 {
		obs = obs[:50]
	}
	for _, cl := range out {
		mask, ok := idsToMask(idx, idsOf(cl))
		if !ok || mask == 0 {
			k.viol("BronKerbosch|clique|repeats-a-node-or-empty", obs, "clique %v repeats a node, is empty or uses an unknown node", idsOf(cl))
			return
		}
		for a := mask; a != 0; a &= a - 1 {
			i := bits.TrailingZeros64(a)
			if (g.Adj[i]|1<<uint(i))&mask != mask {
				k.viol("BronKerbosch|clique|not-a-clique", obs, "%v is not a clique", idsOf(cl))
				return
			}
		}
		for v := 0; v < g.N; v++ {
			if mask>>uint(v)&1 == 0 && g.Adj[v]&mask == mask {
				k.viol("BronKerbosch|clique|not-maximal", obs, "%v is not maximal: %d is adjacent to all of it", idsOf(cl), g.IDs[v])
				return
			}
		}
	}
	got := setOfSetsKeys(idsOfAll(out))
	exp := setOfSetsKeys(g.masksToIDSets(want))
	if !equalStrings(got, exp) {
		cls := "wrong-set"
		switch {
		case len(got) < len(exp):
			cls = "clique-missing"
		case len(got) > len(exp):
			cls = "clique-duplicated"
		}
		k.viol("BronKerbosch|set|"+cls, obs, "BronKerbosch returned %d cliques, there are %d maximal cliques; got %v want %v", len(got), len(exp), trunc(got), trunc(exp))
	}
}

func trunc(s []string) []string {
	if len(s) > 40 {
		return append(append([]string(nil), s[:40]...), "...")
	}
	return s
}

// ---------------------------------------------------------------------------
// KCore / DegeneracyOrdering

func checkCores(k *K, ug graph.Undirected) {
	g := k.g
	idx := g.Index()
	core, kcore := coreNumbers(g)
	degen := 0
	for _, c := range core {
		if c > degen {
			degen = c
		}
	}
	var order []graph.Node
	var cores [][]graph.Node
	if k.try("DegeneracyOrdering", func() { order, cores = topo.DegeneracyOrdering(ug) }) {
		k.eval("DegeneracyOrdering", fmt.Sprintf("degeneracy=%s", countClass(degen)), g.M() > 0)
		obs := map[string]any{"order": idsOf(order), "cores": idsOfAll(cores)}
		mask, ok := idsToMask(idx, idsOf(order))
		var all uint64
		if g.N > 0 {
			all = uint64(1)<<uint(g.N) - 1
		}
		switch {
		case !ok || mask != all:
			k.viol("DegeneracyOrdering|order|not-a-permutation-of-the-nodes", obs, "order %v is not a permutation of the nodes", idsOf(order))
		case g.N > 0 && len(cores) != degen+1:
			k.viol("DegeneracyOrdering|cores|wrong-degeneracy", obs, "%d core levels returned, degeneracy is %d", len(cores), degen)
		default:
			// In the returned order every node has at most `degeneracy`
			// neighbours that come earlier (definition of a degeneracy
			// ordering, orientation as in the cited algorithm).
			var earlier uint64
			okOrder := true
			for _, n := range order {
				v := idx[n.ID()]
				if c := bits.OnesCount64(g.Adj[v] & earlier); c > degen {
					k.viol("DegeneracyOrdering|order|node-with-more-than-degeneracy-earlier-neighbours", obs,
						"node %d has %d earlier neighbours in %v, degeneracy is %d", n.ID(), c, idsOf(order), degen)
					okOrder = false
					break
				}
				earlier |= 1 << uint(v)
			}
			// cores[i]: the nodes with core number exactly i (the levels
			// whose union over i>=k is the k-core).
			for i := 0; okOrder && i < len(cores); i++ {
				var want []int64
				for v, c := range core {
					if c == i {
						want = append(want, g.IDs[v])
					}
				}
				if keyOf(sortedCopy(idsOf(cores[i]))) != keyOf(sortedCopy(want)) {
					k.viol("DegeneracyOrdering|cores|level-not-the-nodes-of-that-core-number", obs,
						"cores[%d]=%v, nodes with core number %d by peeling are %v", i, idsOf(cores[i]), i, want)
					break
				}
			}
		}
	}
	// KCore for every k that has a defined level (0..degeneracy+1).
	if g.N == 0 {
		return
	}
	for kk := 0; kk <= degen+1; kk++ {
		var out []graph.Node
		if !k.try("KCore", func() { out = topo.KCore(kk, ug) }) {
			return
		}
		want := kcore(kk)
		k.eval("KCore", fmt.Sprintf("k=%s|empty=%v", countClass(kk), want == 0), g.M() > 0)
		mask, ok := idsToMask(idx, idsOf(out))
		if !ok || mask != want {
			k.viol("KCore|set|not-the-peeling-k-core", map[string]any{"k": kk, "core": idsOf(out)},
				"KCore(%d)=%v, peeling gives %v", kk, idsOf(out), g.maskToIDs(want))
			return
		}
	}
	// Beyond degeneracy+1 the k-core is still defined (it is empty).
	for _, kk := range []int{degen + 2, degen + 5} {
		var out []graph.Node
		k.c.LastCase(fmt.Sprintf("KCore k=%d %v", kk, g))
		p := vrt.Try(func() { out = topo.KCore(kk, ug) })
		k.eval("KCore", "k>degeneracy+1", true)
		if p != nil {
			k.viol("KCore|k>degeneracy+1|"+panicClass(p), map[string]any{"k": kk, "degeneracy": degen},
				"KCore(%d) on a graph of degeneracy %d panicked (%s); the %d-core is empty by definition", kk, degen, p.Msg, kk)
			return
		}
		if len(out) != 0 {
			k.viol("KCore|k>degeneracy+1|not-empty", map[string]any{"k": kk, "core": idsOf(out)}, "KCore(%d)=%v on a graph of degeneracy %d", kk, idsOf(out), degen)
			return
		}
	}
}

// ---------------------------------------------------------------------------
// CliqueGraph and KCliqueCommunities

func checkCliqueGraph(k *K, ug graph.Undirected, want []uint64) {
	g := k.g
	idx := g.Index()
	dst := simple.NewUndirectedGraph()
	if !k.try("CliqueGraph", func() { topo.CliqueGraph(dst, ug) }) {
		return
	}
	k.eval("CliqueGraph", "cliques="+countClass(len(want)), len(want) > 1)
	nodes := graph.NodesOf(dst.Nodes())
	type cn struct {
		id   int64
		mask uint64
	}
	var cns []cn
	var sets [][]int64
	for _, n := range nodes {
		cl, ok := n.(topo.Clique)
		if !ok {
			k.viol("CliqueGraph|node|not-a-Clique", nil, "node %d of the clique graph is a %T", n.ID(), n)
			return
		}
		mask, ok := idsToMask(idx, idsOf(cl.Nodes()))
		if !ok {
			k.viol("CliqueGraph|node|malformed-clique", idsOf(cl.Nodes()), "clique node %d lists %v", n.ID(), idsOf(cl.Nodes()))
			return
		}
		cns = append(cns, cn{n.ID(), mask})
		sets = append(sets, g.maskToIDs(mask))
	}
	if got, exp := setOfSetsKeys(sets), setOfSetsKeys(g.masksToIDSets(want)); !equalStrings(got, exp) {
		k.viol("CliqueGraph|nodes|not-the-maximal-cliques", sets, "clique graph nodes %v, maximal cliques %v", trunc(got), trunc(exp))
		return
	}
	for i, a := range cns {
		for _, b := range cns[i+1:] {
			common := a.mask & b.mask
			e := dst.Edge(a.id, b.id)
			if (e != nil) != (common != 0) {
				cls := "edge-missing"
				if e != nil {
					cls = "edge-between-disjoint-cliques"
				}
				k.viol("CliqueGraph|edges|"+cls, sets, "cliques %v and %v share %v but edge present=%v",
					g.maskToIDs(a.mask), g.maskToIDs(b.mask), g.maskToIDs(common), e != nil)
				return
			}
			if e == nil {
				continue
			}
			ce, ok := e.(topo.CliqueGraphEdge)
			if !ok {
				k.viol("CliqueGraph|edges|not-a-CliqueGraphEdge", nil, "edge is a %T", e)
				return
			}
			m, ok := idsToMask(idx, idsOf(ce.Nodes()))
			if !ok || m != common {
				k.viol("CliqueGraph|edges|edge-nodes-not-the-intersection", idsOf(ce.Nodes()), "edge between %v and %v carries %v, the intersection is %v",
					g.maskToIDs(a.mask), g.maskToIDs(b.mask), idsOf(ce.Nodes()), g.maskToIDs(common))
				return
			}
		}
	}
}

// refKCommunities follows the definition of Palla et al.: two k-cliques are
// adjacent when they share k-1 nodes; a community is the union of a
// connected class of k-cliques.
func refKCommunities(g *G, kk int) (comms []uint64, inComm uint64) {
	var kcl []uint64
	var rec func(start int, cur uint64, cand uint64, size int)
	rec = func(start int, cur uint64, cand uint64, size int) {
		if size == kk {
			kcl = append(kcl, cur)
			return
		}
		for a := cand; a != 0; a &= a - 1 {
			v := bits.TrailingZeros64(a)
			if v < start {
				continue
			}
			rec(v+1, cur|1<<uint(v), cand&g.Adj[v], size+1)
		}
	}
	var all uint64
	if g.N > 0 {
		all = uint64(1)<<uint(g.N) - 1
	}
	rec(0, 0, all, 0)
	u := newUF(len(kcl))
	for i := range kcl {
		for j := i + 1; j < len(kcl); j++ {
			if bits.OnesCount64(kcl[i]&kcl[j]) == kk-1 {
				u.union(i, j)
			}
		}
	}
	byRoot := map[int]uint64{}
	for i, c := range kcl {
		byRoot[u.find(i)] |= c
	}
	for _, m := range byRoot {
		comms = append(comms, m)
		inComm |= m
	}
	return comms, inComm
}

func checkKCommunities(k *K, ug graph.Undirected, maxK int) {
	g := k.g
	for kk := 1; kk <= maxK; kk++ {
		var out [][]graph.Node
		if !k.try("KCliqueCommunities", func() { out = community.KCliqueCommunities(kk, ug) }) {
			return
		}
		var want [][]int64
		switch kk {
		case 1:
			// documented: a single component with all nodes
			want = [][]int64{append([]int64(nil), g.IDs...)}
		default:
			comms, in := refKCommunities(g, kk)
			want = g.masksToIDSets(comms)
			// nodes in no k-clique are reported as singletons
			for v := 0; v < g.N; v++ {
				if in>>uint(v)&1 == 0 {
					want = append(want, []int64{g.IDs[v]})
				}
			}
		}
		k.eval("KCliqueCommunities", fmt.Sprintf("k=%d|comms=%s", kk, countClass(len(want))), g.M() > 0)
		got, exp := setOfSetsKeys(idsOfAll(out)), setOfSetsKeys(want)
		if !equalStrings(got, exp) {
			k.viol(fmt.Sprintf("KCliqueCommunities|k%s|not-the-clique-percolation-communities", kClass(kk)), map[string]any{"k": kk, "out": idsOfAll(out)},
				"KCliqueCommunities(%d) = %v, by definition %v", kk, got, exp)
			return
		}
	}
}

func kClass(k int) string {
	switch {
	case k <= 2:
		return fmt.Sprintf("=%d", k)
	default:
		return ">=3"
	}
}

var _ = sort.Strings
