package main

import (
	"fmt"
	"math/bits"
	"sort"

	"gonum.org/v1/gonum/graph"
	"gonum.org/v1/gonum/graph/coloring"
	"gonum.org/v1/gonum/verifx/vrt"
)

// neverDone is a Terminator that is never cancelled.
type neverDone struct{ ch chan struct{} }

func (n neverDone) Done() <-chan struct{} { return n.ch }
func (neverDone) Err() error              { return nil }

// judgeColoring checks that colors is a proper total colouring of g with k
// distinct colours that extends partial.
func judgeColoring(k *K, name string, kcol int, colors map[int64]int, partial map[int64]int) bool {
	g := k.g
	obs := map[string]any{"k": kcol, "colors": fmt.Sprint(colors), "partial": fmt.Sprint(partial)}
	pc := "nopartial"
	if len(partial) > 0 {
		pc = "partial"
	}
	if len(colors) != g.N {
		k.viol(name+"|"+pc+"|colouring-not-total", obs, "%s coloured %d of %d nodes", name, len(colors), g.N)
		return false
	}
	distinct := map[int]bool{}
	for i := 0; i < g.N; i++ {
		ci, ok := colors[g.IDs[i]]
		if !ok {
			k.viol(name+"|"+pc+"|colouring-not-total", obs, "%s left node %d uncoloured", name, g.IDs[i])
			return false
		}
		distinct[ci] = true
		for a := g.Adj[i]; a != 0; a &= a - 1 {
			j := bits.TrailingZeros64(a)
			if cj, ok := colors[g.IDs[j]]; ok && cj == ci {
				k.viol(name+"|"+pc+"|improper-colouring", obs, "%s gives adjacent nodes %d and %d the same colour %d", name, g.IDs[i], g.IDs[j], ci)
				return false
			}
		}
	}
	for id, c := range partial {
		if colors[id] != c {
			k.viol(name+"|partial|partial-colouring-not-respected", obs, "%s recoloured node %d from %d to %d", name, id, c, colors[id])
			return false
		}
	}
	if kcol != len(distinct) {
		k.viol(name+"|"+pc+"|k-differs-from-number-of-colours-used", obs, "%s returned k=%d but uses %d colours", name, kcol, len(distinct))
		return false
	}
	// Sets is the inverse map with sorted members.
	sets := coloring.Sets(colors)
	n := 0
	for c, s := range sets {
		n += len(s)
		if !sort.SliceIsSorted(s, func(i, j int) bool { return s[i] < s[j] }) {
			k.viol("Sets|order|class-not-sorted", obs, "Sets class %d = %v is not ascending", c, s)
			return false
		}
		for _, id := range s {
			if cc, ok := colors[id]; !ok || cc != c {
				k.viol("Sets|inverse|class-has-foreign-node", obs, "Sets class %d contains %d whose colour is %d", c, id, cc)
				return false
			}
		}
	}
	if n != len(colors) || len(sets) != len(distinct) {
		k.viol("Sets|inverse|classes-do-not-partition-the-nodes", obs, "Sets has %d members in %d classes for %d nodes in %d colours", n, len(sets), len(colors), len(distinct))
		return false
	}
	return true
}

// randomPartial builds a valid (proper on its domain) partial colouring.
func randomPartial(g *G, r *vrt.Rand) map[int64]int {
	p := map[int64]int{}
	if g.N == 0 {
		return p
	}
	cnt := r.Range(1, (g.N+1)/2)
	ncol := r.Range(1, 4)
	gap := 0
	if r.Chance(0.3) {
		gap = r.Range(1, 5) // colour numbers with holes / not starting at 0
	}
	idx := g.Index()
	for _, v := range r.Perm(g.N)[:cnt] {
		// lowest colour from a random start not used by coloured neighbours
		start := r.Intn(ncol)
		for c := start; ; c++ {
			col := c + gap
			ok := true
			for a := g.Adj[v]; a != 0; a &= a - 1 {
				if pc, has := p[g.IDs[bits.TrailingZeros64(a)]]; has && pc == col {
					ok = false
					break
				}
			}
			if ok {
				p[g.IDs[v]] = col
				break
			}
		}
	}
	_ = idx
	return p
}

// checkColorings runs every colouring routine on g. chi < 0 means the
// chromatic number is not known (graph too large for the exhaustive oracle).
func checkColorings(k *K, ug graph.Undirected, chi int, r *vrt.Rand, heur, exact, withPartials bool) {
	g := k.g
	type heurT struct {
		name string
		run  func(partial map[int64]int) (int, map[int64]int, error)
		part bool
	}
	hs := []heurT{
		{"Dsatur", func(p map[int64]int) (int, map[int64]int, error) { return coloring.Dsatur(ug, p) }, true},
		{"WelshPowell", func(p map[int64]int) (int, map[int64]int, error) { return coloring.WelshPowell(ug, p) }, true},
		{"SanSegundo", func(p map[int64]int) (int, map[int64]int, error) { return coloring.SanSegundo(ug, p) }, true},
		{"Randomized", func(p map[int64]int) (int, map[int64]int, error) {
			return coloring.Randomized(ug, p, vrt.NewRand(r.Uint64()))
		}, true},
		{"RecursiveLargestFirst", func(p map[int64]int) (int, map[int64]int, error) {
			kk, c := coloring.RecursiveLargestFirst(ug)
			return kk, c, nil
		}, false},
	}
	minHeur := -1
	for _, h := range hs {
		if !heur {
			break
		}
		var kc int
		var colors map[int64]int
		var err error
		if !k.try(h.name, func() { kc, colors, err = h.run(nil) }) {
			continue
		}
		k.eval(h.name, "nopartial", g.M() > 0)
		if err != nil {
			k.viol(h.name+"|nopartial|unexpected-error", fmt.Sprint(err), "%s returned %v without a partial colouring", h.name, err)
			continue
		}
		if g.N == 0 {
			if kc != 0 || len(colors) != 0 {
				k.viol(h.name+"|empty-graph|nonzero-result", kc, "%s on the empty graph returned k=%d colours=%v", h.name, kc, colors)
			}
			continue
		}
		if !judgeColoring(k, h.name, kc, colors, nil) {
			continue
		}
		if chi >= 0 && kc > chi {
			k.count("color.heuristic-suboptimal."+h.name, 1)
		}
		if chi >= 0 && kc < chi {
			k.viol(h.name+"|nopartial|fewer-colours-than-chromatic-number", kc, "%s used %d colours, chromatic number is %d", h.name, kc, chi)
		}
		if minHeur < 0 || kc < minHeur {
			minHeur = kc
		}
	}
	// exact solver
	for _, term := range []coloring.Terminator{nil, neverDone{make(chan struct{})}} {
		if !exact {
			break
		}
		var kc int
		var colors map[int64]int
		var err error
		if !k.try("DsaturExact", func() { kc, colors, err = coloring.DsaturExact(term, ug) }) {
			break
		}
		k.eval("DsaturExact", fmt.Sprintf("term=%v|chi=%s", term != nil, chiClass(chi)), g.M() > 0 && chi != g.N)
		if err != nil {
			k.viol("DsaturExact|uncancelled|unexpected-error", fmt.Sprint(err), "DsaturExact returned %v although never cancelled", err)
			break
		}
		if g.N == 0 {
			if kc != 0 || len(colors) != 0 {
				k.viol("DsaturExact|empty-graph|nonzero-result", kc, "DsaturExact on the empty graph returned k=%d", kc)
			}
			break
		}
		if !judgeColoring(k, "DsaturExact", kc, colors, nil) {
			break
		}
		if chi >= 0 && kc != chi {
			k.viol("DsaturExact|exact|not-the-chromatic-number", map[string]any{"k": kc, "colors": fmt.Sprint(colors)},
				"DsaturExact returned k=%d, the chromatic number by exhaustive search is %d", kc, chi)
			break
		}
		if minHeur >= 0 && kc > minHeur {
			k.viol("DsaturExact|exact|worse-than-a-heuristic", kc, "DsaturExact returned k=%d but a heuristic found %d", kc, minHeur)
			break
		}
	}
	if !withPartials || !heur || g.N == 0 {
		return
	}
	// valid partial colourings must be extended; invalid ones rejected.
	for t := 0; t < 2; t++ {
		partial := randomPartial(g, r)
		for _, h := range hs {
			if !h.part {
				continue
			}
			in := map[int64]int{}
			for id, c := range partial {
				in[id] = c
			}
			var kc int
			var colors map[int64]int
			var err error
			if !k.try(h.name, func() { kc, colors, err = h.run(in) }) {
				continue
			}
			k.eval(h.name, "partial-valid", g.M() > 0)
			if err != nil {
				k.viol(h.name+"|partial|valid-partial-colouring-rejected", fmt.Sprint(partial), "%s rejected the proper partial colouring %v: %v", h.name, partial, err)
				continue
			}
			if fmt.Sprint(in) != fmt.Sprint(partial) {
				k.viol(h.name+"|partial|input-map-mutated", fmt.Sprint(in), "%s changed the caller's partial colouring from %v to %v", h.name, partial, in)
				continue
			}
			judgeColoring(k, h.name, kc, colors, partial)
		}
	}
	// invalid: two adjacent nodes with the same colour, or an unknown node.
	es := g.Edges()
	bad := map[int64]int{}
	cls := ""
	if len(es) > 0 && r.Bool() {
		e := es[r.Intn(len(es))]
		bad[g.IDs[e[0]]] = 2
		bad[g.IDs[e[1]]] = 2
		cls = "adjacent-same-colour"
	} else {
		id := int64(12345)
		for _, x := range g.IDs {
			if x == id {
				id++
			}
		}
		if _, clash := g.Index()[id]; clash {
			return
		}
		bad[id] = 0
		cls = "unknown-node"
	}
	for _, h := range hs {
		if !h.part {
			continue
		}
		var err error
		if !k.try(h.name, func() { _, _, err = h.run(bad) }) {
			continue
		}
		k.eval(h.name, "partial-invalid|"+cls, true)
		if err != coloring.ErrInvalidPartialColoring {
			k.viol(h.name+"|partial|invalid-partial-colouring-accepted", fmt.Sprint(bad), "%s returned err=%v for the inadmissible partial colouring %v (%s)", h.name, err, bad, cls)
		}
	}
}

func chiClass(chi int) string {
	if chi < 0 {
		return "unknown"
	}
	return countClass(chi)
}
