package main

import (
	"fmt"
	"math/bits"

	"gonum.org/v1/gonum/graph"
	"gonum.org/v1/gonum/graph/traverse"
	"gonum.org/v1/gonum/verifx/vrt"
)

// edge filter used as the Traverse callback: a symmetric pseudo-random
// predicate on the unordered index pair (so it is meaningful for undirected
// graphs too); salt 0 means "no filter".
func filterAdj(g *G, salt uint64) []uint64 {
	if salt == 0 {
		return g.Adj
	}
	adj := make([]uint64, g.N)
	for i := 0; i < g.N; i++ {
		for a := g.Adj[i]; a != 0; a &= a - 1 {
			j := bits.TrailingZeros64(a)
			if edgeAllowed(i, j, salt) {
				adj[i] |= 1 << uint(j)
			}
		}
	}
	return adj
}

func edgeAllowed(i, j int, salt uint64) bool {
	if salt == 0 {
		return true
	}
	if i > j {
		i, j = j, i
	}
	x := salt ^ uint64(i)*0x9e3779b97f4a7c15 ^ uint64(j)*0xc2b2ae3d27d4eb4f
	x ^= x >> 29
	x *= 0xbf58476d1ce4e5b9
	x ^= x >> 32
	return x%10 < 7
}

type travLog struct {
	visit   []int    // Visit callback order
	until   []int    // until callback order
	depth   []int    // depth given to until (BFS)
	offered [][2]int // edges passed to Traverse
	badEdge string
	unknown bool
}

// checkWalk exercises BreadthFirst.Walk and DepthFirst.Walk from start, with
// an optional edge filter, an optional early-termination target, and checks
// Reset reuse and continuation without Reset.
func checkWalk(k *K, gg traverse.Graph, start int, salt uint64, r *vrt.Rand) {
	g := k.g
	idx := g.Index()
	adj := filterAdj(g, salt)
	var all uint64
	if g.N > 0 {
		all = uint64(1)<<uint(g.N) - 1
	}
	node := func(i int) graph.Node { return simpleNode(g.IDs[i]) }
	fclass := "nofilter"
	if salt != 0 {
		fclass = "filter"
	}

	// hub: the node with most allowed successors. A walk from it that is
	// stopped at the first non-start node leaves outdeg-1 nodes pending in
	// the traverser's queue/stack (the reuse histories below need >= 2).
	hub := 0
	for i := 1; i < g.N; i++ {
		if bits.OnesCount64(adj[i]) > bits.OnesCount64(adj[hub]) {
			hub = i
		}
	}
	pending := bits.OnesCount64(adj[hub]) - 1
	pclass := "pending<2"
	if pending >= 2 {
		pclass = "pending>=2"
	}
	histNames := [...]string{"fresh", "after-reset", "after-early-stop-and-reset", "after-early-stop-continue-and-reset"}

	mkTraverse := func(l *travLog) func(graph.Edge) bool {
		return func(e graph.Edge) bool {
			if e == nil {
				l.badEdge = "nil edge passed to Traverse"
				return false
			}
			i, ok1 := idx[e.From().ID()]
			j, ok2 := idx[e.To().ID()]
			if !ok1 || !ok2 || !(g.Has(i, j) || (!g.Dir && g.Has(j, i))) {
				l.badEdge = fmt.Sprintf("Traverse given %d->%d which is not an edge", e.From().ID(), e.To().ID())
				return false
			}
			l.offered = append(l.offered, [2]int{i, j})
			return edgeAllowed(i, j, salt)
		}
	}
	rec := func(l *[]int, lg *travLog) func(graph.Node) {
		return func(n graph.Node) {
			i, ok := idx[n.ID()]
			if !ok {
				lg.unknown = true
				return
			}
			*l = append(*l, i)
		}
	}

	// ---- BFS: complete walk, then Reset and walk again with a target,
	// then continue from a second start without Reset.
	for pass := 0; pass < 4; pass++ {
		bf := &traverse.BreadthFirst{}
		var lg travLog
		bf.Visit = rec(&lg.visit, &lg)
		if salt != 0 || pass >= 1 {
			bf.Traverse = mkTraverse(&lg)
		}
		switch pass {
		case 1:
			// dirty the traverser with a completed walk, then Reset: state must not leak
			junk := r.Intn(g.N)
			if !k.try("BreadthFirst.Walk", func() { bf.Walk(gg, node(junk), nil) }) {
				return
			}
			bf.Reset()
			lg = travLog{}
		case 2, 3:
			// dirty it with a walk that until stops at the first node of
			// depth 1, i.e. with the hub's other successors still queued
			var ret graph.Node
			if !k.try("BreadthFirst.Walk", func() {
				ret = bf.Walk(gg, node(hub), func(n graph.Node, d int) bool { return d >= 1 })
			}) {
				return
			}
			k.eval("BreadthFirst.Walk", "early-stop|"+fclass+"|"+pclass, pending >= 2)
			obsE := map[string]any{"start": g.IDs[hub], "visit": g.idxToIDs(lg.visit), "filter_salt": salt}
			if adj[hub] != 0 && (ret == nil || idx[ret.ID()] == hub || adj[hub]>>uint(idx[ret.ID()])&1 == 0) {
				k.viol("BreadthFirst.Walk|early-stop|first-depth-1-node-not-returned", obsE, "Walk from %d with until(depth>=1) returned %v, want a successor of the start", g.IDs[hub], ret)
				return
			}
			if adj[hub] == 0 && ret != nil {
				k.viol("BreadthFirst.Walk|early-stop|returned-node-though-until-never-true", obsE, "Walk returned %d", ret.ID())
				return
			}
			if pass == 3 {
				// continue from another start without Reset: only safety is
				// judged (the pending nodes make the exact outcome unspecified)
				s3 := r.Intn(g.N)
				if !k.try("BreadthFirst.Walk", func() { bf.Walk(gg, node(s3), nil) }) {
					return
				}
				k.eval("BreadthFirst.Walk", "continue-after-early-stop|"+fclass+"|"+pclass, pending >= 2)
				obsE["second_start"] = g.IDs[s3]
				obsE["visit"] = g.idxToIDs(lg.visit)
				if !judgeVisitedWithin(k, "BreadthFirst.Walk|continue-after-early-stop|", obsE, lg.visit, reachFrom(adj, hub, all)|reachFrom(adj, s3, all), "Visit") {
					return
				}
			}
			bf.Reset()
			lg = travLog{}
		}
		dist := bfsDist(adj, g.N, start, all)
		reach := reachFrom(adj, start, all)
		var ret graph.Node
		until := func(n graph.Node, d int) bool {
			rec(&lg.until, &lg)(n)
			lg.depth = append(lg.depth, d)
			return false
		}
		if !k.try("BreadthFirst.Walk", func() { ret = bf.Walk(gg, node(start), until) }) {
			return
		}
		hclass := ""
		if pass >= 2 {
			hclass = "|" + pclass
		}
		k.eval("BreadthFirst.Walk", fmt.Sprintf("full|%s|hist=%s%s|reach=%s", fclass, histNames[pass], hclass, countClass(bits.OnesCount64(reach))), reach != 1<<uint(start) && (pass < 2 || pending >= 2))
		obs := map[string]any{"start": g.IDs[start], "visit": g.idxToIDs(lg.visit), "until": g.idxToIDs(lg.until), "depth": lg.depth, "filter_salt": salt}
		sigp := "BreadthFirst.Walk|" + histNames[pass] + "|"
		if lg.badEdge != "" || lg.unknown {
			k.viol(sigp+"callback-given-foreign-node-or-edge", obs, "%s", lg.badEdge)
			return
		}
		if ret != nil {
			k.viol(sigp+"returned-node-though-until-never-true", obs, "Walk returned %d", ret.ID())
			return
		}
		if !judgeVisited(k, sigp, obs, lg.visit, reach, "Visit") || !judgeVisited(k, sigp, obs, lg.until, reach, "until") {
			return
		}
		for i, v := range lg.until {
			if lg.depth[i] != dist[v] {
				k.viol(sigp+"depth-not-hop-distance", obs, "until(%d, depth=%d) but the hop distance from %d is %d", g.IDs[v], lg.depth[i], g.IDs[start], dist[v])
				return
			}
			if i > 0 && lg.depth[i] < lg.depth[i-1] {
				k.viol(sigp+"not-in-hop-distance-order", obs, "until called at depth %d after depth %d", lg.depth[i], lg.depth[i-1])
				return
			}
		}
		for v := 0; v < g.N; v++ {
			if bf.Visited(node(v)) != (reach>>uint(v)&1 == 1) {
				k.viol(sigp+"Visited-disagrees-with-reachability", obs, "Visited(%d)=%v", g.IDs[v], bf.Visited(node(v)))
				return
			}
		}
		if bf.Traverse != nil && !judgeOffered(k, sigp, obs, lg.offered, reach) {
			return
		}

		// continuation without Reset from a second start: already visited
		// nodes stay visited and block the walk.
		s2 := r.Intn(g.N)
		lg2 := travLog{}
		bf.Visit = rec(&lg2.visit, &lg2)
		if !k.try("BreadthFirst.Walk", func() { bf.Walk(gg, node(s2), nil) }) {
			return
		}
		k.eval("BreadthFirst.Walk", "continue|"+fclass, reach>>uint(s2)&1 == 0)
		var reach2 uint64
		if reach>>uint(s2)&1 == 0 {
			reach2 = reachFrom(adj, s2, all&^reach)
		}
		obs2 := map[string]any{"first_start": g.IDs[start], "second_start": g.IDs[s2], "visit": g.idxToIDs(lg2.visit), "filter_salt": salt}
		if !judgeVisited(k, "BreadthFirst.Walk|continue-without-reset|", obs2, lg2.visit, reach2, "Visit") {
			return
		}
		for v := 0; v < g.N; v++ {
			if bf.Visited(node(v)) != ((reach|reach2)>>uint(v)&1 == 1) {
				k.viol("BreadthFirst.Walk|continue-without-reset|Visited-not-the-union", obs2, "Visited(%d)=%v", g.IDs[v], bf.Visited(node(v)))
				return
			}
		}
	}

	// ---- BFS early termination: the target is found iff reachable.
	{
		bf := &traverse.BreadthFirst{}
		if salt != 0 {
			bf.Traverse = func(e graph.Edge) bool { return edgeAllowed(idx[e.From().ID()], idx[e.To().ID()], salt) }
		}
		t := r.Intn(g.N)
		dist := bfsDist(adj, g.N, start, all)
		var ret graph.Node
		var seen []int
		maxDepth := -1
		until := func(n graph.Node, d int) bool {
			seen = append(seen, idx[n.ID()])
			if d > maxDepth {
				maxDepth = d
			}
			return n.ID() == g.IDs[t]
		}
		if !k.try("BreadthFirst.Walk", func() { ret = bf.Walk(gg, node(start), until) }) {
			return
		}
		k.eval("BreadthFirst.Walk", fmt.Sprintf("target|%s|reachable=%v", fclass, dist[t] >= 0), start != t)
		obs := map[string]any{"start": g.IDs[start], "target": g.IDs[t], "until": g.idxToIDs(seen), "filter_salt": salt}
		switch {
		case dist[t] >= 0 && (ret == nil || ret.ID() != g.IDs[t]):
			k.viol("BreadthFirst.Walk|until|reachable-target-not-returned", obs, "target %d at distance %d from %d, Walk returned %v", g.IDs[t], dist[t], g.IDs[start], ret)
			return
		case dist[t] < 0 && ret != nil:
			k.viol("BreadthFirst.Walk|until|unreachable-target-returned", obs, "target %d unreachable from %d, Walk returned %d", g.IDs[t], g.IDs[start], ret.ID())
			return
		case dist[t] >= 0 && maxDepth > dist[t]:
			k.viol("BreadthFirst.Walk|until|went-deeper-than-the-target", obs, "target at distance %d but until saw depth %d first", dist[t], maxDepth)
			return
		}
		if dist[t] >= 0 {
			// every node strictly closer than the target was examined first
			var before uint64
			for _, v := range seen {
				before |= 1 << uint(v)
			}
			for v := 0; v < g.N; v++ {
				if dist[v] >= 0 && dist[v] < dist[t] && before>>uint(v)&1 == 0 {
					k.viol("BreadthFirst.Walk|until|closer-node-not-examined-before-target", obs, "node %d at distance %d not examined before the target at distance %d", g.IDs[v], dist[v], dist[t])
					return
				}
			}
		}
	}

	// ---- DFS
	for pass := 0; pass < 4; pass++ {
		df := &traverse.DepthFirst{}
		var lg travLog
		df.Visit = rec(&lg.visit, &lg)
		if salt != 0 || pass >= 1 {
			df.Traverse = mkTraverse(&lg)
		}
		switch pass {
		case 1:
			junk := r.Intn(g.N)
			if !k.try("DepthFirst.Walk", func() { df.Walk(gg, node(junk), nil) }) {
				return
			}
			df.Reset()
			lg = travLog{}
		case 2, 3:
			// stopped at the first node after the start: the hub's other
			// successors are still on the stack
			var ret graph.Node
			if !k.try("DepthFirst.Walk", func() {
				ret = df.Walk(gg, node(hub), func(n graph.Node) bool { return n.ID() != g.IDs[hub] })
			}) {
				return
			}
			k.eval("DepthFirst.Walk", "early-stop|"+fclass+"|"+pclass, pending >= 2)
			obsE := map[string]any{"start": g.IDs[hub], "visit": g.idxToIDs(lg.visit), "filter_salt": salt}
			if adj[hub] != 0 && (ret == nil || idx[ret.ID()] == hub || adj[hub]>>uint(idx[ret.ID()])&1 == 0) {
				k.viol("DepthFirst.Walk|early-stop|first-successor-not-returned", obsE, "Walk from %d stopped at the first other node returned %v, want a successor of the start", g.IDs[hub], ret)
				return
			}
			if adj[hub] == 0 && ret != nil {
				k.viol("DepthFirst.Walk|early-stop|returned-node-though-until-never-true", obsE, "Walk returned %d", ret.ID())
				return
			}
			if pass == 3 {
				s3 := r.Intn(g.N)
				if !k.try("DepthFirst.Walk", func() { df.Walk(gg, node(s3), nil) }) {
					return
				}
				k.eval("DepthFirst.Walk", "continue-after-early-stop|"+fclass+"|"+pclass, pending >= 2)
				obsE["second_start"] = g.IDs[s3]
				obsE["visit"] = g.idxToIDs(lg.visit)
				if !judgeVisitedWithin(k, "DepthFirst.Walk|continue-after-early-stop|", obsE, lg.visit, reachFrom(adj, hub, all)|reachFrom(adj, s3, all), "Visit") {
					return
				}
			}
			df.Reset()
			lg = travLog{}
		}
		reach := reachFrom(adj, start, all)
		var ret graph.Node
		until := func(n graph.Node) bool {
			rec(&lg.until, &lg)(n)
			return false
		}
		if !k.try("DepthFirst.Walk", func() { ret = df.Walk(gg, node(start), until) }) {
			return
		}
		hclass := ""
		if pass >= 2 {
			hclass = "|" + pclass
		}
		k.eval("DepthFirst.Walk", fmt.Sprintf("full|%s|hist=%s%s|reach=%s", fclass, histNames[pass], hclass, countClass(bits.OnesCount64(reach))), reach != 1<<uint(start) && (pass < 2 || pending >= 2))
		obs := map[string]any{"start": g.IDs[start], "visit": g.idxToIDs(lg.visit), "until": g.idxToIDs(lg.until), "filter_salt": salt}
		sigp := "DepthFirst.Walk|" + histNames[pass] + "|"
		if lg.badEdge != "" || lg.unknown {
			k.viol(sigp+"callback-given-foreign-node-or-edge", obs, "%s", lg.badEdge)
			return
		}
		if ret != nil {
			k.viol(sigp+"returned-node-though-until-never-true", obs, "Walk returned %d", ret.ID())
			return
		}
		if !judgeVisited(k, sigp, obs, lg.visit, reach, "Visit") || !judgeVisited(k, sigp, obs, lg.until, reach, "until") {
			return
		}
		// depth-first order: each newly visited node is a successor of the
		// most recently visited node that still has an unvisited successor.
		var done uint64
		for i, v := range lg.visit {
			if i > 0 {
				for j := i - 1; j >= 0; j-- {
					u := lg.visit[j]
					if adj[u]&^done != 0 {
						if adj[u]>>uint(v)&1 == 0 {
							k.viol(sigp+"not-a-depth-first-order", obs, "node %d visited while the deepest open node %d still has unvisited successors %v",
								g.IDs[v], g.IDs[u], g.maskToIDs(adj[u]&^done))
							return
						}
						break
					}
				}
			}
			done |= 1 << uint(v)
		}
		for v := 0; v < g.N; v++ {
			if df.Visited(node(v)) != (reach>>uint(v)&1 == 1) {
				k.viol(sigp+"Visited-disagrees-with-reachability", obs, "Visited(%d)=%v", g.IDs[v], df.Visited(node(v)))
				return
			}
		}
		if df.Traverse != nil && !judgeOffered(k, sigp, obs, lg.offered, reach) {
			return
		}
		s2 := r.Intn(g.N)
		lg2 := travLog{}
		df.Visit = rec(&lg2.visit, &lg2)
		if !k.try("DepthFirst.Walk", func() { df.Walk(gg, node(s2), nil) }) {
			return
		}
		k.eval("DepthFirst.Walk", "continue|"+fclass, reach>>uint(s2)&1 == 0)
		var reach2 uint64
		if reach>>uint(s2)&1 == 0 {
			reach2 = reachFrom(adj, s2, all&^reach)
		}
		obs2 := map[string]any{"first_start": g.IDs[start], "second_start": g.IDs[s2], "visit": g.idxToIDs(lg2.visit), "filter_salt": salt}
		if !judgeVisited(k, "DepthFirst.Walk|continue-without-reset|", obs2, lg2.visit, reach2, "Visit") {
			return
		}
	}
	// DFS early termination
	{
		df := &traverse.DepthFirst{}
		if salt != 0 {
			df.Traverse = func(e graph.Edge) bool { return edgeAllowed(idx[e.From().ID()], idx[e.To().ID()], salt) }
		}
		t := r.Intn(g.N)
		reach := reachFrom(adj, start, all)
		var ret graph.Node
		if !k.try("DepthFirst.Walk", func() {
			ret = df.Walk(gg, node(start), func(n graph.Node) bool { return n.ID() == g.IDs[t] })
		}) {
			return
		}
		reachable := reach>>uint(t)&1 == 1
		k.eval("DepthFirst.Walk", fmt.Sprintf("target|%s|reachable=%v", fclass, reachable), start != t)
		obs := map[string]any{"start": g.IDs[start], "target": g.IDs[t], "filter_salt": salt}
		if reachable && (ret == nil || ret.ID() != g.IDs[t]) {
			k.viol("DepthFirst.Walk|until|reachable-target-not-returned", obs, "target %d reachable from %d, Walk returned %v", g.IDs[t], g.IDs[start], ret)
		} else if !reachable && ret != nil {
			k.viol("DepthFirst.Walk|until|unreachable-target-returned", obs, "target %d unreachable from %d, Walk returned %d", g.IDs[t], g.IDs[start], ret.ID())
		}
	}
}

func (g *G) idxToIDs(l []int) []int64 {
	out := make([]int64, len(l))
	for i, v := range l {
		out[i] = g.IDs[v]
	}
	return out
}

// judgeVisited: the callback sequence is exactly the set want, each once.
func judgeVisited(k *K, sigp string, obs any, seq []int, want uint64, what string) bool {
	var seen uint64
	for _, v := range seq {
		if seen>>uint(v)&1 == 1 {
			k.viol(sigp+what+"-called-twice-for-a-node", obs, "%s called twice for node %d", what, k.g.IDs[v])
			return false
		}
		seen |= 1 << uint(v)
	}
	if seen&^want != 0 {
		k.viol(sigp+what+"-called-for-unreachable-node", obs, "%s called for %v which are not reachable", what, k.g.maskToIDs(seen&^want))
		return false
	}
	if want&^seen != 0 {
		k.viol(sigp+what+"-missed-reachable-node", obs, "%s never called for reachable nodes %v", what, k.g.maskToIDs(want&^seen))
		return false
	}
	return true
}

// judgeVisitedWithin: over a whole reuse history the callback is called at
// most once per node and only for nodes inside within.
func judgeVisitedWithin(k *K, sigp string, obs any, seq []int, within uint64, what string) bool {
	var seen uint64
	for _, v := range seq {
		if seen>>uint(v)&1 == 1 {
			k.viol(sigp+what+"-called-twice-for-a-node", obs, "%s called twice for node %d", what, k.g.IDs[v])
			return false
		}
		seen |= 1 << uint(v)
	}
	if seen&^within != 0 {
		k.viol(sigp+what+"-called-for-unreachable-node", obs, "%s called for %v which are reachable from neither start", what, k.g.maskToIDs(seen&^within))
		return false
	}
	return true
}

// judgeOffered: in a complete walk every edge leaving a visited node is
// offered to Traverse, and nothing else is.
func judgeOffered(k *K, sigp string, obs any, offered [][2]int, reach uint64) bool {
	g := k.g
	seen := map[[2]int]bool{}
	for _, e := range offered {
		a, b := e[0], e[1]
		if !g.Dir && a > b {
			a, b = b, a
		}
		seen[[2]int{a, b}] = true
		if reach>>uint(e[0])&1 == 0 && reach>>uint(e[1])&1 == 0 {
			k.viol(sigp+"Traverse-offered-edge-outside-the-walk", obs, "edge %d-%d offered though neither end was visited", g.IDs[e[0]], g.IDs[e[1]])
			return false
		}
	}
	for _, e := range g.Edges() {
		if reach>>uint(e[0])&1 == 1 && !seen[[2]int{e[0], e[1]}] {
			k.viol(sigp+"Traverse-not-offered-an-edge-of-a-visited-node", obs, "edge %d-%d leaves a visited node but was never offered", g.IDs[e[0]], g.IDs[e[1]])
			return false
		}
	}
	return true
}

// checkWalkAll: WalkAll groups the nodes of an undirected graph into its
// connected components (of the filtered graph), each node once, with
// before/after properly bracketing each component.
func checkWalkAll(k *K, ug graph.Undirected, salt uint64) {
	g := k.g
	idx := g.Index()
	adj := filterAdj(g, salt)
	fg := &G{N: g.N, IDs: g.IDs, Adj: adj}
	want := setOfSetsKeys(g.masksToIDSets(mutualPartition(fg)))
	fclass := "nofilter"
	if salt != 0 {
		fclass = "filter"
	}
	var trav func(graph.Edge) bool
	if salt != 0 {
		trav = func(e graph.Edge) bool { return edgeAllowed(idx[e.From().ID()], idx[e.To().ID()], salt) }
	}
	for _, which := range []string{"BreadthFirst.WalkAll", "DepthFirst.WalkAll"} {
		var comps [][]int64
		var cur []int64
		open := false
		protocol := ""
		before := func() {
			if open {
				protocol = "before called twice without after"
			}
			open = true
			cur = nil
		}
		after := func() {
			if !open {
				protocol = "after called without before"
			}
			open = false
			comps = append(comps, cur)
			cur = nil
		}
		during := func(n graph.Node) {
			if !open {
				protocol = "during called outside before/after"
			}
			cur = append(cur, n.ID())
		}
		// One traverser value per routine is reused through a history:
		// fresh -> WalkAll again -> Walk stopped early by until with the hub's
		// other neighbours still pending -> WalkAll -> early stop, a further
		// Walk without Reset -> WalkAll. WalkAll resets the traverser itself,
		// so every WalkAll must group the nodes like a fresh traverser does.
		hub := 0
		for i := 1; i < g.N; i++ {
			if bits.OnesCount64(adj[i]) > bits.OnesCount64(adj[hub]) {
				hub = i
			}
		}
		pclass := "pending<2"
		if g.N > 0 && bits.OnesCount64(adj[hub]) >= 3 {
			pclass = "pending>=2"
		}
		bf := &traverse.BreadthFirst{Traverse: trav}
		df := &traverse.DepthFirst{Traverse: trav}
		isBF := which == "BreadthFirst.WalkAll"
		hists := [...]string{"fresh", "after-WalkAll", "after-early-stop", "after-early-stop-and-continue"}
		for rep := 0; rep < len(hists) && g.N > 0; rep++ {
			if rep >= 2 {
				hubNode := simpleNode(g.IDs[hub])
				other := simpleNode(g.IDs[(hub+1+rep)%g.N])
				ok := true
				if isBF {
					ok = k.try("BreadthFirst.Walk", func() {
						bf.Reset() // forget the completed WalkAll, else nothing is left to explore
						bf.Walk(ug, hubNode, func(n graph.Node, d int) bool { return d >= 1 })
						if rep == 3 {
							bf.Walk(ug, other, nil)
						}
					})
				} else {
					ok = k.try("DepthFirst.Walk", func() {
						df.Reset()
						df.Walk(ug, hubNode, func(n graph.Node) bool { return n.ID() != hubNode.ID() })
						if rep == 3 {
							df.Walk(ug, other, nil)
						}
					})
				}
				if !ok {
					return
				}
				k.eval(which[:len(which)-3], "early-stop-before-WalkAll|"+fclass+"|"+pclass, pclass == "pending>=2")
			}
			comps, cur, open, protocol = nil, nil, false, ""
			var ok bool
			if isBF {
				ok = k.try(which, func() { bf.WalkAll(ug, before, after, during) })
			} else {
				ok = k.try(which, func() { df.WalkAll(ug, before, after, during) })
			}
			if !ok {
				return
			}
			hc := hists[rep]
			if rep >= 2 {
				hc += "|" + pclass
			}
			k.eval(which, fclass+"|hist="+hc+"|comps="+countClass(len(want)), g.N > 1 && (rep < 2 || pclass == "pending>=2"))
			obs := map[string]any{"groups": comps, "history": hists[rep], "early_stop_start": g.IDs[hub], "filter_salt": salt}
			if protocol != "" || open {
				k.viol(which+"|"+hists[rep]+"|before-after-not-bracketing", obs, "%s (%s): %s", which, hists[rep], protocol)
				return
			}
			if got := setOfSetsKeys(comps); !equalStrings(got, want) {
				k.viol(which+"|"+hists[rep]+"|groups-not-the-connected-components", obs, "%s (%s) groups %v, the connected components are %v", which, hists[rep], got, want)
				return
			}
			// Visited after WalkAll: every node
			for v := 0; v < g.N; v++ {
				n := simpleNode(g.IDs[v])
				if (isBF && !bf.Visited(n)) || (!isBF && !df.Visited(n)) {
					k.viol(which+"|"+hists[rep]+"|node-not-Visited-afterwards", obs, "%s (%s): Visited(%d) is false after WalkAll", which, hists[rep], g.IDs[v])
					return
				}
			}
		}
	}
}

var _ = vrt.Try
