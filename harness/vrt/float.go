package vrt

import (
	"math"
)

// Eps64 and Eps32 are the unit roundoffs u = 2^-53 and 2^-24.
const (
	Eps64 = 1.0 / (1 << 53)
	Eps32 = 1.0 / (1 << 24)
)

// taintBase is a quiet NaN whose payload marks "storage the call must not
// address". The low 32 bits carry an index so that a leaked taint can be
// traced back to the word it came from.
const taintBase uint64 = 0x7ff8dead00000000

// Taint returns the payload NaN for word index i.
func Taint(i int) float64 { return math.Float64frombits(taintBase | uint64(uint32(i))) }

// IsTaint reports whether f is one of the taint NaNs.
func IsTaint(f float64) bool { return math.Float64bits(f)&0xffffffff00000000 == taintBase }

// Taint32 returns the float32 payload NaN for word index i (16-bit index).
func Taint32(i int) float32 { return math.Float32frombits(0x7fc5a000 | uint32(i&0xfff)) }

// IsTaint32 reports whether f is a float32 taint NaN.
func IsTaint32(f float32) bool { return math.Float32bits(f)&0xfffff000 == 0x7fc5a000 }

// FillTaint fills s with taint NaNs.
func FillTaint(s []float64) {
	for i := range s {
		s[i] = Taint(i)
	}
}

// FillTaint32 fills s with float32 taint NaNs.
func FillTaint32(s []float32) {
	for i := range s {
		s[i] = Taint32(i)
	}
}

// Bits returns a copy of the bit patterns of s.
func Bits(s []float64) []uint64 {
	b := make([]uint64, len(s))
	for i, v := range s {
		b[i] = math.Float64bits(v)
	}
	return b
}

// Bits32 returns a copy of the bit patterns of s.
func Bits32(s []float32) []uint32 {
	b := make([]uint32, len(s))
	for i, v := range s {
		b[i] = math.Float32bits(v)
	}
	return b
}

// FirstBitDiff returns the first index at which the bit patterns of s
// differ from snap (taken with Bits), ignoring indices for which skip
// returns true; -1 if none. skip may be nil.
func FirstBitDiff(s []float64, snap []uint64, skip func(i int) bool) int {
	for i, v := range s {
		if skip != nil && skip(i) {
			continue
		}
		if math.Float64bits(v) != snap[i] {
			return i
		}
	}
	return -1
}

// FirstBitDiff32 is FirstBitDiff for float32.
func FirstBitDiff32(s []float32, snap []uint32, skip func(i int) bool) int {
	for i, v := range s {
		if skip != nil && skip(i) {
			continue
		}
		if math.Float32bits(v) != snap[i] {
			return i
		}
	}
	return -1
}

// SameBits reports whether a and b have identical bit patterns.
func SameBits(a, b float64) bool { return math.Float64bits(a) == math.Float64bits(b) }

// ULPDiff returns the distance between a and b in units in the last place
// (0 for identical bits, +0 and -0 are 1 apart... treated as 0 apart), and
// MaxInt64 if either is NaN (and they are not both NaN) or signs of
// infinities differ.
func ULPDiff(a, b float64) int64 {
	if math.IsNaN(a) || math.IsNaN(b) {
		if math.IsNaN(a) && math.IsNaN(b) {
			return 0
		}
		return math.MaxInt64
	}
	if a == b {
		return 0
	}
	ia := orderedBits(a)
	ib := orderedBits(b)
	d := ia - ib
	if d < 0 {
		d = -d
	}
	if d < 0 { // overflow
		return math.MaxInt64
	}
	return d
}

func orderedBits(f float64) int64 {
	b := int64(math.Float64bits(f))
	if b < 0 {
		b = math.MinInt64 - b
	}
	return b
}

// Within reports |got-want| <= tol, treating equal infinities and two NaNs
// as agreeing and any other non-finite mismatch as disagreeing.
func Within(got, want, tol float64) bool {
	if got == want {
		return true
	}
	if math.IsNaN(got) || math.IsNaN(want) {
		return math.IsNaN(got) && math.IsNaN(want)
	}
	if math.IsInf(got, 0) || math.IsInf(want, 0) {
		return false
	}
	return math.Abs(got-want) <= tol
}

// RelClose reports |a-b| <= rel*max(|a|,|b|) + abs with the same non-finite
// conventions as Within.
func RelClose(a, b, rel, abs float64) bool {
	return Within(a, b, rel*math.Max(math.Abs(a), math.Abs(b))+abs)
}

// Gamma returns the standard rounding-error constant n*u/(1-n*u) for
// float64 accumulation of n terms.
func Gamma(n int) float64 {
	nu := float64(n) * Eps64
	return nu / (1 - nu)
}

// KSum is a compensated (Neumaier) accumulator for reference sums.
type KSum struct{ s, c float64 }

// Add adds x.
func (k *KSum) Add(x float64) {
	t := k.s + x
	if math.Abs(k.s) >= math.Abs(x) {
		k.c += (k.s - t) + x
	} else {
		k.c += (x - t) + k.s
	}
	k.s = t
}

// Sum returns the compensated sum.
func (k *KSum) Sum() float64 { return k.s + k.c }
