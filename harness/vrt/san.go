package vrt

import (
	"fmt"
	"math"
	"reflect"
	"strconv"
)

// San converts v into a value that encoding/json can always marshal and that
// loses no information about floats: non-finite floats and negative zero are
// rendered as strings ("NaN(0x7ff8...)", "+Inf", "-0"), complex numbers as
// [re, im], structs as maps of their exported fields. Long slices are
// truncated to 64 elements with a trailing "...(+N)" marker.
func San(v any) any {
	if v == nil {
		return nil
	}
	return san(reflect.ValueOf(v), 0)
}

func sanFloat(f float64) any {
	switch {
	case math.IsNaN(f):
		return fmt.Sprintf("NaN(%#x)", math.Float64bits(f))
	case math.IsInf(f, 1):
		return "+Inf"
	case math.IsInf(f, -1):
		return "-Inf"
	case f == 0 && math.Signbit(f):
		return "-0"
	}
	return f
}

func san(v reflect.Value, depth int) any {
	if depth > 12 {
		return "<deep>"
	}
	switch v.Kind() {
	case reflect.Invalid:
		return nil
	case reflect.Float32, reflect.Float64:
		return sanFloat(v.Float())
	case reflect.Complex64, reflect.Complex128:
		c := v.Complex()
		return []any{sanFloat(real(c)), sanFloat(imag(c))}
	case reflect.Bool:
		return v.Bool()
	case reflect.Int, reflect.Int8, reflect.Int16, reflect.Int32, reflect.Int64:
		return v.Int()
	case reflect.Uint, reflect.Uint8, reflect.Uint16, reflect.Uint32, reflect.Uint64, reflect.Uintptr:
		return v.Uint()
	case reflect.String:
		s := v.String()
		if len(s) > 4096 {
			s = s[:4096] + "...(+" + strconv.Itoa(len(s)-4096) + ")"
		}
		return s
	case reflect.Slice:
		if v.IsNil() {
			return nil
		}
		if v.Type().Elem().Kind() == reflect.Uint8 {
			b := v.Bytes()
			if len(b) > 2048 {
				return fmt.Sprintf("%q...(+%d)", b[:2048], len(b)-2048)
			}
			return fmt.Sprintf("%q", b)
		}
		fallthrough
	case reflect.Array:
		n := v.Len()
		m := n
		if m > 64 {
			m = 64
		}
		out := make([]any, 0, m+1)
		for i := 0; i < m; i++ {
			out = append(out, san(v.Index(i), depth+1))
		}
		if n > m {
			out = append(out, fmt.Sprintf("...(+%d)", n-m))
		}
		return out
	case reflect.Map:
		out := make(map[string]any, v.Len())
		it := v.MapRange()
		for it.Next() {
			out[fmt.Sprint(it.Key().Interface())] = san(it.Value(), depth+1)
		}
		return out
	case reflect.Struct:
		out := make(map[string]any)
		t := v.Type()
		for i := 0; i < t.NumField(); i++ {
			f := t.Field(i)
			if !f.IsExported() {
				continue
			}
			out[f.Name] = san(v.Field(i), depth+1)
		}
		if len(out) == 0 && v.CanInterface() {
			return fmt.Sprint(v.Interface())
		}
		return out
	case reflect.Ptr, reflect.Interface:
		if v.IsNil() {
			return nil
		}
		return san(v.Elem(), depth+1)
	default:
		if v.CanInterface() {
			return fmt.Sprint(v.Interface())
		}
		return v.Kind().String()
	}
}
