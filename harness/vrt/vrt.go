// Package vrt is the runtime library shared by the per-property monitor
// programs in /verif/harness/cNN. A monitor program is a plain main package:
//
//	func main() { vrt.Main("C05", run) }
//	func run(c *vrt.Ctx) { ... c.Eval(key, true) ... c.Violation(sig, detail, replay) }
//
// It is started by cmd/vctl as a child process (one per build variant) and
// reports what it observed in a JSON result file; vctl turns that into
// evidence, known-finding matching, VIOLATION lines and the exit code.
//
// Every method of Ctx is safe for concurrent use.
package vrt

import (
	"bufio"
	"encoding/json"
	"flag"
	"fmt"
	"hash/fnv"
	"os"
	"runtime"
	"runtime/debug"
	"sort"
	"strings"
	"sync"
	"sync/atomic"
	"time"
)

// Violation is one observed refutation of the property.
type Violation struct {
	// Sig is the normalised witness class: routine + path class + failing
	// clause. It is the key matched against known_findings.json, so it must
	// not contain run-dependent data (seeds, addresses, values).
	Sig string `json:"sig"`
	// Detail is a human-readable description of the first witness.
	Detail string `json:"detail"`
	// Count is how many witnesses with this Sig were observed.
	Count int `json:"count"`
	// Replay holds the concrete arguments / observed output of the first
	// witness.
	Replay any `json:"replay,omitempty"`
}

// Inconclusive is a sub-check that could not be decided.
type Inconclusive struct {
	Sub    string `json:"sub"`
	Reason string `json:"reason"`
}

// Result is what a child writes for vctl.
type Result struct {
	Prop         string           `json:"prop"`
	Variant      string           `json:"variant"`
	Tier         string           `json:"tier"`
	Seed         uint64           `json:"seed"`
	Evaluations  int64            `json:"evaluations"`
	Distinct     int              `json:"distinct_nontrivial"`
	Samples      []any            `json:"samples"`
	Violations   []*Violation     `json:"violations"`
	Inconclusive []Inconclusive   `json:"inconclusive"`
	Counters     map[string]int64 `json:"counters"`
	Notes        map[string]any   `json:"notes"`
	Completed    bool             `json:"completed"`
	WallS        float64          `json:"wall_s"`
}

// Ctx is the per-process monitor context.
type Ctx struct {
	Prop    string
	Tier    string // "quick" or "thorough"
	Seed    uint64
	Variant string // build variant label given by vctl (default, noasm, safe, race, ...)
	// Only, when non-empty, restricts reporting to violations whose Sig
	// equals it (used by vctl replay).
	Only string

	out      string
	lastFile *os.File

	evals atomic.Int64

	mu       sync.Mutex
	distinct map[uint64]struct{}
	samples  []any
	viol     map[string]*Violation
	violOrd  []string
	inconc   []Inconclusive
	counters map[string]int64
	notes    map[string]any

	digMu sync.Mutex
	dig   *bufio.Writer
	digF  *os.File
}

// MaxSamples is the number of literal samples kept for the evidence file.
const MaxSamples = 8

// Main parses the child flags, runs body, and writes the result file.
// The exit status is 0 unless the harness itself failed; violations are
// carried in the result file, not in the exit code.
func Main(prop string, body func(c *Ctx)) {
	tier := flag.String("tier", envOr("VERIF_TIER", "quick"), "quick|thorough")
	seed := flag.Uint64("seed", 1, "VERIF_SEED")
	out := flag.String("out", "", "result file (JSON); empty = stdout")
	variant := flag.String("variant", "default", "build variant label")
	only := flag.String("only", "", "report only violations with this signature")
	last := flag.String("last", "", "file receiving the last case started (crash forensics)")
	digest := flag.String("digest", "", "file receiving caseID<TAB>hash lines for the cross-build join")
	flag.Parse()
	if *tier != "quick" && *tier != "thorough" {
		fmt.Fprintln(os.Stderr, "vrt: bad tier", *tier)
		os.Exit(2)
	}
	c := &Ctx{
		Prop: prop, Tier: *tier, Seed: *seed, Variant: *variant, Only: *only, out: *out,
		distinct: make(map[uint64]struct{}),
		viol:     make(map[string]*Violation),
		counters: make(map[string]int64),
		notes:    make(map[string]any),
	}
	if *last != "" {
		f, err := os.OpenFile(*last, os.O_CREATE|os.O_RDWR|os.O_TRUNC, 0o644)
		if err == nil {
			c.lastFile = f
		}
	}
	if *digest != "" {
		f, err := os.Create(*digest)
		if err == nil {
			c.digF = f
			c.dig = bufio.NewWriterSize(f, 1<<20)
		}
	}
	// A fault inside assembly on a guard page becomes a recoverable panic.
	debug.SetPanicOnFault(true)
	start := time.Now()
	body(c)
	c.finish(time.Since(start).Seconds(), true)
}

func envOr(k, d string) string {
	if v := os.Getenv(k); v != "" {
		return v
	}
	return d
}

func (c *Ctx) finish(wall float64, completed bool) {
	if c.dig != nil {
		c.digMu.Lock()
		c.dig.Flush()
		c.digF.Close()
		c.digMu.Unlock()
	}
	c.mu.Lock()
	r := Result{
		Prop: c.Prop, Variant: c.Variant, Tier: c.Tier, Seed: c.Seed,
		Evaluations: c.evals.Load(), Distinct: len(c.distinct),
		Samples: c.samples, Inconclusive: c.inconc,
		Counters: c.counters, Notes: c.notes, Completed: completed, WallS: wall,
	}
	for _, s := range c.violOrd {
		r.Violations = append(r.Violations, c.viol[s])
	}
	c.mu.Unlock()
	if r.Samples == nil {
		r.Samples = []any{}
	}
	b, err := json.MarshalIndent(sanitize(r), "", " ")
	if err != nil {
		fmt.Fprintln(os.Stderr, "vrt: cannot marshal result:", err)
		os.Exit(2)
	}
	if c.out == "" {
		os.Stdout.Write(b)
		os.Stdout.Write([]byte("\n"))
		return
	}
	if err := os.WriteFile(c.out, b, 0o644); err != nil {
		fmt.Fprintln(os.Stderr, "vrt: cannot write result:", err)
		os.Exit(2)
	}
}

// sanitize round-trips through a representation JSON can hold: NaN/Inf
// floats inside samples/replays would make Marshal fail, so values are
// converted to strings where necessary.
func sanitize(r Result) Result {
	for i, s := range r.Samples {
		r.Samples[i] = San(s)
	}
	for _, v := range r.Violations {
		v.Replay = San(v.Replay)
	}
	for k, v := range r.Notes {
		r.Notes[k] = San(v)
	}
	return r
}

// Thorough reports whether the thorough tier was requested.
func (c *Ctx) Thorough() bool { return c.Tier == "thorough" }

// Pick returns q in the quick tier and t in the thorough tier.
func (c *Ctx) Pick(q, t int) int {
	if c.Thorough() {
		return t
	}
	return q
}

func hashKey(key string) uint64 {
	h := fnv.New64a()
	h.Write([]byte(key))
	return h.Sum64()
}

// Eval records one execution of the code under test. key identifies the
// case class (routine x flags x shape class ...); when nontrivial is true
// (the execution reached the computational core rather than a quick return)
// the key is added to the distinct-nontrivial set.
func (c *Ctx) Eval(key string, nontrivial bool) {
	c.evals.Add(1)
	if !nontrivial {
		return
	}
	h := hashKey(key)
	c.mu.Lock()
	c.distinct[h] = struct{}{}
	c.mu.Unlock()
}

// EvalN records n executions that share one class key.
func (c *Ctx) EvalN(key string, n int, nontrivial bool) {
	c.evals.Add(int64(n))
	if !nontrivial {
		return
	}
	h := hashKey(key)
	c.mu.Lock()
	c.distinct[h] = struct{}{}
	c.mu.Unlock()
}

// Sample keeps v as one of the literal samples in the evidence (the first
// MaxSamples offered are kept).
func (c *Ctx) Sample(v any) {
	c.mu.Lock()
	if len(c.samples) < MaxSamples {
		c.samples = append(c.samples, v)
	}
	c.mu.Unlock()
}

// WantSample reports whether another sample would be kept (to avoid
// building expensive sample values).
func (c *Ctx) WantSample() bool {
	c.mu.Lock()
	defer c.mu.Unlock()
	return len(c.samples) < MaxSamples
}

// Violation records a refutation. sig is the normalised class (see
// Violation.Sig); detail and replay describe the concrete witness and are
// kept for the first witness of each class.
func (c *Ctx) Violation(sig, detail string, replay any) {
	if c.Only != "" && sig != c.Only {
		return
	}
	c.mu.Lock()
	defer c.mu.Unlock()
	if v, ok := c.viol[sig]; ok {
		v.Count++
		return
	}
	c.viol[sig] = &Violation{Sig: sig, Detail: detail, Count: 1, Replay: replay}
	c.violOrd = append(c.violOrd, sig)
}

// Violationf is Violation with a formatted detail string.
func (c *Ctx) Violationf(sig string, replay any, format string, args ...any) {
	c.Violation(sig, fmt.Sprintf(format, args...), replay)
}

// NumViolations returns the number of distinct violation classes so far.
func (c *Ctx) NumViolations() int {
	c.mu.Lock()
	defer c.mu.Unlock()
	return len(c.viol)
}

// Inconclusive records a sub-check that could not be decided.
func (c *Ctx) Inconclusive(sub, reason string) {
	c.mu.Lock()
	c.inconc = append(c.inconc, Inconclusive{sub, reason})
	c.mu.Unlock()
}

// Count adds delta to a named counter reported in the evidence.
func (c *Ctx) Count(name string, delta int64) {
	c.mu.Lock()
	c.counters[name] += delta
	c.mu.Unlock()
}

// Note stores an extra coverage key for the evidence.
func (c *Ctx) Note(key string, v any) {
	c.mu.Lock()
	c.notes[key] = v
	c.mu.Unlock()
}

// NoteSet stores a sorted list of the keys of set under key.
func (c *Ctx) NoteSet(key string, set map[string]bool) {
	l := make([]string, 0, len(set))
	for k := range set {
		l = append(l, k)
	}
	sort.Strings(l)
	c.Note(key, l)
}

// LastCase records the case about to be executed in the last-case file so
// that a process-fatal report (checkptr, ASan, stack overflow, deadlock)
// still identifies its input. It is cheap (one pwrite).
func (c *Ctx) LastCase(desc string) {
	if c.lastFile == nil {
		return
	}
	const width = 4096
	b := make([]byte, width)
	for i := range b {
		b[i] = ' '
	}
	if len(desc) > width-1 {
		desc = desc[:width-1]
	}
	copy(b, desc)
	b[width-1] = '\n'
	c.lastFile.WriteAt(b, 0)
}

// Digest logs (caseID, class, hash of bits) for the offline cross-build
// comparator. class "exact" entries must be bit-identical across the
// build variants that are joined; other classes are informational.
func (c *Ctx) Digest(caseID, class string, bits ...uint64) {
	if c.dig == nil {
		return
	}
	h := fnv.New64a()
	var b [8]byte
	for _, x := range bits {
		for i := 0; i < 8; i++ {
			b[i] = byte(x >> (8 * i))
		}
		h.Write(b[:])
	}
	c.digMu.Lock()
	fmt.Fprintf(c.dig, "%s\t%s\t%016x\n", caseID, class, h.Sum64())
	c.digMu.Unlock()
}

// PanicInfo describes a recovered panic.
type PanicInfo struct {
	Value any
	// Msg is the panic value rendered as a string.
	Msg string
	// Runtime is true when the value is a runtime.Error (index out of range,
	// nil dereference, memory fault, ...), as opposed to a package's own
	// string / error panic.
	Runtime bool
	// Fault is true for a memory fault (guard page hit); Addr is its address.
	Fault bool
	Addr  uintptr
	Stack string
}

// Try runs f and returns a description of the panic it raised, or nil.
func Try(f func()) (p *PanicInfo) {
	defer func() {
		if r := recover(); r != nil {
			p = &PanicInfo{Value: r, Msg: fmt.Sprint(r)}
			if re, ok := r.(runtime.Error); ok {
				p.Runtime = true
				p.Msg = re.Error()
				if ae, ok := r.(interface{ Addr() uintptr }); ok {
					p.Fault = true
					p.Addr = ae.Addr()
				}
			} else if e, ok := r.(error); ok {
				p.Msg = e.Error()
			}
			p.Stack = trimStack(string(debug.Stack()))
		}
	}()
	f()
	return nil
}

// TryFast is Try without the stack trace. debug.Stack serialises on a
// runtime lock, which dominates the run time when many goroutines recover
// panics at a high rate; use TryFast in such workloads.
func TryFast(f func()) (p *PanicInfo) {
	defer func() {
		if r := recover(); r != nil {
			p = &PanicInfo{Value: r, Msg: fmt.Sprint(r)}
			if re, ok := r.(runtime.Error); ok {
				p.Runtime = true
				p.Msg = re.Error()
				if ae, ok := r.(interface{ Addr() uintptr }); ok {
					p.Fault = true
					p.Addr = ae.Addr()
				}
			} else if e, ok := r.(error); ok {
				p.Msg = e.Error()
			}
		}
	}()
	f()
	return nil
}

func trimStack(s string) string {
	lines := strings.Split(s, "\n")
	if len(lines) > 40 {
		lines = lines[:40]
	}
	return strings.Join(lines, "\n")
}

// Parallel runs f(i) for i in [0,n) on up to GOMAXPROCS goroutines and
// waits for all of them. A panic escaping f is not recovered.
func Parallel(n int, f func(i int)) {
	workers := runtime.GOMAXPROCS(0)
	if workers > n {
		workers = n
	}
	if workers <= 1 {
		for i := 0; i < n; i++ {
			f(i)
		}
		return
	}
	var next atomic.Int64
	var wg sync.WaitGroup
	for w := 0; w < workers; w++ {
		wg.Add(1)
		go func() {
			defer wg.Done()
			// SetPanicOnFault is per goroutine: make guard-page faults
			// recoverable in the workers too.
			debug.SetPanicOnFault(true)
			for {
				i := int(next.Add(1) - 1)
				if i >= n {
					return
				}
				f(i)
			}
		}()
	}
	wg.Wait()
}
