package vrt

import (
	"hash/fnv"
	"math"
)

// Rand is a small deterministic PRNG (xoshiro256** seeded through
// SplitMix64). It implements math/rand.Source64, math/rand/v2.Source and
// golang.org/x/exp/rand.Source so it can be handed to gonum APIs that take
// a random source. It is NOT safe for concurrent use: derive one stream per
// goroutine with Ctx.RNG.
type Rand struct {
	s [4]uint64
}

func splitmix(x *uint64) uint64 {
	*x += 0x9e3779b97f4a7c15
	z := *x
	z = (z ^ (z >> 30)) * 0xbf58476d1ce4e5b9
	z = (z ^ (z >> 27)) * 0x94d049bb133111eb
	return z ^ (z >> 31)
}

// NewRand returns a generator seeded with seed.
func NewRand(seed uint64) *Rand {
	r := &Rand{}
	r.Seed(seed)
	return r
}

// RNG returns the stream identified by (VERIF_SEED, property, stream name,
// indices). The same arguments always give the same stream.
func (c *Ctx) RNG(stream string, idx ...int) *Rand {
	h := fnv.New64a()
	h.Write([]byte(c.Prop))
	h.Write([]byte{0})
	h.Write([]byte(stream))
	x := h.Sum64() ^ (c.Seed * 0x9e3779b97f4a7c15)
	for _, i := range idx {
		x = x*0xd1342543de82ef95 + uint64(i) + 1
		splitmix(&x)
	}
	return NewRand(x)
}

// Seed re-seeds the generator (golang.org/x/exp/rand.Source).
func (r *Rand) Seed(seed uint64) {
	x := seed
	for i := range r.s {
		r.s[i] = splitmix(&x)
	}
}

func rotl(x uint64, k uint) uint64 { return (x << k) | (x >> (64 - k)) }

// Uint64 returns the next 64 random bits.
func (r *Rand) Uint64() uint64 {
	s := &r.s
	res := rotl(s[1]*5, 7) * 9
	t := s[1] << 17
	s[2] ^= s[0]
	s[3] ^= s[1]
	s[1] ^= s[2]
	s[0] ^= s[3]
	s[2] ^= t
	s[3] = rotl(s[3], 45)
	return res
}

// Int63 implements math/rand.Source.
func (r *Rand) Int63() int64 { return int64(r.Uint64() >> 1) }

// Intn returns a uniform integer in [0,n). n must be > 0.
func (r *Rand) Intn(n int) int {
	if n <= 0 {
		panic("vrt: Intn n<=0")
	}
	return int(r.Uint64() % uint64(n))
}

// Range returns a uniform integer in [lo,hi] (inclusive).
func (r *Rand) Range(lo, hi int) int { return lo + r.Intn(hi-lo+1) }

// Bool returns a fair coin.
func (r *Rand) Bool() bool { return r.Uint64()&1 == 1 }

// Chance returns true with probability p.
func (r *Rand) Chance(p float64) bool { return r.Float64() < p }

// Float64 returns a uniform float in [0,1).
func (r *Rand) Float64() float64 { return float64(r.Uint64()>>11) / (1 << 53) }

// Uniform returns a uniform float in [lo,hi).
func (r *Rand) Uniform(lo, hi float64) float64 { return lo + (hi-lo)*r.Float64() }

// Sym returns a uniform float in [-1,1).
func (r *Rand) Sym() float64 { return 2*r.Float64() - 1 }

// Norm returns a standard normal variate (Box-Muller; deterministic).
func (r *Rand) Norm() float64 {
	for {
		u := r.Float64()
		if u == 0 {
			continue
		}
		v := r.Float64()
		return math.Sqrt(-2*math.Log(u)) * math.Cos(2*math.Pi*v)
	}
}

// Perm returns a random permutation of 0..n-1.
func (r *Rand) Perm(n int) []int {
	p := make([]int, n)
	for i := range p {
		p[i] = i
	}
	r.ShuffleInts(p)
	return p
}

// ShuffleInts shuffles p in place.
func (r *Rand) ShuffleInts(p []int) {
	for i := len(p) - 1; i > 0; i-- {
		j := r.Intn(i + 1)
		p[i], p[j] = p[j], p[i]
	}
}

// Shuffle calls swap for a Fisher-Yates shuffle of n elements.
func (r *Rand) Shuffle(n int, swap func(i, j int)) {
	for i := n - 1; i > 0; i-- {
		j := r.Intn(i + 1)
		swap(i, j)
	}
}

// PickInt returns a uniformly chosen element of choices.
func (r *Rand) PickInt(choices ...int) int { return choices[r.Intn(len(choices))] }

// PickFloat returns a uniformly chosen element of choices.
func (r *Rand) PickFloat(choices ...float64) float64 { return choices[r.Intn(len(choices))] }

// Floats fills a fresh slice of length n with values from gen.
func (r *Rand) Floats(n int, gen func() float64) []float64 {
	s := make([]float64, n)
	for i := range s {
		s[i] = gen()
	}
	return s
}

// SmallFinite returns a "BLAS-friendly" finite value: uniform in [-1,1]
// with about 5% exact zeros and 5% exact +-1.
func (r *Rand) SmallFinite() float64 {
	switch u := r.Intn(40); u {
	case 0, 1:
		return 0
	case 2:
		return 1
	case 3:
		return -1
	}
	return r.Sym()
}
