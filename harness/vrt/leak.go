package vrt

import (
	"runtime"
	"sort"
	"strings"
	"sync/atomic"
	"time"
)

// GoroutineSnapshot is the set of goroutines alive at some instant, keyed by
// their creation site ("created by ..." line), with counts.
type GoroutineSnapshot map[string]int

// SnapshotGoroutines captures all goroutine stacks and summarises them by
// creation site. The calling goroutine is included under "main/self".
func SnapshotGoroutines() GoroutineSnapshot {
	buf := make([]byte, 1<<20)
	for {
		n := runtime.Stack(buf, true)
		if n < len(buf) {
			buf = buf[:n]
			break
		}
		buf = make([]byte, 2*len(buf))
	}
	snap := GoroutineSnapshot{}
	for _, g := range strings.Split(string(buf), "\n\n") {
		lines := strings.Split(strings.TrimSpace(g), "\n")
		site := "main/self"
		for i, l := range lines {
			if strings.HasPrefix(l, "created by ") {
				site = strings.TrimPrefix(l, "created by ")
				if j := strings.Index(site, " in goroutine"); j >= 0 {
					site = site[:j]
				}
				_ = i
			}
		}
		snap[site]++
	}
	return snap
}

// LeakedSince polls until the goroutines alive now are a sub-multiset of
// before (by creation site) or maxWait elapses, and returns the creation
// sites still in excess (nil = no leak). The wall clock is used only to
// bound the polling; a non-nil result after a generous maxWait means the
// goroutines are parked for good.
func LeakedSince(before GoroutineSnapshot, maxWait time.Duration) []string {
	deadline := time.Now().Add(maxWait)
	sleep := 50 * time.Microsecond
	for {
		runtime.Gosched()
		now := SnapshotGoroutines()
		var extra []string
		for site, n := range now {
			if n > before[site] {
				extra = append(extra, site)
			}
		}
		if len(extra) == 0 {
			return nil
		}
		if time.Now().After(deadline) {
			sort.Strings(extra)
			return extra
		}
		time.Sleep(sleep)
		if sleep < 20*time.Millisecond {
			sleep *= 2
		}
	}
}

// Ledger counts calls of a user callback handed to the code under test and
// (optionally) remembers the distinct argument bit patterns.
type Ledger struct {
	Calls atomic.Int64
}

// Hit records one call and returns its 1-based sequence number.
func (l *Ledger) Hit() int64 { return l.Calls.Add(1) }

// N returns the number of calls so far.
func (l *Ledger) N() int64 { return l.Calls.Load() }
