package vrt

import (
	"fmt"
	"sync"
	"syscall"
	"unsafe"
)

// Guard-page allocator: slices carved from an mmap region whose neighbouring
// pages are PROT_NONE, placed flush against the trailing (or leading) guard.
// With debug.SetPanicOnFault(true) (set by Main) an access one element past
// the slice - even from assembly - becomes a recoverable runtime.Error panic
// whose Addr() is the faulting address (see Try / PanicInfo.Fault).

const pageSize = 4096

// GuardRegion is one mapping: [guard][data pages][guard].
type GuardRegion struct {
	mem  []byte
	data []byte // the read/write middle
}

var guardMu sync.Mutex

// NewGuardRegion maps a region able to hold nbytes of data between two
// inaccessible pages.
func NewGuardRegion(nbytes int) (*GuardRegion, error) {
	pages := (nbytes + pageSize - 1) / pageSize
	if pages == 0 {
		pages = 1
	}
	total := (pages + 2) * pageSize
	guardMu.Lock()
	defer guardMu.Unlock()
	mem, err := syscall.Mmap(-1, 0, total, syscall.PROT_READ|syscall.PROT_WRITE, syscall.MAP_ANON|syscall.MAP_PRIVATE)
	if err != nil {
		return nil, fmt.Errorf("vrt: mmap: %w", err)
	}
	if err := syscall.Mprotect(mem[:pageSize], syscall.PROT_NONE); err != nil {
		syscall.Munmap(mem)
		return nil, err
	}
	if err := syscall.Mprotect(mem[total-pageSize:], syscall.PROT_NONE); err != nil {
		syscall.Munmap(mem)
		return nil, err
	}
	return &GuardRegion{mem: mem, data: mem[pageSize : total-pageSize]}, nil
}

// Free unmaps the region. Slices obtained from it must not be used afterwards.
func (g *GuardRegion) Free() {
	if g.mem != nil {
		syscall.Munmap(g.mem)
		g.mem = nil
		g.data = nil
	}
}

// Float64sTail returns a []float64 of length n (cap n) whose last element
// ends exactly at the trailing guard page.
func (g *GuardRegion) Float64sTail(n int) []float64 {
	if n == 0 {
		return []float64{}
	}
	off := len(g.data) - 8*n
	return unsafe.Slice((*float64)(unsafe.Pointer(&g.data[off])), n)
}

// Float64sHead returns a []float64 of length n whose first element starts
// exactly after the leading guard page.
func (g *GuardRegion) Float64sHead(n int) []float64 {
	if n == 0 {
		return []float64{}
	}
	return unsafe.Slice((*float64)(unsafe.Pointer(&g.data[0])), n)
}

// Float32sTail is Float64sTail for float32.
func (g *GuardRegion) Float32sTail(n int) []float32 {
	if n == 0 {
		return []float32{}
	}
	off := len(g.data) - 4*n
	return unsafe.Slice((*float32)(unsafe.Pointer(&g.data[off])), n)
}

// Float32sHead is Float64sHead for float32.
func (g *GuardRegion) Float32sHead(n int) []float32 {
	if n == 0 {
		return []float32{}
	}
	return unsafe.Slice((*float32)(unsafe.Pointer(&g.data[0])), n)
}

// Complex128sTail returns a []complex128 ending at the trailing guard.
func (g *GuardRegion) Complex128sTail(n int) []complex128 {
	if n == 0 {
		return []complex128{}
	}
	off := len(g.data) - 16*n
	return unsafe.Slice((*complex128)(unsafe.Pointer(&g.data[off])), n)
}

// Complex128sHead returns a []complex128 starting at the leading guard.
func (g *GuardRegion) Complex128sHead(n int) []complex128 {
	if n == 0 {
		return []complex128{}
	}
	return unsafe.Slice((*complex128)(unsafe.Pointer(&g.data[0])), n)
}

// Complex64sTail returns a []complex64 ending at the trailing guard.
func (g *GuardRegion) Complex64sTail(n int) []complex64 {
	if n == 0 {
		return []complex64{}
	}
	off := len(g.data) - 8*n
	return unsafe.Slice((*complex64)(unsafe.Pointer(&g.data[off])), n)
}

// Complex64sHead returns a []complex64 starting at the leading guard.
func (g *GuardRegion) Complex64sHead(n int) []complex64 {
	if n == 0 {
		return []complex64{}
	}
	return unsafe.Slice((*complex64)(unsafe.Pointer(&g.data[0])), n)
}

// GuardedFloat64s allocates a private region and returns a slice of n
// float64 flush against the trailing guard (tail=true) or the leading guard
// (tail=false), plus the function that releases the region.
func GuardedFloat64s(n int, tail bool) ([]float64, func()) {
	g, err := NewGuardRegion(8 * n)
	if err != nil {
		panic(err)
	}
	if tail {
		return g.Float64sTail(n), g.Free
	}
	return g.Float64sHead(n), g.Free
}

// GuardedFloat32s is GuardedFloat64s for float32.
func GuardedFloat32s(n int, tail bool) ([]float32, func()) {
	g, err := NewGuardRegion(4 * n)
	if err != nil {
		panic(err)
	}
	if tail {
		return g.Float32sTail(n), g.Free
	}
	return g.Float32sHead(n), g.Free
}

// GuardedComplex128s is GuardedFloat64s for complex128.
func GuardedComplex128s(n int, tail bool) ([]complex128, func()) {
	g, err := NewGuardRegion(16 * n)
	if err != nil {
		panic(err)
	}
	if tail {
		return g.Complex128sTail(n), g.Free
	}
	return g.Complex128sHead(n), g.Free
}

// GuardedComplex64s is GuardedFloat64s for complex64.
func GuardedComplex64s(n int, tail bool) ([]complex64, func()) {
	g, err := NewGuardRegion(8 * n)
	if err != nil {
		panic(err)
	}
	if tail {
		return g.Complex64sTail(n), g.Free
	}
	return g.Complex64sHead(n), g.Free
}
