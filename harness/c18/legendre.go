package main

import (
	"fmt"
	"math"
	"math/big"

	"gonum.org/v1/gonum/integrate/quad"
	"gonum.org/v1/gonum/verifx/vrt"
)

// Calibrated constants (worst observed ratio with constant 1 on the pinned
// tree over seeds 1,2,3,7,42, both tiers, times >= 100; the measured
// fraction of the band is written to the evidence on every run).
const (
	// |sum w - (b-a)| <= cLegSum u (b-a).
	cLegSum = 400 // base constant; calibrated factor and measured worst ratio: calib.go
	// |x_i + x_{n-1-i} - (a+b)| <= cLegSym u (|a|+|b|+h).
	cLegSym = 200 // base constant; calibrated factor and measured worst ratio: calib.go
	// |sum w_i P_j(t_i) - 2 [j=0]| <= cLegOrth u sum_i w_i ((j+2) + |P_j'|bound dt_i).
	cLegOrth = 40 // base constant; calibrated factor and measured worst ratio: calib.go
	// |sum w_i t_i^k - (1+(-1)^k)/(k+1)| <= cLegMono u sum_i w_i ((k+2)|t_i|^k + k|t_i|^(k-1) dt_i).
	cLegMono = 100 // base constant; calibrated factor and measured worst ratio: calib.go
	// raw monomials: |sum w_i x_i^k - (b^(k+1)-a^(k+1))/(k+1)| <= cLegRaw u sum_i w_i ((k+2)|x_i|^k + k|x_i|^(k-1) dx_i).
	cLegRaw = 100 // base constant; calibrated factor and measured worst ratio: calib.go
	// |P_n(t_i)| <= cLegRoot u (n+2)(1 + |P_n'(t_i)| / n) on [-1,1].
	cLegRoot = 200 // base constant; calibrated factor and measured worst ratio: calib.go
	// |w_i (1-t_i^2) P_n'(t_i)^2 / 2 - 1| <= cLegWeight u (n+2) on [-1,1].
	cLegWeight = 800 // base constant; calibrated factor and measured worst ratio: calib.go
)

type interval struct {
	a, b float64
	name string
	raw  bool // raw monomials x^k are representable for this interval
}

var legFixedIntervals = []interval{
	{-1, 1, "canonical", true},
	{0, 1, "unit", true},
	{-3, -1, "negative", true},
	{-1e-290, 3e-290, "tiny", false},
	{-1e150, 2e150, "huge", false},
	{1e6, 1e6 + 1, "offset-narrow", true},
	{1, 1 + 1.0/(1<<20), "relative-narrow", true},
	{-7, 0.5, "straddle", true},
}

func legendreBranch(n int) string {
	if n <= 100 {
		return fmt.Sprintf("row n=%d", n)
	}
	return "asymptotic"
}

func legendreIntervals(c *vrt.Ctx, n int) []interval {
	var ivs []interval
	nf := len(legFixedIntervals)
	if c.Thorough() {
		ivs = append(ivs, legFixedIntervals...)
	} else {
		ivs = append(ivs, legFixedIntervals[0])
		for j := 0; j < 4; j++ {
			ivs = append(ivs, legFixedIntervals[1+(n+2*j)%(nf-1)])
		}
	}
	r := c.RNG("legendre-interval", n)
	for i := 0; i < c.Pick(2, 6); i++ {
		a := math.Pow(10, r.Uniform(-3, 3))
		if r.Bool() {
			a = -a
		}
		wd := math.Pow(10, r.Uniform(-3, 3))
		ivs = append(ivs, interval{a, a + wd, "random", true})
	}
	return ivs
}

func checkLegendre(c *vrt.Ctx) {
	var ns []int
	for n := 1; n <= 300; n++ {
		ns = append(ns, n)
	}
	if c.Thorough() {
		for n := 301; n <= 1000; n += 37 {
			ns = append(ns, n)
		}
		ns = append(ns, 1000, 1500, 2001)
	}
	vrt.Parallel(len(ns), func(i int) {
		sh := newShard(c)
		legendreOne(c, sh, ns[len(ns)-1-i]) // large n first for load balance
		sh.flush()
	})
	legendreDomain(c)
}

func legendreOne(c *vrt.Ctx, sh *evalShard, n int) {
	br := legendreBranch(n)
	sig := func(clause string) string { return "quad.Legendre|" + br + "|" + clause }
	cls := "tabulated-odd"
	switch {
	case n > 100:
		cls = "asymptotic"
	case n%2 == 0:
		cls = "tabulated-even"
	}
	for _, iv := range legendreIntervals(c, n) {
		a, b := iv.a, iv.b
		x := make([]float64, n)
		w := make([]float64, n)
		replay := map[string]any{"n": n, "min": a, "max": b}
		c.LastCase(fmt.Sprintf("Legendre.FixedLocations n=%d [%g,%g]", n, a, b))
		if p := vrt.Try(func() { quad.Legendre{}.FixedLocations(x, w, a, b) }); p != nil {
			c.Violation(sig("panic"), fmt.Sprintf("n=%d [%g,%g]: %s", n, a, b, p.Msg), replay)
			continue
		}
		sh.eval("Legendre.FixedLocations|" + cls + "|" + iv.name)
		if n == 7 && iv.name == "canonical" {
			c.Sample(map[string]any{"call": "quad.Legendre{}.FixedLocations", "n": n, "min": a, "max": b, "x": x, "w": w})
		}
		where := func() string { return fmt.Sprintf("n=%d %s [%g,%g]", n, iv.name, a, b) }

		h := (b - a) / 2
		kappa := math.Max(math.Abs(a), math.Abs(b)) / h
		dt := (8 + 2*kappa) * u

		// 1. finite, positive weights.
		bad := false
		for i := range w {
			if math.IsNaN(x[i]) || math.IsInf(x[i], 0) || math.IsNaN(w[i]) || math.IsInf(w[i], 0) {
				c.Violation(sig("non-finite"), fmt.Sprintf("%s: x[%d]=%g w[%d]=%g", where(), i, x[i], i, w[i]), replay)
				bad = true
				break
			}
		}
		if bad {
			continue
		}
		for i := range w {
			if !(w[i] > 0) {
				c.Violation(sig("weight-not-positive"), fmt.Sprintf("%s: w[%d]=%g", where(), i, w[i]), replay)
				break
			}
		}
		// 2. strictly monotone nodes inside (a,b). Strictness is demanded
		// where the exact gap exceeds 8 ulps of the interval magnitude.
		dir := 0.0
		if n > 1 {
			dir = x[n-1] - x[0]
		}
		for i := 0; i < n; i++ {
			if x[i] < a || x[i] > b {
				c.Violation(sig("node-outside-interval"), fmt.Sprintf("%s: x[%d]=%.17g", where(), i, x[i]), replay)
				break
			}
		}
		res := 8 * ulp(math.Max(math.Abs(a), math.Abs(b)))
		for i := 0; i+1 < n; i++ {
			d := x[i+1] - x[i]
			// Exact gap of the rule in t-space is about (pi/(n+1/2)) sin(theta).
			th := math.Pi * (float64(i) + 1) / (float64(n) + 0.5)
			gap := h * math.Pi / (float64(n) + 0.5) * math.Sin(th) * 0.5
			if d*dir < 0 || (d == 0 && gap > res) {
				c.Violation(sig("nodes-not-monotone"), fmt.Sprintf("%s: x[%d]=%.17g x[%d]=%.17g", where(), i, x[i], i+1, x[i+1]), replay)
				break
			}
		}
		// 3. symmetry about the midpoint.
		for i := 0; i < n; i++ {
			j := n - 1 - i
			if j < i {
				break
			}
			// (x_i - a) + (x_j - b) = 0 exactly.
			e := math.Abs((x[i] - a) + (x[j] - b))
			if !within("legendre-symmetry", e, cLegSym*u*(math.Abs(a)+math.Abs(b)+h), where) {
				c.Violation(sig("nodes-not-symmetric"), fmt.Sprintf("%s: x[%d]=%.17g x[%d]=%.17g", where(), i, x[i], j, x[j]), replay)
				break
			}
			if !within("legendre-weight-symmetry", math.Abs(w[i]-w[j]), 8*u*w[i], where) {
				c.Violation(sig("weights-not-symmetric"), fmt.Sprintf("%s: w[%d]=%.17g w[%d]=%.17g", where(), i, w[i], j, w[j]), replay)
				break
			}
		}
		// 4. sum of the weights.
		var ks vrt.KSum
		for _, v := range w {
			ks.Add(v)
		}
		if !within("legendre-weight-sum/"+clsShort(n), math.Abs(ks.Sum()-(b-a)), cLegSum*u*(b-a), where) {
			c.Violation(sig("weight-sum"), fmt.Sprintf("%s: sum w = %.17g, b-a = %.17g", where(), ks.Sum(), b-a), replay)
		}

		// t-space copies.
		t := make([]float64, n)
		wt := make([]float64, n)
		for i := range x {
			t[i] = ((x[i] - a) - h) / h
			if t[i] > 1 {
				t[i] = 1
			} else if t[i] < -1 {
				t[i] = -1
			}
			wt[i] = w[i] / h
		}
		legendreOrth(c, sig, replay, where, n, t, wt, dt, iv.name == "canonical")
		legendreMonoT(c, sig, replay, where, n, t, wt, dt)
		if iv.raw {
			legendreMonoRaw(c, sig, replay, where, n, a, b, x, w)
		}

		// 8. FixedLocationSingle agrees bit for bit.
		ks8 := []int{0, 1, n/2 - 1, n / 2, n/2 + 1, n - 2, n - 1}
		for _, k := range ks8 {
			if k < 0 || k >= n {
				continue
			}
			var xs, ws float64
			if p := vrt.Try(func() { xs, ws = quad.Legendre{}.FixedLocationSingle(n, k, a, b) }); p != nil {
				c.Violation(sig("single-panic"), fmt.Sprintf("%s k=%d: %s", where(), k, p.Msg), replay)
				break
			}
			sh.eval("Legendre.FixedLocationSingle|" + cls)
			if !sameBits(xs, x[k]) || !sameBits(ws, w[k]) {
				c.Violation(sig("single-differs-from-slice"), fmt.Sprintf("%s k=%d: single (%.17g,%.17g) slice (%.17g,%.17g)", where(), k, xs, ws, x[k], w[k]), replay)
				break
			}
		}
	}
}

func clsShort(n int) string {
	if n > 100 {
		return "asymptotic"
	}
	return "tabulated"
}

// legendreOrth checks discrete orthogonality against the Legendre
// polynomials P_0..P_{2n-1} (the well-conditioned basis of the exactness
// class), and on the canonical interval the root and weight equations.
func legendreOrth(c *vrt.Ctx, sig func(string) string, replay any, where func() string, n int, t, wt []float64, dt float64, canonical bool) {
	m := 2 * n
	S := make([]vrt.KSum, m)
	B := make([]float64, m)
	for i, ti := range t {
		s2 := 1 - ti*ti
		inv := math.Inf(1)
		if s2 > 0 {
			inv = 1 / math.Sqrt(s2)
		}
		pm, p := 0.0, 1.0 // P_{j-1}, P_j
		var pn, pn1 float64
		for j := 0; j < m; j++ {
			if j > 0 {
				fj := float64(j)
				pm, p = p, ((2*fj-1)*ti*p-(fj-1)*pm)/fj
			}
			if j == n-1 {
				pn1 = p
			}
			if j == n {
				pn = p
			}
			fj := float64(j)
			dP := math.Min(fj*(fj+1)/2, fj*inv)
			S[j].Add(wt[i] * p)
			B[j] += wt[i] * ((fj + 2) + dP*dt/u)
		}
		if n == 1 {
			pn1, pn = 1, ti
		}
		if canonical {
			// P_n(t_i) = 0 and w_i = 2 / ((1-t^2) P_n'(t)^2), with
			// (1-t^2) P_n'(t) = n (P_{n-1}(t) - t P_n(t)).
			fn := float64(n)
			dpn := fn * (pn1 - ti*pn) / s2
			if !within("legendre-root/"+clsShort(n), math.Abs(pn), cLegRoot*u*(fn+2)*(1+math.Abs(dpn)/fn), where) {
				c.Violation(sig("node-not-a-root"), fmt.Sprintf("%s: P_n(x[%d]=%.17g) = %g", where(), i, ti, pn), replay)
				canonical = false
			}
			q := wt[i] * s2 * dpn * dpn / 2
			if !within("legendre-weight/"+clsShort(n), math.Abs(q-1), cLegWeight*u*(fn+2), where) {
				c.Violation(sig("weight-formula"), fmt.Sprintf("%s: w[%d]=%.17g but 2/((1-x^2)P_n'(x)^2) = %.17g", where(), i, wt[i], wt[i]/q), replay)
				canonical = false
			}
		}
	}
	for j := 0; j < m; j++ {
		want := 0.0
		if j == 0 {
			want = 2
		}
		if !within("legendre-orthogonality/"+clsShort(n), math.Abs(S[j].Sum()-want), cLegOrth*u*B[j], where) {
			c.Violation(sig("legendre-polynomial-not-exact"), fmt.Sprintf("%s: sum w_i P_%d(t_i) = %g, want %g (band %g)", where(), j, S[j].Sum(), want, cLegOrth*u*B[j]), replay)
			return
		}
	}
}

// legendreMonoT checks the monomials t^k, k <= 2n-1, in the reference
// coordinate t = (x-m)/h.
func legendreMonoT(c *vrt.Ctx, sig func(string) string, replay any, where func() string, n int, t, wt []float64, dt float64) {
	m := 2 * n
	pw := make([]float64, n)
	for i := range pw {
		pw[i] = 1
	}
	for k := 0; k < m; k++ {
		var s vrt.KSum
		var band float64
		fk := float64(k)
		for i, ti := range t {
			at := math.Abs(ti)
			prev := 0.0 // |t|^(k-1)
			if k > 0 {
				prev = math.Abs(pw[i])
				pw[i] *= ti
			}
			s.Add(wt[i] * pw[i])
			band += wt[i] * ((fk+2)*prev*at + fk*prev*dt/u)
			if k == 0 {
				band += wt[i] * 2
			}
		}
		want := 0.0
		if k%2 == 0 {
			want = 2 / (fk + 1)
		}
		if !within("legendre-monomial-t/"+clsShort(n), math.Abs(s.Sum()-want), cLegMono*u*band, where) {
			c.Violation(sig("monomial-not-exact"), fmt.Sprintf("%s: sum w_i t_i^%d = %.17g, want %.17g (band %g)", where(), k, s.Sum(), want, cLegMono*u*band), replay)
			return
		}
	}
}

// legendreMonoRaw checks the raw monomials x^k on [a,b] against the closed
// form (b^(k+1)-a^(k+1))/(k+1) evaluated with 320-bit floats.
func legendreMonoRaw(c *vrt.Ctx, sig func(string) string, replay any, where func() string, n int, a, b float64, x, w []float64) {
	const prec = 320
	A := new(big.Float).SetPrec(prec).SetFloat64(a)
	Bf := new(big.Float).SetPrec(prec).SetFloat64(b)
	pa := new(big.Float).SetPrec(prec).SetFloat64(a) // a^(k+1)
	pb := new(big.Float).SetPrec(prec).SetFloat64(b)
	mx := math.Max(math.Abs(a), math.Abs(b))
	dx := 8 * u * (math.Abs(a) + math.Abs(b) + (b - a))
	pw := make([]float64, n)
	for i := range pw {
		pw[i] = 1
	}
	lim := 2 * n
	tmp := new(big.Float).SetPrec(prec)
	for k := 0; k < lim; k++ {
		fk := float64(k)
		if fk*math.Log10(mx) > 280 || fk*math.Log10(mx) < -280 {
			break
		}
		var s vrt.KSum
		var band float64
		for i, xi := range x {
			prev := 0.0
			if k > 0 {
				prev = math.Abs(pw[i])
				pw[i] *= xi
			}
			s.Add(w[i] * pw[i])
			band += w[i] * ((fk+2)*math.Abs(pw[i]) + fk*prev*dx/u)
		}
		tmp.Sub(pb, pa)
		tmp.Quo(tmp, new(big.Float).SetPrec(prec).SetInt64(int64(k+1)))
		want, _ := tmp.Float64()
		if !within("legendre-monomial-raw/"+clsShort(n), math.Abs(s.Sum()-want), cLegRaw*u*band, where) {
			c.Violation(sig("monomial-not-exact"), fmt.Sprintf("%s: sum w_i x_i^%d = %.17g, want %.17g (band %g)", where(), k, s.Sum(), want, cLegRaw*u*band), replay)
			return
		}
		pa.Mul(pa, A)
		pb.Mul(pb, Bf)
	}
}

// legendreDomain checks the documented rejections.
func legendreDomain(c *vrt.Ctx) {
	type dc struct {
		name      string
		f         func()
		wantPanic bool
	}
	x3, w3, w2 := make([]float64, 3), make([]float64, 3), make([]float64, 2)
	cases := []dc{
		{"length-mismatch", func() { quad.Legendre{}.FixedLocations(x3, w2, 0, 1) }, true},
		{"min-eq-max", func() { quad.Legendre{}.FixedLocations(x3, w3, 1, 1) }, true},
		{"min-gt-max", func() { quad.Legendre{}.FixedLocations(x3, w3, 2, 1) }, true},
		{"inf-max", func() { quad.Legendre{}.FixedLocations(x3, w3, 0, math.Inf(1)) }, true},
		{"inf-min", func() { quad.Legendre{}.FixedLocations(x3, w3, math.Inf(-1), 0) }, true},
		{"single-inf", func() { quad.Legendre{}.FixedLocationSingle(3, 1, 0, math.Inf(1)) }, true},
		{"single-min-gt-max", func() { quad.Legendre{}.FixedLocationSingle(3, 1, 2, 1) }, true},
		{"empty", func() { quad.Legendre{}.FixedLocations(nil, nil, 0, 1) }, false},
	}
	for _, d := range cases {
		p := vrt.Try(d.f)
		c.Eval("Legendre.domain|"+d.name, true)
		if (p != nil) != d.wantPanic || (p != nil && p.Runtime) {
			msg := "no panic"
			if p != nil {
				msg = p.Msg
			}
			c.Violation("quad.Legendre|domain "+d.name+"|wrong-rejection", msg, d.name)
		}
	}
}
