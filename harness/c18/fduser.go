package main

import (
	"fmt"
	"math"
	"math/big"

	"gonum.org/v1/gonum/diff/fd"
)

// User-defined formulas: the Formula type is open (any stencil, any
// derivative order), so the monitor builds its own stencils for derivative
// orders 1..6 on 3..9 points by solving the moment (Vandermonde) system
//
//	sum_i c_i l_i^k = d! [k == d],  k = 0..m-1,
//
// in exact rational arithmetic for the float64 locations actually passed.
// Such a formula is exact on polynomials of degree <= m-1. Orders above 2
// are accepted by Derivative only; order 1 also by Gradient, Jacobian,
// Hessian and CrossLaplacian, order 2 also by Laplacian.

// stencilFor returns the coefficients for derivative order d at the given
// locations, rounded to float64, and whether every coefficient is exactly
// representable.
func stencilFor(d int, locs []float64) (coef []float64, exact bool) {
	m := len(locs)
	A := make([][]*big.Rat, m)
	for k := 0; k < m; k++ {
		A[k] = make([]*big.Rat, m+1)
		for i, l := range locs {
			v := new(big.Rat).SetInt64(1)
			lr := new(big.Rat).SetFloat64(l)
			for e := 0; e < k; e++ {
				v.Mul(v, lr)
			}
			A[k][i] = v
		}
		A[k][m] = new(big.Rat)
		if k == d {
			f := int64(1)
			for j := 2; j <= d; j++ {
				f *= int64(j)
			}
			A[k][m].SetInt64(f)
		}
	}
	// Gauss-Jordan over the rationals.
	for col := 0; col < m; col++ {
		p := col
		for p < m && A[p][col].Sign() == 0 {
			p++
		}
		A[col], A[p] = A[p], A[col]
		inv := new(big.Rat).Inv(A[col][col])
		for j := col; j <= m; j++ {
			A[col][j] = new(big.Rat).Mul(A[col][j], inv)
		}
		for r := 0; r < m; r++ {
			if r == col || A[r][col].Sign() == 0 {
				continue
			}
			f := new(big.Rat).Set(A[r][col])
			for j := col; j <= m; j++ {
				A[r][j] = new(big.Rat).Sub(A[r][j], new(big.Rat).Mul(f, A[col][j]))
			}
		}
	}
	coef = make([]float64, m)
	exact = true
	for i := range coef {
		var ex bool
		coef[i], ex = A[i][m].Float64()
		exact = exact && ex
	}
	return coef, exact
}

// userFormulas returns the generated formulas. The name carries the order
// and the location pattern (the signature path class); the number of points
// is part of the replay data only.
func userFormulas() []fdFormula {
	var out []fdFormula
	for d := 1; d <= 6; d++ {
		for m := d + 1; m <= 9; m++ {
			if m < 3 {
				continue
			}
			kinds := map[string][]float64{}
			fw, bw, ce, hf, nd := make([]float64, m), make([]float64, m), make([]float64, m), make([]float64, m), make([]float64, m)
			for i := 0; i < m; i++ {
				fw[i] = float64(i)
				bw[i] = -float64(i)
				ce[i] = float64(i - m/2)                    // symmetric for odd m, one extra point on the left otherwise
				hf[i] = float64(2*i-(m-1)) / 2              // symmetric about 0 on the half-integer/integer grid
				nd[i] = float64(i-m/2)/3 + 0.1*float64(i%2) // non-dyadic, irregular
			}
			kinds["forward"], kinds["backward"], kinds["centered"], kinds["half-step-symmetric"], kinds["non-dyadic"] = fw, bw, ce, hf, nd
			for _, kn := range []string{"forward", "backward", "centered", "half-step-symmetric", "non-dyadic"} {
				locs := kinds[kn]
				coef, exact := stencilFor(d, locs)
				st := make([]fd.Point, 0, m)
				dy := exact
				for i := range locs {
					if coef[i] == 0 && locs[i] != 0 {
						continue // a vanishing coefficient (symmetry): keep the stencil minimal
					}
					st = append(st, fd.Point{Loc: locs[i], Coeff: coef[i]})
					if locs[i]*2 != math.Trunc(locs[i]*2) {
						dy = false
					}
				}
				out = append(out, fdFormula{
					name:   fmt.Sprintf("user:order-%d,%s", d, kn),
					f:      fd.Formula{Stencil: st, Derivative: d, Step: 1e-2},
					exact:  m - 1,
					dyadic: dy,
				})
			}
		}
	}
	return out
}

// fitExactDegree lowers the degree of the polynomial class drawn for an
// exact-arithmetic case until every sample, product and partial sum of the
// formula is representable: with coordinates that are multiples of 1/4 of
// magnitude <= xm, step h and stencil locations on the half-integer grid all
// samples are multiples of 2^-(s D), s = max(2, 1-log2 h), D the total degree,
// and bounded by 5 T (xm+pad)^D, T the number of terms. It returns false if
// not even the derivative order fits.
func (k *fdCase) fitExactDegree() bool {
	ml := stencilMaxLoc(k.form.f)
	S := stencilAbsSum(k.form.f)
	fold, extra := 1.0, 0
	if k.form.f.Derivative == 1 {
		fold, extra = 2, 1 // Hessian and CrossLaplacian: two-fold stencil, total degree q+1
	}
	xm := 0.0
	for _, v := range k.x {
		xm = math.Max(xm, math.Abs(v))
	}
	s := math.Max(2, 1-math.Log2(k.step))
	pad := 2 * fold * ml * k.step
	T := float64(8 + 3*2*k.nv)
	for deg := k.form.exact; deg >= k.form.f.Derivative; deg-- {
		D := float64(deg + extra)
		B := 5 * T * math.Pow(xm+pad, D) * math.Exp2(s*D) * math.Pow(S, fold) * 4
		if B < math.Exp2(46) {
			k.form.exact = deg
			return true
		}
	}
	return false
}
