package main

import (
	"fmt"
	"math"
	"sort"
	"sync"
	"sync/atomic"

	"gonum.org/v1/gonum/integrate/quad"
	"gonum.org/v1/gonum/verifx/vrt"
)

const (
	// finite range: |Fixed - exact| <= cFixPoly u (b-a) sum_j |c_j| (j+2)(1+kappa).
	cFixPoly = 100 // base constant; calibrated factor and measured worst ratio: calib.go
	// semi-infinite: |Fixed - exact| <= cFixSemi u sum_p |c_p|/(p-1) (p+2)(1+|a|) n.
	cFixSemi = 100 // base constant; calibrated factor and measured worst ratio: calib.go
	// Hermite rule through Fixed: |Fixed - exact| <= cFixHerm u sum_k |c_k| (k+2) M_|k|.
	cFixHerm = 200 // base constant; calibrated factor and measured worst ratio: calib.go
	// doubly infinite (NOT an exactness check): |Fixed - exact| <= trunc(n) + cFixInf u.
	cFixInf = 400 // base constant; calibrated factor and measured worst ratio: calib.go
)

// slicesOnly hides FixedLocationSingle so that Fixed takes the slice path.
type slicesOnly struct{ r quad.FixedLocationer }

func (s slicesOnly) FixedLocations(x, w []float64, min, max float64) {
	s.r.FixedLocations(x, w, min, max)
}

// ledger records the evaluation points of a callback and the largest
// number of simultaneous evaluations.
type ledger struct {
	mu      sync.Mutex
	pts     []float64
	in, max atomic.Int32
}

func (l *ledger) wrap(f func(float64) float64) func(float64) float64 {
	return func(x float64) float64 {
		k := l.in.Add(1)
		for {
			m := l.max.Load()
			if k <= m || l.max.CompareAndSwap(m, k) {
				break
			}
		}
		l.mu.Lock()
		l.pts = append(l.pts, x)
		l.mu.Unlock()
		v := f(x)
		l.in.Add(-1)
		return v
	}
}

// legendreRuleSound reports whether the n-point Legendre rule on [a,b] that
// Fixed is going to use has weights summing to b-a (to 1e-9): a defective
// table row is reported, per row, by the legendre sub-check; judging the
// exactness of Fixed with it would attribute the table's defect to Fixed
// under seed-dependent signatures (n and the rule kind are random here).
func legendreRuleSound(n int, a, b float64) (xs, ws []float64, ok bool) {
	xs, ws = make([]float64, n), make([]float64, n)
	if p := vrt.TryFast(func() { quad.Legendre{}.FixedLocations(xs, ws, a, b) }); p != nil {
		return nil, nil, false
	}
	var k vrt.KSum
	for _, w := range ws {
		k.Add(w)
	}
	return xs, ws, math.Abs(k.Sum()-(b-a)) <= 1e-9*(b-a)
}

func checkFixed(c *vrt.Ctx) {
	nCases := c.Pick(1500, 20000)
	vrt.Parallel(nCases, func(i int) {
		sh := newShard(c)
		fixedCase(c, sh, i)
		sh.flush()
	})
	fixedDomain(c)
}

func fixedCase(c *vrt.Ctx, sh *evalShard, idx int) {
	r := c.RNG("fixed", idx)
	kind := idx % 5 // 0,1 finite; 2 [a,inf); 3 (-inf,b]; 4: hermite / infinite alternate
	var n int
	switch {
	case idx%7 == 0:
		n = r.Range(101, 140) // asymptotic Legendre branch through Fixed
	default:
		n = r.Range(1, 48)
	}
	conc := r.PickInt(0, 0, -1, 1, 2, 3, n, n+5)
	concCls := "serial"
	if conc > 0 {
		concCls = "concurrent"
	}
	ruleKind := r.Intn(3) // 0 nil, 1 Legendre{}, 2 slices-only Legendre
	var l ledger

	report := func(routine, path, clause, detail string, replay any) {
		c.Violation("quad.Fixed|"+path+"|"+clause, routine+": "+detail, replay)
	}
	ledgerChecks := func(path string, replay any, wantPts []float64) {
		if len(l.pts) != n {
			report("Fixed", path, "evaluation-count", fmt.Sprintf("f evaluated %d times, documented n = %d", len(l.pts), n), replay)
			return
		}
		if conc > 0 && int(l.max.Load()) > conc {
			report("Fixed", path, "too-many-simultaneous-evaluations", fmt.Sprintf("%d simultaneous evaluations with concurrent = %d", l.max.Load(), conc), replay)
		}
		if conc <= 0 && l.max.Load() > 1 {
			report("Fixed", path, "too-many-simultaneous-evaluations", fmt.Sprintf("%d simultaneous evaluations with concurrent = %d", l.max.Load(), conc), replay)
		}
		if wantPts != nil {
			got := append([]float64(nil), l.pts...)
			want := append([]float64(nil), wantPts...)
			sort.Float64s(got)
			sort.Float64s(want)
			for i := range got {
				if !sameBits(got[i], want[i]) {
					report("Fixed", path, "evaluation-points", fmt.Sprintf("sorted evaluation point %d is %.17g, rule node is %.17g", i, got[i], want[i]), replay)
					break
				}
			}
		}
	}

	switch kind {
	case 0, 1:
		a := r.PickFloat(0, -1, -2, 10, -0.001, 1e-3) + r.Sym()*0.25
		wd := math.Pow(10, r.Uniform(-2, 1.5))
		b := a + wd
		h, m := (b-a)/2, a+(b-a)/2
		kappa := math.Max(math.Abs(a), math.Abs(b)) / h
		deg := 2*n - 1
		if r.Chance(0.3) {
			deg = r.Intn(2 * n)
		}
		if deg > 80 { // keep the callback cheap; high degrees are covered by the Legendre sub-check
			deg = 80
		}
		co := make([]float64, deg+1)
		exact, band := 0.0, 0.0
		for j := range co {
			co[j] = r.Sym()
			if j%2 == 0 {
				exact += co[j] * 2 / float64(j+1)
			}
			band += math.Abs(co[j]) * float64(j+2) * (1 + kappa)
		}
		exact *= h
		f := func(x float64) float64 {
			t := (x - m) / h
			s := 0.0
			for j := deg; j >= 0; j-- {
				s = s*t + co[j]
			}
			return s
		}
		var rule quad.FixedLocationer
		path := "finite,rule=nil"
		switch ruleKind {
		case 1:
			rule, path = quad.Legendre{}, "finite,rule=Legendre"
		case 2:
			rule, path = slicesOnly{quad.Legendre{}}, "finite,rule=slices-only"
		}
		replay := map[string]any{"min": a, "max": b, "n": n, "concurrent": conc, "rule": path, "coeff_t_basis": co}
		var got float64
		c.LastCase(fmt.Sprintf("Fixed %s n=%d conc=%d [%g,%g]", path, n, conc, a, b))
		if p := vrt.Try(func() { got = quad.Fixed(l.wrap(f), a, b, n, rule, conc) }); p != nil {
			report("Fixed", path, "panic", p.Msg, replay)
			return
		}
		sh.eval("Fixed|" + path + "|" + concCls + "|" + clsShort(n))
		if idx < 2 {
			c.Sample(map[string]any{"call": "quad.Fixed(poly, min, max, n, rule, concurrent)", "args": replay, "got": got, "exact": exact})
		}
		xs, ws, sound := legendreRuleSound(n, a, b)
		ledgerChecks(path, replay, xs)
		where := func() string { return fmt.Sprintf("%s n=%d [%g,%g] deg=%d", path, n, a, b, deg) }
		if xs != nil {
			// plumbing: Fixed = sum_i w_i f(x_i) with the rule's own nodes and weights.
			var ks vrt.KSum
			abs := 0.0
			for i, x := range xs {
				v := ws[i] * f(x)
				ks.Add(v)
				abs += math.Abs(v)
			}
			if !within("fixed-weighted-sum", math.Abs(got-ks.Sum()), 8*u*float64(n)*abs, where) {
				report("Fixed", path, "differs-from-weighted-sum-of-the-rule", fmt.Sprintf("got %.17g, sum w_i f(x_i) = %.17g", got, ks.Sum()), replay)
			}
		}
		if !sound {
			c.Count("fixed_cases_with_defective_legendre_row_not_judged_for_exactness", 1)
			return
		}
		if !within("fixed-finite", math.Abs(got-exact), cFixPoly*u*(b-a)*band, where) {
			report("Fixed", path, "polynomial-not-exact", fmt.Sprintf("degree %d <= 2n-1 = %d on [%g,%g]: got %.17g want %.17g", deg, 2*n-1, a, b, got, exact), replay)
		}
	case 2, 3:
		a := r.PickFloat(0, 1, -1, 3.5, -7.25) + r.Sym()*0.125
		P := 2*n + 1 // exponent p-2 <= 2n-1
		if P > 40 {
			P = 40
		}
		if r.Chance(0.3) {
			P = 2 + r.Intn(P-1)
		}
		co := make([]float64, P+1) // co[p], p = 2..P
		exact, band := 0.0, 0.0
		for p := 2; p <= P; p++ {
			co[p] = r.Sym()
			exact += co[p] / float64(p-1)
			band += math.Abs(co[p]) / float64(p-1) * float64(p+2) * (1 + math.Abs(a))
		}
		lo, hi := a, math.Inf(1)
		path := "semi-infinite-right"
		f := func(x float64) float64 {
			v := 1 / (1 + (x - a))
			s := 0.0
			for p := P; p >= 2; p-- {
				s = (s + co[p]) * v
			}
			return s * v
		}
		if kind == 3 {
			lo, hi = math.Inf(-1), a
			path = "semi-infinite-left"
			f = func(x float64) float64 {
				v := 1 / (1 + (a - x))
				s := 0.0
				for p := P; p >= 2; p-- {
					s = (s + co[p]) * v
				}
				return s * v
			}
		}
		replay := map[string]any{"min": lo, "max": hi, "n": n, "concurrent": conc, "coeff_of_(1+|x-a|)^-p": co[2:]}
		var got float64
		c.LastCase(fmt.Sprintf("Fixed %s n=%d conc=%d a=%g", path, n, conc, a))
		if p := vrt.Try(func() { got = quad.Fixed(l.wrap(f), lo, hi, n, nil, conc) }); p != nil {
			report("Fixed", path, "panic", p.Msg, replay)
			return
		}
		sh.eval("Fixed|" + path + "|" + concCls + "|" + clsShort(n))
		if idx < 5 {
			c.Sample(map[string]any{"call": "quad.Fixed(sum c_p (1+|x-a|)^-p, min, max, n, nil, concurrent)", "args": replay, "got": got, "exact": exact})
		}
		ledgerChecks(path, replay, nil)
		where := func() string { return fmt.Sprintf("%s n=%d a=%g P=%d", path, n, a, P) }
		if _, _, sound := legendreRuleSound(n, 0, 1); !sound {
			c.Count("fixed_cases_with_defective_legendre_row_not_judged_for_exactness", 1)
			return
		}
		if !within("fixed-semi-infinite", math.Abs(got-exact), cFixSemi*u*band*float64(n), where) {
			report("Fixed", path, "rational-decay-not-exact", fmt.Sprintf("sum_{p<=%d} c_p (1+|x-a|)^-p, a=%g, transformed degree %d <= 2n-1 = %d: got %.17g want %.17g", P, a, P-2, 2*n-1, got, exact), replay)
		}
	default:
		if idx%2 == 0 {
			// Hermite rule through Fixed.
			// rows n <= 20 only: the odd Hermite rows n >= 21 carry a known
			// data defect that is reported by the hermite sub-check.
			n = 1 + n%20
			if conc > n {
				conc = n
			}
			deg := 2*n - 1
			co := make([]float64, deg+1)
			exact, band := 0.0, 0.0
			mk := math.SqrtPi
			for k := range co {
				co[k] = r.Sym() / (1 + mk)
				if k%2 == 0 {
					exact += co[k] * mk
					band += math.Abs(co[k]) * mk * float64(k+2)
					mk *= float64(k+1) / 2
				} else {
					// |x|^k moment as the scale of an odd term
					band += math.Abs(co[k]) * math.Sqrt(mk*mk*float64(k+1)/2) * float64(k+2)
				}
			}
			f := func(x float64) float64 {
				s := 0.0
				for j := deg; j >= 0; j-- {
					s = s*x + co[j]
				}
				return s
			}
			path := "infinite,rule=Hermite"
			replay := map[string]any{"n": n, "concurrent": conc, "coeff": co}
			var got float64
			c.LastCase(fmt.Sprintf("Fixed %s n=%d conc=%d", path, n, conc))
			if p := vrt.Try(func() { got = quad.Fixed(l.wrap(f), math.Inf(-1), math.Inf(1), n, quad.Hermite{}, conc) }); p != nil {
				report("Fixed", path, "panic", p.Msg, replay)
				return
			}
			sh.eval("Fixed|" + path + "|" + concCls)
			xs, ws := make([]float64, n), make([]float64, n)
			if p := vrt.TryFast(func() { quad.Hermite{}.FixedLocations(xs, ws, math.Inf(-1), math.Inf(1)) }); p != nil {
				xs = nil // reported by the hermite sub-check
			}
			ledgerChecks(path, replay, xs)
			where := func() string { return fmt.Sprintf("%s n=%d", path, n) }
			if !within("fixed-hermite", math.Abs(got-exact), cFixHerm*u*band, where) {
				report("Fixed", path, "polynomial-not-exact", fmt.Sprintf("degree %d under exp(-x^2): got %.17g want %.17g", deg, got, exact), replay)
			}
			return
		}
		// Doubly infinite range with the default rule: not an exactness
		// class. f(x) = (1+4x^2)^-q, q in {1, 3/2}: the transformed
		// integrand is analytic inside the Bernstein ellipse rho = 2, so
		// the n-point Gauss error is at most 64 M rho^(-2n) / (15 (rho^2-1))
		// (Trefethen, SIAM Review 50 (2008), Thm 4.5) with M <= 2.3 resp.
		// 13.4; the tolerance uses 16 * 4^-n resp. 64 * 4^-n.
		half := r.Bool()
		path := "infinite,rule=nil"
		f := func(x float64) float64 { return 1 / (1 + 4*x*x) }
		exact, trunc := math.Pi/2, 16*math.Pow(4, -float64(n))
		name := "1/(1+4x^2)"
		if half {
			f = func(x float64) float64 { v := 1 + 4*x*x; return 1 / (v * math.Sqrt(v)) }
			exact, trunc = 1, 64*math.Pow(4, -float64(n))
			name = "(1+4x^2)^(-3/2)"
		}
		replay := map[string]any{"n": n, "concurrent": conc, "f": name}
		var got float64
		c.LastCase(fmt.Sprintf("Fixed %s n=%d conc=%d", path, n, conc))
		if p := vrt.Try(func() { got = quad.Fixed(l.wrap(f), math.Inf(-1), math.Inf(1), n, nil, conc) }); p != nil {
			report("Fixed", path, "panic", p.Msg, replay)
			return
		}
		sh.eval("Fixed|" + path + "|" + concCls + "|" + clsShort(n))
		ledgerChecks(path, replay, nil)
		where := func() string { return fmt.Sprintf("%s n=%d f=%s", path, n, name) }
		if _, _, sound := legendreRuleSound(n, -1, 1); !sound {
			c.Count("fixed_cases_with_defective_legendre_row_not_judged_for_exactness", 1)
			return
		}
		if !within("fixed-infinite(non-exact)", math.Abs(got-exact), trunc+cFixInf*u*float64(n), where) {
			report("Fixed", path, "analytic-integrand-outside-truncation-bound", fmt.Sprintf("%s: got %.17g want %.17g, truncation bound %g", name, got, exact, trunc), replay)
		}
	}
}

func fixedDomain(c *vrt.Ctx) {
	one := func(float64) float64 { return 1 }
	type dc struct {
		name      string
		f         func() float64
		wantPanic bool
		want      float64
	}
	cases := []dc{
		{"n=0", func() float64 { return quad.Fixed(one, 0, 1, 0, nil, 0) }, true, 0},
		{"n<0", func() float64 { return quad.Fixed(one, 0, 1, -3, nil, 0) }, true, 0},
		{"min>max", func() float64 { return quad.Fixed(one, 1, 0, 3, nil, 0) }, true, 0},
		{"min==max", func() float64 { return quad.Fixed(one, 2, 2, 3, nil, 0) }, false, 0},
		{"min==max,concurrent", func() float64 { return quad.Fixed(one, 2, 2, 3, quad.Legendre{}, 2) }, false, 0},
	}
	for _, d := range cases {
		var got float64
		p := vrt.Try(func() { got = d.f() })
		c.Eval("Fixed.domain|"+d.name, true)
		switch {
		case d.wantPanic && (p == nil || p.Runtime):
			c.Violation("quad.Fixed|domain "+d.name+"|wrong-rejection", "documented panic missing or a runtime error", d.name)
		case !d.wantPanic && p != nil:
			c.Violation("quad.Fixed|domain "+d.name+"|wrong-rejection", p.Msg, d.name)
		case !d.wantPanic && got != d.want:
			c.Violation("quad.Fixed|domain "+d.name+"|wrong-value", fmt.Sprintf("got %g want %g", got, d.want), d.name)
		}
	}
}
