package main

import (
	"fmt"
	"math"
	"math/big"

	"gonum.org/v1/gonum/integrate"
	"gonum.org/v1/gonum/verifx/vrt"
)

const (
	// |T - exact| <= cTrap u (sqrt(n)+4) sum_i W_i |f_i|, W the trapezoid weights.
	cTrap = 100 // base constant; calibrated factor and measured worst ratio: calib.go
	// |S - exact| <= cSimp u (sqrt(n)+4) sum over panels of the absolute-term Simpson weights times |f|.
	cSimp = 200 // base constant; calibrated factor and measured worst ratio: calib.go
	// |R - exact| <= cRomb u (k+2) 2 dx sum |f_i|.
	cRomb = 100 // base constant; calibrated factor and measured worst ratio: calib.go
)

const ncPrec = 256

func bf(v float64) *big.Float { return new(big.Float).SetPrec(ncPrec).SetFloat64(v) }

// polyOnGrid evaluates p(s) = sum c_j s^j at s_i = (x_i-x_0)/(x_last-x_0)
// with 256-bit arithmetic and returns the rounded samples, the rounded
// exact integral over [x_0, x_last] and L = x_last - x_0.
func polyOnGrid(x []float64, co []float64) (f []float64, integral float64) {
	n := len(x)
	L := new(big.Float).SetPrec(ncPrec).Sub(bf(x[n-1]), bf(x[0]))
	f = make([]float64, n)
	s := new(big.Float).SetPrec(ncPrec)
	acc := new(big.Float).SetPrec(ncPrec)
	for i, xi := range x {
		s.Sub(bf(xi), bf(x[0]))
		s.Quo(s, L)
		acc.SetFloat64(0)
		for j := len(co) - 1; j >= 0; j-- {
			acc.Mul(acc, s)
			acc.Add(acc, bf(co[j]))
		}
		f[i], _ = acc.Float64()
	}
	acc.SetFloat64(0)
	for j, cj := range co {
		t := bf(cj)
		t.Quo(t, new(big.Float).SetPrec(ncPrec).SetInt64(int64(j+1)))
		acc.Add(acc, t)
	}
	acc.Mul(acc, L)
	integral, _ = acc.Float64()
	return f, integral
}

var gridKinds = []string{"uniform-dyadic", "pairwise-uniform", "random-ratio-10", "random-ratio-1e3", "random-ratio-1e6", "alternating-1e6", "geometric", "clustered"}

// makeGrid returns a strictly increasing grid of n points of the given kind.
// pairwise reports whether x[2k+1]-x[2k] == x[2k+2]-x[2k+1] exactly for all k.
func makeGrid(r *vrt.Rand, kind string, n int) (x []float64, pairwise bool) {
	x = make([]float64, n)
	x0 := r.PickFloat(0, -5, 1000, -1.0/1024, 3)
	scale := r.PickFloat(1, 1.0/(1<<20), 1<<13, 1.0/8)
	switch kind {
	case "uniform-dyadic":
		h := scale * float64(r.Range(1, 7))
		for i := range x {
			x[i] = x0 + float64(i)*h
		}
		pairwise = exactSteps(x)
		return x, pairwise
	case "pairwise-uniform":
		x[0] = x0
		var h float64
		for i := 1; i < n; i++ {
			if i%2 == 1 {
				h = scale * float64(r.Range(1, 4096))
			}
			x[i] = x[i-1] + h
		}
		return x, exactSteps(x)
	}
	hs := make([]float64, n-1)
	for i := range hs {
		switch kind {
		case "random-ratio-10":
			hs[i] = math.Pow(10, r.Uniform(0, 1))
		case "random-ratio-1e3":
			hs[i] = math.Pow(10, r.Uniform(0, 3))
		case "random-ratio-1e6":
			hs[i] = math.Pow(10, r.Uniform(0, 6))
		case "alternating-1e6":
			hs[i] = 1
			if i%2 == 1 {
				hs[i] = 1e6
			}
		case "geometric":
			hs[i] = math.Pow(1e6, float64(i)/float64(len(hs)))
		case "clustered":
			hs[i] = 1
			if r.Chance(0.3) {
				hs[i] = 1e-5
			}
		}
	}
	x[0] = x0
	for i := 1; i < n; i++ {
		x[i] = x[i-1] + hs[i-1]*scale
		if !(x[i] > x[i-1]) {
			x[i] = math.Nextafter(x[i-1], math.Inf(1))
		}
	}
	return x, false
}

// exactSteps reports whether consecutive step pairs are bitwise equal.
func exactSteps(x []float64) bool {
	for i := 1; i+1 < len(x); i += 2 {
		if x[i]-x[i-1] != x[i+1]-x[i] {
			return false
		}
	}
	return true
}

func randomCoeffs(r *vrt.Rand, deg int) []float64 {
	co := make([]float64, deg+1)
	for j := range co {
		co[j] = r.Sym() * 4
	}
	return co
}

func checkNewtonCotes(c *vrt.Ctx) {
	// point counts 2..200 all in both tiers; grid kinds rotate (quick) or all (thorough).
	type job struct {
		n    int
		kind string
		rep  int
	}
	var jobs []job
	for n := 2; n <= 200; n++ {
		for gi, k := range gridKinds {
			if c.Thorough() || (n+gi)%2 == 0 || n <= 16 {
				for rep := 0; rep < c.Pick(1, 6); rep++ {
					jobs = append(jobs, job{n, k, rep})
				}
			}
		}
	}
	vrt.Parallel(len(jobs), func(i int) {
		sh := newShard(c)
		j := jobs[i]
		r := c.RNG("newtoncotes-"+j.kind, j.n, j.rep)
		x, pairwise := makeGrid(r, j.kind, j.n)
		trapezoidCase(c, sh, r, x, j.kind)
		if j.n >= 3 {
			simpsonCase(c, sh, r, x, j.kind, pairwise)
		}
		sh.flush()
	})
	trapezoidExact(c)
	rombergCheck(c)
	newtonCotesDomain(c)
}

func parity(n int) string {
	if n%2 == 0 {
		return "even-count"
	}
	return "odd-count"
}

func trapezoidCase(c *vrt.Ctx, sh *evalShard, r *vrt.Rand, x []float64, kind string) {
	n := len(x)
	for deg := 0; deg <= 1; deg++ {
		co := randomCoeffs(r, deg)
		f, exact := polyOnGrid(x, co)
		var got float64
		replay := map[string]any{"x": x, "f": f, "degree": deg}
		c.LastCase(fmt.Sprintf("Trapezoidal n=%d %s", n, kind))
		if p := vrt.Try(func() { got = integrate.Trapezoidal(x, f) }); p != nil {
			c.Violation("integrate.Trapezoidal|"+parity(n)+"|panic", p.Msg, replay)
			return
		}
		sh.eval("Trapezoidal|" + kind + "|" + parity(n))
		band := 0.0
		for i := range x {
			w := 0.0
			if i > 0 {
				w += (x[i] - x[i-1]) / 2
			}
			if i+1 < n {
				w += (x[i+1] - x[i]) / 2
			}
			band += w * math.Abs(f[i])
		}
		where := func() string { return fmt.Sprintf("n=%d %s deg=%d", n, kind, deg) }
		if !within("trapezoidal", math.Abs(got-exact), cTrap*u*(math.Sqrt(float64(n))+4)*band, where) {
			c.Violation("integrate.Trapezoidal|"+parity(n)+"|linear-not-exact", fmt.Sprintf("%s: got %.17g want %.17g", where(), got, exact), replay)
			return
		}
	}
}

// trapezoidExact: integer grids and integer-valued linear samples make every
// operation of the rule exact, so the result must equal the integral.
func trapezoidExact(c *vrt.Ctx) {
	nc := c.Pick(1000, 10000)
	vrt.Parallel(nc, func(i int) {
		r := c.RNG("trapezoid-exact", i)
		n := r.Range(2, 200)
		x := make([]float64, n)
		f := make([]float64, n)
		sc := math.Ldexp(1, -r.Range(0, 10))
		a, b := float64(r.Range(-9, 9)), float64(r.Range(-9, 9))
		xi := int64(r.Range(-50, 50))
		x2 := make([]int64, n)
		for k := range x {
			x2[k] = xi
			x[k] = float64(xi) * sc
			f[k] = (a*float64(xi) + b)
			xi += int64(r.Range(1, 9))
		}
		// exact integral of a s + b over [x_0, x_last] in units of sc:
		// a (X1^2 - X0^2)/2 + b (X1 - X0).
		X0, X1 := float64(x2[0]), float64(x2[n-1])
		want := (a*(X1*X1-X0*X0)/2 + b*(X1-X0)) * sc
		var got float64
		replay := map[string]any{"x": x, "f": f}
		if p := vrt.Try(func() { got = integrate.Trapezoidal(x, f) }); p != nil {
			c.Violation("integrate.Trapezoidal|"+parity(n)+"|panic", p.Msg, replay)
			return
		}
		c.Eval("Trapezoidal|exact-dyadic|"+parity(n), true)
		if got != want {
			c.Violation("integrate.Trapezoidal|"+parity(n)+"|linear-not-exact", fmt.Sprintf("dyadic grid, integer samples (all operations exact): got %.17g want %.17g", got, want), replay)
		}
	})
}

func simpsonCase(c *vrt.Ctx, sh *evalShard, r *vrt.Rand, x []float64, kind string, pairwise bool) {
	n := len(x)
	maxDeg := 2
	if pairwise && n%2 == 1 {
		maxDeg = 3
	}
	for deg := 0; deg <= maxDeg; deg++ {
		co := randomCoeffs(r, deg)
		f, exact := polyOnGrid(x, co)
		var got float64
		replay := map[string]any{"x": x, "f": f, "degree": deg}
		c.LastCase(fmt.Sprintf("Simpsons n=%d %s", n, kind))
		if p := vrt.Try(func() { got = integrate.Simpsons(x, f) }); p != nil {
			c.Violation("integrate.Simpsons|"+parity(n)+"|panic", p.Msg, replay)
			return
		}
		cls := kind
		if deg == 3 {
			cls += "|cubic"
		}
		sh.eval("Simpsons|" + cls + "|" + parity(n))
		if n == 6 && deg == 2 && kind == "random-ratio-10" {
			c.Sample(map[string]any{"call": "integrate.Simpsons(x, f)", "x": x, "f": f, "got": got, "exact": exact})
		}
		// absolute-term weights
		band := 0.0
		for i := 1; i < n-1; i += 2 {
			h0, h1 := x[i]-x[i-1], x[i+1]-x[i]
			hph := h0 + h1
			a0 := (2*h0*h0*h0 + h1*h1*h1 + 3*h1*h0*h0) / (6 * h0 * hph)
			a1 := (h0*h0*h0 + h1*h1*h1 + 3*h0*h1*hph) / (6 * h0 * h1)
			a2 := (h0*h0*h0 + 2*h1*h1*h1 + 3*h0*h1*h1) / (6 * h1 * hph)
			band += a0*math.Abs(f[i-1]) + a1*math.Abs(f[i]) + a2*math.Abs(f[i+1])
		}
		if n%2 == 0 {
			h0, h1 := x[n-2]-x[n-3], x[n-1]-x[n-2]
			hph := h0 + h1
			a0 := h1 * h1 * h1 / (6 * h0 * hph)
			a1 := (h1*h1 + 3*h0*h1) / (6 * h0)
			a2 := (2*h1*h1 + 3*h0*h1) / (6 * hph)
			band += a0*math.Abs(f[n-3]) + a1*math.Abs(f[n-2]) + a2*math.Abs(f[n-1])
		}
		where := func() string { return fmt.Sprintf("n=%d %s deg=%d", n, kind, deg) }
		if !within("simpsons", math.Abs(got-exact), cSimp*u*(math.Sqrt(float64(n))+4)*band, where) {
			clause := "quadratic-not-exact"
			if deg == 3 {
				clause = "cubic-not-exact-on-uniform-panels"
			} else if deg < 2 {
				clause = "linear-not-exact"
			}
			c.Violation("integrate.Simpsons|"+parity(n)+"|"+clause, fmt.Sprintf("%s: got %.17g want %.17g", where(), got, exact), replay)
			return
		}
	}
}

func rombergCheck(c *vrt.Ctx) {
	maxK := c.Pick(8, 13)
	type job struct{ k, rep int }
	var jobs []job
	for k := 1; k <= maxK; k++ {
		for rep := 0; rep < c.Pick(12, 60); rep++ {
			jobs = append(jobs, job{k, rep})
		}
	}
	vrt.Parallel(len(jobs), func(i int) {
		k, rep := jobs[i].k, jobs[i].rep
		r := c.RNG("romberg", k, rep)
		n := 1 << uint(k)
		dx := r.PickFloat(1, 0.5, 1.0/1024, 3, 0.1, 1e-7, 12345.678, math.Pow(10, r.Uniform(-6, 6)))
		maxDeg := 2*k + 1
		deg := maxDeg
		if rep%3 == 1 {
			deg = r.Intn(maxDeg + 1)
		}
		co := randomCoeffs(r, deg)
		// s_i = i/n exactly; samples of p(s) in 256-bit arithmetic.
		f := make([]float64, n+1)
		acc := new(big.Float).SetPrec(ncPrec)
		s := new(big.Float).SetPrec(ncPrec)
		sumAbs := 0.0
		for i := range f {
			s.Quo(bf(float64(i)), bf(float64(n)))
			acc.SetFloat64(0)
			for j := deg; j >= 0; j-- {
				acc.Mul(acc, s)
				acc.Add(acc, bf(co[j]))
			}
			f[i], _ = acc.Float64()
			sumAbs += math.Abs(f[i])
		}
		acc.SetFloat64(0)
		for j, cj := range co {
			t := bf(cj)
			t.Quo(t, bf(float64(j+1)))
			acc.Add(acc, t)
		}
		acc.Mul(acc, bf(dx))
		acc.Mul(acc, bf(float64(n)))
		exact, _ := acc.Float64()
		var got float64
		replay := map[string]any{"dx": dx, "f": f, "degree": deg, "k": k}
		c.LastCase(fmt.Sprintf("Romberg k=%d dx=%g", k, dx))
		if p := vrt.Try(func() { got = integrate.Romberg(f, dx) }); p != nil {
			c.Violation("integrate.Romberg|uniform|panic", p.Msg, replay)
			return
		}
		c.Eval(fmt.Sprintf("Romberg|k=%d|deg=%d", k, deg), true)
		where := func() string { return fmt.Sprintf("k=%d dx=%g deg=%d", k, dx, deg) }
		if !within("romberg", math.Abs(got-exact), cRomb*u*float64(k+2)*2*dx*sumAbs, where) {
			c.Violation("integrate.Romberg|uniform|polynomial-not-exact", fmt.Sprintf("2^%d+1 samples, degree %d <= 2k+1: got %.17g want %.17g", k, deg, got, exact), replay)
		}
	})
}

func newtonCotesDomain(c *vrt.Ctx) {
	cases := []struct {
		name string
		f    func()
	}{
		{"Trapezoidal|length-mismatch", func() { integrate.Trapezoidal([]float64{0, 1, 2}, []float64{0, 1}) }},
		{"Trapezoidal|too-short", func() { integrate.Trapezoidal([]float64{0}, []float64{0}) }},
		{"Trapezoidal|unsorted", func() { integrate.Trapezoidal([]float64{0, 2, 1}, []float64{0, 1, 2}) }},
		{"Simpsons|length-mismatch", func() { integrate.Simpsons([]float64{0, 1, 2}, []float64{0, 1}) }},
		{"Simpsons|too-short", func() { integrate.Simpsons([]float64{0, 1}, []float64{0, 1}) }},
		{"Simpsons|unsorted", func() { integrate.Simpsons([]float64{0, 2, 1}, []float64{0, 1, 2}) }},
		{"Romberg|too-short", func() { integrate.Romberg([]float64{0, 1}, 1) }},
		{"Romberg|not-2^k+1", func() { integrate.Romberg([]float64{0, 1, 2, 3}, 1) }},
		{"Romberg|not-2^k+1-b", func() { integrate.Romberg(make([]float64, 7), 1) }},
		{"Romberg|dx=0", func() { integrate.Romberg([]float64{0, 1, 2}, 0) }},
		{"Romberg|dx<0", func() { integrate.Romberg([]float64{0, 1, 2}, -1) }},
	}
	for _, d := range cases {
		p := vrt.Try(d.f)
		c.Eval("integrate.domain|"+d.name, true)
		if p == nil || p.Runtime {
			msg := "no panic"
			if p != nil {
				msg = p.Msg
			}
			c.Violation("integrate."+d.name+"|wrong-rejection", msg, d.name)
		}
	}
}
