// Command c18 is the runtime monitor of property C18: quadrature rules,
// finite-difference formulas, automatic-differentiation number types and
// interpolants of gonum are exact on their design classes.
//
// Exactness classes separate rounding error from truncation error: every
// band below is a pure rounding band (the one exception, quad.Fixed on the
// doubly infinite range, is labelled as such).
package main

import (
	"flag"
	"fmt"
	"math"
	"strings"
	"sync"
	"sync/atomic"

	"gonum.org/v1/gonum/verifx/vrt"
)

var (
	flagSub   = flag.String("sub", "", "run only the sub-checks whose name contains one of these comma separated strings")
	flagCalib = flag.Bool("calib", false, "calibration: never report band violations, only record worst ratios")
)

const u = vrt.Eps64

func main() { vrt.Main("C18", run) }

type subCheck struct {
	name string
	f    func(c *vrt.Ctx)
}

func run(c *vrt.Ctx) {
	subs := []subCheck{
		{"legendre", checkLegendre},
		{"hermite", checkHermite},
		{"fixed", checkFixed},
		{"newtoncotes", checkNewtonCotes},
		{"fd", checkFD},
		{"fddefault", checkFDDefault},
		{"dual", checkDual},
		{"hyperdual", checkHyperdual},
		{"quat", checkQuat},
		{"dualquat", checkDualQuat},
		{"dualcmplx", checkDualCmplx},
		{"special", checkSpecialCases},
		{"interp", checkInterp},
	}
	for _, s := range subs {
		if *flagSub != "" {
			ok := false
			for _, w := range strings.Split(*flagSub, ",") {
				if strings.Contains(s.name, w) {
					ok = true
				}
			}
			if !ok {
				continue
			}
		}
		c.LastCase("sub-check " + s.name)
		s.f(c)
	}
	ratios.flush(c)
}

// ---- worst-ratio bookkeeping ------------------------------------------------

// The largest observed error as a fraction of the allowed band is recorded
// per band name (so 0.01 means a 100x margin) and written to the evidence
// notes: the calibration of every tolerance is measured on each run. The
// hot path is lock free (one sync.Map load and one atomic load).
type ratioSlot struct {
	bits atomic.Uint64 // float64 bits of the worst fraction; starts at -1
	mu   sync.Mutex
	at   string
}

type ratioBook struct{ slots sync.Map }

var ratios = &ratioBook{}

func (b *ratioBook) slot(name string) *ratioSlot {
	if v, ok := b.slots.Load(name); ok {
		return v.(*ratioSlot)
	}
	s := &ratioSlot{}
	s.bits.Store(math.Float64bits(-1))
	v, _ := b.slots.LoadOrStore(name, s)
	return v.(*ratioSlot)
}

func (b *ratioBook) record(name string, frac float64, where func() string) {
	s := b.slot(name)
	if !(frac > math.Float64frombits(s.bits.Load())) {
		return
	}
	s.mu.Lock()
	if frac > math.Float64frombits(s.bits.Load()) {
		s.bits.Store(math.Float64bits(frac))
		if where != nil {
			s.at = where()
		} else {
			s.at = "-"
		}
	}
	s.mu.Unlock()
}

func (b *ratioBook) flush(c *vrt.Ctx) {
	m := map[string]any{}
	b.slots.Range(func(k, v any) bool {
		s := v.(*ratioSlot)
		s.mu.Lock()
		m[k.(string)] = fmt.Sprintf("%.3g of band at %s", math.Float64frombits(s.bits.Load()), s.at)
		s.mu.Unlock()
		return true
	})
	c.Note("worst_error_fraction_of_band", m)
}

// within checks err <= band, records the fraction, and returns whether the
// check passed. A NaN or infinite error never passes.
func within(name string, err, band float64, where func() string) bool {
	if math.IsNaN(err) || math.IsInf(err, 0) {
		ratios.record(name, math.Inf(1), where)
		return *flagCalib
	}
	if sc, ok := bandScale[name]; ok {
		band *= sc
	}
	frac := 0.0
	if band > 0 {
		frac = err / band
	} else if err > 0 {
		frac = math.Inf(1)
	}
	ratios.record(name, frac, where)
	if *flagCalib {
		return true
	}
	return err <= band
}

// evalShard is a goroutine-local evaluation counter flushed with EvalN.
type evalShard struct {
	c *vrt.Ctx
	n map[string]int
}

func newShard(c *vrt.Ctx) *evalShard { return &evalShard{c: c, n: map[string]int{}} }

func (s *evalShard) eval(key string) { s.n[key]++ }

func (s *evalShard) evalN(key string, n int) { s.n[key] += n }

func (s *evalShard) flush() {
	for k, n := range s.n {
		s.c.EvalN(k, n, true)
	}
	s.n = map[string]int{}
}

func sameBits(a, b float64) bool { return math.Float64bits(a) == math.Float64bits(b) }

func ulp(x float64) float64 {
	x = math.Abs(x)
	if x == 0 || math.IsInf(x, 0) || math.IsNaN(x) {
		return math.SmallestNonzeroFloat64
	}
	return math.Nextafter(x, math.Inf(1)) - x
}

func fmtF(v float64) string { return fmt.Sprintf("%.17g", v) }
