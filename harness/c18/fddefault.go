package main

import (
	"fmt"
	"math"
	"os"
	"path/filepath"
	"strings"
	"sync"

	"gonum.org/v1/gonum/diff/fd"
	"gonum.org/v1/gonum/mat"
	"gonum.org/v1/gonum/verifx/vrt"
)

// Default-step and default-formula paths of diff/fd: every routine x every
// exported formula x every way of leaving Settings fields at their zero
// value. The step that must be used is the one the documentation names:
//
//	Settings.Step: "If equal to 0, formula's default step will be used."
//	Hessian, CrossLaplacian (derivatives of derivatives): the square root of
//	the formula's default step ("Use the sqrt because taking derivatives of
//	derivatives." next to the default in hessian.go / crosslaplacian.go).
//
// Both sentences are read from $VERIF_REPO at run time. The result is judged
// against the analytic derivative with a band that is the sum of a proved
// Taylor truncation bound for the documented step and the rounding band for
// that step; the step actually used is also observed directly from the
// evaluation points.

const (
	// rounding part: cFDDef u S^fold (eps_f + |x| M_1) / h^d (see fdBand).
	cFDDef = 40 // base constant; calibrated factor and measured worst ratio: calib.go
	// safety factor on the (rigorous) truncation bound.
	cFDTrunc = 2
	// relative tolerance of the observed step |y-x|/|loc| against the documented one.
	fdStepTol = 1e-5
)

// ---- what the docs say -----------------------------------------------------------

type fdDocs struct {
	stepZeroMeansFormulaDefault bool            // diff.go, Settings.Step
	sqrtForTwofold              map[string]bool // routine -> sqrt comment present
	nilMeansForward             map[string]bool // routine -> "using the Forward formula"
	err                         error
}

func readFDDocs() fdDocs {
	repo := os.Getenv("VERIF_REPO")
	if repo == "" {
		repo = "/repo"
	}
	d := fdDocs{sqrtForTwofold: map[string]bool{}, nilMeansForward: map[string]bool{}}
	rd := func(name string) string {
		b, err := os.ReadFile(filepath.Join(repo, "diff", "fd", name))
		if err != nil {
			d.err = err
		}
		return strings.Join(strings.Fields(string(b)), " ")
	}
	d.stepZeroMeansFormulaDefault = strings.Contains(rd("diff.go"), "If equal to 0, formula's default step will be used.")
	for routine, file := range map[string]string{"Hessian": "hessian.go", "CrossLaplacian": "crosslaplacian.go"} {
		d.sqrtForTwofold[routine] = strings.Contains(rd(file), "Use the sqrt because taking derivatives of derivatives")
	}
	for routine, file := range map[string]string{"Derivative": "derivative.go", "Gradient": "gradient.go", "Jacobian": "jacobian.go", "Hessian": "hessian.go", "CrossLaplacian": "crosslaplacian.go"} {
		d.nilMeansForward[routine] = strings.Contains(rd(file), "using the Forward formula")
	}
	return d
}

// ---- test functions ------------------------------------------------------------------

type tfn interface {
	nv() int
	eval(x []float64) float64
	d1(i int, x []float64) float64
	d2(i, j int, x []float64) float64
	epsF(x []float64, pad float64) float64     // absolute rounding error of one evaluation, in units of u
	M(m int, x []float64, pad float64) float64 // bound of every partial derivative of order m near x
	maxExp() int                               // per-variable degree for polynomials, -1 for smooth functions
	String() string
}

type polyFn struct{ p poly }

func (f polyFn) nv() int                       { return f.p.nv }
func (f polyFn) eval(x []float64) float64      { return f.p.eval(x) }
func (f polyFn) d1(i int, x []float64) float64 { return f.p.diff(i).eval(x) }
func (f polyFn) d2(i, j int, x []float64) float64 {
	return f.p.diff(i).diff(j).eval(x)
}
func (f polyFn) epsF(x []float64, pad float64) float64 {
	return float64(f.p.totalDeg()+len(f.p.t)+2) * f.p.evalAbs(x, pad)
}
func (f polyFn) M(m int, x []float64, pad float64) float64 {
	// only order 1 is needed (location rounding); higher orders never enter
	// because the polynomials stay inside the exactness class.
	b := 0.0
	for i := 0; i < f.p.nv; i++ {
		b = math.Max(b, f.p.diff(i).evalAbs(x, pad))
	}
	return b
}
func (f polyFn) maxExp() int {
	e := 0
	for _, t := range f.p.t {
		for _, v := range t.e {
			if v > e {
				e = v
			}
		}
	}
	return e
}
func (f polyFn) String() string { return f.p.String() }

// sinSum is sum_j A_j sin(w_j.x + phi_j).
type sinSum struct {
	n   int
	A   []float64
	W   [][]float64
	Phi []float64
}

func (s sinSum) nv() int { return s.n }
func (s sinSum) arg(j int, x []float64) float64 {
	a := s.Phi[j]
	for k, w := range s.W[j] {
		a += w * x[k]
	}
	return a
}
func (s sinSum) eval(x []float64) float64 {
	v := 0.0
	for j := range s.A {
		v += s.A[j] * math.Sin(s.arg(j, x))
	}
	return v
}
func (s sinSum) d1(i int, x []float64) float64 {
	v := 0.0
	for j := range s.A {
		v += s.A[j] * s.W[j][i] * math.Cos(s.arg(j, x))
	}
	return v
}
func (s sinSum) d2(i, k int, x []float64) float64 {
	v := 0.0
	for j := range s.A {
		v -= s.A[j] * s.W[j][i] * s.W[j][k] * math.Sin(s.arg(j, x))
	}
	return v
}
func (s sinSum) epsF(x []float64, pad float64) float64 {
	e := 0.0
	for j := range s.A {
		a := math.Abs(s.Phi[j])
		for k, w := range s.W[j] {
			a += math.Abs(w) * (math.Abs(x[k]) + pad)
		}
		e += math.Abs(s.A[j]) * (4 + float64(s.n+2)*a)
	}
	return e
}
func (s sinSum) M(m int, x []float64, pad float64) float64 {
	b := 0.0
	for j := range s.A {
		wm := 0.0
		for _, w := range s.W[j] {
			wm = math.Max(wm, math.Abs(w))
		}
		b += math.Abs(s.A[j]) * math.Pow(wm, float64(m))
	}
	return b
}
func (s sinSum) maxExp() int { return -1 }
func (s sinSum) String() string {
	return fmt.Sprintf("sum_j A_j sin(w_j.x+phi_j), A=%v W=%v phi=%v", s.A, s.W, s.Phi)
}

func genSinSum(r *vrt.Rand, nv int) sinSum {
	s := sinSum{n: nv}
	for j := 0; j < 3; j++ {
		s.A = append(s.A, r.Sym()*2)
		w := make([]float64, nv)
		for k := range w {
			w[k] = r.Sym() * 1.5
		}
		s.W = append(s.W, w)
		s.Phi = append(s.Phi, r.Sym()*3)
	}
	return s
}

// ---- bands -----------------------------------------------------------------------------

func factorial(n int) float64 {
	f := 1.0
	for i := 2; i <= n; i++ {
		f *= float64(i)
	}
	return f
}

// truncOne is the Taylor bound of a single formula (derivative order d,
// exact to degree q) at step h for a function whose partial derivatives of
// order q+1+extra are bounded by M: h^(q+1-d) M sum|c||l|^(q+1)/(q+1)!.
func truncOne(F fdFormula, h, M float64) float64 {
	q := F.exact
	k := 0.0
	for _, p := range F.f.Stencil {
		k += math.Abs(p.Coeff) * math.Pow(math.Abs(p.Loc), float64(q+1))
	}
	return math.Pow(h, float64(q+1-F.f.Derivative)) * M * k / factorial(q+1)
}

// fdBand returns the truncation and the rounding part of the band of one
// output component. twofold: product of two first-derivative formulas
// (Hessian entry, CrossLaplacian term); terms: number of such components
// summed into the output (Laplacian, CrossLaplacian).
func fdBand(F fdFormula, h float64, f tfn, x []float64, twofold bool, terms int) (trunc, round float64) {
	ml := stencilMaxLoc(F.f)
	pad := 2 * ml * h
	S := stencilAbsSum(F.f)
	d := F.f.Derivative
	inClass := f.maxExp() >= 0 && f.maxExp() <= F.exact
	if twofold {
		if !inClass {
			sl := 0.0
			for _, p := range F.f.Stencil {
				sl += math.Abs(p.Coeff) * math.Abs(p.Loc)
			}
			// |D_i D_j f - f_ij| <= |(D_i - d_i) f_j| + |D_i (D_j - d_j) f|
			//                    <= T(M_{q+2}) + sum|c||l| T(M_{q+2}).
			trunc = (1 + sl) * truncOne(F, h, f.M(F.exact+2, x, pad))
		}
		S *= S
		d = 2
	} else if !inClass {
		trunc = truncOne(F, h, f.M(F.exact+1, x, pad))
	}
	xm := 0.0
	for _, v := range x {
		xm = math.Max(xm, math.Abs(v)+pad)
	}
	round = S * (f.epsF(x, pad) + xm*f.M(1, x, pad)) / math.Pow(h, float64(d))
	return trunc * float64(terms), round * float64(terms)
}

// ---- settings modes ----------------------------------------------------------------------

type fdMode struct {
	name       string
	nilSet     bool
	setFormula bool
	setStep    bool
}

var fdModes = []fdMode{
	{"nil-settings", true, false, false},
	{"empty-settings", false, false, false},
	{"formula-set,step-default", false, true, false},
	{"formula-default,step-set", false, false, true},
	{"formula-and-step-set", false, true, true},
}

type ptRec struct {
	mu  sync.Mutex
	pts [][]float64
}

func (l *ptRec) add(xs ...[]float64) {
	var p []float64
	for _, x := range xs {
		p = append(p, x...)
	}
	l.mu.Lock()
	l.pts = append(l.pts, p)
	l.mu.Unlock()
}

// fdCall runs one routine and returns the flattened result.
func fdCall(routine string, f tfn, gs []tfn, x []float64, m fdMode, F fdFormula, step float64, conc bool, rec *ptRec) (out []float64, p *vrt.PanicInfo) {
	var st *fd.Settings
	var js *fd.JacobianSettings
	if !m.nilSet {
		st = &fd.Settings{Concurrent: conc}
		js = &fd.JacobianSettings{Concurrent: conc}
		if m.setFormula {
			st.Formula, js.Formula = F.f, F.f
		}
		if m.setStep {
			st.Step, js.Step = step, step
		}
	}
	nv := len(x)
	p = vrt.Try(func() {
		switch routine {
		case "Derivative":
			out = []float64{fd.Derivative(func(v float64) float64 { rec.add([]float64{v}); return f.eval([]float64{v}) }, x[0], st)}
		case "Gradient":
			out = fd.Gradient(nil, func(v []float64) float64 { rec.add(v); return f.eval(v) }, x, st)
		case "Jacobian":
			J := mat.NewDense(len(gs), nv, nil)
			fd.Jacobian(J, func(y, v []float64) {
				rec.add(v)
				for k := range y {
					y[k] = gs[k].eval(v)
				}
			}, x, js)
			out = append(out, J.RawMatrix().Data...)
		case "Hessian":
			var H mat.SymDense
			fd.Hessian(&H, func(v []float64) float64 { rec.add(v); return f.eval(v) }, x, st)
			for i := 0; i < nv; i++ {
				for j := 0; j < nv; j++ {
					out = append(out, H.At(i, j))
				}
			}
		case "Laplacian":
			out = []float64{fd.Laplacian(func(v []float64) float64 { rec.add(v); return f.eval(v) }, x, st)}
		case "CrossLaplacian":
			n := nv / 2
			out = []float64{fd.CrossLaplacian(func(a, b []float64) float64 {
				rec.add(a, b)
				return f.eval(append(append([]float64(nil), a...), b...))
			}, x[:n], x[n:], st)}
		}
	})
	return out, p
}

var fdRoutines = []string{"Derivative", "Gradient", "Jacobian", "Hessian", "Laplacian", "CrossLaplacian"}

func checkFDDefault(c *vrt.Ctx) {
	docs := readFDDocs()
	if docs.err != nil || !docs.stepZeroMeansFormulaDefault {
		c.Inconclusive("fd-default-steps", fmt.Sprintf("the sentence about Settings.Step == 0 was not found in diff/fd/diff.go (err=%v): the default step is not documented", docs.err))
		return
	}
	exported := fdFormulas()[:6]
	byName := map[string]fdFormula{}
	for _, F := range exported {
		byName[F.name] = F
	}
	reps := c.Pick(16, 160)
	type job struct {
		routine string
		F       fdFormula
		rep     int
	}
	var jobs []job
	for _, rt := range fdRoutines {
		for _, F := range exported {
			want := 1
			if rt == "Laplacian" {
				want = 2
			}
			if rt != "Derivative" && F.f.Derivative != want {
				continue
			}
			for rep := 0; rep < reps; rep++ {
				jobs = append(jobs, job{rt, F, rep})
			}
		}
	}
	vrt.Parallel(len(jobs), func(ji int) {
		j := jobs[ji]
		sh := newShard(c)
		fdDefaultCase(c, sh, docs, byName, j.routine, j.F, j.rep)
		sh.flush()
	})
}

func fdDefaultCase(c *vrt.Ctx, sh *evalShard, docs fdDocs, byName map[string]fdFormula, routine string, F fdFormula, rep int) {
	r := c.RNG("fd-default-"+routine+"-"+F.name, rep)
	twofold := routine == "Hessian" || routine == "CrossLaplacian"
	defName := "Forward"
	if routine == "Laplacian" {
		defName = "Central2nd" // not documented: only used to pair equivalent settings
	}
	isDefaultFormula := F.name == defName
	nv := 1 + rep%4
	if routine == "Derivative" {
		nv = 1
	}
	if routine == "CrossLaplacian" {
		nv = 2 * (1 + rep%3)
	}
	x := make([]float64, nv)
	for i := range x {
		x[i] = r.Sym() * 2
	}
	// test function: polynomial of the exactness class, or a smooth one.
	smooth := rep%2 == 1
	mk := func() tfn {
		if smooth {
			return genSinSum(r, nv)
		}
		q := F.exact
		if q > 2 {
			q = 2
		}
		return polyFn{genPoly(r, nv, q, q+1, 0, true)}
	}
	f := mk()
	var gs []tfn
	if routine == "Jacobian" {
		gs = []tfn{f, mk()}
	}
	fnKind := "polynomial"
	if smooth {
		fnKind = "smooth"
	}
	conc := (rep/2)%2 == 1
	concName := "serial"
	if conc {
		concName = "concurrent"
	}
	explicit := r.PickFloat(1e-3, 1.0/1024, 3e-4, 1e-2)

	// the step the documentation names for formula G and mode m.
	docStep := func(G fdFormula, m fdMode) float64 {
		if m.setStep {
			return explicit
		}
		if twofold && docs.sqrtForTwofold[routine] {
			return math.Sqrt(G.f.Step)
		}
		return G.f.Step
	}
	type res struct {
		out  []float64
		mode fdMode
		step float64
	}
	var results []res
	for _, m := range fdModes {
		if !m.setFormula && !isDefaultFormula {
			continue // the default formula is exercised when F is it
		}
		// formula in force
		G := F
		if !m.setFormula {
			if routine != "Laplacian" && !docs.nilMeansForward[routine] {
				continue // default formula not documented
			}
			G = byName[defName]
		}
		h := docStep(G, m)
		rec := &ptRec{}
		replay := map[string]any{"routine": "fd." + routine, "settings": m.name, "formula": G.name, "concurrent": conc, "x": x, "f": f.String(), "documented_step": h}
		c.LastCase(fmt.Sprintf("fd.%s default-step %s %s %s", routine, m.name, G.name, concName))
		out, p := fdCall(routine, f, gs, x, m, F, explicit, conc, rec)
		path := m.name + "," + concName
		if p != nil {
			c.Violation("fd."+routine+"|"+path+"|panic", p.Msg, replay)
			continue
		}
		sh.eval(fmt.Sprintf("%s|%s|%s|%s|%s", routine, G.name, path, fnKind, "default-paths"))
		if rep == 0 && m.name == "formula-set,step-default" && routine == "Hessian" {
			c.Sample(map[string]any{"call": "fd.Hessian(&h, f, x, &fd.Settings{Formula: fd." + G.name + "})", "x": x, "f": f.String(), "got": out, "documented_step": h})
		}
		results = append(results, res{out, m, h})

		// The formula Laplacian uses when none is given is not documented:
		// no stencil is assumed for those modes, and the band of the
		// loosest exported second-derivative formula is granted.
		undocumented := routine == "Laplacian" && !m.setFormula
		// (a) the step actually used, observed from the evaluation points.
		if undocumented {
		} else if bad := observedStepMismatch(rec.pts, x, G, h, twofold, routine == "CrossLaplacian"); bad != "" {
			clause := "step-is-not-the-documented-default"
			if m.setStep {
				clause = "step-is-not-the-requested-one"
			}
			c.Violation("fd."+routine+"|"+path+"|"+clause, fmt.Sprintf("formula %s, documented step %g: %s", G.name, h, bad), replay)
		}
		// (b) accuracy against the analytic derivative.
		want, bt, br := fdReference(routine, G, h, f, gs, x)
		if undocumented {
			for _, G2 := range fdFormulas()[:6] {
				if G2.f.Derivative != 2 {
					continue
				}
				h2 := G2.f.Step
				if m.setStep {
					h2 = explicit
				}
				_, t2, r2 := fdReference(routine, G2, h2, f, gs, x)
				bt[0], br[0] = math.Max(bt[0], t2[0]), math.Max(br[0], r2[0])
			}
		}
		for k := range out {
			band := cFDTrunc*bt[k] + cFDDef*u*br[k]
			where := func() string { return fmt.Sprintf("%s %s %s %s h=%g", routine, G.name, path, fnKind, h) }
			if !within("fd-default/"+routine+"/"+fnKind, math.Abs(out[k]-want[k]), band, where) {
				c.Violation("fd."+routine+"|"+G.name+","+path+"|outside-truncation-and-rounding-band-of-the-documented-step", fmt.Sprintf("component %d: got %.17g, analytic %.17g, band %g (truncation bound %g at the documented step %g) for f = %s at %v", k, out[k], want[k], band, bt[k], h, f, x), replay)
				break
			}
		}
	}
	// (c) settings that the documentation makes equivalent give the same
	// result: nil = empty = {Formula: default} (step default);
	// {Step: s} = {Formula: default, Step: s}. Bitwise in the serial paths
	// (same operations), within the rounding band in the concurrent ones.
	for a := 0; a < len(results); a++ {
		for b := a + 1; b < len(results); b++ {
			ra, rb := results[a], results[b]
			if ra.mode.setStep != rb.mode.setStep || !isDefaultFormula {
				continue
			}
			for k := range ra.out {
				d := math.Abs(ra.out[k] - rb.out[k])
				bad := d != 0
				if conc {
					_, _, br := fdReference(routine, byName[defName], ra.step, f, gs, x)
					bad = !within("fd-default-equivalence", d, 2*cFDDef*u*br[k], nil)
				}
				if bad {
					c.Violation("fd."+routine+"|"+concName+"|"+ra.mode.name+"-differs-from-"+rb.mode.name, fmt.Sprintf("component %d: %.17g vs %.17g for f = %s at %v", k, ra.out[k], rb.out[k], f, x), map[string]any{"x": x, "f": f.String()})
					break
				}
			}
		}
	}
	// (d) consistency between entry points at default steps.
	if routine == "Hessian" && !conc {
		fdDefaultCross(c, sh, docs, F, f, x, fnKind)
	}
}

// fdReference returns the analytic value and the two band parts for every
// output component.
func fdReference(routine string, G fdFormula, h float64, f tfn, gs []tfn, x []float64) (want, bt, br []float64) {
	nv := len(x)
	add := func(w, t, r float64) { want, bt, br = append(want, w), append(bt, t), append(br, r) }
	switch routine {
	case "Derivative":
		t, r := fdBand(G, h, f, x, false, 1)
		if G.f.Derivative == 1 {
			add(f.d1(0, x), t, r)
		} else {
			add(f.d2(0, 0, x), t, r)
		}
	case "Gradient":
		t, r := fdBand(G, h, f, x, false, 1)
		for i := 0; i < nv; i++ {
			add(f.d1(i, x), t, r)
		}
	case "Jacobian":
		for _, g := range gs {
			t, r := fdBand(G, h, g, x, false, 1)
			for i := 0; i < nv; i++ {
				add(g.d1(i, x), t, r)
			}
		}
	case "Hessian":
		t, r := fdBand(G, h, f, x, true, 1)
		for i := 0; i < nv; i++ {
			for j := 0; j < nv; j++ {
				add(f.d2(i, j, x), t, r)
			}
		}
	case "Laplacian":
		t, r := fdBand(G, h, f, x, false, nv)
		w := 0.0
		for i := 0; i < nv; i++ {
			w += f.d2(i, i, x)
		}
		add(w, t, r)
	case "CrossLaplacian":
		n := nv / 2
		t, r := fdBand(G, h, f, x, true, n)
		w := 0.0
		for i := 0; i < n; i++ {
			w += f.d2(i, n+i, x)
		}
		add(w, t, r)
	}
	return
}

// observedStepMismatch checks that every evaluation point other than the
// origin is displaced by (a sum of at most two) stencil locations times the
// documented step, in at most two coordinates.
func observedStepMismatch(pts [][]float64, x []float64, G fdFormula, h float64, twofold, cross bool) string {
	locs := map[float64]bool{}
	for _, p := range G.f.Stencil {
		if p.Loc != 0 {
			locs[math.Abs(p.Loc)] = true
		}
	}
	if twofold {
		for _, p := range G.f.Stencil {
			for _, q := range G.f.Stencil {
				if s := math.Abs(p.Loc + q.Loc); s != 0 {
					locs[s] = true
				}
			}
		}
	}
	for _, y := range pts {
		if len(y) != len(x) {
			return "evaluation point of the wrong dimension"
		}
		nz := 0
		for k := range x {
			d := math.Abs(y[k] - x[k])
			if d <= 8*u*math.Abs(x[k]) {
				continue // x + l h - l h: back at the origin up to rounding
			}
			nz++
			ok := false
			for l := range locs {
				if math.Abs(d/h-l) <= fdStepTol*l+4*u*math.Abs(x[k])/h {
					ok = true
				}
			}
			if !ok {
				return fmt.Sprintf("f was evaluated at a point displaced by %g in coordinate %d = %g steps (stencil locations x step expected)", y[k]-x[k], k, d/h)
			}
		}
		if nz > 2 || (nz > 1 && !twofold) {
			return "evaluation point displaced in too many coordinates"
		}
	}
	return ""
}

// fdDefaultCross: relations between the entry points when every step is the
// documented default: Hessian{Formula: F} = Jacobian{Formula: F} of the
// analytic gradient, trace Hessian{Formula: F} = Laplacian(nil settings),
// and CrossLaplacian{Formula: F} = trace of the off-diagonal block of
// Hessian{Formula: F} (same stencil points: equal up to rounding).
func fdDefaultCross(c *vrt.Ctx, sh *evalShard, docs fdDocs, F fdFormula, f tfn, x []float64, fnKind string) {
	nv := len(x)
	hH := F.f.Step
	if docs.sqrtForTwofold["Hessian"] {
		hH = math.Sqrt(F.f.Step)
	}
	var H mat.SymDense
	replay := map[string]any{"formula": F.name, "x": x, "f": f.String()}
	if p := vrt.Try(func() { fd.Hessian(&H, f.eval, x, &fd.Settings{Formula: F.f}) }); p != nil {
		return // reported by the caller's mode loop
	}
	tH, rH := fdBand(F, hH, f, x, true, 1)
	bH := cFDTrunc*tH + cFDDef*u*rH
	// Jacobian of the analytic gradient, default step of F.
	grads := make([]tfn, nv)
	for i := range grads {
		grads[i] = partialFn{f, i}
	}
	J := mat.NewDense(nv, nv, nil)
	if p := vrt.Try(func() {
		fd.Jacobian(J, func(y, v []float64) {
			for k := range y {
				y[k] = f.d1(k, v)
			}
		}, x, &fd.JacobianSettings{Formula: F.f})
	}); p != nil {
		c.Violation("fd.Jacobian|formula-set,step-default,serial|panic", p.Msg, replay)
		return
	}
	sh.eval("Jacobian(of gradient)|" + F.name + "|default-steps|" + fnKind)
	for i := 0; i < nv; i++ {
		tJ, rJ := fdBand(F, F.f.Step, grads[i], x, false, 1)
		bJ := cFDTrunc*tJ + cFDDef*u*rJ
		for j := 0; j < nv; j++ {
			if !within("fd-default-Hessian-vs-Jacobian/"+fnKind, math.Abs(H.At(i, j)-J.At(i, j)), bH+bJ, func() string { return F.name + " " + fnKind }) {
				c.Violation("fd.Hessian|formula-set,step-default,serial|differs-from-Jacobian-of-gradient-at-default-steps", fmt.Sprintf("H[%d][%d] = %.17g, Jacobian of the analytic gradient = %.17g (band %g) for f = %s at %v", i, j, H.At(i, j), J.At(i, j), bH+bJ, f, x), replay)
				return
			}
		}
	}
	// Laplacian with nil settings vs trace.
	var lap float64
	if p := vrt.Try(func() { lap = fd.Laplacian(f.eval, x, nil) }); p == nil {
		sh.eval("Laplacian(nil) vs trace Hessian|" + F.name + "|default-steps|" + fnKind)
		// the nil formula of Laplacian is not documented: the band of the
		// loosest exported second-derivative formula is granted.
		bL := 0.0
		for _, G := range fdFormulas()[:6] {
			if G.f.Derivative == 2 {
				t, r := fdBand(G, G.f.Step, f, x, false, nv)
				bL = math.Max(bL, cFDTrunc*t+cFDDef*u*r)
			}
		}
		tr := 0.0
		for i := 0; i < nv; i++ {
			tr += H.At(i, i)
		}
		if !within("fd-default-Laplacian-vs-trace/"+fnKind, math.Abs(lap-tr), float64(nv)*bH+bL, func() string { return F.name + " " + fnKind }) {
			c.Violation("fd.Hessian|formula-set,step-default,serial|trace-differs-from-Laplacian-at-default-steps", fmt.Sprintf("trace Hessian{Formula: %s} = %.17g, Laplacian(nil) = %.17g (band %g) for f = %s at %v", F.name, tr, lap, float64(nv)*bH+bL, f, x), replay)
		}
	}
	// CrossLaplacian vs the off-diagonal block (even dimension).
	if nv%2 == 0 && docs.sqrtForTwofold["Hessian"] == docs.sqrtForTwofold["CrossLaplacian"] {
		n := nv / 2
		var cl float64
		if p := vrt.Try(func() {
			cl = fd.CrossLaplacian(func(a, b []float64) float64 { return f.eval(append(append([]float64(nil), a...), b...)) }, x[:n], x[n:], &fd.Settings{Formula: F.f})
		}); p == nil {
			sh.eval("CrossLaplacian vs Hessian block|" + F.name + "|default-steps|" + fnKind)
			tr := 0.0
			for i := 0; i < n; i++ {
				tr += H.At(i, n+i)
			}
			if !within("fd-default-CrossLaplacian-vs-Hessian", math.Abs(cl-tr), 2*float64(n)*cFDDef*u*rH, func() string { return F.name + " " + fnKind }) {
				c.Violation("fd.CrossLaplacian|formula-set,step-default,serial|differs-from-Hessian-block-trace-at-default-steps", fmt.Sprintf("CrossLaplacian{Formula: %s} = %.17g, sum_i H[i][n+i] = %.17g for f = %s at %v", F.name, cl, tr, f, x), replay)
			}
		}
	}
}

// partialFn is the i-th partial derivative of a test function, as a test
// function (used for the Jacobian-of-gradient band).
type partialFn struct {
	f tfn
	i int
}

func (p partialFn) nv() int                       { return p.f.nv() }
func (p partialFn) eval(x []float64) float64      { return p.f.d1(p.i, x) }
func (p partialFn) d1(j int, x []float64) float64 { return p.f.d2(p.i, j, x) }
func (p partialFn) d2(j, k int, x []float64) float64 {
	return math.NaN() // not needed
}
func (p partialFn) epsF(x []float64, pad float64) float64 {
	// the derivative of a polynomial / sine sum is evaluated with the same
	// number of operations on terms bounded by M_1-scaled quantities.
	if pf, ok := p.f.(polyFn); ok {
		return polyFn{pf.p.diff(p.i)}.epsF(x, pad)
	}
	s := p.f.(sinSum)
	ds := sinSum{n: s.n, W: s.W, Phi: s.Phi}
	for j := range s.A {
		ds.A = append(ds.A, s.A[j]*s.W[j][p.i])
	}
	return ds.epsF(x, pad)
}
func (p partialFn) M(m int, x []float64, pad float64) float64 {
	if pf, ok := p.f.(polyFn); ok {
		return polyFn{pf.p.diff(p.i)}.M(m, x, pad)
	}
	return p.f.M(m+1, x, pad)
}
func (p partialFn) maxExp() int {
	if pf, ok := p.f.(polyFn); ok {
		return polyFn{pf.p.diff(p.i)}.maxExp()
	}
	return -1
}
func (p partialFn) String() string { return fmt.Sprintf("d/dx%d of %s", p.i, p.f) }
