#!/bin/bash
# Calibration helper. Needs a scratch gonum tree with the candidate fixes:
#   git -C /repo worktree add /tmp/c18-wtfix HEAD
#   (cd /tmp/c18-wtfix && git apply /verif/harness/c18/candidate-fixes.diff /verif/harness/c18/candidate-fix-hermite-data.diff)
#   sed 's#=> /repo#=> /tmp/c18-wtfix#' /verif/harness/go.mod > /tmp/c18-fix.mod; cp /verif/harness/go.sum /tmp/c18-fix.sum
# then: calib.sh quick "" 1 2 3 7 42 > q.txt; calib.sh thorough "" 1 2 3 7 42 > t.txt; gencalib.py rewrites calib.go.
# Remove the worktree afterwards (git -C /repo worktree remove --force /tmp/c18-wtfix).
# usage: c18-calib.sh <tier> <sub> seeds...
export VERIF_REPO=/tmp/c18-wtfix
export GOFLAGS=-mod=mod GOPROXY=off GOSUMDB=off GOTOOLCHAIN=local
cd /verif/harness/c18 || exit 1
go build -modfile=/tmp/c18-fix.mod -tags verif -o /tmp/c18-binfix . || exit 1
tier=$1; sub=$2; shift 2
for s in "$@"; do
  /tmp/c18-binfix -calib -tier $tier -seed $s -sub "$sub" > /tmp/c18-out-$s.json || echo FAIL seed $s
done
python3 - "$@" <<'PY'
import json,sys,re
worst={}
seen=set()
for s in sys.argv[1:]:
    r=json.load(open('/tmp/c18-out-%s.json'%s))
    print('seed',s,'evals',r['evaluations'],'distinct',r['distinct_nontrivial'],'wall',round(r['wall_s'],1))
    for v in r['violations'] or []:
        if v['sig'] not in seen: print('  VIOL',v['sig'],v['count'],v['detail'][:160])
        seen.add(v['sig'])
    for k,v in r['notes'].get('worst_error_fraction_of_band',{}).items():
        f=float(v.split()[0])
        if k not in worst or f>worst[k][0]: worst[k]=(f,v)
for k in sorted(worst): print('%-45s %s'%(k,worst[k][1]))
PY
