#!/usr/bin/env python3
# Mutation self-test. FIX = scratch gonum tree with the candidate fixes applied (see calib.sh),
# MUT = a plain copy of it (rsync -a --exclude .git FIX/ MUT/); /tmp/c18-known-onfix.json lists the
# signatures that fire on FIX (the five dualquat general-dual-part ones).
import subprocess, shutil, sys, re, os, json
FIX='/tmp/c18-wtfix'; MUT='/tmp/c18-wtmut'
muts=[
 ("M1 Legendre: one tabulated weight digit (oddWeights, 12th digit)", 'integrate/quad/legendre.go', None, None),  # handled specially
 ("M2 Legendre: one tabulated theta digit (evenThetaZeros, 11th digit)", 'integrate/quad/legendre.go', None, None),
 ("M3 Legendre asymptotic: mirror index off by one", 'integrate/quad/legendre.go', "theta, weight := l.computed(n, n-k)\n", "theta, weight := l.computed(n, n-k-1)\n"),
 ("M4 Simpsons: last-panel weight for even counts", 'integrate/simpsons.go', "a1 := (h1p2 + 3*h0*h1) / (6 * h0)\n\t\ta2 := (2*h1p2", "a1 := (h1p2 + 3*h0*h1) / (6 * h1)\n\t\ta2 := (2*h1p2"),
 ("M5 fd.CrossLaplacian concurrent: y displaced with the x stencil location", 'diff/fd/crosslaplacian.go', "yCopy[r.i] += stencil[r.yIdx].Loc * step", "yCopy[r.i] += stencil[r.xIdx].Loc * step"),
 ("M6 ClampedCubic: sign of the right boundary row", 'interp/cubic.go', "a.SetBand(m, m-1, -dxR/6)", "a.SetBand(m, m-1, dxR/6)"),
 ("M7 FritschButland: edge limiter 3 -> 4", 'interp/cubic.go', "if dE*dI <= 0 && math.Abs(g) > 3*math.Abs(dE) {\n\t\treturn 3 * dE", "if dE*dI <= 0 && math.Abs(g) > 4*math.Abs(dE) {\n\t\treturn 4 * dE"),
 ("M8 hyperdual.Mul: cross term uses E1*E2 twice", 'num/hyperdual/hyperdual.go', "x.E1mag*y.E2mag + x.E2mag*y.E1mag", "x.E1mag*y.E2mag + x.E1mag*y.E2mag"),
 ("M9 dualquat.Mul: dual part assumes commutativity", 'num/dualquat/dual.go', "quat.Mul(x.Dual, y.Real)", "quat.Mul(y.Real, x.Dual)"),
 ("M10 PiecewiseConstant: right- instead of left-continuous", 'interp/interp.go', "\treturn pc.ys[i+1]\n", "\treturn pc.ys[i]\n"),
 ("M11 AkimaSpline: end slope extrapolation coefficient", 'interp/cubic.go', "slopes[0] = 3*slopes[2] - 2*slopes[3]", "slopes[0] = 3*slopes[2] - 3*slopes[3]"),
 ("M12 NotAKnotCubic: last not-a-knot row uses the outer spacing twice", 'interp/cubic.go', "a.SetBand(m, m-2, 1/dxInner)", "a.SetBand(m, m-2, 1/dxOuter)"),
 ("M13 Romberg: Richardson factor 4^j -> 4^(j-1) in the denominator", 'integrate/romberg.go', "(factor*curr[j-1] - prev[j-1]) / (factor - 1)", "(factor*curr[j-1] - prev[j-1]) / (factor - 1 + 1e-9)"),
 ("M14 fd.Gradient concurrent: origin value not used (zero-location point skipped)", 'diff/fd/gradient.go', "\t\t\t\t\t\tresult: originValue,\n", "\t\t\t\t\t\tresult: 0,\n"),
 ("M15 quad.Fixed: semi-infinite (left) Jacobian 1/x^2 -> 1/x", 'integrate/quad/quad.go', "return f(a-(1-x)/x) / (x * x)", "return f(a-(1-x)/x) / x"),
 ("M16 Hermite: one tabulated node digit (row 30, 12th digit)", 'integrate/quad/hermite_data.go', None, None),
 ("M17 dual.Atanh: derivative 1/(1-x^2) -> 1/(1+x^2)", 'num/dual/dual_hyperbolic.go', "deriv := 1 / (1 - d.Real*d.Real)", "deriv := 1 / (1 + d.Real*d.Real)"),
 ("M18 quat.Cos: sign of the vector part", 'num/quat/trig.go', "return join(c*ch, Scale(-s*sh/v, uv))", "return join(c*ch, Scale(s*sh/v, uv))"),
]
def special(name, path):
    s=open(path).read()
    if name.startswith('M1 '):
        i=s.index('var oddWeights')
        rows=[m.start() for m in re.finditer(r'\n\t\{', s[i:])]
        r=i+rows[24]  # n2-1 = 24 -> n = 51
        seg=s[r:r+400]
        nums=re.findall(r'0\.\d+e?-?\d*', seg)
        old=nums[3]
        k=13
        d=old[k]; nd=str((int(d)+1)%10)
        new=old[:k]+nd+old[k+1:]
        return s[:r]+seg.replace(old,new,1)+s[r+400:], f'{old} -> {new} (row n=51)'
    if name.startswith('M2 '):
        i=s.index('var evenThetaZeros')
        rows=[m.start() for m in re.finditer(r'\n\t\{', s[i:])]
        r=i+rows[19]  # n = 40
        seg=s[r:r+400]
        nums=re.findall(r'0\.\d+e?[-+]?\d*', seg)
        old=nums[5]
        k=12
        d=old[k]; nd=str((int(d)+1)%10)
        new=old[:k]+nd+old[k+1:]
        return s[:r]+seg.replace(old,new,1)+s[r+400:], f'{old} -> {new} (row n=40)'
    if name.startswith('M16 '):
        i=s.index('var xCacheHermite')
        rows=[m.start() for m in re.finditer(r'\n\t\{', s[i:])]
        r=i+rows[29]  # n = 30
        seg=s[r:r+600]
        nums=re.findall(r'-?\d\.\d+e[-+]\d+', seg)
        old=nums[20]  # a positive inner node
        k=13
        d=old[k]; nd=str((int(d)+1)%10)
        new=old[:k]+nd+old[k+1:]
        return s[:r]+seg.replace(old,new,1)+s[r+600:], f'{old} -> {new} (row n=30, node only on one side)'
tier=sys.argv[1] if len(sys.argv)>1 else 'quick'
only=sys.argv[2:] 
known=set(json.load(open('/tmp/c18-known-onfix.json'))) if os.path.exists('/tmp/c18-known-onfix.json') else set()
for name,f,old,new in muts:
    tag=name.split()[0]
    if only and tag not in only: continue
    shutil.copy(os.path.join(FIX,f), os.path.join(MUT,f))
    p=os.path.join(MUT,f)
    if old is None:
        s,desc=special(name,p)
    else:
        s=open(p).read(); assert s.count(old)==1,(name,s.count(old)); s=s.replace(old,new); desc=''
    open(p,'w').write(s)
    env=dict(os.environ, VERIF_REPO=MUT)
    out=subprocess.run(['/verif/bin/vctl','run','C18','--tier',tier],capture_output=True,text=True,env=env).stdout
    sigs=[]
    for m in re.finditer(r'witness \[(\w+)\] (.*?): ', out):
        sg=m.group(2)
        if sg not in known and sg not in sigs: sigs.append(sg)
    crash=[l for l in out.splitlines() if 'crash|' in l or 'HARNESS' in l or 'INCONCLUSIVE' in l or 'BUILD-FAILED' in l]
    print(f'{name} {desc}\n   tier={tier} new signatures: {len(sigs)}: {sigs[:4]} {crash[:2]}')
    shutil.copy(os.path.join(FIX,f), os.path.join(MUT,f))
