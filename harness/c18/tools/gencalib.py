import re, math
worst={}
for f in ['/tmp/c18-calib-quick.txt','/tmp/c18-calib-thorough.txt']:
    for ln in open(f):
        m=re.match(r'(\S+)\s+([0-9.e+\-]+|\+Inf) of band at (.*)',ln)
        if not m: continue
        v=float(m.group(2).replace('+Inf','inf'))
        if m.group(1) not in worst or v>worst[m.group(1)][0]: worst[m.group(1)]=(v,m.group(3).strip())
def nice(x):
    e=math.floor(math.log10(x)); m=x/10**e
    for c in (1,2,5,10):
        if m<=c+1e-12: return c*10**e
skip=lambda k: 'general-dual-part' in k or k.startswith('fixed-infinite')
out=['// Code generated from the calibration runs (tree with the candidate fixes,',
'// seeds 1,2,3,7,42, both tiers); edit by re-running the calibration.','','package main','',
'// bandScale multiplies the base constant of a band so that the worst error',
'// observed in calibration is at most 1% of the band (>= 100x margin). The',
'// comment gives the worst observed fraction of the UNSCALED band.',
'var bandScale = map[string]float64{']
for k in sorted(worst):
    v,at=worst[k]
    if skip(k) or v==0 or math.isinf(v): continue
    sc=nice(v/0.008)
    sc=max(sc,0.1)
    if sc==1: continue
    out.append('\t%-58s %g, // worst %.3g at %s'%('"'+k+'":',sc,v,at[:60]))
out.append('}')
open('/verif/harness/c18/calib.go','w').write('\n'.join(out)+'\n')
print(len(out))
