package main

import (
	"fmt"
	"math"

	"gonum.org/v1/gonum/diff/fd"
	"gonum.org/v1/gonum/integrate/quad"
	"gonum.org/v1/gonum/interp"
	"gonum.org/v1/gonum/mat"
	"gonum.org/v1/gonum/num/dualquat"
	"gonum.org/v1/gonum/num/hyperdual"
	"gonum.org/v1/gonum/num/quat"
)

func main() {
	// 1. Legendre n = 26
	fmt.Println("1:", quad.Fixed(func(float64) float64 { return 1 }, -1, 1, 26, nil, 0)) // 1.97889..., want 2
	// 2. Hermite n = 21: x^40 under exp(-x^2): Gamma(20.5)
	g, _ := math.Lgamma(20.5)
	got := quad.Fixed(func(x float64) float64 { return math.Pow(x, 40) }, math.Inf(-1), math.Inf(1), 21, quad.Hermite{}, 0)
	got20 := quad.Fixed(func(x float64) float64 { return math.Pow(x, 38) }, math.Inf(-1), math.Inf(1), 20, quad.Hermite{}, 0)
	g20, _ := math.Lgamma(19.5)
	fmt.Printf("2: n=21 rel.err %.2g, n=20 rel.err %.2g\n", got/math.Exp(g)-1, got20/math.Exp(g20)-1)
	// 3. fd: Hessian, Concurrent + OriginKnown evaluates the origin
	calls := 0
	f := func(x []float64) float64 {
		if x[0] == 1 && x[1] == 2 {
			calls++
		}
		return x[0]*x[0] + x[0]*x[1]
	}
	var H mat.SymDense
	fd.Hessian(&H, f, []float64{1, 2}, &fd.Settings{Formula: fd.Forward, Step: 0.5, OriginKnown: true, OriginValue: 3, Concurrent: true})
	fmt.Println("3: origin evaluations with OriginKnown:", calls) // 1, want 0 (serial path: 0)
	// 4. hyperdual: d2/dxdy sin(x*y) at x = 0, y = 3 is cos(0) = 1
	x := hyperdual.Number{Real: 0, E1mag: 1}
	y := hyperdual.Number{Real: 3, E2mag: 1}
	fmt.Println("4:", hyperdual.Sin(hyperdual.Mul(x, y)).E1E2mag)                    // -0, want 1
	fmt.Println("5:", hyperdual.Sinh(hyperdual.Number{Real: 0, E1mag: 2, E2mag: 5})) // E2mag 2, want 5
	// 6. dualquat.Inv of a rigid motion (rotation by pi/2 about k, translation (1,0,0))
	r := quat.Number{Real: math.Sqrt2 / 2, Kmag: math.Sqrt2 / 2}
	t := quat.Number{Imag: 1}
	s := dualquat.Number{Real: r, Dual: quat.Scale(0.5, quat.Mul(t, r))}
	fmt.Println("6:", dualquat.Mul(s, dualquat.Inv(s)))                            // dual part (0 -0.7071i +0.7071j), want 1
	fmt.Println("7:", dualquat.Abs(s))                                             // (1+0.5ϵ), norm of a unit dual quaternion is 1+0ϵ
	fmt.Println("8:", dualquat.Mul(dualquat.Sqrt(s), dualquat.Sqrt(s)), "want", s) // differs in the dual part
	// 9. NotAKnot with three knots
	var nak interp.NotAKnotCubic
	fmt.Println("9:", nak.Fit([]float64{0, 1, 3}, []float64{0, 1, 9}))
}
