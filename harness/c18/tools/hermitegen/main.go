// gen rewrites the defective entries of integrate/quad/hermite_data.go:
// the outermost weights of the odd rows n = 21..199 and all of row n = 200.
package main

import (
	"fmt"
	"math/big"
	"os"
	"strconv"
	"strings"
)

const prec = 400

func bf(v float64) *big.Float { return new(big.Float).SetPrec(prec).SetFloat64(v) }
func nb() *big.Float          { return new(big.Float).SetPrec(prec) }

var pi, _ = new(big.Float).SetPrec(prec).SetString("3.14159265358979323846264338327950288419716939937510582097494459230781640628620899862803482534211706798")

func herm(n int, x *big.Float) (pn, pn1 *big.Float) {
	hm, h := bf(0), bf(1)
	for j := 0; j < n; j++ {
		a := nb().Sqrt(nb().Quo(bf(2), bf(float64(j+1))))
		b := nb().Sqrt(nb().Quo(bf(float64(j)), bf(float64(j+1))))
		t := nb().Mul(x, a)
		t.Mul(t, h)
		t.Sub(t, nb().Mul(b, hm))
		hm, h = h, t
	}
	return h, hm
}

// refine returns the exact node next to x0 and its weight.
func refine(n int, x0 float64) (x, w float64) {
	xb := bf(x0)
	for it := 0; it < 8; it++ {
		pn, pn1 := herm(n, xb)
		d := nb().Sqrt(bf(2 * float64(n)))
		d.Mul(d, pn1)
		xb.Sub(xb, pn.Quo(pn, d))
	}
	_, pn1 := herm(n, xb)
	p2 := nb().Mul(pn1, pn1)
	p2.Mul(p2, bf(float64(n)))
	wb := nb().Quo(nb().Sqrt(pi), p2)
	x, _ = xb.Float64()
	w, _ = wb.Float64()
	return
}

func parseRow(line string) []float64 {
	s := strings.TrimSpace(line)
	s = strings.TrimSuffix(strings.TrimPrefix(s, "{"), "},")
	parts := strings.Split(s, ", ")
	out := make([]float64, len(parts))
	for i, p := range parts {
		v, err := strconv.ParseFloat(p, 64)
		if err != nil {
			panic(err)
		}
		out[i] = v
	}
	return out
}

func fmtRow(v []float64) string {
	parts := make([]string, len(v))
	for i, x := range v {
		parts[i] = fmt.Sprintf("%.16e", x)
	}
	return "\t{" + strings.Join(parts, ", ") + "},"
}

func main() {
	path := os.Args[1]
	b, err := os.ReadFile(path)
	if err != nil {
		panic(err)
	}
	lines := strings.Split(string(b), "\n")
	section := ""
	row := 0
	xrows := map[int]int{}
	wrows := map[int]int{}
	for i, ln := range lines {
		switch {
		case strings.HasPrefix(ln, "var xCacheHermite"):
			section, row = "x", 0
		case strings.HasPrefix(ln, "var wCacheHermite"):
			section, row = "w", 0
		case strings.HasPrefix(ln, "\t{"):
			row++
			if section == "x" {
				xrows[row] = i
			} else if section == "w" {
				wrows[row] = i
			}
		}
	}
	changed := 0
	for n := 21; n <= 199; n += 2 {
		xs := parseRow(lines[xrows[n]])
		ws := parseRow(lines[wrows[n]])
		if len(xs) != n || len(ws) != n {
			panic(fmt.Sprint("row length ", n, len(xs), len(ws)))
		}
		_, w := refine(n, xs[n-1])
		fmt.Printf("n=%d outermost weight %.16e -> %.16e\n", n, ws[n-1], w)
		ws[0], ws[n-1] = w, w
		lines[wrows[n]] = fmtRow(ws)
		changed++
	}
	{
		n := 200
		xs := parseRow(lines[xrows[n]])
		ws := parseRow(lines[wrows[n]])
		for i := n / 2; i < n; i++ {
			x, w := refine(n, xs[i])
			xs[i], ws[i] = x, w
			xs[n-1-i], ws[n-1-i] = -x, w
		}
		lines[xrows[n]] = fmtRow(xs)
		lines[wrows[n]] = fmtRow(ws)
		changed++
	}
	if err := os.WriteFile(path, []byte(strings.Join(lines, "\n")), 0o644); err != nil {
		panic(err)
	}
	fmt.Println("rows rewritten:", changed)
}
