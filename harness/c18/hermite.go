package main

import (
	"fmt"
	"math"

	"gonum.org/v1/gonum/integrate/quad"
	"gonum.org/v1/gonum/verifx/vrt"
)

const (
	// |sum w - sqrt(pi)| <= cHermSum u sqrt(pi).
	cHermSum = 400 // base constant; calibrated factor and measured worst ratio: calib.go
	// |sum w_i (x_i/s)^k - Gamma((k+1)/2)/s^k| <= c u sum w_i |x_i/s|^k (k+2+2x_i^2)  (even k; 0 for odd k).
	cHermMomTab = 400    // base constant; calibrated factor and measured worst ratio: calib.go
	cHermMomAsy = 200000 // base constant; calibrated factor and measured worst ratio: calib.go
	// |H_n(x_i)| scaled: orthonormal Hermite function recurrence, see hermiteRoot.
	cHermRootTab = 1600  // base constant; calibrated factor and measured worst ratio: calib.go
	cHermRootAsy = 40000 // base constant; calibrated factor and measured worst ratio: calib.go
)

func hermiteBranch(n int) string {
	if n <= 200 {
		return fmt.Sprintf("row n=%d", n)
	}
	return "asymptotic"
}

func checkHermite(c *vrt.Ctx) {
	var ns []int
	for n := 1; n <= 300; n++ {
		ns = append(ns, n)
	}
	if c.Thorough() {
		for n := 301; n <= 340; n++ {
			ns = append(ns, n)
		}
	}
	vrt.Parallel(len(ns), func(i int) {
		sh := newShard(c)
		hermiteOne(c, sh, ns[len(ns)-1-i])
		sh.flush()
	})
	hermiteDomain(c)
}

func hermiteOne(c *vrt.Ctx, sh *evalShard, n int) {
	br := hermiteBranch(n)
	asy := n > 200
	sig := func(clause string) string { return "quad.Hermite|" + br + "|" + clause }
	cls := "tabulated"
	if asy {
		cls = "asymptotic"
	}
	// bookkeeping class of the calibration record: the odd rows 21..199 and
	// row 200 carry a known data defect (see the findings), so their ratios
	// are recorded separately from the regular rows.
	bcls := cls
	if n == 200 || (n <= 200 && n >= 21 && n%2 == 1) {
		bcls = "tabulated-known-defective-rows"
	}
	x := make([]float64, n)
	w := make([]float64, n)
	replay := map[string]any{"n": n}
	where := func() string { return fmt.Sprintf("n=%d", n) }
	c.LastCase(fmt.Sprintf("Hermite.FixedLocations n=%d", n))
	if p := vrt.Try(func() { quad.Hermite{}.FixedLocations(x, w, math.Inf(-1), math.Inf(1)) }); p != nil {
		c.Violation(sig("panic"), fmt.Sprintf("n=%d: %s", n, p.Msg), replay)
		return
	}
	par := "odd"
	if n%2 == 0 {
		par = "even"
	}
	sh.eval("Hermite.FixedLocations|" + cls + "|" + par)
	if n == 6 {
		c.Sample(map[string]any{"call": "quad.Hermite{}.FixedLocations(x,w,-Inf,+Inf)", "n": n, "x": x, "w": w})
	}
	for i := range w {
		if math.IsNaN(x[i]) || math.IsInf(x[i], 0) || math.IsNaN(w[i]) || math.IsInf(w[i], 0) {
			c.Violation(sig("non-finite"), fmt.Sprintf("n=%d: x[%d]=%g w[%d]=%g", n, i, x[i], i, w[i]), replay)
			return
		}
	}
	for i := range w {
		if !(w[i] > 0) {
			c.Violation(sig("weight-not-positive"), fmt.Sprintf("n=%d: w[%d]=%g", n, i, w[i]), replay)
			break
		}
	}
	dir := 0.0
	if n > 1 {
		dir = x[n-1] - x[0]
	}
	for i := 0; i+1 < n; i++ {
		if d := x[i+1] - x[i]; d*dir <= 0 {
			c.Violation(sig("nodes-not-monotone"), fmt.Sprintf("n=%d: x[%d]=%.17g x[%d]=%.17g", n, i, x[i], i+1, x[i+1]), replay)
			break
		}
	}
	for i := 0; i <= n-1-i; i++ {
		j := n - 1 - i
		if i == j {
			// middle node of an odd rule: 0 up to an absolute error that is
			// negligible against the node spacing (~ pi/sqrt(2n)).
			if !within("hermite-middle-node/"+cls, math.Abs(x[i]), crOf(asy)*u, where) {
				c.Violation(sig("nodes-not-symmetric"), fmt.Sprintf("n=%d: middle node x[%d]=%.17g, want 0", n, i, x[i]), replay)
			}
			break
		}
		if !within("hermite-symmetry", math.Abs(x[i]+x[j]), 4*u*math.Abs(x[i]), where) {
			c.Violation(sig("nodes-not-symmetric"), fmt.Sprintf("n=%d: x[%d]=%.17g x[%d]=%.17g", n, i, x[i], j, x[j]), replay)
			break
		}
		if !within("hermite-weight-symmetry", math.Abs(w[i]-w[j]), 8*u*w[i], where) {
			c.Violation(sig("weights-not-symmetric"), fmt.Sprintf("n=%d: w[%d]=%.17g w[%d]=%.17g", n, i, w[i], j, w[j]), replay)
			break
		}
	}
	var ks vrt.KSum
	for _, v := range w {
		ks.Add(v)
	}
	if !within("hermite-weight-sum/"+cls, math.Abs(ks.Sum()-math.SqrtPi), cHermSum*u*math.SqrtPi, where) {
		c.Violation(sig("weight-sum"), fmt.Sprintf("n=%d: sum w = %.17g, want sqrt(pi) = %.17g", n, ks.Sum(), math.SqrtPi), replay)
	}

	// Moments of the scaled monomials (x/s)^k, k <= 2n-1, with s = max|x|
	// (s = 1 for n = 1): sum w_i (x_i/s)^k = Gamma((k+1)/2)/s^k for even k
	// and 0 for odd k. The reference is built by the two-term recurrence
	// M_{k+2} = M_k (k+1)/(2 s^2), M_0 = sqrt(pi).
	s := math.Max(math.Abs(x[0]), math.Abs(x[n-1]))
	if s == 0 {
		s = 1
	}
	cm := float64(cHermMomTab)
	if asy {
		cm = cHermMomAsy
	}
	pw := make([]float64, n)
	for i := range pw {
		pw[i] = 1
	}
	mk := math.SqrtPi
	for k := 0; k < 2*n; k++ {
		var sum vrt.KSum
		var abs float64
		for i, xi := range x {
			if k > 0 {
				pw[i] *= xi / s
			}
			sum.Add(w[i] * pw[i])
			// a relative node error d changes x^k by k d and the matching
			// Christoffel number by 2 x^2 d.
			abs += w[i] * math.Abs(pw[i]) * (float64(k+2) + 2*xi*xi)
		}
		want := 0.0
		if k%2 == 0 {
			want = mk
			mk *= float64(k+1) / (2 * s * s)
		}
		band := cm * u * math.Max(abs, float64(k+2)*want)
		if !within("hermite-moment/"+bcls, math.Abs(sum.Sum()-want), band, where) {
			c.Violation(sig("monomial-not-exact"), fmt.Sprintf("n=%d: sum w_i (x_i/%g)^%d = %.17g, want %.17g (band %g)", n, s, k, sum.Sum(), want, band), replay)
			break
		}
	}
	hermiteRoot(c, sig, replay, where, n, x, w, asy, bcls)
}

// hermiteRoot checks that every node is a root of the orthonormal Hermite
// polynomial p_n (p_0 = pi^(-1/4), p_{j+1} = x sqrt(2/(j+1)) p_j -
// sqrt(j/(j+1)) p_{j-1}) and that the weight is the Christoffel number
// w_i = 1/(n p_{n-1}(x_i)^2).
func hermiteRoot(c *vrt.Ctx, sig func(string) string, replay any, where func() string, n int, x, w []float64, asy bool, cls string) {
	cr := crOf(asy)
	fn := float64(n)
	for i, xi := range x {
		// rescaled recurrence (p_j(x) overflows for large n).
		hm, h := 0.0, 1.0
		logScale := -0.25 * math.Log(math.Pi)
		for j := 0; j < n; j++ {
			fj := float64(j)
			hm, h = h, xi*math.Sqrt(2/(fj+1))*h-math.Sqrt(fj/(fj+1))*hm
			if a := math.Abs(h); a > 1e100 {
				h /= 1e100
				hm /= 1e100
				logScale += math.Log(1e100)
			}
		}
		// h = h_n(x_i) (scaled), hm = h_{n-1}(x_i) (scaled). At a root the
		// Christoffel number is w_i = 1/(n h_{n-1}(x_i)^2).
		lw := -math.Log(fn) - 2*(math.Log(math.Abs(hm))+logScale)
		// |h_n| relative to |h_{n-1}| measures the node error:
		// h_n(x+d) ~ d h_n'(x) = d sqrt(2n) h_{n-1}(x).
		dnode := math.Abs(h/hm) / math.Sqrt(2*fn)
		if !within("hermite-root/"+cls, dnode, cr*u*(1+math.Abs(xi)), where) {
			c.Violation(sig("node-not-a-root"), fmt.Sprintf("n=%d: H_n(x[%d]=%.17g) off by about %g in x", n, i, xi, dnode), replay)
			continue
		}
		wcl, clause := "hermite-weight/"+cls, "weight-formula"
		if (i == 0 || i == n-1) && n > 1 {
			wcl, clause = "hermite-outermost-weight/"+cls, "outermost-weight-formula"
		}
		if !within(wcl, math.Abs(math.Log(w[i])-lw), cr*u*(fn+2+2*xi*xi), where) {
			c.Violation(sig(clause), fmt.Sprintf("n=%d: w[%d]=%.17g but Christoffel number is %.17g", n, i, w[i], math.Exp(lw)), replay)
		}
	}
}

func hermiteDomain(c *vrt.Ctx) {
	x3, w3, w2 := make([]float64, 3), make([]float64, 3), make([]float64, 2)
	inf := math.Inf(1)
	cases := []struct {
		name string
		f    func()
	}{
		{"length-mismatch", func() { quad.Hermite{}.FixedLocations(x3, w2, -inf, inf) }},
		{"finite-min", func() { quad.Hermite{}.FixedLocations(x3, w3, 0, inf) }},
		{"finite-max", func() { quad.Hermite{}.FixedLocations(x3, w3, -inf, 0) }},
		{"finite-both", func() { quad.Hermite{}.FixedLocations(x3, w3, -1, 1) }},
	}
	for _, d := range cases {
		p := vrt.Try(d.f)
		c.Eval("Hermite.domain|"+d.name, true)
		if p == nil || p.Runtime {
			msg := "no panic"
			if p != nil {
				msg = p.Msg
			}
			c.Violation("quad.Hermite|domain "+d.name+"|wrong-rejection", msg, d.name)
		}
	}
}

func crOf(asy bool) float64 {
	if asy {
		return cHermRootAsy
	}
	return cHermRootTab
}
