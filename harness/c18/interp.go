package main

import (
	"fmt"
	"math"

	"gonum.org/v1/gonum/interp"
	"gonum.org/v1/gonum/verifx/vrt"
)

const (
	// polynomial reproduction: |P(x) - p(x)| <= cIntRepro u S, S = sum_k |c_k| L^k the size of
	// the polynomial on the knot range (L = distance to the expansion point), times the
	// spacing ratio for the global splines.
	cIntRepro = 400 // base constant; calibrated factor and measured worst ratio: calib.go
	// derivative reproduction: |P'(x) - p'(x)| <= cIntReproD u S / hmin-of-piece.
	cIntReproD = 800 // base constant; calibrated factor and measured worst ratio: calib.go
	// one-sided continuity at a knot, value: |P(x-+) - (y -+ P' ulp)| <= cIntC0 u (|y| scale + h |d| scale).
	cIntC0 = 64 // base constant; calibrated factor and measured worst ratio: calib.go
	// first derivative: |P'(x-+) - (P'(x) -+ P''(x-+) ulp)| <= cIntC1 u D with D the derivative scale of the piece.
	cIntC1 = 200 // base constant; calibrated factor and measured worst ratio: calib.go
	// second (third) derivative from divided differences of PredictDerivative.
	cIntC2 = 400 // base constant; calibrated factor and measured worst ratio: calib.go
	// monotonicity of the Hermite piece: sign(slope) min q >= -cIntMono u (|d_i|+|d_{i+1}|+|slope|).
	cIntMono = 64 // base constant; calibrated factor and measured worst ratio: calib.go
)

type fitter interface {
	Fit(xs, ys []float64) error
	Predict(x float64) float64
}

type dfitter interface {
	fitter
	PredictDerivative(x float64) float64
}

type interpKind struct {
	name     string
	mk       func() fitter
	minN     int
	smooth   int  // documented continuity class 0, 1, 2 (-1: piecewise constant)
	repro    int  // degree of polynomial reproduction
	global   bool // global spline (solves a linear system)
	monotone bool
}

func interpKinds() []interpKind {
	return []interpKind{
		{"PiecewiseConstant", func() fitter { return &interp.PiecewiseConstant{} }, 2, -1, 0, false, false},
		{"PiecewiseLinear", func() fitter { return &interp.PiecewiseLinear{} }, 2, 0, 1, false, false},
		{"AkimaSpline", func() fitter { return &interp.AkimaSpline{} }, 2, 1, 1, false, false},
		{"FritschButland", func() fitter { return &interp.FritschButland{} }, 2, 1, 1, false, true},
		{"NaturalCubic", func() fitter { return &interp.NaturalCubic{} }, 2, 2, 1, true, false},
		{"ClampedCubic", func() fitter { return &interp.ClampedCubic{} }, 2, 2, 3, true, false},
		{"NotAKnotCubic", func() fitter { return &interp.NotAKnotCubic{} }, 3, 2, 3, true, false},
	}
}

var knotKinds = []string{"uniform", "random", "clustered", "graded", "ends-differ"}

// makeKnots returns n strictly increasing knots; for n >= 5 the first and
// last interior spacings differ (by construction for every kind but uniform).
func makeKnots(r *vrt.Rand, kind string, n int) []float64 {
	xs := make([]float64, n)
	x0 := r.PickFloat(0, -3, 10, -0.5, 100)
	sc := r.PickFloat(1, 0.01, 25, 0.5)
	xs[0] = x0
	for i := 1; i < n; i++ {
		h := 1.0
		switch kind {
		case "random":
			h = r.Uniform(0.2, 2)
		case "clustered":
			h = 1
			if r.Chance(0.35) {
				h = math.Pow(10, -r.Uniform(1, 3))
			}
		case "graded":
			h = math.Pow(1.0+4.0/float64(n), float64(i))
			if h > 1e3 {
				h = 1e3
			}
		case "ends-differ":
			h = r.Uniform(0.5, 1.5)
			if i == 1 {
				h = 0.11
			}
			if i == n-1 {
				h = 3.7
			}
		}
		xs[i] = xs[i-1] + h*sc
	}
	return xs
}

func spacingRatio(xs []float64) float64 {
	lo, hi := math.Inf(1), 0.0
	for i := 1; i < len(xs); i++ {
		h := xs[i] - xs[i-1]
		lo, hi = math.Min(lo, h), math.Max(hi, h)
	}
	return hi / lo
}

var dataKinds = []string{"random", "increasing", "decreasing", "constant", "flat-segments", "oscillating", "steep-then-flat"}

func makeData(r *vrt.Rand, kind string, xs []float64) []float64 {
	n := len(xs)
	ys := make([]float64, n)
	off := r.PickFloat(0, 5, -100, 0.001)
	v := off
	for i := range ys {
		switch kind {
		case "random":
			ys[i] = off + r.Sym()*3
		case "increasing":
			v += r.Uniform(0.01, 2)
			ys[i] = v
		case "decreasing":
			v -= r.Uniform(0.01, 2)
			ys[i] = v
		case "constant":
			ys[i] = off
		case "flat-segments":
			if !r.Chance(0.4) {
				v += r.Uniform(0.1, 2)
			}
			ys[i] = v
		case "oscillating":
			ys[i] = off + float64(1-2*(i%2))*r.Uniform(0.5, 2)
		case "steep-then-flat":
			if i < n/2 {
				v += 10
			} else {
				v += 1e-3
			}
			ys[i] = v
		}
	}
	return ys
}

func checkInterp(c *vrt.Ctx) {
	kinds := interpKinds()
	type job struct{ ki, n, kk, rep int }
	var jobs []job
	for ki := range kinds {
		for n := 2; n <= 100; n++ {
			if n < kinds[ki].minN {
				continue
			}
			for kk := range knotKinds {
				if c.Thorough() || n <= 8 || (n+kk+ki)%2 == 0 {
					for rep := 0; rep < c.Pick(1, 4); rep++ {
						jobs = append(jobs, job{ki, n, kk, rep})
					}
				}
			}
		}
	}
	vrt.Parallel(len(jobs), func(i int) {
		sh := newShard(c)
		j := jobs[i]
		r := c.RNG("interp-"+kinds[j.ki].name, j.n, j.kk, j.rep)
		xs := makeKnots(r, knotKinds[j.kk], j.n)
		interpShape(c, sh, r, kinds[j.ki], knotKinds[j.kk], xs)
		interpRepro(c, sh, r, kinds[j.ki], knotKinds[j.kk], xs)
		sh.flush()
	})
	interpHermite(c)
	interpDomain(c)
}

func sizeClass(n int) string {
	switch {
	case n == 2:
		return "two-knots"
	case n == 3:
		return "three-knots"
	case n == 4:
		return "four-knots"
	}
	return "many-knots"
}

func fitOK(c *vrt.Ctx, k interpKind, f fitter, xs, ys []float64, replay any) bool {
	var err error
	c.LastCase(fmt.Sprintf("interp.%s.Fit n=%d", k.name, len(xs)))
	if p := vrt.Try(func() { err = f.Fit(xs, ys) }); p != nil {
		c.Violation("interp."+k.name+"|"+sizeClass(len(xs))+"|fit-panic", p.Msg, replay)
		return false
	}
	if err != nil {
		c.Violation("interp."+k.name+"|"+sizeClass(len(xs))+"|fit-error", fmt.Sprintf("Fit on %d strictly increasing knots returned error: %v", len(xs), err), replay)
		return false
	}
	return true
}

// interpShape: knot reproduction, continuity, extrapolation, monotonicity,
// independence from the caller's slices and from the object's history.
func interpShape(c *vrt.Ctx, sh *evalShard, r *vrt.Rand, k interpKind, knotKind string, xs []float64) {
	n := len(xs)
	dk := dataKinds[r.Intn(len(dataKinds))]
	ys := makeData(r, dk, xs)
	f := k.mk()
	replay := map[string]any{"type": k.name, "xs": xs, "ys": ys}
	cx, cy := append([]float64(nil), xs...), append([]float64(nil), ys...)
	if !fitOK(c, k, f, cx, cy, replay) {
		return
	}
	sh.eval("interp." + k.name + ".Fit|" + knotKind + "|" + dk + "|" + sizeClass(n))
	if n == 6 && dk == "random" && knotKind == "random" {
		c.Sample(map[string]any{"call": "interp." + k.name + ".Fit(xs, ys)", "xs": xs, "ys": ys, "Predict(xs[2])": f.Predict(xs[2])})
	}
	sig := func(clause string) string { return "interp." + k.name + "|" + sizeClass(n) + "|" + clause }
	// Fit must not keep references to (or modify) the caller's slices.
	for i := range cx {
		if !sameBits(cx[i], xs[i]) || !sameBits(cy[i], ys[i]) {
			c.Violation(sig("fit-modified-input"), "Fit modified xs or ys", replay)
			return
		}
		cx[i], cy[i] = math.NaN(), math.NaN()
	}
	// 1. knot reproduction, bit for bit.
	for i := range xs {
		if got := f.Predict(xs[i]); !sameBits(got, ys[i]) {
			c.Violation(sig("knot-value-not-reproduced"), fmt.Sprintf("Predict(xs[%d]=%.17g) = %.17g, ys[%d] = %.17g (%s data, %s knots)", i, xs[i], got, i, ys[i], dk, knotKind), replay)
			break
		}
	}
	sh.evalN("interp."+k.name+".Predict|at-knot", n)
	// 4. extrapolation: the end values are continued as constants.
	span := xs[n-1] - xs[0]
	for _, d := range []float64{ulp(xs[0]), 0.5 * span, 1e6 * (span + 1), math.Inf(1)} {
		xl, xr := xs[0]-d, xs[n-1]+d
		if gl := f.Predict(xl); !sameBits(gl, ys[0]) && xl < xs[0] {
			c.Violation(sig("left-extrapolation-not-constant"), fmt.Sprintf("Predict(%.17g) = %.17g left of the first knot, ys[0] = %.17g", xl, gl, ys[0]), replay)
			break
		}
		if gr := f.Predict(xr); !sameBits(gr, ys[n-1]) && xr > xs[n-1] {
			c.Violation(sig("right-extrapolation-not-constant"), fmt.Sprintf("Predict(%.17g) = %.17g right of the last knot, ys[n-1] = %.17g", xr, gr, ys[n-1]), replay)
			break
		}
	}
	sh.evalN("interp."+k.name+".Predict|outside", 8)
	// history independence: an object that was fitted before to fewer, as
	// many or more knots, or whose previous Fit panicked on bad input, must
	// predict (values and derivatives, at, between and outside the knots)
	// exactly like a fresh one.
	refitPts := append([]float64(nil), xs...)
	for i := 0; i+1 < n; i++ {
		refitPts = append(refitPts, xs[i]+(xs[i+1]-xs[i])*r.Float64())
	}
	refitPts = append(refitPts, xs[0]-0.3*span, xs[n-1]+0.3*span)
	fd0, fHasD := f.(dfitter)
	for _, hist := range []string{"fewer-knots", "equal-knots", "more-knots", "after-panic"} {
		m2 := n
		switch hist {
		case "fewer-knots":
			m2 = n - 1 - r.Intn(3)
		case "more-knots":
			m2 = n + 1 + r.Intn(6)
		}
		if m2 < k.minN {
			continue
		}
		g := k.mk()
		x2 := makeKnots(r, knotKinds[r.Intn(len(knotKinds))], m2)
		pre := vrt.TryFast(func() { g.Fit(x2, makeData(r, "random", x2)) })
		if k.name == "NotAKnotCubic" && m2 == 3 {
			pre = nil // Fit returns an error there (known finding); the object is still reused below
		}
		if pre != nil {
			continue
		}
		if hist == "after-panic" {
			if p := vrt.TryFast(func() { g.Fit([]float64{1, 3, 2, 4}, []float64{1, 2, 3, 4}) }); p == nil {
				continue // reported by the domain check
			}
		}
		if p := vrt.TryFast(func() { g.Fit(xs, ys) }); p != nil {
			c.Violation(sig("refit-panics"), fmt.Sprintf("Fit on an object previously fitted (%s): %s", hist, p.Msg), replay)
			continue
		}
		sh.evalN("interp."+k.name+".Fit|refit|"+hist, 2)
		gd, _ := g.(dfitter)
		for _, x := range refitPts {
			var a, b, da, db float64
			if p := vrt.TryFast(func() {
				a, b = f.Predict(x), g.Predict(x)
				if fHasD {
					da, db = fd0.PredictDerivative(x), gd.PredictDerivative(x)
				}
			}); p != nil {
				c.Violation(sig("refit-depends-on-history"), fmt.Sprintf("Predict(%.17g) panics on an object previously fitted (%s): %s", x, hist, p.Msg), replay)
				break
			}
			if !sameBits(a, b) || !sameBits(da, db) {
				c.Violation(sig("refit-depends-on-history"), fmt.Sprintf("previous fit: %s; Predict(%.17g): fresh %.17g, refitted %.17g; PredictDerivative: fresh %.17g, refitted %.17g", hist, x, a, b, da, db), replay)
				break
			}
		}
	}

	if k.smooth == -1 {
		// left-continuous step function: value on (x_{i-1}, x_i] is y_i.
		for i := 1; i < n; i++ {
			xm := math.Nextafter(xs[i], math.Inf(-1))
			mid := xs[i-1] + (xs[i]-xs[i-1])/2
			for _, x := range []float64{xm, mid, math.Nextafter(xs[i-1], math.Inf(1))} {
				if x > xs[i-1] && x < xs[i] {
					if got := f.Predict(x); !sameBits(got, ys[i]) {
						c.Violation(sig("not-left-continuous-step"), fmt.Sprintf("Predict(%.17g) = %.17g inside (xs[%d], xs[%d]], want ys[%d] = %.17g", x, got, i-1, i, i, ys[i]), replay)
						return
					}
				}
			}
		}
		sh.evalN("interp.PiecewiseConstant.Predict|inside", 3*(n-1))
		return
	}
	df, hasD := f.(dfitter)
	// derivative scale per piece
	d := make([]float64, n)
	if hasD {
		for i := range d {
			d[i] = df.PredictDerivative(xs[i])
		}
		sh.evalN("interp."+k.name+".PredictDerivative|at-knot", n)
	}
	pieceScale := func(i int) (ysc, dsc float64) { // piece between knots i and i+1
		h := xs[i+1] - xs[i]
		sl := math.Abs(ys[i+1]-ys[i]) / h
		dsc = sl
		if hasD {
			dsc = math.Max(dsc, math.Max(math.Abs(d[i]), math.Abs(d[i+1])))
		}
		ysc = math.Max(math.Abs(ys[i]), math.Abs(ys[i+1])) + h*dsc
		return
	}
	// The global splines solve one banded system for all second derivatives;
	// the solve is backward stable in the norm of the whole solution, so the
	// residual of the C1/C2 conditions at one knot scales with the largest
	// curvature anywhere (clustered knots with oscillating data), not with
	// the local one. M is that curvature scale; 0 for the local interpolants.
	M := 0.0
	if k.global {
		for i := 0; i+1 < n; i++ {
			_, ds := pieceScale(i)
			M = math.Max(M, ds/(xs[i+1]-xs[i]))
		}
		if k.name == "NotAKnotCubic" {
			// the two not-a-knot rows carry 1/h entries: the system is badly
			// row-scaled on clustered knots.
			M *= spacingRatio(xs)
		}
	}
	// 2. continuity at interior knots by one-sided evaluation.
	for i := 1; i < n-1; i++ {
		xm, xp := math.Nextafter(xs[i], math.Inf(-1)), math.Nextafter(xs[i], math.Inf(1))
		if !(xm > xs[i-1] && xp < xs[i+1]) {
			continue
		}
		yl, dl := pieceScale(i - 1)
		yr, dr := pieceScale(i)
		where := func() string { return fmt.Sprintf("%s n=%d knot %d %s/%s", k.name, n, i, knotKind, dk) }
		hl, hr := xs[i]-xs[i-1], xs[i+1]-xs[i]
		dlt := xs[i] - xm // = xp - xs[i] unless xs[i] is a power of two
		dlt2 := xp - xs[i]
		// first-order one-sided Taylor terms: the interpolant is evaluated one
		// ulp beside the knot, so the value moves by slope*ulp and the
		// derivative by curvature*ulp; what remains is rounding.
		slopeL, slopeR := (ys[i]-ys[i-1])/hl, (ys[i+1]-ys[i])/hr
		var d2l, d2r, qlm, qrm, sl, sr float64
		if hasD {
			slopeL, slopeR = d[i], d[i]
			// P' is a quadratic on each piece: second derivative at the knot
			// from the left piece (three samples of P' on it) and from the right.
			qlm = df.PredictDerivative(xs[i-1] + hl/2)
			qrm = df.PredictDerivative(xs[i] + hr/2)
			sl = xs[i] - (xs[i-1] + hl/2)
			sr = (xs[i] + hr/2) - xs[i]
			d2l = quadDerivAt0(-hl, d[i-1], -sl, qlm, d[i])
			d2r = quadDerivAt0(hr, d[i+1], sr, qrm, d[i])
		}
		vm, vp := f.Predict(xm), f.Predict(xp)
		if !within("interp-C0/"+k.name, math.Abs(vm-(ys[i]-slopeL*dlt)), cIntC0*u*yl, where) || !within("interp-C0/"+k.name, math.Abs(vp-(ys[i]+slopeR*dlt2)), cIntC0*u*yr, where) {
			c.Violation(sig("value-discontinuous-at-knot"), fmt.Sprintf("%s: Predict(x-) = %.17g, y = %.17g, Predict(x+) = %.17g", where(), vm, ys[i], vp), replay)
			break
		}
		if k.smooth < 1 {
			continue
		}
		dm, dp := df.PredictDerivative(xm), df.PredictDerivative(xp)
		if !within("interp-C1/"+k.name, math.Abs(dm-(d[i]-d2l*dlt)), cIntC1*u*(dl+hl*M), where) || !within("interp-C1/"+k.name, math.Abs(dp-(d[i]+d2r*dlt2)), cIntC1*u*(dr+hr*M), where) {
			c.Violation(sig("derivative-discontinuous-at-knot"), fmt.Sprintf("%s: P'(x-) = %.17g, P'(x) = %.17g, P'(x+) = %.17g", where(), dm, d[i], dp), replay)
			break
		}
		if k.smooth < 2 {
			continue
		}
		b2 := cIntC2 * u * (dl/hl + dr/hr + 2*M) * 8
		if !within("interp-C2/"+k.name, math.Abs(d2l-d2r), b2, where) {
			c.Violation(sig("second-derivative-discontinuous-at-knot"), fmt.Sprintf("%s: P''(x-) = %.17g, P''(x+) = %.17g", where(), d2l, d2r), replay)
			break
		}
		if k.name == "NotAKnotCubic" && (i == 1 || i == n-2) && n >= 4 {
			// third derivative = second derivative of the quadratic P'.
			d3l := quadSecond(-hl, d[i-1], -sl, qlm, d[i])
			d3r := quadSecond(hr, d[i+1], sr, qrm, d[i])
			b3 := cIntC2 * u * ((dl/hl+M)/hl + (dr/hr+M)/hr) * 16
			if !within("interp-C3-not-a-knot", math.Abs(d3l-d3r), b3, where) {
				c.Violation(sig("third-derivative-discontinuous-at-not-a-knot"), fmt.Sprintf("%s: P'''(x-) = %.17g, P'''(x+) = %.17g", where(), d3l, d3r), replay)
				break
			}
		}
	}
	sh.evalN("interp."+k.name+".Predict|one-ulp-beside-knot", 2*(n-2)+1)
	// natural / clamped boundary conditions.
	if hasD && n >= 3 {
		h0, hn := xs[1]-xs[0], xs[n-1]-xs[n-2]
		_, d0 := pieceScale(0)
		_, dn := pieceScale(n - 2)
		where := func() string { return fmt.Sprintf("%s n=%d %s/%s", k.name, n, knotKind, dk) }
		switch k.name {
		case "ClampedCubic":
			if !within("interp-clamped-end-slope", math.Max(math.Abs(d[0])/math.Max(d0+h0*M, 1e-300), math.Abs(d[n-1])/math.Max(dn+hn*M, 1e-300)), cIntC2*u, where) {
				c.Violation(sig("clamped-end-slope-not-zero"), fmt.Sprintf("%s: P'(first) = %g, P'(last) = %g", where(), d[0], d[n-1]), replay)
			}
		case "NaturalCubic":
			q0 := df.PredictDerivative(xs[0] + h0/2)
			qn := df.PredictDerivative(xs[n-1] - hn/2)
			e0 := quadDerivAt0(h0, d[1], (xs[0]+h0/2)-xs[0], q0, d[0])
			en := quadDerivAt0(-hn, d[n-2], (xs[n-1]-hn/2)-xs[n-1], qn, d[n-1])
			if !within("interp-natural-end-curvature", math.Max(math.Abs(e0)/math.Max(d0/h0+M, 1e-300), math.Abs(en)/math.Max(dn/hn+M, 1e-300)), cIntC2*u*8, where) {
				c.Violation(sig("natural-end-second-derivative-not-zero"), fmt.Sprintf("%s: P''(first) = %g, P''(last) = %g", where(), e0, en), replay)
			}
		}
	}
	// 5. monotone variant: no new extrema on any piece.
	if k.monotone {
		for i := 0; i+1 < n; i++ {
			h := xs[i+1] - xs[i]
			delta := (ys[i+1] - ys[i]) / h
			a1 := d[i]
			a2 := (3*delta - 2*d[i] - d[i+1]) / h
			a3 := (d[i] + d[i+1] - 2*delta) / (h * h)
			tol := cIntMono * u * (math.Abs(d[i]) + math.Abs(d[i+1]) + math.Abs(delta))
			sgn := 1.0
			if delta < 0 {
				sgn = -1
			}
			bad := ""
			if delta == 0 {
				if d[i] != 0 || d[i+1] != 0 {
					bad = fmt.Sprintf("flat data on piece %d but end derivatives %g, %g", i, d[i], d[i+1])
				}
			} else {
				qs := []float64{a1, a1 + 2*a2*h + 3*a3*h*h}
				if a3 != 0 {
					if s := -a2 / (3 * a3); s > 0 && s < h {
						qs = append(qs, a1+a2*s) // q(s*) = a1 + 2 a2 s + 3 a3 s^2 with 3 a3 s = -a2
					}
				}
				for _, q := range qs {
					if sgn*q < -tol {
						bad = fmt.Sprintf("piece %d: data slope %g but the Hermite cubic (d=%g,%g) has derivative %g of the opposite sign", i, delta, d[i], d[i+1], q)
					}
				}
			}
			// dense sampling of Predict / PredictDerivative on the piece.
			lo, hi := math.Min(ys[i], ys[i+1]), math.Max(ys[i], ys[i+1])
			ysc, _ := pieceScale(i)
			for s := 1; s < 8 && bad == ""; s++ {
				x := xs[i] + h*float64(s)/8
				if !(x > xs[i] && x < xs[i+1]) {
					continue
				}
				v, dv := f.Predict(x), df.PredictDerivative(x)
				if v < lo-cIntC0*u*ysc || v > hi+cIntC0*u*ysc {
					bad = fmt.Sprintf("piece %d: Predict(%.17g) = %.17g outside the data range [%.17g, %.17g]", i, x, v, lo, hi)
				}
				if sgn*dv < -tol-cIntC1*u*math.Abs(delta) && delta != 0 {
					bad = fmt.Sprintf("piece %d: PredictDerivative(%.17g) = %g against data slope %g", i, x, dv, delta)
				}
			}
			sh.evalN("interp."+k.name+".Predict|inside-piece", 14)
			if bad != "" {
				c.Violation(sig("monotone-interpolant-creates-extremum"), bad+fmt.Sprintf(" (%s data, %s knots)", dk, knotKind), replay)
				break
			}
		}
	}
}

// quadDerivAt0 returns q'(0) of the quadratic through (a, qa), (b, qb), (0, q0).
func quadDerivAt0(a, qa, b, qb, q0 float64) float64 {
	// divided differences
	fa := (qa - q0) / a
	fb := (qb - q0) / b
	// q(t) = q0 + t (fb + (t-b) (fa-fb)/(a-b)); q'(0) = fb - b (fa-fb)/(a-b)
	return fb - b*(fa-fb)/(a-b)
}

// quadSecond returns q” of the same quadratic.
func quadSecond(a, qa, b, qb, q0 float64) float64 {
	fa := (qa - q0) / a
	fb := (qb - q0) / b
	return 2 * (fa - fb) / (a - b)
}

// interpRepro: polynomial reproduction on non-uniform knots.
func interpRepro(c *vrt.Ctx, sh *evalShard, r *vrt.Rand, k interpKind, knotKind string, xs []float64) {
	n := len(xs)
	if k.repro == 0 {
		return
	}
	deg := k.repro
	if k.name == "NotAKnotCubic" && n == 3 {
		deg = 2
	}
	if k.name == "AkimaSpline" && knotKind == "uniform" && n >= 3 {
		// On uniform knots the slopes of a quadratic form an arithmetic
		// progression: Akima's two extrapolated end slopes continue it and
		// the weighted average of equal-weight neighbours is the exact
		// derivative, so quadratics are reproduced (Akima 1970).
		deg = 2
	}
	x0, xn := xs[0], xs[n-1]
	L := xn - x0
	// p(x) = sum c_k ((x-x0)/L)^k; for ClampedCubic p'(x0) = p'(xn) = 0:
	// p = c0 + c (3 s^2 - 2 s^3).
	co := make([]float64, deg+1)
	for i := range co {
		co[i] = r.Sym() * 4
	}
	if k.name == "ClampedCubic" {
		cc := co[3]
		co = []float64{co[0], 0, 3 * cc, -2 * cc}
	}
	S := 0.0
	for _, v := range co {
		S += math.Abs(v)
	}
	p := func(x float64) float64 {
		s := (x - x0) / L
		v := 0.0
		for i := len(co) - 1; i >= 0; i-- {
			v = v*s + co[i]
		}
		return v
	}
	dp := func(x float64) float64 {
		s := (x - x0) / L
		v := 0.0
		for i := len(co) - 1; i >= 1; i-- {
			v = v*s + float64(i)*co[i]
		}
		return v / L
	}
	ys := make([]float64, n)
	for i := range ys {
		ys[i] = p(xs[i])
	}
	f := k.mk()
	replay := map[string]any{"type": k.name, "xs": xs, "ys": ys, "coeff_in_(x-x0)/L": co}
	if !fitOK(c, k, f, xs, ys, replay) {
		return
	}
	sh.eval(fmt.Sprintf("interp.%s.Fit|%s|polynomial-degree-%d|%s", k.name, knotKind, deg, sizeClass(n)))
	// The samples ys carry a rounding error u S; divided by a small
	// neighbouring spacing and multiplied by a large one it is amplified by
	// the spacing ratio in every derivative-estimating interpolant.
	ratio := 1.0
	if k.name != "PiecewiseLinear" {
		ratio = spacingRatio(xs)
	}
	kap := 1 + (math.Abs(x0)+math.Abs(xn))/L // rounding of (x-x0)/L in the data itself
	df, hasD := f.(dfitter)
	sig := func(clause string) string { return "interp." + k.name + "|" + sizeClass(n) + "|" + clause }
	where := func() string {
		return fmt.Sprintf("%s n=%d %s degree %d ratio %.3g", k.name, n, knotKind, deg, spacingRatio(xs))
	}
	for i := 0; i+1 < n; i++ {
		h := xs[i+1] - xs[i]
		for _, t := range []float64{0.5, r.Float64(), 1e-3, 1 - 1e-9} {
			x := xs[i] + t*h
			if !(x > xs[i] && x < xs[i+1]) {
				continue
			}
			got := f.Predict(x)
			if !within("interp-reproduction/"+k.name, math.Abs(got-p(x)), cIntRepro*u*S*kap*ratio, where) {
				c.Violation(sig("polynomial-not-reproduced"), fmt.Sprintf("%s: Predict(%.17g) = %.17g, polynomial = %.17g", where(), x, got, p(x)), replay)
				return
			}
			if hasD && k.name != "PiecewiseLinear" {
				gd := df.PredictDerivative(x)
				if !within("interp-reproduction-derivative/"+k.name, math.Abs(gd-dp(x)), cIntReproD*u*S*kap*ratio/h, where) {
					c.Violation(sig("polynomial-derivative-not-reproduced"), fmt.Sprintf("%s: PredictDerivative(%.17g) = %.17g, polynomial' = %.17g", where(), x, gd, dp(x)), replay)
					return
				}
			}
		}
	}
	sh.evalN("interp."+k.name+".Predict|inside-piece", 4*(n-1))
}

// interpHermite: PiecewiseCubic.FitWithDerivatives reproduces cubics given
// exact derivative data and returns the data at the knots.
func interpHermite(c *vrt.Ctx) {
	nc := c.Pick(1000, 10000)
	vrt.Parallel(nc, func(i int) {
		r := c.RNG("interp-hermite", i)
		n := r.Range(2, 60)
		xs := makeKnots(r, knotKinds[i%len(knotKinds)], n)
		x0, L := xs[0], xs[n-1]-xs[0]
		co := []float64{r.Sym() * 3, r.Sym() * 3, r.Sym() * 3, r.Sym() * 3}
		p := func(x float64) float64 { s := (x - x0) / L; return ((co[3]*s+co[2])*s+co[1])*s + co[0] }
		dp := func(x float64) float64 { s := (x - x0) / L; return ((3*co[3]*s+2*co[2])*s + co[1]) / L }
		ys, ds := make([]float64, n), make([]float64, n)
		for j := range xs {
			ys[j], ds[j] = p(xs[j]), dp(xs[j])
		}
		var pc interp.PiecewiseCubic
		replay := map[string]any{"xs": xs, "ys": ys, "dydxs": ds}
		if pn := vrt.Try(func() { pc.FitWithDerivatives(xs, ys, ds) }); pn != nil {
			c.Violation("interp.PiecewiseCubic|"+sizeClass(n)+"|fit-panic", pn.Msg, replay)
			return
		}
		c.Eval("interp.PiecewiseCubic.FitWithDerivatives|"+knotKinds[i%len(knotKinds)]+"|"+sizeClass(n), true)
		S := math.Abs(co[0]) + math.Abs(co[1]) + math.Abs(co[2]) + math.Abs(co[3])
		kap := 1 + (math.Abs(x0)+math.Abs(xs[n-1]))/L
		sig := func(clause string) string { return "interp.PiecewiseCubic|" + sizeClass(n) + "|" + clause }
		for j := range xs {
			if !sameBits(pc.Predict(xs[j]), ys[j]) {
				c.Violation(sig("knot-value-not-reproduced"), fmt.Sprintf("Predict(xs[%d]) = %.17g, ys = %.17g", j, pc.Predict(xs[j]), ys[j]), replay)
				return
			}
			if !sameBits(pc.PredictDerivative(xs[j]), ds[j]) {
				c.Violation(sig("knot-derivative-not-reproduced"), fmt.Sprintf("PredictDerivative(xs[%d]) = %.17g, dydxs = %.17g", j, pc.PredictDerivative(xs[j]), ds[j]), replay)
				return
			}
		}
		for _, hist := range []string{"fewer-knots", "equal-knots", "more-knots", "after-panic"} {
			m2 := n
			switch hist {
			case "fewer-knots":
				m2 = n - 1 - r.Intn(3)
			case "more-knots":
				m2 = n + 1 + r.Intn(6)
			}
			if m2 < 2 {
				continue
			}
			var g interp.PiecewiseCubic
			x2 := makeKnots(r, "random", m2)
			if p := vrt.TryFast(func() { g.FitWithDerivatives(x2, makeData(r, "random", x2), makeData(r, "random", x2)) }); p != nil {
				continue
			}
			if hist == "after-panic" {
				vrt.TryFast(func() { g.FitWithDerivatives([]float64{1, 3, 2}, []float64{1, 2, 3}, []float64{0, 0, 0}) })
			}
			if p := vrt.TryFast(func() { g.FitWithDerivatives(xs, ys, ds) }); p != nil {
				c.Violation(sig("refit-panics"), fmt.Sprintf("FitWithDerivatives on an object previously fitted (%s): %s", hist, p.Msg), replay)
				continue
			}
			c.Eval("interp.PiecewiseCubic.FitWithDerivatives|refit|"+hist, true)
			for q := 0; q <= 2*n+1; q++ {
				x := xs[0] - 1
				switch {
				case q < n:
					x = xs[q]
				case q < 2*n-1:
					x = xs[q-n] + (xs[q-n+1]-xs[q-n])*r.Float64()
				case q == 2*n:
					x = xs[n-1] + 1
				}
				if !sameBits(pc.Predict(x), g.Predict(x)) || !sameBits(pc.PredictDerivative(x), g.PredictDerivative(x)) {
					c.Violation(sig("refit-depends-on-history"), fmt.Sprintf("previous fit: %s; Predict(%.17g): fresh %.17g, refitted %.17g; PredictDerivative: fresh %.17g, refitted %.17g", hist, x, pc.Predict(x), g.Predict(x), pc.PredictDerivative(x), g.PredictDerivative(x)), replay)
					break
				}
			}
		}
		for j := 0; j+1 < n; j++ {
			h := xs[j+1] - xs[j]
			// the local cubic is well conditioned in (x-x_j)/h only if the
			// polynomial is not tiny against its own derivatives scaled by h:
			// the band carries L/h for the reconstruction of a2, a3 from
			// differences of rounded data.
			amp := L / h
			x := xs[j] + h*r.Float64()
			if !(x > xs[j] && x < xs[j+1]) {
				continue
			}
			where := func() string { return fmt.Sprintf("n=%d piece %d", n, j) }
			if !within("interp-hermite-reproduction", math.Abs(pc.Predict(x)-p(x)), cIntRepro*u*S*kap*amp, where) {
				c.Violation(sig("polynomial-not-reproduced"), fmt.Sprintf("Predict(%.17g) = %.17g, cubic = %.17g", x, pc.Predict(x), p(x)), replay)
				return
			}
			if !within("interp-hermite-reproduction-derivative", math.Abs(pc.PredictDerivative(x)-dp(x)), cIntReproD*u*S*kap*amp/h, where) {
				c.Violation(sig("polynomial-derivative-not-reproduced"), fmt.Sprintf("PredictDerivative(%.17g) = %.17g, cubic' = %.17g", x, pc.PredictDerivative(x), dp(x)), replay)
				return
			}
		}
	})
}

func interpDomain(c *vrt.Ctx) {
	for _, k := range interpKinds() {
		cases := []struct {
			name   string
			xs, ys []float64
		}{
			{"one-point", []float64{1}, []float64{1}},
			{"length-mismatch", []float64{1, 2, 3, 4}, []float64{1, 2, 3}},
			{"repeated-knot", []float64{1, 2, 2, 3}, []float64{1, 2, 3, 4}},
			{"decreasing-knots", []float64{1, 3, 2, 4}, []float64{1, 2, 3, 4}},
		}
		if k.name == "NotAKnotCubic" {
			cases = append(cases, struct {
				name   string
				xs, ys []float64
			}{"two-points", []float64{1, 2}, []float64{1, 2}})
		}
		for _, d := range cases {
			f := k.mk()
			p := vrt.Try(func() { f.Fit(d.xs, d.ys) })
			c.Eval("interp."+k.name+".Fit|domain|"+d.name, true)
			if p == nil {
				c.Violation("interp."+k.name+"|domain "+d.name+"|documented-panic-missing", "Fit accepted the input", d)
			}
		}
	}
	var pc interp.PiecewiseCubic
	for _, d := range []struct {
		name       string
		xs, ys, ds []float64
	}{
		{"one-point", []float64{1}, []float64{1}, []float64{1}},
		{"ys-mismatch", []float64{1, 2, 3}, []float64{1, 2}, []float64{1, 2, 3}},
		{"dydxs-mismatch", []float64{1, 2, 3}, []float64{1, 2, 3}, []float64{1, 2}},
		{"repeated-knot", []float64{1, 2, 2}, []float64{1, 2, 3}, []float64{1, 2, 3}},
	} {
		p := vrt.Try(func() { pc.FitWithDerivatives(d.xs, d.ys, d.ds) })
		c.Eval("interp.PiecewiseCubic.FitWithDerivatives|domain|"+d.name, true)
		if p == nil {
			c.Violation("interp.PiecewiseCubic|domain "+d.name+"|documented-panic-missing", "FitWithDerivatives accepted the input", d)
		}
	}
	// Constant and Function predictors.
	c.Eval("interp.Constant.Predict", true)
	if v := interp.Constant(2.5).Predict(-7); v != 2.5 {
		c.Violation("interp.Constant|predict|wrong-value", fmt.Sprintf("Constant(2.5).Predict(-7) = %g", v), nil)
	}
	c.Eval("interp.Function.Predict", true)
	if v := interp.Function(func(x float64) float64 { return 3 * x }).Predict(4); v != 12 {
		c.Violation("interp.Function|predict|wrong-value", fmt.Sprintf("Function(3x).Predict(4) = %g", v), nil)
	}
}
