package main

import (
	"fmt"
	"math"
	"math/cmplx"

	"gonum.org/v1/gonum/num/dual"
	"gonum.org/v1/gonum/num/dualcmplx"
	"gonum.org/v1/gonum/num/dualquat"
	"gonum.org/v1/gonum/num/quat"
	"gonum.org/v1/gonum/spatial/r3"
	"gonum.org/v1/gonum/verifx/vrt"
)

const (
	// algebraic laws on random reals: |lhs - rhs| <= cHCRing u (product of the 1-norms of the operands).
	cHCRing = 64 // base constant; calibrated factor and measured worst ratio: calib.go
	// elementary functions against the complex oracle: |got - want| <= cHCElem u (1 + |F(z)|) cond.
	cHCElem = 4000 // base constant; calibrated factor and measured worst ratio: calib.go
	// rotations: |got - Rodrigues| <= cHCRot u |v|.
	cHCRot = 200 // base constant; calibrated factor and measured worst ratio: calib.go
)

type q4 = [4]float64

func qOf(q quat.Number) q4 { return q4{q.Real, q.Imag, q.Jmag, q.Kmag} }
func toQ(a q4) quat.Number { return quat.Number{Real: a[0], Imag: a[1], Jmag: a[2], Kmag: a[3]} }

func refQMul(a, b q4) (p, abs q4) {
	terms := [4][4]float64{
		{a[0] * b[0], -a[1] * b[1], -a[2] * b[2], -a[3] * b[3]},
		{a[0] * b[1], a[1] * b[0], a[2] * b[3], -a[3] * b[2]},
		{a[0] * b[2], -a[1] * b[3], a[2] * b[0], a[3] * b[1]},
		{a[0] * b[3], a[1] * b[2], -a[2] * b[1], a[3] * b[0]},
	}
	for i, row := range terms {
		for _, t := range row {
			p[i] += t
			abs[i] += math.Abs(t)
		}
	}
	return
}

func norm1(a q4) float64 {
	return math.Abs(a[0]) + math.Abs(a[1]) + math.Abs(a[2]) + math.Abs(a[3])
}

func randQ(r *vrt.Rand, exact bool) q4 {
	var a q4
	for i := range a {
		if exact {
			a[i] = float64(r.Range(-16, 16)) / 4
		} else {
			a[i] = r.Sym() * 3
		}
	}
	return a
}

func checkQuat(c *vrt.Ctx) {
	quatRing(c)
	quatRotation(c)
	quatElementary(c)
}

// qEq compares two quaternions: exactly (dyadic mode) or within the band.
func qEq(c *vrt.Ctx, sig, bandName string, exact bool, lhs, rhs q4, scale float64, detail func() string, replay any) bool {
	for i := 0; i < 4; i++ {
		bad := false
		if exact {
			bad = lhs[i] != rhs[i]
		} else {
			bad = !within(bandName, math.Abs(lhs[i]-rhs[i]), cHCRing*u*scale, func() string { return sig })
		}
		if bad {
			c.Violation(sig, fmt.Sprintf("%s: component %d: lhs %.17g rhs %.17g", detail(), i, lhs[i], rhs[i]), replay)
			return false
		}
	}
	return true
}

func quatRing(c *vrt.Ctx) {
	n := c.Pick(16000, 300000)
	// basis relations i^2 = j^2 = k^2 = ijk = -1, ij = k, jk = i, ki = j.
	I, J, K := quat.Number{Imag: 1}, quat.Number{Jmag: 1}, quat.Number{Kmag: 1}
	m1 := quat.Number{Real: -1}
	basis := []struct {
		name      string
		got, want quat.Number
	}{
		{"i*i", quat.Mul(I, I), m1}, {"j*j", quat.Mul(J, J), m1}, {"k*k", quat.Mul(K, K), m1},
		{"i*j*k", quat.Mul(quat.Mul(I, J), K), m1}, {"i*j", quat.Mul(I, J), K}, {"j*k", quat.Mul(J, K), I}, {"k*i", quat.Mul(K, I), J},
		{"j*i", quat.Mul(J, I), quat.Scale(-1, K)},
	}
	for _, b := range basis {
		c.Eval("quat.Mul|basis", true)
		if qOf(b.got) != qOf(b.want) {
			c.Violation("quat.Mul|basis|hamilton-relations", fmt.Sprintf("%s = %v, want %v", b.name, b.got, b.want), b.name)
		}
	}
	vrt.Parallel(16, func(w int) {
		sh := newShard(c)
		r := c.RNG("quat-ring", w)
		for it := 0; it < n/16; it++ {
			exact := it%2 == 0
			mode := "random"
			if exact {
				mode = "dyadic"
			}
			a, b, d := randQ(r, exact), randQ(r, exact), randQ(r, exact)
			A, B, D := toQ(a), toQ(b), toQ(d)
			replay := map[string]any{"a": a, "b": b, "c": d}
			det := func() string { return fmt.Sprintf("a=%v b=%v c=%v", a, b, d) }
			s3 := norm1(a) * norm1(b) * norm1(d)
			ref, _ := refQMul(a, b)
			qEq(c, "quat.Mul|"+mode+"|product-definition", "quat-ring", exact, qOf(quat.Mul(A, B)), ref, norm1(a)*norm1(b), det, replay)
			qEq(c, "quat.Mul|"+mode+"|associative", "quat-ring", exact, qOf(quat.Mul(quat.Mul(A, B), D)), qOf(quat.Mul(A, quat.Mul(B, D))), s3, det, replay)
			qEq(c, "quat.Mul|"+mode+"|left-distributive", "quat-ring", exact, qOf(quat.Mul(A, quat.Add(B, D))), qOf(quat.Add(quat.Mul(A, B), quat.Mul(A, D))), norm1(a)*(norm1(b)+norm1(d)), det, replay)
			qEq(c, "quat.Mul|"+mode+"|right-distributive", "quat-ring", exact, qOf(quat.Mul(quat.Add(B, D), A)), qOf(quat.Add(quat.Mul(B, A), quat.Mul(D, A))), norm1(a)*(norm1(b)+norm1(d)), det, replay)
			qEq(c, "quat.Conj|"+mode+"|anti-homomorphism", "quat-ring", exact, qOf(quat.Conj(quat.Mul(A, B))), qOf(quat.Mul(quat.Conj(B), quat.Conj(A))), norm1(a)*norm1(b), det, replay)
			sh.evalN("quat.Mul|laws|"+mode, 9)
			var sum, dif, sc q4
			f := float64(r.Range(-12, 12)) / 4
			for i := range sum {
				sum[i], dif[i], sc[i] = a[i]+b[i], a[i]-b[i], f*a[i]
			}
			qEq(c, "quat.Add|"+mode+"|componentwise", "quat-ring", true, qOf(quat.Add(A, B)), sum, 0, det, replay)
			qEq(c, "quat.Sub|"+mode+"|componentwise", "quat-ring", true, qOf(quat.Sub(A, B)), dif, 0, det, replay)
			qEq(c, "quat.Scale|"+mode+"|componentwise", "quat-ring", true, qOf(quat.Scale(f, A)), sc, 0, det, replay)
			sh.evalN("quat.Add/Sub/Scale|"+mode, 3)
			// q conj(q) = |q|^2, norm multiplicative, q q^-1 = q^-1 q = 1.
			n2 := a[0]*a[0] + a[1]*a[1] + a[2]*a[2] + a[3]*a[3]
			qEq(c, "quat.Conj|"+mode+"|q-times-conjugate-is-norm-squared", "quat-ring", exact, qOf(quat.Mul(A, quat.Conj(A))), q4{n2}, n2, det, replay)
			if n2 == 0 {
				continue
			}
			abs := quat.Abs(A)
			sh.eval("quat.Abs|" + mode)
			if !within("quat-abs", math.Abs(abs-math.Sqrt(n2)), 8*u*math.Sqrt(n2), nil) {
				c.Violation("quat.Abs|"+mode+"|euclidean-norm", fmt.Sprintf("Abs(%v) = %.17g, want %.17g", a, abs, math.Sqrt(n2)), replay)
			}
			pa := quat.Abs(quat.Mul(A, B))
			if !within("quat-norm-multiplicative", math.Abs(pa-abs*quat.Abs(B)), cHCRing*u*abs*quat.Abs(B), nil) {
				c.Violation("quat.Abs|"+mode+"|norm-not-multiplicative", fmt.Sprintf("|ab| = %.17g, |a||b| = %.17g for %s", pa, abs*quat.Abs(B), det()), replay)
			}
			inv := quat.Inv(A)
			sh.eval("quat.Inv|" + mode)
			one := q4{1}
			qEq(c, "quat.Inv|"+mode+"|q-times-inverse-is-one", "quat-inv", false, qOf(quat.Mul(A, inv)), one, 4, det, replay)
			qEq(c, "quat.Inv|"+mode+"|inverse-times-q-is-one", "quat-inv", false, qOf(quat.Mul(inv, A)), one, 4, det, replay)
		}
		// Abs must not overflow or underflow for extreme components.
		for _, s := range []float64{1e200, 1e-200, 1e300, 5e-310} {
			a := q4{3 * s, -4 * s, 12 * s, 84 * s}
			got := quat.Abs(toQ(a))
			sh.eval("quat.Abs|extreme-scale")
			if !within("quat-abs", math.Abs(got-85*s), 16*u*85*s+4*math.SmallestNonzeroFloat64, nil) {
				c.Violation("quat.Abs|extreme-scale|euclidean-norm", fmt.Sprintf("Abs(%v) = %.17g, want %.17g", a, got, 85*s), a)
			}
		}
		sh.flush()
	})
}

func rodrigues(theta float64, ax, v [3]float64) [3]float64 {
	n := math.Sqrt(ax[0]*ax[0] + ax[1]*ax[1] + ax[2]*ax[2])
	k := [3]float64{ax[0] / n, ax[1] / n, ax[2] / n}
	s, co := math.Sincos(theta)
	kxv := [3]float64{k[1]*v[2] - k[2]*v[1], k[2]*v[0] - k[0]*v[2], k[0]*v[1] - k[1]*v[0]}
	kv := k[0]*v[0] + k[1]*v[1] + k[2]*v[2]
	var o [3]float64
	for i := range o {
		o[i] = v[i]*co + kxv[i]*s + k[i]*kv*(1-co)
	}
	return o
}

func quatRotation(c *vrt.Ctx) {
	n := c.Pick(8000, 150000)
	vrt.Parallel(16, func(w int) {
		sh := newShard(c)
		r := c.RNG("quat-rotation", w)
		for it := 0; it < n/16; it++ {
			theta := r.Uniform(-2*math.Pi, 2*math.Pi)
			if it%10 == 0 {
				theta = r.PickFloat(math.Pi, math.Pi/2, -math.Pi/2, 1e-9, 2*math.Pi)
			}
			ax := [3]float64{r.Sym(), r.Sym(), r.Sym()}
			if it%7 == 0 {
				ax = [3]float64{0, 0, 0}
				ax[r.Intn(3)] = r.PickFloat(1, -1, 2.5)
			}
			if ax[0] == 0 && ax[1] == 0 && ax[2] == 0 {
				ax[0] = 1
			}
			v := [3]float64{r.Sym() * 5, r.Sym() * 5, r.Sym() * 5}
			vn := math.Sqrt(v[0]*v[0] + v[1]*v[1] + v[2]*v[2])
			want := rodrigues(theta, ax, v)
			replay := map[string]any{"theta": theta, "axis": ax, "v": v}
			det := func() string { return fmt.Sprintf("theta=%g axis=%v v=%v", theta, ax, v) }
			// explicit q v q^-1
			an := math.Sqrt(ax[0]*ax[0] + ax[1]*ax[1] + ax[2]*ax[2])
			s, co := math.Sincos(theta / 2)
			q := quat.Number{Real: co, Imag: s * ax[0] / an, Jmag: s * ax[1] / an, Kmag: s * ax[2] / an}
			pv := quat.Number{Imag: v[0], Jmag: v[1], Kmag: v[2]}
			rot := quat.Mul(quat.Mul(q, pv), quat.Inv(q))
			sh.eval("quat.Mul|rotation q v q^-1")
			got := [3]float64{rot.Imag, rot.Jmag, rot.Kmag}
			for i := range got {
				if !within("quat-rotation", math.Abs(got[i]-want[i]), cHCRot*u*vn, nil) {
					c.Violation("quat.Mul|rotation|differs-from-rodrigues", fmt.Sprintf("%s: q v q^-1 = %v, Rodrigues %v", det(), got, want), replay)
					break
				}
			}
			if !within("quat-rotation-real", math.Abs(rot.Real), cHCRot*u*vn, nil) {
				c.Violation("quat.Mul|rotation|real-part-not-zero", fmt.Sprintf("%s: real part of q v q^-1 = %g", det(), rot.Real), replay)
			}
			// r3.Rotation built on quat
			rr := r3.NewRotation(theta, r3.Vec{X: ax[0], Y: ax[1], Z: ax[2]})
			gv := rr.Rotate(r3.Vec{X: v[0], Y: v[1], Z: v[2]})
			sh.eval("r3.Rotation.Rotate")
			g3 := [3]float64{gv.X, gv.Y, gv.Z}
			for i := range g3 {
				if !within("quat-rotation", math.Abs(g3[i]-want[i]), cHCRot*u*vn, nil) {
					c.Violation("r3.Rotation|rotate|differs-from-rodrigues", fmt.Sprintf("%s: Rotate = %v, Rodrigues %v", det(), g3, want), replay)
					break
				}
			}
			// composition: rotating by q2 after q1 is the rotation by q2 q1.
			th2 := r.Uniform(-3, 3)
			ax2 := [3]float64{r.Sym(), r.Sym(), r.Sym() + 1.5}
			a2 := math.Sqrt(ax2[0]*ax2[0] + ax2[1]*ax2[1] + ax2[2]*ax2[2])
			s2, c2 := math.Sincos(th2 / 2)
			q2 := quat.Number{Real: c2, Imag: s2 * ax2[0] / a2, Jmag: s2 * ax2[1] / a2, Kmag: s2 * ax2[2] / a2}
			q21 := quat.Mul(q2, q)
			rc := quat.Mul(quat.Mul(q21, pv), quat.Conj(q21))
			w2 := rodrigues(th2, ax2, want)
			gc := [3]float64{rc.Imag, rc.Jmag, rc.Kmag}
			sh.eval("quat.Mul|rotation composition")
			for i := range gc {
				if !within("quat-rotation", math.Abs(gc[i]-w2[i]), 2*cHCRot*u*vn, nil) {
					c.Violation("quat.Mul|rotation-composition|differs-from-rodrigues", fmt.Sprintf("%s then theta=%g axis=%v: %v, want %v", det(), th2, ax2, gc, w2), replay)
					break
				}
			}
		}
		sh.flush()
	})
}

type qElem struct {
	name string
	q    func(quat.Number) quat.Number
	z    func(complex128) complex128
	// ok restricts the sample to the region where the principal branches
	// agree and the formula is well conditioned; cond scales the band.
	ok func(z complex128) (bool, float64)
}

func away(z complex128, pts ...complex128) float64 {
	d := math.Inf(1)
	for _, p := range pts {
		d = math.Min(d, cmplx.Abs(z-p))
	}
	return d
}

func qElems() []qElem {
	always := func(z complex128) (bool, float64) { return true, 1 }
	invTrig := func(z complex128) (bool, float64) {
		d := away(z, 1, -1)
		// branch cuts of asin/acos/atanh: real axis beyond +-1
		if math.Abs(imag(z)) < 0.2 && math.Abs(real(z)) > 0.8 {
			return false, 1
		}
		return d > 0.3, 1 / math.Min(d, 1)
	}
	invTrigI := func(z complex128) (bool, float64) {
		d := away(z, 1i, -1i)
		// branch cuts of atan/asinh: imaginary axis beyond +-i
		if math.Abs(real(z)) < 0.2 && math.Abs(imag(z)) > 0.8 {
			return false, 1
		}
		return d > 0.3, 1 / math.Min(d, 1)
	}
	return []qElem{
		{"Exp", quat.Exp, cmplx.Exp, always},
		{"Log", quat.Log, cmplx.Log, func(z complex128) (bool, float64) { return cmplx.Abs(z) > 0.1, 1 }},
		{"Sqrt", quat.Sqrt, cmplx.Sqrt, func(z complex128) (bool, float64) { return cmplx.Abs(z) > 0.1, 1 }},
		{"Sin", quat.Sin, cmplx.Sin, always},
		{"Cos", quat.Cos, cmplx.Cos, always},
		{"Tan", quat.Tan, cmplx.Tan, func(z complex128) (bool, float64) {
			d := cmplx.Abs(cmplx.Cos(z))
			return d > 0.2, 1 / (d * d)
		}},
		{"Sinh", quat.Sinh, cmplx.Sinh, always},
		{"Cosh", quat.Cosh, cmplx.Cosh, always},
		{"Tanh", quat.Tanh, cmplx.Tanh, func(z complex128) (bool, float64) {
			d := cmplx.Abs(cmplx.Cosh(z))
			return d > 0.2, 1 / (d * d)
		}},
		{"Asin", quat.Asin, cmplx.Asin, invTrig},
		{"Acos", quat.Acos, cmplx.Acos, invTrig},
		{"Atanh", quat.Atanh, cmplx.Atanh, invTrig},
		{"Acosh", quat.Acosh, cmplx.Acosh, func(z complex128) (bool, float64) {
			ok, cd := invTrig(z)
			// additional cut of acosh on the real axis below 1 and sign
			// ambiguity where Re acosh = 0
			if math.Abs(imag(z)) < 0.2 || math.Abs(real(cmplx.Acosh(z))) < 0.1 {
				return false, 1
			}
			return ok, cd
		}},
		{"Atan", quat.Atan, cmplx.Atan, invTrigI},
		{"Asinh", quat.Asinh, cmplx.Asinh, invTrigI},
	}
}

// quatElementary compares every elementary function on the commutative
// plane span{1, û} (û a random unit pure quaternion) with the complex
// function: f(a + b û) = Re F(a+ib) + û Im F(a+ib), b = |vector part| > 0.
func quatElementary(c *vrt.Ctx) {
	es := qElems()
	per := c.Pick(500, 10000)
	vrt.Parallel(len(es), func(ei int) {
		sh := newShard(c)
		e := es[ei]
		r := c.RNG("quat-elem", ei)
		done := 0
		for tries := 0; done < per && tries < 20*per; tries++ {
			a, b := r.Sym()*2.5, r.Uniform(0.05, 2.5)
			z := complex(a, b)
			ok, cond := e.ok(z)
			if !ok {
				continue
			}
			done++
			uax := [3]float64{r.Sym(), r.Sym(), r.Sym()}
			if done%5 == 0 {
				uax = [3]float64{0, 0, 0}
				uax[r.Intn(3)] = r.PickFloat(1, -1)
			}
			un := math.Sqrt(uax[0]*uax[0] + uax[1]*uax[1] + uax[2]*uax[2])
			if un < 0.1 {
				continue
			}
			for i := range uax {
				uax[i] /= un
			}
			q := quat.Number{Real: a, Imag: b * uax[0], Jmag: b * uax[1], Kmag: b * uax[2]}
			F := e.z(z)
			want := q4{real(F), imag(F) * uax[0], imag(F) * uax[1], imag(F) * uax[2]}
			var got quat.Number
			replay := map[string]any{"func": "quat." + e.name, "q": qOf(q), "plane": "a + b*u", "a": a, "b": b, "u": uax}
			if p := vrt.Try(func() { got = e.q(q) }); p != nil {
				c.Violation("quat."+e.name+"|complex-plane|panic", p.Msg, replay)
				continue
			}
			sh.eval("quat." + e.name + "|complex-plane")
			if done == 2 && (e.name == "Exp" || e.name == "Asin") {
				c.Sample(map[string]any{"call": "quat." + e.name, "q": qOf(q), "got": qOf(got), "want(complex oracle)": want})
			}
			g := qOf(got)
			band := cHCElem * u * (1 + cmplx.Abs(F)) * cond
			for i := range g {
				if !within("quat-elementary/"+e.name, math.Abs(g[i]-want[i]), band, func() string { return fmt.Sprintf("z=%v", z) }) {
					c.Violation("quat."+e.name+"|complex-plane|differs-from-complex-function", fmt.Sprintf("%s(%v) = %v, complex oracle %v (a+bi = %v)", e.name, qOf(q), g, want, z), replay)
					break
				}
			}
		}
		// PowReal and Pow with a commuting exponent.
		for it := 0; it < per/3+1; it++ {
			a, b := r.Sym()*2.5, r.Uniform(0.1, 2.5)
			z := complex(a, b)
			if cmplx.Abs(z) < 0.2 {
				continue
			}
			uax := [3]float64{r.Sym(), r.Sym(), r.Sym() + 1.2}
			un := math.Sqrt(uax[0]*uax[0] + uax[1]*uax[1] + uax[2]*uax[2])
			for i := range uax {
				uax[i] /= un
			}
			q := quat.Number{Real: a, Imag: b * uax[0], Jmag: b * uax[1], Kmag: b * uax[2]}
			p := r.PickFloat(2, 3, 0.5, -1, -1.5, 2.5)
			F := cmplx.Pow(z, complex(p, 0))
			want := q4{real(F), imag(F) * uax[0], imag(F) * uax[1], imag(F) * uax[2]}
			g := qOf(quat.PowReal(q, p))
			sh.eval("quat.PowReal|complex-plane")
			band := cHCElem * u * (1 + cmplx.Abs(F)) * (1 + math.Abs(p)*(1+math.Abs(math.Log(cmplx.Abs(z)))))
			replay := map[string]any{"q": qOf(q), "p": p}
			for i := range g {
				if !within("quat-elementary/PowReal", math.Abs(g[i]-want[i]), band, nil) {
					c.Violation("quat.PowReal|complex-plane|differs-from-complex-function", fmt.Sprintf("PowReal(%v, %g) = %v, complex oracle %v", qOf(q), p, g, want), replay)
					break
				}
			}
			// exponent in the same plane
			wz := complex(r.Sym()*1.5, r.Sym()*1.5)
			wq := quat.Number{Real: real(wz), Imag: imag(wz) * uax[0], Jmag: imag(wz) * uax[1], Kmag: imag(wz) * uax[2]}
			F2 := cmplx.Pow(z, wz)
			want2 := q4{real(F2), imag(F2) * uax[0], imag(F2) * uax[1], imag(F2) * uax[2]}
			g2 := qOf(quat.Pow(q, wq))
			sh.eval("quat.Pow|complex-plane")
			band2 := cHCElem * u * (1 + cmplx.Abs(F2)) * (1 + cmplx.Abs(wz)*(4+math.Abs(math.Log(cmplx.Abs(z)))))
			for i := range g2 {
				if !within("quat-elementary/Pow", math.Abs(g2[i]-want2[i]), band2, nil) {
					c.Violation("quat.Pow|complex-plane|differs-from-complex-function", fmt.Sprintf("Pow(%v, %v) = %v, complex oracle %v", qOf(q), qOf(wq), g2, want2), map[string]any{"q": qOf(q), "r": qOf(wq)})
					break
				}
			}
		}
		sh.flush()
	})
}

// ---- dual quaternions ---------------------------------------------------------------

type dq struct{ r, d q4 }

func dqOf(x dualquat.Number) dq { return dq{qOf(x.Real), qOf(x.Dual)} }
func toDQ(x dq) dualquat.Number { return dualquat.Number{Real: toQ(x.r), Dual: toQ(x.d)} }

func qAdd(a, b q4) (s q4) {
	for i := range s {
		s[i] = a[i] + b[i]
	}
	return
}

func refDQMul(a, b dq) dq {
	r, _ := refQMul(a.r, b.r)
	d1, _ := refQMul(a.r, b.d)
	d2, _ := refQMul(a.d, b.r)
	return dq{r, qAdd(d1, d2)}
}

func dqN1(a dq) float64 { return norm1(a.r) + norm1(a.d) }

func dqEq(c *vrt.Ctx, sig, bandName string, exact bool, lhs, rhs dq, scale float64, detail func() string, replay any) bool {
	return qEq(c, sig, bandName, exact, lhs.r, rhs.r, scale, func() string { return detail() + " (real quaternion)" }, replay) &&
		qEq(c, sig, bandName, exact, lhs.d, rhs.d, scale, func() string { return detail() + " (dual quaternion)" }, replay)
}

func checkDualQuat(c *vrt.Ctx) {
	n := c.Pick(10000, 200000)
	vrt.Parallel(16, func(w int) {
		sh := newShard(c)
		r := c.RNG("dualquat", w)
		for it := 0; it < n/16; it++ {
			exact := it%2 == 0
			mode := "random"
			if exact {
				mode = "dyadic"
			}
			a, b, d := dq{randQ(r, exact), randQ(r, exact)}, dq{randQ(r, exact), randQ(r, exact)}, dq{randQ(r, exact), randQ(r, exact)}
			A, B, D := toDQ(a), toDQ(b), toDQ(d)
			replay := map[string]any{"a": a, "b": b, "c": d}
			det := func() string { return fmt.Sprintf("a=%v b=%v c=%v", a, b, d) }
			s2, s3 := dqN1(a)*dqN1(b), dqN1(a)*dqN1(b)*dqN1(d)
			dqEq(c, "dualquat.Mul|"+mode+"|product-definition", "dualquat-ring", exact, dqOf(dualquat.Mul(A, B)), refDQMul(a, b), s2, det, replay)
			dqEq(c, "dualquat.Mul|"+mode+"|associative", "dualquat-ring", exact, dqOf(dualquat.Mul(dualquat.Mul(A, B), D)), dqOf(dualquat.Mul(A, dualquat.Mul(B, D))), s3, det, replay)
			dqEq(c, "dualquat.Mul|"+mode+"|left-distributive", "dualquat-ring", exact, dqOf(dualquat.Mul(A, dualquat.Add(B, D))), dqOf(dualquat.Add(dualquat.Mul(A, B), dualquat.Mul(A, D))), dqN1(a)*(dqN1(b)+dqN1(d)), det, replay)
			dqEq(c, "dualquat.Mul|"+mode+"|right-distributive", "dualquat-ring", exact, dqOf(dualquat.Mul(dualquat.Add(B, D), A)), dqOf(dualquat.Add(dualquat.Mul(B, A), dualquat.Mul(D, A))), dqN1(a)*(dqN1(b)+dqN1(d)), det, replay)
			dqEq(c, "dualquat.Conj|"+mode+"|anti-homomorphism", "dualquat-ring", exact, dqOf(dualquat.Conj(dualquat.Mul(A, B))), dqOf(dualquat.Mul(dualquat.Conj(B), dualquat.Conj(A))), s2, det, replay)
			dqEq(c, "dualquat.ConjQuat|"+mode+"|anti-homomorphism", "dualquat-ring", exact, dqOf(dualquat.ConjQuat(dualquat.Mul(A, B))), dqOf(dualquat.Mul(dualquat.ConjQuat(B), dualquat.ConjQuat(A))), s2, det, replay)
			dqEq(c, "dualquat.ConjDual|"+mode+"|homomorphism", "dualquat-ring", exact, dqOf(dualquat.ConjDual(dualquat.Mul(A, B))), dqOf(dualquat.Mul(dualquat.ConjDual(A), dualquat.ConjDual(B))), s2, det, replay)
			sh.evalN("dualquat.Mul|laws|"+mode, 12)
			// Scale, Add, Sub componentwise.
			f := float64(r.Range(-12, 12)) / 4
			var sc, sum, dif dq
			for i := 0; i < 4; i++ {
				sc.r[i], sc.d[i] = f*a.r[i], f*a.d[i]
				sum.r[i], sum.d[i] = a.r[i]+b.r[i], a.d[i]+b.d[i]
				dif.r[i], dif.d[i] = a.r[i]-b.r[i], a.d[i]-b.d[i]
			}
			dqEq(c, "dualquat.Scale|"+mode+"|componentwise", "dualquat-ring", true, dqOf(dualquat.Scale(f, A)), sc, 0, det, replay)
			dqEq(c, "dualquat.Add|"+mode+"|componentwise", "dualquat-ring", true, dqOf(dualquat.Add(A, B)), sum, 0, det, replay)
			dqEq(c, "dualquat.Sub|"+mode+"|componentwise", "dualquat-ring", true, dqOf(dualquat.Sub(A, B)), dif, 0, det, replay)
			sh.evalN("dualquat.Add/Sub/Scale|"+mode, 3)
			if norm1(a.r) < 0.5 {
				continue
			}
			// a a^-1 = a^-1 a = 1.
			one := dq{r: q4{1}}
			inv := dualquat.Inv(A)
			sh.eval("dualquat.Inv|" + mode)
			cnd := dqN1(a) / math.Sqrt(a.r[0]*a.r[0]+a.r[1]*a.r[1]+a.r[2]*a.r[2]+a.r[3]*a.r[3])
			cnd = 4 * cnd * cnd
			dqEq(c, "dualquat.Inv|generic|a-times-inverse-is-one", "dualquat-inv", false, dqOf(dualquat.Mul(A, inv)), one, cnd, det, replay)
			dqEq(c, "dualquat.Inv|generic|inverse-times-a-is-one", "dualquat-inv", false, dqOf(dualquat.Mul(inv, A)), one, cnd, det, replay)
			// norm: Abs(a)^2 = a ConjQuat(a) (a dual scalar), and Abs is
			// multiplicative in dual arithmetic.
			ab := dualquat.Abs(A)
			sh.eval("dualquat.Abs|" + mode)
			n2 := dualquat.Mul(A, dualquat.ConjQuat(A))
			ab2 := dual.Mul(ab, ab)
			sc2 := dqN1(a) * dqN1(a)
			if !within("dualquat-abs", math.Abs(ab2.Real-n2.Real.Real), cHCRing*u*sc2, nil) || !within("dualquat-abs", math.Abs(ab2.Emag-n2.Dual.Real), cHCRing*u*sc2, nil) {
				c.Violation("dualquat.Abs|generic|norm-squared-is-a-times-quaternion-conjugate", fmt.Sprintf("Abs(a)^2 = %v but a ConjQuat(a) = %v for a=%v", ab2, n2, a), replay)
			}
			pab := dualquat.Abs(dualquat.Mul(A, B))
			mab := dual.Mul(ab, dualquat.Abs(B))
			if !within("dualquat-abs", math.Abs(pab.Real-mab.Real), cHCRing*u*s2, nil) || !within("dualquat-abs", math.Abs(pab.Emag-mab.Emag), cHCRing*u*s2, nil) {
				c.Violation("dualquat.Abs|generic|norm-not-multiplicative", fmt.Sprintf("Abs(ab) = %v but Abs(a)Abs(b) = %v for %s", pab, mab, det()), replay)
			}
		}
		sh.flush()
	})
	dualQuatRigid(c)
	dualQuatElementary(c)
}

// dualQuatRigid: the unit dual quaternion s = r + ϵ t r / 2 acts on the point
// p (as 1 + ϵ p) by s (1+ϵp) Conj(s) = 1 + ϵ (r p r^-1 + t).
func dualQuatRigid(c *vrt.Ctx) {
	n := c.Pick(5000, 100000)
	vrt.Parallel(16, func(w int) {
		sh := newShard(c)
		r := c.RNG("dualquat-rigid", w)
		mk := func() (dualquat.Number, float64, [3]float64, [3]float64) {
			theta := r.Uniform(-math.Pi, math.Pi)
			ax := [3]float64{r.Sym(), r.Sym(), r.Sym() + 1.2}
			t := [3]float64{r.Sym() * 4, r.Sym() * 4, r.Sym() * 4}
			an := math.Sqrt(ax[0]*ax[0] + ax[1]*ax[1] + ax[2]*ax[2])
			s, co := math.Sincos(theta / 2)
			q := quat.Number{Real: co, Imag: s * ax[0] / an, Jmag: s * ax[1] / an, Kmag: s * ax[2] / an}
			tq := quat.Number{Imag: t[0], Jmag: t[1], Kmag: t[2]}
			return dualquat.Number{Real: q, Dual: quat.Scale(0.5, quat.Mul(tq, q))}, theta, ax, t
		}
		for it := 0; it < n/16; it++ {
			s1, th1, ax1, t1 := mk()
			s2, th2, ax2, t2 := mk()
			p := [3]float64{r.Sym() * 5, r.Sym() * 5, r.Sym() * 5}
			P := dualquat.Number{Real: quat.Number{Real: 1}, Dual: quat.Number{Imag: p[0], Jmag: p[1], Kmag: p[2]}}
			w1 := rodrigues(th1, ax1, p)
			for i := range w1 {
				w1[i] += t1[i]
			}
			scale := 1 + math.Abs(p[0]) + math.Abs(p[1]) + math.Abs(p[2]) + math.Abs(t1[0]) + math.Abs(t1[1]) + math.Abs(t1[2]) + math.Abs(t2[0]) + math.Abs(t2[1]) + math.Abs(t2[2])
			replay := map[string]any{"theta": th1, "axis": ax1, "t": t1, "p": p}
			g := dualquat.Mul(dualquat.Mul(s1, P), dualquat.Conj(s1))
			sh.eval("dualquat.Mul|rigid transformation")
			got := [3]float64{g.Dual.Imag, g.Dual.Jmag, g.Dual.Kmag}
			bad := !within("dualquat-rigid", math.Abs(g.Real.Real-1)+math.Abs(g.Real.Imag)+math.Abs(g.Real.Jmag)+math.Abs(g.Real.Kmag)+math.Abs(g.Dual.Real), 4*cHCRot*u*scale, nil)
			for i := range got {
				if !within("dualquat-rigid", math.Abs(got[i]-w1[i]), cHCRot*u*scale, nil) {
					bad = true
				}
			}
			if bad {
				c.Violation("dualquat.Mul|rigid-transformation|differs-from-rotation-plus-translation", fmt.Sprintf("s (1+ϵp) Conj(s) = %v, want 1+ϵ%v", g, w1), replay)
			}
			// composition s2 s1
			w2 := rodrigues(th2, ax2, w1)
			for i := range w2 {
				w2[i] += t2[i]
			}
			s21 := dualquat.Mul(s2, s1)
			g2 := dualquat.Mul(dualquat.Mul(s21, P), dualquat.Conj(s21))
			sh.eval("dualquat.Mul|rigid composition")
			got2 := [3]float64{g2.Dual.Imag, g2.Dual.Jmag, g2.Dual.Kmag}
			for i := range got2 {
				if !within("dualquat-rigid", math.Abs(got2[i]-w2[i]), 4*cHCRot*u*scale, nil) {
					c.Violation("dualquat.Mul|rigid-composition|differs-from-rotation-plus-translation", fmt.Sprintf("(s2 s1) p = %v, want %v", got2, w2), replay)
					break
				}
			}
			// the inverse of a unit dual quaternion is its quaternion conjugate
			inv := dualquat.Inv(s1)
			sh.eval("dualquat.Inv|unit")
			cq := dualquat.ConjQuat(s1)
			dqEq(c, "dualquat.Inv|unit|equals-quaternion-conjugate", "dualquat-inv", false, dqOf(inv), dqOf(cq), 4*scale, func() string { return fmt.Sprintf("s=%v", s1) }, replay)
		}
		sh.flush()
	})
}

// dqSeriesExp sums sum_k x^k/k! with dualquat.Mul (|x| small).
func dqSeriesExp(x dualquat.Number) dualquat.Number {
	sum := dualquat.Number{Real: quat.Number{Real: 1}}
	term := sum
	for k := 1; k < 40; k++ {
		term = dualquat.Scale(1/float64(k), dualquat.Mul(term, x))
		sum = dualquat.Add(sum, term)
	}
	return sum
}

func dualQuatElementary(c *vrt.Ctx) {
	n := c.Pick(3000, 50000)
	vrt.Parallel(16, func(w int) {
		sh := newShard(c)
		r := c.RNG("dualquat-elem", w)
		for it := 0; it < n/16; it++ {
			commuting := it%2 == 0
			path := "dual-part-commutes-with-real"
			if !commuting {
				path = "general-dual-part"
			}
			a, b := r.Sym()*1.2, r.Uniform(0.2, 1.2)
			uax := [3]float64{r.Sym(), r.Sym(), r.Sym() + 1.2}
			un := math.Sqrt(uax[0]*uax[0] + uax[1]*uax[1] + uax[2]*uax[2])
			for i := range uax {
				uax[i] /= un
			}
			re := quat.Number{Real: a, Imag: b * uax[0], Jmag: b * uax[1], Kmag: b * uax[2]}
			var du quat.Number
			if commuting {
				al, be := r.Sym()*1.5, r.Sym()*1.5
				du = quat.Number{Real: al, Imag: be * uax[0], Jmag: be * uax[1], Kmag: be * uax[2]}
			} else {
				du = toQ(randQ(r, false))
			}
			x := dualquat.Number{Real: re, Dual: du}
			replay := map[string]any{"x": dqOf(x)}
			det := func() string { return fmt.Sprintf("x=%v", dqOf(x)) }
			sc := 40 * (1 + norm1(qOf(du))) * math.Exp(math.Abs(a)+b)
			// Exp against the power series.
			e := dualquat.Exp(x)
			sh.eval("dualquat.Exp|" + path)
			dqEq(c, "dualquat.Exp|"+path+"|differs-from-power-series", "dualquat-exp/"+path, false, dqOf(e), dqOf(dqSeriesExp(x)), sc, det, replay)
			// Exp(Log(x)) = x.
			if quat.Abs(re) > 0.3 {
				l := dualquat.Log(x)
				sh.eval("dualquat.Log|" + path)
				dqEq(c, "dualquat.Log|"+path+"|exp-of-log-is-not-identity", "dualquat-log/"+path, false, dqOf(dqSeriesExpBig(l)), dqOf(x), sc, det, replay)
				// Sqrt(x)^2 = x, PowReal(x,2) = x x, PowReal(x,-1) = Inv.
				s := dualquat.Sqrt(x)
				sh.eval("dualquat.Sqrt|" + path)
				dqEq(c, "dualquat.Sqrt|"+path+"|square-of-root-is-not-x", "dualquat-sqrt/"+path, false, dqOf(dualquat.Mul(s, s)), dqOf(x), sc, det, replay)
				p2 := dualquat.PowReal(x, 2)
				sh.eval("dualquat.PowReal|" + path)
				dqEq(c, "dualquat.PowReal|"+path+"|square-differs-from-product", "dualquat-powreal/"+path, false, dqOf(p2), dqOf(dualquat.Mul(x, x)), sc, det, replay)
				pw := dualquat.Pow(x, dualquat.Number{Real: quat.Number{Real: 2}})
				sh.eval("dualquat.Pow|" + path)
				dqEq(c, "dualquat.Pow|"+path+"|square-differs-from-product", "dualquat-pow/"+path, false, dqOf(pw), dqOf(dualquat.Mul(x, x)), 4*sc, det, replay)
			}
		}
		sh.flush()
	})
}

// dqSeriesExpBig is exp by scaling and squaring (the argument of Exp(Log x)
// is not small): exp(x) = exp(x/16)^16 with the series for the inner term.
func dqSeriesExpBig(x dualquat.Number) dualquat.Number {
	e := dqSeriesExp(dualquat.Scale(1.0/16, x))
	for i := 0; i < 4; i++ {
		e = dualquat.Mul(e, e)
	}
	return e
}

// ---- anti-commutative dual complex numbers ------------------------------------------

type dc struct{ r, d complex128 }

func dcOf(x dualcmplx.Number) dc { return dc{x.Real, x.Dual} }

func dcEq(c *vrt.Ctx, sig, bandName string, exact bool, lhs, rhs dualcmplx.Number, scale float64, detail func() string, replay any) bool {
	l := [4]float64{real(lhs.Real), imag(lhs.Real), real(lhs.Dual), imag(lhs.Dual)}
	rr := [4]float64{real(rhs.Real), imag(rhs.Real), real(rhs.Dual), imag(rhs.Dual)}
	return qEq(c, sig, bandName, exact, l, rr, scale, detail, replay)
}

func dcN1(x dualcmplx.Number) float64 {
	return math.Abs(real(x.Real)) + math.Abs(imag(x.Real)) + math.Abs(real(x.Dual)) + math.Abs(imag(x.Dual))
}

func randDC(r *vrt.Rand, exact bool) dualcmplx.Number {
	q := randQ(r, exact)
	return dualcmplx.Number{Real: complex(q[0], q[1]), Dual: complex(q[2], q[3])}
}

func dcSeriesExp(x dualcmplx.Number) dualcmplx.Number {
	sum := dualcmplx.Number{Real: 1}
	term := sum
	for k := 1; k < 40; k++ {
		term = dualcmplx.Scale(1/float64(k), dualcmplx.Mul(term, x))
		sum = dualcmplx.Add(sum, term)
	}
	return sum
}

func checkDualCmplx(c *vrt.Ctx) {
	n := c.Pick(10000, 200000)
	vrt.Parallel(16, func(w int) {
		sh := newShard(c)
		r := c.RNG("dualcmplx", w)
		for it := 0; it < n/16; it++ {
			exact := it%2 == 0
			mode := "random"
			if exact {
				mode = "dyadic"
			}
			A, B, D := randDC(r, exact), randDC(r, exact), randDC(r, exact)
			replay := map[string]any{"a": dcOf(A), "b": dcOf(B), "c": dcOf(D)}
			det := func() string { return fmt.Sprintf("a=%v b=%v c=%v", dcOf(A), dcOf(B), dcOf(D)) }
			s2, s3 := dcN1(A)*dcN1(B), dcN1(A)*dcN1(B)*dcN1(D)
			// definition: ϵ z = conj(z) ϵ, ϵ^2 = 0.
			ref := dualcmplx.Number{Real: A.Real * B.Real, Dual: A.Real*B.Dual + A.Dual*cmplx.Conj(B.Real)}
			dcEq(c, "dualcmplx.Mul|"+mode+"|product-definition", "dualcmplx-ring", exact, dualcmplx.Mul(A, B), ref, s2, det, replay)
			dcEq(c, "dualcmplx.Mul|"+mode+"|associative", "dualcmplx-ring", exact, dualcmplx.Mul(dualcmplx.Mul(A, B), D), dualcmplx.Mul(A, dualcmplx.Mul(B, D)), s3, det, replay)
			dcEq(c, "dualcmplx.Mul|"+mode+"|left-distributive", "dualcmplx-ring", exact, dualcmplx.Mul(A, dualcmplx.Add(B, D)), dualcmplx.Add(dualcmplx.Mul(A, B), dualcmplx.Mul(A, D)), dcN1(A)*(dcN1(B)+dcN1(D)), det, replay)
			dcEq(c, "dualcmplx.Mul|"+mode+"|right-distributive", "dualcmplx-ring", exact, dualcmplx.Mul(dualcmplx.Add(B, D), A), dualcmplx.Add(dualcmplx.Mul(B, A), dualcmplx.Mul(D, A)), dcN1(A)*(dcN1(B)+dcN1(D)), det, replay)
			sh.evalN("dualcmplx.Mul|laws|"+mode, 9)
			f := float64(r.Range(-12, 12)) / 4
			dcEq(c, "dualcmplx.Scale|"+mode+"|componentwise", "dualcmplx-ring", true, dualcmplx.Scale(f, A), dualcmplx.Number{Real: complex(f*real(A.Real), f*imag(A.Real)), Dual: complex(f*real(A.Dual), f*imag(A.Dual))}, 0, det, replay)
			dcEq(c, "dualcmplx.Add|"+mode+"|componentwise", "dualcmplx-ring", true, dualcmplx.Add(A, B), dualcmplx.Number{Real: A.Real + B.Real, Dual: A.Dual + B.Dual}, 0, det, replay)
			dcEq(c, "dualcmplx.Sub|"+mode+"|componentwise", "dualcmplx-ring", true, dualcmplx.Sub(A, B), dualcmplx.Number{Real: A.Real - B.Real, Dual: A.Dual - B.Dual}, 0, det, replay)
			sh.evalN("dualcmplx.Add/Sub/Scale|"+mode, 3)
			if cmplx.Abs(A.Real) < 0.4 {
				continue
			}
			one := dualcmplx.Number{Real: 1}
			inv := dualcmplx.Inv(A)
			sh.eval("dualcmplx.Inv|" + mode)
			cnd := dcN1(A) / cmplx.Abs(A.Real)
			cnd = 4 * cnd * cnd
			dcEq(c, "dualcmplx.Inv|generic|a-times-inverse-is-one", "dualcmplx-inv", false, dualcmplx.Mul(A, inv), one, cnd, det, replay)
			dcEq(c, "dualcmplx.Inv|generic|inverse-times-a-is-one", "dualcmplx-inv", false, dualcmplx.Mul(inv, A), one, cnd, det, replay)
			// |ab| = |a||b|
			sh.eval("dualcmplx.Abs|" + mode)
			if pa, ma := dualcmplx.Abs(dualcmplx.Mul(A, B)), dualcmplx.Abs(A)*dualcmplx.Abs(B); !within("dualcmplx-abs", math.Abs(pa-ma), cHCRing*u*s2, nil) {
				c.Violation("dualcmplx.Abs|generic|norm-not-multiplicative", fmt.Sprintf("|ab| = %.17g, |a||b| = %.17g for %s", pa, ma, det()), replay)
			}
			// rigid motion of the plane: for |p0| = 1,
			// p (1 + v ϵ) Conj(p) = 1 + (p0^2 v + 2 p0 p1) ϵ, and the action of p q is p after q.
			th := r.Uniform(-math.Pi, math.Pi)
			p := dualcmplx.Number{Real: cmplx.Rect(1, th), Dual: B.Dual}
			v := D.Dual
			got := dualcmplx.Mul(dualcmplx.Mul(p, dualcmplx.Number{Real: 1, Dual: v}), dualcmplx.Conj(p))
			want := dualcmplx.Number{Real: 1, Dual: cmplx.Rect(1, 2*th)*v + 2*p.Real*p.Dual}
			sh.eval("dualcmplx.Mul|rigid transformation")
			dcEq(c, "dualcmplx.Mul|rigid-transformation|differs-from-rotation-plus-translation", "dualcmplx-rigid", false, got, want, 8*(1+cmplx.Abs(v)+cmplx.Abs(p.Dual)), det, replay)
			// elementary functions (moderate arguments).
			x := dualcmplx.Number{Real: complex(r.Sym()*1.2, r.Sym()*1.2), Dual: complex(r.Sym()*2, r.Sym()*2)}
			if it%5 == 0 {
				x.Real = complex(real(x.Real), 0) // real "Real" part: separate branch in Exp and Log
			}
			path := "generic"
			if imag(x.Real) == 0 {
				path = "real-part-is-real"
			}
			xr := map[string]any{"x": dcOf(x)}
			xd := func() string { return fmt.Sprintf("x=%v", dcOf(x)) }
			sc := 40 * (1 + dcN1(x)) * math.Exp(cmplx.Abs(x.Real))
			sh.eval("dualcmplx.Exp|" + path)
			dcEq(c, "dualcmplx.Exp|"+path+"|differs-from-power-series", "dualcmplx-exp", false, dualcmplx.Exp(x), dcSeriesExp(x), sc, xd, xr)
			if cmplx.Abs(x.Real) > 0.3 && (imag(x.Real) != 0 || real(x.Real) > 0) {
				cnd := sc * (1 + 1/math.Max(math.Abs(imag(x.Real)), 0.05)) / cmplx.Abs(x.Real)
				if path == "real-part-is-real" {
					cnd = sc / cmplx.Abs(x.Real)
				}
				l := dualcmplx.Log(x)
				sh.eval("dualcmplx.Log|" + path)
				dcEq(c, "dualcmplx.Log|"+path+"|exp-of-log-is-not-identity", "dualcmplx-log", false, dcSeriesExp(l), x, cnd, xd, xr)
				s := dualcmplx.Sqrt(x)
				sh.eval("dualcmplx.Sqrt|" + path)
				dcEq(c, "dualcmplx.Sqrt|"+path+"|square-of-root-is-not-x", "dualcmplx-sqrt", false, dualcmplx.Mul(s, s), x, cnd, xd, xr)
				sh.eval("dualcmplx.PowReal|" + path)
				dcEq(c, "dualcmplx.PowReal|"+path+"|square-differs-from-product", "dualcmplx-powreal", false, dualcmplx.PowReal(x, 2), dualcmplx.Mul(x, x), 4*cnd, xd, xr)
				dcEq(c, "dualcmplx.PowReal|"+path+"|cube-differs-from-product", "dualcmplx-powreal", false, dualcmplx.PowReal(x, 3), dualcmplx.Mul(dualcmplx.Mul(x, x), x), 16*cnd, xd, xr)
				sh.eval("dualcmplx.Pow|" + path)
				dcEq(c, "dualcmplx.Pow|"+path+"|square-differs-from-product", "dualcmplx-pow", false, dualcmplx.Pow(x, dualcmplx.Number{Real: 2}), dualcmplx.Mul(x, x), 4*cnd, xd, xr)
			}
		}
		sh.flush()
	})
}
