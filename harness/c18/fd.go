package main

import (
	"fmt"
	"math"
	"sort"
	"sync"

	"gonum.org/v1/gonum/diff/fd"
	"gonum.org/v1/gonum/mat"
	"gonum.org/v1/gonum/verifx/vrt"
)

const (
	// general steps: |got - analytic| <= cFD u (S (D+T+2) |f|abs + S |f'|abs |x|) / h^d,
	// S = sum of |stencil coefficients| (squared for the two-fold formulas).
	cFD = 40 // base constant; calibrated factor and measured worst ratio: calib.go
)

// ---- integer polynomials ------------------------------------------------------

type term struct {
	c float64
	e []int
}

type poly struct {
	nv int
	t  []term
}

func (p poly) eval(x []float64) float64 {
	s := 0.0
	for _, t := range p.t {
		v := t.c
		for i, e := range t.e {
			for k := 0; k < e; k++ {
				v *= x[i]
			}
		}
		s += v
	}
	return s
}

// evalAbs evaluates sum |c| prod (|x_i|+pad)^e_i.
func (p poly) evalAbs(x []float64, pad float64) float64 {
	s := 0.0
	for _, t := range p.t {
		v := math.Abs(t.c)
		for i, e := range t.e {
			for k := 0; k < e; k++ {
				v *= math.Abs(x[i]) + pad
			}
		}
		s += v
	}
	return s
}

func (p poly) diff(i int) poly {
	q := poly{nv: p.nv}
	for _, t := range p.t {
		if t.e[i] == 0 {
			continue
		}
		e := append([]int(nil), t.e...)
		e[i]--
		q.t = append(q.t, term{t.c * float64(t.e[i]), e})
	}
	return q
}

func (p poly) totalDeg() int {
	d := 0
	for _, t := range p.t {
		s := 0
		for _, e := range t.e {
			s += e
		}
		if s > d {
			d = s
		}
	}
	return d
}

func (p poly) String() string {
	s := ""
	for k, t := range p.t {
		if k > 0 {
			s += " + "
		}
		s += fmt.Sprintf("%g", t.c)
		for i, e := range t.e {
			if e > 0 {
				s += fmt.Sprintf("*x%d^%d", i, e)
			}
		}
	}
	if s == "" {
		s = "0"
	}
	return s
}

// genPoly draws a polynomial in nv variables whose terms have per-variable
// exponents <= perVar and total degree <= total, plus (if pure > perVar) one
// pure power x_i^pure per variable with probability 1/2. Coefficients are
// non-zero integers in [-5,5] (or random reals if real).
func genPoly(r *vrt.Rand, nv, perVar, total, pure int, real bool) poly {
	p := poly{nv: nv}
	coef := func() float64 {
		if real {
			return r.Sym() * 5
		}
		v := float64(r.Range(1, 5))
		if r.Bool() {
			v = -v
		}
		return v
	}
	nt := r.Range(2, 6+nv)
	for k := 0; k < nt; k++ {
		e := make([]int, nv)
		left := total
		for _, i := range r.Perm(nv) {
			if left == 0 {
				break
			}
			m := perVar
			if m > left {
				m = left
			}
			if r.Chance(0.6) {
				e[i] = r.Range(0, m)
				left -= e[i]
			}
		}
		p.t = append(p.t, term{coef(), e})
	}
	// make sure every variable carries its maximal admissible exponent somewhere
	for i := 0; i < nv; i++ {
		e := make([]int, nv)
		e[i] = perVar
		if j := r.Intn(nv); j != i && total > perVar {
			e[j] = 1
		}
		p.t = append(p.t, term{coef(), e})
		if pure > perVar && r.Bool() {
			e2 := make([]int, nv)
			e2[i] = pure
			p.t = append(p.t, term{coef(), e2})
		}
	}
	return p
}

// ---- formulas -------------------------------------------------------------------

type fdFormula struct {
	name   string
	f      fd.Formula
	exact  int  // degree of exactness of the formula for its derivative order
	dyadic bool // all coefficients and locations are dyadic rationals
}

func fdFormulas() []fdFormula {
	return []fdFormula{
		{"Forward", fd.Forward, 1, true},
		{"Backward", fd.Backward, 1, true},
		{"Central", fd.Central, 2, true},
		{"Forward2nd", fd.Forward2nd, 2, true},
		{"Backward2nd", fd.Backward2nd, 2, true},
		{"Central2nd", fd.Central2nd, 3, true},
		// user formulas (the API is open): second order one-sided first
		// derivative, fourth order central first and second derivative.
		{"user:OneSided3", fd.Formula{Stencil: []fd.Point{{Loc: 0, Coeff: -1.5}, {Loc: 1, Coeff: 2}, {Loc: 2, Coeff: -0.5}}, Derivative: 1, Step: 1e-5}, 2, true},
		{"user:Central5", fd.Formula{Stencil: []fd.Point{{Loc: -2, Coeff: 1.0 / 12}, {Loc: -1, Coeff: -2.0 / 3}, {Loc: 1, Coeff: 2.0 / 3}, {Loc: 2, Coeff: -1.0 / 12}}, Derivative: 1, Step: 1e-3}, 4, false},
		{"user:Central2nd5", fd.Formula{Stencil: []fd.Point{{Loc: -2, Coeff: -1.0 / 12}, {Loc: -1, Coeff: 4.0 / 3}, {Loc: 0, Coeff: -2.5}, {Loc: 1, Coeff: 4.0 / 3}, {Loc: 2, Coeff: -1.0 / 12}}, Derivative: 2, Step: 1e-3}, 5, false},
	}
}

func stencilAbsSum(f fd.Formula) float64 {
	s := 0.0
	for _, p := range f.Stencil {
		s += math.Abs(p.Coeff)
	}
	return s
}

func stencilMaxLoc(f fd.Formula) float64 {
	s := 0.0
	for _, p := range f.Stencil {
		s = math.Max(s, math.Abs(p.Loc))
	}
	return s
}

func hasZeroLoc(f fd.Formula) bool {
	for _, p := range f.Stencil {
		if p.Loc == 0 {
			return true
		}
	}
	return false
}

// ---- evaluation ledger ------------------------------------------------------------

type ptLedger struct {
	mu  sync.Mutex
	pts map[string]int
	n   int
}

func newPtLedger() *ptLedger { return &ptLedger{pts: map[string]int{}} }

func ptKey(xs ...[]float64) string {
	b := make([]byte, 0, 64)
	for _, x := range xs {
		for _, v := range x {
			b = fmt.Appendf(b, "%016x,", math.Float64bits(v+0)) // +0: -0 and +0 are the same point
		}
		b = append(b, '|')
	}
	return string(b)
}

func (l *ptLedger) add(xs ...[]float64) {
	k := ptKey(xs...)
	l.mu.Lock()
	l.pts[k]++
	l.n++
	l.mu.Unlock()
}

// compare checks the ledger against the naive multiset of stencil points:
// every evaluated point must be a stencil point, no point may be evaluated
// more often than the naive formula needs it, every needed point must be
// evaluated at least once. It returns "" or the failing clause and detail.
//
// Point identity is only meaningful when the displaced points are exact
// (dyadic steps): with general steps the bits of x+Step*Loc depend on the
// order of the operations, so only the origin rule is checked there.
func (l *ptLedger) compare(naive map[string]int, originKey string, originKnown, exactPoints bool, originReturns int) (clause, detail string) {
	if !exactPoints {
		if n := l.pts[originKey]; n > originReturns && originKnown {
			return "origin-evaluated-although-known", fmt.Sprintf("the origin was evaluated %d time(s) with OriginKnown/OriginValue set", n)
		}
		total := 0
		for _, v := range naive {
			total += v
		}
		if l.n > total {
			return "too-many-evaluations", fmt.Sprintf("f was evaluated %d times, the formula needs %d", l.n, total)
		}
		return "", ""
	}
	keys := make([]string, 0, len(l.pts))
	for k := range l.pts {
		keys = append(keys, k)
	}
	sort.Strings(keys)
	for _, k := range keys {
		if k == originKey && originKnown {
			// originReturns: stencil combinations other than (0,0) that lead
			// back to the origin (x + l h - l h in a two-fold formula) are
			// ordinary evaluations.
			if l.pts[k] > originReturns {
				return "origin-evaluated-although-known", fmt.Sprintf("the origin was evaluated %d time(s) with OriginKnown/OriginValue set (%d other stencil combinations lead back to it)", l.pts[k], originReturns)
			}
			continue
		}
		want, ok := naive[k]
		if !ok {
			return "evaluation-outside-stencil", "f was evaluated at a point that is not x + Step*Loc for any stencil point"
		}
		if l.pts[k] > want {
			return "too-many-evaluations", fmt.Sprintf("a stencil point was evaluated %d times, the formula needs it %d time(s)", l.pts[k], want)
		}
	}
	nk := make([]string, 0, len(naive))
	for k := range naive {
		nk = append(nk, k)
	}
	sort.Strings(nk)
	for _, k := range nk {
		if k == originKey && originKnown {
			continue
		}
		if l.pts[k] == 0 {
			return "stencil-point-not-evaluated", "a stencil point with a non-zero coefficient was never evaluated"
		}
	}
	return "", ""
}

// ---- the check ------------------------------------------------------------------------

type fdCase struct {
	r         *vrt.Rand
	form      fdFormula
	exact     bool // dyadic step, integer data: exact equality demanded
	step      float64
	nv        int
	x         []float64
	known     bool
	conc      bool
	modeName  string
	generated bool
}

// ledgerPath is the path class of the evaluation-ledger clauses: which
// points are evaluated does not depend on the stencil coefficients, so the
// formula is not part of it.
func (k *fdCase) ledgerPath() string {
	s := "serial"
	if k.conc {
		s = "concurrent"
	}
	if k.known {
		s += ",origin-known"
	}
	return s
}

func (k *fdCase) path() string {
	s := k.form.name
	if k.conc {
		s += ",concurrent"
	} else {
		s += ",serial"
	}
	if k.known {
		s += ",origin-known"
	}
	return s
}

func checkFD(c *vrt.Ctx) {
	forms := fdFormulas()
	nFixed := len(forms)
	forms = append(forms, userFormulas()...)
	nPer := c.Pick(120, 1500)
	nUser := c.Pick(8, 64)
	type job struct {
		fi, rep int
	}
	var jobs []job
	for fi := range forms {
		n := nPer
		if fi >= nFixed {
			n = nUser
		}
		for rep := 0; rep < n; rep++ {
			jobs = append(jobs, job{fi, rep})
		}
	}
	vrt.Parallel(len(jobs), func(i int) {
		sh := newShard(c)
		j := jobs[i]
		r := c.RNG("fd", j.fi, j.rep)
		k := &fdCase{r: r, form: forms[j.fi]}
		k.exact = forms[j.fi].dyadic && j.rep%3 != 2
		k.nv = 1 + (j.rep/4)%8
		k.known = (j.rep/2)%2 == 1
		k.conc = j.rep%2 == 1
		k.generated = j.fi >= nFixed
		if k.generated {
			k.nv = 1 + (j.rep/4)%3
		}
		k.setup()
		if k.generated && k.exact && !k.fitExactDegree() {
			// not even the derivative order is representable exactly:
			// judge this case with the rounding band instead.
			k.exact = false
			k.setup()
			c.Count("fd_generated_formula_cases_moved_from_exact_to_rounding_mode", 1)
		}
		fdDerivative(c, sh, k)
		switch k.form.f.Derivative {
		case 1:
			fdGradientJacobian(c, sh, k)
			fdHessian(c, sh, k)
			fdCrossLaplacian(c, sh, k)
		case 2:
			fdLaplacian(c, sh, k)
		}
		sh.flush()
	})
	fdDefaults(c)
	fdDomain(c)
}

// setup draws the point and the step. In exact mode the coordinates are
// integers/4 in [-4,4] and the step is 2^-k with k small enough that every
// sample of a degree <= 5 integer polynomial and every partial sum of the
// formula is exactly representable (checked per call by exactOK).
func (k *fdCase) setup() {
	r := k.r
	k.x = make([]float64, k.nv)
	if k.generated {
		// many-point and high-order stencils: small quarter-integer
		// coordinates and steps 1, 1/2, 1/4 in exact mode; steps that keep
		// h^-d moderate in rounding mode.
		if k.exact {
			k.modeName = "exact-dyadic"
			for i := range k.x {
				k.x[i] = float64(r.Range(-4, 4)) / 4
			}
			k.step = math.Ldexp(1, -r.Range(0, 2))
			return
		}
		k.modeName = "rounding-band"
		for i := range k.x {
			k.x[i] = r.Sym() * 2
		}
		k.step = r.PickFloat(0.3, 0.1, 1.0/3, 0.05, 0.01)
		return
	}
	if k.exact {
		k.modeName = "exact-dyadic"
		for i := range k.x {
			k.x[i] = float64(r.Range(-16, 16)) / 4
		}
		k.step = math.Ldexp(1, -r.Range(0, 5))
		return
	}
	k.modeName = "rounding-band"
	for i := range k.x {
		k.x[i] = r.Sym() * 3
	}
	k.step = r.PickFloat(0.1, 0.01, 1e-3, 0.3, 1.0/3, 2e-8*math.Pow(10, r.Uniform(2, 6)))
}

// exactOK reports whether all samples and partial sums are exactly
// representable: sum |c| prod (|x_i|+maxLoc*h*2)^e times 2^(s D) times the
// stencil amplification stays below 2^47, s = bits of the finest dyadic grid.
func exactOK(p poly, x []float64, h, maxLoc float64) bool {
	s := math.Max(2, 1-math.Log2(h)) // coordinates are multiples of 2^-2, locations of 1/2
	B := p.evalAbs(x, 2*maxLoc*h) * math.Exp2(s*float64(p.totalDeg()))
	return B < math.Exp2(47)
}

func (k *fdCase) settings(originValue float64) *fd.Settings {
	return &fd.Settings{Formula: k.form.f, Step: k.step, OriginKnown: k.known, OriginValue: originValue, Concurrent: k.conc}
}

// judge compares got with want: exactly in exact mode, within the rounding
// band otherwise.
func (k *fdCase) judge(c *vrt.Ctx, routine, clause string, got, want, band float64, replay any, what string) {
	sig := "fd." + routine + "|" + k.path() + "|" + clause
	if k.exact {
		if got != want {
			c.Violation(sig, fmt.Sprintf("%s: exact arithmetic case (dyadic step %g, integer polynomial): got %.17g want %.17g", what, k.step, got, want), replay)
		}
		return
	}
	where := func() string { return fmt.Sprintf("%s %s step=%g nv=%d", routine, k.path(), k.step, k.nv) }
	if !within("fd-"+routine, math.Abs(got-want), cFD*u*band, where) {
		c.Violation(sig, fmt.Sprintf("%s: step %g: got %.17g want %.17g (band %g)", what, k.step, got, want, cFD*u*band), replay)
	}
}

func (k *fdCase) band(p poly, order int, fold float64) float64 {
	h := k.step
	ml := stencilMaxLoc(k.form.f)
	S := stencilAbsSum(k.form.f)
	if fold == 2 {
		S *= S
	}
	fabs := p.evalAbs(k.x, 2*ml*h)
	dabs := 0.0
	xm := 0.0
	for i := 0; i < p.nv; i++ {
		dabs = math.Max(dabs, p.diff(i).evalAbs(k.x, 2*ml*h))
		xm = math.Max(xm, math.Abs(k.x[i])+ml*h)
	}
	return (S*float64(p.totalDeg()+len(p.t)+2)*fabs + S*dabs*xm) / math.Pow(h, float64(order))
}

func fdDerivative(c *vrt.Ctx, sh *evalShard, k *fdCase) {
	r := k.r
	var p poly
	for try := 0; ; try++ {
		p = genPoly(r, 1, k.form.exact, k.form.exact, 0, !k.exact)
		if !k.exact || exactOK(p, k.x[:1], k.step, stencilMaxLoc(k.form.f)) {
			break
		}
		if try > 20 {
			return
		}
	}
	x := k.x[0]
	want := p
	for d := 0; d < k.form.f.Derivative; d++ {
		want = want.diff(0)
	}
	led := newPtLedger()
	f := func(v float64) float64 { led.add([]float64{v}); return p.eval([]float64{v}) }
	origin := p.eval([]float64{x})
	var got float64
	replay := map[string]any{"formula": k.form.name, "step": k.step, "x": x, "f": p.String(), "origin_known": k.known, "concurrent": k.conc}
	c.LastCase(fmt.Sprintf("fd.Derivative %s x=%g step=%g", k.path(), x, k.step))
	if pn := vrt.Try(func() { got = fd.Derivative(f, x, k.settings(origin)) }); pn != nil {
		c.Violation("fd.Derivative|"+k.path()+"|panic", pn.Msg, replay)
		return
	}
	sh.eval("Derivative|" + k.path() + "|" + k.modeName)
	k.judge(c, "Derivative", "polynomial-not-exact", got, want.eval([]float64{x}), k.band(p, k.form.f.Derivative, 1), replay, fmt.Sprintf("d^%d/dx^%d of degree-%d polynomial %s at %g", k.form.f.Derivative, k.form.f.Derivative, k.form.exact, p, x))
	naive := map[string]int{}
	for _, pt := range k.form.f.Stencil {
		naive[ptKey([]float64{x + k.step*pt.Loc})]++
	}
	if cl, det := led.compare(naive, ptKey([]float64{x}), k.known && hasZeroLoc(k.form.f), k.exact, 0); cl != "" {
		c.Violation("fd.Derivative|"+k.ledgerPath()+"|"+cl, det, replay)
	}
}

func displaced(x []float64, i int, d float64) []float64 {
	y := append([]float64(nil), x...)
	y[i] += d
	return y
}

func fdGradientJacobian(c *vrt.Ctx, sh *evalShard, k *fdCase) {
	r := k.r
	nv := k.nv
	m := r.Range(1, 4)
	ps := make([]poly, m)
	for j := range ps {
		for try := 0; ; try++ {
			ps[j] = genPoly(r, nv, k.form.exact, k.form.exact+1, 0, !k.exact)
			if !k.exact || exactOK(ps[j], k.x, k.step, stencilMaxLoc(k.form.f)) {
				break
			}
			if try > 20 {
				return
			}
		}
	}
	x := k.x
	xsnap := append([]float64(nil), x...)
	p := ps[0]
	replay := map[string]any{"formula": k.form.name, "step": k.step, "x": x, "f": p.String(), "origin_known": k.known, "concurrent": k.conc}

	// Gradient
	led := newPtLedger()
	f := func(v []float64) float64 { led.add(v); return p.eval(v) }
	dst := make([]float64, nv)
	if r.Bool() {
		dst = nil
	} else {
		vrt.FillTaint(dst)
	}
	var got []float64
	c.LastCase(fmt.Sprintf("fd.Gradient %s nv=%d step=%g", k.path(), nv, k.step))
	if pn := vrt.Try(func() { got = fd.Gradient(dst, f, x, k.settings(p.eval(x))) }); pn != nil {
		c.Violation("fd.Gradient|"+k.path()+"|panic", pn.Msg, replay)
		return
	}
	sh.eval(fmt.Sprintf("Gradient|%s|%s|nv=%d", k.path(), k.modeName, nv))
	if dst != nil && &got[0] != &dst[0] {
		c.Violation("fd.Gradient|"+k.path()+"|dst-not-returned", "a non-nil dst must be filled and returned", replay)
	}
	for i := range x {
		if !sameBits(x[i], xsnap[i]) {
			c.Violation("fd.Gradient|"+k.path()+"|x-modified", "the caller's x was modified", replay)
		}
	}
	grad := make([]float64, nv)
	for i := 0; i < nv; i++ {
		grad[i] = p.diff(i).eval(x)
		k.judge(c, "Gradient", "polynomial-not-exact", got[i], grad[i], k.band(p, 1, 1), replay, fmt.Sprintf("d/dx%d of %s", i, p))
	}
	naive := map[string]int{}
	for i := 0; i < nv; i++ {
		for _, pt := range k.form.f.Stencil {
			if pt.Loc != 0 {
				naive[ptKey(displaced(x, i, pt.Loc*k.step))]++
			}
		}
	}
	if hasZeroLoc(k.form.f) {
		naive[ptKey(x)]++
	}
	if cl, det := led.compare(naive, ptKey(x), k.known && hasZeroLoc(k.form.f), k.exact, 0); cl != "" {
		c.Violation("fd.Gradient|"+k.ledgerPath()+"|"+cl, det, replay)
	}

	// Jacobian of (p_0..p_{m-1}); row 0 must agree with Gradient.
	jled := newPtLedger()
	jf := func(y, v []float64) {
		jled.add(v)
		for j := range y {
			y[j] = ps[j].eval(v)
		}
	}
	var origin []float64
	if k.known {
		origin = make([]float64, m)
		for j := range origin {
			origin[j] = ps[j].eval(x)
		}
	}
	J := mat.NewDense(m, nv, nil)
	for i := 0; i < m; i++ {
		for j := 0; j < nv; j++ {
			J.Set(i, j, vrt.Taint(i*nv+j))
		}
	}
	jreplay := map[string]any{"formula": k.form.name, "step": k.step, "x": x, "f0": p.String(), "m": m, "origin_known": k.known, "concurrent": k.conc}
	c.LastCase(fmt.Sprintf("fd.Jacobian %s m=%d nv=%d step=%g", k.path(), m, nv, k.step))
	if pn := vrt.Try(func() {
		fd.Jacobian(J, jf, x, &fd.JacobianSettings{Formula: k.form.f, Step: k.step, OriginValue: origin, Concurrent: k.conc})
	}); pn != nil {
		c.Violation("fd.Jacobian|"+k.path()+"|panic", pn.Msg, jreplay)
		return
	}
	sh.eval(fmt.Sprintf("Jacobian|%s|%s|nv=%d", k.path(), k.modeName, nv))
	for i := 0; i < m; i++ {
		for j := 0; j < nv; j++ {
			k.judge(c, "Jacobian", "polynomial-not-exact", J.At(i, j), ps[i].diff(j).eval(x), k.band(ps[i], 1, 1), jreplay, fmt.Sprintf("d f%d/dx%d of %s", i, j, ps[i]))
		}
	}
	for j := 0; j < nv; j++ {
		if k.exact {
			if J.At(0, j) != got[j] {
				c.Violation("fd.Jacobian|"+k.path()+"|row-differs-from-Gradient", fmt.Sprintf("J[0][%d]=%.17g Gradient[%d]=%.17g", j, J.At(0, j), j, got[j]), jreplay)
			}
		} else {
			where := func() string { return "Jacobian-vs-Gradient " + k.path() }
			if !within("fd-Jacobian-vs-Gradient", math.Abs(J.At(0, j)-got[j]), 2*cFD*u*k.band(p, 1, 1), where) {
				c.Violation("fd.Jacobian|"+k.path()+"|row-differs-from-Gradient", fmt.Sprintf("J[0][%d]=%.17g Gradient[%d]=%.17g", j, J.At(0, j), j, got[j]), jreplay)
			}
		}
	}
	if cl, det := jled.compare(naive, ptKey(x), k.known && hasZeroLoc(k.form.f), k.exact, 0); cl != "" {
		c.Violation("fd.Jacobian|"+k.ledgerPath()+"|"+cl, det, jreplay)
	}
}

func fdHessian(c *vrt.Ctx, sh *evalShard, k *fdCase) {
	r := k.r
	nv := k.nv
	var p poly
	for try := 0; ; try++ {
		p = genPoly(r, nv, k.form.exact, k.form.exact+1, k.form.exact+1, !k.exact)
		if !k.exact || exactOK(p, k.x, k.step, 2*stencilMaxLoc(k.form.f)) {
			break
		}
		if try > 20 {
			return
		}
	}
	x := k.x
	led := newPtLedger()
	f := func(v []float64) float64 { led.add(v); return p.eval(v) }
	var H mat.SymDense
	if r.Bool() {
		H = *mat.NewSymDense(nv, nil)
		for i := 0; i < nv; i++ {
			for j := i; j < nv; j++ {
				H.SetSym(i, j, vrt.Taint(i*nv+j))
			}
		}
	}
	replay := map[string]any{"formula": k.form.name, "step": k.step, "x": x, "f": p.String(), "origin_known": k.known, "concurrent": k.conc}
	c.LastCase(fmt.Sprintf("fd.Hessian %s nv=%d step=%g", k.path(), nv, k.step))
	if pn := vrt.Try(func() { fd.Hessian(&H, f, x, k.settings(p.eval(x))) }); pn != nil {
		c.Violation("fd.Hessian|"+k.path()+"|panic", pn.Msg, replay)
		return
	}
	sh.eval(fmt.Sprintf("Hessian|%s|%s|nv=%d", k.path(), k.modeName, nv))
	band := k.band(p, 2, 2)
	trace := 0.0
	for i := 0; i < nv; i++ {
		for j := 0; j < nv; j++ {
			want := p.diff(i).diff(j).eval(x)
			if i == j {
				trace += want
			}
			k.judge(c, "Hessian", "polynomial-not-exact", H.At(i, j), want, band, replay, fmt.Sprintf("d2/dx%ddx%d of %s", i, j, p))
		}
	}
	naive := map[string]int{}
	for i := 0; i < nv; i++ {
		for j := i; j < nv; j++ {
			for _, pi := range k.form.f.Stencil {
				for _, pj := range k.form.f.Stencil {
					if pi.Loc == 0 && pj.Loc == 0 {
						continue
					}
					y := append([]float64(nil), x...)
					y[i] += pi.Loc * k.step
					y[j] += pj.Loc * k.step
					naive[ptKey(y)]++
				}
			}
		}
	}
	if hasZeroLoc(k.form.f) {
		naive[ptKey(x)]++
	}
	returns := 0
	for _, pi := range k.form.f.Stencil {
		for _, pj := range k.form.f.Stencil {
			if pi.Loc+pj.Loc == 0 && pi.Loc != 0 {
				returns += nv
			}
		}
	}
	if cl, det := led.compare(naive, ptKey(x), k.known && hasZeroLoc(k.form.f), k.exact, returns); cl != "" {
		c.Violation("fd.Hessian|"+k.ledgerPath()+"|"+cl, det, replay)
	}

	// Hessian = Jacobian of the (analytic) gradient, same formula and step.
	gs := make([]poly, nv)
	ok := true
	for i := range gs {
		gs[i] = p.diff(i)
		// the gradient components must stay in the exactness class of the
		// first-derivative formula: drop the pure powers' excess degree.
		for _, t := range gs[i].t {
			for _, e := range t.e {
				if e > k.form.exact {
					ok = false
				}
			}
		}
	}
	if ok {
		J := mat.NewDense(nv, nv, nil)
		jf := func(y, v []float64) {
			for j := range y {
				y[j] = gs[j].eval(v)
			}
		}
		if pn := vrt.Try(func() {
			fd.Jacobian(J, jf, x, &fd.JacobianSettings{Formula: k.form.f, Step: k.step, Concurrent: k.conc})
		}); pn != nil {
			c.Violation("fd.Jacobian|"+k.path()+"|panic", pn.Msg, replay)
			return
		}
		sh.eval(fmt.Sprintf("Jacobian(of gradient)|%s|%s|nv=%d", k.path(), k.modeName, nv))
		for i := 0; i < nv; i++ {
			for j := 0; j < nv; j++ {
				d := math.Abs(J.At(i, j) - H.At(i, j))
				bad := false
				if k.exact {
					bad = d != 0
				} else {
					bj := 0.0
					for _, g := range gs {
						bj = math.Max(bj, k.band(g, 1, 1))
					}
					bad = !within("fd-Hessian-vs-Jacobian", d, cFD*u*(band+bj), func() string { return k.path() })
				}
				if bad {
					c.Violation("fd.Hessian|"+k.path()+"|differs-from-Jacobian-of-gradient", fmt.Sprintf("H[%d][%d]=%.17g, Jacobian of the analytic gradient gives %.17g", i, j, H.At(i, j), J.At(i, j)), replay)
				}
			}
		}
	}

	// Laplacian (Central2nd, same step) = trace of the Hessian whenever the
	// polynomial is also in the exactness class of Central2nd (degree <= 3
	// per variable).
	inCls := true
	for _, t := range p.t {
		for _, e := range t.e {
			if e > 3 {
				inCls = false
			}
		}
	}
	if inCls && (!k.exact || exactOK(p, x, k.step, 2)) {
		var lap float64
		if pn := vrt.Try(func() {
			lap = fd.Laplacian(func(v []float64) float64 { return p.eval(v) }, x, &fd.Settings{Formula: fd.Central2nd, Step: k.step, Concurrent: k.conc})
		}); pn != nil {
			c.Violation("fd.Laplacian|Central2nd|panic", pn.Msg, replay)
			return
		}
		sh.eval(fmt.Sprintf("Laplacian(vs trace Hessian)|%s|nv=%d", k.modeName, nv))
		tr := 0.0
		for i := 0; i < nv; i++ {
			tr += H.At(i, i)
		}
		bad := false
		if k.exact {
			bad = lap != tr || lap != trace
		} else {
			kk := *k
			kk.form = fdFormula{"Central2nd", fd.Central2nd, 3, true}
			bad = !within("fd-Laplacian-vs-trace", math.Abs(lap-tr), cFD*u*(float64(nv)*band+float64(nv)*kk.band(p, 2, 1)), func() string { return k.path() })
		}
		if bad {
			c.Violation("fd.Laplacian|"+k.path()+"|differs-from-trace-of-Hessian", fmt.Sprintf("Laplacian(Central2nd)=%.17g, trace Hessian(%s)=%.17g, analytic %.17g", lap, k.form.name, tr, trace), replay)
		}
	}
}

func fdLaplacian(c *vrt.Ctx, sh *evalShard, k *fdCase) {
	r := k.r
	nv := k.nv
	var p poly
	for try := 0; ; try++ {
		p = genPoly(r, nv, k.form.exact, k.form.exact+1, 0, !k.exact)
		if !k.exact || exactOK(p, k.x, k.step, stencilMaxLoc(k.form.f)) {
			break
		}
		if try > 20 {
			return
		}
	}
	x := k.x
	led := newPtLedger()
	f := func(v []float64) float64 { led.add(v); return p.eval(v) }
	replay := map[string]any{"formula": k.form.name, "step": k.step, "x": x, "f": p.String(), "origin_known": k.known, "concurrent": k.conc}
	var got float64
	c.LastCase(fmt.Sprintf("fd.Laplacian %s nv=%d step=%g", k.path(), nv, k.step))
	if pn := vrt.Try(func() { got = fd.Laplacian(f, x, k.settings(p.eval(x))) }); pn != nil {
		c.Violation("fd.Laplacian|"+k.path()+"|panic", pn.Msg, replay)
		return
	}
	sh.eval(fmt.Sprintf("Laplacian|%s|%s|nv=%d", k.path(), k.modeName, nv))
	want := 0.0
	for i := 0; i < nv; i++ {
		want += p.diff(i).diff(i).eval(x)
	}
	k.judge(c, "Laplacian", "polynomial-not-exact", got, want, float64(nv)*k.band(p, 2, 1), replay, "Laplacian of "+p.String())
	naive := map[string]int{}
	for i := 0; i < nv; i++ {
		for _, pt := range k.form.f.Stencil {
			if pt.Loc != 0 {
				naive[ptKey(displaced(x, i, pt.Loc*k.step))]++
			}
		}
	}
	if hasZeroLoc(k.form.f) {
		naive[ptKey(x)]++
	}
	if cl, det := led.compare(naive, ptKey(x), k.known && hasZeroLoc(k.form.f), k.exact, 0); cl != "" {
		c.Violation("fd.Laplacian|"+k.ledgerPath()+"|"+cl, det, replay)
	}
}

func fdCrossLaplacian(c *vrt.Ctx, sh *evalShard, k *fdCase) {
	r := k.r
	n := (k.nv + 1) / 2
	z := make([]float64, 2*n)
	for i := range z {
		if k.exact {
			z[i] = float64(r.Range(-16, 16)) / 4
		} else {
			z[i] = r.Sym() * 3
		}
	}
	var p poly
	for try := 0; ; try++ {
		p = genPoly(r, 2*n, k.form.exact, k.form.exact+1, 0, !k.exact)
		if !k.exact || exactOK(p, z, k.step, stencilMaxLoc(k.form.f)) {
			break
		}
		if try > 20 {
			return
		}
	}
	x, y := z[:n], z[n:]
	led := newPtLedger()
	join := func(a, b []float64) []float64 { return append(append([]float64(nil), a...), b...) }
	f := func(a, b []float64) float64 { led.add(a, b); return p.eval(join(a, b)) }
	replay := map[string]any{"formula": k.form.name, "step": k.step, "x": x, "y": y, "f(x,y) with z=(x,y)": p.String(), "origin_known": k.known, "concurrent": k.conc}
	var got float64
	c.LastCase(fmt.Sprintf("fd.CrossLaplacian %s n=%d step=%g", k.path(), n, k.step))
	if pn := vrt.Try(func() { got = fd.CrossLaplacian(f, x, y, k.settings(p.eval(z))) }); pn != nil {
		c.Violation("fd.CrossLaplacian|"+k.path()+"|panic", pn.Msg, replay)
		return
	}
	sh.eval(fmt.Sprintf("CrossLaplacian|%s|%s|n=%d", k.path(), k.modeName, n))
	want := 0.0
	for i := 0; i < n; i++ {
		want += p.diff(i).diff(n + i).eval(z)
	}
	kk := *k
	kk.x = z
	band := float64(n) * kk.band(p, 2, 2)
	k.judge(c, "CrossLaplacian", "polynomial-not-exact", got, want, band, replay, "sum_i d2/dx_i dy_i of "+p.String())
	naive := map[string]int{}
	for i := 0; i < n; i++ {
		for _, px := range k.form.f.Stencil {
			for _, py := range k.form.f.Stencil {
				if px.Loc == 0 && py.Loc == 0 {
					continue
				}
				naive[ptKey(displaced(x, i, px.Loc*k.step), displaced(y, i, py.Loc*k.step))]++
			}
		}
	}
	if hasZeroLoc(k.form.f) {
		naive[ptKey(x, y)]++
	}
	if cl, det := led.compare(naive, ptKey(x, y), k.known && hasZeroLoc(k.form.f), k.exact, 0); cl != "" {
		c.Violation("fd.CrossLaplacian|"+k.ledgerPath()+"|"+cl, det, replay)
	}

	// = trace of the off-diagonal block of the Hessian of g(z) = f(z[:n], z[n:]).
	var H mat.SymDense
	if pn := vrt.Try(func() {
		fd.Hessian(&H, func(v []float64) float64 { return p.eval(v) }, z, &fd.Settings{Formula: k.form.f, Step: k.step, Concurrent: k.conc})
	}); pn != nil {
		c.Violation("fd.Hessian|"+k.path()+"|panic", pn.Msg, replay)
		return
	}
	sh.eval(fmt.Sprintf("Hessian(vs CrossLaplacian)|%s|%s|n=%d", k.path(), k.modeName, n))
	tr := 0.0
	for i := 0; i < n; i++ {
		tr += H.At(i, n+i)
	}
	bad := false
	if k.exact {
		bad = tr != got
	} else {
		bad = !within("fd-CrossLaplacian-vs-Hessian", math.Abs(tr-got), 2*cFD*u*band, func() string { return k.path() })
	}
	if bad {
		c.Violation("fd.CrossLaplacian|"+k.path()+"|differs-from-Hessian-block-trace", fmt.Sprintf("CrossLaplacian=%.17g, sum_i H[i][n+i]=%.17g, analytic %.17g", got, tr, want), replay)
	}
}

// fdDefaults exercises the nil-settings paths (default formula and step):
// the polynomial is in the exactness class, so only rounding remains.
func fdDefaults(c *vrt.Ctx) {
	n := c.Pick(200, 2000)
	vrt.Parallel(n, func(i int) {
		r := c.RNG("fd-defaults", i)
		nv := 1 + i%8
		x := make([]float64, nv)
		for j := range x {
			x[j] = r.Sym() * 2
		}
		mk := func(form fdFormula, step float64) *fdCase {
			return &fdCase{r: r, form: form, step: step, nv: nv, x: x, modeName: "defaults"}
		}
		fw := fdFormula{"Forward(default)", fd.Forward, 1, true}
		c2 := fdFormula{"Central2nd(default)", fd.Central2nd, 3, true}
		// Derivative(nil), Gradient(nil), Jacobian(nil): Forward, step 2e-8.
		k := mk(fw, fd.Forward.Step)
		p := genPoly(r, nv, 1, 2, 0, true)
		var g []float64
		if pn := vrt.Try(func() { g = fd.Gradient(nil, func(v []float64) float64 { return p.eval(v) }, x, nil) }); pn != nil {
			c.Violation("fd.Gradient|defaults|panic", pn.Msg, nil)
			return
		}
		c.Eval(fmt.Sprintf("Gradient|defaults|nv=%d", nv), true)
		for j := range g {
			k.judge(c, "Gradient", "polynomial-not-exact", g[j], p.diff(j).eval(x), k.band(p, 1, 1), map[string]any{"x": x, "f": p.String()}, "default settings")
		}
		p1 := genPoly(r, 1, 1, 1, 0, true)
		var d float64
		if pn := vrt.Try(func() { d = fd.Derivative(func(v float64) float64 { return p1.eval([]float64{v}) }, x[0], nil) }); pn != nil {
			c.Violation("fd.Derivative|defaults|panic", pn.Msg, nil)
			return
		}
		c.Eval("Derivative|defaults", true)
		k1 := mk(fw, fd.Forward.Step)
		k1.nv, k1.x = 1, x[:1]
		k1.judge(c, "Derivative", "polynomial-not-exact", d, p1.diff(0).eval(x[:1]), k1.band(p1, 1, 1), map[string]any{"x": x[0], "f": p1.String()}, "default settings")
		// Hessian(nil), CrossLaplacian(nil): Forward, step sqrt(2e-8).
		kh := mk(fw, math.Sqrt(fd.Forward.Step))
		ph := genPoly(r, nv, 1, 2, 2, true)
		var H mat.SymDense
		if pn := vrt.Try(func() { fd.Hessian(&H, func(v []float64) float64 { return ph.eval(v) }, x, nil) }); pn != nil {
			c.Violation("fd.Hessian|defaults|panic", pn.Msg, nil)
			return
		}
		c.Eval(fmt.Sprintf("Hessian|defaults|nv=%d", nv), true)
		for a := 0; a < nv; a++ {
			for b := 0; b < nv; b++ {
				kh.judge(c, "Hessian", "polynomial-not-exact", H.At(a, b), ph.diff(a).diff(b).eval(x), kh.band(ph, 2, 2), map[string]any{"x": x, "f": ph.String()}, "default settings")
			}
		}
		// Laplacian(nil): Central2nd, step 1e-4.
		kl := mk(c2, fd.Central2nd.Step)
		pl := genPoly(r, nv, 3, 3, 0, true)
		var lap float64
		if pn := vrt.Try(func() { lap = fd.Laplacian(func(v []float64) float64 { return pl.eval(v) }, x, nil) }); pn != nil {
			c.Violation("fd.Laplacian|defaults|panic", pn.Msg, nil)
			return
		}
		c.Eval(fmt.Sprintf("Laplacian|defaults|nv=%d", nv), true)
		want := 0.0
		for a := 0; a < nv; a++ {
			want += pl.diff(a).diff(a).eval(x)
		}
		kl.judge(c, "Laplacian", "polynomial-not-exact", lap, want, float64(nv)*kl.band(pl, 2, 1), map[string]any{"x": x, "f": pl.String()}, "default settings")
	})
}

func fdDomain(c *vrt.Ctx) {
	one := func([]float64) float64 { return 1 }
	x2 := []float64{1, 2}
	bad := fd.Formula{Stencil: fd.Forward.Stencil, Derivative: 1, Step: -1}
	cases := []struct {
		name string
		f    func()
	}{
		{"Gradient|second-derivative-formula", func() { fd.Gradient(nil, one, x2, &fd.Settings{Formula: fd.Central2nd}) }},
		{"Gradient|dst-length", func() { fd.Gradient(make([]float64, 3), one, x2, nil) }},
		{"Gradient|formula-step<=0", func() { fd.Gradient(nil, one, x2, &fd.Settings{Formula: bad}) }},
		{"Derivative|formula-step<=0", func() { fd.Derivative(func(float64) float64 { return 1 }, 0, &fd.Settings{Formula: bad}) }},
		{"Jacobian|second-derivative-formula", func() {
			fd.Jacobian(mat.NewDense(1, 2, nil), func(y, x []float64) {}, x2, &fd.JacobianSettings{Formula: fd.Central2nd})
		}},
		{"Jacobian|columns", func() { fd.Jacobian(mat.NewDense(1, 3, nil), func(y, x []float64) {}, x2, nil) }},
		{"Jacobian|origin-length", func() {
			fd.Jacobian(mat.NewDense(1, 2, nil), func(y, x []float64) {}, x2, &fd.JacobianSettings{OriginValue: []float64{1, 2}})
		}},
		{"Hessian|second-derivative-formula", func() { fd.Hessian(mat.NewSymDense(2, nil), one, x2, &fd.Settings{Formula: fd.Central2nd}) }},
		{"Hessian|size", func() { fd.Hessian(mat.NewSymDense(3, nil), one, x2, nil) }},
		{"Hessian|negative-step", func() { fd.Hessian(mat.NewSymDense(2, nil), one, x2, &fd.Settings{Step: -1}) }},
		{"Laplacian|first-derivative-formula", func() { fd.Laplacian(one, x2, &fd.Settings{Formula: fd.Forward}) }},
		{"Laplacian|negative-step", func() { fd.Laplacian(one, x2, &fd.Settings{Step: -1}) }},
		{"CrossLaplacian|second-derivative-formula", func() {
			fd.CrossLaplacian(func(a, b []float64) float64 { return 1 }, x2, x2, &fd.Settings{Formula: fd.Central2nd})
		}},
		{"CrossLaplacian|length-mismatch", func() { fd.CrossLaplacian(func(a, b []float64) float64 { return 1 }, x2, []float64{1}, nil) }},
	}
	for _, d := range cases {
		p := vrt.Try(d.f)
		c.Eval("fd.domain|"+d.name, true)
		if p == nil || p.Runtime {
			msg := "no panic"
			if p != nil {
				msg = p.Msg
			}
			c.Violation("fd."+d.name+"|wrong-rejection", msg, d.name)
		}
	}
}
