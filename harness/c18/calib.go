// Code generated from the calibration runs (tree with the candidate fixes,
// seeds 1,2,3,7,42, both tiers); edit by re-running the calibration.

package main

// bandScale multiplies the base constant of a band so that the worst error
// observed in calibration is at most 1% of the band (>= 100x margin). The
// comment gives the worst observed fraction of the UNSCALED band.
var bandScale = map[string]float64{
	"ad-derivative/hyperdual":     2,   // worst 0.0119 at Asin generic
	"ad-powreal-vs-mul/hyperdual": 0.5, // worst 0.00353 at -
	"ad-real/dual":                10,  // worst 0.0493 at Pow generic
	"ad-real/hyperdual":           10,  // worst 0.049 at Pow generic
	"ad-ring/dual":                10,  // worst 0.0529 at associative
	"ad-ring/hyperdual":           10,  // worst 0.0578 at commutative
	"dualcmplx-abs":               5,   // worst 0.036 at -
	"dualcmplx-exp":               0.5, // worst 0.00179 at dualcmplx.Exp|generic|differs-from-power-series
	"dualcmplx-log":               200, // worst 1.44 at dualcmplx.Log|generic|exp-of-log-is-not-identity
	"dualcmplx-pow":               10,  // worst 0.0628 at dualcmplx.Pow|generic|square-differs-from-product
	"dualcmplx-powreal":           10,  // worst 0.0628 at dualcmplx.PowReal|generic|square-differs-from-product
	"dualcmplx-rigid":             2,   // worst 0.0096 at dualcmplx.Mul|rigid-transformation|differs-from-rotation-plu
	"dualcmplx-ring":              5,   // worst 0.0214 at dualcmplx.Mul|random|right-distributive
	"dualcmplx-sqrt":              20,  // worst 0.125 at dualcmplx.Sqrt|generic|square-of-root-is-not-x
	"dualquat-abs":                5,   // worst 0.022 at -
	"dualquat-exp/dual-part-commutes-with-real":     0.2, // worst 0.00141 at dualquat.Exp|dual-part-commutes-with-real|differs-from-power
	"dualquat-pow/dual-part-commutes-with-real":     0.1, // worst 0.000459 at dualquat.Pow|dual-part-commutes-with-real|square-differs-fro
	"dualquat-powreal/dual-part-commutes-with-real": 0.2, // worst 0.00152 at dualquat.PowReal|dual-part-commutes-with-real|square-differs
	"dualquat-rigid": 2, // worst 0.0153 at -
	"dualquat-ring":  2, // worst 0.0108 at dualquat.Conj|random|anti-homomorphism
	"dualquat-sqrt/dual-part-commutes-with-real":              0.2, // worst 0.000807 at dualquat.Sqrt|dual-part-commutes-with-real|square-of-root-is
	"fd-CrossLaplacian":                                       0.5, // worst 0.00213 at CrossLaplacian Forward,serial step=0.01 nv=2
	"fd-CrossLaplacian-vs-Hessian":                            0.1, // worst 0.000374 at user:OneSided3,concurrent
	"fd-Hessian-vs-Jacobian":                                  0.5, // worst 0.00376 at Forward,concurrent,origin-known
	"fd-Jacobian-vs-Gradient":                                 0.1, // worst 0.000552 at Jacobian-vs-Gradient Backward,serial
	"fd-Laplacian-vs-trace":                                   0.5, // worst 0.0029 at Forward,concurrent,origin-known
	"fixed-weighted-sum":                                      10,  // worst 0.0812 at finite,rule=slices-only n=3 deg=0
	"hermite-moment/asymptotic":                               2,   // worst 0.00881 at n=201
	"hermite-outermost-weight/asymptotic":                     0.5, // worst 0.00235 at n=202
	"hermite-outermost-weight/tabulated-known-defective-rows": 0.5, // worst 0.00282 at n=145
	"hermite-root/tabulated-known-defective-rows":             0.2, // worst 0.00142 at n=55
	"hermite-weight-sum/tabulated":                            2,   // worst 0.0141 at n=101
	"hermite-weight/tabulated-known-defective-rows":           0.5, // worst 0.00298 at n=111
	"interp-C0/AkimaSpline":                                   50,  // worst 0.185 at AkimaSpline n=45 knot 7 random/oscillating
	"interp-C0/ClampedCubic":                                  10,  // worst 0.0776 at ClampedCubic n=100 knot 61 random/oscillating
	"interp-C0/FritschButland":                                20,  // worst 0.105 at FritschButland n=77 knot 12 graded/oscillating
	"interp-C0/NaturalCubic":                                  20,  // worst 0.0842 at NaturalCubic n=94 knot 79 random/oscillating
	"interp-C0/NotAKnotCubic":                                 20,  // worst 0.0859 at NotAKnotCubic n=50 knot 24 ends-differ/oscillating
	"interp-C0/PiecewiseLinear":                               5,   // worst 0.0314 at PiecewiseLinear n=40 knot 2 random/random
	"interp-C1/AkimaSpline":                                   50,  // worst 0.282 at AkimaSpline n=69 knot 30 ends-differ/random
	"interp-C1/ClampedCubic":                                  10,  // worst 0.0553 at ClampedCubic n=47 knot 2 uniform/oscillating
	"interp-C1/FritschButland":                                20,  // worst 0.152 at FritschButland n=98 knot 41 uniform/oscillating
	"interp-C1/NaturalCubic":                                  500, // worst 1.91 at NaturalCubic n=7 knot 3 clustered/flat-segments
	"interp-C1/NotAKnotCubic":                                 5,   // worst 0.0317 at NotAKnotCubic n=82 knot 71 uniform/random
	"interp-C2/NaturalCubic":                                  50,  // worst 0.176 at NaturalCubic n=7 knot 3 clustered/flat-segments
	"interp-C2/NotAKnotCubic":                                 0.5, // worst 0.00279 at NotAKnotCubic n=24 knot 6 uniform/random
	"interp-C3-not-a-knot":                                    20,  // worst 0.143 at NotAKnotCubic n=24 knot 1 uniform/random
	"interp-clamped-end-slope":                                5,   // worst 0.0191 at ClampedCubic n=35 uniform/random
	"interp-hermite-reproduction-derivative":                  2,   // worst 0.00928 at n=2 piece 0
	"interp-natural-end-curvature":                            5,   // worst 0.0309 at NaturalCubic n=62 graded/random
	"interp-reproduction-derivative/ClampedCubic":             0.2, // worst 0.00148 at ClampedCubic n=2 ends-differ degree 3 ratio 1
	"interp-reproduction-derivative/NaturalCubic":             0.5, // worst 0.00204 at NaturalCubic n=54 uniform degree 1 ratio 1
	"interp-reproduction-derivative/NotAKnotCubic":            50,  // worst 0.246 at NotAKnotCubic n=83 clustered degree 3 ratio 892
	"interp-reproduction/ClampedCubic":                        0.5, // worst 0.00221 at ClampedCubic n=7 uniform degree 3 ratio 1
	"interp-reproduction/NotAKnotCubic":                       10,  // worst 0.0616 at NotAKnotCubic n=83 clustered degree 3 ratio 892
	"legendre-monomial-raw/asymptotic":                        2,   // worst 0.0112 at n=239 random [-23.371128642380597,433.7597485895118]
	"legendre-monomial-raw/tabulated":                         2,   // worst 0.0097 at n=4 random [-0.20074989899278187,8.046276859374634]
	"legendre-monomial-t/asymptotic":                          2,   // worst 0.01 at n=251 canonical [-1,1]
	"legendre-monomial-t/tabulated":                           2,   // worst 0.01 at n=4 random [-0.0010874969776288154,0.002161006711065656]
	"legendre-orthogonality/asymptotic":                       5,   // worst 0.025 at n=251 random [-9.079796157071655,42.30172666292862]
	"legendre-orthogonality/tabulated":                        5,   // worst 0.025 at n=4 random [-0.0010874969776288154,0.002161006711065656]
	"legendre-root/asymptotic":                                2,   // worst 0.00938 at n=222 canonical [-1,1]
	"legendre-root/tabulated":                                 2,   // worst 0.00803 at n=45 canonical [-1,1]
	"legendre-symmetry":                                       2,   // worst 0.0157 at n=275 random [-0.054746310573681956,1.2186829436288047]
	"legendre-weight/asymptotic":                              100, // worst 0.728 at n=930 canonical [-1,1]
	"legendre-weight/tabulated":                               10,  // worst 0.0575 at n=76 canonical [-1,1]
	"quat-abs":                                                100, // worst 0.497 at -
	"quat-elementary/Acosh":                                   2,   // worst 0.00843 at z=(2.336056206542674+2.126566358529042i)
	"quat-elementary/Asin":                                    2,   // worst 0.00818 at z=(2.4371733693226743+1.988885033431301i)
	"quat-elementary/Atan":                                    0.5, // worst 0.00208 at z=(-0.24060078928494377+2.2923537764319173i)
	"quat-elementary/Atanh":                                   0.5, // worst 0.00251 at z=(-2.207589256769174+0.20729259508047043i)
	"quat-elementary/Cos":                                     0.5, // worst 0.00181 at z=(-0.04733833836506829+2.4114919463686846i)
	"quat-elementary/Cosh":                                    0.2, // worst 0.00151 at z=(-1.9949647292333628+2.1628567721552128i)
	"quat-elementary/Exp":                                     0.5, // worst 0.00167 at z=(2.281797749724963+2.100561237694078i)
	"quat-elementary/Log":                                     0.2, // worst 0.000945 at z=(-0.36363879812815303+0.5706065868796699i)
	"quat-elementary/Pow":                                     0.1, // worst 0.000617 at -
	"quat-elementary/PowReal":                                 0.2, // worst 0.0014 at -
	"quat-elementary/Sin":                                     0.5, // worst 0.00199 at z=(1.4551658916102856+2.300992802142273i)
	"quat-elementary/Sinh":                                    0.5, // worst 0.0018 at z=(2.43001291768397+2.4994034198549278i)
	"quat-elementary/Sqrt":                                    0.2, // worst 0.00085 at z=(-2.4080089091190438+0.5586933279034i)
	"quat-elementary/Tan":                                     5,   // worst 0.033 at z=(-0.051796918117683055+2.4983809374100856i)
	"quat-elementary/Tanh":                                    5,   // worst 0.0344 at z=(-2.4729513097528115+1.7447738972580409i)
	"quat-inv":                                                5,   // worst 0.0312 at quat.Inv|random|q-times-inverse-is-one
	"quat-norm-multiplicative":                                20,  // worst 0.101 at -
	"quat-ring":                                               5,   // worst 0.0274 at quat.Conj|random|anti-homomorphism
	"quat-rotation":                                           10,  // worst 0.065 at -
	"quat-rotation-real":                                      2,   // worst 0.0117 at -
	"romberg":                                                 50,  // worst 0.18 at k=13 dx=1e-07 deg=0
	"simpsons":                                                2,   // worst 0.0127 at n=189 uniform-dyadic deg=0
	"trapezoidal":                                             5,   // worst 0.0275 at n=200 uniform-dyadic deg=0
}
