package main

import (
	"fmt"
	"math"

	"gonum.org/v1/gonum/num/dual"
	"gonum.org/v1/gonum/num/hyperdual"
	"gonum.org/v1/gonum/verifx/vrt"
)

const (
	// real part: |got - f(x)| <= cADReal u |f(x)|.
	cADReal = 16 // base constant; calibrated factor and measured worst ratio: calib.go
	// derivative parts: |got - want| <= cADDeriv u (sum of |terms| of the analytic formula) cond.
	cADDeriv = 400 // base constant; calibrated factor and measured worst ratio: calib.go
	// ring laws on random reals: |lhs - rhs| <= cADRing u sum |products|.
	cADRing = 64 // base constant; calibrated factor and measured worst ratio: calib.go
)

// vec holds (real, e1, e2, e1e2); dual numbers use the first two.
type vec [4]float64

func fromDual(d dual.Number) vec { return vec{d.Real, d.Emag} }
func toDual(v vec) dual.Number   { return dual.Number{Real: v[0], Emag: v[1]} }
func fromHyper(d hyperdual.Number) vec {
	return vec{d.Real, d.E1mag, d.E2mag, d.E1E2mag}
}
func toHyper(v vec) hyperdual.Number {
	return hyperdual.Number{Real: v[0], E1mag: v[1], E2mag: v[2], E1E2mag: v[3]}
}

type adOps struct {
	pkg     string
	n       int // 2 or 4 live components
	add     func(a, b vec) vec
	sub     func(a, b vec) vec
	mul     func(a, b vec) vec
	inv     func(a vec) vec
	abs     func(a vec) vec
	scale   func(f float64, a vec) vec
	powReal func(a vec, p float64) vec
	pow     func(a, p vec) vec
	fn      map[string]func(a vec) vec
}

func dualOps() *adOps {
	w1 := func(f func(dual.Number) dual.Number) func(vec) vec {
		return func(a vec) vec { return fromDual(f(toDual(a))) }
	}
	w2 := func(f func(a, b dual.Number) dual.Number) func(a, b vec) vec {
		return func(a, b vec) vec { return fromDual(f(toDual(a), toDual(b))) }
	}
	return &adOps{
		pkg: "dual", n: 2,
		add: w2(dual.Add), sub: w2(dual.Sub), mul: w2(dual.Mul), inv: w1(dual.Inv), abs: w1(dual.Abs),
		scale:   func(f float64, a vec) vec { return fromDual(dual.Scale(f, toDual(a))) },
		powReal: func(a vec, p float64) vec { return fromDual(dual.PowReal(toDual(a), p)) },
		pow:     w2(dual.Pow),
		fn: map[string]func(vec) vec{
			"Exp": w1(dual.Exp), "Log": w1(dual.Log), "Sqrt": w1(dual.Sqrt),
			"Sin": w1(dual.Sin), "Cos": w1(dual.Cos), "Tan": w1(dual.Tan),
			"Asin": w1(dual.Asin), "Acos": w1(dual.Acos), "Atan": w1(dual.Atan),
			"Sinh": w1(dual.Sinh), "Cosh": w1(dual.Cosh), "Tanh": w1(dual.Tanh),
			"Asinh": w1(dual.Asinh), "Acosh": w1(dual.Acosh), "Atanh": w1(dual.Atanh),
			"Inv": w1(dual.Inv), "Abs": w1(dual.Abs),
		},
	}
}

func hyperOps() *adOps {
	w1 := func(f func(hyperdual.Number) hyperdual.Number) func(vec) vec {
		return func(a vec) vec { return fromHyper(f(toHyper(a))) }
	}
	w2 := func(f func(a, b hyperdual.Number) hyperdual.Number) func(a, b vec) vec {
		return func(a, b vec) vec { return fromHyper(f(toHyper(a), toHyper(b))) }
	}
	return &adOps{
		pkg: "hyperdual", n: 4,
		add: w2(hyperdual.Add), sub: w2(hyperdual.Sub), mul: w2(hyperdual.Mul), inv: w1(hyperdual.Inv), abs: w1(hyperdual.Abs),
		scale:   func(f float64, a vec) vec { return fromHyper(hyperdual.Scale(f, toHyper(a))) },
		powReal: func(a vec, p float64) vec { return fromHyper(hyperdual.PowReal(toHyper(a), p)) },
		pow:     w2(hyperdual.Pow),
		fn: map[string]func(vec) vec{
			"Exp": w1(hyperdual.Exp), "Log": w1(hyperdual.Log), "Sqrt": w1(hyperdual.Sqrt),
			"Sin": w1(hyperdual.Sin), "Cos": w1(hyperdual.Cos), "Tan": w1(hyperdual.Tan),
			"Asin": w1(hyperdual.Asin), "Acos": w1(hyperdual.Acos), "Atan": w1(hyperdual.Atan),
			"Sinh": w1(hyperdual.Sinh), "Cosh": w1(hyperdual.Cosh), "Tanh": w1(hyperdual.Tanh),
			"Asinh": w1(hyperdual.Asinh), "Acosh": w1(hyperdual.Acosh), "Atanh": w1(hyperdual.Atanh),
			"Inv": w1(hyperdual.Inv), "Abs": w1(hyperdual.Abs),
		},
	}
}

// elem is an elementary function with its first two derivatives and the
// interval it is sampled on (well inside its domain: the derivative
// formulas are ill-conditioned at the singularities), plus the special
// real values that are members of the open domain and must obey the same
// formula (0 for the odd functions: gonum special-cases Real == 0).
type elem struct {
	name       string
	f, d1, d2  func(x float64) float64
	lo, hi     float64
	zeroInDom  bool
	extraReals []float64
}

func elems() []elem {
	sq := func(x float64) float64 { return x * x }
	return []elem{
		{"Exp", math.Exp, math.Exp, math.Exp, -3, 3, true, []float64{1}},
		{"Log", math.Log, func(x float64) float64 { return 1 / x }, func(x float64) float64 { return -1 / sq(x) }, 0.1, 10, false, []float64{1}},
		{"Sqrt", math.Sqrt, func(x float64) float64 { return 0.5 / math.Sqrt(x) }, func(x float64) float64 { return -0.25 / (x * math.Sqrt(x)) }, 0.1, 10, false, []float64{1, 4}},
		{"Sin", math.Sin, math.Cos, func(x float64) float64 { return -math.Sin(x) }, -3, 3, true, nil},
		{"Cos", math.Cos, func(x float64) float64 { return -math.Sin(x) }, func(x float64) float64 { return -math.Cos(x) }, -3, 3, true, nil},
		{"Tan", math.Tan, func(x float64) float64 { return 1 + sq(math.Tan(x)) }, func(x float64) float64 { t := math.Tan(x); return 2 * t * (1 + t*t) }, -1.3, 1.3, true, nil},
		{"Asin", math.Asin, func(x float64) float64 { return 1 / math.Sqrt(1-x*x) }, func(x float64) float64 { return x / ((1 - x*x) * math.Sqrt(1-x*x)) }, -0.9, 0.9, true, nil},
		{"Acos", math.Acos, func(x float64) float64 { return -1 / math.Sqrt(1-x*x) }, func(x float64) float64 { return -x / ((1 - x*x) * math.Sqrt(1-x*x)) }, -0.9, 0.9, true, nil},
		{"Atan", math.Atan, func(x float64) float64 { return 1 / (1 + x*x) }, func(x float64) float64 { return -2 * x / sq(1+x*x) }, -4, 4, true, []float64{1}},
		{"Sinh", math.Sinh, math.Cosh, math.Sinh, -3, 3, true, nil},
		{"Cosh", math.Cosh, math.Sinh, math.Cosh, -3, 3, true, nil},
		{"Tanh", math.Tanh, func(x float64) float64 { return 1 - sq(math.Tanh(x)) }, func(x float64) float64 { t := math.Tanh(x); return -2 * t * (1 - t*t) }, -2, 2, true, nil},
		{"Asinh", math.Asinh, func(x float64) float64 { return 1 / math.Sqrt(x*x+1) }, func(x float64) float64 { return -x / ((x*x + 1) * math.Sqrt(x*x+1)) }, -4, 4, true, []float64{1}},
		{"Acosh", math.Acosh, func(x float64) float64 { return 1 / math.Sqrt(x*x-1) }, func(x float64) float64 { return -x / ((x*x - 1) * math.Sqrt(x*x-1)) }, 1.2, 10, false, []float64{2}},
		{"Atanh", math.Atanh, func(x float64) float64 { return 1 / (1 - x*x) }, func(x float64) float64 { return 2 * x / sq(1-x*x) }, -0.9, 0.9, true, nil},
		{"Inv", func(x float64) float64 { return 1 / x }, func(x float64) float64 { return -1 / sq(x) }, func(x float64) float64 { return 2 / (x * x * x) }, 0.1, 10, false, []float64{1, -1, -2.5}},
		{"Abs", math.Abs, func(x float64) float64 { return math.Copysign(1, x) }, func(x float64) float64 { return 0 }, -5, 5, false, []float64{1, -1}},
	}
}

func realClass(x float64) string {
	switch {
	case x == 0:
		return "real-zero"
	case x == 1:
		return "real-one"
	}
	return "generic"
}

func checkDual(c *vrt.Ctx)      { checkAD(c, dualOps()) }
func checkHyperdual(c *vrt.Ctx) { checkAD(c, hyperOps()) }

func checkAD(c *vrt.Ctx, ops *adOps) {
	adRing(c, ops)
	adElementary(c, ops)
	adPow(c, ops)
}

// randVec draws a number with unequal, non-zero infinitesimal parts.
func randVec(r *vrt.Rand, real float64, n int) vec {
	v := vec{real}
	for i := 1; i < n; i++ {
		v[i] = r.Sym() * 3
		if math.Abs(v[i]) < 0.05 {
			v[i] = 0.75 + float64(i)
		}
	}
	return v
}

// dyadicVec draws small dyadic rationals (multiples of 1/4 in [-8,8]).
func dyadicVec(r *vrt.Rand, n int) vec {
	var v vec
	for i := 0; i < n; i++ {
		v[i] = float64(r.Range(-32, 32)) / 4
	}
	return v
}

func refMul(a, b vec) (p, abs vec) {
	p[0] = a[0] * b[0]
	p[1] = a[0]*b[1] + a[1]*b[0]
	p[2] = a[0]*b[2] + a[2]*b[0]
	p[3] = a[0]*b[3] + a[1]*b[2] + a[2]*b[1] + a[3]*b[0]
	ab := func(x float64) float64 { return math.Abs(x) }
	abs[0] = ab(p[0])
	abs[1] = ab(a[0]*b[1]) + ab(a[1]*b[0])
	abs[2] = ab(a[0]*b[2]) + ab(a[2]*b[0])
	abs[3] = ab(a[0]*b[3]) + ab(a[1]*b[2]) + ab(a[2]*b[1]) + ab(a[3]*b[0])
	return
}

var compName = [4]string{"real-part", "e1-part", "e2-part", "e1e2-part"}

func (o *adOps) comp(i int) string {
	if o.n == 2 && i == 1 {
		return "e-part"
	}
	return compName[i]
}

func (o *adOps) show(v vec) string {
	if o.n == 2 {
		return fmt.Sprintf("(%.17g%+.17gϵ)", v[0], v[1])
	}
	return fmt.Sprintf("(%.17g%+.17gϵ₁%+.17gϵ₂%+.17gϵ₁ϵ₂)", v[0], v[1], v[2], v[3])
}

func adRing(c *vrt.Ctx, ops *adOps) {
	n := c.Pick(8000, 200000)
	vrt.Parallel(16, func(w int) {
		sh := newShard(c)
		r := c.RNG("ad-ring-"+ops.pkg, w)
		for it := 0; it < n/16; it++ {
			exact := it%2 == 0
			var a, b, d vec
			if exact {
				a, b, d = dyadicVec(r, ops.n), dyadicVec(r, ops.n), dyadicVec(r, ops.n)
			} else {
				a, b, d = randVec(r, r.Sym()*4, ops.n), randVec(r, r.Sym()*4, ops.n), randVec(r, r.Sym()*4, ops.n)
			}
			mode := "random"
			if exact {
				mode = "dyadic"
			}
			replay := map[string]any{"a": a[:ops.n], "b": b[:ops.n], "c": d[:ops.n]}
			eq := func(routine, law string, lhs, rhs, scale vec) {
				for i := 0; i < ops.n; i++ {
					bad := false
					if exact {
						bad = lhs[i] != rhs[i]
					} else {
						bad = !within("ad-ring/"+ops.pkg, math.Abs(lhs[i]-rhs[i]), cADRing*u*scale[i], func() string { return law })
					}
					if bad {
						c.Violation(ops.pkg+"."+routine+"|"+mode+"|"+law, fmt.Sprintf("%s component: lhs %.17g rhs %.17g for a=%s b=%s c=%s", ops.comp(i), lhs[i], rhs[i], ops.show(a), ops.show(b), ops.show(d)), replay)
						return
					}
				}
			}
			// definition of the product
			ref, refAbs := refMul(a, b)
			eq("Mul", "product-definition", ops.mul(a, b), ref, refAbs)
			sh.eval(ops.pkg + ".Mul|" + mode)
			// commutativity (bitwise in both modes: the same sums of the same products up to order)
			ab, ba := ops.mul(a, b), ops.mul(b, a)
			eq("Mul", "commutative", ab, ba, refAbs)
			// associativity, distributivity
			scaleOf := func(x, y, z vec) vec {
				var s vec
				ax := math.Abs(x[0]) + math.Abs(x[1]) + math.Abs(x[2]) + math.Abs(x[3])
				ay := math.Abs(y[0]) + math.Abs(y[1]) + math.Abs(y[2]) + math.Abs(y[3])
				az := math.Abs(z[0]) + math.Abs(z[1]) + math.Abs(z[2]) + math.Abs(z[3])
				for i := range s {
					s[i] = ax * ay * az
				}
				return s
			}
			eq("Mul", "associative", ops.mul(ops.mul(a, b), d), ops.mul(a, ops.mul(b, d)), scaleOf(a, b, d))
			one := vec{1}
			eq("Mul", "distributive", ops.mul(a, ops.add(b, d)), ops.add(ops.mul(a, b), ops.mul(a, d)), scaleOf(a, ops.add(vecAbs(b), vecAbs(d)), one))
			eq("Mul", "unit", ops.mul(a, one), a, vecAbs(a))
			sh.evalN(ops.pkg+".Mul|laws|"+mode, 8)
			// Add / Sub
			var sum, dif vec
			for i := range sum {
				sum[i], dif[i] = a[i]+b[i], a[i]-b[i]
			}
			eqBits := func(routine, law string, got, want vec) {
				for i := 0; i < ops.n; i++ {
					if got[i] != want[i] {
						c.Violation(ops.pkg+"."+routine+"|"+mode+"|"+law, fmt.Sprintf("%s component: got %.17g want %.17g", ops.comp(i), got[i], want[i]), replay)
						return
					}
				}
			}
			eqBits("Add", "componentwise", ops.add(a, b), sum)
			eqBits("Sub", "componentwise", ops.sub(a, b), dif)
			sh.evalN(ops.pkg+".Add/Sub|"+mode, 2)
			// Scale(f, a) = (f+0ϵ) a
			f := float64(r.Range(-12, 12)) / 4
			eqBits("Scale", "equals-product-with-real", ops.scale(f, a), ops.mul(vec{f}, a))
			// Abs(a) = ±a by the sign of the real part
			want := a
			if a[0] < 0 {
				for i := range want {
					want[i] = -want[i]
				}
			}
			if a[0] != 0 {
				eqBits("Abs", "sign-of-real-part", ops.abs(a), want)
			}
			sh.evalN(ops.pkg+".Scale/Abs|"+mode, 2)
			// Inv: a Inv(a) = 1. In dyadic mode the real part is made a
			// power of two, so that every quotient is exact.
			ai := a
			if exact {
				ai[0] = math.Ldexp(1, r.Range(-3, 3))
				if r.Bool() {
					ai[0] = -ai[0]
				}
			} else if math.Abs(ai[0]) < 0.1 {
				ai[0] = 0.5
			}
			inv := ops.inv(ai)
			sh.eval(ops.pkg + ".Inv|" + mode)
			prod := ops.mul(ai, inv)
			sc := vecAbs(ai)
			tot := (sc[0] + sc[1] + sc[2] + sc[3]) / math.Abs(ai[0])
			tot = tot * tot * tot
			a, replay = ai, map[string]any{"a": ai[:ops.n]}
			eq("Inv", "times-self-is-one", prod, one, vec{tot, tot, tot, tot})
		}
		sh.flush()
	})
}

func vecAbs(a vec) vec {
	for i := range a {
		a[i] = math.Abs(a[i])
	}
	return a
}

// adExpected returns f(g) for a (hyper)dual g from the analytic derivatives,
// with the sum of absolute terms of every component.
func adExpected(f, d1, d2 float64, g vec) (want, abs vec) {
	want[0] = f
	want[1] = d1 * g[1]
	want[2] = d1 * g[2]
	want[3] = d1*g[3] + d2*g[1]*g[2]
	abs[0] = math.Abs(f)
	abs[1] = math.Abs(want[1])
	abs[2] = math.Abs(want[2])
	abs[3] = math.Abs(d1*g[3]) + math.Abs(d2*g[1]*g[2])
	return
}

func (o *adOps) judge(c *vrt.Ctx, routine, path string, got, want, abs vec, cond float64, detail func() string, replay any) {
	for i := 0; i < o.n; i++ {
		cc, name := float64(cADDeriv), "ad-derivative/"+o.pkg
		if i == 0 {
			cc, name, cond = cADReal, "ad-real/"+o.pkg, 1
		}
		band := cc * u * abs[i] * cond
		if abs[i] == 0 {
			band = cc * u * math.SmallestNonzeroFloat64
		}
		ok := within(name, math.Abs(got[i]-want[i]), band, func() string { return routine + " " + path })
		if !ok {
			c.Violation(o.pkg+"."+routine+"|"+path+"|"+o.comp(i), fmt.Sprintf("%s: got %.17g want %.17g", detail(), got[i], want[i]), replay)
		}
	}
}

func adElementary(c *vrt.Ctx, ops *adOps) {
	es := elems()
	per := c.Pick(200, 4000)
	vrt.Parallel(len(es), func(ei int) {
		sh := newShard(c)
		e := es[ei]
		fn := ops.fn[e.name]
		r := c.RNG("ad-elem-"+ops.pkg, ei)
		// sample reals: specials first, then random
		var reals []float64
		if e.zeroInDom {
			reals = append(reals, 0, math.Copysign(0, -1))
		}
		reals = append(reals, e.extraReals...)
		for len(reals) < per {
			reals = append(reals, r.Uniform(e.lo, e.hi))
		}
		for si, x0 := range reals {
			path := realClass(x0)
			f, d1, d2 := e.f(x0), e.d1(x0), e.d2(x0)
			// conditioning of f' and f'' with respect to rounding of their
			// own intermediate quantities (e.g. 1-x^2 near |x| = 1).
			cond := 1.0
			switch e.name {
			case "Asin", "Acos", "Atanh":
				cond = 1 / (1 - x0*x0)
			case "Acosh":
				cond = x0 * x0 / (x0*x0 - 1)
			case "Tanh":
				cond = 1 / (1 - math.Tanh(x0)*math.Tanh(x0))
			case "Tan":
				cond = 1 + math.Tan(x0)*math.Tan(x0)
			}
			// (a) direct: arbitrary unequal non-zero infinitesimal parts.
			for rep := 0; rep < 2; rep++ {
				g := randVec(r, x0, ops.n)
				if rep == 1 {
					// pure first-order seeds: e1 = 1, e2 = 1, e1e2 = 0
					g = vec{x0, 1, 1, 0}
					if ops.n == 2 {
						g = vec{x0, 1}
					}
				}
				want, abs := adExpected(f, d1, d2, g)
				var got vec
				replay := map[string]any{"func": ops.pkg + "." + e.name, "arg": g[:ops.n]}
				if p := vrt.Try(func() { got = fn(g) }); p != nil {
					c.Violation(ops.pkg+"."+e.name+"|"+path+"|panic", p.Msg, replay)
					continue
				}
				sh.eval(ops.pkg + "." + e.name + "|direct|" + path)
				if si == 3 && rep == 0 && (e.name == "Sin" || e.name == "Log") {
					c.Sample(map[string]any{"call": ops.pkg + "." + e.name, "arg": g[:ops.n], "got": got[:ops.n], "want": want[:ops.n]})
				}
				ops.judge(c, e.name, path, got, want, abs, cond, func() string {
					return fmt.Sprintf("%s%s", e.name, ops.show(g))
				}, replay)
			}
			// (b) composition f(x y) with x = x0' + ϵ₁, y = y0 + ϵ₂ (x = y
			// seeds for dual numbers: f(x^2... ) uses x y with both seeded by ϵ),
			// against the analytic partial derivatives
			//   h_x = f'(xy) y, h_y = f'(xy) x, h_xy = f'(xy) + xy f''(xy).
			var xa, ya float64
			switch {
			case x0 == 0:
				xa, ya = x0, float64(r.Range(1, 6))/2 // exact product 0 with y != 0
			default:
				ya = math.Ldexp(1, r.Range(-1, 2)) // power of two: xa*ya == x0 exactly
				xa = x0 / ya
			}
			X, Y := vec{xa, 1, 0, 0}, vec{ya, 0, 1, 0}
			if ops.n == 2 {
				Y = vec{ya, 1} // h(t) = f((xa+t)(ya+t)), h' = f'(xy)(x+y)
			}
			g := ops.mul(X, Y)
			if g[0] != x0 {
				continue
			}
			var want, abs vec
			if ops.n == 2 {
				want = vec{f, d1 * (xa + ya)}
				abs = vec{math.Abs(f), math.Abs(d1*xa) + math.Abs(d1*ya)}
			} else {
				want = vec{f, d1 * ya, d1 * xa, d1 + x0*d2}
				abs = vec{math.Abs(f), math.Abs(d1 * ya), math.Abs(d1 * xa), math.Abs(d1) + math.Abs(x0*d2)}
			}
			var got vec
			replay := map[string]any{"func": ops.pkg + "." + e.name + "(Mul(x,y))", "x": X[:ops.n], "y": Y[:ops.n]}
			if p := vrt.Try(func() { got = fn(g) }); p != nil {
				c.Violation(ops.pkg+"."+e.name+"|"+path+"|panic", p.Msg, replay)
				continue
			}
			sh.eval(ops.pkg + "." + e.name + "|composition f(x*y)|" + path)
			ops.judge(c, e.name, path, got, want, abs, cond, func() string {
				return fmt.Sprintf("%s(x*y) at x=%g y=%g (mixed partial derivatives of the composition)", e.name, xa, ya)
			}, replay)
		}
		sh.flush()
	})
}

// adPow checks PowReal and Pow.
func adPow(c *vrt.Ctx, ops *adOps) {
	exps := []float64{2, 3, 0.5, -1.5, 2.5, -2, 4, 1.0 / 3, -1, 1, 0}
	per := c.Pick(150, 3000)
	vrt.Parallel(len(exps), func(pi int) {
		sh := newShard(c)
		p := exps[pi]
		r := c.RNG("ad-powreal-"+ops.pkg, pi)
		for it := 0; it < per; it++ {
			x0 := r.Uniform(0.1, 6)
			if p == math.Trunc(p) && it%3 == 0 {
				x0 = -x0 // negative bases are in the domain of integer exponents
			}
			if it == 0 {
				x0 = 1
			}
			path := realClass(x0)
			if x0 < 0 {
				path = "negative-base"
			}
			f := math.Pow(x0, p)
			d1 := p * math.Pow(x0, p-1)
			d2 := p * (p - 1) * math.Pow(x0, p-2)
			g := randVec(r, x0, ops.n)
			want, abs := adExpected(f, d1, d2, g)
			var got vec
			replay := map[string]any{"func": ops.pkg + ".PowReal", "arg": g[:ops.n], "p": p}
			if pn := vrt.Try(func() { got = ops.powReal(g, p) }); pn != nil {
				c.Violation(ops.pkg+".PowReal|"+path+"|panic", pn.Msg, replay)
				continue
			}
			sh.eval(fmt.Sprintf("%s.PowReal|p=%g|%s", ops.pkg, p, path))
			ops.judge(c, "PowReal", path, got, want, abs, 1, func() string {
				return fmt.Sprintf("PowReal(%s, %g)", ops.show(g), p)
			}, replay)
			// integer exponents: PowReal(x, 2) = x*x, PowReal(x, 3) = x*x*x to rounding.
			if p == 2 || p == 3 {
				m := ops.mul(g, g)
				if p == 3 {
					m = ops.mul(m, g)
				}
				s := vecAbs(g)
				t := math.Pow(s[0]+s[1]+s[2]+s[3], p)
				for i := 0; i < ops.n; i++ {
					if !within("ad-powreal-vs-mul/"+ops.pkg, math.Abs(got[i]-m[i]), cADDeriv*u*t, nil) {
						c.Violation(ops.pkg+".PowReal|"+path+"|differs-from-repeated-Mul", fmt.Sprintf("PowReal(%s,%g) %s: %.17g, repeated Mul: %.17g", ops.show(g), p, ops.comp(i), got[i], m[i]), replay)
					}
				}
			}
		}
		// Pow(x, y) with (hyper)dual exponent: z = x^y,
		// z_x = y x^(y-1), z_y = x^y ln x, and second derivatives.
		for it := 0; it < per; it++ {
			x0 := r.Uniform(0.2, 5)
			y0 := r.Uniform(-2, 3)
			gx := randVec(r, x0, ops.n)
			gy := randVec(r, y0, ops.n)
			z := math.Pow(x0, y0)
			lx := math.Log(x0)
			zx := y0 * z / x0
			zy := z * lx
			zxx := y0 * (y0 - 1) * z / (x0 * x0)
			zyy := z * lx * lx
			zxy := z/x0 + y0*z*lx/x0
			var want, abs vec
			want[0], abs[0] = z, z
			for i := 1; i <= 2; i++ {
				want[i] = zx*gx[i] + zy*gy[i]
				abs[i] = math.Abs(zx*gx[i]) + math.Abs(zy*gy[i])
			}
			terms := []float64{zx * gx[3], zy * gy[3], zxx * gx[1] * gx[2], zyy * gy[1] * gy[2], zxy * gx[1] * gy[2], zxy * gx[2] * gy[1]}
			for _, t := range terms {
				want[3] += t
				abs[3] += math.Abs(t)
			}
			var got vec
			replay := map[string]any{"func": ops.pkg + ".Pow", "x": gx[:ops.n], "y": gy[:ops.n]}
			if pn := vrt.Try(func() { got = ops.pow(gx, gy) }); pn != nil {
				c.Violation(ops.pkg+".Pow|generic|panic", pn.Msg, replay)
				continue
			}
			sh.eval(ops.pkg + ".Pow|generic")
			// Pow is Exp(p Log x): the real part carries the rounding of
			// y ln x amplified by |y ln x|.
			cond := 4 * (1 + math.Abs(y0*lx))
			for i := range abs {
				abs[i] *= cond
			}
			ops.judge(c, "Pow", "generic", got, want, abs, 1, func() string {
				return fmt.Sprintf("Pow(%s, %s)", ops.show(gx), ops.show(gy))
			}, replay)
		}
		sh.flush()
	})
}
