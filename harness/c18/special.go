package main

import (
	"fmt"
	"math"
	"os"
	"path/filepath"
	"regexp"
	"sort"
	"strings"

	"gonum.org/v1/gonum/verifx/vrt"
)

// The "Special cases are:" tables of num/dual and num/hyperdual are read
// from the doc comments of the tree under test at run time ($VERIF_REPO), so
// that a documentation repair silences a documentation mismatch. Only the
// one-argument elementary functions are covered; the PowReal tables (two
// arguments, prose conditions) are not parsed.

var specLine = regexp.MustCompile(`^//\t(\w+)\((.*?)\) = (.*)$`)

// skippedSpecLines collects the table lines outside the grammar (PowReal).
var skippedSpecLines = map[string]bool{}

type specCase struct {
	fn, arg, res, cond, line string
}

func readSpecs(pkg string) ([]specCase, error) {
	repo := os.Getenv("VERIF_REPO")
	if repo == "" {
		repo = "/repo"
	}
	files, err := filepath.Glob(filepath.Join(repo, "num", pkg, "*.go"))
	if err != nil || len(files) == 0 {
		return nil, fmt.Errorf("no sources for num/%s under %s", pkg, repo)
	}
	sort.Strings(files)
	var out []specCase
	for _, f := range files {
		if strings.HasSuffix(f, "_test.go") {
			continue
		}
		b, err := os.ReadFile(f)
		if err != nil {
			return nil, err
		}
		for _, ln := range strings.Split(string(b), "\n") {
			m := specLine.FindStringSubmatch(ln)
			if m == nil {
				continue
			}
			if m[1] == "PowReal" || m[1] == "Pow" {
				skippedSpecLines[pkg+": "+strings.TrimSpace(strings.TrimPrefix(ln, "//"))] = true
				continue
			}
			res, cond := m[3], ""
			if i := strings.Index(res, " if "); i >= 0 {
				res, cond = res[:i], res[i+4:]
			}
			out = append(out, specCase{m[1], strings.TrimSpace(m[2]), strings.TrimSpace(res), strings.TrimSpace(cond), strings.TrimSpace(strings.TrimPrefix(ln, "//"))})
		}
	}
	return out, nil
}

// specArgs returns the real arguments denoted by the doc argument text, with
// the sign choice (+1 upper, -1 lower, 0 none) for each.
func specArgs(arg, cond, res string) (xs []float64, signs []int, ok bool) {
	inf := math.Inf(1)
	nz := math.Copysign(0, -1)
	switch arg {
	case "±0":
		return []float64{0, nz}, []int{1, -1}, true
	case "±1":
		return []float64{1, -1}, []int{1, -1}, true
	case "±Inf":
		return []float64{inf, -inf}, []int{1, -1}, true
	case "+Inf", "Inf":
		return []float64{inf}, []int{0}, true
	case "-Inf":
		return []float64{-inf}, []int{0}, true
	case "NaN":
		return []float64{math.NaN()}, []int{0}, true
	case "1":
		return []float64{1}, []int{0}, true
	case "-1":
		return []float64{-1}, []int{0}, true
	case "0":
		if strings.ContainsAny(res, "±∓") {
			return []float64{0, nz}, []int{1, -1}, true
		}
		return []float64{0}, []int{0}, true
	case "x < 0":
		return []float64{-0.5, -3, -inf}, []int{0, 0, 0}, true
	case "x":
		switch cond {
		case "x < -1 or x > 1":
			return []float64{-1.5, 1.0000000000000002, 7, -inf, inf}, []int{0, 0, 0, 0, 0}, true
		case "x < 1":
			return []float64{0.9999999999999999, 0.5, 0, -2, -inf}, []int{0, 0, 0, 0, 0}, true
		}
	}
	return nil, nil, false
}

// specWant is one documented component: kind is one of zero, inf, nan, n
// (the input's component passes through), num (a finite value).
type specWant struct {
	kind string
	val  float64 // sign for zero/inf, value for num
}

var specTerm = regexp.MustCompile(`^([+\-±∓]?)(Inf|NaN|N|Pi/2|Pi|[0-9.]+)(ϵ₁ϵ₂|ϵ₁|ϵ₂|ϵ)?`)

// parseSpecResult parses "(±0+Nϵ₁+Nϵ₂∓0ϵ₁ϵ₂)", "±Inf-Infϵ", "NaN", "+Inf", "1".
// scalar results constrain the real part only.
func parseSpecResult(res string, sign int, n int) (want []specWant, ok bool) {
	s := strings.TrimSuffix(strings.TrimPrefix(res, "("), ")")
	want = make([]specWant, 0, 4)
	slot := map[string]int{"": 0, "ϵ": 1, "ϵ₁": 1, "ϵ₂": 2, "ϵ₁ϵ₂": 3}
	out := make([]*specWant, 4)
	for len(s) > 0 {
		m := specTerm.FindStringSubmatch(s)
		if m == nil {
			return nil, false
		}
		s = s[len(m[0]):]
		sg := 1.0
		switch m[1] {
		case "-":
			sg = -1
		case "±":
			if sign == 0 {
				return nil, false
			}
			sg = float64(sign)
		case "∓":
			if sign == 0 {
				return nil, false
			}
			sg = -float64(sign)
		}
		var w specWant
		switch m[2] {
		case "Inf":
			w = specWant{"inf", sg}
		case "NaN":
			w = specWant{"nan", 0}
		case "N":
			w = specWant{"n", sg}
		case "Pi":
			w = specWant{"num", sg * math.Pi}
		case "Pi/2":
			w = specWant{"num", sg * math.Pi / 2}
		case "0":
			w = specWant{"zero", sg}
		default:
			var v float64
			if _, err := fmt.Sscanf(m[2], "%g", &v); err != nil {
				return nil, false
			}
			w = specWant{"num", sg * v}
		}
		i, okSlot := slot[m[3]]
		if !okSlot || out[i] != nil {
			return nil, false
		}
		ww := w
		out[i] = &ww
	}
	if out[0] == nil {
		return nil, false
	}
	for i := 0; i < n; i++ {
		if out[i] == nil {
			want = append(want, specWant{"any", 0})
		} else {
			want = append(want, *out[i])
		}
	}
	return want, true
}

func checkSpecialCases(c *vrt.Ctx) {
	unparsed := map[string]bool{}
	for _, ops := range []*adOps{dualOps(), hyperOps()} {
		specs, err := readSpecs(ops.pkg)
		if err != nil {
			c.Inconclusive("special-cases/"+ops.pkg, err.Error())
			continue
		}
		nChecked := 0
		for _, sp := range specs {
			fn, okFn := ops.fn[sp.fn]
			xs, signs, okArg := specArgs(sp.arg, sp.cond, sp.res)
			if !okFn || !okArg {
				unparsed[ops.pkg+": "+sp.line] = true
				continue
			}
			for j, x := range xs {
				want, okRes := parseSpecResult(sp.res, signs[j], ops.n)
				if !okRes {
					unparsed[ops.pkg+": "+sp.line] = true
					break
				}
				in := vec{x, 2.5, 1.5, 0}
				if ops.n == 2 {
					in = vec{x, 2.5}
				}
				var got vec
				replay := map[string]any{"func": ops.pkg + "." + sp.fn, "arg": in[:ops.n], "doc": sp.line}
				if p := vrt.Try(func() { got = fn(in) }); p != nil {
					c.Violation(ops.pkg+"."+sp.fn+"|special "+sp.arg+"|panic", p.Msg, replay)
					continue
				}
				c.Eval(ops.pkg+"."+sp.fn+"|special|"+sp.arg, true)
				nChecked++
				for i, w := range want {
					g := got[i]
					okc := true
					switch w.kind {
					case "zero":
						okc = g == 0 && math.Signbit(g) == (w.val < 0)
					case "inf":
						okc = math.IsInf(g, int(w.val))
					case "nan":
						okc = math.IsNaN(g)
					case "n":
						okc = g == w.val*in[i]
					case "num":
						okc = math.Abs(g-w.val) <= 4*u*math.Abs(w.val) && math.Signbit(g) == math.Signbit(w.val)
					}
					if !okc {
						c.Violation(ops.pkg+"."+sp.fn+"|special "+sp.arg+"|documented-"+ops.comp(i), fmt.Sprintf("doc comment says %q; %s.%s%s = %s", sp.line, ops.pkg, sp.fn, ops.show(in), ops.show(got)), replay)
						break
					}
				}
			}
		}
		c.Count("special_case_evaluations_"+ops.pkg, int64(nChecked))
	}
	for k := range skippedSpecLines {
		unparsed[k] = true
	}
	c.NoteSet("special_case_doc_lines_not_parsed", unparsed)
}
