package main

import (
	"fmt"
	"math"
	"reflect"
	"sort"

	"gonum.org/v1/gonum/stat/distuv"
	"gonum.org/v1/gonum/verifx/vrt"
)

const (
	// sum_i w_i Score_j(x_i; fitted) relative to sum_i w_i |Score_j|.
	tolFitStationary = 1e-9
	// loglik(fitted) >= loglik(perturbed) - tolFitLik*|loglik|.
	tolFitLik = 1e-12
	// fitted parameters from a permuted sample, relative.
	tolFitPerm = 1e-11
	// ConjugateUpdate against the pooled fit, relative.
	tolConjugate = 1e-10
)

type fitter interface {
	Fit(samples, weights []float64)
}

// fitKind describes one Fit-capable type.
type fitKind struct {
	name   string
	fresh  func() fitter
	params func(f fitter) []float64
	with   func(th []float64) logprober
	names  []string
	gen    func(r *vrt.Rand) float64
	// smooth[j]: the log-likelihood is differentiable in parameter j at the optimum
	smooth []bool
}

var fitKinds = []fitKind{
	{
		name:   "Normal",
		fresh:  func() fitter { return &distuv.Normal{Mu: 17, Sigma: 3} },
		params: func(f fitter) []float64 { n := f.(*distuv.Normal); return []float64{n.Mu, n.Sigma} },
		with:   func(th []float64) logprober { return distuv.Normal{Mu: th[0], Sigma: th[1]} },
		names:  []string{"Mu", "Sigma"},
		gen:    func(r *vrt.Rand) float64 { return 2.5 + 3*r.Norm() },
		smooth: []bool{true, true},
	},
	{
		name:   "Exponential",
		fresh:  func() fitter { return &distuv.Exponential{Rate: 17} },
		params: func(f fitter) []float64 { return []float64{f.(*distuv.Exponential).Rate} },
		with:   func(th []float64) logprober { return distuv.Exponential{Rate: th[0]} },
		names:  []string{"Rate"},
		gen:    func(r *vrt.Rand) float64 { return -math.Log(1-r.Float64()) / 0.7 },
		smooth: []bool{true},
	},
	{
		name:   "Laplace",
		fresh:  func() fitter { return &distuv.Laplace{Mu: 17, Scale: 3} },
		params: func(f fitter) []float64 { l := f.(*distuv.Laplace); return []float64{l.Mu, l.Scale} },
		with:   func(th []float64) logprober { return distuv.Laplace{Mu: th[0], Scale: th[1]} },
		names:  []string{"Mu", "Scale"},
		gen: func(r *vrt.Rand) float64 {
			u := r.Float64() - 0.5
			if u < 0 {
				return -1 + 2*math.Log(1+2*u)
			}
			return -1 - 2*math.Log(1-2*u)
		},
		smooth: []bool{false, true},
	},
}

func (m *mon) runUVFit() {
	m.conjugateInventory()
	nCases := m.c.Pick(60, 600)
	type job struct{ kind, idx int }
	var jobs []job
	for k := range fitKinds {
		for i := 0; i < nCases; i++ {
			jobs = append(jobs, job{k, i})
		}
	}
	vrt.Parallel(len(jobs), func(ji int) {
		j := jobs[ji]
		fk := fitKinds[j.kind]
		r := m.c.RNG("uvfit", j.kind, j.idx)
		a := m.newAcc()
		defer a.flush()
		n := r.Range(2, 60)
		if j.idx%5 == 0 {
			n = r.Range(60, 400)
		}
		xs := make([]float64, n)
		for i := range xs {
			xs[i] = fk.gen(r)
		}
		if j.idx%7 == 3 { // ties
			for i := range xs {
				xs[i] = math.Round(xs[i]*2) / 2
				if fk.name == "Exponential" && xs[i] <= 0 {
					xs[i] = 0.5
				}
			}
		}
		wkind := []string{"nil", "ones", "uneven", "uneven", "integers"}[j.idx%5]
		var ws []float64
		switch wkind {
		case "ones":
			ws = make([]float64, n)
			for i := range ws {
				ws[i] = 1
			}
		case "uneven":
			ws = make([]float64, n)
			for i := range ws {
				ws[i] = math.Exp(r.Uniform(-2.5, 2.5))
			}
		case "integers":
			ws = make([]float64, n)
			for i := range ws {
				ws[i] = float64(r.Range(1, 5))
			}
		}
		order := []string{"sorted", "unsorted"}[(j.idx/5)%2]
		// sort jointly, or shuffle jointly
		idx := make([]int, n)
		for i := range idx {
			idx[i] = i
		}
		if order == "sorted" {
			sort.Slice(idx, func(p, q int) bool { return xs[idx[p]] < xs[idx[q]] })
		} else {
			r.ShuffleInts(idx)
			if sort.SliceIsSorted(idx, func(p, q int) bool { return xs[idx[p]] < xs[idx[q]] }) && n > 1 {
				idx[0], idx[n-1] = idx[n-1], idx[0]
			}
		}
		sx := make([]float64, n)
		var sw []float64
		if ws != nil {
			sw = make([]float64, n)
		}
		for i, k := range idx {
			sx[i] = xs[k]
			if ws != nil {
				sw[i] = ws[k]
			}
		}
		wclass := map[string]string{"nil": "unweighted", "ones": "equal-weights", "uneven": "unequal-weights", "integers": "unequal-weights"}[wkind]
		class := wclass + "," + order
		where := fmt.Sprintf("distuv.%s.Fit n=%d %s case %d", fk.name, n, class, j.idx)
		m.c.LastCase(where)
		if m.c.WantSample() && j.idx == 1 {
			m.c.Sample(map[string]any{"sub": "uvfit", "type": fk.name, "samples": sx, "weights": sw})
		}
		cx := append([]float64(nil), sx...)
		cw := append([]float64(nil), sw...)
		f := fk.fresh()
		if msg, panicked := try(func() { f.Fit(cx, cw2(cw, sw)) }); panicked {
			a.fail("distuv."+fk.name+".Fit|"+class+"|panics", where, "panic: %s", msg)
			return
		}
		a.eval("distuv."+fk.name+".Fit|"+class, 1)
		for i := range cx {
			if cx[i] != sx[i] || (sw != nil && cw[i] != sw[i]) {
				a.fail("distuv."+fk.name+".Fit|"+class+"|modifies-input", where, "sample or weight %d changed", i)
				break
			}
		}
		th := fk.params(f)
		for _, v := range th {
			if !isFinite(v) {
				a.fail("distuv."+fk.name+".Fit|"+class+"|non-finite-parameter", where, "fitted %v", th)
				return
			}
		}
		w := func(i int) float64 {
			if sw == nil {
				return 1
			}
			return sw[i]
		}
		loglik := func(t []float64) float64 {
			lp := fk.with(t)
			var s kahan
			for i, x := range sx {
				s.add(w(i) * lp.LogProb(x))
			}
			return s.s
		}
		if th[len(th)-1] <= 0 && fk.name != "Normal" || (fk.name == "Normal" && th[1] <= 0) {
			// all samples equal: degenerate optimum on the boundary, no verdict
			a.noverdict("uvfit.degenerate-sample")
			return
		}
		// (1) stationarity in the smooth parameters
		if sc, ok := fk.with(th).(scorer); ok {
			sum := make([]kahan, len(th))
			asum := make([]kahan, len(th))
			okAll := true
			for i, x := range sx {
				g := sc.Score(nil, x)
				for k := range th {
					if math.IsNaN(g[k]) {
						if fk.smooth[k] {
							okAll = false
						}
						continue
					}
					sum[k].add(w(i) * g[k])
					asum[k].add(w(i) * math.Abs(g[k]))
				}
			}
			var wsum float64
			for i := range sx {
				wsum += w(i)
			}
			for k := range th {
				if fk.smooth[k] && okAll {
					// natural magnitude of one score term: 1/scale
					nat := wsum / math.Abs(th[len(th)-1])
					if fk.name == "Exponential" {
						nat = wsum / th[0]
					}
					a.near("fit.stationary", "distuv."+fk.name+".Fit|"+class+"|weighted-score-sum-not-zero:"+fk.names[k], where, sum[k].s/(asum[k].s+nat), 0, tolFitStationary)
				}
			}
		}
		// (2) the likelihood cannot be improved by moving one parameter
		l0 := loglik(th)
		for k := range th {
			step := math.Abs(th[k])
			if fk.names[k] == "Mu" {
				step = math.Abs(th[len(th)-1])
			}
			for _, rel := range []float64{1e-6, 1e-3, 1e-1, -1e-6, -1e-3, -1e-1} {
				t2 := append([]float64(nil), th...)
				t2[k] += rel * step
				if fk.names[k] != "Mu" && t2[k] <= 0 {
					continue
				}
				l1 := loglik(t2)
				if l1 > l0+tolFitLik*math.Abs(l0)+1e-12 {
					a.fail("distuv."+fk.name+".Fit|"+class+"|likelihood-improvable:"+fk.names[k], where,
						"fitted %v loglik %.15g; %s%+g*%g gives %.15g", th, l0, fk.names[k], rel, step, l1)
					break
				}
			}
		}
		// (3) permutation invariance: the same weighted sample in the other order
		px := make([]float64, n)
		var pw []float64
		if sw != nil {
			pw = make([]float64, n)
		}
		perm := r.Perm(n)
		for i, k := range perm {
			px[i] = sx[k]
			if sw != nil {
				pw[i] = sw[k]
			}
		}
		f2 := fk.fresh()
		if msg, panicked := try(func() { f2.Fit(px, pw) }); panicked {
			a.fail("distuv."+fk.name+".Fit|"+class+"|panics", where, "panic on permuted sample: %s", msg)
			return
		}
		a.eval("distuv."+fk.name+".Fit|permuted", 1)
		th2 := fk.params(f2)
		l2 := loglik(th2)
		// compare through the likelihood (the optimum need not be unique
		// for Laplace: any weighted median is optimal)
		a.near("fit.permutation", "distuv."+fk.name+".Fit|"+class+"|depends-on-sample-order", where, l2, l0, tolFitPerm*math.Abs(l0)+1e-12)

		// (4) ConjugateUpdate == pooling
		m.conjugate(a, fk, r, sx, sw, class)
		m.conjugateDeep(a, fk, r, j.idx)
	})
}

func cw2(cw, sw []float64) []float64 {
	if sw == nil {
		return nil
	}
	return cw
}

type conjugater interface {
	fitter
	ConjugateUpdate(suffStat []float64, nSamples float64, priorStrength []float64)
	NumSuffStat() int
	SuffStat(suffStat, samples, weights []float64) float64
}

// conjugate checks that fitting A, then updating with the sufficient
// statistics of B with prior strength |A|, equals fitting A and B pooled,
// and that the strengths are advanced by |B|.
func (m *mon) conjugate(a *acc, fk fitKind, r *vrt.Rand, xs, ws []float64, class string) {
	f := fk.fresh()
	cj, ok := f.(conjugater)
	if !ok || len(xs) < 4 {
		return
	}
	cut := r.Range(2, len(xs)-2)
	ax, bx := xs[:cut], xs[cut:]
	var aw, bw []float64
	if ws != nil {
		aw, bw = ws[:cut], ws[cut:]
	}
	where := fmt.Sprintf("distuv.%s.ConjugateUpdate |A|=%d |B|=%d %s", fk.name, len(ax), len(bx), class)
	sum := func(w []float64, n int) float64 {
		if w == nil {
			return float64(n)
		}
		var s kahan
		for _, v := range w {
			s.add(v)
		}
		return s.s
	}
	nA, nB := sum(aw, len(ax)), sum(bw, len(bx))
	var pooled []float64
	var got []float64
	var strength []float64
	var nRet float64
	msg, panicked := try(func() {
		cj.Fit(ax, aw)
		ss := make([]float64, cj.NumSuffStat())
		nRet = cj.SuffStat(ss, bx, bw)
		strength = make([]float64, cj.NumSuffStat())
		for i := range strength {
			strength[i] = nA
		}
		cj.ConjugateUpdate(ss, nRet, strength)
		got = fk.params(cj)
		p := fk.fresh()
		p.Fit(xs, ws)
		pooled = fk.params(p)
	})
	a.eval("distuv."+fk.name+".ConjugateUpdate|"+class, 1)
	if panicked {
		a.fail("distuv."+fk.name+".ConjugateUpdate|"+class+"|panics", where, "panic: %s", msg)
		return
	}
	a.near("conjugate.n", "distuv."+fk.name+".SuffStat|"+class+"|wrong-sample-count", where, nRet, nB, 1e-12*nB)
	for k := range got {
		a.near("conjugate.param", "distuv."+fk.name+".ConjugateUpdate|"+class+"|differs-from-pooled-fit:"+fk.names[k], where, got[k], pooled[k],
			tolConjugate*math.Max(math.Abs(pooled[k]), math.Abs(pooled[len(pooled)-1])))
	}
	for k := range strength {
		a.near("conjugate.strength", "distuv."+fk.name+".ConjugateUpdate|"+class+"|prior-strength-not-advanced", where, strength[k], nA+nB, 1e-12*(nA+nB))
	}
}

// conjugateDeep exercises ConjugateUpdate with priors whose strengths are
// unequal and non-integer and whose parameters are not the defaults. The
// documented meaning ("the prior is having seen strength[k] samples with
// ...", "strength is modified to include the new number of samples
// observed") fixes (a) the posterior in closed form, (b) the strengths
// written back into the argument (each component advanced by the sample
// weight), (c) associativity: A then B == A and B pooled == B then A, on
// parameters and strengths, and (d) that an empty batch changes nothing.
func (m *mon) conjugateDeep(a *acc, fk fitKind, r *vrt.Rand, idx int) {
	if _, ok := fk.fresh().(conjugater); !ok {
		return
	}
	weighted := idx%2 == 0
	gen := func(n int) (x, w []float64) {
		x = make([]float64, n)
		for i := range x {
			x[i] = fk.gen(r)
		}
		if weighted {
			w = make([]float64, n)
			for i := range w {
				w[i] = math.Exp(r.Uniform(-1.5, 1.5))
			}
		}
		return
	}
	xa, wa := gen(r.Range(2, 30))
	xb, wb := gen(r.Range(2, 30))
	nss := fk.fresh().(conjugater).NumSuffStat()
	prior := make([]float64, len(fk.names))
	for k := range prior {
		prior[k] = math.Exp(r.Uniform(-1, 1.5))
		if fk.names[k] == "Mu" {
			prior[k] = r.Uniform(-4, 6)
		}
	}
	str0 := make([]float64, nss)
	for k := range str0 {
		str0[k] = []float64{2, 6, 0.75, 11.5, 3.25}[(idx+3*k)%5]
	}
	if nss == 2 && str0[0] == str0[1] {
		str0[1] += 1.5
	}
	class := "unequal-strengths"
	if nss == 1 {
		class = "non-integer-strength"
	}
	if weighted {
		class += ",weighted"
	}
	where := fmt.Sprintf("distuv.%s.ConjugateUpdate prior %v strengths %v |A|=%d |B|=%d case %d", fk.name, prior, str0, len(xa), len(xb), idx)
	m.c.LastCase(where)
	sigp := "distuv." + fk.name + ".ConjugateUpdate|" + class + "|"
	mk := func() conjugater {
		c := fk.fresh().(conjugater)
		setParams(c, prior)
		return c
	}
	type state struct{ par, str []float64 }
	run := func(batches ...[2][]float64) (state, bool) {
		c := mk()
		str := append([]float64(nil), str0...)
		for _, b := range batches {
			ss := make([]float64, nss)
			n := c.SuffStat(ss, b[0], b[1])
			before := append([]float64(nil), str...)
			ssCopy := append([]float64(nil), ss...)
			if msg, panicked := try(func() { c.ConjugateUpdate(ss, n, str) }); panicked {
				a.fail(sigp+"panics", where, "panic: %s", msg)
				return state{}, false
			}
			a.eval("distuv."+fk.name+".ConjugateUpdate|"+class, 1)
			// (b) every strength advanced by exactly the sample weight; suffStat not modified
			for k := range str {
				a.near("conjugate.strength", sigp+"strength-not-advanced-by-sample-weight", where+fmt.Sprintf(" component %d", k), str[k], before[k]+n, 1e-14*(before[k]+n))
			}
			for k := range ss {
				if ss[k] != ssCopy[k] {
					a.fail(sigp+"modifies-suffStat", where, "suffStat %v -> %v", ssCopy, ss)
				}
			}
		}
		return state{fk.params(c), str}, true
	}
	cat := func(p, q []float64) []float64 {
		if p == nil {
			return nil
		}
		return append(append([]float64(nil), p...), q...)
	}
	A, B := [2][]float64{xa, wa}, [2][]float64{xb, wb}
	AB := [2][]float64{cat(xa, xb), cat(wa, wb)}
	sAB, ok1 := run(A, B)
	sBA, ok2 := run(B, A)
	sP, ok3 := run(AB)
	if !(ok1 && ok2 && ok3) {
		return
	}
	scale := math.Abs(sP.par[len(sP.par)-1]) + math.Abs(sP.par[0])
	cmp := func(clause string, x, y state) {
		for k := range x.par {
			a.near("conjugate.assoc", sigp+clause+":"+fk.names[k], where, x.par[k], y.par[k], 1e-10*scale)
		}
		for k := range x.str {
			a.near("conjugate.assoc", sigp+clause+":strength", where+fmt.Sprintf(" component %d", k), x.str[k], y.str[k], 1e-12*y.str[k])
		}
	}
	cmp("batchwise-differs-from-pooled", sAB, sP)
	cmp("depends-on-batch-order", sBA, sAB)
	// (a) closed form of the documented prior for the pooled batch
	c := mk()
	ss := make([]float64, nss)
	n := c.SuffStat(ss, AB[0], AB[1])
	var wsum, mean kahan
	for i, x := range AB[0] {
		w := 1.0
		if AB[1] != nil {
			w = AB[1][i]
		}
		wsum.add(w)
		mean.add(w * x)
	}
	mu := mean.s / wsum.s
	a.near("conjugate.n", "distuv."+fk.name+".SuffStat|"+class+"|wrong-sample-count", where, n, wsum.s, 1e-12*wsum.s)
	switch fk.name {
	case "Normal":
		var v kahan
		for i, x := range AB[0] {
			w := 1.0
			if AB[1] != nil {
				w = AB[1][i]
			}
			v.add(w * (x - mu) * (x - mu))
		}
		a.near("conjugate.suffstat", "distuv.Normal.SuffStat|"+class+"|suffStat[0]-not-the-mean", where, ss[0], mu, 1e-12*(math.Abs(mu)+1))
		a.near("conjugate.suffstat", "distuv.Normal.SuffStat|"+class+"|suffStat[1]-not-the-uncorrected-std", where, ss[1], math.Sqrt(v.s/wsum.s), 1e-10*math.Sqrt(v.s/wsum.s))
		s0, s1 := str0[0], str0[1]
		wantMu := (wsum.s*mu + s0*prior[0]) / (wsum.s + s0)
		wantVar := (v.s + s1*prior[1]*prior[1] + s0*wsum.s*(mu-prior[0])*(mu-prior[0])/(wsum.s+s0)) / (wsum.s + s1)
		a.near("conjugate.closed", sigp+"differs-from-documented-posterior:Mu", where, sP.par[0], wantMu, 1e-10*scale)
		a.near("conjugate.closed", sigp+"differs-from-documented-posterior:Sigma", where, sP.par[1], math.Sqrt(wantVar), 1e-10*scale)
	case "Exponential":
		a.near("conjugate.suffstat", "distuv.Exponential.SuffStat|"+class+"|suffStat[0]-not-the-inverse-mean", where, ss[0], 1/mu, 1e-12/mu)
		want := (wsum.s + str0[0]) / (wsum.s*mu + str0[0]/prior[0])
		a.near("conjugate.closed", sigp+"differs-from-documented-posterior:Rate", where, sP.par[0], want, 1e-10*want)
	}
	// (d) an empty batch (no sample weight) leaves parameters and strengths unchanged
	c = mk()
	str := append([]float64(nil), str0...)
	dummy := make([]float64, nss)
	for k := range dummy {
		dummy[k] = 1.25
	}
	if msg, panicked := try(func() { c.ConjugateUpdate(dummy, 0, str) }); panicked {
		a.fail(sigp+"panics", where+" empty batch", "panic: %s", msg)
		return
	}
	a.eval("distuv."+fk.name+".ConjugateUpdate|empty-batch", 1)
	got := fk.params(c)
	for k := range got {
		a.near("conjugate.empty", "distuv."+fk.name+".ConjugateUpdate|empty-batch|parameter-changed:"+fk.names[k], where, got[k], prior[k], 1e-14*(math.Abs(prior[k])+math.Abs(prior[len(prior)-1])))
	}
	for k := range str {
		a.near("conjugate.empty", "distuv."+fk.name+".ConjugateUpdate|empty-batch|strength-changed", where, str[k], str0[k], 0)
	}
}

// setParams stores a parameter vector (in fitKind.names order) into a
// Fit-capable receiver.
func setParams(f fitter, p []float64) {
	switch d := f.(type) {
	case *distuv.Normal:
		d.Mu, d.Sigma = p[0], p[1]
	case *distuv.Exponential:
		d.Rate = p[0]
	case *distuv.Laplace:
		d.Mu, d.Scale = p[0], p[1]
	}
}

// conjugateInventory lists (by reflection over every distuv type of the
// grid) the types that implement ConjugateUpdate and reports one that the
// deep check does not know.
func (m *mon) conjugateInventory() {
	known := map[string]bool{}
	for _, fk := range fitKinds {
		if _, ok := fk.fresh().(conjugater); ok {
			known[fk.name] = true
		}
	}
	found := map[string]bool{}
	for typ, ls := range allLaws() {
		v := ls[0].mk(nil)
		if _, ok := reflect.PointerTo(reflect.TypeOf(v)).MethodByName("ConjugateUpdate"); ok {
			found[typ] = true
			if !known[typ] {
				m.c.Inconclusive("uvfit.conjugate", "distuv."+typ+" implements ConjugateUpdate but has no entry in fitKinds: its conjugate update is not checked")
			}
		}
	}
	m.c.NoteSet("distuv_types_with_ConjugateUpdate", found)
}
