package main

import (
	"fmt"
	"math"
	"math/rand/v2"
	"os"
	"sort"
	"strings"
	"sync"

	"gonum.org/v1/gonum/verifx/vrt"
)

// mon carries the context plus calibration bookkeeping: for every kind of
// numeric comparison the worst observed ratio error/tolerance is recorded and
// reported in the evidence notes ("ratio.<kind>"), so that the distance of the
// pinned tree from each tolerance is visible.
type mon struct {
	c *vrt.Ctx

	mu      sync.Mutex
	ratios  map[string]float64
	ratioAt map[string]string
	evals   map[string]int
	nover   map[string]int

	// nilSrc selects the nil-source pass (set between parallel phases only).
	nilSrc bool
}

var debug = os.Getenv("C11_DEBUG") != ""

// src returns the seeded stream (name, idx) or, in the nil-source pass, a nil
// rand.Source: gonum then draws from the package-global math/rand/v2
// generator, which cannot be seeded, so such runs are not replayable; their
// verdicts are DKW bands and exact support/structure checks only, whose
// false-alarm bound (1e-12 per band) does not depend on any seed.
func (m *mon) src(name string, idx ...int) rand.Source {
	if m.nilSrc {
		return nil
	}
	return m.c.RNG(name, idx...)
}

// rclass decorates a path class for the nil-source pass.
func (m *mon) rclass(class string) string {
	if m.nilSrc {
		return "nil-source"
	}
	return class
}

// tag marks signature and witness of a violation found in the nil-source pass.
func (m *mon) tag(sig, where string) (string, string) {
	if !m.nilSrc {
		return sig, where
	}
	p := strings.SplitN(sig, "|", 3)
	if len(p) == 3 && !strings.HasPrefix(p[1], "nil-source") {
		if p[1] == "-" || p[1] == "" {
			p[1] = "nil-source"
		} else {
			p[1] = "nil-source," + p[1]
		}
		sig = strings.Join(p, "|")
	}
	return sig, where + m.rnote()
}

// rnote is appended to witnesses of the nil-source pass.
func (m *mon) rnote() string {
	if m.nilSrc {
		return " [Src=nil: package-global generator, not seedable, no replay]"
	}
	return ""
}

func newMon(c *vrt.Ctx) *mon {
	return &mon{
		c:       c,
		ratios:  map[string]float64{},
		ratioAt: map[string]string{},
		evals:   map[string]int{},
		nover:   map[string]int{},
	}
}

// acc is a goroutine-local accumulator of evaluation counts and ratios,
// merged into the monitor with flush (vrt.Eval takes a global lock).
type acc struct {
	m       *mon
	evals   map[string]int
	ratios  map[string]float64
	ratioAt map[string]string
	nover   map[string]int
}

func (m *mon) newAcc() *acc {
	return &acc{m: m, evals: map[string]int{}, ratios: map[string]float64{}, ratioAt: map[string]string{}, nover: map[string]int{}}
}

// eval counts n real calls of gonum code under the class key.
func (a *acc) eval(key string, n int) { a.evals[key] += n }

// noverdict counts a case for which no verdict was issued.
func (a *acc) noverdict(kind string) { a.nover[kind]++ }

// noverdictAt is noverdict with a description of the case printed when
// C11_DEBUG is set.
func (a *acc) noverdictAt(kind, where string) {
	a.nover[kind]++
	if debug {
		fmt.Fprintln(os.Stderr, "noverdict", kind, where)
	}
}

func (a *acc) flush() {
	m := a.m
	m.mu.Lock()
	for k, n := range a.evals {
		m.evals[k] += n
	}
	for k, r := range a.ratios {
		if r > m.ratios[k] {
			m.ratios[k] = r
			m.ratioAt[k] = a.ratioAt[k]
		}
	}
	for k, n := range a.nover {
		m.nover[k] += n
	}
	m.mu.Unlock()
	for k, n := range a.evals {
		m.c.EvalN(k, n, true)
	}
	a.evals = map[string]int{}
	a.ratios = map[string]float64{}
	a.ratioAt = map[string]string{}
	a.nover = map[string]int{}
}

// near judges |got-want| <= tol. kind is the calibration bucket, sig the
// violation signature, where a description of the case. A NaN on either side
// is a violation (callers filter documented NaNs before).
func (a *acc) near(kind, sig, where string, got, want, tol float64) bool {
	err := math.Abs(got - want)
	if got == want { // covers equal infinities
		err = 0
	}
	ratio := err / tol
	if err == 0 {
		ratio = 0
	}
	if math.IsNaN(ratio) {
		ratio = math.Inf(1)
	}
	if ratio > a.ratios[kind] {
		a.ratios[kind] = ratio
		a.ratioAt[kind] = where
	}
	if !(ratio <= 1) {
		sig, where = a.m.tag(sig, where)
		a.m.c.Violation(sig, fmt.Sprintf("%s: got %.17g want %.17g |diff| %.3g tol %.3g", where, got, want, err, tol),
			map[string]any{"case": where, "got": got, "want": want, "tol": tol})
		return false
	}
	return true
}

// fail raises a violation unconditionally.
func (a *acc) fail(sig, where, format string, args ...any) {
	sig, where = a.m.tag(sig, where)
	a.m.c.Violation(sig, where+": "+fmt.Sprintf(format, args...), map[string]any{"case": where})
}

func (m *mon) flushNotes() {
	m.mu.Lock()
	defer m.mu.Unlock()
	keys := make([]string, 0, len(m.ratios))
	for k := range m.ratios {
		keys = append(keys, k)
	}
	sort.Strings(keys)
	worst := map[string]any{}
	for _, k := range keys {
		worst[k] = fmt.Sprintf("%.3g @ %s", m.ratios[k], m.ratioAt[k])
	}
	m.c.Note("worst_error_over_tolerance", worst)
	nv := map[string]any{}
	for k, n := range m.nover {
		nv[k] = n
	}
	m.c.Note("noverdict", nv)
	ev := map[string]any{}
	for k, n := range m.evals {
		ev[k] = n
	}
	m.c.Note("evals_by_class", ev)
}

// try runs f and reports a recovered panic message ("" if none).
func try(f func()) (msg string, panicked bool) {
	p := vrt.TryFast(f)
	if p == nil {
		return "", false
	}
	return p.Msg, true
}

func isFinite(x float64) bool { return !math.IsNaN(x) && !math.IsInf(x, 0) }
