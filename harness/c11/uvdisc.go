package main

import (
	"fmt"
	"math"
)

const (
	// discrete laws: sums of Prob against CDF and 1; closed-form moments
	// against exact summation (relative).
	tolDiscSum    = 1e-10
	tolDiscMoment = 1e-9
)

// uvDiscrete checks a discrete law (atoms 0..nAtoms-1) by exact summation.
func (m *mon) uvDiscrete(a *acc, l *law) {
	d := l.mk(nil)
	where := l.String()
	F, hasF := d.(cdfer)
	S, hasS := d.(survivaler)
	P, hasP := d.(prober)
	LP, hasLP := d.(logprober)
	Q, hasQ := d.(quantiler)
	if !hasF || !hasP {
		return
	}
	atom := "atom"
	nonint := "between-atoms"
	if l.edge {
		atom, nonint = "atom,degenerate-parameter", "between-atoms,degenerate-parameter"
	}
	n := l.nAtoms
	pr := make([]float64, n)
	cdf := make([]float64, n)
	var cum kahan
	bad := false
	for k := 0; k < n; k++ {
		x := float64(k)
		p, ok := a.call(l, "Prob", atom, x, P.Prob)
		if !ok || !(p >= 0) {
			if ok {
				a.fail(sig(l, "Prob", atom, "negative-or-NaN"), where, "Prob(%d) = %g", k, p)
			}
			bad = true
			continue
		}
		pr[k] = p
		if hasLP {
			if lp, ok := a.call(l, "LogProb", atom, x, LP.LogProb); ok {
				a.near("disc.prob.explogprob", sig(l, "Prob", atom, "Prob!=exp(LogProb)"), fmt.Sprintf("%s k=%d", where, k), p, math.Exp(lp), tolProbLog*p+1e-300)
			}
		}
		cum.add(p)
		f, ok := a.call(l, "CDF", atom, x, F.CDF)
		if !ok {
			bad = true
			continue
		}
		cdf[k] = f
		if !(f >= 0 && f <= 1) {
			a.fail(sig(l, "CDF", atom, "outside-[0,1]"), where, "CDF(%d) = %g", k, f)
		}
		if !bad {
			a.near("disc.cdf", sig(l, "CDF", atom, "CDF!=sum-of-Prob"), fmt.Sprintf("%s k=%d", where, k), f, cum.s, tolDiscSum)
		}
		if k > 0 && f < cdf[k-1]-tolMonoAbs {
			a.fail(sig(l, "CDF", atom, "decreasing"), where, "CDF(%d)=%.17g > CDF(%d)=%.17g", k-1, cdf[k-1], k, f)
		}
		if hasS {
			if s, ok := a.call(l, "Survival", atom, x, S.Survival); ok {
				a.near("disc.complement", sig(l, "Survival", atom, "CDF+Survival!=1"), fmt.Sprintf("%s k=%d", where, k), f+s, 1, tolComplement)
			}
		}
		// step function: the same value everywhere in [k, k+1)
		for _, fr := range []float64{0.25, 0.5, 1 - 1e-9} {
			xx := x + fr
			if k == n-1 && !math.IsInf(l.hi, 1) {
				break
			}
			if f2, ok := a.call(l, "CDF", nonint, xx, F.CDF); ok {
				a.near("disc.step", sig(l, "CDF", nonint, "not-a-step-function"), fmt.Sprintf("%s x=%g", where, xx), f2, f, 1e-15)
				if hasS {
					if s2, ok := a.call(l, "Survival", nonint, xx, S.Survival); ok {
						a.near("disc.complement", sig(l, "Survival", nonint, "CDF+Survival!=1"), fmt.Sprintf("%s x=%g", where, xx), f2+s2, 1, tolComplement)
					}
				}
			}
			if p2, ok := a.call(l, "Prob", nonint, xx, P.Prob); ok && p2 != 0 {
				a.fail(sig(l, "Prob", nonint, "non-zero"), where, "Prob(%g) = %g", xx, p2)
			}
			if hasLP {
				if lp2, ok := a.call(l, "LogProb", nonint, xx, LP.LogProb); ok && !math.IsInf(lp2, -1) {
					a.fail(sig(l, "LogProb", nonint, "not-minus-Inf"), where, "LogProb(%g) = %g", xx, lp2)
				}
			}
		}
	}
	// outside the support
	outs := []struct {
		x     float64
		class string
		f, s  float64
	}{{-1, "below-support", 0, 1}, {-0.5, "below-support", 0, 1}, {-1e-9, "below-support", 0, 1}, {-1e6, "below-support", 0, 1}}
	if !math.IsInf(l.hi, 1) {
		for _, x := range []float64{l.hi + 1e-9, l.hi + 0.5, l.hi + 1, l.hi + 1e6} {
			if x > l.hi {
				outs = append(outs, struct {
					x     float64
					class string
					f, s  float64
				}{x, "above-support", 1, 0})
			}
		}
	}
	for _, q := range outs {
		if f, ok := a.call(l, "CDF", q.class, q.x, F.CDF); ok {
			a.near("disc.outside", sig(l, "CDF", q.class, "wrong-value"), fmt.Sprintf("%s x=%g", where, q.x), f, q.f, 1e-15)
		}
		if hasS {
			if s, ok := a.call(l, "Survival", q.class, q.x, S.Survival); ok {
				a.near("disc.outside", sig(l, "Survival", q.class, "wrong-value"), fmt.Sprintf("%s x=%g", where, q.x), s, q.s, 1e-15)
			}
		}
		if p, ok := a.call(l, "Prob", q.class, q.x, P.Prob); ok && p != 0 {
			a.fail(sig(l, "Prob", q.class, "non-zero"), where, "Prob(%g) = %g", q.x, p)
		}
		if hasLP {
			if lp, ok := a.call(l, "LogProb", q.class, q.x, LP.LogProb); ok && !math.IsInf(lp, -1) {
				a.fail(sig(l, "LogProb", q.class, "not-minus-Inf"), where, "LogProb(%g) = %g", q.x, lp)
			}
		}
	}
	if bad {
		return
	}
	a.near("disc.mass", sig(l, "Prob", "whole-support", "does-not-sum-to-1"), where, cum.s, 1, tolDiscSum)

	// ---- quantile: the discrete inverse rule CDF(Q(p)) >= p > CDF(Q(p)-1) ----
	if hasQ {
		ps := append([]float64(nil), pGrid...)
		for k := 0; k < n; k++ {
			ps = append(ps, cdf[k], math.Nextafter(cdf[k], 0), math.Nextafter(cdf[k], 2))
		}
		ps = append(ps, 0, 1)
		for _, p := range ps {
			if !(p >= 0 && p <= 1) {
				continue
			}
			q, ok := a.call(l, "Quantile", "interior", p, Q.Quantile)
			if !ok {
				continue
			}
			if q != math.Floor(q) || q < l.lo || q > l.hi {
				a.fail(sig(l, "Quantile", "interior", "not-an-atom"), where, "Quantile(%g) = %g", p, q)
				continue
			}
			if !(cdf[int(q)] >= p) {
				a.fail(sig(l, "Quantile", "interior", "CDF(Q(p))<p"), where, "Quantile(%.17g) = %g but CDF = %.17g", p, q, cdf[int(q)])
			}
			if q > 0 && p > 0 && !(cdf[int(q)-1] < p) {
				a.fail(sig(l, "Quantile", "interior", "CDF(Q(p)-1)>=p"), where, "Quantile(%.17g) = %g but CDF(%g) = %.17g >= p", p, q, q-1, cdf[int(q)-1])
			}
		}
		for _, p := range []float64{-0.25, 1.25, -1e-300, 1 + 1e-15} {
			var v float64
			_, panicked := try(func() { v = Q.Quantile(p) })
			a.eval("distuv."+l.typ+".Quantile|p-out-of-range", 1)
			if !panicked && !math.IsNaN(v) {
				a.fail(sig(l, "Quantile", "p-out-of-range", "returns-a-number"), where, "Quantile(%g) = %g (neither panic nor NaN)", p, v)
			}
		}
	}

	// ---- moments by exact summation ----
	var s1 kahan
	for k := 0; k < n; k++ {
		s1.add(float64(k) * pr[k])
	}
	mean := s1.s
	var s2, s3, s4, sh kahan
	for k := 0; k < n; k++ {
		dx := float64(k) - mean
		s2.add(dx * dx * pr[k])
		s3.add(dx * dx * dx * pr[k])
		s4.add(dx * dx * dx * dx * pr[k])
		if pr[k] > 0 {
			sh.add(-pr[k] * math.Log(pr[k]))
		}
	}
	vr := s2.s
	if mm, ok := d.(meaner); ok {
		a.eval("distuv."+l.typ+".Mean|"+l.pclass, 1)
		a.near("disc.mean", sig(l, "Mean", "-", "differs-from-sum"), where, mm.Mean(), mean, tolDiscMoment*math.Max(1, mean))
	}
	if en, ok := d.(entropyer); ok {
		a.eval("distuv."+l.typ+".Entropy|"+l.pclass, 1)
		a.near("disc.entropy", sig(l, "Entropy", "-", "differs-from-sum"), where, en.Entropy(), sh.s, tolDiscMoment*math.Max(1, sh.s))
	}
	if vv, ok := d.(variancer); ok {
		g := vv.Variance()
		a.eval("distuv."+l.typ+".Variance|"+l.pclass, 1)
		a.near("disc.variance", sig(l, "Variance", "-", "differs-from-sum"), where, g, vr, tolDiscMoment*math.Max(vr, 1e-300)+1e-300)
		if ss, ok := d.(stddever); ok {
			a.near("disc.stddev", sig(l, "StdDev", "-", "not-sqrt-of-Variance"), where, ss.StdDev(), math.Sqrt(g), 1e-13*math.Sqrt(g)+1e-300)
		}
	}
	if !l.edge && vr > 0 {
		if sk, ok := d.(skewnesser); ok {
			w := s3.s / (vr * math.Sqrt(vr))
			a.eval("distuv."+l.typ+".Skewness|"+l.pclass, 1)
			a.near("disc.skewness", sig(l, "Skewness", "-", "differs-from-sum"), where, sk.Skewness(), w, 1e-8*math.Max(1, math.Abs(w)))
		}
		if ek, ok := d.(exkurtosiser); ok {
			w := s4.s/(vr*vr) - 3
			a.eval("distuv."+l.typ+".ExKurtosis|"+l.pclass, 1)
			a.near("disc.exkurtosis", sig(l, "ExKurtosis", "-", "differs-from-sum"), where, ek.ExKurtosis(), w, 1e-8*math.Max(1, math.Abs(w)+3))
		}
	}
	// ---- median (generalised): P(X <= m) >= 1/2 and P(X >= m) >= 1/2 ----
	if md, ok := d.(medianer); ok {
		g := md.Median()
		a.eval("distuv."+l.typ+".Median|"+l.pclass, 1)
		var le, ge kahan
		for k := 0; k < n; k++ {
			if float64(k) <= g {
				le.add(pr[k])
			}
			if float64(k) >= g {
				ge.add(pr[k])
			}
		}
		if !(le.s >= 0.5-1e-12 && ge.s >= 0.5-1e-12) {
			a.fail(sig(l, "Median", "-", "not-a-median"), where, "Median() = %g: P(X<=m)=%g P(X>=m)=%g", g, le.s, ge.s)
		}
	}
}
