package main

import (
	"fmt"
	"math"
	"sort"

	"gonum.org/v1/gonum/mat"
	"gonum.org/v1/gonum/spatial/r1"
	"gonum.org/v1/gonum/stat/distmv"
	"gonum.org/v1/gonum/stat/distuv"
	"gonum.org/v1/gonum/verifx/vrt"
)

const (
	// distmv closed forms against the harness's dense reference (dimensions
	// <= 5, condition numbers <= 400), relative to max(1,|value|).
	tolMV = 1e-9
)

func (m *mon) runMV() {
	n := m.c.Pick(60, 600)
	vrt.Parallel(n, func(i int) {
		a := m.newAcc()
		defer a.flush()
		m.mvNormal(a, i)
		m.mvStudent(a, i)
		m.mvUniform(a, i)
		m.mvDirichlet(a, i)
		m.mvDistances(a, i)
	})
	nr := m.c.Pick(8, 48)
	vrt.Parallel(nr, func(i int) {
		a := m.newAcc()
		defer a.flush()
		m.mvRand(a, i)
	})
}

func vecNear(a *acc, kind, sig, where string, got, want []float64, tol float64) {
	if len(got) != len(want) {
		a.fail(sig, where, "length %d, want %d", len(got), len(want))
		return
	}
	for i := range got {
		if !a.near(kind, sig, fmt.Sprintf("%s [%d]", where, i), got[i], want[i], tol) {
			return
		}
	}
}

func matNear(a *acc, kind, sig, where string, got mat.Matrix, want matrix, tol float64) {
	r, c := got.Dims()
	if r != len(want) || c != len(want[0]) {
		a.fail(sig, where, "dims %dx%d, want %dx%d", r, c, len(want), len(want[0]))
		return
	}
	for i := 0; i < r; i++ {
		for j := 0; j < c; j++ {
			if !a.near(kind, sig, fmt.Sprintf("%s [%d,%d]", where, i, j), got.At(i, j), want[i][j], tol) {
				return
			}
		}
	}
}

// mvCase draws a mean and an SPD covariance.
func mvCase(r *vrt.Rand) (dim int, mu []float64, sigma matrix) {
	dim = r.Range(1, 5)
	mu = make([]float64, dim)
	for i := range mu {
		mu[i] = r.Uniform(-5, 5)
	}
	sigma = randSPD(r, dim, 0.05, 20)
	return
}

func randSubset(r *vrt.Rand, dim, k int) []int {
	p := r.Perm(dim)[:k]
	return p
}

func complement(idx []int, dim int) []int {
	in := map[int]bool{}
	for _, v := range idx {
		in[v] = true
	}
	var out []int
	for i := 0; i < dim; i++ {
		if !in[i] {
			out = append(out, i)
		}
	}
	return out
}

// refNormalLogProb is the multivariate normal log density.
func refNormalLogProb(x, mu []float64, sigma matrix) float64 {
	l, _ := chol(sigma)
	d := make([]float64, len(x))
	for i := range x {
		d[i] = x[i] - mu[i]
	}
	k := float64(len(x))
	return -0.5*k*math.Log(2*math.Pi) - 0.5*cholLogDet(l) - 0.5*quadForm(l, d)
}

// refCondition returns the Schur-complement conditional mean/covariance of
// the unobserved block and beta = (v-mu_ob)' S_ob^-1 (v-mu_ob).
func refCondition(mu []float64, sigma matrix, ob []int, v []float64) (un []int, cm []float64, cs matrix, beta float64) {
	un = complement(ob, len(mu))
	s11 := sigma.sub(un, un)
	s12 := sigma.sub(un, ob)
	s22 := sigma.sub(ob, ob)
	l, _ := chol(s22)
	d := make([]float64, len(ob))
	for i, o := range ob {
		d[i] = v[i] - mu[o]
	}
	w := cholSolve(l, d)
	beta = dot(d, w)
	cm = make([]float64, len(un))
	for i, u := range un {
		cm[i] = mu[u] + dot(s12[i], w)
	}
	inv := spdInverse(s22)
	corr := s12.mul(inv).mul(s12.t())
	cs = newMatrix(len(un), len(un))
	for i := range cs {
		for j := range cs {
			cs[i][j] = s11[i][j] - corr[i][j]
		}
	}
	return
}

func (m *mon) mvNormal(a *acc, idx int) {
	r := m.c.RNG("mv.normal", idx)
	dim, mu, sigma := mvCase(r)
	where := fmt.Sprintf("distmv.Normal case %d dim=%d", idx, dim)
	m.c.LastCase(where)
	sym := sigma.sym()
	ctor := []string{"NewNormal", "NewNormalChol", "NewNormalPrecision"}[idx%3]
	var n *distmv.Normal
	var ok bool
	msg, panicked := try(func() {
		switch ctor {
		case "NewNormal":
			n, ok = distmv.NewNormal(mu, sym, nil)
		case "NewNormalChol":
			var ch mat.Cholesky
			ok = ch.Factorize(sym)
			n = distmv.NewNormalChol(mu, &ch, nil)
		case "NewNormalPrecision":
			prec := spdInverse(sigma).sym()
			n, ok = distmv.NewNormalPrecision(mu, prec, nil)
		}
	})
	a.eval("distmv."+ctor+"|spd", 1)
	if panicked || !ok || n == nil {
		a.fail("distmv."+ctor+"|spd|fails", where, "panicked=%v (%s) ok=%v", panicked, msg, ok)
		return
	}
	if m.c.WantSample() && idx < 2 {
		m.c.Sample(map[string]any{"sub": "mv", "ctor": ctor, "mu": mu, "sigma": [][]float64(sigma)})
	}
	tol := tolMV
	if ctor == "NewNormalPrecision" {
		tol = 1e-7 // two inversions of a matrix with condition number up to 400
	}
	// density
	for k := 0; k < 4; k++ {
		x := make([]float64, dim)
		for i := range x {
			x[i] = mu[i] + r.Uniform(-3, 3)*math.Sqrt(sigma[i][i])
		}
		want := refNormalLogProb(x, mu, sigma)
		got := n.LogProb(x)
		a.eval("distmv.Normal.LogProb|"+ctor, 1)
		a.near("mv.normal.logprob", "distmv.Normal.LogProb|"+ctor+"|differs-from-formula", where, got, want, tol*math.Max(1, math.Abs(want)))
		a.near("mv.normal.prob", "distmv.Normal.Prob|"+ctor+"|Prob!=exp(LogProb)", where, n.Prob(x), math.Exp(got), 1e-13*math.Exp(got)+1e-300)
		if ctor == "NewNormal" {
			var ch mat.Cholesky
			ch.Factorize(sym)
			a.near("mv.normal.logprob", "distmv.NormalLogProb|-|differs-from-method", where, distmv.NormalLogProb(x, mu, &ch), got, 1e-12*math.Max(1, math.Abs(got)))
		}
		// ScoreInput = -Sigma^-1 (x-mu)
		l, _ := chol(sigma)
		d := make([]float64, dim)
		for i := range d {
			d[i] = -(x[i] - mu[i])
		}
		wantS := cholSolve(l, d)
		gotS := n.ScoreInput(nil, x)
		a.eval("distmv.Normal.ScoreInput|"+ctor, 1)
		sc := 0.0
		for _, v := range wantS {
			sc = math.Max(sc, math.Abs(v))
		}
		vecNear(a, "mv.normal.score", "distmv.Normal.ScoreInput|"+ctor+"|differs-from-formula", where, gotS, wantS, tol*math.Max(1, sc)*10)
	}
	l, _ := chol(sigma)
	a.near("mv.normal.entropy", "distmv.Normal.Entropy|"+ctor+"|differs-from-formula", where, n.Entropy(),
		0.5*float64(dim)*(1+math.Log(2*math.Pi))+0.5*cholLogDet(l), tol*10)
	vecNear(a, "mv.normal.mean", "distmv.Normal.Mean|"+ctor+"|differs", where, n.Mean(nil), mu, 0)
	if n.Dim() != dim {
		a.fail("distmv.Normal.Dim|"+ctor+"|wrong", where, "Dim() = %d", n.Dim())
	}
	// covariance
	var cov mat.SymDense
	if msg, panicked := try(func() { n.CovarianceMatrix(&cov) }); panicked {
		a.fail("distmv.Normal.CovarianceMatrix|"+ctor+"|panics", where, "panic: %s", msg)
	} else {
		a.eval("distmv.Normal.CovarianceMatrix|"+ctor, 1)
		matNear(a, "mv.normal.cov", "distmv.Normal.CovarianceMatrix|"+ctor+"|differs-from-sigma", where, &cov, sigma, tol*sigma.maxAbs()*100)
	}
	// TransformNormal: y = mu + A x with A A^T = Sigma (any square root is admissible)
	zero := n.TransformNormal(nil, make([]float64, dim))
	a.eval("distmv.Normal.TransformNormal|"+ctor, dim+1)
	A := newMatrix(dim, dim)
	for j := 0; j < dim; j++ {
		e := make([]float64, dim)
		e[j] = 1
		col := n.TransformNormal(nil, e)
		for i := 0; i < dim; i++ {
			A[i][j] = col[i] - zero[i]
		}
	}
	vecNear(a, "mv.normal.transform", "distmv.Normal.TransformNormal|"+ctor+"|T(0)!=mu", where, zero, mu, 1e-12*10)
	aat := A.mul(A.t())
	matNear(a, "mv.normal.transform", "distmv.Normal.TransformNormal|"+ctor+"|A*A^T!=sigma", where, aat.sym(), sigma, tol*sigma.maxAbs()*100)
	// linearity at a random point, in place
	xr := make([]float64, dim)
	for i := range xr {
		xr[i] = r.Norm()
	}
	want := A.mulVec(xr)
	for i := range want {
		want[i] += zero[i]
	}
	buf := append([]float64(nil), xr...)
	n.TransformNormal(buf, buf)
	vecNear(a, "mv.normal.transform", "distmv.Normal.TransformNormal|"+ctor+"|not-affine-or-in-place-differs", where, buf, want, 1e-11*(1+sigma.maxAbs()))
	// Quantile = TransformNormal(unit normal quantiles), component-wise inverse
	p := make([]float64, dim)
	z := make([]float64, dim)
	for i := range p {
		p[i] = r.Uniform(0.001, 0.999)
		z[i] = distuv.UnitNormal.Quantile(p[i])
	}
	q := n.Quantile(nil, p)
	a.eval("distmv.Normal.Quantile|"+ctor, 1)
	wq := A.mulVec(z)
	for i := range wq {
		wq[i] += zero[i]
	}
	vecNear(a, "mv.normal.quantile", "distmv.Normal.Quantile|"+ctor+"|!=TransformNormal(quantiles)", where, q, wq, 1e-11*(1+sigma.maxAbs())*4)
	pb := append([]float64(nil), p...)
	pb[r.Intn(dim)] = 1.5
	if _, panicked := try(func() { n.Quantile(nil, pb) }); !panicked {
		a.fail("distmv.Normal.Quantile|p-out-of-range|no-panic", where, "documented panic missing for p=%v", pb)
	}
	// marginals
	if dim >= 2 {
		k := r.Range(1, dim-1)
		vars := randSubset(r, dim, k)
		var mg *distmv.Normal
		if msg, panicked := try(func() { mg, ok = n.MarginalNormal(vars, nil) }); panicked || !ok {
			a.fail("distmv.Normal.MarginalNormal|"+ctor+"|fails", where, "panicked=%v (%s) ok=%v", panicked, msg, ok)
		} else {
			a.eval("distmv.Normal.MarginalNormal|"+ctor, 1)
			wm := make([]float64, k)
			for i, v := range vars {
				wm[i] = mu[v]
			}
			vecNear(a, "mv.normal.marginal", "distmv.Normal.MarginalNormal|"+ctor+"|mean", where, mg.Mean(nil), wm, 0)
			var mc mat.SymDense
			mg.CovarianceMatrix(&mc)
			matNear(a, "mv.normal.marginal", "distmv.Normal.MarginalNormal|"+ctor+"|covariance", where, &mc, sigma.sub(vars, vars), tol*sigma.maxAbs()*100)
		}
		// conditioning
		ob := randSubset(r, dim, r.Range(1, dim-1))
		vals := make([]float64, len(ob))
		for i, o := range ob {
			vals[i] = mu[o] + r.Uniform(-2, 2)*math.Sqrt(sigma[o][o])
		}
		var cn *distmv.Normal
		if msg, panicked := try(func() { cn, ok = n.ConditionNormal(ob, vals, nil) }); panicked || !ok {
			a.fail("distmv.Normal.ConditionNormal|"+ctor+"|fails", where, "panicked=%v (%s) ok=%v", panicked, msg, ok)
		} else {
			a.eval("distmv.Normal.ConditionNormal|"+ctor, 1)
			un, cm, cs, _ := refCondition(mu, sigma, ob, vals)
			vecNear(a, "mv.normal.condition", "distmv.Normal.ConditionNormal|"+ctor+"|mean-differs-from-Schur-complement", where, cn.Mean(nil), cm, 1e-8*(1+sigma.maxAbs())*10)
			var cc mat.SymDense
			cn.CovarianceMatrix(&cc)
			matNear(a, "mv.normal.condition", "distmv.Normal.ConditionNormal|"+ctor+"|covariance-differs-from-Schur-complement", where, &cc, cs, 1e-8*sigma.maxAbs()*10)
			// density identity: p(x_un | x_ob) = p(x) / p(x_ob)
			x := make([]float64, dim)
			xu := make([]float64, len(un))
			for i, u := range un {
				xu[i] = cm[i] + r.Uniform(-2, 2)*math.Sqrt(cs[i][i])
				x[u] = xu[i]
			}
			for i, o := range ob {
				x[o] = vals[i]
			}
			mo, ok2 := distmv.NewNormal(pick(mu, ob), sigma.sub(ob, ob).sym(), nil)
			if ok2 {
				lhs := cn.LogProb(xu)
				rhs := n.LogProb(x) - mo.LogProb(vals)
				a.near("mv.normal.condition", "distmv.Normal.ConditionNormal|"+ctor+"|density!=joint/marginal", where, lhs, rhs, 1e-7*math.Max(1, math.Abs(rhs)))
			}
		}
	}
	i0 := r.Intn(dim)
	var ms distuv.Normal
	if msg, panicked := try(func() { ms = n.MarginalNormalSingle(i0, nil) }); panicked {
		a.fail("distmv.Normal.MarginalNormalSingle|"+ctor+"|panics", where, "panic: %s", msg)
	} else {
		a.eval("distmv.Normal.MarginalNormalSingle|"+ctor, 1)
		a.near("mv.normal.marginal", "distmv.Normal.MarginalNormalSingle|"+ctor+"|mean", where, ms.Mu, mu[i0], 0)
		a.near("mv.normal.marginal", "distmv.Normal.MarginalNormalSingle|"+ctor+"|sigma", where, ms.Sigma, math.Sqrt(sigma[i0][i0]), tol*100*math.Sqrt(sigma[i0][i0]))
	}
	// SetMean
	mu2 := make([]float64, dim)
	for i := range mu2 {
		mu2[i] = r.Uniform(-1, 1)
	}
	n.SetMean(mu2)
	x := make([]float64, dim)
	a.near("mv.normal.logprob", "distmv.Normal.SetMean|"+ctor+"|LogProb-after-SetMean", where, n.LogProb(x), refNormalLogProb(x, mu2, sigma), tol*100)
}

func pick(v []float64, idx []int) []float64 {
	o := make([]float64, len(idx))
	for i, k := range idx {
		o[i] = v[k]
	}
	return o
}

func refStudentLogProb(x, mu []float64, sigma matrix, nu float64) float64 {
	l, _ := chol(sigma)
	d := make([]float64, len(x))
	for i := range x {
		d[i] = x[i] - mu[i]
	}
	n := float64(len(x))
	return lgamma((nu+n)/2) - lgamma(nu/2) - n/2*math.Log(nu*math.Pi) - 0.5*cholLogDet(l) - (nu+n)/2*math.Log1p(quadForm(l, d)/nu)
}

func (m *mon) mvStudent(a *acc, idx int) {
	r := m.c.RNG("mv.student", idx)
	dim, mu, sigma := mvCase(r)
	nu := []float64{2.5, 3, 4.5, 8, 30, 0.7, 1, 2}[idx%8]
	where := fmt.Sprintf("distmv.StudentsT case %d dim=%d nu=%g", idx, dim, nu)
	m.c.LastCase(where)
	s, ok := distmv.NewStudentsT(mu, sigma.sym(), nu, nil)
	a.eval("distmv.NewStudentsT|spd", 1)
	if !ok {
		a.fail("distmv.NewStudentsT|spd|fails", where, "ok=false")
		return
	}
	for k := 0; k < 4; k++ {
		x := make([]float64, dim)
		for i := range x {
			x[i] = mu[i] + r.Uniform(-4, 4)*math.Sqrt(sigma[i][i])
		}
		want := refStudentLogProb(x, mu, sigma, nu)
		got := s.LogProb(x)
		a.eval("distmv.StudentsT.LogProb|-", 1)
		a.near("mv.student.logprob", "distmv.StudentsT.LogProb|-|differs-from-formula", where, got, want, tolMV*math.Max(1, math.Abs(want)))
		a.near("mv.student.prob", "distmv.StudentsT.Prob|-|Prob!=exp(LogProb)", where, s.Prob(x), math.Exp(got), 1e-13*math.Exp(got)+1e-300)
	}
	vecNear(a, "mv.student.mean", "distmv.StudentsT.Mean|-|differs", where, s.Mean(nil), mu, 0)
	if s.Nu() != nu || s.Dim() != dim {
		a.fail("distmv.StudentsT.Nu|-|wrong", where, "Nu()=%g Dim()=%d", s.Nu(), s.Dim())
	}
	if nu > 2 {
		var cov mat.SymDense
		s.CovarianceMatrix(&cov)
		a.eval("distmv.StudentsT.CovarianceMatrix|nu>2", 1)
		w := sigma.clone()
		for i := range w {
			for j := range w {
				w[i][j] *= nu / (nu - 2)
			}
		}
		matNear(a, "mv.student.cov", "distmv.StudentsT.CovarianceMatrix|nu>2|!=nu/(nu-2)*sigma", where, &cov, w, 1e-12*w.maxAbs())
	}
	i0 := r.Intn(dim)
	ms := s.MarginalStudentsTSingle(i0, nil)
	a.eval("distmv.StudentsT.MarginalStudentsTSingle|-", 1)
	a.near("mv.student.marginal", "distmv.StudentsT.MarginalStudentsTSingle|-|parameters", where, ms.Mu, mu[i0], 0)
	a.near("mv.student.marginal", "distmv.StudentsT.MarginalStudentsTSingle|-|parameters", where, ms.Sigma, math.Sqrt(sigma[i0][i0]), 1e-14*math.Sqrt(sigma[i0][i0]))
	a.near("mv.student.marginal", "distmv.StudentsT.MarginalStudentsTSingle|-|parameters", where, ms.Nu, nu, 0)
	if dim >= 2 {
		vars := randSubset(r, dim, r.Range(1, dim-1))
		mg, ok := s.MarginalStudentsT(vars, nil)
		a.eval("distmv.StudentsT.MarginalStudentsT|-", 1)
		if !ok {
			a.fail("distmv.StudentsT.MarginalStudentsT|-|fails", where, "ok=false")
		} else {
			// a marginal of a multivariate t is the t with the sub-blocks
			x := make([]float64, len(vars))
			for i, v := range vars {
				x[i] = mu[v] + r.Uniform(-3, 3)
			}
			a.near("mv.student.marginal", "distmv.StudentsT.MarginalStudentsT|-|density", where, mg.LogProb(x),
				refStudentLogProb(x, pick(mu, vars), sigma.sub(vars, vars), nu), tolMV*100)
		}
		ob := randSubset(r, dim, r.Range(1, dim-1))
		vals := make([]float64, len(ob))
		for i, o := range ob {
			vals[i] = mu[o] + r.Uniform(-2, 2)*math.Sqrt(sigma[o][o])
		}
		cn, ok := s.ConditionStudentsT(ob, vals, nil)
		a.eval("distmv.StudentsT.ConditionStudentsT|-", 1)
		if !ok {
			a.fail("distmv.StudentsT.ConditionStudentsT|-|fails", where, "ok=false")
		} else {
			un, cm, cs, beta := refCondition(mu, sigma, ob, vals)
			p := float64(len(ob))
			sc := (nu + beta) / (nu + p)
			for i := range cs {
				for j := range cs {
					cs[i][j] *= sc
				}
			}
			a.near("mv.student.condition", "distmv.StudentsT.ConditionStudentsT|-|nu", where, cn.Nu(), nu+p, 0)
			vecNear(a, "mv.student.condition", "distmv.StudentsT.ConditionStudentsT|-|mean", where, cn.Mean(nil), cm, 1e-8*(1+sigma.maxAbs())*10)
			// density identity p(x_un|x_ob) = p(x)/p(x_ob)
			x := make([]float64, dim)
			xu := make([]float64, len(un))
			for i, u := range un {
				xu[i] = cm[i] + r.Uniform(-2, 2)*math.Sqrt(cs[i][i])
				x[u] = xu[i]
			}
			for i, o := range ob {
				x[o] = vals[i]
			}
			lhs := cn.LogProb(xu)
			rhs := refStudentLogProb(x, mu, sigma, nu) - refStudentLogProb(vals, pick(mu, ob), sigma.sub(ob, ob), nu)
			a.near("mv.student.condition", "distmv.StudentsT.ConditionStudentsT|-|density!=joint/marginal", where, lhs, rhs, 1e-7*math.Max(1, math.Abs(rhs)))
		}
	}
}

func (m *mon) mvUniform(a *acc, idx int) {
	r := m.c.RNG("mv.uniform", idx)
	dim := r.Range(1, 5)
	b := make([]r1.Interval, dim)
	logVol := 0.0
	for i := range b {
		lo := r.Uniform(-10, 10)
		w := math.Exp(r.Uniform(-3, 3))
		b[i] = r1.Interval{Min: lo, Max: lo + w}
		logVol += math.Log(b[i].Max - b[i].Min)
	}
	where := fmt.Sprintf("distmv.Uniform case %d dim=%d", idx, dim)
	var u *distmv.Uniform
	if idx%4 == 0 {
		u = distmv.NewUnitUniform(dim, nil)
		logVol = 0
		for i := range b {
			b[i] = r1.Interval{Min: 0, Max: 1}
		}
	} else {
		u = distmv.NewUniform(b, nil)
	}
	a.eval("distmv.NewUniform|-", 1)
	gb := u.Bounds(nil)
	for i := range b {
		if gb[i] != b[i] {
			a.fail("distmv.Uniform.Bounds|-|differs", where, "got %v want %v", gb, b)
			break
		}
	}
	a.near("mv.uniform", "distmv.Uniform.Entropy|-|!=log-volume", where, u.Entropy(), logVol, 1e-13*(1+math.Abs(logVol)))
	x := make([]float64, dim)
	p := make([]float64, dim)
	for i := range x {
		p[i] = r.Float64()
		x[i] = b[i].Min + p[i]*(b[i].Max-b[i].Min)
	}
	a.near("mv.uniform", "distmv.Uniform.LogProb|inside|!=-log-volume", where, u.LogProb(x), -logVol, 1e-13*(1+math.Abs(logVol)))
	a.near("mv.uniform", "distmv.Uniform.Prob|inside|!=1/volume", where, u.Prob(x), math.Exp(-logVol), 1e-12*math.Exp(-logVol))
	vecNear(a, "mv.uniform", "distmv.Uniform.CDF|inside|component-wise", where, u.CDF(nil, x), p, 1e-12)
	vecNear(a, "mv.uniform", "distmv.Uniform.Quantile|inside|component-wise", where, u.Quantile(nil, p), x, 1e-12*(1+math.Abs(x[0])+10))
	a.eval("distmv.Uniform.CDF|inside", 1)
	a.eval("distmv.Uniform.Quantile|inside", 1)
	wm := make([]float64, dim)
	for i := range wm {
		wm[i] = (b[i].Min + b[i].Max) / 2
	}
	vecNear(a, "mv.uniform", "distmv.Uniform.Mean|-|midpoint", where, u.Mean(nil), wm, 1e-14*20)
	// outside
	j := r.Intn(dim)
	xo := append([]float64(nil), x...)
	xo[j] = b[j].Max + 1
	if lp := u.LogProb(xo); !math.IsInf(lp, -1) {
		a.fail("distmv.Uniform.LogProb|outside|not-minus-Inf", where, "got %g", lp)
	}
	if c := u.CDF(nil, xo); c[j] != 1 {
		a.fail("distmv.Uniform.CDF|outside|not-1-above", where, "got %v", c)
	}
	xo[j] = b[j].Min - 1
	if c := u.CDF(nil, xo); c[j] != 0 {
		a.fail("distmv.Uniform.CDF|outside|not-0-below", where, "got %v", c)
	}
	pb := append([]float64(nil), p...)
	pb[j] = -0.5
	if _, panicked := try(func() { u.Quantile(nil, pb) }); !panicked {
		a.fail("distmv.Uniform.Quantile|p-out-of-range|no-panic", where, "documented panic missing")
	}
}

func refDirichletLogProb(alpha, x []float64) float64 {
	var s, a0 float64
	for i := range alpha {
		s += (alpha[i]-1)*math.Log(x[i]) - lgamma(alpha[i])
		a0 += alpha[i]
	}
	return s + lgamma(a0)
}

func (m *mon) mvDirichlet(a *acc, idx int) {
	r := m.c.RNG("mv.dirichlet", idx)
	dim := r.Range(2, 5)
	alpha := make([]float64, dim)
	var a0 float64
	for i := range alpha {
		alpha[i] = r.PickFloat(0.15, 0.3, 0.9, 1, 1.1, 2, 5, 17, 50)
		a0 += alpha[i]
	}
	where := fmt.Sprintf("distmv.Dirichlet case %d alpha=%v", idx, alpha)
	d := distmv.NewDirichlet(alpha, nil)
	a.eval("distmv.NewDirichlet|-", 1)
	x := make([]float64, dim)
	var sx float64
	for i := range x {
		x[i] = -math.Log(1 - r.Float64())
		sx += x[i]
	}
	for i := range x {
		x[i] /= sx
	}
	want := refDirichletLogProb(alpha, x)
	got := d.LogProb(x)
	a.eval("distmv.Dirichlet.LogProb|simplex", 1)
	a.near("mv.dirichlet", "distmv.Dirichlet.LogProb|simplex|differs-from-formula", where, got, want, 1e-11*math.Max(1, math.Abs(want)))
	a.near("mv.dirichlet", "distmv.Dirichlet.Prob|simplex|Prob!=exp(LogProb)", where, d.Prob(x), math.Exp(got), 1e-13*math.Exp(got)+1e-300)
	if dim == 2 {
		b := distuv.Beta{Alpha: alpha[0], Beta: alpha[1]}
		a.near("mv.dirichlet", "distmv.Dirichlet.LogProb|dim=2|!=Beta.LogProb", where, got, b.LogProb(x[0]), 1e-10*math.Max(1, math.Abs(got)))
	}
	wm := make([]float64, dim)
	for i := range wm {
		wm[i] = alpha[i] / a0
	}
	vecNear(a, "mv.dirichlet", "distmv.Dirichlet.Mean|-|!=alpha/alpha0", where, d.Mean(nil), wm, 1e-14)
	var cov mat.SymDense
	d.CovarianceMatrix(&cov)
	a.eval("distmv.Dirichlet.CovarianceMatrix|-", 1)
	wc := newMatrix(dim, dim)
	for i := range wc {
		for j := range wc {
			if i == j {
				wc[i][j] = alpha[i] * (a0 - alpha[i]) / (a0 * a0 * (a0 + 1))
			} else {
				wc[i][j] = -alpha[i] * alpha[j] / (a0 * a0 * (a0 + 1))
			}
		}
	}
	matNear(a, "mv.dirichlet", "distmv.Dirichlet.CovarianceMatrix|-|differs-from-formula", where, &cov, wc, 1e-14)
	// the diagonal must agree with the Beta marginal's variance computed by distuv
	for i := 0; i < dim; i++ {
		bv := distuv.Beta{Alpha: alpha[i], Beta: a0 - alpha[i]}.Variance()
		a.near("mv.dirichlet", "distmv.Dirichlet.CovarianceMatrix|-|diagonal!=Beta-marginal-variance", where, cov.At(i, i), bv, 1e-13*bv)
	}
	for _, bad := range [][]float64{{}, {1, 0}, {1, -2, 3}} {
		if _, panicked := try(func() { distmv.NewDirichlet(bad, nil) }); !panicked {
			a.fail("distmv.NewDirichlet|invalid-alpha|no-panic", fmt.Sprint(bad), "documented panic missing")
		}
	}
}

// mvRand: support membership and 1-D projections under the DKW band.
func (m *mon) mvRand(a *acc, idx int) {
	N := m.nDraws()
	r := m.c.RNG("mv.rand", idx)
	dim, mu, sigma := mvCase(r)
	eps := dkwEps(N)
	project := func(rows [][]float64, w []float64) []float64 {
		o := make([]float64, len(rows))
		for i, x := range rows {
			o[i] = dot(w, x)
		}
		sort.Float64s(o)
		return o
	}
	dkw := func(sorted []float64, F func(float64) float64) (float64, float64) {
		n := float64(len(sorted))
		D, at := 0.0, 0.0
		for j, x := range sorted {
			f := F(x)
			if dd := float64(j+1)/n - f; dd > D {
				D, at = dd, x
			}
			if dd := f - float64(j)/n; dd > D {
				D, at = dd, x
			}
		}
		return D, at
	}
	dirs := func() [][]float64 {
		var ws [][]float64
		for i := 0; i < dim; i++ {
			e := make([]float64, dim)
			e[i] = 1
			ws = append(ws, e)
		}
		for k := 0; k < 3; k++ {
			w := make([]float64, dim)
			for i := range w {
				w[i] = r.Norm()
			}
			ws = append(ws, w)
		}
		return ws
	}
	draw := func(f func(dst []float64) []float64) [][]float64 {
		rows := make([][]float64, N)
		for i := range rows {
			rows[i] = f(nil)
		}
		return rows
	}
	wSw := func(w []float64) float64 { return dot(w, sigma.mulVec(w)) }

	// Normal through its samplers
	kinds := []string{"Normal.Rand", "NormalRand", "NormalRandCov:Cholesky", "NormalRandCov:PivotedCholesky", "NormalRandCov:EigenSym", "NormalRandCov:SymDense", "NormalChol.Rand"}
	kind := kinds[idx%len(kinds)]
	where := fmt.Sprintf("distmv.%s case %d dim=%d N=%d", kind, idx, dim, N)
	m.c.LastCase(where)
	src := m.src("mv.rand.src", idx)
	sym := sigma.sym()
	var ch mat.Cholesky
	ch.Factorize(sym)
	var rows [][]float64
	msg, panicked := try(func() {
		switch kind {
		case "Normal.Rand":
			n, _ := distmv.NewNormal(mu, sym, src)
			rows = draw(n.Rand)
		case "NormalChol.Rand":
			n := distmv.NewNormalChol(mu, &ch, src)
			rows = draw(n.Rand)
		case "NormalRand":
			rows = draw(func(dst []float64) []float64 { return distmv.NormalRand(dst, mu, &ch, src) })
		case "NormalRandCov:Cholesky":
			rows = draw(func(dst []float64) []float64 { return distmv.NormalRandCov(dst, mu, &ch, src) })
		case "NormalRandCov:PivotedCholesky":
			var pc mat.PivotedCholesky
			pc.Factorize(sym, -1)
			rows = draw(func(dst []float64) []float64 { return distmv.NormalRandCov(dst, mu, &pc, src) })
		case "NormalRandCov:EigenSym":
			var ed mat.EigenSym
			ed.Factorize(sym, true)
			rows = draw(func(dst []float64) []float64 { return distmv.NormalRandCov(dst, mu, &ed, src) })
		case "NormalRandCov:SymDense":
			n := N / 10 // factorizes per draw
			rows = make([][]float64, n)
			for i := range rows {
				rows[i] = distmv.NormalRandCov(nil, mu, sym, src)
			}
		}
	})
	a.eval("distmv."+kind+"|rand", len(rows))
	if panicked {
		a.fail("distmv."+kind+"|rand|panics", where, "panic: %s", msg)
	} else {
		e := dkwEps(len(rows))
		for di, w := range dirs() {
			mean := dot(w, mu)
			sd := math.Sqrt(wSw(w))
			D, at := dkw(project(rows, w), func(x float64) float64 { return 0.5 * math.Erfc(-(x-mean)/(sd*math.Sqrt2)) })
			cl := "axis"
			if di >= dim {
				cl = "oblique"
			}
			a.near("mv.rand.dkw", "distmv."+kind+"|"+cl+"-projection|empirical-CDF-outside-DKW-band", fmt.Sprintf("%s dir=%v sup at %g", where, w, at), D, 0, e)
		}
	}
	// StudentsT
	nu := []float64{0.7, 2.5, 5, 30}[idx%4]
	whereT := fmt.Sprintf("distmv.StudentsT.Rand case %d dim=%d nu=%g N=%d", idx, dim, nu, N)
	m.c.LastCase(whereT)
	st, _ := distmv.NewStudentsT(mu, sym, nu, m.src("mv.rand.src.t", idx))
	rows = draw(st.Rand)
	a.eval("distmv.StudentsT.Rand|rand", N)
	for di, w := range dirs() {
		t := distuv.StudentsT{Mu: dot(w, mu), Sigma: math.Sqrt(wSw(w)), Nu: nu}
		D, at := dkw(project(rows, w), t.CDF)
		cl := "axis"
		if di >= dim {
			cl = "oblique"
		}
		a.near("mv.rand.dkw", "distmv.StudentsT.Rand|"+cl+"-projection|empirical-CDF-outside-DKW-band", fmt.Sprintf("%s dir=%v sup at %g", whereT, w, at), D, 0, eps)
	}
	// Uniform
	b := make([]r1.Interval, dim)
	for i := range b {
		lo := r.Uniform(-10, 10)
		b[i] = r1.Interval{Min: lo, Max: lo + math.Exp(r.Uniform(-3, 3))}
	}
	whereU := fmt.Sprintf("distmv.Uniform.Rand case %d dim=%d N=%d", idx, dim, N)
	un := distmv.NewUniform(b, m.src("mv.rand.src.u", idx))
	rows = draw(un.Rand)
	a.eval("distmv.Uniform.Rand|rand", N)
	inside := true
	for _, x := range rows {
		for i := range x {
			if !(x[i] >= b[i].Min && x[i] <= b[i].Max) {
				inside = false
			}
		}
	}
	if !inside {
		a.fail("distmv.Uniform.Rand|rand|draw-outside-support", whereU, "a draw left the box")
	}
	for i := 0; i < dim; i++ {
		e := make([]float64, dim)
		e[i] = 1
		bi := b[i]
		D, at := dkw(project(rows, e), func(x float64) float64 { return math.Min(1, math.Max(0, (x-bi.Min)/(bi.Max-bi.Min))) })
		a.near("mv.rand.dkw", "distmv.Uniform.Rand|axis-projection|empirical-CDF-outside-DKW-band", fmt.Sprintf("%s axis %d sup at %g", whereU, i, at), D, 0, eps)
	}
	// independence of coordinates: sum of two coordinates follows the trapezoid law
	if dim >= 2 {
		w0, w1 := b[0].Max-b[0].Min, b[1].Max-b[1].Min
		lo := b[0].Min + b[1].Min
		if w0 > w1 {
			w0, w1 = w1, w0
		}
		F := func(s float64) float64 {
			t := s - lo
			switch {
			case t <= 0:
				return 0
			case t < w0:
				return t * t / (2 * w0 * w1)
			case t < w1:
				return (t - w0/2) / w1
			case t < w0+w1:
				u := w0 + w1 - t
				return 1 - u*u/(2*w0*w1)
			}
			return 1
		}
		e := make([]float64, dim)
		e[0], e[1] = 1, 1
		D, at := dkw(project(rows, e), F)
		a.near("mv.rand.dkw", "distmv.Uniform.Rand|sum-projection|empirical-CDF-outside-DKW-band", fmt.Sprintf("%s sup at %g", whereU, at), D, 0, eps)
	}
	// Dirichlet
	dd := r.Range(2, 5)
	alpha := make([]float64, dd)
	var a0 float64
	for i := range alpha {
		alpha[i] = r.PickFloat(0.15, 0.19, 0.2, 0.3, 0.9, 1, 1.1, 2, 5, 17)
		a0 += alpha[i]
	}
	whereD := fmt.Sprintf("distmv.Dirichlet.Rand case %d alpha=%v N=%d", idx, alpha, N)
	m.c.LastCase(whereD)
	dir := distmv.NewDirichlet(alpha, m.src("mv.rand.src.d", idx))
	rows = draw(dir.Rand)
	a.eval("distmv.Dirichlet.Rand|rand", N)
	for _, x := range rows {
		var s float64
		okx := true
		for _, v := range x {
			if !(v >= 0 && v <= 1) {
				okx = false
			}
			s += v
		}
		if !okx || math.Abs(s-1) > 1e-12 {
			a.fail("distmv.Dirichlet.Rand|rand|draw-outside-simplex", whereD, "draw %v (sum %.17g)", x, s)
			break
		}
	}
	for i := 0; i < dd; i++ {
		e := make([]float64, dd)
		e[i] = 1
		bt := distuv.Beta{Alpha: alpha[i], Beta: a0 - alpha[i]}
		D, at := dkw(project(rows, e), bt.CDF)
		a.near("mv.rand.dkw", "distmv.Dirichlet.Rand|axis-projection|empirical-CDF-outside-DKW-band", fmt.Sprintf("%s axis %d sup at %g", whereD, i, at), D, 0, eps)
	}
	if dd >= 3 { // aggregation property: x0+x1 ~ Beta(a0+a1, rest)
		e := make([]float64, dd)
		e[0], e[1] = 1, 1
		bt := distuv.Beta{Alpha: alpha[0] + alpha[1], Beta: a0 - alpha[0] - alpha[1]}
		D, at := dkw(project(rows, e), bt.CDF)
		a.near("mv.rand.dkw", "distmv.Dirichlet.Rand|sum-projection|empirical-CDF-outside-DKW-band", fmt.Sprintf("%s sup at %g", whereD, at), D, 0, eps)
	}
}
