package main

import (
	"fmt"
	"math"
	"math/big"
	"math/cmplx"

	"gonum.org/v1/gonum/mathext"
	"gonum.org/v1/gonum/verifx/vrt"
)

// Tolerances of the special-function checks (relative to the quantity
// named in each comment). Worst observed ratios on the pinned tree are in
// the evidence notes under mathext.*.
const (
	tolIgamRef   = 3e-9  // GammaIncReg / Comp vs series / continued fraction reference, relative to the directly computed tail
	tolIgamSum   = 5e-13 // |P+Q-1|
	tolIgamRec   = 1e-12 // recurrence in a, absolute
	tolIgamInv   = 1e-9  // forward(inverse(y)) vs y, relative to min(y,1-y)
	tolIbetaRef  = 1e-6  // RegIncBeta vs continued-fraction reference, relative to the smaller tail
	tolIbetaSym  = 3e-11 // I_x(a,b)+I_{1-x}(b,a)-1
	tolIbetaInv  = 5e-4  // RegIncBeta(InvRegIncBeta(y)) vs y, relative to min(y,1-y)
	tolDigamma   = 5e-9  // vs recurrence+asymptotic reference, relative to max(1,|psi|)
	tolZeta      = 2e-11 // vs Euler-Maclaurin reference, relative
	tolNormQ     = 1e-13 // Phi(NormalQuantile(p)) vs p, relative, times max(1,x^2)
	tolEllComp   = 5e-13 // complete integrals vs AGM, relative
	tolEllLeg    = 1e-13 // Legendre relation, absolute
	tolCarlson   = 1e-11 // R_F, R_D vs quadrature of the defining integral, relative
	tolEllIncomp = 2e-9  // EllipticF/E vs quadrature, relative
	tolAirySer   = 1e-11 // Airy vs Maclaurin series in big.Float, relative to max(|Ai|, 1e-300)
	tolAiryODE   = 1e-7  // derivative consistency by finite differences, relative
	tolBeta      = 1e-13 // Lbeta/Beta/MvLgamma vs Lgamma compositions, relative to the sum of magnitudes
)

func (m *mon) runMathext() {
	subs := []func(a *acc){
		m.mxGammaInc, m.mxGammaIncInv, m.mxBetaInc, m.mxBetaIncInv, m.mxDigamma, m.mxZeta,
		m.mxNormalQuantile, m.mxEllipticComplete, m.mxCarlson, m.mxEllipticIncomplete, m.mxAiry, m.mxBeta,
	}
	vrt.Parallel(len(subs), func(i int) {
		a := m.newAcc()
		subs[i](a)
		a.flush()
	})
}

// ---------------------------------------------------------------- incomplete gamma

// refIgam returns the regularized incomplete gamma functions P and Q and
// which of the two was computed directly (the other is its complement).
func refIgam(a, x float64) (p, q float64, direct byte) {
	if x == 0 {
		return 0, 1, 'P'
	}
	lpre := a*math.Log(x) - x - lgamma(a)
	if x < a+1 {
		// series
		ap := a
		del := 1 / a
		sum := del
		for n := 0; n < 100000; n++ {
			ap++
			del *= x / ap
			sum += del
			if math.Abs(del) < math.Abs(sum)*1e-17 {
				break
			}
		}
		p = sum * math.Exp(lpre)
		return p, 1 - p, 'P'
	}
	// modified Lentz continued fraction
	const tiny = 1e-300
	b := x + 1 - a
	c := 1 / tiny
	d := 1 / b
	h := d
	for i := 1; i < 100000; i++ {
		an := -float64(i) * (float64(i) - a)
		b += 2
		d = an*d + b
		if math.Abs(d) < tiny {
			d = tiny
		}
		c = b + an/c
		if math.Abs(c) < tiny {
			c = tiny
		}
		d = 1 / d
		del := d * c
		h *= del
		if math.Abs(del-1) < 1e-16 {
			break
		}
	}
	q = math.Exp(lpre) * h
	return 1 - q, q, 'Q'
}

func igamAs() []float64 {
	return []float64{1e-3, 0.01, 0.1, 0.3, 0.5, 0.9, 1, 1.1, 2, 5, 10, 19.9, 20, 20.1, 25, 50, 100, 199, 200, 201, 300, 1000}
}

func igamXs(a float64) []float64 {
	xs := []float64{0.49, 0.5, 0.51, 0.99, 1, 1.01, 1.09, 1.1, 1.11, 1e-8, 1e-3}
	for _, r := range []float64{1e-6, 1e-3, 0.1, 0.5, 0.69, 0.7, 0.71, 0.9, 0.99, 1, 1.01, 1.1, 1.29, 1.3, 1.31, 2, 5, 20, 1 / 1.1, 1 / 1.1 * 0.999, 1 / 1.1 * 1.001} {
		xs = append(xs, a*r)
	}
	if a > 200 {
		w := 4.5 / math.Sqrt(a)
		for _, f := range []float64{0.5, 0.99, 1.01, 2} {
			xs = append(xs, a*(1+f*w), a*(1-f*w))
		}
	}
	// the boundary -0.4/log(x) < a of the small-x branch of IgamC
	if a < 0.58 {
		xb := math.Exp(-0.4 / a)
		if xb <= 0.5 {
			xs = append(xs, xb*0.99, xb*1.01)
		}
	}
	return xs
}

func igamRegion(a, x float64) string {
	r := math.Abs(x-a) / a
	switch {
	case a > 20 && a < 200 && r < 0.3, a > 200 && r < 4.5/math.Sqrt(a):
		return "asymptotic"
	case x > 1 && x > a:
		return "x>a"
	}
	return "x<=a"
}

func (m *mon) mxGammaInc(a *acc) {
	for _, aa := range igamAs() {
		for _, x := range igamXs(aa) {
			if !(x > 0) {
				continue
			}
			where := fmt.Sprintf("a=%g x=%g", aa, x)
			m.c.LastCase("mathext.GammaIncReg " + where)
			reg := igamRegion(aa, x)
			var P, Q float64
			if msg, panicked := try(func() { P = mathext.GammaIncReg(aa, x); Q = mathext.GammaIncRegComp(aa, x) }); panicked {
				a.fail("mathext.GammaIncReg|"+reg+"|panics", where, "panic: %s", msg)
				continue
			}
			a.eval("mathext.GammaIncReg|"+reg, 1)
			a.eval("mathext.GammaIncRegComp|"+reg, 1)
			rp, rq, direct := refIgam(aa, x)
			a.near("mathext.igam.sum", "mathext.GammaIncRegComp|"+reg+"|P+Q!=1", where, P+Q, 1, tolIgamSum)
			if direct == 'P' {
				a.near("mathext.igam.ref", "mathext.GammaIncReg|"+reg+"|differs-from-series", where, P, rp, tolIgamRef*rp+1e-300)
				a.near("mathext.igam.ref", "mathext.GammaIncRegComp|"+reg+"|differs-from-series", where, Q, rq, tolIgamRef*rp+4e-16)
			} else {
				a.near("mathext.igam.ref", "mathext.GammaIncRegComp|"+reg+"|differs-from-continued-fraction", where, Q, rq, tolIgamRef*rq+1e-300)
				a.near("mathext.igam.ref", "mathext.GammaIncReg|"+reg+"|differs-from-continued-fraction", where, P, rp, tolIgamRef*rq+4e-16)
			}
			// recurrence P(a+1,x) = P(a,x) - x^a e^-x / Gamma(a+1)
			if aa >= 0.01 {
				P1 := mathext.GammaIncReg(aa+1, x)
				a.eval("mathext.GammaIncReg|recurrence", 1)
				t := math.Exp(aa*math.Log(x) - x - lgamma(aa+1))
				a.near("mathext.igam.rec", "mathext.GammaIncReg|"+reg+"|recurrence-in-a", where, P1, P-t, tolIgamRec)
			}
		}
	}
	// documented domain
	for _, bad := range [][2]float64{{-1, 1}, {0, 1}, {1, -1}} {
		if _, panicked := try(func() { mathext.GammaIncReg(bad[0], bad[1]) }); !panicked {
			a.fail("mathext.GammaIncReg|out-of-domain|no-panic", fmt.Sprintf("a=%g x=%g", bad[0], bad[1]), "documented panic missing")
		}
		if _, panicked := try(func() { mathext.GammaIncRegComp(bad[0], bad[1]) }); !panicked {
			a.fail("mathext.GammaIncRegComp|out-of-domain|no-panic", fmt.Sprintf("a=%g x=%g", bad[0], bad[1]), "documented panic missing")
		}
	}
}

func (m *mon) mxGammaIncInv(a *acc) {
	ys := []float64{1e-10, 1e-6, 1e-3, 0.01, 0.1, 0.24, 0.2499, 0.25, 0.2501, 0.5, 0.75, 0.9, 0.999, 1 - 1e-9}
	for _, aa := range igamAs() {
		for _, y := range ys {
			where := fmt.Sprintf("a=%g y=%g", aa, y)
			m.c.LastCase("mathext.GammaIncRegInv " + where)
			// P-inverse
			cl := "y>=0.25"
			if y < 0.25 {
				cl = "y<0.25"
			}
			var x float64
			if msg, panicked := try(func() { x = mathext.GammaIncRegInv(aa, y) }); panicked {
				a.fail("mathext.GammaIncRegInv|"+cl+"|panics", where, "panic: %s", msg)
			} else {
				a.eval("mathext.GammaIncRegInv|"+cl, 1)
				pmin, _, _ := refIgam(aa, 0x1p-1022)
				if math.IsNaN(x) {
					// documented: "can return NaN if there is a failure to converge"
					a.noverdictAt("mathext.GammaIncRegInv.documented-NaN", where)
				} else if pmin >= y && x <= 0x1p-1022 {
					// the exact inverse is below the smallest normal number
					a.noverdictAt("mathext.GammaIncRegInv.inverse-not-representable", where)
				} else {
					p, _, _ := refIgam(aa, x)
					res := ulpSpread(x, func(t float64) float64 { v, _, _ := refIgam(aa, t); return v })
					a.near("mathext.igam.inv", "mathext.GammaIncRegInv|"+cl+"|P(a,inverse)!=y", where+fmt.Sprintf(" inverse=%g", x), p, y, tolIgamInv*math.Min(y, 1-y)+res+4e-15*y)
				}
			}
			// Q-inverse
			if msg, panicked := try(func() { x = mathext.GammaIncRegCompInv(aa, y) }); panicked {
				a.fail("mathext.GammaIncRegCompInv|-|panics", where, "panic: %s", msg)
			} else {
				a.eval("mathext.GammaIncRegCompInv|-", 1)
				_, q, _ := refIgam(aa, x)
				res := ulpSpread(x, func(t float64) float64 { _, v, _ := refIgam(aa, t); return v })
				if x == 0 && y < 1 {
					// documented: "can return 0 even with non-zero y due to underflow":
					// admissible only if the true inverse is below the smallest normal number
					_, q0, _ := refIgam(aa, 0x1p-1022)
					if q0 <= y {
						a.noverdictAt("mathext.GammaIncRegCompInv.documented-underflow", where)
						continue
					}
				}
				a.near("mathext.igam.inv", "mathext.GammaIncRegCompInv|-|Q(a,inverse)!=y", where+fmt.Sprintf(" inverse=%g", x), q, y, tolIgamInv*math.Min(y, 1-y)+res+4e-15*y)
			}
		}
		// ends
		if x := mathext.GammaIncRegInv(aa, 0); x != 0 {
			a.fail("mathext.GammaIncRegInv|y=0|not-0", fmt.Sprintf("a=%g", aa), "got %g", x)
		}
		if x := mathext.GammaIncRegInv(aa, 1); !math.IsInf(x, 1) {
			a.fail("mathext.GammaIncRegInv|y=1|not-Inf", fmt.Sprintf("a=%g", aa), "got %g", x)
		}
		if x := mathext.GammaIncRegCompInv(aa, 1); x != 0 {
			a.fail("mathext.GammaIncRegCompInv|y=1|not-0", fmt.Sprintf("a=%g", aa), "got %g", x)
		}
		if x := mathext.GammaIncRegCompInv(aa, 0); !math.IsInf(x, 1) {
			a.fail("mathext.GammaIncRegCompInv|y=0|not-Inf", fmt.Sprintf("a=%g", aa), "got %g", x)
		}
	}
}

// ulpSpread returns |f(x+4ulp)-f(x-4ulp)|: the part of a forward/inverse
// mismatch that is due to x not being representable more finely.
func ulpSpread(x float64, f func(float64) float64) float64 {
	xd, xu := x, x
	for k := 0; k < 4; k++ {
		xd, xu = math.Nextafter(xd, math.Inf(-1)), math.Nextafter(xu, math.Inf(1))
	}
	if xd < 0 {
		xd = 0
	}
	return math.Abs(f(xu) - f(xd))
}

// ---------------------------------------------------------------- incomplete beta

// refIbeta returns I_x(a,b), its complement, and which was computed directly.
func refIbeta(a, b, x float64) (i, c float64, direct byte) {
	if x <= 0 {
		return 0, 1, 'I'
	}
	if x >= 1 {
		return 1, 0, 'C'
	}
	lpre := lgamma(a+b) - lgamma(a) - lgamma(b) + a*math.Log(x) + b*math.Log1p(-x)
	cf := func(a, b, x float64) float64 {
		const tiny = 1e-300
		qab, qap, qam := a+b, a+1, a-1
		c := 1.0
		d := 1 - qab*x/qap
		if math.Abs(d) < tiny {
			d = tiny
		}
		d = 1 / d
		h := d
		for m := 1; m < 200000; m++ {
			fm := float64(m)
			m2 := 2 * fm
			aa := fm * (b - fm) * x / ((qam + m2) * (a + m2))
			d = 1 + aa*d
			if math.Abs(d) < tiny {
				d = tiny
			}
			c = 1 + aa/c
			if math.Abs(c) < tiny {
				c = tiny
			}
			d = 1 / d
			h *= d * c
			aa = -(a + fm) * (qab + fm) * x / ((a + m2) * (qap + m2))
			d = 1 + aa*d
			if math.Abs(d) < tiny {
				d = tiny
			}
			c = 1 + aa/c
			if math.Abs(c) < tiny {
				c = tiny
			}
			d = 1 / d
			del := d * c
			h *= del
			if math.Abs(del-1) < 1e-16 {
				break
			}
		}
		return h
	}
	if x < (a+1)/(a+b+2) {
		i = math.Exp(lpre) * cf(a, b, x) / a
		return i, 1 - i, 'I'
	}
	c = math.Exp(lpre) * cf(b, a, 1-x) / b
	return 1 - c, c, 'C'
}

func ibetaShapes() []float64 {
	return []float64{0.1, 0.3, 0.5, 0.9, 1, 1.5, 2, 5, 17, 50, 85, 86.5, 200}
}

func ibetaXs(a, b float64) []float64 {
	xs := []float64{1e-8, 1e-3, 0.05, 0.25, 0.5, 0.75, 0.949, 0.95, 0.951, 0.999, 1 - 1e-8}
	mean := a / (a + b)
	for _, f := range []float64{0.5, 0.9, 0.999, 1, 1.001, 1.1, 1.5} {
		if v := mean * f; v > 0 && v < 1 {
			xs = append(xs, v)
		}
	}
	for _, f := range []float64{0.99, 1.01} { // b*x <= 1 boundary of the power series
		if v := f / b; v > 0 && v < 1 {
			xs = append(xs, v)
		}
		if v := 1 - f/a; v > 0 && v < 1 {
			xs = append(xs, v)
		}
	}
	return xs
}

func ibetaRegion(a, b, x float64) string {
	if b*x <= 1 && x <= 0.95 {
		return "power-series"
	}
	if x > a/(a+b) {
		if a*(1-x) <= 1 && 1-x <= 0.95 {
			return "power-series,flipped"
		}
		return "continued-fraction,flipped"
	}
	return "continued-fraction"
}

func (m *mon) mxBetaInc(a *acc) {
	for _, aa := range ibetaShapes() {
		for _, bb := range ibetaShapes() {
			for _, x := range ibetaXs(aa, bb) {
				where := fmt.Sprintf("a=%g b=%g x=%.17g", aa, bb, x)
				m.c.LastCase("mathext.RegIncBeta " + where)
				reg := ibetaRegion(aa, bb, x)
				var I float64
				if msg, panicked := try(func() { I = mathext.RegIncBeta(aa, bb, x) }); panicked {
					a.fail("mathext.RegIncBeta|"+reg+"|panics", where, "panic: %s", msg)
					continue
				}
				a.eval("mathext.RegIncBeta|"+reg, 1)
				ri, rc, direct := refIbeta(aa, bb, x)
				small := ri
				if direct == 'C' {
					small = rc
				}
				if !(I >= 0 && I <= 1) {
					a.fail("mathext.RegIncBeta|"+reg+"|outside-[0,1]", where, "got %g", I)
					continue
				}
				if direct == 'I' {
					a.near("mathext.ibeta.ref", "mathext.RegIncBeta|"+reg+"|differs-from-continued-fraction", where, I, ri, tolIbetaRef*small+1e-300)
				} else {
					a.near("mathext.ibeta.ref", "mathext.RegIncBeta|"+reg+"|differs-from-continued-fraction", where, I, ri, tolIbetaRef*small+2e-15)
				}
				// symmetry with an exactly representable complement
				xc := 1 - x
				if 1-xc == x {
					J := mathext.RegIncBeta(bb, aa, xc)
					a.eval("mathext.RegIncBeta|symmetry", 1)
					a.near("mathext.ibeta.sym", "mathext.RegIncBeta|"+reg+"|I_x(a,b)+I_(1-x)(b,a)!=1", where, I+J, 1, tolIbetaSym)
				}
			}
		}
	}
	for _, bad := range [][3]float64{{-1, 1, 0.5}, {1, 0, 0.5}, {1, 1, -0.1}, {1, 1, 1.1}} {
		if _, panicked := try(func() { mathext.RegIncBeta(bad[0], bad[1], bad[2]) }); !panicked {
			a.fail("mathext.RegIncBeta|out-of-domain|no-panic", fmt.Sprint(bad), "documented panic missing")
		}
	}
}

func (m *mon) mxBetaIncInv(a *acc) {
	ys := []float64{1e-10, 1e-6, 1e-3, 0.01, 0.1, 0.25, 0.4999, 0.5, 0.5001, 0.75, 0.9, 0.999, 1 - 1e-9}
	for _, aa := range ibetaShapes() {
		for _, bb := range ibetaShapes() {
			cl := "a,b>1"
			if aa <= 1 || bb <= 1 {
				cl = "a<=1-or-b<=1"
			}
			for _, y := range ys {
				where := fmt.Sprintf("a=%g b=%g y=%g", aa, bb, y)
				m.c.LastCase("mathext.InvRegIncBeta " + where)
				var x float64
				if msg, panicked := try(func() { x = mathext.InvRegIncBeta(aa, bb, y) }); panicked {
					a.fail("mathext.InvRegIncBeta|"+cl+"|panics", where, "panic: %s", msg)
					continue
				}
				a.eval("mathext.InvRegIncBeta|"+cl, 1)
				if !(x >= 0 && x <= 1) {
					a.fail("mathext.InvRegIncBeta|"+cl+"|outside-[0,1]", where, "got %g", x)
					continue
				}
				ri, rc, _ := refIbeta(aa, bb, x)
				resI := ulpSpreadUnit(x, func(t float64) float64 { v, _, _ := refIbeta(aa, bb, t); return v })
				if y <= 0.5 {
					a.near("mathext.ibeta.inv", "mathext.InvRegIncBeta|"+cl+"|I(inverse)!=y", where+fmt.Sprintf(" inverse=%.17g", x), ri, y, tolIbetaInv*y+resI+1e-300)
				} else {
					a.near("mathext.ibeta.inv", "mathext.InvRegIncBeta|"+cl+"|I(inverse)!=y", where+fmt.Sprintf(" inverse=%.17g", x), rc, 1-y, tolIbetaInv*(1-y)+resI+4e-16)
				}
			}
			if x := mathext.InvRegIncBeta(aa, bb, 0); x != 0 {
				a.fail("mathext.InvRegIncBeta|y=0|not-0", fmt.Sprintf("a=%g b=%g", aa, bb), "got %g", x)
			}
			if x := mathext.InvRegIncBeta(aa, bb, 1); x != 1 {
				a.fail("mathext.InvRegIncBeta|y=1|not-1", fmt.Sprintf("a=%g b=%g", aa, bb), "got %g", x)
			}
		}
	}
	for _, y := range []float64{-0.1, 1.1} {
		if _, panicked := try(func() { mathext.InvRegIncBeta(1, 1, y) }); !panicked {
			a.fail("mathext.InvRegIncBeta|out-of-domain|no-panic", fmt.Sprint(y), "documented panic missing")
		}
	}
}

func ulpSpreadUnit(x float64, f func(float64) float64) float64 {
	xd, xu := x, x
	for k := 0; k < 4; k++ {
		xd, xu = math.Nextafter(xd, -1), math.Nextafter(xu, 2)
	}
	xd, xu = math.Max(xd, 0), math.Min(xu, 1)
	return math.Abs(f(xu) - f(xd))
}

// ---------------------------------------------------------------- digamma

// refDigamma: recurrence up to x >= 30, then the asymptotic series; for
// negative non-integer x the same upward recurrence (no reflection).
func refDigamma(x float64) float64 {
	var s kahan
	for x < 30 {
		s.add(-1 / x)
		x++
	}
	x2 := 1 / (x * x)
	ser := x2 * (-1.0/12 + x2*(1.0/120+x2*(-1.0/252+x2*(1.0/240+x2*(-1.0/132+x2*(691.0/32760+x2*(-1.0/12)))))))
	s.add(math.Log(x))
	s.add(-0.5 / x)
	s.add(ser)
	return s.s
}

func (m *mon) mxDigamma(a *acc) {
	var xs []float64
	for _, x := range []float64{1e-8, 1e-3, 0.1, 0.5, 1, 1.4616321449683623, 1.5, 2, 3.3, 5.9, 6, 6.999999, 7, 7.000001, 7.5, 8, 10, 30, 100, 1e4, 1e8} {
		xs = append(xs, x)
	}
	for k := 0; k <= 40; k++ {
		xs = append(xs, 0.05+0.37*float64(k))
	}
	// negative non-integers, close to and far from the poles
	for n := 0; n <= 12; n++ {
		for _, f := range []float64{1e-6, 0.01, 0.25, 0.5, 0.75, 0.99, 1 - 1e-6} {
			xs = append(xs, -float64(n)-f)
		}
	}
	xs = append(xs, -50.5, -100.25, -1000.75)
	for _, x := range xs {
		where := fmt.Sprintf("x=%.17g", x)
		cl := "x>=7"
		switch {
		case x < 0:
			cl = "x<0"
		case x < 7:
			cl = "0<x<7"
		}
		got := mathext.Digamma(x)
		a.eval("mathext.Digamma|"+cl, 1)
		want := refDigamma(x)
		a.near("mathext.digamma.ref", "mathext.Digamma|"+cl+"|differs-from-reference", where, got, want, tolDigamma*math.Max(1, math.Abs(want)))
		// recurrence psi(x+1) = psi(x) + 1/x
		g1 := mathext.Digamma(x + 1)
		if (x+1)-1 == x {
			a.near("mathext.digamma.rec", "mathext.Digamma|"+cl+"|recurrence", where, g1, got+1/x, 2*tolDigamma*math.Max(1, math.Abs(want)+math.Abs(1/x)))
		}
		// reflection psi(1-x) - psi(x) = pi cot(pi x)
		if x > 0 && x < 1 {
			gr := mathext.Digamma(1 - x)
			a.near("mathext.digamma.refl", "mathext.Digamma|"+cl+"|reflection", where, gr-got, math.Pi/math.Tan(math.Pi*x), 4*tolDigamma*math.Max(1, math.Abs(want)))
		}
	}
	// special values
	if v := mathext.Digamma(0); !math.IsInf(v, -1) {
		a.fail("mathext.Digamma|special|psi(+0)", "x=0", "got %g, want -Inf", v)
	}
	for _, x := range []float64{-1, -2, -17} {
		if v := mathext.Digamma(x); !math.IsNaN(v) {
			a.fail("mathext.Digamma|special|pole", fmt.Sprint(x), "got %g, want NaN", v)
		}
	}
	a.near("mathext.digamma.ref", "mathext.Digamma|special|psi(1)!=-gamma", "x=1", mathext.Digamma(1), -0.5772156649015328606, tolDigamma)
}

// ---------------------------------------------------------------- zeta

var bern2k = []float64{1.0 / 6, -1.0 / 30, 1.0 / 42, -1.0 / 30, 5.0 / 66, -691.0 / 2730, 7.0 / 6, -3617.0 / 510, 43867.0 / 798, -174611.0 / 330}

// refZeta is the Hurwitz zeta function by Euler-Maclaurin summation.
func refZeta(s, q float64) float64 {
	n := 40
	if q < 0 {
		n += int(-q) + 1
	}
	var sum kahan
	for k := 0; k < n; k++ {
		sum.add(math.Pow(float64(k)+q, -s))
	}
	w := float64(n) + q
	sum.add(math.Pow(w, 1-s) / (s - 1))
	sum.add(0.5 * math.Pow(w, -s))
	// sum_j B_2j/(2j)! * s(s+1)...(s+2j-2) * w^(-s-2j+1)
	fact := 1.0
	poch := s
	pw := math.Pow(w, -s-1)
	for j := 1; j <= len(bern2k); j++ {
		fact *= float64(2*j-1) * float64(2*j)
		t := bern2k[j-1] / fact * poch * pw
		sum.add(t)
		if math.Abs(t) < 1e-18*math.Abs(sum.s) {
			break
		}
		poch *= (s + float64(2*j-1)) * (s + float64(2*j))
		pw /= w * w
	}
	return sum.s
}

func (m *mon) mxZeta(a *acc) {
	ss := []float64{1.0001, 1.01, 1.5, 2, 3, 4.5, 10, 30, 50}
	qs := []float64{1e-3, 0.5, 1, 2.5, 8.5, 9, 9.5, 10, 100, 1e4, 0.99e8, 1.01e8, 1e9}
	for _, s := range ss {
		for _, q := range qs {
			where := fmt.Sprintf("s=%g q=%g", s, q)
			cl := "q<=1e8"
			if q > 1e8 {
				cl = "q>1e8"
			}
			var got float64
			if msg, panicked := try(func() { got = mathext.Zeta(s, q) }); panicked {
				a.fail("mathext.Zeta|"+cl+"|panics", where, "panic: %s", msg)
				continue
			}
			a.eval("mathext.Zeta|"+cl, 1)
			want := refZeta(s, q)
			tol := tolZeta
			if q > 1e8 {
				// documented two-term asymptotic formula: relative error ~ s(s+1)/(12 q^2)
				tol = s*(s+1)/(12*q*q)*10 + tolZeta
			}
			a.near("mathext.zeta.ref", "mathext.Zeta|"+cl+"|differs-from-Euler-Maclaurin", where, got, want, tol*math.Abs(want))
			if q <= 1e4 {
				g1 := mathext.Zeta(s, q+1)
				a.near("mathext.zeta.rec", "mathext.Zeta|"+cl+"|zeta(s,q)!=zeta(s,q+1)+q^-s", where, got, g1+math.Pow(q, -s), 4*tolZeta*math.Abs(want))
			}
		}
	}
	for _, s := range []float64{2, 3, 4, 7} {
		for _, q := range []float64{-0.5, -2.5, -7.3, -0.001} {
			where := fmt.Sprintf("s=%g q=%g", s, q)
			var got float64
			if msg, panicked := try(func() { got = mathext.Zeta(s, q) }); panicked {
				a.fail("mathext.Zeta|q<0,integer-s|panics", where, "panic: %s", msg)
				continue
			}
			a.eval("mathext.Zeta|q<0,integer-s", 1)
			want := refZeta(s, q)
			a.near("mathext.zeta.ref", "mathext.Zeta|q<0,integer-s|differs-from-Euler-Maclaurin", where, got, want, 1e-10*math.Abs(want))
		}
	}
	a.near("mathext.zeta.ref", "mathext.Zeta|special|zeta(2)", "s=2 q=1", mathext.Zeta(2, 1), math.Pi*math.Pi/6, 3e-14)
	a.near("mathext.zeta.ref", "mathext.Zeta|special|zeta(4)", "s=4 q=1", mathext.Zeta(4, 1), math.Pow(math.Pi, 4)/90, 3e-14)
	if v := mathext.Zeta(1, 3); !math.IsInf(v, 1) {
		a.fail("mathext.Zeta|special|s=1", "s=1", "got %g, want +Inf", v)
	}
	for _, bad := range [][2]float64{{0.5, 1}, {2, 0}, {2, -3}, {2.5, -0.5}} {
		if _, panicked := try(func() { mathext.Zeta(bad[0], bad[1]) }); !panicked {
			a.fail("mathext.Zeta|out-of-domain|no-panic", fmt.Sprint(bad), "documented panic missing")
		}
	}
}

// ---------------------------------------------------------------- normal quantile

func (m *mon) mxNormalQuantile(a *acc) {
	var ps []float64
	for k := 1; k <= 300; k += 1 {
		ps = append(ps, math.Pow(10, -float64(k)), 3*math.Pow(10, -float64(k)))
	}
	for _, p := range []float64{0.075, 0.5 - 0.425, 0.0749999, 0.0750001, 0.2, 0.3, 0.45, 0.5, math.Exp(-25), math.Exp(-25) * 0.999, math.Exp(-25) * 1.001, 1e-299} {
		ps = append(ps, p)
	}
	phi := func(x float64) float64 { return 0.5 * math.Erfc(-x/math.Sqrt2) }
	for _, p := range ps {
		for _, upper := range []bool{false, true} {
			pp := p
			if upper {
				pp = 1 - p
				if pp == 1 || 1-pp != p {
					continue
				}
			}
			if !(pp > 0 && pp < 1) {
				continue
			}
			where := fmt.Sprintf("p=%.17g", pp)
			dp := math.Abs(pp - 0.5)
			cl := "central"
			if dp > 0.425 {
				r := math.Sqrt(-math.Log(math.Min(pp, 1-pp)))
				if r <= 5 {
					cl = "intermediate"
				} else {
					cl = "tail"
				}
			}
			x := mathext.NormalQuantile(pp)
			a.eval("mathext.NormalQuantile|"+cl, 1)
			if !isFinite(x) {
				a.fail("mathext.NormalQuantile|"+cl+"|non-finite", where, "got %g", x)
				continue
			}
			var back, target float64
			if pp > 0.5 {
				back, target = phi(-x), 1-pp
			} else {
				back, target = phi(x), pp
			}
			tol := tolNormQ * target * math.Max(1, x*x)
			if target < 1e-300 { // subnormal range of Erfc
				tol = 1e-2 * target
			}
			a.near("mathext.normq", "mathext.NormalQuantile|"+cl+"|Phi(quantile)!=p", where, back, target, tol+5e-324)
			if upper {
				xl := mathext.NormalQuantile(p)
				a.near("mathext.normq.sym", "mathext.NormalQuantile|"+cl+"|not-antisymmetric", where, x, -xl, 1e-13*math.Max(1, math.Abs(xl)))
			}
		}
	}
	if v := mathext.NormalQuantile(0); !math.IsInf(v, -1) {
		a.fail("mathext.NormalQuantile|special|p=0", "p=0", "got %g", v)
	}
	if v := mathext.NormalQuantile(1); !math.IsInf(v, 1) {
		a.fail("mathext.NormalQuantile|special|p=1", "p=1", "got %g", v)
	}
	for _, p := range []float64{-1e-9, 1 + 1e-9} {
		if _, panicked := try(func() { mathext.NormalQuantile(p) }); !panicked {
			a.fail("mathext.NormalQuantile|out-of-domain|no-panic", fmt.Sprint(p), "documented panic missing")
		}
	}
}

// ---------------------------------------------------------------- elliptic integrals

// agmKE returns the complete elliptic integrals K(m), E(m) by the
// arithmetic-geometric mean.
func agmKE(m float64) (K, E float64) {
	a, b := 1.0, math.Sqrt(1-m)
	c := math.Sqrt(m)
	sum := 0.5 * c * c
	pw := 0.5
	for i := 0; i < 60; i++ {
		an := 0.5 * (a + b)
		c = 0.5 * (a - b)
		b = math.Sqrt(a * b)
		a = an
		pw *= 2
		sum += pw * c * c
		if math.Abs(c) < 1e-17*a {
			break
		}
	}
	K = math.Pi / (2 * a)
	E = K * (1 - sum)
	return
}

func (m *mon) mxEllipticComplete(a *acc) {
	// region boundaries of the piecewise rational approximations (in mc = 1-m)
	bK := []float64{0.592990, 0.350756, 0.206924, 0.121734, 0.071412, 0.041770, 0.024360, 0.014165, 0.008213}
	bE := []float64{0.566638, 0.315153, 0.171355, 0.090670, 0.046453, 0.022912, 0.010809, 0.004841}
	var ms []float64
	for _, b := range append(append([]float64{}, bK...), bE...) {
		for _, f := range []float64{0.999, 1, 1.001} {
			ms = append(ms, 1-b*f)
		}
	}
	for k := 0; k <= 100; k++ {
		ms = append(ms, float64(k)/101)
	}
	ms = append(ms, 1e-12, 1e-6, 1-1e-3, 1-1e-6, 1-1e-9, 1-1e-12, 0.5)
	for _, mm := range ms {
		if !(mm >= 0 && mm < 1) {
			continue
		}
		where := fmt.Sprintf("m=%.17g", mm)
		K, E, B, D := mathext.CompleteK(mm), mathext.CompleteE(mm), mathext.CompleteB(mm), mathext.CompleteD(mm)
		a.eval("mathext.CompleteK|0<=m<1", 1)
		a.eval("mathext.CompleteE|0<=m<1", 1)
		a.eval("mathext.CompleteB|0<=m<1", 1)
		a.eval("mathext.CompleteD|0<=m<1", 1)
		rK, rE := agmKE(mm)
		a.near("mathext.ell.K", "mathext.CompleteK|0<=m<1|differs-from-AGM", where, K, rK, tolEllComp*rK*math.Max(1, -math.Log(1-mm)))
		a.near("mathext.ell.E", "mathext.CompleteE|0<=m<1|differs-from-AGM", where, E, rE, tolEllComp*rE*4)
		a.near("mathext.ell.BD", "mathext.CompleteB|0<=m<1|B+D!=K", where, B+D, K, 4*tolEllComp*K)
		a.near("mathext.ell.BD", "mathext.CompleteD|0<=m<1|B+(1-m)D!=E", where, B+(1-mm)*D, E, 4*tolEllComp*E)
		// Legendre: E(m)K(1-m) + E(1-m)K(m) - K(m)K(1-m) = pi/2
		if mm > 0 {
			K2, E2 := mathext.CompleteK(1-mm), mathext.CompleteE(1-mm)
			lhs := E*K2 + E2*K - K*K2
			a.near("mathext.ell.legendre", "mathext.CompleteK|0<=m<1|Legendre-relation", where, lhs, math.Pi/2, tolEllLeg*(math.Abs(E*K2)+math.Abs(E2*K)+math.Abs(K*K2)))
		}
		// Carlson forms
		rf := mathext.EllipticRF(0, 1-mm, 1)
		rd := mathext.EllipticRD(0, 1-mm, 1)
		a.near("mathext.ell.carlsonK", "mathext.EllipticRF|complete|RF(0,1-m,1)!=K", where, rf, rK, 1e-13*rK*math.Max(1, -math.Log(1-mm)))
		a.near("mathext.ell.carlsonE", "mathext.EllipticRD|complete|RF-(m/3)RD!=E", where, rf-mm/3*rd, rE, 1e-12*(rf+mm/3*rd))
	}
	// special values and domain
	if v := mathext.CompleteK(1); !math.IsInf(v, 1) {
		a.fail("mathext.CompleteK|m=1|not-Inf", "m=1", "got %g", v)
	}
	a.near("mathext.ell.E", "mathext.CompleteE|m=1|not-1", "m=1", mathext.CompleteE(1), 1, 2e-14)
	a.near("mathext.ell.K", "mathext.CompleteK|m=0|not-pi/2", "m=0", mathext.CompleteK(0), math.Pi/2, 2e-14)
	for _, bad := range []float64{-0.1, 1.1, math.NaN()} {
		for name, f := range map[string]func(float64) float64{"CompleteK": mathext.CompleteK, "CompleteE": mathext.CompleteE, "CompleteB": mathext.CompleteB, "CompleteD": mathext.CompleteD} {
			if v := f(bad); !math.IsNaN(v) {
				a.fail("mathext."+name+"|out-of-domain|not-NaN", fmt.Sprint(bad), "got %g", v)
			}
		}
	}
}

func refRF(x, y, z float64) (float64, bool) {
	s := math.Cbrt(math.Max(x, 1e-300) * math.Max(y, 1e-300) * math.Max(z, 1e-300))
	if s == 0 || x*y*z == 0 {
		s = (x + y + z) / 3
	}
	f := func(t float64, out []float64) { out[0] = 0.5 / math.Sqrt((t+x)*(t+y)*(t+z)) }
	q := quadHalf(0, s, +1, 1, f, 1e-13)
	return q.val[0], q.ok
}

func refRD(x, y, z float64) (float64, bool) {
	s := (x + y + z) / 3
	f := func(t float64, out []float64) { out[0] = 1.5 / (math.Sqrt((t+x)*(t+y)*(t+z)) * (t + z)) }
	q := quadHalf(0, s, +1, 1, f, 1e-13)
	return q.val[0], q.ok
}

func (m *mon) mxCarlson(a *acc) {
	r := m.c.RNG("mathext.carlson")
	n := m.c.Pick(300, 3000)
	for i := 0; i < n; i++ {
		var x, y, z float64
		switch i % 6 {
		case 0:
			x, y, z = r.Uniform(0.1, 10), r.Uniform(0.1, 10), r.Uniform(0.1, 10)
		case 1:
			x, y, z = 0, r.Uniform(0.01, 5), r.Uniform(0.01, 5)
		case 2:
			x, y, z = math.Exp(r.Uniform(-20, 20)), math.Exp(r.Uniform(-20, 20)), math.Exp(r.Uniform(-20, 20))
		case 3:
			x = r.Uniform(0.1, 10)
			y, z = x, x
		case 4:
			x, y = r.Uniform(0.1, 10), r.Uniform(0.1, 10)
			z = y
		case 5:
			x, y, z = r.Uniform(0.5, 2), r.Uniform(0.5, 2)*1e-6, r.Uniform(0.5, 2)*1e6
		}
		where := fmt.Sprintf("x=%g y=%g z=%g", x, y, z)
		cl := []string{"generic", "x=0", "wide-range", "x=y=z", "y=z", "mixed-scale"}[i%6]
		rf := mathext.EllipticRF(x, y, z)
		a.eval("mathext.EllipticRF|"+cl, 1)
		if want, ok := refRF(x, y, z); ok {
			a.near("mathext.carlson.RF", "mathext.EllipticRF|"+cl+"|differs-from-integral", where, rf, want, tolCarlson*want)
		} else {
			a.noverdict("mathext.carlson.quadrature-not-converged")
		}
		// symmetry
		a.near("mathext.carlson.sym", "mathext.EllipticRF|"+cl+"|not-symmetric", where, mathext.EllipticRF(z, x, y), rf, 1e-12*rf)
		a.near("mathext.carlson.sym", "mathext.EllipticRF|"+cl+"|not-symmetric", where, mathext.EllipticRF(y, x, z), rf, 1e-12*rf)
		if x == y && y == z {
			a.near("mathext.carlson.deg", "mathext.EllipticRF|x=y=z|RF(x,x,x)!=x^-1/2", where, rf, 1/math.Sqrt(x), 1e-12/math.Sqrt(x))
			a.near("mathext.carlson.deg", "mathext.EllipticRD|x=y=z|RD(x,x,x)!=x^-3/2", where, mathext.EllipticRD(x, x, x), math.Pow(x, -1.5), 1e-12*math.Pow(x, -1.5))
		}
		if z > 0 && x+y > 0 {
			rd := mathext.EllipticRD(x, y, z)
			a.eval("mathext.EllipticRD|"+cl, 1)
			if want, ok := refRD(x, y, z); ok {
				a.near("mathext.carlson.RD", "mathext.EllipticRD|"+cl+"|differs-from-integral", where, rd, want, tolCarlson*want)
			} else {
				a.noverdict("mathext.carlson.quadrature-not-converged")
			}
			a.near("mathext.carlson.sym", "mathext.EllipticRD|"+cl+"|not-symmetric-in-x,y", where, mathext.EllipticRD(y, x, z), rd, 1e-12*rd)
			// RD(x,y,z)+RD(y,z,x)+RD(z,x,y) = 3/sqrt(xyz)
			if x > 0 && y > 0 {
				sum := rd + mathext.EllipticRD(y, z, x) + mathext.EllipticRD(z, x, y)
				a.near("mathext.carlson.RDsum", "mathext.EllipticRD|"+cl+"|cyclic-sum!=3/sqrt(xyz)", where, sum, 3/math.Sqrt(x*y*z), 1e-13*sum)
			}
		}
	}
	// documented domain
	if v := mathext.EllipticRF(-1, 1, 1); !math.IsNaN(v) {
		a.fail("mathext.EllipticRF|out-of-domain|not-NaN", "x=-1", "got %g", v)
	}
	if v := mathext.EllipticRF(0, 0, 1); !math.IsNaN(v) {
		a.fail("mathext.EllipticRF|out-of-domain|not-NaN", "x=y=0", "got %g", v)
	}
	if v := mathext.EllipticRD(1, 1, 0); !math.IsNaN(v) {
		a.fail("mathext.EllipticRD|out-of-domain|not-NaN", "z=0", "got %g", v)
	}
}

func (m *mon) mxEllipticIncomplete(a *acc) {
	phis := []float64{1e-6, 0.1, 0.5, 1, math.Pi / 4, 1.5, math.Pi / 2}
	msv := []float64{0, 1e-6, 0.1, 0.5, 0.9, 0.99, 1 - 1e-6}
	for _, phi := range phis {
		for _, mm := range msv {
			where := fmt.Sprintf("phi=%g m=%g", phi, mm)
			F := mathext.EllipticF(phi, mm)
			E := mathext.EllipticE(phi, mm)
			a.eval("mathext.EllipticF|0<phi<=pi/2", 1)
			a.eval("mathext.EllipticE|0<phi<=pi/2", 1)
			f := func(t float64, out []float64) {
				s := math.Sin(t)
				d := math.Sqrt(1 - mm*s*s)
				out[0] = 1 / d
				out[1] = d
			}
			q := quadFinite(0, phi, 2, f, 1e-13)
			if !q.ok {
				a.noverdict("mathext.ell.incomplete.quadrature-not-converged")
				continue
			}
			a.near("mathext.ell.F", "mathext.EllipticF|0<phi<=pi/2|differs-from-integral", where, F, q.val[0], tolEllIncomp*q.val[0])
			a.near("mathext.ell.Einc", "mathext.EllipticE|0<phi<=pi/2|differs-from-integral", where, E, q.val[1], tolEllIncomp*q.val[1])
			if phi == math.Pi/2 {
				a.near("mathext.ell.F", "mathext.EllipticF|phi=pi/2|F(pi/2,m)!=K(m)", where, F, mathext.CompleteK(mm), 1e-12*F)
				a.near("mathext.ell.Einc", "mathext.EllipticE|phi=pi/2|E(pi/2,m)!=E(m)", where, E, mathext.CompleteE(mm), 1e-12*E)
			}
		}
	}
}

// ---------------------------------------------------------------- Airy

const (
	airyC1 = "0.355028053887817239260063186004183176397979174199" // Ai(0)
	airyC2 = "0.258819403792806798405183560189203963479091138354" // -Ai'(0)
)

// airySeries evaluates Ai(x) and Ai'(x) for real x by the Maclaurin series
// in 300-bit arithmetic.
func airySeries(x float64) (ai, aip float64) {
	const prec = 300
	nf := func(v float64) *big.Float { return new(big.Float).SetPrec(prec).SetFloat64(v) }
	c1, _ := new(big.Float).SetPrec(prec).SetString(airyC1)
	c2, _ := new(big.Float).SetPrec(prec).SetString(airyC2)
	X := nf(x)
	X3 := new(big.Float).SetPrec(prec).Mul(X, X)
	X3.Mul(X3, X)
	// f = sum a_k, a_0 = 1, a_k = a_{k-1} x^3/((3k-1)(3k)); g = sum b_k, b_0 = x, b_k = b_{k-1} x^3/((3k)(3k+1))
	f, g := nf(1), new(big.Float).SetPrec(prec).Set(X)
	fp, gp := nf(0), nf(1) // derivatives
	ak, bk := nf(1), new(big.Float).SetPrec(prec).Set(X)
	for k := 1; k < 400; k++ {
		ak.Mul(ak, X3)
		ak.Quo(ak, nf(float64((3*k-1)*(3*k))))
		bk.Mul(bk, X3)
		bk.Quo(bk, nf(float64((3*k)*(3*k+1))))
		f.Add(f, ak)
		g.Add(g, bk)
		// d/dx of a_k = 3k a_k / x ; of b_k = (3k+1) b_k / x
		if x != 0 {
			t := new(big.Float).SetPrec(prec).Mul(ak, nf(float64(3*k)))
			t.Quo(t, X)
			fp.Add(fp, t)
			u := new(big.Float).SetPrec(prec).Mul(bk, nf(float64(3*k+1)))
			u.Quo(u, X)
			gp.Add(gp, u)
		}
		ea, _ := ak.Float64()
		eb, _ := bk.Float64()
		if k > 5 && math.Abs(ea) < 1e-80 && math.Abs(eb) < 1e-80 {
			break
		}
	}
	r := new(big.Float).SetPrec(prec).Mul(c1, f)
	r.Sub(r, new(big.Float).SetPrec(prec).Mul(c2, g))
	ai, _ = r.Float64()
	rp := new(big.Float).SetPrec(prec).Mul(c1, fp)
	rp.Sub(rp, new(big.Float).SetPrec(prec).Mul(c2, gp))
	aip, _ = rp.Float64()
	return
}

func (m *mon) mxAiry(a *acc) {
	// real axis, |x| <= 5, against the series
	for k := -50; k <= 50; k++ {
		x := float64(k) / 10
		where := fmt.Sprintf("x=%g", x)
		ai := mathext.AiryAi(complex(x, 0))
		aip := mathext.AiryAiDeriv(complex(x, 0))
		a.eval("mathext.AiryAi|real,|x|<=5", 1)
		a.eval("mathext.AiryAiDeriv|real,|x|<=5", 1)
		wa, wp := airySeries(x)
		// near the zeros of Ai on the negative axis the error is absolute
		sc := math.Max(math.Abs(wa), 1e-2*math.Abs(wp))
		sp := math.Max(math.Abs(wp), 1e-2*math.Abs(wa))
		a.near("mathext.airy.series", "mathext.AiryAi|real,|x|<=5|differs-from-series", where, real(ai), wa, tolAirySer*sc)
		a.near("mathext.airy.series", "mathext.AiryAiDeriv|real,|x|<=5|differs-from-series", where, real(aip), wp, tolAirySer*sp)
		if imag(ai) != 0 || imag(aip) != 0 {
			a.near("mathext.airy.imag", "mathext.AiryAi|real,|x|<=5|imaginary-part-on-real-axis", where, math.Abs(imag(ai))+math.Abs(imag(aip)), 0, 1e-12*(sc+sp))
		}
	}
	// complex plane: Ai' is the derivative of Ai and Ai'' = z Ai
	r := m.c.RNG("mathext.airy")
	n := m.c.Pick(300, 3000)
	for i := 0; i < n; i++ {
		mod := []float64{0.5, 2, 5, 9, 15, 25}[i%6] * r.Uniform(0.8, 1.2)
		arg := r.Uniform(-math.Pi, math.Pi)
		switch (i / 6) % 4 {
		case 0:
			arg = 0
		case 1:
			arg = math.Pi
		}
		z := cmplx.Rect(mod, arg)
		cl := "|z|<=5"
		if mod > 5 {
			cl = "|z|>5"
		}
		where := fmt.Sprintf("z=%g", z)
		ai, aip := mathext.AiryAi(z), mathext.AiryAiDeriv(z)
		a.eval("mathext.AiryAi|complex,"+cl, 1)
		a.eval("mathext.AiryAiDeriv|complex,"+cl, 1)
		if cmplx.IsNaN(ai) || cmplx.IsNaN(aip) || cmplx.IsInf(ai) {
			a.fail("mathext.AiryAi|complex,"+cl+"|non-finite", where, "Ai=%g Ai'=%g", ai, aip)
			continue
		}
		if cmplx.Abs(ai) < 1e-290 {
			a.noverdict("mathext.airy.underflow")
			continue
		}
		h := 1e-3 / math.Max(1, math.Sqrt(mod))
		for _, dir := range []complex128{1, 1i} {
			d1 := cdiff(mathext.AiryAi, z, complex(h, 0)*dir)
			d2 := cdiff(mathext.AiryAiDeriv, z, complex(h, 0)*dir)
			scale := cmplx.Abs(ai)*math.Max(1, mod) + cmplx.Abs(aip)
			a.near("mathext.airy.ode", "mathext.AiryAiDeriv|complex,"+cl+"|not-the-derivative-of-AiryAi", where, cmplx.Abs(d1-aip), 0, tolAiryODE*scale)
			a.near("mathext.airy.ode", "mathext.AiryAi|complex,"+cl+"|Ai''!=z*Ai", where, cmplx.Abs(d2-z*ai), 0, tolAiryODE*scale*math.Max(1, math.Sqrt(mod)))
		}
	}
}

// cdiff is a Richardson-extrapolated central difference of an analytic
// function along the direction of h.
func cdiff(f func(complex128) complex128, z, h complex128) complex128 {
	d := func(h complex128) complex128 { return (f(z+h) - f(z-h)) / (2 * h) }
	d0, d1 := d(h), d(h/2)
	return (4*d1 - d0) / 3
}

// ---------------------------------------------------------------- beta, multivariate gamma

func (m *mon) mxBeta(a *acc) {
	vals := []float64{1e-6, 1e-3, 0.1, 0.5, 1, 1.5, 2, 7.5, 30, 171, 172, 500, 1e4, 1e7}
	for _, x := range vals {
		for _, y := range vals {
			where := fmt.Sprintf("a=%g b=%g", x, y)
			lb := mathext.Lbeta(x, y)
			a.eval("mathext.Lbeta|positive", 1)
			lx, ly, lxy := lgamma(x), lgamma(y), lgamma(x+y)
			want := lx + ly - lxy
			mag := math.Abs(lx) + math.Abs(ly) + math.Abs(lxy)
			a.near("mathext.lbeta", "mathext.Lbeta|positive|differs-from-Lgamma-composition", where, lb, want, tolBeta*mag+1e-15)
			if sym := mathext.Lbeta(y, x); sym != lb {
				a.near("mathext.lbeta", "mathext.Lbeta|positive|not-symmetric", where, sym, lb, 1e-15*math.Abs(lb))
			}
			b := mathext.Beta(x, y)
			a.eval("mathext.Beta|positive", 1)
			if lb < 700 && lb > -700 {
				a.near("mathext.beta", "mathext.Beta|positive|Beta!=exp(Lbeta)", where, b, math.Exp(want), (tolBeta*mag+1e-14)*math.Exp(want))
			}
		}
	}
	// documented special cases
	type sc struct {
		a, b float64
		want string
	}
	for _, c := range []sc{{math.Inf(1), 1, "NaN"}, {0, 0, "NaN"}, {math.NaN(), 1, "NaN"}, {-1, 2, "NaN"}, {0, 3, "+Inf"}, {2, 0, "+Inf"}} {
		for name, f := range map[string]func(float64, float64) float64{"Beta": mathext.Beta, "Lbeta": mathext.Lbeta} {
			v := f(c.a, c.b)
			ok := (c.want == "NaN" && math.IsNaN(v)) || (c.want == "+Inf" && math.IsInf(v, 1))
			if !ok {
				a.fail("mathext."+name+"|special|documented-value", fmt.Sprintf("a=%g b=%g", c.a, c.b), "got %g, documented %s", v, c.want)
			}
		}
	}
	for dim := 1; dim <= 6; dim++ {
		for _, v := range []float64{float64(dim-1)/2 + 1e-3, float64(dim) / 2, float64(dim), 7.25, 50, 1000} {
			where := fmt.Sprintf("v=%g dim=%d", v, dim)
			got := mathext.MvLgamma(v, dim)
			a.eval("mathext.MvLgamma|v>(dim-1)/2", 1)
			want := float64(dim*(dim-1)) / 4 * math.Log(math.Pi)
			mag := math.Abs(want)
			for j := 1; j <= dim; j++ {
				t := lgamma(v + float64(1-j)/2)
				want += t
				mag += math.Abs(t)
			}
			a.near("mathext.mvlgamma", "mathext.MvLgamma|v>(dim-1)/2|differs-from-definition", where, got, want, tolBeta*mag)
		}
		if v := mathext.MvLgamma(float64(dim-1)/2-0.1, dim); !math.IsNaN(v) {
			a.fail("mathext.MvLgamma|v<(dim-1)/2|not-NaN", fmt.Sprintf("dim=%d", dim), "got %g", v)
		}
	}
	if _, panicked := try(func() { mathext.MvLgamma(1, 0) }); !panicked {
		a.fail("mathext.MvLgamma|dim<1|no-panic", "dim=0", "documented panic missing")
	}
}
