package main

import (
	"fmt"
	"math"
	"sort"

	"gonum.org/v1/gonum/stat/distuv"
	"gonum.org/v1/gonum/verifx/vrt"
)

// AlphaStable has Rand and moments but neither CDF nor density. Its law is
// defined (doc comment -> Wikipedia "Stable distribution") by the
// characteristic function
//
//	exp(i t mu - |c t|^alpha (1 - i beta sgn(t) Phi)),  Phi = tan(pi alpha/2)  (alpha != 1)
//	                                                     Phi = -(2/pi) log|t|   (alpha  = 1)
//
// The harness computes the CDF of the standard law (mu=0, c=1) by Nolan's
// integral representation (stableCDF) and validates that implementation at
// run time against a direct Gil-Pelaez inversion of the characteristic
// function (stableCDFcf) at a few moderate arguments; if the two disagree the
// sub-check is reported inconclusive and no verdict is issued.

// stableCDF returns P(Z <= x) for the standard stable law S1(alpha,beta).
func stableCDF(alpha, beta, x float64) float64 {
	if alpha == 2 {
		return 0.5 * math.Erfc(-x/2)
	}
	if alpha == 1 {
		if beta == 0 {
			return 0.5 + math.Atan(x)/math.Pi
		}
		if beta < 0 {
			return 1 - stableCDF(alpha, -beta, -x)
		}
		e := math.Exp(-math.Pi * x / (2 * beta))
		f := func(th float64, out []float64) {
			c := math.Cos(th)
			if c <= 0 {
				out[0] = 0
				return
			}
			g := math.Pi/2 + beta*th
			v := (2 / math.Pi) * (g / c) * math.Exp(g*math.Tan(th)/beta)
			out[0] = math.Exp(-e * v)
		}
		q := quadFinite(-math.Pi/2, math.Pi/2, 1, f, 1e-10)
		return q.val[0] / math.Pi
	}
	zeta := -beta * math.Tan(math.Pi*alpha/2)
	xi := math.Atan(-zeta) / alpha
	if x == 0 {
		return (math.Pi/2 - xi) / math.Pi
	}
	if x < 0 {
		return 1 - stableCDF(alpha, -beta, -x)
	}
	lo := -xi
	if lo >= math.Pi/2 {
		// alpha < 1, beta = -1: no mass on the positive half line
		return 1
	}
	p := alpha / (alpha - 1)
	xp := math.Pow(x, p)
	cax := math.Pow(math.Cos(alpha*xi), 1/(alpha-1))
	f := func(th float64, out []float64) {
		s := math.Sin(alpha * (xi + th))
		c := math.Cos(th)
		if s <= 0 || c <= 0 {
			// a node rounded onto an end point: its weight is negligible
			out[0] = 0
			return
		}
		v := cax * math.Pow(c/s, p) * math.Cos(alpha*xi+(alpha-1)*th) / c
		out[0] = math.Exp(-xp * v)
	}
	q := quadFinite(lo, math.Pi/2, 1, f, 1e-10)
	if alpha < 1 {
		return (math.Pi/2-xi)/math.Pi + q.val[0]/math.Pi
	}
	return 1 - q.val[0]/math.Pi
}

// stableCDFcf is the Gil-Pelaez inversion
//
//	F(x) = 1/2 + (1/pi) int_0^inf exp(-t^alpha) sin(t x - beta Phi(t) t^alpha)/t dt
//
// evaluated panel by panel; usable for moderate |x| and alpha >= 0.5.
func stableCDFcf(alpha, beta, x float64) (float64, bool) {
	T := math.Pow(40, 1/alpha)
	step := 1.0
	if math.Abs(x) > 1 {
		step = 1 / math.Abs(x)
	}
	f := func(t float64, out []float64) {
		if t == 0 {
			out[0] = 0
			return
		}
		ta := math.Pow(t, alpha)
		var ph float64
		if alpha == 1 {
			ph = -(2 / math.Pi) * math.Log(t)
		} else {
			ph = math.Tan(math.Pi * alpha / 2)
		}
		out[0] = math.Exp(-ta) * math.Sin(t*x-beta*ph*ta) / t
	}
	var s kahan
	ok := true
	for a := 0.0; a < T; a += step {
		q := quadFinite(a, math.Min(a+step, T), 1, f, 1e-12)
		ok = ok && q.ok
		s.add(q.val[0])
	}
	return 0.5 + s.s/math.Pi, ok
}

type stableCase struct {
	alpha, beta, c, mu float64
}

func (sc stableCase) String() string {
	return fmt.Sprintf("distuv.AlphaStable{Alpha=%g Beta=%g C=%g Mu=%g}", sc.alpha, sc.beta, sc.c, sc.mu)
}

func (sc stableCase) class() string {
	switch {
	case sc.alpha == 1:
		return "alpha=1"
	case sc.alpha == 2:
		return "alpha=2"
	case sc.alpha < 1:
		return "alpha<1"
	}
	return "alpha>1"
}

func (m *mon) stableCases() []stableCase {
	var all []stableCase
	for _, al := range []float64{0.5, 0.75, 1, 1.25, 1.5, 1.9, 2} {
		for _, be := range []float64{-1, -0.5, 0, 0.7, 1} {
			for _, cm := range [][2]float64{{1, 0}, {0.3, -3}, {7, 2.5}} {
				all = append(all, stableCase{al, be, cm[0], cm[1]})
			}
		}
	}
	if m.c.Thorough() {
		return all
	}
	// quick: 8 settings, two per branch class, seed-rotated
	by := map[string][]stableCase{}
	var order []string
	for _, s := range all {
		if _, ok := by[s.class()]; !ok {
			order = append(order, s.class())
		}
		by[s.class()] = append(by[s.class()], s)
	}
	var out []stableCase
	for _, cl := range order {
		ls := by[cl]
		i0 := int(m.c.Seed) % len(ls)
		out = append(out, ls[i0], ls[(i0+len(ls)/2+1)%len(ls)])
	}
	return out
}

// runStable is called from runUVRand.
func (m *mon) runStable() {
	cases := m.stableCases()
	N := m.nDraws()
	// validate the oracle first
	type ab struct{ a, b float64 }
	seen := map[ab]bool{}
	for _, sc := range cases {
		k := ab{sc.alpha, sc.beta}
		if seen[k] {
			continue
		}
		seen[k] = true
		for _, x := range []float64{-1.5, -0.4, 0.3, 1, 2.5} {
			want, ok := stableCDFcf(sc.alpha, sc.beta, x)
			got := stableCDF(sc.alpha, sc.beta, x)
			if !ok || !(math.Abs(got-want) <= 1e-7) {
				m.c.Inconclusive("uvrand.alphastable", fmt.Sprintf("harness oracle self-check failed: alpha=%g beta=%g x=%g Nolan=%.12g Gil-Pelaez=%.12g converged=%v", sc.alpha, sc.beta, x, got, want, ok))
				return
			}
		}
	}
	vrt.Parallel(len(cases), func(i int) {
		sc := cases[i]
		a := m.newAcc()
		defer a.flush()
		where := sc.String()
		class := m.rclass(sc.class())
		m.c.LastCase("uvrand " + where)
		d := distuv.AlphaStable{Alpha: sc.alpha, Beta: sc.beta, C: sc.c, Mu: sc.mu, Src: m.src("uvrand.stable", i)}
		xs := make([]float64, N)
		msg, panicked := try(func() {
			for j := range xs {
				xs[j] = d.Rand()
			}
		})
		a.eval("distuv.AlphaStable.Rand|"+class, N)
		if panicked {
			a.fail("distuv.AlphaStable.Rand|"+class+"|panics", where, "panic: %s", msg)
			return
		}
		lo, hi := math.Inf(-1), math.Inf(1)
		if sc.alpha < 1 && sc.beta == 1 {
			lo = sc.mu
		}
		if sc.alpha < 1 && sc.beta == -1 {
			hi = sc.mu
		}
		for _, x := range xs {
			if math.IsNaN(x) || x < lo || x > hi {
				a.fail("distuv.AlphaStable.Rand|"+class+"|draw-outside-support", where, "Rand() = %v, support [%g,%g]", x, lo, hi)
				return
			}
		}
		sort.Float64s(xs)
		shift := sc.mu
		if sc.alpha == 1 {
			shift += (2 / math.Pi) * sc.beta * sc.c * math.Log(sc.c)
		}
		// DKW on a fixed set of order statistics (a subset of the sample
		// points: the supremum over a subset is a lower bound of D_N, so the
		// band stays valid).
		const M = 400
		D, at := 0.0, 0.0
		n := float64(N)
		for k := 0; k <= M; k++ {
			j := k * (N - 1) / M
			x := xs[j]
			f := stableCDF(sc.alpha, sc.beta, (x-shift)/sc.c)
			// ties are impossible in practice; use both one-sided gaps
			if dd := float64(j+1)/n - f; dd > D {
				D, at = dd, x
			}
			if dd := f - float64(j)/n; dd > D {
				D, at = dd, x
			}
		}
		a.near("rand.dkw.stable", "distuv.AlphaStable.Rand|"+class+"|empirical-CDF-outside-DKW-band",
			fmt.Sprintf("%s N=%d sup at x=%g", where, N, at), D, 0, dkwEps(N)+1e-6)
		// closed-form moments against the law
		if sc.alpha == 2 {
			a.near("stable.moment", "distuv.AlphaStable.Variance|alpha=2|not-2c^2", where, d.Variance(), 2*sc.c*sc.c, 1e-14*sc.c*sc.c)
			a.near("stable.moment", "distuv.AlphaStable.Skewness|alpha=2|not-0", where, d.Skewness(), 0, 0)
			a.near("stable.moment", "distuv.AlphaStable.ExKurtosis|alpha=2|not-0", where, d.ExKurtosis(), 0, 0)
			var s kahan
			for _, x := range xs {
				s.add(x)
			}
			if !m.nilSrc {
				a.near("rand.mean", "distuv.AlphaStable.Rand|alpha=2|sample-mean-outside-8-sigma", where, s.s/n, d.Mean(), 8*math.Sqrt(2*sc.c*sc.c/n))
			}
		}
		if sc.alpha > 1 {
			a.near("stable.moment", "distuv.AlphaStable.Mean|alpha>1|not-Mu", where, d.Mean(), sc.mu, 0)
		}
		if sc.beta == 0 {
			a.near("stable.moment", "distuv.AlphaStable.Median|beta=0|not-Mu", where, d.Median(), sc.mu, 0)
			a.near("stable.moment", "distuv.AlphaStable.Mode|beta=0|not-Mu", where, d.Mode(), sc.mu, 0)
		}
		if d.NumParameters() != 4 {
			a.fail("distuv.AlphaStable.NumParameters|-|wrong-count", where, "NumParameters() = %d", d.NumParameters())
		}
	})
}
