package main

import (
	"fmt"
	"math"
	"sort"
	"strings"

	"gonum.org/v1/gonum/verifx/vrt"
)

// Method-set interfaces used for discovery.
type (
	cdfer        interface{ CDF(float64) float64 }
	survivaler   interface{ Survival(float64) float64 }
	prober       interface{ Prob(float64) float64 }
	logprober    interface{ LogProb(float64) float64 }
	quantiler    interface{ Quantile(float64) float64 }
	rander       interface{ Rand() float64 }
	meaner       interface{ Mean() float64 }
	variancer    interface{ Variance() float64 }
	stddever     interface{ StdDev() float64 }
	skewnesser   interface{ Skewness() float64 }
	exkurtosiser interface{ ExKurtosis() float64 }
	entropyer    interface{ Entropy() float64 }
	medianer     interface{ Median() float64 }
	moder        interface{ Mode() float64 }
	numparamser  interface{ NumParameters() int }
	scorer       interface {
		Score([]float64, float64) []float64
	}
	scoreInputer interface{ ScoreInput(float64) float64 }
)

// Tolerances. Each is a named constant; the worst observed error/tolerance
// ratio of every comparison kind on the tree under test is recorded in the
// evidence notes (worst_error_over_tolerance). On the pinned tree, over seeds
// {1,2,3,7,42} and both tiers, the worst ratios of the kinds without an open
// finding are: complement (after the Beta fix) 0.02, quantile.inverse 0.03,
// panel 0.06, mass 1e-5, mean 4e-6, variance 2e-3, skewness 4e-4,
// exkurtosis 4e-4, entropy 4e-4, median 2e-4, prob.explogprob 1e-4.
const (
	// |CDF(x)+Survival(x)-1| (a few ulps of 1 are observed).
	tolComplement = 1e-13
	// CDF(x') >= CDF(x)*(1-tolMonoRel) - tolMonoAbs for x' > x.
	tolMonoRel = 1e-10
	tolMonoAbs = 1e-14
	// |Prob - exp(LogProb)| <= tolProbLog * Prob.
	tolProbLog = 1e-11
	// |CDF(Quantile(p)) - p| <= tolQuantile * min(p, 1-p).
	tolQuantile = 1e-6
	// |integral of Prob over a panel - CDF difference| <= tolPanel*difference + tolPanelAbs.
	tolPanel    = 1e-6
	tolPanelAbs = 1e-14
	// total mass.
	tolMass = 1e-8
	// closed-form moments vs quadrature (relative to the natural scale of each).
	tolMean     = 1e-7
	tolVariance = 1e-6
	tolSkew     = 1e-6
	tolKurt     = 1e-5
	tolEntropy  = 1e-6
	// |CDF(Median) - 1/2|.
	tolMedian = 1e-9
	// quadrature convergence target (relative to the integral of |f|).
	quadRel = 1e-11
)

var pGrid = []float64{
	1e-6, 1e-5, 1e-4, 1e-3, 0.005, 0.01, 0.025, 0.05, 0.1, 0.15, 0.2, 0.25, 0.3, 0.35, 0.4, 0.45,
	0.5,
	0.55, 0.6, 0.65, 0.7, 0.75, 0.8, 0.85, 0.9, 0.95, 0.975, 0.99, 0.995, 0.999, 1 - 1e-4, 1 - 1e-5, 1 - 1e-6,
	0.003, 0.03, 0.075, 0.925, 0.97, 0.997, 0.125, 0.875,
}

func init() { sort.Float64s(pGrid) }

// uvCase is one (law, tier) unit of work.
func (m *mon) uvLaws() []*law {
	all := allLaws()
	var out []*law
	for _, t := range typeOrder {
		out = append(out, pickLaws(all[t], m.c.Thorough(), 8, m.c.Seed)...)
	}
	return out
}

func (m *mon) runUV() {
	laws := m.uvLaws()
	methods := map[string]string{}
	for _, l := range laws {
		if _, ok := methods[l.typ]; !ok {
			methods[l.typ] = methodSet(l.mk(nil))
		}
	}
	m.c.Note("distuv_methods_discovered", methods)
	vrt.Parallel(len(laws), func(i int) {
		l := laws[i]
		a := m.newAcc()
		m.c.LastCase("uv " + l.String())
		if l.discrete {
			m.uvDiscrete(a, l)
		} else {
			m.uvContinuous(a, l)
		}
		a.flush()
	})
	if m.c.WantSample() {
		for _, l := range laws[:min(4, len(laws))] {
			m.c.Sample(map[string]any{"sub": "uv", "law": l.String(), "class": l.pclass})
		}
	}
}

func methodSet(d any) string {
	var s []string
	add := func(ok bool, n string) {
		if ok {
			s = append(s, n)
		}
	}
	_, ok := d.(cdfer)
	add(ok, "CDF")
	_, ok = d.(survivaler)
	add(ok, "Survival")
	_, ok = d.(prober)
	add(ok, "Prob")
	_, ok = d.(logprober)
	add(ok, "LogProb")
	_, ok = d.(quantiler)
	add(ok, "Quantile")
	_, ok = d.(rander)
	add(ok, "Rand")
	_, ok = d.(meaner)
	add(ok, "Mean")
	_, ok = d.(variancer)
	add(ok, "Variance")
	_, ok = d.(stddever)
	add(ok, "StdDev")
	_, ok = d.(skewnesser)
	add(ok, "Skewness")
	_, ok = d.(exkurtosiser)
	add(ok, "ExKurtosis")
	_, ok = d.(entropyer)
	add(ok, "Entropy")
	_, ok = d.(medianer)
	add(ok, "Median")
	_, ok = d.(moder)
	add(ok, "Mode")
	_, ok = d.(numparamser)
	add(ok, "NumParameters")
	_, ok = d.(scorer)
	add(ok, "Score")
	_, ok = d.(scoreInputer)
	add(ok, "ScoreInput")
	_, ok = d.(interface{ Fit(s, w []float64) })
	add(ok, "Fit")
	_, ok = d.(interface {
		ConjugateUpdate(s []float64, n float64, p []float64)
	})
	add(ok, "ConjugateUpdate")
	return strings.Join(s, ",")
}

// call evaluates f(x), converting a panic into a violation.
func (a *acc) call(l *law, method, xclass string, x float64, f func(float64) float64) (v float64, ok bool) {
	msg, panicked := try(func() { v = f(x) })
	a.eval("distuv."+l.typ+"."+method+"|"+xclass, 1)
	if panicked {
		a.fail("distuv."+l.typ+"."+method+"|"+xclass+"|panics", fmt.Sprintf("%v x=%g", l, x), "panic: %s", msg)
		return math.NaN(), false
	}
	return v, true
}

func sig(l *law, method, class, clause string) string {
	return "distuv." + l.typ + "." + method + "|" + class + "|" + clause
}

// uvContinuous checks one continuous law.
func (m *mon) uvContinuous(a *acc, l *law) {
	d := l.mk(nil)
	F, hasF := d.(cdfer)
	S, hasS := d.(survivaler)
	P, hasP := d.(prober)
	LP, hasLP := d.(logprober)
	Q, hasQ := d.(quantiler)
	where := l.String()
	if !hasF {
		return
	}

	// ---- quantile grid ----
	xs := make([]float64, len(pGrid))
	for i, p := range pGrid {
		x := math.NaN()
		if hasQ {
			var ok bool
			x, ok = a.call(l, "Quantile", "interior", p, Q.Quantile)
			if ok && !isFinite(x) {
				a.fail(sig(l, "Quantile", "interior", "non-finite"), where, "Quantile(%g) = %g", p, x)
			}
		}
		if !isFinite(x) {
			x = ownQuantile(l, F, p)
		}
		xs[i] = x
	}
	if hasQ {
		for i := 1; i < len(xs); i++ {
			if xs[i] < xs[i-1] {
				a.fail(sig(l, "Quantile", "interior", "decreasing"), where, "Quantile(%g)=%g > Quantile(%g)=%g", pGrid[i-1], xs[i-1], pGrid[i], xs[i])
			}
		}
		for i, p := range pGrid {
			x := xs[i]
			// The exact quantile need not be representable: the change of
			// the CDF over +-4 ulps of x is added to the tolerance.
			xd, xu := x, x
			for k := 0; k < 4; k++ {
				xd, xu = math.Nextafter(xd, math.Inf(-1)), math.Nextafter(xu, math.Inf(1))
			}
			if hasS && p > 0.5 {
				if s, ok := a.call(l, "Survival", "interior", x, S.Survival); ok {
					res := 0.0
					try(func() { res = math.Abs(S.Survival(xd) - S.Survival(xu)) })
					a.near("quantile.inverse", sig(l, "Quantile", "interior", "Survival(Quantile(p))!=1-p"), fmt.Sprintf("%s p=%g", where, p), s, 1-p, tolQuantile*(1-p)+res)
				}
			} else {
				if f, ok := a.call(l, "CDF", "interior", x, F.CDF); ok {
					res := 0.0
					try(func() { res = math.Abs(F.CDF(xu) - F.CDF(xd)) })
					a.near("quantile.inverse", sig(l, "Quantile", "interior", "CDF(Quantile(p))!=p"), fmt.Sprintf("%s p=%g", where, p), f, p, tolQuantile*math.Min(p, 1-p)+res)
				}
			}
		}
		// end points and out-of-range arguments
		if q0, ok := a.call(l, "Quantile", "p=0", 0, Q.Quantile); ok {
			a.near("quantile.ends", sig(l, "Quantile", "p=0", "not-lower-end-of-support"), where, q0, l.lo, 1e-9*l.scale)
		}
		if q1, ok := a.call(l, "Quantile", "p=1", 1, Q.Quantile); ok {
			a.near("quantile.ends", sig(l, "Quantile", "p=1", "not-upper-end-of-support"), where, q1, l.hi, 1e-9*l.scale)
		}
		for _, p := range []float64{-0.25, 1.25, math.Inf(1), -1e-300, 1 + 1e-15} {
			var v float64
			_, panicked := try(func() { v = Q.Quantile(p) })
			a.eval("distuv."+l.typ+".Quantile|p-out-of-range", 1)
			if !panicked && !math.IsNaN(v) {
				a.fail(sig(l, "Quantile", "p-out-of-range", "returns-a-number"), where, "Quantile(%g) = %g (neither panic nor NaN)", p, v)
			}
		}
	}

	// ---- x grid: quantile points, knots, refinement ----
	base := append([]float64(nil), xs...)
	for _, k := range l.knots {
		base = append(base, k)
	}
	sort.Float64s(base)
	base = uniq(base)

	// ---- pointwise identities on a refined grid ----
	var fine []float64
	for i := 0; i < len(base); i++ {
		fine = append(fine, base[i])
		if i+1 < len(base) {
			for j := 1; j < 6; j++ {
				fine = append(fine, base[i]+(base[i+1]-base[i])*float64(j)/6)
			}
		}
	}
	prevF, prevS := math.Inf(-1), math.Inf(1)
	var prevX float64
	for _, x := range fine {
		f, ok := a.call(l, "CDF", "interior", x, F.CDF)
		if !ok {
			continue
		}
		if !(f >= 0 && f <= 1) {
			a.fail(sig(l, "CDF", "interior", "outside-[0,1]"), where, "CDF(%g) = %g", x, f)
			continue
		}
		if f < prevF*(1-tolMonoRel)-tolMonoAbs {
			a.fail(sig(l, "CDF", "interior", "decreasing"), where, "CDF(%.17g)=%.17g > CDF(%.17g)=%.17g", prevX, prevF, x, f)
		}
		prevF = f
		if hasS {
			if s, ok := a.call(l, "Survival", "interior", x, S.Survival); ok {
				if !(s >= 0 && s <= 1) {
					a.fail(sig(l, "Survival", "interior", "outside-[0,1]"), where, "Survival(%g) = %g", x, s)
				} else {
					a.near("complement", sig(l, "Survival", "interior", "CDF+Survival!=1"), fmt.Sprintf("%s x=%g", where, x), f+s, 1, tolComplement)
					if s > prevS*(1+tolMonoRel)+tolMonoAbs {
						a.fail(sig(l, "Survival", "interior", "increasing"), where, "Survival(%.17g)=%.17g < Survival(%.17g)=%.17g", prevX, prevS, x, s)
					}
					prevS = s
				}
			}
		}
		prevX = x
		if hasP && hasLP && x > l.lo && x < l.hi {
			p, ok1 := a.call(l, "Prob", "interior", x, P.Prob)
			lp, ok2 := a.call(l, "LogProb", "interior", x, LP.LogProb)
			if ok1 && ok2 {
				if !(p >= 0) {
					a.fail(sig(l, "Prob", "interior", "negative-or-NaN"), where, "Prob(%g) = %g", x, p)
				} else {
					a.near("prob.explogprob", sig(l, "Prob", "interior", "Prob!=exp(LogProb)"), fmt.Sprintf("%s x=%g", where, x), p, math.Exp(lp), tolProbLog*p+1e-300)
				}
			}
		}
	}

	// ---- outside the support and at its end points ----
	m.uvOutside(a, l, d)

	if !hasP {
		return
	}

	// ---- panel integrals, total mass, moments ----
	m.uvIntegrals(a, l, d, base)
}

func uniq(s []float64) []float64 {
	out := s[:0]
	for i, v := range s {
		if i == 0 || v != s[i-1] {
			out = append(out, v)
		}
	}
	return out
}

// ownQuantile inverts the CDF by bisection (fallback when the type has no
// usable Quantile).
func ownQuantile(l *law, F cdfer, p float64) float64 {
	lo, hi := l.lo, l.hi
	safe := func(x float64) float64 {
		var v float64
		if _, panicked := try(func() { v = F.CDF(x) }); panicked {
			return math.NaN()
		}
		return v
	}
	if math.IsInf(lo, -1) {
		lo = -l.scale
		for i := 0; i < 2000 && !(safe(lo) < p); i++ {
			lo *= 2
		}
	}
	if math.IsInf(hi, 1) {
		hi = math.Max(l.scale, math.Abs(lo))
		if l.lo > 0 {
			hi = 2 * l.lo
		}
		for i := 0; i < 2000 && !(safe(hi) > p); i++ {
			hi *= 2
		}
	}
	return bisect(func(x float64) float64 { return safe(x) - p }, lo, hi)
}

// uvOutside evaluates every pointwise method below, above and at the ends
// of the support.
func (m *mon) uvOutside(a *acc, l *law, d any) {
	where := l.String()
	F, _ := d.(cdfer)
	S, hasS := d.(survivaler)
	P, hasP := d.(prober)
	LP, hasLP := d.(logprober)
	type pt struct {
		x     float64
		class string
		f, s  float64 // expected CDF and Survival
	}
	var pts []pt
	steps := []float64{1e-9, 1e-3, 1, 1e3}
	if !math.IsInf(l.lo, 0) {
		for _, st := range steps {
			x := l.lo - st*l.scale
			if x < l.lo {
				pts = append(pts, pt{x, "below-support", 0, 1})
			}
		}
		if l.lo > 0 { // a negative and a zero argument for laws living on [xm, inf)
			pts = append(pts, pt{0, "below-support", 0, 1}, pt{-l.lo, "below-support", 0, 1})
		}
	}
	if !math.IsInf(l.hi, 0) {
		for _, st := range steps {
			x := l.hi + st*l.scale
			if x > l.hi {
				pts = append(pts, pt{x, "above-support", 1, 0})
			}
		}
	}
	for _, q := range pts {
		if f, ok := a.call(l, "CDF", q.class, q.x, F.CDF); ok && f != q.f {
			a.fail(sig(l, "CDF", q.class, "wrong-value"), where, "CDF(%g) = %g, want %g", q.x, f, q.f)
		}
		if hasS {
			if s, ok := a.call(l, "Survival", q.class, q.x, S.Survival); ok && s != q.s {
				a.fail(sig(l, "Survival", q.class, "wrong-value"), where, "Survival(%g) = %g, want %g", q.x, s, q.s)
			}
		}
		if hasP {
			if p, ok := a.call(l, "Prob", q.class, q.x, P.Prob); ok && p != 0 {
				a.fail(sig(l, "Prob", q.class, "non-zero"), where, "Prob(%g) = %g, want 0", q.x, p)
			}
		}
		if hasLP {
			if lp, ok := a.call(l, "LogProb", q.class, q.x, LP.LogProb); ok && !math.IsInf(lp, -1) {
				a.fail(sig(l, "LogProb", q.class, "not-minus-Inf"), where, "LogProb(%g) = %g, want -Inf", q.x, lp)
			}
		}
	}
	// end points of the support: totality and normalisation only (the density
	// at a single boundary point is a convention, NaN is not).
	type ep struct {
		x     float64
		class string
		f     float64
	}
	var eps []ep
	if !math.IsInf(l.lo, 0) {
		eps = append(eps, ep{l.lo, "lower-end", 0})
	}
	if !math.IsInf(l.hi, 0) {
		eps = append(eps, ep{l.hi, "upper-end", 1})
	}
	for _, q := range eps {
		f, ok := a.call(l, "CDF", q.class, q.x, F.CDF)
		if ok {
			a.near("ends", sig(l, "CDF", q.class, "wrong-value"), fmt.Sprintf("%s x=%g", where, q.x), f, q.f, 1e-15)
		}
		if hasS {
			if s, ok2 := a.call(l, "Survival", q.class, q.x, S.Survival); ok && ok2 {
				a.near("ends", sig(l, "Survival", q.class, "CDF+Survival!=1"), fmt.Sprintf("%s x=%g", where, q.x), f+s, 1, tolComplement)
			}
		}
		if hasP {
			if p, ok := a.call(l, "Prob", q.class, q.x, P.Prob); ok && !(p >= 0) {
				a.fail(sig(l, "Prob", q.class, "negative-or-NaN"), where, "Prob(%g) = %g", q.x, p)
			}
		}
		if hasLP {
			if lp, ok := a.call(l, "LogProb", q.class, q.x, LP.LogProb); ok && math.IsNaN(lp) {
				a.fail(sig(l, "LogProb", q.class, "NaN"), where, "LogProb(%g) = NaN", q.x)
			}
		}
	}
}

// uvIntegrals integrates the density panel by panel between consecutive
// grid points (plus the two tails), compares every panel with the CDF
// difference and the accumulated moments with the closed forms.
func (m *mon) uvIntegrals(a *acc, l *law, d any, base []float64) {
	where := l.String()
	F := d.(cdfer)
	S, hasS := d.(survivaler)
	P := d.(prober)
	LP, hasLP := d.(logprober)

	// centre for the moment integrals: the grid median
	c := base[len(base)/2]
	if hasQ, ok := d.(quantiler); ok {
		if _, panicked := try(func() { c = hasQ.Quantile(0.5) }); panicked || !isFinite(c) {
			c = base[len(base)/2]
		}
	}
	const ncomp = 6
	var need [ncomp]bool
	need[0] = true
	for k := 1; k <= 4; k++ {
		need[k] = l.maxMoment > float64(k)+0.5
	}
	_, hasEntropy := d.(entropyer)
	need[5] = hasEntropy && hasLP
	nEval := 0
	integrand := func(x float64, out []float64) {
		nEval++
		var f float64
		if _, panicked := try(func() { f = P.Prob(x) }); panicked {
			f = math.NaN()
		}
		out[0] = f
		dx := x - c
		pw := dx
		for k := 1; k <= 4; k++ {
			if need[k] {
				out[k] = pw * f
				if f == 0 {
					out[k] = 0
				}
			} else {
				out[k] = 0
			}
			pw *= dx
		}
		out[5] = 0
		if need[5] && f > 0 {
			var lp float64
			if _, panicked := try(func() { lp = LP.LogProb(x) }); panicked {
				lp = math.NaN()
			}
			out[5] = -f * lp
		}
	}
	var tot [ncomp]kahan
	allOK := true
	// degraded resolution next to an unbounded density at a non-zero end
	// point: x cannot approach hi closer than one ulp.
	hiSlack := 0.0
	if l.singHi {
		hiSlack = 10 * math.Pow(0x1p-52, singExp(l))
	}

	cdfDiff := func(x0, x1 float64) float64 {
		f0, f1 := F.CDF(x0), F.CDF(x1)
		if hasS && f0 > 0.5 {
			return S.Survival(x0) - S.Survival(x1)
		}
		return f1 - f0
	}
	// lower tail
	x0 := base[0]
	var r quadResult
	if math.IsInf(l.lo, -1) {
		r = quadHalf(x0, math.Max(math.Abs(c-x0), l.scale*1e-3), -1, ncomp, integrand, quadRel)
	} else if x0 > l.lo {
		r = quadFinite(l.lo, x0, ncomp, integrand, quadRel)
	} else {
		r = quadResult{val: make([]float64, ncomp), abs: make([]float64, ncomp), ok: true}
	}
	m.uvPanel(a, l, "lower-tail", r, F.CDF(x0), where, fmt.Sprintf("(%g,%g]", l.lo, x0), 0)
	allOK = allOK && r.ok
	for k := 0; k < ncomp; k++ {
		tot[k].add(r.val[k])
	}
	// interior panels
	for i := 0; i+1 < len(base); i++ {
		xa, xb := base[i], base[i+1]
		r = quadFinite(xa, xb, ncomp, integrand, quadRel)
		var want float64
		if _, panicked := try(func() { want = cdfDiff(xa, xb) }); panicked {
			want = math.NaN()
		}
		slack := 0.0
		if l.singHi && xb > l.hi-1e-2*(l.hi-l.lo) {
			slack = hiSlack
		}
		m.uvPanel(a, l, "interior", r, want, where, fmt.Sprintf("[%g,%g]", xa, xb), slack)
		allOK = allOK && r.ok
		for k := 0; k < ncomp; k++ {
			tot[k].add(r.val[k])
		}
	}
	// upper tail
	x1 := base[len(base)-1]
	if math.IsInf(l.hi, 1) {
		r = quadHalf(x1, math.Max(math.Abs(x1-c), l.scale*1e-3), +1, ncomp, integrand, quadRel)
	} else if x1 < l.hi {
		r = quadFinite(x1, l.hi, ncomp, integrand, quadRel)
	} else {
		r = quadResult{val: make([]float64, ncomp), abs: make([]float64, ncomp), ok: true}
	}
	var upper float64
	if hasS {
		upper = S.Survival(x1)
	} else {
		upper = 1 - F.CDF(x1)
	}
	m.uvPanel(a, l, "upper-tail", r, upper, where, fmt.Sprintf("[%g,%g)", x1, l.hi), hiSlack)
	allOK = allOK && r.ok
	for k := 0; k < ncomp; k++ {
		tot[k].add(r.val[k])
	}
	a.eval("distuv."+l.typ+".Prob|quadrature-node", nEval)

	if !allOK {
		a.noverdictAt("uv.moments.quadrature-not-converged", where)
		return
	}
	M := func(k int) float64 { return tot[k].s }
	a.near("mass", sig(l, "Prob", "whole-support", "does-not-integrate-to-1"), where, M(0), 1, tolMass+hiSlack)

	// ---- moments ----
	dm := M(1)
	mean := c + dm
	vr := M(2) - dm*dm
	sd := math.Sqrt(vr)
	mu3 := M(3) - 3*dm*M(2) + 2*dm*dm*dm
	mu4 := M(4) - 4*dm*M(3) + 6*dm*dm*M(2) - 3*dm*dm*dm*dm
	lenScale := l.scale
	if need[2] && vr > 0 {
		lenScale = sd
	}
	if mm, ok := d.(meaner); ok && need[1] {
		g := mm.Mean()
		a.eval("distuv."+l.typ+".Mean|"+l.pclass, 1)
		a.near("mean", sig(l, "Mean", "moment-exists", "differs-from-integral"), where, g, mean, (tolMean+hiSlack)*(lenScale+math.Abs(mean)*1e-3))
	}
	if vv, ok := d.(variancer); ok && need[2] {
		g := vv.Variance()
		a.eval("distuv."+l.typ+".Variance|"+l.pclass, 1)
		a.near("variance", sig(l, "Variance", "moment-exists", "differs-from-integral"), where, g, vr, (tolVariance+hiSlack)*vr)
		if ss, ok := d.(stddever); ok {
			a.eval("distuv."+l.typ+".StdDev|"+l.pclass, 1)
			a.near("stddev", sig(l, "StdDev", "moment-exists", "not-sqrt-of-Variance"), where, ss.StdDev(), math.Sqrt(g), 1e-13*math.Sqrt(g))
		}
	}
	if sk, ok := d.(skewnesser); ok && need[3] {
		g := sk.Skewness()
		w := mu3 / (vr * sd)
		a.eval("distuv."+l.typ+".Skewness|"+l.pclass, 1)
		a.near("skewness", sig(l, "Skewness", "moment-exists", "differs-from-integral"), where, g, w, (tolSkew+hiSlack)*math.Max(1, math.Abs(w)))
	}
	if ek, ok := d.(exkurtosiser); ok && need[4] {
		g := ek.ExKurtosis()
		w := mu4/(vr*vr) - 3
		a.eval("distuv."+l.typ+".ExKurtosis|"+l.pclass, 1)
		a.near("exkurtosis", sig(l, "ExKurtosis", "moment-exists", "differs-from-integral"), where, g, w, (tolKurt+hiSlack)*math.Max(1, math.Abs(w)+3))
	}
	if en, ok := d.(entropyer); ok && need[5] && !l.singHi {
		g := en.Entropy()
		a.eval("distuv."+l.typ+".Entropy|"+l.pclass, 1)
		a.near("entropy", sig(l, "Entropy", "-", "differs-from-integral"), where, g, M(5), tolEntropy*math.Max(1, math.Abs(M(5))))
	}

	// ---- median ----
	if md, ok := d.(medianer); ok {
		g := md.Median()
		a.eval("distuv."+l.typ+".Median|"+l.pclass, 1)
		if f, ok := a.call(l, "CDF", "interior", g, F.CDF); ok {
			a.near("median", sig(l, "Median", "-", "CDF(Median)!=1/2"), where, f, 0.5, tolMedian)
		}
	}

	// ---- mode ----
	if mo, ok := d.(moder); ok {
		g := mo.Mode()
		a.eval("distuv."+l.typ+".Mode|"+l.pclass, 1)
		switch {
		case math.IsNaN(g):
			if !modeNaNDocumented(l) {
				a.fail(sig(l, "Mode", "-", "NaN-not-documented"), where, "Mode() = NaN")
			} else {
				a.noverdict("uv.mode.documented-NaN")
			}
		case g < l.lo || g > l.hi:
			a.fail(sig(l, "Mode", "-", "outside-support"), where, "Mode() = %g outside [%g,%g]", g, l.lo, l.hi)
		default:
			pm, ok := a.call(l, "Prob", "at-mode", g, P.Prob)
			if ok {
				if math.IsNaN(pm) {
					a.fail(sig(l, "Prob", "at-mode", "NaN"), where, "Prob(Mode()=%g) = NaN", g)
				} else {
					pts := append([]float64(nil), base...)
					for _, st := range []float64{1e-7, 1e-4, 1e-2, 0.3} {
						pts = append(pts, g-st*lenScale, g+st*lenScale)
					}
					for _, x := range pts {
						if x <= l.lo || x >= l.hi {
							continue
						}
						px := P.Prob(x)
						if px > pm*(1+1e-12) {
							a.fail(sig(l, "Mode", "-", "density-higher-elsewhere"), where, "Prob(Mode()=%g)=%g < Prob(%g)=%g", g, pm, x, px)
							break
						}
					}
				}
			}
		}
	}
	if np, ok := d.(numparamser); ok && l.theta != nil {
		if np.NumParameters() != len(l.theta) {
			a.fail(sig(l, "NumParameters", "-", "wrong-count"), where, "NumParameters() = %d, want %d", np.NumParameters(), len(l.theta))
		}
	}
}

// singExp is the exponent e of the density singularity (hi-x)^(e-1) at the
// upper end (Beta only).
func singExp(l *law) float64 {
	if l.typ == "Beta" {
		var al, be float64
		fmt.Sscanf(l.label, "Alpha=%g Beta=%g", &al, &be)
		return be
	}
	return 1
}

func (m *mon) uvPanel(a *acc, l *law, class string, r quadResult, want float64, where, panel string, slack float64) {
	if r.bad {
		a.fail(sig(l, "Prob", class, "NaN-inside-support"), where, "Prob returned NaN at a quadrature node in %s", panel)
		return
	}
	if !r.ok {
		a.noverdictAt("uv.panel.quadrature-not-converged", where+" "+panel+fmt.Sprintf(" n=%d val=%v abs=%v", r.n, r.val, r.abs))
		return
	}
	a.near("panel", sig(l, "Prob", class, "integral!=CDF-difference"), where+" panel "+panel, r.val[0], want, (tolPanel+slack)*math.Abs(want)+tolPanelAbs+slack*1e-3)
}

// modeNaNDocumented reports the settings for which the Mode doc comment
// announces NaN.
func modeNaNDocumented(l *law) bool {
	switch l.typ {
	case "Beta": // "Mode returns NaN if both parameters are less than or equal to 1"
		var al, be float64
		fmt.Sscanf(l.label, "Alpha=%g Beta=%g", &al, &be)
		return al <= 1 && be <= 1
	case "Chi": // "Mode returns NaN if K is less than one"
		var k float64
		fmt.Sscanf(l.label, "K=%g", &k)
		return k < 1
	case "F": // "Mode returns NaN if the D1 parameter is less than or equal to 2"
		var d1, d2 float64
		fmt.Sscanf(l.label, "D1=%g D2=%g", &d1, &d2)
		return d1 <= 2
	}
	return false
}
