package main

import (
	"fmt"
	"math"

	"gonum.org/v1/gonum/stat/distuv"
	"gonum.org/v1/gonum/verifx/vrt"
)

// tolStatDist: closed-form distances against quadrature of their defining
// integrals, relative to max(1, |value|) (the KL forms, which go through
// Digamma with its ~1e-10 absolute accuracy, get 100 times this).
const tolStatDist = 1e-8

// runUVStatDist checks distuv's Bhattacharyya / Hellinger / KullbackLeibler
// closed forms for Beta and Normal pairs against the defining integrals
// BC = int sqrt(p q), H = sqrt(1-BC), KL = int p log(p/q), computed by the
// harness's quadrature from the Prob / LogProb methods.
func (m *mon) runUVStatDist() {
	type pair struct{ l, r []float64 }
	var betas, normals []pair
	bshape := []float64{1, 1.5, 2, 5, 17}
	if m.c.Thorough() {
		bshape = []float64{1, 1.1, 1.5, 2, 3, 5, 9, 17, 50}
	}
	for _, a1 := range bshape {
		for _, b1 := range bshape {
			for _, a2 := range bshape {
				for _, b2 := range bshape {
					if a1 == a2 && b1 == b2 {
						continue
					}
					betas = append(betas, pair{[]float64{a1, b1}, []float64{a2, b2}})
				}
			}
		}
	}
	if !m.c.Thorough() {
		// thin out deterministically (seed-rotated)
		var t []pair
		for i, p := range betas {
			if (i+int(m.c.Seed))%9 == 0 {
				t = append(t, p)
			}
		}
		betas = t
	}
	mus := []float64{-3, 0, 2.5}
	sgs := []float64{0.3, 1, 7}
	if m.c.Thorough() {
		mus = []float64{-30, -3, 0, 0.1, 2.5}
		sgs = []float64{1e-2, 0.3, 1, 2, 7, 1e2}
	}
	for _, m1 := range mus {
		for _, s1 := range sgs {
			for _, m2 := range mus {
				for _, s2 := range sgs {
					// keep the overlap numerically visible: the integrals of
					// sqrt(pq) below 1e-280 underflow in the quadrature
					z := math.Abs(m1-m2) / math.Sqrt(s1*s1+s2*s2)
					if z > 30 || math.Max(s1, s2)/math.Min(s1, s2) > 1e3 {
						continue
					}
					normals = append(normals, pair{[]float64{m1, s1}, []float64{m2, s2}})
				}
			}
		}
	}
	vrt.Parallel(len(betas), func(i int) {
		p := betas[i]
		a := m.newAcc()
		defer a.flush()
		l := distuv.Beta{Alpha: p.l[0], Beta: p.l[1]}
		r := distuv.Beta{Alpha: p.r[0], Beta: p.r[1]}
		where := fmt.Sprintf("Beta{%g,%g} vs Beta{%g,%g}", p.l[0], p.l[1], p.r[0], p.r[1])
		m.c.LastCase("uvdist " + where)
		f := func(x float64, out []float64) {
			lp, lq := l.LogProb(x), r.LogProb(x)
			out[0] = math.Exp(0.5 * (lp + lq))
			out[1] = 0
			if pp := math.Exp(lp); pp > 0 {
				out[1] = pp * (lp - lq)
			}
		}
		// split at the two modes/means to help the rule
		cuts := []float64{0, l.Mean(), r.Mean(), 1}
		if cuts[1] > cuts[2] {
			cuts[1], cuts[2] = cuts[2], cuts[1]
		}
		var bc, kl float64
		ok := true
		for k := 0; k+1 < len(cuts); k++ {
			if cuts[k+1] <= cuts[k] {
				continue
			}
			q := quadFinite(cuts[k], cuts[k+1], 2, f, quadRel)
			ok = ok && q.ok
			bc += q.val[0]
			kl += q.val[1]
		}
		if !ok {
			a.noverdictAt("uvdist.quadrature-not-converged", where)
			return
		}
		m.statDistCompare(a, "Beta", where, bc, kl,
			distuv.Bhattacharyya{}.DistBeta(l, r), distuv.Hellinger{}.DistBeta(l, r), distuv.KullbackLeibler{}.DistBeta(l, r))
	})
	vrt.Parallel(len(normals), func(i int) {
		p := normals[i]
		a := m.newAcc()
		defer a.flush()
		l := distuv.Normal{Mu: p.l[0], Sigma: p.l[1]}
		r := distuv.Normal{Mu: p.r[0], Sigma: p.r[1]}
		where := fmt.Sprintf("Normal{%g,%g} vs Normal{%g,%g}", p.l[0], p.l[1], p.r[0], p.r[1])
		m.c.LastCase("uvdist " + where)
		f := func(x float64, out []float64) {
			lp, lq := l.LogProb(x), r.LogProb(x)
			out[0] = math.Exp(0.5 * (lp + lq))
			out[1] = 0
			if pp := math.Exp(lp); pp > 0 {
				out[1] = pp * (lp - lq)
			}
		}
		// the product sqrt(pq) is a Gaussian centred at the precision-weighted mean
		w1, w2 := 1/(l.Sigma*l.Sigma), 1/(r.Sigma*r.Sigma)
		c := (l.Mu*w1 + r.Mu*w2) / (w1 + w2)
		s := math.Sqrt(2 / (w1 + w2))
		q1 := quadHalf(c, s, -1, 2, f, quadRel)
		q2 := quadHalf(c, s, +1, 2, f, quadRel)
		bc := q1.val[0] + q2.val[0]
		// KL integrand is centred at l.Mu with width l.Sigma
		g := func(x float64, out []float64) { f(x, out); out[0] = 0 }
		k1 := quadHalf(l.Mu, l.Sigma, -1, 2, g, quadRel)
		k2 := quadHalf(l.Mu, l.Sigma, +1, 2, g, quadRel)
		kl := k1.val[1] + k2.val[1]
		if !(q1.ok && q2.ok && k1.ok && k2.ok) {
			a.noverdictAt("uvdist.quadrature-not-converged", where)
			return
		}
		m.statDistCompare(a, "Normal", where, bc, kl,
			distuv.Bhattacharyya{}.DistNormal(l, r), distuv.Hellinger{}.DistNormal(l, r), distuv.KullbackLeibler{}.DistNormal(l, r))
	})
}

func (m *mon) statDistCompare(a *acc, typ, where string, bc, kl, gotB, gotH, gotKL float64) {
	a.eval("distuv.Bhattacharyya.Dist"+typ, 1)
	a.eval("distuv.Hellinger.Dist"+typ, 1)
	a.eval("distuv.KullbackLeibler.Dist"+typ, 1)
	if !(bc > 1e-250) {
		a.noverdict("uvdist.overlap-underflows")
		return
	}
	wantB := -math.Log(bc)
	// the relative error of the quadrature of BC becomes an absolute error of -log(BC)
	a.near("statdist.bhattacharyya", "distuv.Bhattacharyya.Dist"+typ+"|-|differs-from-integral", where, gotB, wantB, tolStatDist*math.Max(1, math.Abs(wantB)))
	// H^2 = 1 - BC is compared (the square root would amplify the quadrature
	// error of BC without bound as BC -> 1)
	a.near("statdist.hellinger", "distuv.Hellinger.Dist"+typ+"|-|H^2-differs-from-1-BC", where, gotH*gotH, 1-bc, 1e-9)
	a.near("statdist.kl", "distuv.KullbackLeibler.Dist"+typ+"|-|differs-from-integral", where, gotKL, kl, 100*tolStatDist*math.Max(1, math.Abs(kl)))
}
