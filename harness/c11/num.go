package main

import "math"

// The harness's own numerics: double-exponential quadrature (tanh-sinh on
// finite panels, exp-sinh on half lines), Richardson-extrapolated central
// differences and bisection. None of it calls gonum.

const (
	deTmaxFinite = 5.6 // q = exp(-pi*sinh(5.6)) ~ 1e-184 at the last node (x^-0.9 singularities need q^0.1 < 1e-17)
	deTmaxHalf   = 5.8 // x - a ranges over s*[1e-112, 1e112] (tails like x^-1.1 need this reach)
	deMinLevel   = 2
	deMaxLevel   = 8
)

// quadResult is the outcome of a vector-valued quadrature.
type quadResult struct {
	val []float64 // integrals of the components
	abs []float64 // integrals of the absolute values of the components (scale of each)
	ok  bool      // successive levels agreed to relTol*abs in every component
	n   int       // integrand evaluations
	bad bool      // the integrand returned NaN at an interior node
}

// quadFinite integrates the k-vector function f over the finite interval
// [a,b] by tanh-sinh quadrature. Endpoint singularities (integrable) are
// handled by the rule; nodes are never placed on the endpoints themselves
// when the endpoint is 0 (x = a + (b-a)*q with q > 0 exactly representable).
// A node that rounds onto an endpoint and yields a non-finite value is
// skipped (its weight is below 1e-60 of the interval length).
func quadFinite(a, b float64, k int, f func(x float64, out []float64), relTol float64) quadResult {
	sum := make([]float64, k)
	asum := make([]float64, k)
	out := make([]float64, k)
	prev := make([]float64, k)
	res := quadResult{val: make([]float64, k), abs: make([]float64, k)}
	w := b - a
	eval := func(t float64) {
		u := 0.5 * math.Pi * math.Sinh(t)
		var q, omq float64 // q = 1/(1+exp(-2u)), omq = 1-q
		if u < 0 {
			e := math.Exp(2 * u)
			q = e / (1 + e)
			omq = 1 / (1 + e)
		} else {
			e := math.Exp(-2 * u)
			q = 1 / (1 + e)
			omq = e / (1 + e)
		}
		var x float64
		if q < 0.5 {
			x = a + w*q
		} else {
			x = b - w*omq
		}
		wt := w * 2 * q * omq * 0.5 * math.Pi * math.Cosh(t)
		if wt == 0 {
			return
		}
		f(x, out)
		res.n++
		for i := 0; i < k; i++ {
			v := out[i]
			if math.IsNaN(v) || math.IsInf(v, 0) {
				if x == a || x == b {
					continue
				}
				res.bad = true
				continue
			}
			sum[i] += wt * v
			asum[i] += wt * math.Abs(v)
		}
	}
	for level := 0; level <= deMaxLevel; level++ {
		h := math.Ldexp(1, -level)
		J := int(deTmaxFinite / h)
		if level == 0 {
			for j := -J; j <= J; j++ {
				eval(float64(j) * h)
			}
		} else {
			for j := -J; j <= J; j++ {
				if j&1 == 0 {
					continue
				}
				eval(float64(j) * h)
			}
		}
		conv := level >= deMinLevel
		for i := 0; i < k; i++ {
			cur := h * sum[i]
			res.abs[i] = h * asum[i]
			if level >= deMinLevel {
				if !(math.Abs(cur-prev[i]) <= relTol*res.abs[i]) {
					conv = false
				}
			}
			prev[i] = cur
			res.val[i] = cur
		}
		if conv {
			res.ok = true
			break
		}
	}
	if res.bad {
		res.ok = false
	}
	return res
}

// quadHalf integrates f over [a, +inf) (dir = +1) or (-inf, a] (dir = -1)
// by exp-sinh quadrature with length scale s > 0.
func quadHalf(a, s float64, dir int, k int, f func(x float64, out []float64), relTol float64) quadResult {
	sum := make([]float64, k)
	asum := make([]float64, k)
	out := make([]float64, k)
	prev := make([]float64, k)
	res := quadResult{val: make([]float64, k), abs: make([]float64, k)}
	d := float64(dir)
	eval := func(t float64) {
		u := 0.5 * math.Pi * math.Sinh(t)
		e := math.Exp(u)
		x := a + d*s*e
		wt := s * e * 0.5 * math.Pi * math.Cosh(t)
		if wt == 0 || math.IsInf(x, 0) || math.IsInf(wt, 0) {
			return
		}
		f(x, out)
		res.n++
		for i := 0; i < k; i++ {
			v := out[i]
			if v == 0 {
				continue
			}
			if math.IsNaN(v) || math.IsInf(v, 0) {
				if x == a {
					continue
				}
				res.bad = true
				continue
			}
			sum[i] += wt * v
			asum[i] += wt * math.Abs(v)
		}
	}
	for level := 0; level <= deMaxLevel; level++ {
		h := math.Ldexp(1, -level)
		J := int(deTmaxHalf / h)
		for j := -J; j <= J; j++ {
			if level > 0 && j&1 == 0 {
				continue
			}
			eval(float64(j) * h)
		}
		conv := level >= deMinLevel
		for i := 0; i < k; i++ {
			cur := h * sum[i]
			res.abs[i] = h * asum[i]
			if level >= deMinLevel {
				if !(math.Abs(cur-prev[i]) <= relTol*res.abs[i]) {
					conv = false
				}
			}
			prev[i] = cur
			res.val[i] = cur
		}
		if conv {
			res.ok = true
			break
		}
	}
	if res.bad {
		res.ok = false
	}
	return res
}

// richardson returns the derivative of f at x from central differences with
// steps h, h/2, h/4 extrapolated twice (error O(h^6)), and an error estimate
// (difference of the last two extrapolants).
func richardson(f func(float64) float64, x, h float64) (d, errEst float64) {
	cd := func(h float64) float64 { return (f(x+h) - f(x-h)) / (2 * h) }
	d0, d1, d2 := cd(h), cd(h/2), cd(h/4)
	e0 := (4*d1 - d0) / 3
	e1 := (4*d2 - d1) / 3
	g := (16*e1 - e0) / 15
	return g, math.Abs(g - e1)
}

// bisect returns x in [lo,hi] with g(x) crossing zero, g non-decreasing,
// g(lo) <= 0 <= g(hi); 200 halvings or until the interval is one ulp.
func bisect(g func(float64) float64, lo, hi float64) float64 {
	for i := 0; i < 200; i++ {
		mid := lo + (hi-lo)/2
		if mid == lo || mid == hi {
			break
		}
		if g(mid) < 0 {
			lo = mid
		} else {
			hi = mid
		}
	}
	return lo + (hi-lo)/2
}

// lgamma is math.Lgamma without the sign.
func lgamma(x float64) float64 { v, _ := math.Lgamma(x); return v }

// kahan is a compensated accumulator.
type kahan struct{ s, c float64 }

func (k *kahan) add(x float64) {
	y := x - k.c
	t := k.s + y
	k.c = (t - k.s) - y
	k.s = t
}
