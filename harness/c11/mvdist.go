package main

import (
	"fmt"
	"math"

	"gonum.org/v1/gonum/spatial/r1"
	"gonum.org/v1/gonum/stat/distmv"
	"gonum.org/v1/gonum/stat/distuv"
)

// tolMVDist: distmv distance measures against closed forms evaluated by the
// harness (and, in one dimension, against quadrature of the defining
// integrals), relative to max(1,|value|).
const tolMVDist = 1e-8

// normal1D returns BC, KL and the Renyi integral int p^al q^(1-al) of two
// univariate normals by quadrature.
func normal1D(m1, s1, m2, s2, al float64) (bc, kl, ren float64, ok bool) {
	lp := func(x, m, s float64) float64 { return -0.5*math.Log(2*math.Pi) - math.Log(s) - (x-m)*(x-m)/(2*s*s) }
	f := func(x float64, out []float64) {
		a, b := lp(x, m1, s1), lp(x, m2, s2)
		out[0] = math.Exp(0.5 * (a + b))
		out[1] = 0
		if p := math.Exp(a); p > 0 {
			out[1] = p * (a - b)
		}
		out[2] = math.Exp(al*a + (1-al)*b)
	}
	// centre between the two modes, scale the wider one
	c := (m1*s2*s2 + m2*s1*s1) / (s1*s1 + s2*s2)
	s := math.Max(s1, s2)
	q1 := quadHalf(c, s, -1, 3, f, 1e-12)
	q2 := quadHalf(c, s, +1, 3, f, 1e-12)
	return q1.val[0] + q2.val[0], q1.val[1] + q2.val[1], q1.val[2] + q2.val[2], q1.ok && q2.ok
}

func (m *mon) mvDistances(a *acc, idx int) {
	r := m.c.RNG("mv.dist", idx)
	dim := r.Range(1, 4)
	// diagonal pair, rotated by a common orthogonal matrix: every divergence
	// below is invariant, and for the diagonal pair it is a sum (BC: product)
	// over coordinates of one-dimensional integrals.
	mu1, mu2 := make([]float64, dim), make([]float64, dim)
	sd1, sd2 := make([]float64, dim), make([]float64, dim)
	for i := 0; i < dim; i++ {
		mu1[i], mu2[i] = r.Uniform(-2, 2), r.Uniform(-2, 2)
		sd1[i], sd2[i] = math.Exp(r.Uniform(-1, 1)), math.Exp(r.Uniform(-1, 1))
	}
	alpha := []float64{0.3, 0.5, 0.9, 1.2, 0, 1}[idx%6]
	var db, kl, ren, w2 float64
	okAll := true
	renOK := true
	for i := 0; i < dim; i++ {
		al := alpha
		if al == 0 || al == 1 {
			al = 0.5
		}
		// sigma_alpha = (1-al) s1^2 + al s2^2 must be positive for the Renyi integral to exist
		if (1-al)*sd1[i]*sd1[i]+al*sd2[i]*sd2[i] <= 0.05 {
			renOK = false
			al = 0.5
		}
		bc, k, rn, ok := normal1D(mu1[i], sd1[i], mu2[i], sd2[i], al)
		okAll = okAll && ok
		db += -math.Log(bc)
		kl += k
		if rn > 0 {
			ren += math.Log(rn) / (al - 1)
		} else {
			renOK = false
		}
		w2 += (mu1[i]-mu2[i])*(mu1[i]-mu2[i]) + (sd1[i]-sd2[i])*(sd1[i]-sd2[i])
	}
	q := randOrth(r, dim)
	if idx%5 == 0 {
		q = newMatrix(dim, dim)
		for i := range q {
			q[i][i] = 1
		}
	}
	mk := func(mu, sd []float64) (*distmv.Normal, matrix, []float64) {
		d := newMatrix(dim, dim)
		for i := range d {
			d[i][i] = sd[i] * sd[i]
		}
		s := q.mul(d).mul(q.t())
		for i := 0; i < dim; i++ {
			for j := 0; j < i; j++ {
				s[i][j] = s[j][i]
			}
		}
		mm := q.mulVec(mu)
		n, _ := distmv.NewNormal(mm, s.sym(), nil)
		return n, s, mm
	}
	l, _, _ := mk(mu1, sd1)
	rr, _, _ := mk(mu2, sd2)
	where := fmt.Sprintf("distmv distances case %d dim=%d mu1=%v sd1=%v mu2=%v sd2=%v", idx, dim, mu1, sd1, mu2, sd2)
	m.c.LastCase(where)
	if !okAll || l == nil || rr == nil {
		a.noverdict("mvdist.quadrature-not-converged")
	} else {
		gB := distmv.Bhattacharyya{}.DistNormal(l, rr)
		gH := distmv.Hellinger{}.DistNormal(l, rr)
		gK := distmv.KullbackLeibler{}.DistNormal(l, rr)
		gC := distmv.CrossEntropy{}.DistNormal(l, rr)
		gW := distmv.Wasserstein{}.DistNormal(l, rr)
		a.eval("distmv.Bhattacharyya.DistNormal|-", 1)
		a.eval("distmv.Hellinger.DistNormal|-", 1)
		a.eval("distmv.KullbackLeibler.DistNormal|-", 1)
		a.eval("distmv.CrossEntropy.DistNormal|-", 1)
		a.eval("distmv.Wasserstein.DistNormal|-", 1)
		a.near("mvdist.bhattacharyya", "distmv.Bhattacharyya.DistNormal|-|differs-from-integral", where, gB, db, tolMVDist*math.Max(1, db))
		a.near("mvdist.hellinger", "distmv.Hellinger.DistNormal|-|H^2!=1-exp(-DB)", where, gH*gH, -math.Expm1(-db), 1e-9)
		a.near("mvdist.kl", "distmv.KullbackLeibler.DistNormal|-|differs-from-integral", where, gK, kl, tolMVDist*math.Max(1, kl))
		a.near("mvdist.crossentropy", "distmv.CrossEntropy.DistNormal|-|!=KL+entropy", where, gC, kl+l.Entropy(), tolMVDist*math.Max(1, math.Abs(kl+l.Entropy())))
		// The doc comment states the closed form of d^2 ("d^2 = ||m_l - m_r||_2^2 + Tr(...)");
		// the value returned is that d^2.
		a.near("mvdist.wasserstein", "distmv.Wasserstein.DistNormal|-|differs-from-documented-d^2", where, gW, w2, 1e-7*math.Max(1, w2))
		rn := distmv.Renyi{Alpha: alpha}
		gR := rn.DistNormal(l, rr)
		a.eval("distmv.Renyi.DistNormal|-", 1)
		switch {
		case alpha == 0:
			a.near("mvdist.renyi", "distmv.Renyi.DistNormal|alpha=0|not-0", where, gR, 0, 0)
		case alpha == 1:
			a.near("mvdist.renyi", "distmv.Renyi.DistNormal|alpha=1|!=KL", where, gR, kl, tolMVDist*math.Max(1, kl))
		case renOK:
			a.near("mvdist.renyi", "distmv.Renyi.DistNormal|alpha-generic|differs-from-integral", where, gR, ren, tolMVDist*math.Max(1, math.Abs(ren))*10)
			if alpha == 0.5 {
				// D_1/2 = -2 log BC = 2 D_B
				a.near("mvdist.renyi", "distmv.Renyi.DistNormal|alpha=1/2|!=2*Bhattacharyya", where, gR, 2*db, tolMVDist*math.Max(1, db)*10)
			}
		}
		// dim 1 must agree with distuv
		if dim == 1 {
			ul := distuv.Normal{Mu: mu1[0] * q[0][0], Sigma: sd1[0]}
			ur := distuv.Normal{Mu: mu2[0] * q[0][0], Sigma: sd2[0]}
			a.near("mvdist.uv", "distmv.Bhattacharyya.DistNormal|dim=1|!=distuv", where, gB, distuv.Bhattacharyya{}.DistNormal(ul, ur), 1e-10*math.Max(1, gB))
			a.near("mvdist.uv", "distmv.KullbackLeibler.DistNormal|dim=1|!=distuv", where, gK, distuv.KullbackLeibler{}.DistNormal(ul, ur), 1e-10*math.Max(1, gK))
		}
	}

	// ---- uniform boxes ----
	ud := r.Range(1, 4)
	bl, br := make([]r1.Interval, ud), make([]r1.Interval, ud)
	kind := []string{"contained", "overlap", "disjoint", "identical"}[idx%4]
	volL, volR, volO := 1.0, 1.0, 1.0
	contained := true
	for i := 0; i < ud; i++ {
		lo := r.Uniform(-5, 5)
		w := r.Uniform(0.5, 3)
		bl[i] = r1.Interval{Min: lo, Max: lo + w}
		switch kind {
		case "contained":
			br[i] = r1.Interval{Min: lo - r.Uniform(0, 1), Max: lo + w + r.Uniform(0, 1)}
		case "overlap":
			br[i] = r1.Interval{Min: lo + w*r.Uniform(0.1, 0.9), Max: lo + w + r.Uniform(0.1, 2)}
		case "disjoint":
			br[i] = r1.Interval{Min: lo + w + 0.5, Max: lo + w + 2}
			if i > 0 {
				br[i] = r1.Interval{Min: lo - 1, Max: lo + w + 1}
			}
		case "identical":
			br[i] = bl[i]
		}
		volL *= bl[i].Max - bl[i].Min
		volR *= br[i].Max - br[i].Min
		o := math.Min(bl[i].Max, br[i].Max) - math.Max(bl[i].Min, br[i].Min)
		if o < 0 {
			o = 0
		}
		volO *= o
		if bl[i].Min < br[i].Min || bl[i].Max > br[i].Max {
			contained = false
		}
	}
	ul, ur := distmv.NewUniform(bl, nil), distmv.NewUniform(br, nil)
	whereU := fmt.Sprintf("distmv uniform distances case %d %s l=%v r=%v", idx, kind, bl, br)
	gB := distmv.Bhattacharyya{}.DistUniform(ul, ur)
	gK := distmv.KullbackLeibler{}.DistUniform(ul, ur)
	a.eval("distmv.Bhattacharyya.DistUniform|"+kind, 1)
	a.eval("distmv.KullbackLeibler.DistUniform|"+kind, 1)
	wantB := math.Inf(1)
	if volO > 0 {
		wantB = -math.Log(volO / math.Sqrt(volL*volR))
	}
	a.near("mvdist.uniform", "distmv.Bhattacharyya.DistUniform|"+kind+"|differs-from-overlap-formula", whereU, gB, wantB, 1e-12*math.Max(1, math.Abs(wantB)))
	wantK := math.Inf(1)
	if contained {
		wantK = math.Log(volR / volL)
	}
	a.near("mvdist.uniform", "distmv.KullbackLeibler.DistUniform|"+kind+"|differs-from-volume-formula", whereU, gK, wantK, 1e-12*math.Max(1, math.Abs(wantK)))

	// ---- Dirichlet KL ----
	dd := r.Range(2, 4)
	al, ar := make([]float64, dd), make([]float64, dd)
	var l0, r0 float64
	for i := range al {
		al[i] = r.PickFloat(0.3, 0.9, 1, 2, 5, 17)
		ar[i] = r.PickFloat(0.3, 0.9, 1, 2, 5, 17)
		l0 += al[i]
		r0 += ar[i]
	}
	whereD := fmt.Sprintf("distmv.KullbackLeibler.DistDirichlet case %d l=%v r=%v", idx, al, ar)
	gD := distmv.KullbackLeibler{}.DistDirichlet(distmv.NewDirichlet(al, nil), distmv.NewDirichlet(ar, nil))
	a.eval("distmv.KullbackLeibler.DistDirichlet|-", 1)
	want := lgamma(l0) - lgamma(r0)
	for i := range al {
		want += -lgamma(al[i]) + lgamma(ar[i]) + (al[i]-ar[i])*(refDigamma(al[i])-refDigamma(l0))
	}
	a.near("mvdist.dirichlet", "distmv.KullbackLeibler.DistDirichlet|-|differs-from-formula", whereD, gD, want, 1e-6*math.Max(1, math.Abs(want)))
	if dd == 2 {
		// two-dimensional Dirichlet = Beta: the distuv closed form is itself
		// checked against quadrature in the uvdist sub-monitor
		ub := distuv.KullbackLeibler{}.DistBeta(distuv.Beta{Alpha: al[0], Beta: al[1]}, distuv.Beta{Alpha: ar[0], Beta: ar[1]})
		a.near("mvdist.dirichlet", "distmv.KullbackLeibler.DistDirichlet|dim=2|!=distuv.DistBeta", whereD, gD, ub, 1e-10*math.Max(1, math.Abs(ub)))
	}
}
