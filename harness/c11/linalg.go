package main

import (
	"math"

	"gonum.org/v1/gonum/mat"
	"gonum.org/v1/gonum/verifx/vrt"
)

// Small dense linear algebra for the distmv / distmat oracles (dimensions
// up to 6; plain loops, no gonum).

type matrix [][]float64

func newMatrix(r, c int) matrix {
	m := make(matrix, r)
	for i := range m {
		m[i] = make([]float64, c)
	}
	return m
}

func (m matrix) clone() matrix {
	o := newMatrix(len(m), len(m[0]))
	for i := range m {
		copy(o[i], m[i])
	}
	return o
}

func (m matrix) mul(b matrix) matrix {
	o := newMatrix(len(m), len(b[0]))
	for i := range m {
		for j := range b[0] {
			var s float64
			for k := range b {
				s += m[i][k] * b[k][j]
			}
			o[i][j] = s
		}
	}
	return o
}

func (m matrix) t() matrix {
	o := newMatrix(len(m[0]), len(m))
	for i := range m {
		for j := range m[i] {
			o[j][i] = m[i][j]
		}
	}
	return o
}

func (m matrix) mulVec(v []float64) []float64 {
	o := make([]float64, len(m))
	for i := range m {
		for j := range v {
			o[i] += m[i][j] * v[j]
		}
	}
	return o
}

func (m matrix) sub(idxR, idxC []int) matrix {
	o := newMatrix(len(idxR), len(idxC))
	for i, r := range idxR {
		for j, c := range idxC {
			o[i][j] = m[r][c]
		}
	}
	return o
}

func (m matrix) maxAbs() float64 {
	var v float64
	for i := range m {
		for j := range m[i] {
			v = math.Max(v, math.Abs(m[i][j]))
		}
	}
	return v
}

func (m matrix) sym() *mat.SymDense {
	n := len(m)
	s := mat.NewSymDense(n, nil)
	for i := 0; i < n; i++ {
		for j := i; j < n; j++ {
			s.SetSym(i, j, m[i][j])
		}
	}
	return s
}

func fromSym(s mat.Symmetric) matrix {
	n := s.SymmetricDim()
	m := newMatrix(n, n)
	for i := 0; i < n; i++ {
		for j := 0; j < n; j++ {
			m[i][j] = s.At(i, j)
		}
	}
	return m
}

// chol returns the lower Cholesky factor of an SPD matrix (ok=false if a
// pivot is not positive).
func chol(a matrix) (l matrix, ok bool) {
	n := len(a)
	l = newMatrix(n, n)
	for j := 0; j < n; j++ {
		d := a[j][j]
		for k := 0; k < j; k++ {
			d -= l[j][k] * l[j][k]
		}
		if !(d > 0) {
			return nil, false
		}
		l[j][j] = math.Sqrt(d)
		for i := j + 1; i < n; i++ {
			s := a[i][j]
			for k := 0; k < j; k++ {
				s -= l[i][k] * l[j][k]
			}
			l[i][j] = s / l[j][j]
		}
	}
	return l, true
}

// cholSolve solves A x = b given the lower factor.
func cholSolve(l matrix, b []float64) []float64 {
	n := len(l)
	y := make([]float64, n)
	for i := 0; i < n; i++ {
		s := b[i]
		for k := 0; k < i; k++ {
			s -= l[i][k] * y[k]
		}
		y[i] = s / l[i][i]
	}
	x := make([]float64, n)
	for i := n - 1; i >= 0; i-- {
		s := y[i]
		for k := i + 1; k < n; k++ {
			s -= l[k][i] * x[k]
		}
		x[i] = s / l[i][i]
	}
	return x
}

func cholLogDet(l matrix) float64 {
	var s float64
	for i := range l {
		s += 2 * math.Log(l[i][i])
	}
	return s
}

// spdInverse returns the inverse of an SPD matrix.
func spdInverse(a matrix) matrix {
	n := len(a)
	l, _ := chol(a)
	inv := newMatrix(n, n)
	for j := 0; j < n; j++ {
		e := make([]float64, n)
		e[j] = 1
		col := cholSolve(l, e)
		for i := 0; i < n; i++ {
			inv[i][j] = col[i]
		}
	}
	return inv
}

func quadForm(l matrix, d []float64) float64 {
	x := cholSolve(l, d)
	var s float64
	for i := range d {
		s += d[i] * x[i]
	}
	return s
}

// randOrth returns a random orthogonal matrix (Gram-Schmidt on Gaussian columns).
func randOrth(r *vrt.Rand, n int) matrix {
	q := newMatrix(n, n)
	for j := 0; j < n; j++ {
		v := make([]float64, n)
		for {
			for i := range v {
				v[i] = r.Norm()
			}
			for k := 0; k < j; k++ {
				var d float64
				for i := range v {
					d += v[i] * q[i][k]
				}
				for i := range v {
					v[i] -= d * q[i][k]
				}
			}
			var nrm float64
			for i := range v {
				nrm += v[i] * v[i]
			}
			nrm = math.Sqrt(nrm)
			if nrm > 1e-3 {
				for i := range v {
					q[i][j] = v[i] / nrm
				}
				break
			}
		}
	}
	return q
}

// randSPD returns Q diag(ev) Q^T with eigenvalues log-uniform in [lo,hi].
func randSPD(r *vrt.Rand, n int, lo, hi float64) matrix {
	q := randOrth(r, n)
	d := newMatrix(n, n)
	for i := 0; i < n; i++ {
		d[i][i] = math.Exp(r.Uniform(math.Log(lo), math.Log(hi)))
	}
	s := q.mul(d).mul(q.t())
	for i := 0; i < n; i++ { // exact symmetry
		for j := 0; j < i; j++ {
			s[i][j] = s[j][i]
		}
	}
	return s
}

func dot(a, b []float64) float64 {
	var s float64
	for i := range a {
		s += a[i] * b[i]
	}
	return s
}
