package main

import (
	"fmt"
	"math"
	"sort"

	"gonum.org/v1/gonum/mat"
	"gonum.org/v1/gonum/spatial/r1"
	"gonum.org/v1/gonum/stat/distmat"
	"gonum.org/v1/gonum/stat/distmv"
	"gonum.org/v1/gonum/stat/distuv"
	"gonum.org/v1/gonum/stat/samplemv"
	"gonum.org/v1/gonum/stat/sampleuv"
	"gonum.org/v1/gonum/verifx/vrt"
)

// The nil-source pass: every type with a Src field / src argument documents
// (or implements) "nil means the package-global generator". That branch is a
// separate piece of code in every Rand. It cannot be seeded, so nothing here
// is replayable and nothing is compared with a replay model: the verdicts are
// exact support / structure checks, DKW bands (false-alarm bound 1e-12 each,
// whatever the generator state) and one Azuma-Hoeffding band.

func (m *mon) runNilSrc() {
	m.nilSrc = true
	defer func() { m.nilSrc = false }()
	m.runStable()
	m.uvRandLaws()
	nr := m.c.Pick(7, 14)
	vrt.Parallel(nr, func(i int) {
		a := m.newAcc()
		defer a.flush()
		m.mvRand(a, i)
		m.wishartRand(a, i)
		m.unitVector(a, i)
		m.suvLatin(a, i)
		m.smvLatin(a, i)
		m.smvHalton(a, 4*i) // zeroed batches
	})
	a := m.newAcc()
	defer a.flush()
	m.nilSamplersUV(a)
	m.nilSamplersMV(a)
	m.nilMH(a)
	// UniformPermutation documents a source as required ("using the given
	// random source"); NewUniformPermutation(nil) is not in its domain.
	a.noverdict("nilsrc.UniformPermutation-requires-a-source")
}

func discreteD(counts []int, probs []float64) float64 {
	var tot float64
	n := 0
	for i := range counts {
		tot += probs[i]
		n += counts[i]
	}
	D, cum, cp := 0.0, 0, 0.0
	for i := range counts {
		cum += counts[i]
		cp += probs[i]
		D = math.Max(D, math.Abs(float64(cum)/float64(n)-cp/tot))
	}
	return D
}

func (m *mon) nilSamplersUV(a *acc) {
	N := m.nDraws()
	eps := dkwEps(N)
	// Weighted: unnormalised weights
	w := []float64{1, 2, 3, 4, 0, 7, 0.5, 2.5}
	s := sampleuv.NewWeighted(w, nil)
	counts := make([]int, len(w))
	for t := 0; t < N; t++ {
		s.ReweightAll(w)
		i, ok := s.Take()
		if !ok || i < 0 || i >= len(w) || w[i] == 0 {
			a.fail("sampleuv.Weighted.Take|first-take|not-a-positive-item", "NewWeighted(w, nil)", "(%d,%v)", i, ok)
			return
		}
		counts[i]++
	}
	a.eval("sampleuv.Weighted.Take|nil-source", N)
	a.near("nilsrc.dkw", "sampleuv.Weighted.Take|first-take|frequencies-outside-DKW-band", fmt.Sprintf("NewWeighted(%v, nil) trials=%d", w, N), discreteD(counts, w), 0, eps)
	// WithoutReplacement, both algorithms
	for _, kn := range [][2]int{{3, 8}, {3, 9}} {
		k, n := kn[0], kn[1]
		first := make([]int, n)
		idxs := make([]int, k)
		for t := 0; t < N; t++ {
			sampleuv.WithoutReplacement(idxs, n, nil)
			seen := map[int]bool{}
			for _, v := range idxs {
				if v < 0 || v >= n || seen[v] {
					a.fail("sampleuv.WithoutReplacement|-|not-distinct-indices-in-range", fmt.Sprintf("k=%d n=%d src=nil", k, n), "idxs = %v", idxs)
					return
				}
				seen[v] = true
			}
			first[idxs[0]]++
		}
		a.eval("sampleuv.WithoutReplacement|nil-source", N)
		u := make([]float64, n)
		for i := range u {
			u[i] = 1
		}
		a.near("nilsrc.dkw", "sampleuv.WithoutReplacement|-|first-index-not-uniform", fmt.Sprintf("k=%d n=%d src=nil trials=%d", k, n, N), discreteD(first, u), 0, eps)
	}
	// Rejection: output follows the target; proposal and acceptance both from the global generator
	target := distuv.Beta{Alpha: 2, Beta: 5}
	rj := &sampleuv.Rejection{C: 2.5, Target: target, Proposal: distuv.Uniform{Min: 0, Max: 1}, Src: nil}
	batch := make([]float64, N)
	rj.Sample(batch)
	a.eval("sampleuv.Rejection.Sample|nil-source", N)
	if rj.Err() != nil {
		a.fail("sampleuv.Rejection.Err|c-sufficient|spurious-error", "Beta(2,5) c=2.5 src=nil", "Err() = %v", rj.Err())
	} else {
		sort.Float64s(batch)
		a.near("nilsrc.dkw", "sampleuv.Rejection.Sample|c-sufficient|empirical-CDF-outside-DKW-band", fmt.Sprintf("Rejection Beta(2,5) c=2.5 src=nil N=%d", N), ksContinuous(batch, target.CDF), 0, eps)
	}
	// IIDer and Importance over nil-source distributions
	g := distuv.Gamma{Alpha: 2.5, Beta: 0.7}
	sampleuv.IIDer{Dist: g}.Sample(batch)
	sort.Float64s(batch)
	a.eval("sampleuv.IIDer.Sample|nil-source", N)
	a.near("nilsrc.dkw", "sampleuv.IIDer.Sample|-|empirical-CDF-outside-DKW-band", fmt.Sprintf("IIDer Gamma{2.5,0.7,nil} N=%d", N), ksContinuous(batch, g.CDF), 0, eps)
	tg := distuv.Normal{Mu: 1, Sigma: 0.5}
	pr := distuv.Laplace{Mu: 0.5, Scale: 1.5}
	wts := make([]float64, N)
	sampleuv.Importance{Target: tg, Proposal: pr}.SampleWeighted(batch, wts)
	a.eval("sampleuv.Importance.SampleWeighted|nil-source", N)
	for i, v := range batch {
		ww := math.Exp(tg.LogProb(v) - pr.LogProb(v))
		if !a.near("nilsrc.importance", "sampleuv.Importance.SampleWeighted|-|weight!=p/q", "Importance src=nil", wts[i], ww, 1e-14*ww) {
			break
		}
	}
	sort.Float64s(batch)
	a.near("nilsrc.dkw", "sampleuv.Importance.SampleWeighted|-|samples-do-not-follow-the-proposal", fmt.Sprintf("Importance Laplace{0.5,1.5,nil} N=%d", N), ksContinuous(batch, pr.CDF), 0, eps)
	// LatinHypercube: which stratum lands in slot 0 is uniform
	const n = 7
	slot := make([]int, n)
	b := make([]float64, n)
	for t := 0; t < N; t++ {
		sampleuv.LatinHypercube{Q: distuv.UnitUniform, Src: nil}.Sample(b)
		slot[int(math.Min(n-1, math.Floor(b[0]*n)))]++
	}
	a.eval("sampleuv.LatinHypercube.Sample|nil-source", N)
	u := []float64{1, 1, 1, 1, 1, 1, 1}
	a.near("nilsrc.dkw", "sampleuv.LatinHypercube.Sample|unit-uniform|stratum-of-first-slot-not-uniform", fmt.Sprintf("LatinHypercube n=7 src=nil trials=%d", N), discreteD(slot, u), 0, eps)
}

func (m *mon) nilSamplersMV(a *acc) {
	N := m.nDraws()
	eps := dkwEps(N)
	sg := mat.NewSymDense(2, []float64{4, 0.6, 0.6, 0.25})
	mu := []float64{3, -2}
	nn, _ := distmv.NewNormal(mu, sg, nil)
	b := mat.NewDense(N, 2, nil)
	samplemv.IID{Dist: nn}.Sample(b)
	a.eval("samplemv.IID.Sample|nil-source", N)
	for j := 0; j < 2; j++ {
		col := mat.Col(nil, j, b)
		sort.Float64s(col)
		d := distuv.Normal{Mu: mu[j], Sigma: math.Sqrt(sg.At(j, j))}
		a.near("nilsrc.dkw", "samplemv.IID.Sample|axis-projection|empirical-CDF-outside-DKW-band", fmt.Sprintf("IID Normal src=nil axis %d N=%d", j, N), ksContinuous(col, d.CDF), 0, eps)
	}
	// Rejection on the unit square: marginals x0 ~ 2x, x1 ~ 2(1-x)
	rj := &samplemv.Rejection{C: 4, Target: squareTarget{}, Proposal: distmv.NewUnitUniform(2, nil), Src: nil}
	rj.Sample(b)
	a.eval("samplemv.Rejection.Sample|nil-source", N)
	if rj.Err() != nil {
		a.fail("samplemv.Rejection.Err|c-sufficient|spurious-error", "square target c=4 src=nil", "Err() = %v", rj.Err())
	} else {
		c0, c1 := mat.Col(nil, 0, b), mat.Col(nil, 1, b)
		sort.Float64s(c0)
		sort.Float64s(c1)
		clamp := func(x float64) float64 { return math.Min(1, math.Max(0, x)) }
		a.near("nilsrc.dkw", "samplemv.Rejection.Sample|c-sufficient|empirical-CDF-outside-DKW-band", fmt.Sprintf("Rejection square src=nil axis 0 N=%d", N), ksContinuous(c0, func(x float64) float64 { x = clamp(x); return x * x }), 0, eps)
		a.near("nilsrc.dkw", "samplemv.Rejection.Sample|c-sufficient|empirical-CDF-outside-DKW-band", fmt.Sprintf("Rejection square src=nil axis 1 N=%d", N), ksContinuous(c1, func(x float64) float64 { x = clamp(x); return 1 - (1-x)*(1-x) }), 0, eps)
	}
	// Importance
	wide := mat.NewSymDense(2, []float64{9, 0.5, 0.5, 4})
	prop, _ := distmv.NewNormal([]float64{0, 0}, wide, nil)
	wts := make([]float64, N)
	samplemv.Importance{Target: nn, Proposal: prop}.SampleWeighted(b, wts)
	a.eval("samplemv.Importance.SampleWeighted|nil-source", N)
	for i := 0; i < N; i++ {
		v := b.RawRowView(i)
		ww := math.Exp(nn.LogProb(v) - prop.LogProb(v))
		if !a.near("nilsrc.importance", "samplemv.Importance.SampleWeighted|-|weight!=p/q", "Importance src=nil", wts[i], ww, 1e-12*ww+1e-300) {
			break
		}
	}
	col := mat.Col(nil, 0, b)
	sort.Float64s(col)
	a.near("nilsrc.dkw", "samplemv.Importance.SampleWeighted|-|samples-do-not-follow-the-proposal", fmt.Sprintf("Importance Normal src=nil axis 0 N=%d", N), ksContinuous(col, distuv.Normal{Mu: 0, Sigma: 3}.CDF), 0, eps)
	// distmv.Uniform with a nil source through NewUniform and NewUnitUniform is covered by mvRand; UniformPermutation: see runNilSrc.
	_ = r1.Interval{}
	_ = distmat.NewUnitVector
}

// recProposal records the proposals of a Metropolis-Hastings run.
type recProposal struct {
	inner interface {
		ConditionalRand(y float64) float64
		ConditionalLogProb(x, y float64) float64
	}
	from, to []float64
}

func (p *recProposal) ConditionalRand(y float64) float64 {
	x := p.inner.ConditionalRand(y)
	p.from = append(p.from, y)
	p.to = append(p.to, x)
	return x
}
func (p *recProposal) ConditionalLogProb(x, y float64) float64 {
	return p.inner.ConditionalLogProb(x, y)
}

// nilMH: with Src == nil only the acceptance uniforms come from the global
// generator. Every step must either keep the state or move to the recorded
// proposal; a proposal with acceptance ratio >= 1 must be taken and one with
// ratio 0 refused; and sum_t (accepted_t - min(1, ratio_t)) is a martingale
// with increments in [-1,1], so |sum| <= sqrt(2 T ln(2/delta)) (Azuma-Hoeffding).
func (m *mon) nilMH(a *acc) {
	T := m.nDraws()
	target := distuv.Normal{Mu: 1, Sigma: 2}
	for _, cfg := range [][2]int{{0, 0}, {0, 1}, {5, 1}, {0, 3}, {4, 2}} {
		burn, rate := cfg[0], cfg[1]
		rec := &recProposal{inner: &driftProposal{rng: m.c.RNG("nilsrc.mh.p", burn, rate), step: 1.5, drift: 0.3}}
		batch := make([]float64, T)
		mh := sampleuv.MetropolisHastings{Initial: -3, Target: target, Proposal: rec, Src: nil, BurnIn: burn, Rate: rate}
		class := fmt.Sprintf("burn-in=%d,rate=%d", burn, rate)
		where := fmt.Sprintf("sampleuv.MetropolisHastings src=nil BurnIn=%d Rate=%d n=%d", burn, rate, T)
		if msg, panicked := try(func() { mh.Sample(batch) }); panicked {
			a.fail("sampleuv.MetropolisHastings.Sample|"+class+"|panics", where, "panic: %s", msg)
			continue
		}
		a.eval("sampleuv.MetropolisHastings.Sample|nil-source,"+class, 1)
		// reconstruct the chain from the recorded proposals: the state
		// after step t is from[t+1] (the state the next proposal starts
		// from); accepted iff it equals to[t]
		var sum float64
		steps := len(rec.to)
		ok := true
		for t := 0; t+1 < steps && ok; t++ {
			cur, prop, next := rec.from[t], rec.to[t], rec.from[t+1]
			ratio := math.Exp(target.LogProb(prop) + rec.ConditionalLogProb(cur, prop) - rec.ConditionalLogProb(prop, cur) - target.LogProb(cur))
			acc := 0.0
			switch next {
			case prop:
				acc = 1
			case cur:
			default:
				// a restart of the chain (documented only at the very
				// beginning) shows up as a state that is neither
				a.fail("sampleuv.MetropolisHastings.Sample|"+class+"|state-is-neither-previous-state-nor-proposal", where, "step %d: from %v proposed %v, next state %v", t, cur, prop, next)
				ok = false
			}
			if ratio >= 1+1e-9 && acc == 0 && prop != cur {
				a.fail("sampleuv.MetropolisHastings.Sample|"+class+"|refused-a-proposal-with-ratio>=1", where, "step %d ratio %g", t, ratio)
				ok = false
			}
			sum += acc - math.Min(1, ratio)
		}
		if !ok {
			continue
		}
		if rec.from[0] != -3 {
			a.fail("sampleuv.MetropolisHastings.Sample|"+class+"|chain-does-not-start-at-Initial", where, "first proposal made from %v", rec.from[0])
		}
		er := rate
		if er == 0 {
			er = 1
		}
		if want := burn + 1 + (T-1)*er; steps != want {
			a.fail("sampleuv.MetropolisHastings.Sample|"+class+"|wrong-number-of-steps", where, "%d proposals, documented procedure takes %d", steps, want)
		}
		// the kept samples are states of that chain
		states := map[float64]bool{-3: true}
		for _, v := range rec.to {
			states[v] = true
		}
		for i, v := range batch {
			if !states[v] {
				a.fail("sampleuv.MetropolisHastings.Sample|"+class+"|sample-is-not-a-chain-state", where, "batch[%d] = %v", i, v)
				break
			}
		}
		bound := math.Sqrt(2 * float64(steps) * math.Log(2/dkwDelta))
		a.near("nilsrc.azuma", "sampleuv.MetropolisHastings.Sample|"+class+"|acceptance-frequency-outside-Azuma-band", where, sum, 0, bound)
	}
}
